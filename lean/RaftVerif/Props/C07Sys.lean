/-
C07 (client-visible semantics) on the cluster-level transition system — what an answer to an update means.

The system (`C07Sys.Sys`): the restricted cluster system of C19Sys (`Raft.Commit` of Sys/Commit.lean with the
assumptions `SysInv.EnabledG`, closed nodes frozen; `_partial` restrictions: fixed voter set `V`, fixed stable
configuration `SideV`, no snapshots / compaction, no configuration change `OpOK2`, `SideG`) extended by three ghost
ledgers:

* `subs`    — every item `(node i, task, type, payload)` of a client batch delivered to node `i` (`.newEntries`), with
              the coordinates `(lastIndex, lastTerm)` of `i`'s last log entry at that moment — recorded when the
              batch is handled to completion and also when the node dies while handling it;
* `tasks`   — every `(node, task id ≠ 0)` any operation has brought in (`C15Tasks.submitted`);
* `answers` — every completion `(node, task ≠ 0, result)` in the reply list of a COMPLETED step.

Additional assumptions on the client side (`EnabledC`), all explicit:
* task ids are fresh: the non-zero ids an operation brings to node `i` are pairwise distinct and were never brought
  to `i` before (the client library creates a new task object per request);
* **update payloads are distinct**: the update payloads of a delivered batch are pairwise distinct, differ from the
  payload of every earlier update submission (to any node) and from every update payload in the initial logs;
* modelling decision: a step that does not complete (the process dies) delivers no answer — its submissions are
  recorded, and whatever it stored and is found on disk counts as created (so such a submission is "ambiguous");
* initially (`Init`) the ledgers are empty and no client task is pending anywhere.

PROVED, for every reachable state / every run (`_partial`: the restrictions above); `cl_reachable`: the ledger
invariant `CL` (every queued task is a submission; every update entry a node created carries the payload of an update
submitted to that node, and is the only update entry with that payload; every value answer is backed by a committed
root path `ValPath`; a definite rejection means no entry; a task is answered once):
* `completed_update_took_effect_once_partial` (1), `rejected_update_never_takes_effect_partial` (2; `definite_iff`
  lists the results that count), `ambiguous_update_at_most_once_partial` (3), `real_time_order_partial` (4),
  `value_answer_is_committed_prefix_partial` (5a), `leader_read_reflects_accepted_partial` (5b),
  `dirty_read_is_committed_prefix_partial` (5c), `answered_at_most_once_partial` — see their doc comments.
NOT covered: `ok` answers (barriers, no-ops) are not tracked by the ledger invariant (node level:
`C07.reply_only_after_commit`). NOT TRUE in the model (`stale_read_by_deposed_leader`, a proved counterexample at the
end of the file): a read answered by a leader need not reflect updates completed by ANOTHER (newer) leader — a deposed
leader answers reads from its own committed log without contacting anybody; the Go code (`leader.storeEntry` /
`leader.applyCommitted`) does the same.
Examples: proved reachable states with a rejected update (`exSA`), a dirty read on a follower (`exSB`), an update
accepted, replicated, committed, applied and answered by an elected leader (`zs10`), and a second update and a read
answered after it (`zs13`, run `zs10 → zs13`); `decide +kernel` evaluates the steps, the commit steps are rewritten
first (`replUpdates_step_alt`) because `List.mergeSort` does not reduce.
-/
import RaftVerif.Lemmas.ClientRel
import RaftVerif.Props.C19Sys

namespace Raft
namespace C07Sys
open Node LogRel CommitRel Commit C02Sys C03Sys SysInv ClientRel NoPanic
open Replication (Uniq chainOf newCreated)
open Election (setNode setNode_same setNode_other)

/-! ### the ledgers -/

/-- a submission: an item of a client batch delivered to `node`; `lastIndex`, `lastTerm` (ghost): the coordinates
of the node's last log entry when the batch was delivered -/
structure Sub where
  node : Nat
  task : Nat
  typ : Nat
  data : String
  lastIndex : Nat
  lastTerm : Nat
  deriving DecidableEq, Repr

/-- an answer: the completion of `task` by `node` with the canonical `result` -/
structure Ans where
  node : Nat
  task : Nat
  result : String
  deriving DecidableEq, Repr

structure Sys where
  c : Commit.Sys
  subs : List Sub
  tasks : List (Nat × Nat)
  answers : List Ans

/-- node `i` of the cluster -/
abbrev Sys.node (x : Sys) (i : Nat) : Node := x.c.node i
/-- the tree of created entries -/
abbrev Sys.T (x : Sys) : List CEntry := x.c.T

/-- the submissions an operation delivers to node `i` (state `pre`) -/
def subsOf (i : Nat) (pre : Node) : Op → List Sub
  | .newEntries b => b.map (fun q => ⟨i, q.task, q.typ, q.data, pre.lastLogIndex, pre.lastLogTerm⟩)
  | _ => []

/-- the task ids an operation brings to node `i` -/
def tasksOf (i : Nat) (op : Op) : List (Nat × Nat) := (C15Tasks.submitted op).map (fun t => (i, t))

/-- the answers of a completed step of node `i` -/
def answersOf (i : Nat) (post : Node) : List Ans :=
  (post.replies.filter (fun r => r.task != 0)).map (fun r => ⟨i, r.task, r.result⟩)

/-- the update payloads an operation submits -/
def opUpd : Op → List String
  | .newEntries b => updData b
  | _ => []

/-- **assumptions on the client side** for an operation delivered to node `i`: fresh task ids, distinct update
payloads (see the file header) -/
structure EnabledC (x : Sys) (i : Nat) (op : Op) : Prop where
  idsNodup : (C15Tasks.submitted op).Nodup
  idsFresh : ∀ t ∈ C15Tasks.submitted op, (i, t) ∉ x.tasks
  updNodup : (opUpd op).Nodup
  updSubs : ∀ d ∈ opUpd op, ∀ s ∈ x.subs, s.typ = etUpdate → s.data ≠ d
  updTree : ∀ d ∈ opUpd op, ∀ c ∈ x.T, c.e.typ = etUpdate → c.e.data ≠ d

/-- the state after node `i` handled `op` to completion -/
def stepS (x : Sys) (i : Nat) (op : Op) (ra : List Nat) (ord : List (List Nat)) (src : Nat) : Sys :=
  { c := stepC x.c i op ra ord src
    subs := subsOf i (x.node i) op ++ x.subs
    tasks := tasksOf i op ++ x.tasks
    answers := answersOf i ((x.node i).step op ra ord) ++ x.answers }

/-- the state after node `i` died while handling `op` and restarted as `n` -/
def crashS (x : Sys) (i : Nat) (op : Op) (n : Node) : Sys :=
  { c := crashC x.c i op n
    subs := subsOf i (x.node i) op ++ x.subs
    tasks := tasksOf i op ++ x.tasks
    answers := x.answers }

/-- the transitions of `SysInv.TransG` with the client-side assumptions, and the ledgers -/
inductive Trans (x : Sys) : Sys → Prop
  | step (i : Nat) (op : Op) (ra : List Nat) (ord : List (List Nat)) (src : Nat) : Commit.Enabled x.c i op src →
      EnabledG x.c i op → (x.node i).closed = "" → EnabledC x i op → Trans x (stepS x i op ra ord src)
  | crash (i : Nat) (op : Op) (ra : List Nat) (ord : List (List Nat)) (src k retain : Nat) (sor : Bool)
      (n : Node) : Commit.Enabled x.c i op src → EnabledG x.c i op → ((x.node i).closed = "" ∨ k = 0) →
      Node.restart (C05.crashDisk (x.node i) op ra ord k) retain sor = some n → EnabledC x i op →
      Trans x (crashS x i op n)
  | send (i : Nat) (q : AppendReq) : i ≠ 0 → (x.node i).role = .leader → Replication.ReadFrom (x.node i) q →
      q.ldrCommitIndex ≤ (x.node i).commitIndex → Trans x { x with c := sendC x.c q }

theorem trans_c {x y : Sys} (h : Trans x y) : TransG x.c y.c := by
  cases h with
  | step i op ra ord src he heG ho _ => exact .step i op ra ord src he heG ho
  | crash i op ra ord src k retain sor n he heG ho hn _ => exact .crash i op ra ord src k retain sor n he heG ho hn
  | send i q hi hl hr hc => exact .send i q hi hl hr hc

/-- initial states: a good initial state of the cluster (`Commit.Init`, `SysInv.GInv`), empty ledgers, no client
task pending anywhere -/
structure Init (x : Sys) : Prop where
  c : Commit.Init x.c
  good : GInv x.c
  subs : x.subs = []
  tasks : x.tasks = []
  answers : x.answers = []
  idle : ∀ i, C15Tasks.TasksOK (x.node i) ∧ C15Tasks.pending (x.node i) = []

/-- states reachable with the side conditions of C19Sys in every state -/
inductive Reachable (V : List Nat) : Sys → Prop
  | init (x : Sys) : Init x → SideV V x.c → SideG x.c → Reachable V x
  | next (x y : Sys) : Reachable V x → Trans x y → SideV V y.c → SideG y.c → Reachable V y

/-- a run from `x` to `y` -/
inductive Run (V : List Nat) (x : Sys) : Sys → Prop
  | refl : Run V x x
  | next (y z : Sys) : Run V x y → Trans y z → SideV V z.c → SideG z.c → Run V x z

theorem reachable_c {V : List Nat} {x : Sys} (h : Reachable V x) : ReachableG V x.c := by
  induction h with
  | init x hi hs hg => exact .init _ hi.c hs hg hi.good
  | next x y _ ht hs hg ih => exact .next _ _ ih (trans_c ht) hs hg

theorem run_reachable {V : List Nat} {x y : Sys} (hx : Reachable V x) (h : Run V x y) : Reachable V y := by
  induction h with
  | refl => exact hx
  | next y z _ ht hs hg ih => exact .next y z ih ht hs hg

/-! ### list lemmas -/

theorem inj_of_nodup {α β : Type} (p : α → Bool) (f : α → β) : ∀ (l : List α), ((l.filter p).map f).Nodup →
    ∀ a ∈ l, ∀ a' ∈ l, p a = true → p a' = true → f a = f a' → a = a' := by
  intro l
  induction l with
  | nil => intro _ a ha; cases ha
  | cons x xs ih =>
    intro hn a ha a' ha' hp hp' hf
    have hmem : ∀ z ∈ xs, p z = true → f z ∈ (xs.filter p).map f := fun z hz hpz =>
      List.mem_map.mpr ⟨z, List.mem_filter.mpr ⟨hz, hpz⟩, rfl⟩
    by_cases hx : p x = true
    · rw [List.filter_cons_of_pos hx, List.map_cons, List.nodup_cons] at hn
      rcases List.mem_cons.mp ha with ha | ha <;> rcases List.mem_cons.mp ha' with ha' | ha'
      · rw [ha, ha']
      · exfalso; apply hn.1; rw [← ha, hf]; exact hmem a' ha' hp'
      · exfalso; apply hn.1; rw [← ha', ← hf]; exact hmem a ha hp
      · exact ih hn.2 a ha a' ha' hp hp' hf
    · rw [List.filter_cons_of_neg hx] at hn
      rcases List.mem_cons.mp ha with ha | ha
      · rw [ha] at hp; exact absurd hp hx
      · rcases List.mem_cons.mp ha' with ha' | ha'
        · rw [ha'] at hp'; exact absurd hp' hx
        · exact ih hn a ha a' ha' hp hp' hf

theorem mem_ups {es : List Entry} {e : Entry} (he : e ∈ es) (ht : e.typ = etUpdate) : e.data ∈ ups es := by
  unfold ups
  exact List.mem_map.mpr ⟨e, List.mem_filter.mpr ⟨he, by simp [ht]⟩, rfl⟩

theorem mem_updData {b : List QItem} {d : String} (h : d ∈ updData b) : ∃ q ∈ b, q.typ = etUpdate ∧ q.data = d := by
  unfold updData at h
  obtain ⟨q, hq, hd⟩ := List.mem_map.mp h
  obtain ⟨h1, h2⟩ := List.mem_filter.mp hq
  exact ⟨q, h1, by simpa using h2, hd⟩

theorem mem_updData_of {b : List QItem} {q : QItem} (hq : q ∈ b) (ht : q.typ = etUpdate) : q.data ∈ updData b := by
  unfold updData
  exact List.mem_map.mpr ⟨q, List.mem_filter.mpr ⟨hq, by simp [ht]⟩, rfl⟩

theorem ups_prefix {l l' : List Entry} (h : l <+: l') : ups l <+: ups l' := by
  obtain ⟨r, hr⟩ := h
  rw [← hr, ups_append]
  exact List.prefix_append _ _

/-- records of one chain whose update payloads are pairwise distinct: the payload determines the record -/
theorem chainOf_upd_inj (cr : Nat) : ∀ (es : List Entry) (pt : Nat), (ups es).Nodup →
    ∀ c ∈ chainOf cr pt es, ∀ c' ∈ chainOf cr pt es, c.e.typ = etUpdate → c'.e.typ = etUpdate →
      c.e.data = c'.e.data → c = c' := by
  intro es
  induction es with
  | nil => intro _ _ c hc; cases hc
  | cons e rest ih =>
    intro pt hn c hc c' hc' ht ht' hd
    have hcons : ups (e :: rest) = ups [e] ++ ups rest := ups_append [e] rest
    rw [hcons, ups_single] at hn
    simp only [chainOf, List.mem_cons] at hc hc'
    have hrest : (ups rest).Nodup := by
      split at hn
      · exact (List.nodup_cons.mp hn).2
      · exact hn
    have hhead : ∀ z ∈ chainOf cr e.term rest, z.e.typ = etUpdate → e.typ = etUpdate → z.e.data ≠ e.data := by
      intro z hz hzt het hzd
      rw [if_pos het] at hn
      exact (List.nodup_cons.mp hn).1 (by rw [← hzd]; exact mem_ups (C04Sys.mem_chainOf hz).2 hzt)
    rcases hc with hc | hc <;> rcases hc' with hc' | hc'
    · rw [hc, hc']
    · exfalso; rw [hc] at ht hd; exact hhead c' hc' ht' ht hd.symm
    · exfalso; rw [hc'] at ht' hd; exact hhead c hc ht ht' hd
    · exact ih _ hrest c hc c' hc' ht ht' hd

/-! ### the invariant -/

/-- **the committed root path behind a value answer** `n` to submission `s`: `p` is a root path of the tree whose last
entry is committed, `n` is the number of update entries on it; for an update `p` ends with the entry that carries its
payload; unless `s` is a dirty read, `p` extends the log the node had when `s` was delivered -/
def ValPath (x : Sys) (s : Sub) (n : Nat) (p : List Entry) : Prop :=
  Path x.T p ∧ (p ≠ [] → Committed x.c (p.length, lastTerm p)) ∧ n = (ups p).length ∧
  (s.typ = etUpdate → ∃ e, p.getLast? = some e ∧ e.typ = etUpdate ∧ e.data = s.data) ∧
  (s.typ ≠ etDirtyRead → s.lastIndex ≤ p.length ∧ (1 ≤ s.lastIndex → Holds p s.lastIndex s.lastTerm))

/-- the invariant of the client ledgers -/
structure CL (x : Sys) : Prop where
  tasksOK : ∀ i, C15Tasks.TasksOK (x.node i)
  /-- every pending task id was brought in by an operation -/
  pend : ∀ i, ∀ t ∈ C15Tasks.pending (x.node i), (i, t) ∈ x.tasks
  subTask : ∀ s ∈ x.subs, s.task ≠ 0 → (s.node, s.task) ∈ x.tasks
  /-- a task id names one submission -/
  subUniq : ∀ s ∈ x.subs, ∀ s' ∈ x.subs, s.node = s'.node → s.task = s'.task → s.task ≠ 0 → s = s'
  subNode : ∀ s ∈ x.subs, s.node ≠ 0
  /-- an update payload names one submission -/
  subData : ∀ s ∈ x.subs, ∀ s' ∈ x.subs, s.typ = etUpdate → s'.typ = etUpdate → s.data = s'.data → s = s'
  /-- every queued task is a submission to that node, delivered when the log was shorter than the item's index;
  the node's log still holds what it held then -/
  queue : ∀ i, ∀ q ∈ (x.node i).ldr.queue, q.task ≠ 0 → ∃ s ∈ x.subs, s.node = i ∧ s.task = q.task ∧
    s.typ = q.typ ∧ s.data = q.data ∧ s.lastIndex < q.index ∧
    (1 ≤ s.lastIndex → Holds (x.node i).log.entries s.lastIndex s.lastTerm)
  /-- every update entry a node created carries the payload of an update submitted to that node -/
  updSub : ∀ c ∈ x.T, c.cr ≠ 0 → c.e.typ = etUpdate →
    ∃ s ∈ x.subs, s.node = c.cr ∧ s.typ = etUpdate ∧ s.data = c.e.data
  /-- a created update entry is the only update entry with its payload -/
  updUniq : ∀ c ∈ x.T, ∀ c' ∈ x.T, c.cr ≠ 0 → c.e.typ = etUpdate → c'.e.typ = etUpdate →
    c.e.data = c'.e.data → c = c'
  /-- an update entry with the payload of a submission was created by the node the submission went to -/
  updCr : ∀ s ∈ x.subs, s.typ = etUpdate → ∀ c ∈ x.T, c.e.typ = etUpdate → c.e.data = s.data → c.cr = s.node
  ansTask : ∀ a ∈ x.answers, a.task ≠ 0 ∧ (a.node, a.task) ∈ x.tasks
  ansVal : ∀ a ∈ x.answers, ∀ n, a.result = valStr n →
    ∃ s ∈ x.subs, s.node = a.node ∧ s.task = a.task ∧ isValTyp s.typ ∧ ∃ p, ValPath x s n p
  ansDef : ∀ a ∈ x.answers, Definite a.result → ∀ s ∈ x.subs, s.node = a.node → s.task = a.task →
    s.typ = etUpdate → ∀ c ∈ x.T, c.e.typ = etUpdate → c.e.data ≠ s.data
  /-- an answered task is no longer pending -/
  ansNP : ∀ a ∈ x.answers, a.task ∉ C15Tasks.pending (x.node a.node)
  /-- a task is answered at most once -/
  ansOnce : ∀ a ∈ x.answers, ∀ a' ∈ x.answers, a.node = a'.node → a.task = a'.task → a = a'

/-! ### how a step or a crash of node `i` extends the ledgers of submissions, tasks and created entries -/

/-- `y` extends `x`: node `i` was handed `op`; the tree grew by the records of `es` (created by `i`), whose update
payloads are none, or a prefix of those of the batch -/
structure Grow (x y : Sys) (i : Nat) (op : Op) (es : List Entry) : Prop where
  id : i ≠ 0
  en : EnabledC x i op
  subs : y.subs = subsOf i (x.node i) op ++ x.subs
  tasks : y.tasks = tasksOf i op ++ x.tasks
  T : ∃ pt, y.T = chainOf i pt es ++ x.T
  upd : ups es <+: opUpd op

namespace Grow
variable {x y : Sys} {i : Nat} {op : Op} {es : List Entry}

theorem mem_new_sub (_g : Grow x y i op es) {s : Sub} (hs : s ∈ subsOf i (x.node i) op) :
    ∃ b, op = .newEntries b ∧ ∃ q ∈ b, s = ⟨i, q.task, q.typ, q.data, (x.node i).lastLogIndex, (x.node i).lastLogTerm⟩ := by
  cases op <;> try (cases hs)
  rename_i b
  obtain ⟨q, hq, e⟩ := List.mem_map.mp hs
  exact ⟨b, rfl, q, hq, e.symm⟩

theorem new_sub_task (g : Grow x y i op es) {s : Sub} (hs : s ∈ subsOf i (x.node i) op) (h0 : s.task ≠ 0) :
    s.node = i ∧ s.task ∈ C15Tasks.submitted op := by
  obtain ⟨b, rfl, q, hq, rfl⟩ := g.mem_new_sub hs
  refine ⟨rfl, ?_⟩
  unfold C15Tasks.submitted TL.submittedRaw
  exact List.mem_filter.mpr ⟨List.mem_map.mpr ⟨q, hq, rfl⟩, by simpa using h0⟩

theorem new_sub_upd (g : Grow x y i op es) {s : Sub} (hs : s ∈ subsOf i (x.node i) op) (ht : s.typ = etUpdate) :
    s.node = i ∧ s.data ∈ opUpd op := by
  obtain ⟨b, rfl, q, hq, rfl⟩ := g.mem_new_sub hs
  exact ⟨rfl, mem_updData_of hq ht⟩

theorem new_rec (g : Grow x y i op es) {c : CEntry} (hc : c ∈ y.T) :
    c ∈ x.T ∨ (c.cr = i ∧ c.e ∈ es ∧ (c.e.typ = etUpdate → c.e.data ∈ opUpd op)) := by
  obtain ⟨pt, hT⟩ := g.T
  rw [hT] at hc
  rcases List.mem_append.mp hc with hc | hc
  · obtain ⟨h1, h2⟩ := C04Sys.mem_chainOf hc
    exact Or.inr ⟨h1, h2, fun ht => g.upd.subset (mem_ups h2 ht)⟩
  · exact Or.inl hc

theorem subTask (g : Grow x y i op es) (h : CL x) : ∀ s ∈ y.subs, s.task ≠ 0 → (s.node, s.task) ∈ y.tasks := by
  intro s hs h0
  rw [g.subs] at hs; rw [g.tasks]
  rcases List.mem_append.mp hs with hs | hs
  · obtain ⟨e1, e2⟩ := g.new_sub_task hs h0
    exact List.mem_append_left _ (List.mem_map.mpr ⟨s.task, e2, by rw [e1]⟩)
  · exact List.mem_append_right _ (h.subTask s hs h0)

theorem subNode (g : Grow x y i op es) (h : CL x) : ∀ s ∈ y.subs, s.node ≠ 0 := by
  intro s hs
  rw [g.subs] at hs
  rcases List.mem_append.mp hs with hs | hs
  · obtain ⟨b, _, q, _, rfl⟩ := g.mem_new_sub hs
    exact g.id
  · exact h.subNode s hs

theorem subUniq (g : Grow x y i op es) (h : CL x) :
    ∀ s ∈ y.subs, ∀ s' ∈ y.subs, s.node = s'.node → s.task = s'.task → s.task ≠ 0 → s = s' := by
  intro s hs s' hs' hn ht h0
  rw [g.subs] at hs hs'
  have fresh : ∀ a ∈ subsOf i (x.node i) op, ∀ a' ∈ x.subs, a.node = a'.node → a.task = a'.task → a.task ≠ 0 → False := by
    intro a ha a' ha' e1 e2 e0
    obtain ⟨f1, f2⟩ := g.new_sub_task ha e0
    have := h.subTask a' ha' (by rw [← e2]; exact e0)
    rw [← e1, ← e2, f1] at this
    exact g.en.idsFresh _ f2 this
  rcases List.mem_append.mp hs with hs | hs <;> rcases List.mem_append.mp hs' with hs' | hs'
  · obtain ⟨b, rfl, q, hq, rfl⟩ := g.mem_new_sub hs
    obtain ⟨b', hb', q', hq', rfl⟩ := g.mem_new_sub hs'
    cases hb'
    have hnd : ((b.filter (fun q : QItem => decide (q.task ≠ 0))).map (·.task)).Nodup := by
      have := g.en.idsNodup
      unfold C15Tasks.submitted TL.submittedRaw at this
      rw [List.filter_map] at this
      exact this
    have := inj_of_nodup (fun q : QItem => decide (q.task ≠ 0)) (·.task) b hnd q hq q' hq' (by simpa using h0)
      (by have : q'.task ≠ 0 := by rw [← show q.task = q'.task from ht]; exact h0
          simpa using this) ht
    rw [this]
  · exact (fresh s hs s' hs' hn ht h0).elim
  · exact (fresh s' hs' s hs hn.symm ht.symm (by rw [← ht]; exact h0)).elim
  · exact h.subUniq s hs s' hs' hn ht h0

theorem subData (g : Grow x y i op es) (h : CL x) :
    ∀ s ∈ y.subs, ∀ s' ∈ y.subs, s.typ = etUpdate → s'.typ = etUpdate → s.data = s'.data → s = s' := by
  intro s hs s' hs' ht ht' hd
  rw [g.subs] at hs hs'
  have fresh : ∀ a ∈ subsOf i (x.node i) op, ∀ a' ∈ x.subs, a.typ = etUpdate → a'.typ = etUpdate → a.data = a'.data → False := by
    intro a ha a' ha' e1 e2 e3
    exact g.en.updSubs _ (g.new_sub_upd ha e1).2 a' ha' e2 e3.symm
  rcases List.mem_append.mp hs with hs | hs <;> rcases List.mem_append.mp hs' with hs' | hs'
  · obtain ⟨b, rfl, q, hq, rfl⟩ := g.mem_new_sub hs
    obtain ⟨b', hb', q', hq', rfl⟩ := g.mem_new_sub hs'
    cases hb'
    have hnd : ((b.filter (fun q => q.typ == etUpdate)).map (·.data)).Nodup := g.en.updNodup
    have := inj_of_nodup (fun q : QItem => q.typ == etUpdate) (·.data) b hnd q hq q' hq'
      (by simpa using ht) (by simpa using ht') hd
    rw [this]
  · exact (fresh s hs s' hs' ht ht' hd).elim
  · exact (fresh s' hs' s hs ht' ht hd.symm).elim
  · exact h.subData s hs s' hs' ht ht' hd

theorem updSub (g : Grow x y i op es) (h : CL x) : ∀ c ∈ y.T, c.cr ≠ 0 → c.e.typ = etUpdate →
    ∃ s ∈ y.subs, s.node = c.cr ∧ s.typ = etUpdate ∧ s.data = c.e.data := by
  intro c hc h0 ht
  rw [g.subs]
  rcases g.new_rec hc with hc | ⟨e1, _, e3⟩
  · obtain ⟨s, hs, k⟩ := h.updSub c hc h0 ht
    exact ⟨s, List.mem_append_right _ hs, k⟩
  · have hd := e3 ht
    cases op <;> try (cases hd)
    rename_i b
    obtain ⟨q, hq, hqt, hqd⟩ := mem_updData hd
    exact ⟨⟨i, q.task, q.typ, q.data, (x.node i).lastLogIndex, (x.node i).lastLogTerm⟩,
      List.mem_append_left _ (List.mem_map.mpr ⟨q, hq, rfl⟩), e1.symm, hqt, hqd⟩

theorem updUniq (g : Grow x y i op es) (h : CL x) : ∀ c ∈ y.T, ∀ c' ∈ y.T, c.cr ≠ 0 → c.e.typ = etUpdate →
    c'.e.typ = etUpdate → c.e.data = c'.e.data → c = c' := by
  intro c hc c' hc' h0 ht ht' hd
  rcases g.new_rec hc with hco | ⟨e1, e2, e3⟩ <;> rcases g.new_rec hc' with hco' | ⟨e1', e2', e3'⟩
  · exact h.updUniq c hco c' hco' h0 ht ht' hd
  · exact (g.en.updTree _ (e3' ht') c hco ht hd).elim
  · exact (g.en.updTree _ (e3 ht) c' hco' ht' hd.symm).elim
  · obtain ⟨pt, hT⟩ := g.T
    rw [hT] at hc hc'
    have hnd : (ups es).Nodup := List.Nodup.sublist g.upd.sublist g.en.updNodup
    have old : ∀ z ∈ x.T, z.e.typ = etUpdate → z.e.data ∈ opUpd op → False :=
      fun z hz hzt hzd => g.en.updTree _ hzd z hz hzt rfl
    rcases List.mem_append.mp hc with hc | hc <;> rcases List.mem_append.mp hc' with hc' | hc'
    · exact chainOf_upd_inj i es pt hnd c hc c' hc' ht ht' hd
    · exact (old c' hc' ht' (by rw [← hd]; exact e3 ht)).elim
    · exact (old c hc ht (e3 ht)).elim
    · exact (old c hc ht (e3 ht)).elim

theorem updCr (g : Grow x y i op es) (h : CL x) : ∀ s ∈ y.subs, s.typ = etUpdate → ∀ c ∈ y.T,
    c.e.typ = etUpdate → c.e.data = s.data → c.cr = s.node := by
  intro s hs ht c hc hct hd
  rw [g.subs] at hs
  rcases List.mem_append.mp hs with hs | hs <;> rcases g.new_rec hc with hco | ⟨e1, _, e3⟩
  · exact (g.en.updTree _ (g.new_sub_upd hs ht).2 c hco hct hd).elim
  · rw [e1, (g.new_sub_upd hs ht).1]
  · exact h.updCr s hs ht c hco hct hd
  · exact (g.en.updSubs _ (e3 hct) s hs ht hd.symm).elim

end Grow

/-! ### a completed step -/

theorem ValPath.mono {x y : Sys} {s : Sub} {n : Nat} {p : List Entry} (h : ValPath x s n p)
    (hT : ∀ c ∈ x.T, c ∈ y.T) (hC : ∀ m ∈ x.c.committed, m ∈ y.c.committed) : ValPath y s n p := by
  obtain ⟨h1, h2, h3, h4, h5⟩ := h
  refine ⟨h1.mono hT, fun hne => ?_, h3, h4, h5⟩
  obtain ⟨m, hm, ha⟩ := h2 hne
  exact ⟨m, hC m hm, ha.mono hT⟩

/-- a node that handled an append request which is not stale is a follower -/
theorem append_step_role (pre : Node) (q : AppendReq) (ra : List Nat) (ord : List (List Nat))
    (hst : ¬ q.term < pre.term) : (pre.step (.append q) ra ord).role = .follower := by
  have hpost : pre.step (.append q) ra ord =
      settle 6 (((pre.begin ra ord).onAppendEntries q).rpcDone false true) pre.role := rfl
  have hf : (((pre.begin ra ord).onAppendEntries q).rpcDone false true).role = .follower := by
    rw [(SameKey.rpcDone _ _ _).role]
    exact onAppendEntries_role _ q hst
  rw [hpost]
  rcases settle_follower_cases _ pre.role hf with e | e
  · rw [e]; exact hf
  · rw [e, (SameKey.releaseRole _ _).role]; exact hf

/-- what is known about the submissions to node `i` (state `pre`) in the ledger of `y` -/
def KnownAt (y : Sys) (i : Nat) (pre : Node) : Known := fun t typ d lb =>
  ∃ s ∈ y.subs, s.node = i ∧ s.task = t ∧ s.typ = typ ∧ s.data = d ∧ s.lastIndex = lb ∧
    (1 ≤ lb → Holds pre.log.entries lb s.lastTerm)

theorem holds_last_entry {s : Node} (hn : NWF s) (h : 1 ≤ s.lastLogIndex) :
    Holds s.log.entries s.lastLogIndex s.lastLogTerm := by
  rw [hn.last, hn.lastT]
  rw [hn.last] at h
  exact ⟨h, Nat.le_refl _, termAt_length _⟩

section step
variable {V : List Nat} {x : Sys} {i : Nat} {op : Op} {ra : List Nat} {ord : List (List Nat)} {src : Nat}

/-- the node-level facts about a completed step of the system -/
structure StepFacts (V : List Nat) (x : Sys) (i : Nat) (op : Op) (ra : List Nat) (ord : List (List Nat)) (src : Nat) :
    Prop where
  hV : V.Nodup
  rx : ReachableG V x.c
  he : Commit.Enabled x.c i op src
  heG : EnabledG x.c i op
  ho : (x.node i).closed = ""
  en : EnabledC x i op
  cl : CL x

namespace StepFacts

theorem sc (h : StepFacts V x i op ra ord src) : SC V x.c i op ra ord src :=
  ⟨h.hV, (inv_reachable h.hV (reachableG_V h.rx)).1, (inv_reachable h.hV (reachableG_V h.rx)).2, h.he⟩

theorem good (h : StepFacts V x i op ra ord src) :
    ((x.node i).step op ra ord).panicked = none ∧ Good true ((x.node i).step op ra ord) :=
  sc_good h.sc (reachableG_V h.rx) h.ho (ginv_reachable h.hV h.rx) h.heG

theorem fresh (h : StepFacts V x i op ra ord src) : C15Tasks.Fresh (x.node i) op :=
  ⟨h.en.idsNodup, fun t ht hp => h.en.idsFresh t ht (h.cl.pend i t hp)⟩

theorem tasks (h : StepFacts V x i op ra ord src) :
    (C15Tasks.submitted op ++ C15Tasks.pending (x.node i)).Perm
      (C15Tasks.answered ((x.node i).step op ra ord) ++ C15Tasks.pending ((x.node i).step op ra ord)) ∧
    (∀ r ∈ ((x.node i).step op ra ord).replies, r.task ≠ 0 →
      r.task ∈ C15Tasks.submitted op ++ C15Tasks.pending (x.node i)) ∧
    (C15Tasks.answered ((x.node i).step op ra ord)).Nodup ∧
    (∀ t ∈ C15Tasks.answered ((x.node i).step op ra ord), t ∉ C15Tasks.pending ((x.node i).step op ra ord)) ∧
    C15Tasks.TasksOK ((x.node i).step op ra ord) ∧ NoPanic.Good true ((x.node i).step op ra ord) :=
  C15Tasks.task_step_two (x.node i) op ra ord ((ginv_reachable h.hV h.rx).good i) h.ho
    (reqok' h.hV (reachableG_V h.rx) (ginv_reachable h.hV h.rx) h.he h.heG) (h.cl.tasksOK i) h.fresh

theorem preOK (h : StepFacts V x i op ra ord src) :
    PreOK (KnownAt (stepS x i op ra ord src) i (x.node i)) (x.node i) := by
  have hI := h.sc.inv
  have hFB := fsmInv_reachable h.hV (C19Sys.reachable_np_of_good V h.hV x.c h.rx) i
  refine ⟨hFB.fsm, ⟨(nwf hI i).prev, (nwf hI i).last⟩, ?_, ?_⟩
  · by_cases hl : (x.node i).role = .leader
    · exact hFB.queue hl
    · intro q hq
      rw [((h.cl.tasksOK i).quiet hl).1] at hq; cases hq
  · intro q hq h0
    obtain ⟨s, hs, e1, e2, e3, e4, e5, e6⟩ := h.cl.queue i q hq h0
    exact ⟨s.lastIndex, ⟨s, List.mem_append_right _ hs, e1, e2, e3, e4, rfl, e6⟩, e5⟩

theorem knownBatch (h : StepFacts V x i op ra ord src) : ∀ b, op = .newEntries b → ∀ q ∈ b, q.task ≠ 0 →
    KnownAt (stepS x i op ra ord src) i (x.node i) q.task q.typ q.data (x.node i).lastLogIndex := by
  intro b hb q hq _
  subst hb
  refine ⟨⟨i, q.task, q.typ, q.data, (x.node i).lastLogIndex, (x.node i).lastLogTerm⟩,
    List.mem_append_left _ (List.mem_map.mpr ⟨q, hq, rfl⟩), rfl, rfl, rfl, rfl, rfl, fun h1 => ?_⟩
  exact holds_last_entry (nwf h.sc.inv i) h1

/-- the node-level summary of the step (not an append request) -/
theorem cstep (h : StepFacts V x i op ra ord src) (happ : ∀ q, op ≠ .append q) :
    CStep (KnownAt (stepS x i op ra ord src) i (x.node i)) (x.node i) op ((x.node i).step op ra ord) :=
  client_step (x.node i) op ra ord h.preOK h.he.ok2 happ h.knownBatch h.good.1

/-- the entries the step appended (none for an append request) -/
theorem grow (h : StepFacts V x i op ra ord src) :
    ∃ es, Grow x (stepS x i op ra ord src) i op es ∧
      ((∀ q, op ≠ .append q) → ((x.node i).step op ra ord).log.entries = (x.node i).log.entries ++ es ∧
        (ups es ≠ [] → ∀ r ∈ ((x.node i).step op ra ord).replies, ¬ Definite r.result)) := by
  rcases SC.op_cases op with happ | ⟨q, rfl⟩
  · obtain ⟨es, l1, l2⟩ := (h.cstep happ).log
    refine ⟨es, ⟨h.he.rp.id, h.en, rfl, rfl, ⟨lastTerm (x.node i).log.entries, ?_⟩, ?_⟩, fun _ => ⟨l1, fun hne => ?_⟩⟩
    · show (stepC x.c i op ra ord src).T = _
      rw [h.sc.T_eq, C04Sys.newCreated_other _ _ _ _ happ, l1, List.drop_left]
    · rcases l2 with l2 | ⟨b, rfl, l2, _⟩
      · rw [l2]; exact List.nil_prefix
      · rw [l2]; exact List.prefix_refl _
    · rcases l2 with l2 | ⟨b, _, _, l3⟩
      · exact absurd l2 hne
      · exact l3
  · refine ⟨[], ⟨h.he.rp.id, h.en, rfl, rfl, ⟨0, ?_⟩, List.nil_prefix⟩, fun hc => absurd rfl (hc q)⟩
    show (stepC x.c i (.append q) ra ord src).T = _
    rw [h.sc.T_eq]; rfl

theorem node_i (h : StepFacts V x i op ra ord src) : (stepS x i op ra ord src).node i = (x.node i).step op ra ord :=
  h.sc.node_i

theorem node_j (h : StepFacts V x i op ra ord src) {j : Nat} (hj : j ≠ i) :
    (stepS x i op ra ord src).node j = x.node j := h.sc.node_j hj

theorem mem_answers (_h : StepFacts V x i op ra ord src) {a : Ans} (ha : a ∈ (stepS x i op ra ord src).answers) :
    a ∈ x.answers ∨ (a.node = i ∧ a.task ≠ 0 ∧
      (⟨a.task, a.result⟩ : Reply) ∈ ((x.node i).step op ra ord).replies) := by
  rcases List.mem_append.mp (show a ∈ answersOf i _ ++ x.answers from ha) with ha | ha
  · right
    obtain ⟨r, hr, e⟩ := List.mem_map.mp ha
    obtain ⟨h1, h2⟩ := List.mem_filter.mp hr
    rw [← e]
    exact ⟨rfl, by simpa using h2, h1⟩
  · exact Or.inl ha

/-- the value answers of the step -/
theorem new_val (h : StepFacts V x i op ra ord src) {r : Reply} (hr : r ∈ ((x.node i).step op ra ord).replies)
    {n : Nat} (hn : r.result = valStr n) :
    ∃ s ∈ (stepS x i op ra ord src).subs, s.node = i ∧ s.task = r.task ∧ isValTyp s.typ ∧
      ∃ p, ValPath (stepS x i op ra ord src) s n p := by
  rcases SC.op_cases op with happ | ⟨q, rfl⟩
  · have cs := h.cstep happ
    obtain ⟨typ, d, lb, ⟨s, hs, e1, e2, e3, e4, e5, e6⟩, hv, k, k1, k2, k3, k4⟩ := (cs.rep r hr).1 n hn
    have hIy := h.sc.cinv
    have hpath : Path (stepS x i op ra ord src).T ((x.node i).step op ra ord).log.entries := by
      have := log_path hIy i
      rwa [h.sc.node_i] at this
    have hlen : k ≤ ((x.node i).step op ra ord).log.entries.length := Nat.le_trans k1 cs.fsm.len
    obtain ⟨es, l1, _⟩ := cs.log
    refine ⟨s, hs, e1, e2, by rw [e3]; exact hv, ((x.node i).step op ra ord).log.entries.take k,
      hpath.prefix (List.take_prefix _ _), fun hne => ?_, k2, fun hu => ?_, fun hd => ?_⟩
    · have hk1 : 1 ≤ k := by
        cases k with
        | zero => exact absurd rfl hne
        | succ k => omega
      have hkc : k ≤ ((stepC x.c i op ra ord src).node i).commitIndex := by
        rw [h.sc.node_i]; exact Nat.le_trans k1 cs.fsm.le
      obtain ⟨_, m, hm, _, m2⟩ := covered_committed hIy hk1 hkc
      rw [h.sc.node_i] at m2
      rw [List.length_take, Nat.min_eq_left hlen, lastTerm_take _ _ hlen]
      exact ⟨m, hm, m2⟩
    · obtain ⟨hk1, e, he, he1, he2⟩ := k3 (by rw [← e3]; exact hu)
      refine ⟨e, ?_, he1, by rw [he2, e4]⟩
      rw [List.getLast?_eq_getElem?, List.length_take, Nat.min_eq_left hlen, List.getElem?_take_of_lt (by omega)]
      exact he
    · have hlb := k4 (by rw [← e3]; exact hd)
      rw [List.length_take, Nat.min_eq_left hlen]
      refine ⟨by rw [e5]; exact hlb, fun h1 => ?_⟩
      have hh := e6 (by rw [← e5]; exact h1)
      rw [← e5] at hh
      have hpost : Holds ((x.node i).step op ra ord).log.entries s.lastIndex s.lastTerm :=
        holds_prefix (by rw [l1]; exact List.prefix_append _ _) hh
      exact holds_of_prefix (List.take_prefix _ _) hpost
        (by rw [List.length_take, Nat.min_eq_left hlen, e5]; exact hlb)
  · exact absurd ⟨n, hn⟩ (append_step_replies (x.node i) q ra ord r hr).1

theorem ext (h : StepFacts V x i op ra ord src) :
    (∀ c ∈ x.T, c ∈ (stepS x i op ra ord src).T) ∧
    (∀ m ∈ x.c.committed, m ∈ (stepS x i op ra ord src).c.committed) :=
  ⟨h.sc.ext.T, h.sc.ext.committed⟩

/-- **the invariant after a completed step** -/
theorem inv (h : StepFacts V x i op ra ord src) : CL (stepS x i op ra ord src) := by
  obtain ⟨es, g, hes⟩ := h.grow
  have hcl := h.cl
  obtain ⟨tk1, tk2, tk3, tk4, tk5, _⟩ := h.tasks
  have hsubs : ∀ s ∈ x.subs, s ∈ (stepS x i op ra ord src).subs := fun s hs => List.mem_append_right _ hs
  have htasks : ∀ t ∈ x.tasks, t ∈ (stepS x i op ra ord src).tasks := fun t ht => List.mem_append_right _ ht
  have hnewt : ∀ t ∈ C15Tasks.submitted op, (i, t) ∈ (stepS x i op ra ord src).tasks :=
    fun t ht => List.mem_append_left _ (List.mem_map.mpr ⟨t, ht, rfl⟩)
  have hknown : ∀ t ∈ C15Tasks.submitted op ++ C15Tasks.pending (x.node i), (i, t) ∈ (stepS x i op ra ord src).tasks := by
    intro t ht
    rcases List.mem_append.mp ht with ht | ht
    · exact hnewt t ht
    · exact htasks _ (hcl.pend i t ht)
  -- an old answer of node `i`: its task is neither submitted now nor pending
  have hold : ∀ a ∈ x.answers, a.node = i → a.task ∉ C15Tasks.submitted op ++ C15Tasks.pending (x.node i) := by
    intro a ha hn hm
    rcases List.mem_append.mp hm with hm | hm
    · have := (hcl.ansTask a ha).2
      rw [hn] at this
      exact g.en.idsFresh _ hm this
    · have := hcl.ansNP a ha
      rw [hn] at this
      exact this hm
  have hansw : ∀ r ∈ ((x.node i).step op ra ord).replies, r.task ≠ 0 →
      r.task ∈ C15Tasks.answered ((x.node i).step op ra ord) := fun r hr h0 =>
    List.mem_filter.mpr ⟨List.mem_map.mpr ⟨r, hr, rfl⟩, by simpa using h0⟩
  refine ⟨fun j => ?_, fun j t ht => ?_, g.subTask hcl, g.subUniq hcl, g.subNode hcl, g.subData hcl,
    fun j q hq h0 => ?_, g.updSub hcl, g.updUniq hcl, g.updCr hcl, fun a ha => ?_, fun a ha n hn => ?_,
    fun a ha hd s hs e1 e2 ht c hc hct => ?_, fun a ha => ?_, fun a ha a' ha' en et => ?_⟩
  · -- tasksOK
    by_cases hj : j = i
    · subst hj; rw [h.node_i]; exact tk5
    · rw [h.node_j hj]; exact hcl.tasksOK j
  · -- pend
    by_cases hj : j = i
    · subst hj
      rw [h.node_i] at ht
      exact hknown t (tk1.symm.subset (List.mem_append_right _ ht))
    · rw [h.node_j hj] at ht; exact htasks _ (hcl.pend j t ht)
  · -- queue
    by_cases hj : j = i
    · subst hj
      rw [h.node_i] at hq ⊢
      rcases SC.op_cases op with happ | ⟨aq, rfl⟩
      · obtain ⟨lb, ⟨s, hs, e1, e2, e3, e4, e5, e6⟩, hlt⟩ := (h.cstep happ).queue q hq h0
        refine ⟨s, hs, e1, e2, e3, e4, by rw [e5]; exact hlt, fun h1 => ?_⟩
        have hh := e6 (by rw [← e5]; exact h1)
        rw [← e5] at hh
        exact holds_prefix (by rw [(hes happ).1]; exact List.prefix_append _ _) hh
      · by_cases hst : aq.term < (x.node j).term
        · obtain ⟨s1, _, _, _, _, _, _, s8, _⟩ := append_stale (x.node j) aq ra ord hst
          rw [s8] at hq
          obtain ⟨s, hs, k⟩ := hcl.queue j q hq h0
          rw [s1]
          exact ⟨s, hsubs s hs, k⟩
        · have hrole := append_step_role (x.node j) aq ra ord hst
          have := (tk5.quiet (by rw [hrole]; decide)).1
          rw [this] at hq; cases hq
    · rw [h.node_j hj] at hq ⊢
      obtain ⟨s, hs, k⟩ := hcl.queue j q hq h0
      exact ⟨s, hsubs s hs, k⟩
  · -- ansTask
    rcases h.mem_answers ha with ha | ⟨e1, e2, e3⟩
    · exact ⟨(hcl.ansTask a ha).1, htasks _ (hcl.ansTask a ha).2⟩
    · refine ⟨e2, ?_⟩
      rw [e1]
      exact hknown _ (tk2 _ e3 e2)
  · -- ansVal
    rcases h.mem_answers ha with ha | ⟨e1, e2, e3⟩
    · obtain ⟨s, hs, k1, k2, k3, p, hp⟩ := hcl.ansVal a ha n hn
      exact ⟨s, hsubs s hs, k1, k2, k3, p, hp.mono h.ext.1 h.ext.2⟩
    · obtain ⟨s, hs, k1, k2, k3, p, hp⟩ := h.new_val e3 hn
      exact ⟨s, hs, by rw [k1, e1], k2, k3, p, hp⟩
  · -- ansDef
    rw [g.subs] at hs
    rcases h.mem_answers ha with ha | ⟨f1, f2, f3⟩
    · rcases List.mem_append.mp hs with hs | hs
      · -- an old answer, a new submission: the task id is fresh
        have h0 : s.task ≠ 0 := by rw [e2]; exact (hcl.ansTask a ha).1
        obtain ⟨g1, g2⟩ := g.new_sub_task hs h0
        have := (hcl.ansTask a ha).2
        rw [← e1, ← e2, g1] at this
        exact (g.en.idsFresh _ g2 this).elim
      · rcases g.new_rec hc with hco | ⟨_, _, g3⟩
        · exact hcl.ansDef a ha hd s hs e1 e2 ht c hco hct
        · exact fun hcd => g.en.updSubs _ (g3 hct) s hs ht hcd.symm
    · -- an answer of this step
      rcases SC.op_cases op with happ | ⟨aq, rfl⟩
      · have hD : a.task ∈ TL.submittedRaw op := ((h.cstep happ).rep _ f3).2 hd
        have hD' : a.task ∈ C15Tasks.submitted op := List.mem_filter.mpr ⟨hD, by simpa using f2⟩
        rcases List.mem_append.mp hs with hs | hs
        · -- a submission of this step: nothing was stored
          rcases g.new_rec hc with hco | ⟨_, g2, g3⟩
          · exact fun hcd => g.en.updTree _ (g.new_sub_upd hs ht).2 c hco hct hcd
          · have hne : ups es ≠ [] := by
              intro he
              have := mem_ups g2 hct
              rw [he] at this; cases this
            exact ((hes happ).2 hne _ f3 hd).elim
        · -- an old submission cannot carry a fresh task id
          have := hcl.subTask s hs (by rw [e2]; exact f2)
          rw [e1, e2, f1] at this
          exact (g.en.idsFresh _ hD' this).elim
      · exact absurd hd (append_step_replies (x.node i) aq ra ord _ f3).2
  · -- ansNP
    rcases h.mem_answers ha with ha | ⟨f1, f2, f3⟩
    · by_cases hj : a.node = i
      · rw [hj, h.node_i]
        intro hp
        exact hold a ha hj (tk1.symm.subset (List.mem_append_right _ hp))
      · rw [h.node_j hj]; exact hcl.ansNP a ha
    · rw [f1, h.node_i]
      exact tk4 _ (hansw _ f3 f2)
  · -- ansOnce
    rcases h.mem_answers ha with ha | ⟨f1, f2, f3⟩ <;> rcases h.mem_answers ha' with ha' | ⟨f1', f2', f3'⟩
    · exact hcl.ansOnce a ha a' ha' en et
    · exact (hold a ha (by rw [en, f1']) (by rw [et]; exact tk2 _ f3' f2')).elim
    · exact (hold a' ha' (by rw [← en, f1]) (by rw [← et]; exact tk2 _ f3 f2)).elim
    · have hnd : ((((x.node i).step op ra ord).replies.filter (fun r : Reply => decide (r.task ≠ 0))).map
          (·.task)).Nodup := by
        have := tk3
        unfold C15Tasks.answered at this
        rw [List.filter_map] at this
        exact this
      have := inj_of_nodup (fun r : Reply => decide (r.task ≠ 0)) (·.task) _ hnd _ f3 _ f3'
        (by simpa using f2) (by simpa using f2') et
      have e1 : a.result = a'.result := congrArg Reply.result this
      cases a; cases a'
      simp only at en et e1
      subst en et e1
      rfl

end StepFacts
end step

/-! ### a crash during a step, and the restart -/

section crash
variable {V : List Nat} {x : Sys} {i : Nat} {op : Op} {ra : List Nat} {ord : List (List Nat)}
  {src k retain : Nat} {sor : Bool} {n : Node}

structure CrashFacts (V : List Nat) (x : Sys) (i : Nat) (op : Op) (ra : List Nat) (ord : List (List Nat))
    (src k retain : Nat) (sor : Bool) (n : Node) : Prop where
  hV : V.Nodup
  rx : ReachableG V x.c
  he : Commit.Enabled x.c i op src
  heG : EnabledG x.c i op
  ho : (x.node i).closed = "" ∨ k = 0
  hn : Node.restart (C05.crashDisk (x.node i) op ra ord k) retain sor = some n
  en : EnabledC x i op
  cl : CL x

namespace CrashFacts

theorem cc (h : CrashFacts V x i op ra ord src k retain sor n) : CC V x.c i op ra ord src k retain sor n :=
  ⟨⟨h.hV, (inv_reachable h.hV (reachableG_V h.rx)).1, (inv_reachable h.hV (reachableG_V h.rx)).2, h.he⟩, h.hn⟩

/-- what reached the disk beyond the old log is a prefix of what the completed step would have appended -/
theorem grow (h : CrashFacts V x i op ra ord src k retain sor n) :
    ∃ es, Grow x (crashS x i op n) i op es := by
  have cc := h.cc
  have hI := cc.sc.inv
  obtain ⟨_, _, _, _, _, _, _, _, f9⟩ := cc.facts
  rcases SC.op_cases op with happ | ⟨q, rfl⟩
  · refine ⟨n.log.entries.drop (x.node i).log.entries.length,
      ⟨h.he.rp.id, h.en, rfl, rfl, ⟨lastTerm (x.node i).log.entries, ?_⟩, ?_⟩⟩
    · show newCreated i (x.node i).log.entries n.log.entries op ++ x.T = _
      rw [C04Sys.newCreated_other _ _ _ _ happ]
    · have old : n.log.entries <+: (x.node i).log.entries →
          ups (n.log.entries.drop (x.node i).log.entries.length) <+: opUpd op := by
        intro w
        rw [List.drop_eq_nil_of_le w.length_le]
        exact List.nil_prefix
      rcases h.ho with ho | hk
      · have sf : StepFacts V x i op ra ord src := ⟨h.hV, h.rx, h.he, h.heG, ho, h.en, h.cl⟩
        obtain ⟨es, l1, l2⟩ := (sf.cstep happ).log
        rcases (cc.sc.img k).within happ with w | w
        · exact old (by rw [f9]; exact w)
        · rw [← f9, l1] at w
          rcases C04Sys.prefix_append_cases w with w | ⟨b', _, hb', e⟩
          · exact old w
          · rw [e, List.drop_left]
            refine List.IsPrefix.trans (ups_prefix hb') ?_
            rcases l2 with l2 | ⟨b, rfl, l2, _⟩
            · rw [l2]; exact List.nil_prefix
            · rw [l2]; exact List.prefix_refl _
      · subst hk
        apply old
        rw [f9]
        show (x.node i).log.durable.entries <+: _
        rw [durable_entries (nwf hI i)]
        exact List.take_prefix _ _
  · exact ⟨[], ⟨h.he.rp.id, h.en, rfl, rfl, ⟨0, rfl⟩, List.nil_prefix⟩⟩

theorem node_i (h : CrashFacts V x i op ra ord src k retain sor n) : (crashS x i op n).node i = n := h.cc.node_i

theorem node_j (h : CrashFacts V x i op ra ord src k retain sor n) {j : Nat} (hj : j ≠ i) :
    (crashS x i op n).node j = x.node j := h.cc.node_j hj

/-- **the invariant after a crash and restart** -/
theorem inv (h : CrashFacts V x i op ra ord src k retain sor n) : CL (crashS x i op n) := by
  obtain ⟨es, g⟩ := h.grow
  have hcl := h.cl
  have cc := h.cc
  obtain ⟨tn1, tn2⟩ := C19Sys.restart_tasksOK _ _ _ _ h.hn
  have hrole : n.role = .follower := cc.facts.2.2.2.1
  have hsubs : ∀ s ∈ x.subs, s ∈ (crashS x i op n).subs := fun s hs => List.mem_append_right _ hs
  have htasks : ∀ t ∈ x.tasks, t ∈ (crashS x i op n).tasks := fun t ht => List.mem_append_right _ ht
  refine ⟨fun j => ?_, fun j t ht => ?_, g.subTask hcl, g.subUniq hcl, g.subNode hcl, g.subData hcl,
    fun j q hq h0 => ?_, g.updSub hcl, g.updUniq hcl, g.updCr hcl, fun a ha => ?_, fun a ha n' hn => ?_,
    fun a ha hd s hs e1 e2 ht c hc hct => ?_, fun a ha => ?_, hcl.ansOnce⟩
  · by_cases hj : j = i
    · subst hj; rw [h.node_i]; exact tn1
    · rw [h.node_j hj]; exact hcl.tasksOK j
  · by_cases hj : j = i
    · subst hj; rw [h.node_i, tn2] at ht; cases ht
    · rw [h.node_j hj] at ht; exact htasks _ (hcl.pend j t ht)
  · by_cases hj : j = i
    · subst hj
      rw [h.node_i] at hq
      rw [(tn1.quiet (by rw [hrole]; decide)).1] at hq; cases hq
    · rw [h.node_j hj] at hq ⊢
      obtain ⟨s, hs, k⟩ := hcl.queue j q hq h0
      exact ⟨s, hsubs s hs, k⟩
  · exact ⟨(hcl.ansTask a ha).1, htasks _ (hcl.ansTask a ha).2⟩
  · obtain ⟨s, hs, k1, k2, k3, p, hp⟩ := hcl.ansVal a ha n' hn
    exact ⟨s, hsubs s hs, k1, k2, k3, p, hp.mono cc.ext.T cc.ext.committed⟩
  · have ha' : a ∈ x.answers := ha
    rw [g.subs] at hs
    rcases List.mem_append.mp hs with hs | hs
    · have h0 : s.task ≠ 0 := by rw [e2]; exact (hcl.ansTask a ha').1
      obtain ⟨g1, g2⟩ := g.new_sub_task hs h0
      have := (hcl.ansTask a ha').2
      rw [← e1, ← e2, g1] at this
      exact (g.en.idsFresh _ g2 this).elim
    · rcases g.new_rec hc with hco | ⟨_, _, g3⟩
      · exact hcl.ansDef a ha' hd s hs e1 e2 ht c hco hct
      · exact fun hcd => g.en.updSubs _ (g3 hct) s hs ht hcd.symm
  · by_cases hj : a.node = i
    · rw [hj, h.node_i, tn2]; exact fun hc => by cases hc
    · rw [h.node_j hj]; exact hcl.ansNP a ha

end CrashFacts
end crash

/-! ### the invariant holds in every reachable state -/

theorem cl_init {x : Sys} (h : Init x) : CL x := by
  have hq : ∀ i, (x.node i).ldr.queue = [] := fun i =>
    (((h.idle i).1).quiet (by rw [(h.c.rp.el.1 i).2.2]; decide)).1
  refine ⟨fun i => (h.idle i).1, fun i t ht => ?_, ?_, ?_, ?_, ?_, fun i q hq' => ?_, ?_, ?_, ?_, ?_, ?_, ?_, ?_, ?_⟩
  · rw [(h.idle i).2] at ht; cases ht
  · intro s hs; rw [h.subs] at hs; cases hs
  · intro s hs; rw [h.subs] at hs; cases hs
  · intro s hs; rw [h.subs] at hs; cases hs
  · intro s hs; rw [h.subs] at hs; cases hs
  · rw [hq i] at hq'; cases hq'
  · intro c hc h0; exact absurd (h.c.rp.cr0 c hc) h0
  · intro c hc c' _ h0; exact absurd (h.c.rp.cr0 c hc) h0
  · intro s hs; rw [h.subs] at hs; cases hs
  · intro a ha; rw [h.answers] at ha; cases ha
  · intro a ha; rw [h.answers] at ha; cases ha
  · intro a ha; rw [h.answers] at ha; cases ha
  · intro a ha; rw [h.answers] at ha; cases ha
  · intro a ha; rw [h.answers] at ha; cases ha

theorem cl_trans {V : List Nat} (hV : V.Nodup) {x y : Sys} (hx : Reachable V x) (hcl : CL x) (ht : Trans x y) :
    CL y := by
  cases ht with
  | step i op ra ord src he heG ho hen =>
    exact (StepFacts.mk hV (reachable_c hx) he heG ho hen hcl).inv
  | crash i op ra ord src k retain sor n he heG ho hn hen =>
    exact (CrashFacts.mk hV (reachable_c hx) he heG ho hn hen hcl).inv
  | send i q hi hl hr hc =>
    exact ⟨hcl.tasksOK, hcl.pend, hcl.subTask, hcl.subUniq, hcl.subNode, hcl.subData, hcl.queue, hcl.updSub,
      hcl.updUniq, hcl.updCr, hcl.ansTask, fun a ha n hn => by
        obtain ⟨s, hs, k1, k2, k3, p, hp⟩ := hcl.ansVal a ha n hn
        exact ⟨s, hs, k1, k2, k3, p, hp.mono (fun _ hc => hc) (fun _ hm => hm)⟩, hcl.ansDef, hcl.ansNP,
      hcl.ansOnce⟩

/-- **the ledger invariant holds in every reachable state** -/
theorem cl_reachable {V : List Nat} (hV : V.Nodup) {x : Sys} (h : Reachable V x) : CL x := by
  induction h with
  | init x hi _ _ => exact cl_init hi
  | next x y hx ht _ _ ih => exact cl_trans hV hx ih ht

/-! ### consequences of the invariants -/

theorem prefix_of_agree {α : Type} {p p' : List α} (_hle : p.length ≤ p'.length)
    (h : ∀ j, 1 ≤ j → j ≤ p.length → p[j - 1]? = p'[j - 1]?) : p <+: p' := by
  rw [List.prefix_iff_eq_take]
  apply List.ext_getElem?
  intro k
  rw [List.getElem?_take]
  split
  · rename_i hk
    have := h (k + 1) (by omega) (by omega)
    rw [Nat.add_sub_cancel] at this
    exact this
  · rename_i hk
    exact List.getElem?_eq_none (by omega)

/-- two root paths whose last entries are committed: the shorter one is a prefix of the longer one -/
theorem committed_paths_comparable {V : List Nat} {c : Commit.Sys} (hI : CInv V c) {p p' : List Entry}
    (hp : Path c.T p) (hp' : Path c.T p') (hc : p ≠ [] → Committed c (p.length, lastTerm p))
    (hc' : p' ≠ [] → Committed c (p'.length, lastTerm p')) (hle : p.length ≤ p'.length) : p <+: p' := by
  by_cases hne : p = []
  · rw [hne]; exact List.nil_prefix
  · have hl : 1 ≤ p.length := by
      cases p with
      | nil => exact absurd rfl hne
      | cons a as => simp
    have hne' : p' ≠ [] := by
      intro he
      have : p.length ≤ 0 := by rw [he] at hle; exact hle
      omega
    obtain ⟨m, hm, ha⟩ := hc hne
    obtain ⟨m', hm', ha'⟩ := hc' hne'
    have hU := uniq hI
    have hanc : Anc c.T (p.length, lastTerm p) (p'.length, lastTerm p') := by
      rcases committed_chain hI hm hm' with k | k
      · exact (ha.trans hU k).comparable hU ha' hle
      · exact ha.comparable hU (ha'.trans hU k) hle
    have h1 : Holds p' p'.length (lastTerm p') := ⟨by omega, Nat.le_refl _, termAt_length _⟩
    have h2 : Holds p' p.length (lastTerm p) := hanc.on_path hU hp' h1
    have h3 : Holds p p.length (lastTerm p) := ⟨hl, Nat.le_refl _, termAt_length _⟩
    exact prefix_of_agree hle (fun j hj1 hj2 => path_agree hU hp hp' h3 h2 j hj1 hj2)

/-- the log prefix a node has applied is a root path whose last entry is committed -/
theorem applied_path {V : List Nat} (hV : V.Nodup) {x : Sys} (h : Reachable V x) (j : Nat) :
    Path x.T ((x.node j).log.entries.take (x.node j).fsm.index) ∧
    ((x.node j).log.entries.take (x.node j).fsm.index ≠ [] →
      Committed x.c (((x.node j).log.entries.take (x.node j).fsm.index).length,
        lastTerm ((x.node j).log.entries.take (x.node j).fsm.index))) ∧
    (x.node j).fsm.applied = ups ((x.node j).log.entries.take (x.node j).fsm.index) := by
  have hR := reachable_c h
  obtain ⟨hI, _⟩ := inv_reachable hV (reachableG_V hR)
  have hFB := (fsmInv_reachable hV (C19Sys.reachable_np_of_good V hV x.c hR) j).fsm
  refine ⟨(log_path hI j).prefix (List.take_prefix _ _), fun hne => ?_, hFB.applied⟩
  have hlen : ((x.node j).log.entries.take (x.node j).fsm.index).length = (x.node j).fsm.index := by
    rw [List.length_take]; exact Nat.min_eq_left hFB.len
  have h1 : 1 ≤ (x.node j).fsm.index := by
    rw [← hlen]
    cases hh : (x.node j).log.entries.take (x.node j).fsm.index with
    | nil => exact absurd hh hne
    | cons a as => simp
  obtain ⟨_, m, hm, _, m2⟩ := covered_committed hI h1 hFB.le
  rw [hlen, lastTerm_take _ _ hFB.len]
  exact ⟨m, hm, m2⟩

theorem count_ups (d : String) : ∀ (L : List Entry),
    (ups L).count d = (L.filter (fun e => e.typ == etUpdate && e.data == d)).length := by
  intro L
  induction L with
  | nil => rfl
  | cons e es ih =>
    have hcons : ups (e :: es) = ups [e] ++ ups es := ups_append [e] es
    rw [hcons, List.count_append, ih, ups_single, List.filter_cons]
    by_cases h1 : e.typ = etUpdate
    · by_cases h2 : e.data = d
      · simp [h1, h2]; omega
      · simp [h1, h2]
    · simp [h1]

theorem filter_length_le_one {α : Type} (P : α → Bool) : ∀ (L : List α), L.Nodup →
    (∀ a ∈ L, ∀ b ∈ L, P a = true → P b = true → a = b) → (L.filter P).length ≤ 1 := by
  intro L
  induction L with
  | nil => intro _ _; simp
  | cons x xs ih =>
    intro hn hall
    have hn' := List.nodup_cons.mp hn
    have hxs := ih hn'.2 (fun a ha b hb => hall a (List.mem_cons_of_mem _ ha) b (List.mem_cons_of_mem _ hb))
    by_cases hx : P x = true
    · rw [List.filter_cons_of_pos hx]
      have : xs.filter P = [] := by
        apply List.filter_eq_nil_iff.mpr
        intro a ha hpa
        have := hall a (List.mem_cons_of_mem _ ha) x (List.mem_cons_self ..) hpa hx
        rw [this] at ha
        exact hn'.1 ha
      rw [this]; simp
    · rw [List.filter_cons_of_neg hx]; exact hxs

theorem contig_nodup {L : List Entry} (hc : Contig L) : L.Nodup := by
  rw [List.nodup_iff_pairwise_ne, List.pairwise_iff_getElem]
  intro a b ha hb hab he
  have h1 := hc a ha
  have h2 := hc b hb
  rw [he] at h1
  omega

/-- on a root path an update payload that belongs to a submission occurs at most once -/
theorem path_payload_once {x : Sys} (hcl : CL x) {s : Sub} (hs : s ∈ x.subs) (ht : s.typ = etUpdate)
    {L : List Entry} (hp : Path x.T L) : (ups L).count s.data ≤ 1 := by
  rw [count_ups]
  apply filter_length_le_one _ L (contig_nodup hp.2)
  intro a ha b hb hpa hpb
  simp only [Bool.and_eq_true, beq_iff_eq] at hpa hpb
  obtain ⟨ca, hca, ea⟩ := C04Sys.chain_mem hp.1 a ha
  obtain ⟨cb, hcb, eb⟩ := C04Sys.chain_mem hp.1 b hb
  have hcr : ca.cr = s.node := hcl.updCr s hs ht ca hca (by rw [ea]; exact hpa.1) (by rw [ea]; exact hpa.2)
  have := hcl.updUniq ca hca cb hcb (by rw [hcr]; exact hcl.subNode s hs) (by rw [ea]; exact hpa.1)
    (by rw [eb]; exact hpb.1) (by rw [ea, eb, hpa.2, hpb.2])
  rw [← ea, ← eb, this]

/-- along a run the ledgers only grow -/
theorem run_mono {V : List Nat} {x y : Sys} (h : Run V x y) :
    (∀ s ∈ x.subs, s ∈ y.subs) ∧ (∀ a ∈ x.answers, a ∈ y.answers) ∧ (∀ c ∈ x.T, c ∈ y.T) ∧
    (∀ m ∈ x.c.committed, m ∈ y.c.committed) := by
  induction h with
  | refl => exact ⟨fun _ h => h, fun _ h => h, fun _ h => h, fun _ h => h⟩
  | next y z _ ht _ _ ih =>
    obtain ⟨i1, i2, i3, i4⟩ := ih
    cases ht with
    | step i op ra ord src he heG ho hen =>
      exact ⟨fun s hs => List.mem_append_right _ (i1 s hs), fun a ha => List.mem_append_right _ (i2 a ha),
        fun c hc => List.mem_append_right _ (i3 c hc), fun m hm => List.mem_append_right _ (i4 m hm)⟩
    | crash i op ra ord src k retain sor n he heG ho hn hen =>
      exact ⟨fun s hs => List.mem_append_right _ (i1 s hs), i2,
        fun c hc => List.mem_append_right _ (i3 c hc), i4⟩
    | send i q hi hl hr hc => exact ⟨i1, i2, i3, i4⟩

/-- a submission made after `x`: its update payload is not in the tree of `x` -/
theorem fresh_after {V : List Nat} {x y : Sys} (h : Run V x y) {s : Sub} (hs : s ∈ y.subs) (hn : s ∉ x.subs)
    (ht : s.typ = etUpdate) : ∀ c ∈ x.T, c.e.typ = etUpdate → c.e.data ≠ s.data := by
  induction h with
  | refl => exact absurd hs hn
  | next y z hxy htr _ _ ih =>
    have hm := (run_mono hxy).2.2.1
    have key : ∀ (i : Nat) (op : Op), EnabledC y i op → s ∈ subsOf i (y.node i) op ++ y.subs →
        ∀ c ∈ x.T, c.e.typ = etUpdate → c.e.data ≠ s.data := by
      intro i op hen hs' c hc hct
      rcases List.mem_append.mp hs' with hs' | hs'
      · cases op <;> try (cases hs')
        rename_i b _
        obtain ⟨q, hq, e⟩ := List.mem_map.mp hs'
        have hd : s.data ∈ opUpd (.newEntries b) := by
          rw [← e]
          rw [← e] at ht
          exact mem_updData_of hq ht
        exact hen.updTree _ hd c (hm c hc) hct
      · exact ih hs' c hc hct
    cases htr with
    | step i op ra ord src he heG ho hen => exact key i op hen hs
    | crash i op ra ord src k retain sor n he heG ho hn' hen => exact key i op hen hs
    | send i q hi hl hr hc => exact ih hs

/-! ### the theorems -/

/-- **C07 (1), a completed update took effect exactly once, at the reported position (partial: the restrictions and
assumptions of the file header).** Let `x` be a reachable state, `s` an update submitted to node `s.node` with task
id `s.task ≠ 0`, and `a` an answer of that node to that task with the value `val:<n>`. Then there is exactly one
record `c` in the tree of created entries that is an update entry with the payload of `s`; it was created by the node
`s` was submitted to; it is committed; `n ≥ 1`; on every node `j` whose commit index covers its index `k`, the log holds
the entry at `k` and `n` is the number of update entries among the log entries `1 … k`; every node that has applied
index `k` holds the payload at position `n` of its applied sequence (the one sequence of C03Sys); and no node's
applied sequence holds the payload twice. -/
theorem completed_update_took_effect_once_partial (V : List Nat) (hV : V.Nodup) (x : Sys) (h : Reachable V x)
    (s : Sub) (hs : s ∈ x.subs) (ht : s.typ = etUpdate) (h0 : s.task ≠ 0)
    (a : Ans) (ha : a ∈ x.answers) (han : a.node = s.node) (hat : a.task = s.task) (n : Nat)
    (hr : a.result = valStr n) :
    ∃ c ∈ x.T, c.cr = s.node ∧ c.e.typ = etUpdate ∧ c.e.data = s.data ∧
      (∀ c' ∈ x.T, c'.e.typ = etUpdate → c'.e.data = s.data → c' = c) ∧
      Committed x.c (key c) ∧ 1 ≤ n ∧
      (∀ j, c.e.index ≤ (x.node j).commitIndex →
        (x.node j).log.entries[c.e.index - 1]? = some c.e ∧
        n = (ups ((x.node j).log.entries.take c.e.index)).length) ∧
      (∀ j, c.e.index ≤ (x.node j).fsm.index → (x.node j).fsm.applied[n - 1]? = some s.data) ∧
      (∀ j, (x.node j).fsm.applied.count s.data ≤ 1) := by
  have hcl := cl_reachable hV h
  have hR := reachable_c h
  obtain ⟨hI, _⟩ := inv_reachable hV (reachableG_V hR)
  obtain ⟨s', hs', e1, e2, _, p, hp1, hp2, hp3, hp4, _⟩ := hcl.ansVal a ha n hr
  have hss : s' = s := hcl.subUniq s' hs' s hs (by rw [e1, han]) (by rw [e2, hat]) (by rw [e2, hat]; exact h0)
  subst hss
  obtain ⟨e, hlast, het, hed⟩ := hp4 ht
  have hne : p ≠ [] := by intro he; rw [he] at hlast; cases hlast
  have hl : 1 ≤ p.length := by
    cases p with
    | nil => exact absurd rfl hne
    | cons a as => simp
  have hh : Holds p p.length (lastTerm p) := ⟨hl, Nat.le_refl _, termAt_length _⟩
  obtain ⟨c, hc, ci, ct, cg⟩ := path_record hp1 hh
  have hce : c.e = e := by
    rw [List.getLast?_eq_getElem?] at hlast
    rw [hlast] at cg
    injection cg with cg; exact cg.symm
  have hcr : c.cr = s'.node := hcl.updCr s' hs ht c hc (by rw [hce]; exact het) (by rw [hce]; exact hed)
  have hkey : key c = (p.length, lastTerm p) := by unfold key; rw [ci, ct]
  -- the path splits into the entries before and the entry itself
  have hsplit : p = p.dropLast ++ [e] := by
    obtain ⟨ys, hys⟩ := List.getLast?_eq_some_iff.mp hlast
    rw [hys]; simp
  have hn1 : n = (ups p.dropLast).length + 1 := by
    rw [hp3, hsplit, ups_append, ups_single, if_pos het]
    simp
  have hagree : ∀ j, c.e.index ≤ (x.node j).commitIndex → (x.node j).log.entries.take c.e.index = p := by
    intro j hj
    rw [ci] at hj ⊢
    obtain ⟨hhj, m, hm, _, m2⟩ := covered_committed hI hl hj
    have := committed_unique hI ⟨m, hm, m2⟩ (hp2 hne) rfl
    have htm : termAt (x.node j).log.entries p.length = lastTerm p := congrArg Prod.snd this
    rw [htm] at hhj
    have hpre : p <+: (x.node j).log.entries :=
      prefix_of_agree hhj.2.1 (fun k hk1 hk2 => path_agree (uniq hI) hp1 (log_path hI j) hh hhj k hk1 hk2)
    exact (List.prefix_iff_eq_take.mp hpre).symm
  refine ⟨c, hc, hcr, by rw [hce]; exact het, by rw [hce]; exact hed, fun c' hc' h1 h2 => ?_, ?_, by omega,
    fun j hj => ?_, fun j hj => ?_, fun j => ?_⟩
  · exact (hcl.updUniq c hc c' hc' (by rw [hcr]; exact hcl.subNode s' hs) (by rw [hce]; exact het) h1
      (by rw [hce, hed, h2])).symm
  · rw [hkey]; exact hp2 hne
  · have hk := hagree j hj
    refine ⟨?_, by rw [hk]; exact hp3⟩
    have := congrArg (fun l => l[c.e.index - 1]?) hk
    simp only [List.getElem?_take] at this
    rw [if_pos (by rw [ci]; omega)] at this
    rw [this, ci]; exact cg
  · obtain ⟨_, _, happ⟩ := applied_path hV h j
    have hFB := (fsmInv_reachable hV (C19Sys.reachable_np_of_good V hV x.c hR) j).fsm
    have hk := hagree j (Nat.le_trans hj hFB.le)
    rw [happ, take_split _ _ _ hj, ups_append, hk, hsplit, ups_append, ups_single, if_pos het, hn1,
      Nat.add_sub_cancel, List.append_assoc, List.getElem?_append_right (Nat.le_refl _), Nat.sub_self, hed]
    rfl
  · obtain ⟨hpj, _, happ⟩ := applied_path hV h j
    rw [happ]
    exact path_payload_once hcl hs ht hpj

/-- a payload a node has applied is the payload of an update entry of the tree -/
theorem applied_in_tree {V : List Nat} (hV : V.Nodup) {x : Sys} (h : Reachable V x) (j : Nat) (d : String)
    (hd : d ∈ (x.node j).fsm.applied) : ∃ c ∈ x.T, c.e.typ = etUpdate ∧ c.e.data = d := by
  obtain ⟨hp, _, happ⟩ := applied_path hV h j
  rw [happ] at hd
  unfold ups at hd
  obtain ⟨e, he, hed⟩ := List.mem_map.mp hd
  obtain ⟨he1, he2⟩ := List.mem_filter.mp he
  obtain ⟨c, hc, hce⟩ := C04Sys.chain_mem hp.1 e he1
  exact ⟨c, hc, by rw [hce]; simpa using he2, by rw [hce]; exact hed⟩

/-- **C07 (2), an update that was rejected definitively never takes effect (partial; same assumptions).** The
definite rejections (`ClientRel.Definite`) are exactly the results the model gives on paths that store nothing:
`notLeader:<leader>:false` (the node is not leader and did not lose leadership while the entry was pending),
`inProgress:transferLeadership`, `inProgress:demoteLeader`, `inProgress:removeLeader`. Let `x` be reachable, `s` an
update submitted to node `s.node` and `a` an answer of that node to its task with a definite rejection. Then in `x`
and in every later state `y` of the run no record of the tree of created entries is an update entry with the payload
of `s` — it is in no node's log — and no node has applied the payload. -/
theorem rejected_update_never_takes_effect_partial (V : List Nat) (hV : V.Nodup) (x y : Sys) (h : Reachable V x)
    (hrun : Run V x y) (s : Sub) (hs : s ∈ x.subs) (ht : s.typ = etUpdate)
    (a : Ans) (ha : a ∈ x.answers) (han : a.node = s.node) (hat : a.task = s.task) (hd : Definite a.result) :
    (∀ c ∈ y.T, c.e.typ = etUpdate → c.e.data ≠ s.data) ∧
    (∀ j, ∀ e ∈ (y.node j).log.entries, e.typ = etUpdate → e.data ≠ s.data) ∧
    (∀ j, s.data ∉ (y.node j).fsm.applied) := by
  have hy := run_reachable h hrun
  have hcl := cl_reachable hV hy
  obtain ⟨m1, m2, _, _⟩ := run_mono hrun
  have key := hcl.ansDef a (m2 a ha) hd s (m1 s hs) han.symm hat.symm ht
  obtain ⟨hI, _⟩ := inv_reachable hV (reachableG_V (reachable_c hy))
  refine ⟨key, fun j e he het hed => ?_, fun j hj => ?_⟩
  · obtain ⟨c, hc, hce⟩ := C04Sys.chain_mem (log_path hI j).1 e he
    exact key c hc (by rw [hce]; exact het) (by rw [hce]; exact hed)
  · obtain ⟨c, hc, h1, h2⟩ := applied_in_tree hV hy j s.data hj
    exact key c hc h1 h2

/-- the results that count as definite rejections, spelled out -/
theorem definite_iff (r : String) : Definite r ↔
    ((∃ l : Nat, r = s!"notLeader:{l}:{false}") ∨ r = "inProgress:transferLeadership" ∨
      r = "inProgress:demoteLeader" ∨ r = "inProgress:removeLeader") := Iff.rfl

/-- **C07 (3), any submission takes effect at most once — whatever its answer, also without an answer (ambiguous
failures: `notLeader:<l>:true`, `plain:serverClosed`, a process that died) (partial; same assumptions).** For an
update `s` submitted in a reachable state `x`: the tree of created entries holds at most one update entry with its
payload (in whatever state, by whatever node it was stored: `C07.store_order` stamps every item of a batch once), that
record was created by the node `s` was submitted to, and the payload occurs at most once in any node's log and in any
node's applied sequence. -/
theorem ambiguous_update_at_most_once_partial (V : List Nat) (hV : V.Nodup) (x : Sys) (h : Reachable V x)
    (s : Sub) (hs : s ∈ x.subs) (ht : s.typ = etUpdate) :
    (∀ c ∈ x.T, ∀ c' ∈ x.T, c.e.typ = etUpdate → c'.e.typ = etUpdate → c.e.data = s.data → c'.e.data = s.data →
      c = c' ∧ c.cr = s.node) ∧
    (∀ j, (ups (x.node j).log.entries).count s.data ≤ 1) ∧
    (∀ j, (x.node j).fsm.applied.count s.data ≤ 1) := by
  have hcl := cl_reachable hV h
  obtain ⟨hI, _⟩ := inv_reachable hV (reachableG_V (reachable_c h))
  refine ⟨fun c hc c' hc' h1 h2 h3 h4 => ?_, fun j => path_payload_once hcl hs ht (log_path hI j), fun j => ?_⟩
  · have hcr := hcl.updCr s hs ht c hc h1 h3
    exact ⟨hcl.updUniq c hc c' hc' (by rw [hcr]; exact hcl.subNode s hs) h1 h2 (by rw [h3, h4]), hcr⟩
  · obtain ⟨hpj, _, happ⟩ := applied_path hV h j
    rw [happ]
    exact path_payload_once hcl hs ht hpj

/-- **C07 (4), real-time order (partial; same assumptions).** Let update `A` be answered `val:<a>` in the reachable
state `x`, and let update `B` be submitted (to any node) after `x` — `B` is not in the ledger of `x` — and answered
`val:<b>` in a later state `y` of the run. Then `a < b`: in the one applied sequence `A` precedes `B`. -/
theorem real_time_order_partial (V : List Nat) (hV : V.Nodup) (x y : Sys) (h : Reachable V x) (hrun : Run V x y)
    (sA : Sub) (hsA : sA ∈ x.subs) (htA : sA.typ = etUpdate) (h0A : sA.task ≠ 0)
    (aA : Ans) (haA : aA ∈ x.answers) (hnA : aA.node = sA.node) (htkA : aA.task = sA.task) (a : Nat)
    (hrA : aA.result = valStr a)
    (sB : Sub) (hsB : sB ∈ y.subs) (hnew : sB ∉ x.subs) (htB : sB.typ = etUpdate) (h0B : sB.task ≠ 0)
    (aB : Ans) (haB : aB ∈ y.answers) (hnB : aB.node = sB.node) (htkB : aB.task = sB.task) (b : Nat)
    (hrB : aB.result = valStr b) : a < b := by
  have hy := run_reachable h hrun
  have hclx := cl_reachable hV h
  have hcly := cl_reachable hV hy
  obtain ⟨m1, _, m3, m4⟩ := run_mono hrun
  obtain ⟨hIy, _⟩ := inv_reachable hV (reachableG_V (reachable_c hy))
  -- the path behind A's answer, in the tree of `x`
  obtain ⟨s1, hs1, e1, e2, _, pA, hpA⟩ := hclx.ansVal aA haA a hrA
  have hs1' : s1 = sA := hclx.subUniq s1 hs1 sA hsA (by rw [e1, hnA]) (by rw [e2, htkA]) (by rw [e2, htkA]; exact h0A)
  subst hs1'
  obtain ⟨s2, hs2, f1, f2, _, pB, hpB⟩ := hcly.ansVal aB haB b hrB
  have hs2' : s2 = sB := hcly.subUniq s2 hs2 sB hsB (by rw [f1, hnB]) (by rw [f2, htkB]) (by rw [f2, htkB]; exact h0B)
  subst hs2'
  obtain ⟨pA1y, pA2y, _, _, _⟩ := (ValPath.mono hpA m3 m4 : ValPath y s1 a pA)
  obtain ⟨pA1, _, pA3, pA4, _⟩ := hpA
  obtain ⟨pB1, pB2, pB3, pB4, _⟩ := hpB
  obtain ⟨eA, hlA, _, _⟩ := pA4 htA
  obtain ⟨eB, hlB, hBt, hBd⟩ := pB4 htB
  have hfresh := fresh_after hrun hsB hnew htB
  -- B's entry is not on A's path
  have hnot : eB ∉ pA := by
    intro hmem
    obtain ⟨c, hc, hce⟩ := C04Sys.chain_mem pA1.1 eB hmem
    exact hfresh c hc (by rw [hce]; exact hBt) (by rw [hce]; exact hBd)
  have hBmem : eB ∈ pB := List.mem_of_getLast? hlB
  rcases Nat.le_total pB.length pA.length with hle | hle
  · have hpre := committed_paths_comparable hIy pB1 pA1y pB2 pA2y hle
    exact absurd (hpre.subset hBmem) hnot
  · have hpre := committed_paths_comparable hIy pA1y pB1 pA2y pB2 hle
    obtain ⟨r, hr⟩ := hpre
    have hrne : r ≠ [] := by
      intro he
      rw [he, List.append_nil] at hr
      rw [hr] at hnot
      exact hnot hBmem
    have hlast : r.getLast? = some eB := by
      rw [← hr, List.getLast?_append] at hlB
      cases hrl : r.getLast? with
      | none => exact absurd (List.getLast?_eq_none_iff.mp hrl) hrne
      | some z => rw [hrl] at hlB; exact hlB
    have hmemr : eB ∈ r := List.mem_of_getLast? hlast
    have h1 : 1 ≤ (ups r).length := List.length_pos_of_mem (mem_ups hmemr hBt)
    rw [pA3, pB3, ← hr, ups_append, List.length_append]
    omega

/-- **C07 (5a), a value answer is the length of a committed prefix of the one applied sequence (partial; same
assumptions)** — for every value answer `val:<n>` of any node to any task (update, read, dirty read; leader or not):
the task is a submission to that node of a type that is answered with a value, and there is a root path `p` of the
tree whose last entry is committed such that `n` is the number of update entries on `p`. The update payloads on `p`
and the applied sequence of ANY node are prefix-comparable: the answer never exposes an update that is not committed,
and never a state that is not a state of the one sequential history. -/
theorem value_answer_is_committed_prefix_partial (V : List Nat) (hV : V.Nodup) (x : Sys) (h : Reachable V x)
    (a : Ans) (ha : a ∈ x.answers) (n : Nat) (hr : a.result = valStr n) :
    ∃ s ∈ x.subs, s.node = a.node ∧ s.task = a.task ∧ isValTyp s.typ ∧
      ∃ p, Path x.T p ∧ (p ≠ [] → Committed x.c (p.length, lastTerm p)) ∧ n = (ups p).length ∧
        ∀ j, ups p <+: (x.node j).fsm.applied ∨ (x.node j).fsm.applied <+: ups p := by
  have hcl := cl_reachable hV h
  obtain ⟨hI, _⟩ := inv_reachable hV (reachableG_V (reachable_c h))
  obtain ⟨s, hs, e1, e2, e3, p, hp1, hp2, hp3, _, _⟩ := hcl.ansVal a ha n hr
  refine ⟨s, hs, e1, e2, e3, p, hp1, hp2, hp3, fun j => ?_⟩
  obtain ⟨hpj, hcj, happ⟩ := applied_path hV h j
  rw [happ]
  rcases Nat.le_total p.length ((x.node j).log.entries.take (x.node j).fsm.index).length with hle | hle
  · exact Or.inl (ups_prefix (committed_paths_comparable hI hp1 hpj hp2 hcj hle))
  · exact Or.inr (ups_prefix (committed_paths_comparable hI hpj hp1 hcj hp2 hle))

/-- **C07 (5b), a read answered by a leader reflects everything that leader had accepted before (partial; same
assumptions).** What the model supports: the leader answers a read from its queue after every earlier accepted item
was applied (`C07.reply_only_after_commit`). Let read `s` (type `etRead`; also an update) be submitted to node
`s.node` when that node's last log entry had the coordinates `(s.lastIndex, s.lastTerm)` (ghost fields of the ledger),
and answered by that node with `val:<n>`. Then `n` counts the update entries on a committed root path that passes
through `(s.lastIndex, s.lastTerm)`: the answer reflects every entry the node held — every update it had accepted —
when the read was delivered. (NOT claimed, and false in the model: that it reflects updates completed by OTHER
leaders; a deposed leader whose log is completely committed answers reads without contacting anybody.) -/
theorem leader_read_reflects_accepted_partial (V : List Nat) (hV : V.Nodup) (x : Sys) (h : Reachable V x)
    (s : Sub) (hs : s ∈ x.subs) (ht : s.typ ≠ etDirtyRead) (h0 : s.task ≠ 0)
    (a : Ans) (ha : a ∈ x.answers) (han : a.node = s.node) (hat : a.task = s.task) (n : Nat)
    (hr : a.result = valStr n) :
    ∃ p, Path x.T p ∧ (p ≠ [] → Committed x.c (p.length, lastTerm p)) ∧ n = (ups p).length ∧
      s.lastIndex ≤ p.length ∧ (1 ≤ s.lastIndex → Holds p s.lastIndex s.lastTerm) := by
  have hcl := cl_reachable hV h
  obtain ⟨s', hs', e1, e2, _, p, hp1, hp2, hp3, _, hp5⟩ := hcl.ansVal a ha n hr
  have hss : s' = s := hcl.subUniq s' hs' s hs (by rw [e1, han]) (by rw [e2, hat]) (by rw [e2, hat]; exact h0)
  subst hss
  exact ⟨p, hp1, hp2, hp3, (hp5 ht).1, (hp5 ht).2⟩

/-- **C07 (5c), a dirty read — on any node, leader or not — returns a prefix of the committed applied sequence
(partial; same assumptions)**: the special case of `value_answer_is_committed_prefix_partial` (node-level:
`C07.dirty_read_sees_applied_only`). -/
theorem dirty_read_is_committed_prefix_partial (V : List Nat) (hV : V.Nodup) (x : Sys) (h : Reachable V x)
    (s : Sub) (_hs : s ∈ x.subs) (_ht : s.typ = etDirtyRead)
    (a : Ans) (ha : a ∈ x.answers) (_han : a.node = s.node) (_hat : a.task = s.task) (n : Nat)
    (hr : a.result = valStr n) :
    ∃ p, Path x.T p ∧ (p ≠ [] → Committed x.c (p.length, lastTerm p)) ∧ n = (ups p).length ∧
      ∀ j, ups p <+: (x.node j).fsm.applied ∨ (x.node j).fsm.applied <+: ups p := by
  obtain ⟨_, _, _, _, _, p, hp⟩ := value_answer_is_committed_prefix_partial V hV x h a ha n hr
  exact ⟨p, hp⟩

/-- **a task is answered at most once (partial; same assumptions)**: two answers of one node to one task id are
the same answer — so the value (or the rejection) a client got is the only result that task will ever get. -/
theorem answered_at_most_once_partial (V : List Nat) (hV : V.Nodup) (x : Sys) (h : Reachable V x)
    (a : Ans) (ha : a ∈ x.answers) (a' : Ans) (ha' : a' ∈ x.answers) (hn : a.node = a'.node)
    (ht : a.task = a'.task) : a = a' :=
  (cl_reachable hV h).ansOnce a ha a' ha' hn ht

/-! ### Examples (non-vacuity): three voters, every node bootstrapped with the same configuration entry (1,1) -/

/-- the initial state `C02Sys.ex0` with empty ledgers -/
def exS0 : Sys := { c := C02Sys.ex0, subs := [], tasks := [], answers := [] }

theorem exS0_init : Init exS0 :=
  ⟨C02Sys.ex0_init.1, C19Sys.ex0_ginv, rfl, rfl, rfl, fun i => ⟨C19Sys.ex0_tasks i, rfl⟩⟩

/-- example: `exS0` is reachable -/
theorem exS0_reachable : Reachable [1, 2, 3] exS0 := .init _ exS0_init C02Sys.ex0_init.2 C19Sys.ex0_sideG

/-- a client batch with one update, payload "a", task 7 -/
def exBatch : List QItem := [{ typ := etUpdate, data := "a", task := 7 }]

theorem exBatch_enabled (i : Nat) (hi : i ≠ 0) : Commit.Enabled C02Sys.ex0 i (.newEntries exBatch) 0 ∧
    EnabledG C02Sys.ex0 i (.newEntries exBatch) ∧ EnabledC exS0 i (.newEntries exBatch) := by
  refine ⟨⟨⟨hi, (fun q h => by cases h), (fun ⟨_, _, _, h⟩ => by cases h), trivial, (fun q h => by cases h)⟩,
     ⟨trivial, (fun b h => by cases h; exact fun q hq => by rw [List.mem_singleton.mp hq]; decide),
       (fun t c h => by cases h)⟩, (fun q h => by cases h),
     (fun q h => by cases h), (fun us h => by cases h)⟩,
   ⟨(fun us h => by cases h), (fun s e r h => by cases h)⟩, ?_⟩
  refine ⟨by decide, fun t _ ht => (by cases ht), by decide, fun d _ s hs => (by cases hs), fun d hd c hc hct => ?_⟩
  have e : c = ⟨C04Sys.exE, 0, 0⟩ := List.mem_singleton.mp hc
  rw [e] at hct
  exact absurd hct (by decide)

/-- the side conditions after a step: only the acting node has to be looked at -/
theorem side_of_step {V : List Nat} (x : Sys) (i : Nat) (op : Op) (ra : List Nat) (ord : List (List Nat)) (src : Nat)
    (hs : SideV V x.c) (hg : SideG x.c)
    (hi : ((x.node i).step op ra ord).configs.isBootstrapped = true ∧
      ((x.node i).step op ra ord).configs.latest.voters = V ∧
      ((x.node i).step op ra ord).configs.latest.isStable = true ∧ 1 ≤ ((x.node i).step op ra ord).retain) :
    SideV V (stepS x i op ra ord src).c ∧ SideG (stepS x i op ra ord src).c := by
  have hn : ∀ j, j ≠ i → (stepS x i op ra ord src).c.rp.el.node j = x.c.rp.el.node j := fun j hj => by
    show setNode x.c.rp.el.node i _ j = _
    rw [setNode_other _ _ _ _ hj]
  have hni : (stepS x i op ra ord src).c.rp.el.node i = (x.c.rp.el.node i).step op ra ord := by
    show setNode x.c.rp.el.node i _ i = _
    rw [setNode_same]
  refine ⟨⟨fun j => ?_, fun j => ?_⟩, fun j => ?_⟩
  · by_cases hj : j = i
    · subst hj; rw [hni]; exact ⟨hi.1, hi.2.1⟩
    · rw [hn j hj]; exact hs.1 j
  · by_cases hj : j = i
    · subst hj
      show ((stepS x j op ra ord src).c.rp.el.node j).configs.latest.isStable = true
      rw [hni]; exact hi.2.2.1
    · show ((stepS x i op ra ord src).c.rp.el.node j).configs.latest.isStable = true
      rw [hn j hj]; exact hs.2 j
  · by_cases hj : j = i
    · subst hj
      show 1 ≤ ((stepS x j op ra ord src).c.rp.el.node j).retain
      rw [hni]; exact hi.2.2.2
    · show 1 ≤ ((stepS x i op ra ord src).c.rp.el.node j).retain
      rw [hn j hj]; exact hg j


/-- node 2 (a follower) is handed the batch -/
def exSA : Sys := stepS exS0 2 (.newEntries exBatch) [] [] 0

set_option maxRecDepth 100000 in
theorem exSA_reachable : Reachable [1, 2, 3] exSA := by
  have hside := side_of_step exS0 2 (.newEntries exBatch) [] [] 0 C02Sys.ex0_init.2 C19Sys.ex0_sideG (by decide)
  exact .next exS0 exSA exS0_reachable
    (.step 2 (.newEntries exBatch) [] [] 0 (exBatch_enabled 2 (by decide)).1 (exBatch_enabled 2 (by decide)).2.1 rfl
      (exBatch_enabled 2 (by decide)).2.2) hside.1 hside.2

set_option maxRecDepth 100000 in
/-- EXAMPLE (hypotheses of `rejected_update_never_takes_effect_partial` and `ambiguous_update_at_most_once_partial`):
in the reachable state `exSA` the ledger holds the update submitted to node 2 and node 2's definite rejection -/
example : [1, 2, 3].Nodup ∧ Reachable [1, 2, 3] exSA ∧ Run [1, 2, 3] exSA exSA ∧
    (⟨2, 7, etUpdate, "a", 1, 1⟩ : Sub) ∈ exSA.subs ∧
    (⟨2, 7, notLeaderStr 0 false⟩ : Ans) ∈ exSA.answers ∧ Definite (notLeaderStr 0 false) :=
  ⟨by decide, exSA_reachable, .refl, by decide, by decide, definite_notLeader_false 0⟩

set_option maxRecDepth 100000 in
/-- EXAMPLE: `rejected_update_never_takes_effect_partial` applied to the update rejected by node 2 in `exSA` -/
example : ∀ j, "a" ∉ (exSA.node j).fsm.applied :=
  (rejected_update_never_takes_effect_partial [1, 2, 3] (by decide) exSA exSA exSA_reachable .refl
    ⟨2, 7, etUpdate, "a", 1, 1⟩ (by decide) rfl ⟨2, 7, notLeaderStr 0 false⟩ (by decide) rfl rfl
    (definite_notLeader_false 0)).2.2

/-- a client batch with one dirty read, task 8 -/
def exDirty : List QItem := [{ typ := etDirtyRead, task := 8 }]

/-- node 3 (a follower) is handed the dirty read -/
def exSB : Sys := stepS exS0 3 (.newEntries exDirty) [] [] 0

set_option maxRecDepth 100000 in
theorem exSB_reachable : Reachable [1, 2, 3] exSB := by
  have hside := side_of_step exS0 3 (.newEntries exDirty) [] [] 0 C02Sys.ex0_init.2 C19Sys.ex0_sideG (by decide)
  have he : Commit.Enabled C02Sys.ex0 3 (.newEntries exDirty) 0 :=
    ⟨⟨by decide, (fun q h => by cases h), (fun ⟨_, _, _, h⟩ => by cases h), trivial, (fun q h => by cases h)⟩,
     ⟨trivial, (fun b h => by cases h; exact fun q hq => by rw [List.mem_singleton.mp hq]; decide),
       (fun t c h => by cases h)⟩, (fun q h => by cases h), (fun q h => by cases h), (fun us h => by cases h)⟩
  have heG : EnabledG C02Sys.ex0 3 (.newEntries exDirty) := ⟨(fun us h => by cases h), (fun s e r h => by cases h)⟩
  have heC : EnabledC exS0 3 (.newEntries exDirty) :=
    ⟨by decide, fun t _ ht => (by cases ht), by decide, fun d hd => (by cases hd), fun d hd => (by cases hd)⟩
  exact .next exS0 exSB exS0_reachable (.step 3 (.newEntries exDirty) [] [] 0 he heG rfl heC) hside.1 hside.2

set_option maxRecDepth 100000 in
/-- EXAMPLE (hypotheses of `value_answer_is_committed_prefix_partial`, `dirty_read_is_committed_prefix_partial`,
`answered_at_most_once_partial`): in the reachable state `exSB` the ledger holds the dirty read submitted to the
follower 3 and its answer `val:0` -/
example : Reachable [1, 2, 3] exSB ∧ (⟨3, 8, etDirtyRead, "", 1, 1⟩ : Sub) ∈ exSB.subs ∧
    (⟨3, 8, valStr 0⟩ : Ans) ∈ exSB.answers :=
  ⟨exSB_reachable, by decide, by decide⟩

/-- the leader puts a request on the wire -/
def sendS (x : Sys) (q : AppendReq) : Sys := { x with c := sendC x.c q }

/-- match-index reports of the two followers -/
def exUpd (v : Nat) : List ReplUpdate := [{ id := 2, upd := .matchIndex v }, { id := 3, upd := .matchIndex v }]

/-! ### a proved run: election, commit of the no-op, two updates answered

`decide` cannot evaluate `List.mergeSort` (well-founded recursion), which `leader.majorityMatchIndex` uses; for the
commit steps the majority match index is therefore computed by `simp` and the step is rewritten to a form that does not
sort (`replUpdates_step_alt`). -/

/-- `leader.onMajorityCommit` when the majority match index is known -/
theorem onMajorityCommit_known (n : Nat) (s : Node) (v : Nat) (hm : s.majorityMatchIndex = (v, true)) :
    onMajorityCommit (n + 1) s =
      if v > s.commitIndex ∧ v ≥ s.ldr.startIndex then ((setCommitIndexL n s v).applyCommittedL).notifyFlr else s := by
  unfold onMajorityCommit
  dsimp only
  rw [hm]
  dsimp only
  rw [if_pos rfl]

/-- `leader.checkReplUpdates` with the majority match index given instead of computed -/
def altCheck (s : Node) (us : List ReplUpdate) (v : Nat) : Node :=
  let r := replUpdLoop s {} us
  let s := r.1
  let f := r.2
  if f.stop then s
  else
    let s := if f.matchU then
        (if v > s.commitIndex ∧ v ≥ s.ldr.startIndex then ((setCommitIndexL 63 s v).applyCommittedL).notifyFlr else s)
      else s
    let s := if f.noContactU then s.checkQuorum else s
    let s := if f.removeLTEU ∧ s.ldr.removeLTE > s.log.prev then s.checkLogCompact else s
    if (f.matchU ∨ f.noContactU) ∧ s.ldr.transfer.active ∧ !s.ldr.transfer.targetChosen then s.tryTransfer else s

theorem checkReplUpdates_alt (s : Node) (us : List ReplUpdate) (v : Nat)
    (hm : (replUpdLoop s {} us).1.majorityMatchIndex = (v, true)) : s.checkReplUpdates us = altCheck s us v := by
  unfold Node.checkReplUpdates altCheck
  have e : onMajorityCommit (fuelFor 0) (replUpdLoop s {} us).1 =
      if v > (replUpdLoop s {} us).1.commitIndex ∧ v ≥ (replUpdLoop s {} us).1.ldr.startIndex
      then ((setCommitIndexL 63 (replUpdLoop s {} us).1 v).applyCommittedL).notifyFlr else (replUpdLoop s {} us).1 :=
    onMajorityCommit_known 63 _ v hm
  simp only [e]

/-- the post-state of a leader handling match-index reports, with the majority match index given -/
def altPost (s : Node) (us : List ReplUpdate) (v : Nat) : Node := settle 6 (altCheck (s.begin [] []) us v) s.role

theorem replUpdates_step_alt (s : Node) (us : List ReplUpdate) (v : Nat) (hl : s.role = .leader)
    (hm : (replUpdLoop (s.begin [] []) {} us).1.majorityMatchIndex = (v, true)) :
    s.step (.replUpdates us) [] [] = altPost s us v := by
  unfold altPost
  rw [TL.step_eq_settle s _ [] [] (by intro h; cases h)]
  have hh : (s.begin [] []).handle (.replUpdates us) = (s.begin [] []).checkReplUpdates us := by
    unfold Node.handle
    dsimp only
    rw [if_pos (show (s.begin [] []).role = .leader from hl)]
  rw [hh, checkReplUpdates_alt _ us v hm]

/-- `stepS` with the post-state of the acting node as a parameter -/
def stepSW (x : Sys) (i : Nat) (op : Op) (post : Node) (src : Nat) : Sys :=
  { c := { rp := { el := { node := setNode x.c.rp.el.node i post
                           grants := Election.voteGrant i op post ++
                             (Election.selfGrant i (x.node i) post ++ x.c.rp.el.grants)
                           counted := Election.countedBy i (x.node i) op src ++ x.c.rp.el.counted
                           won := (if post.role = .leader then [(i, post.term)] else []) ++ x.c.rp.el.won }
                   sent := x.c.rp.sent
                   created := newCreated i (x.node i).log.entries post.log.entries op ++ x.c.rp.created }
           acks := ackOf i op post ++ (selfAck i op (x.node i) post ++ x.c.acks)
           camps := campOf i (x.node i) post ++ x.c.camps
           committed := newCommit op (x.node i) post ++ x.c.committed }
    subs := subsOf i (x.node i) op ++ x.subs
    tasks := tasksOf i op ++ x.tasks
    answers := answersOf i post ++ x.answers }

theorem stepS_eq (x : Sys) (i : Nat) (op : Op) (ra : List Nat) (ord : List (List Nat)) (src : Nat) :
    stepS x i op ra ord src = stepSW x i op ((x.node i).step op ra ord) src := rfl

/-- a state with its side conditions -/
def RS (V : List Nat) (x : Sys) : Prop := Reachable V x ∧ SideV V x.c ∧ SideG x.c

/-- one more completed step -/
theorem rs_step {V : List Nat} {x : Sys} (hx : RS V x) (i : Nat) (op : Op) (src : Nat)
    (he : Commit.Enabled x.c i op src) (heG : EnabledG x.c i op) (ho : (x.node i).closed = "")
    (heC : EnabledC x i op)
    (hi : ((x.node i).step op [] []).configs.isBootstrapped = true ∧
      ((x.node i).step op [] []).configs.latest.voters = V ∧
      ((x.node i).step op [] []).configs.latest.isStable = true ∧ 1 ≤ ((x.node i).step op [] []).retain) :
    RS V (stepS x i op [] [] src) := by
  have hside := side_of_step x i op [] [] src hx.2.1 hx.2.2 hi
  exact ⟨.next x _ hx.1 (.step i op [] [] src he heG ho heC) hside.1 hside.2, hside⟩

/-- one more request on the wire -/
theorem rs_send {V : List Nat} {x : Sys} (hx : RS V x) (i : Nat) (q : AppendReq) (hi : i ≠ 0)
    (hl : (x.node i).role = .leader) (hr : Replication.ReadFrom (x.node i) q)
    (hc : q.ldrCommitIndex ≤ (x.node i).commitIndex) : RS V (sendS x q) :=
  ⟨.next x _ hx.1 (.send i q hi hl hr hc) hx.2.1 hx.2.2, hx.2.1, hx.2.2⟩

/-- no client-side obligation for an operation that brings neither a task nor a batch -/
theorem enabledC_plain (x : Sys) (i : Nat) (op : Op) (h1 : C15Tasks.submitted op = []) (h2 : opUpd op = []) :
    EnabledC x i op :=
  ⟨by rw [h1]; exact List.nodup_nil, fun t ht => (by rw [h1] at ht; cases ht), by rw [h2]; exact List.nodup_nil,
    fun d hd => (by rw [h2] at hd; cases hd), fun d hd => (by rw [h2] at hd; cases hd)⟩

theorem append_enabled (x : Sys) (i : Nat) (q : AppendReq) (hi : i ≠ 0) (hq : q ∈ x.c.rp.sent) (hsrc : q.src ≠ i) :
    Commit.Enabled x.c i (.append q) 0 ∧ EnabledG x.c i (.append q) ∧ EnabledC x i (.append q) :=
  ⟨⟨⟨hi, (fun q h => by cases h), (fun ⟨_, _, _, h⟩ => by cases h), trivial, (fun q' h => by cases h; exact Or.inr hq)⟩,
     ⟨trivial, (fun b h => by cases h), (fun t c h => by cases h)⟩, (fun q h => by cases h),
     (fun q' h => by cases h; exact hsrc), (fun us h => by cases h)⟩,
   ⟨(fun us h => by cases h), (fun s e r h => by cases h)⟩, enabledC_plain _ _ _ rfl rfl⟩

/-- a match-index report `v` of followers 2 and 3 may be delivered to node 1 when both have acknowledged an index
`≥ v` in node 1's term -/
theorem upd_enabled (x : Sys) (v : Nat) (a2 a3 : Ack) (h2 : a2 ∈ x.c.acks) (h3 : a3 ∈ x.c.acks)
    (e2 : a2.voter = 2 ∧ a2.term = (x.node 1).term ∧ v ≤ a2.index)
    (e3 : a3.voter = 3 ∧ a3.term = (x.node 1).term ∧ v ≤ a3.index) :
    Commit.Enabled x.c 1 (.replUpdates (exUpd v)) 0 ∧ EnabledG x.c 1 (.replUpdates (exUpd v)) ∧
    EnabledC x 1 (.replUpdates (exUpd v)) := by
  have hmem : ∀ u ∈ exUpd v, u = { id := 2, upd := .matchIndex v } ∨ u = { id := 3, upd := .matchIndex v } := by
    intro u hu
    rcases List.mem_cons.mp hu with hu | hu
    · exact Or.inl hu
    · exact Or.inr (List.mem_singleton.mp hu)
  refine ⟨⟨⟨by decide, (fun q h => by cases h), (fun ⟨_, _, _, h⟩ => by cases h), ?_, (fun q h => by cases h)⟩,
     ⟨?_, (fun b h => by cases h), (fun t c h => by cases h)⟩, (fun q h => by cases h),
     (fun q h => by cases h), ?_⟩, ⟨?_, (fun s e r h => by cases h)⟩, enabledC_plain _ _ _ rfl rfl⟩
  · intro u hu w hw
    rcases hmem u hu with e | e <;> (rw [e] at hw; cases hw)
  · intro u hu w hw
    rcases hmem u hu with e | e <;> (rw [e] at hw; cases hw)
  · intro us hus u hu w hw
    cases hus
    rcases hmem u hu with e | e
    · rw [e] at hw ⊢; cases hw
      exact Or.inr ⟨a2, h2, e2⟩
    · rw [e] at hw ⊢; cases hw
      exact Or.inr ⟨a3, h3, e3⟩
  · intro us hus _ u hu _ w hw
    cases hus
    rcases hmem u hu with e | e <;> (rw [e] at hw; cases hw)

theorem batch_enabled (x : Sys) (i : Nat) (b : List QItem) (hi : i ≠ 0) (hb : NoCfg b) (hc : EnabledC x i (.newEntries b)) :
    Commit.Enabled x.c i (.newEntries b) 0 ∧ EnabledG x.c i (.newEntries b) ∧ EnabledC x i (.newEntries b) :=
  ⟨⟨⟨hi, (fun q h => by cases h), (fun ⟨_, _, _, h⟩ => by cases h), trivial, (fun q h => by cases h)⟩,
     ⟨trivial, (fun b' h => by cases h; exact hb), (fun t c h => by cases h)⟩, (fun q h => by cases h),
     (fun q h => by cases h), (fun us h => by cases h)⟩,
   ⟨(fun us h => by cases h), (fun s e r h => by cases h)⟩, hc⟩

def exVote : VoteReq := { term := 2, src := 1, lastLogIndex := 1, lastLogTerm := 1 }
def zs1 : Sys := stepS exS0 1 .timeout [] [] 0
def zs2 : Sys := stepS zs1 2 (.vote exVote) [] [] 0
def zs3 : Sys := stepS zs2 1 (.voteResult false 2 rSuccess) [] [] 2
def zs4 : Sys := sendS zs3 C02Sys.exReq
def zs5 : Sys := stepS zs4 2 (.append C02Sys.exReq) [] [] 0
def zs6 : Sys := stepS zs5 3 (.append C02Sys.exReq) [] [] 0

theorem rs0 : RS [1, 2, 3] exS0 := ⟨exS0_reachable, C02Sys.ex0_init.2, C19Sys.ex0_sideG⟩

set_option maxRecDepth 100000 in
theorem rs1 : RS [1, 2, 3] zs1 :=
  rs_step rs0 1 .timeout 0 C19Sys.ex1_enabled.1 C19Sys.ex1_enabled.2 rfl (enabledC_plain _ _ _ rfl rfl)
    (by decide +kernel)

set_option maxRecDepth 100000 in
theorem rs2 : RS [1, 2, 3] zs2 := by
  have he : Commit.Enabled zs1.c 2 (.vote exVote) 0 :=
    ⟨⟨by decide, (fun q h => by cases h; decide), (fun ⟨_, _, _, h⟩ => by cases h), trivial,
      (fun q h => by cases h)⟩,
    ⟨trivial, (fun b h => by cases h), (fun t c h => by cases h)⟩,
    (fun q h => by cases h; exact Or.inr (by decide +kernel)),
    (fun q h => by cases h), (fun us h => by cases h)⟩
  exact rs_step rs1 2 (.vote exVote) 0 he ⟨(fun us h => by cases h), (fun s e r h => by cases h)⟩
    (by decide +kernel) (enabledC_plain _ _ _ rfl rfl) (by decide +kernel)

set_option maxRecDepth 100000 in
theorem rs3 : RS [1, 2, 3] zs3 := by
  have he : Commit.Enabled zs2.c 1 (.voteResult false 2 rSuccess) 2 :=
    ⟨⟨by decide, (fun q h => by cases h),
      (fun _ => ⟨by decide, by decide +kernel, by decide +kernel, by decide +kernel⟩), trivial,
      (fun q h => by cases h)⟩,
    ⟨trivial, (fun b h => by cases h), (fun t c h => by cases h)⟩, (fun q h => by cases h),
    (fun q h => by cases h), (fun us h => by cases h)⟩
  exact rs_step rs2 1 (.voteResult false 2 rSuccess) 2 he ⟨(fun us h => by cases h), (fun s e r h => by cases h)⟩
    (by decide +kernel) (enabledC_plain _ _ _ rfl rfl) (by decide +kernel)

set_option maxRecDepth 100000 in
theorem rs4 : RS [1, 2, 3] zs4 :=
  rs_send rs3 1 C02Sys.exReq (by decide) (by decide +kernel)
    ⟨by decide +kernel, by decide +kernel, by decide +kernel, by decide +kernel, ⟨1, by decide +kernel⟩⟩
    (by decide +kernel)

set_option maxRecDepth 100000 in
theorem rs5 : RS [1, 2, 3] zs5 := by
  obtain ⟨he, heG, heC⟩ := append_enabled zs4 2 C02Sys.exReq (by decide) (by decide +kernel) (by decide +kernel)
  exact rs_step rs4 2 _ 0 he heG (by decide +kernel) heC (by decide +kernel)

set_option maxRecDepth 100000 in
theorem rs6 : RS [1, 2, 3] zs6 := by
  obtain ⟨he, heG, heC⟩ := append_enabled zs5 3 C02Sys.exReq (by decide) (by decide +kernel) (by decide +kernel)
  exact rs_step rs5 3 _ 0 he heG (by decide +kernel) heC (by decide +kernel)

/-- the leader commits its no-op (index 2) -/
def zs7 : Sys := stepSW zs6 1 (.replUpdates (exUpd 2)) (altPost (zs6.node 1) (exUpd 2) 2) 0

set_option maxRecDepth 100000 in
theorem mm6 : (replUpdLoop ((zs6.node 1).begin [] []) {} (exUpd 2)).1.majorityMatchIndex = (2, true) := by
  unfold Node.majorityMatchIndex
  rw [if_neg (by decide +kernel)]
  dsimp only
  have h1 : (replUpdLoop ((zs6.node 1).begin [] []) {} (exUpd 2)).1.voterMatches = [2, 2, 2] := by decide +kernel
  have h2 : [2, 2, 2].mergeSort geB = [2, 2, 2] := by
    simp [List.mergeSort, List.MergeSort.Internal.splitInTwo, geB]
  rw [h1, h2]
  decide +kernel

set_option maxRecDepth 100000 in
theorem zs7_eq : stepS zs6 1 (.replUpdates (exUpd 2)) [] [] 0 = zs7 := by
  rw [stepS_eq, replUpdates_step_alt _ _ 2 (by decide +kernel) mm6]; rfl

set_option maxRecDepth 100000 in
theorem rs7 : RS [1, 2, 3] zs7 := by
  obtain ⟨he, heG, heC⟩ := upd_enabled zs6 2 ⟨2, 2, 2, 2⟩ ⟨3, 2, 2, 2⟩ (by decide +kernel) (by decide +kernel)
    (by decide +kernel) (by decide +kernel)
  have := rs_step rs6 1 _ 0 he heG (by decide +kernel) heC
    (by rw [replUpdates_step_alt _ _ 2 (by decide +kernel) mm6]; decide +kernel)
  rw [zs7_eq] at this
  exact this

theorem exBatch_noCfg : NoCfg exBatch := fun q hq => by rw [List.mem_singleton.mp hq]; decide

/-- the leader is handed the batch: update "a", task 7 -/
def zs8 : Sys := stepS zs7 1 (.newEntries exBatch) [] [] 0

set_option maxRecDepth 100000 in
theorem rs8 : RS [1, 2, 3] zs8 := by
  have hc : EnabledC zs7 1 (.newEntries exBatch) :=
    ⟨by decide, fun t _ ht => (by cases ht), by decide, fun d _ s hs => (by cases hs), by decide +kernel⟩
  obtain ⟨he, heG, heC⟩ := batch_enabled zs7 1 exBatch (by decide) exBatch_noCfg hc
  exact rs_step rs7 1 _ 0 he heG (by decide +kernel) heC (by decide +kernel)

/-- the request carrying the update -/
def zReq2 : AppendReq :=
  { term := 2, src := 1, prevLogIndex := 2, prevLogTerm := 2, ldrCommitIndex := 2,
    entries := (zs8.node 1).log.entries.drop 2 }

def zs8s : Sys := sendS zs8 zReq2
def zs9a : Sys := stepS zs8s 2 (.append zReq2) [] [] 0
def zs9 : Sys := stepS zs9a 3 (.append zReq2) [] [] 0

set_option maxRecDepth 100000 in
theorem rs8s : RS [1, 2, 3] zs8s :=
  rs_send rs8 1 zReq2 (by decide) (by decide +kernel)
    ⟨by decide +kernel, by decide +kernel, by decide +kernel, by decide +kernel, ⟨1, by decide +kernel⟩⟩
    (by decide +kernel)

set_option maxRecDepth 100000 in
theorem rs9a : RS [1, 2, 3] zs9a := by
  obtain ⟨he, heG, heC⟩ := append_enabled zs8s 2 zReq2 (by decide) (by decide +kernel) (by decide +kernel)
  exact rs_step rs8s 2 _ 0 he heG (by decide +kernel) heC (by decide +kernel)

set_option maxRecDepth 100000 in
theorem rs9 : RS [1, 2, 3] zs9 := by
  obtain ⟨he, heG, heC⟩ := append_enabled zs9a 3 zReq2 (by decide) (by decide +kernel) (by decide +kernel)
  exact rs_step rs9a 3 _ 0 he heG (by decide +kernel) heC (by decide +kernel)

/-- the leader learns the acknowledgements, commits index 3, applies the update and answers task 7 -/
def zs10 : Sys := stepSW zs9 1 (.replUpdates (exUpd 3)) (altPost (zs9.node 1) (exUpd 3) 3) 0

set_option maxRecDepth 100000 in
theorem mm9 : (replUpdLoop ((zs9.node 1).begin [] []) {} (exUpd 3)).1.majorityMatchIndex = (3, true) := by
  unfold Node.majorityMatchIndex
  rw [if_neg (by decide +kernel)]
  dsimp only
  have h1 : (replUpdLoop ((zs9.node 1).begin [] []) {} (exUpd 3)).1.voterMatches = [3, 3, 3] := by decide +kernel
  have h2 : [3, 3, 3].mergeSort geB = [3, 3, 3] := by
    simp [List.mergeSort, List.MergeSort.Internal.splitInTwo, geB]
  rw [h1, h2]
  decide +kernel

set_option maxRecDepth 100000 in
theorem zs10_eq : stepS zs9 1 (.replUpdates (exUpd 3)) [] [] 0 = zs10 := by
  rw [stepS_eq, replUpdates_step_alt _ _ 3 (by decide +kernel) mm9]; rfl

set_option maxRecDepth 100000 in
theorem rs10 : RS [1, 2, 3] zs10 := by
  obtain ⟨he, heG, heC⟩ := upd_enabled zs9 3 ⟨2, 2, 3, 2⟩ ⟨3, 2, 3, 2⟩ (by decide +kernel) (by decide +kernel)
    (by decide +kernel) (by decide +kernel)
  have := rs_step rs9 1 _ 0 he heG (by decide +kernel) heC
    (by rw [replUpdates_step_alt _ _ 3 (by decide +kernel) mm9]; decide +kernel)
  rw [zs10_eq] at this
  exact this

set_option maxRecDepth 100000 in
/-- EXAMPLE (hypotheses of `completed_update_took_effect_once_partial`, `leader_read_reflects_accepted_partial`,
`value_answer_is_committed_prefix_partial`): the state `zs10` is reachable (proved: election of node 1, commit of its
no-op, the update "a" accepted, replicated, committed, applied); its ledger holds the update "a" submitted to node 1
with task 7 when node 1's last log entry was (2, 2), and node 1's answer `val:1` -/
example : [1, 2, 3].Nodup ∧ Reachable [1, 2, 3] zs10 ∧ (⟨1, 7, etUpdate, "a", 2, 2⟩ : Sub) ∈ zs10.subs ∧
    (⟨1, 7, valStr 1⟩ : Ans) ∈ zs10.answers :=
  ⟨by decide, rs10.1, by decide +kernel, by decide +kernel⟩

/-- a state reached by a run from `b`, with its side conditions -/
def RB (V : List Nat) (b x : Sys) : Prop := RS V x ∧ Run V b x

theorem rb_step {V : List Nat} {b x : Sys} (hx : RB V b x) (i : Nat) (op : Op) (src : Nat)
    (he : Commit.Enabled x.c i op src) (heG : EnabledG x.c i op) (ho : (x.node i).closed = "")
    (heC : EnabledC x i op)
    (hi : ((x.node i).step op [] []).configs.isBootstrapped = true ∧
      ((x.node i).step op [] []).configs.latest.voters = V ∧
      ((x.node i).step op [] []).configs.latest.isStable = true ∧ 1 ≤ ((x.node i).step op [] []).retain) :
    RB V b (stepS x i op [] [] src) := by
  have h := rs_step hx.1 i op src he heG ho heC hi
  exact ⟨h, .next x _ hx.2 (.step i op [] [] src he heG ho heC) h.2.1 h.2.2⟩

theorem rb_send {V : List Nat} {b x : Sys} (hx : RB V b x) (i : Nat) (q : AppendReq) (hi : i ≠ 0)
    (hl : (x.node i).role = .leader) (hr : Replication.ReadFrom (x.node i) q)
    (hc : q.ldrCommitIndex ≤ (x.node i).commitIndex) : RB V b (sendS x q) :=
  ⟨rs_send hx.1 i q hi hl hr hc, .next x _ hx.2 (.send i q hi hl hr hc) hx.1.2.1 hx.1.2.2⟩

/-- the leader is handed a second batch: the update "b" (task 9) followed by a read (task 10) -/
def exBatch2 : List QItem := [{ typ := etUpdate, data := "b", task := 9 }, { typ := etRead, task := 10 }]

theorem exBatch2_noCfg : NoCfg exBatch2 := by
  intro q hq
  rcases List.mem_cons.mp hq with h | h
  · rw [h]; decide
  · rw [List.mem_singleton.mp h]; decide

def zs11 : Sys := stepS zs10 1 (.newEntries exBatch2) [] [] 0
def zReq3 : AppendReq :=
  { term := 2, src := 1, prevLogIndex := 3, prevLogTerm := 2, ldrCommitIndex := 3,
    entries := (zs11.node 1).log.entries.drop 3 }
def zs11s : Sys := sendS zs11 zReq3
def zs12a : Sys := stepS zs11s 2 (.append zReq3) [] [] 0
def zs12 : Sys := stepS zs12a 3 (.append zReq3) [] [] 0
def zs13 : Sys := stepSW zs12 1 (.replUpdates (exUpd 4)) (altPost (zs12.node 1) (exUpd 4) 4) 0

theorem rb10 : RB [1, 2, 3] zs10 zs10 := ⟨rs10, .refl⟩

set_option maxRecDepth 100000 in
theorem rb11 : RB [1, 2, 3] zs10 zs11 := by
  have hc : EnabledC zs10 1 (.newEntries exBatch2) :=
    ⟨by decide, by decide +kernel, by decide, by decide +kernel, by decide +kernel⟩
  obtain ⟨he, heG, heC⟩ := batch_enabled zs10 1 exBatch2 (by decide) exBatch2_noCfg hc
  exact rb_step rb10 1 _ 0 he heG (by decide +kernel) heC (by decide +kernel)

set_option maxRecDepth 100000 in
theorem rb11s : RB [1, 2, 3] zs10 zs11s :=
  rb_send rb11 1 zReq3 (by decide) (by decide +kernel)
    ⟨by decide +kernel, by decide +kernel, by decide +kernel, by decide +kernel, ⟨1, by decide +kernel⟩⟩
    (by decide +kernel)

set_option maxRecDepth 100000 in
theorem rb12a : RB [1, 2, 3] zs10 zs12a := by
  obtain ⟨he, heG, heC⟩ := append_enabled zs11s 2 zReq3 (by decide) (by decide +kernel) (by decide +kernel)
  exact rb_step rb11s 2 _ 0 he heG (by decide +kernel) heC (by decide +kernel)

set_option maxRecDepth 100000 in
theorem rb12 : RB [1, 2, 3] zs10 zs12 := by
  obtain ⟨he, heG, heC⟩ := append_enabled zs12a 3 zReq3 (by decide) (by decide +kernel) (by decide +kernel)
  exact rb_step rb12a 3 _ 0 he heG (by decide +kernel) heC (by decide +kernel)

set_option maxRecDepth 100000 in
theorem mm12 : (replUpdLoop ((zs12.node 1).begin [] []) {} (exUpd 4)).1.majorityMatchIndex = (4, true) := by
  unfold Node.majorityMatchIndex
  rw [if_neg (by decide +kernel)]
  dsimp only
  have h1 : (replUpdLoop ((zs12.node 1).begin [] []) {} (exUpd 4)).1.voterMatches = [4, 4, 4] := by decide +kernel
  have h2 : [4, 4, 4].mergeSort geB = [4, 4, 4] := by
    simp [List.mergeSort, List.MergeSort.Internal.splitInTwo, geB]
  rw [h1, h2]
  decide +kernel

set_option maxRecDepth 100000 in
theorem zs13_eq : stepS zs12 1 (.replUpdates (exUpd 4)) [] [] 0 = zs13 := by
  rw [stepS_eq, replUpdates_step_alt _ _ 4 (by decide +kernel) mm12]; rfl

set_option maxRecDepth 100000 in
theorem rb13 : RB [1, 2, 3] zs10 zs13 := by
  obtain ⟨he, heG, heC⟩ := upd_enabled zs12 4 ⟨2, 2, 4, 2⟩ ⟨3, 2, 4, 2⟩ (by decide +kernel) (by decide +kernel)
    (by decide +kernel) (by decide +kernel)
  have := rb_step rb12 1 _ 0 he heG (by decide +kernel) heC
    (by rw [replUpdates_step_alt _ _ 4 (by decide +kernel) mm12]; decide +kernel)
  rw [zs13_eq] at this
  exact this

set_option maxRecDepth 100000 in
/-- EXAMPLE (hypotheses of `real_time_order_partial`; also of `leader_read_reflects_accepted_partial` for a read): the
update "a" is answered `val:1` in the reachable state `zs10`; the update "b" and a read are submitted after `zs10` and
answered `val:2` in the later state `zs13` of a (proved) run -/
example : Reachable [1, 2, 3] zs10 ∧ Run [1, 2, 3] zs10 zs13 ∧
    (⟨1, 7, etUpdate, "a", 2, 2⟩ : Sub) ∈ zs10.subs ∧ (⟨1, 7, valStr 1⟩ : Ans) ∈ zs10.answers ∧
    (⟨1, 9, etUpdate, "b", 3, 2⟩ : Sub) ∈ zs13.subs ∧ (⟨1, 9, etUpdate, "b", 3, 2⟩ : Sub) ∉ zs10.subs ∧
    (⟨1, 9, valStr 2⟩ : Ans) ∈ zs13.answers ∧
    (⟨1, 10, etRead, "", 3, 2⟩ : Sub) ∈ zs13.subs ∧ (⟨1, 10, valStr 2⟩ : Ans) ∈ zs13.answers :=
  ⟨rs10.1, rb13.2, by decide +kernel, by decide +kernel, by decide +kernel, by decide +kernel, by decide +kernel,
    by decide +kernel, by decide +kernel⟩

set_option maxRecDepth 100000 in
/-- EXAMPLE: `completed_update_took_effect_once_partial` applied to the update "a" in `zs10` -/
example : ∃ c ∈ zs10.T, c.cr = 1 ∧ c.e.typ = etUpdate ∧ c.e.data = "a" ∧ Committed zs10.c (key c) := by
  obtain ⟨c, hc, h1, h2, h3, _, h5, _⟩ := completed_update_took_effect_once_partial [1, 2, 3] (by decide) zs10 rs10.1
    ⟨1, 7, etUpdate, "a", 2, 2⟩ (by decide +kernel) rfl (by decide) ⟨1, 7, valStr 1⟩ (by decide +kernel) rfl rfl 1 rfl
  exact ⟨c, hc, h1, h2, h3, h5⟩

set_option maxRecDepth 100000 in
/-- EXAMPLE: `real_time_order_partial` applied to the updates "a" (answered in `zs10`) and "b" (submitted after `zs10`,
answered in `zs13`) -/
example : (1 : Nat) < 2 :=
  real_time_order_partial [1, 2, 3] (by decide) zs10 zs13 rs10.1 rb13.2
    ⟨1, 7, etUpdate, "a", 2, 2⟩ (by decide +kernel) rfl (by decide) ⟨1, 7, valStr 1⟩ (by decide +kernel) rfl rfl 1 rfl
    ⟨1, 9, etUpdate, "b", 3, 2⟩ (by decide +kernel) (by decide +kernel) rfl (by decide)
    ⟨1, 9, valStr 2⟩ (by decide +kernel) rfl rfl 2 rfl

set_option maxRecDepth 100000 in
/-- EXAMPLE: `leader_read_reflects_accepted_partial` applied to the read of `zs13` (delivered when node 1's last entry
was (3, 2): the answer counts the updates on a committed path through (3, 2)) -/
example : ∃ p, Path zs13.T p ∧ 2 = (ups p).length ∧ 3 ≤ p.length ∧ Holds p 3 2 := by
  obtain ⟨p, h1, _, h3, h4, h5⟩ := leader_read_reflects_accepted_partial [1, 2, 3] (by decide) zs13
    (run_reachable rs10.1 rb13.2) ⟨1, 10, etRead, "", 3, 2⟩ (by decide +kernel) (by decide) (by decide)
    ⟨1, 10, valStr 2⟩ (by decide +kernel) rfl rfl 2 rfl
  exact ⟨p, h1, h3, h4, h5 (by decide)⟩

-- evaluation of the conclusions in the two states
#guard zs10.T.map (fun c => (c.e.index, c.e.term, c.e.typ, c.e.data, c.cr)) ==
  [(3, 2, etUpdate, "a", 1), (2, 2, etNop, "", 1), (1, 1, etConfig, "", 0)]
#guard (zs10.node 1).fsm.applied == ["a"] && zs10.c.committed == [(3, 2), (2, 2)]
#guard zs13.answers == [⟨1, 9, "val:2"⟩, ⟨1, 10, "val:2"⟩, ⟨1, 7, "val:1"⟩]
#guard (zs13.node 1).fsm.applied == ["a", "b"] && (zs13.node 1).panicked.isNone

/-- an operation without constraints (no request, no task, no batch) -/
theorem plain_enabled (x : Sys) (i : Nat) (op : Op) (hi : i ≠ 0) (hok : OpOK op)
    (h1 : ∀ q, op ≠ .vote q) (h2 : ∀ q, op ≠ .append q) (h3 : ∀ a b c, op ≠ .voteResult a b c)
    (h4 : ∀ b, op ≠ .newEntries b) (h5 : ∀ t c, op ≠ .changeConfig t c) (h6 : ∀ us, op ≠ .replUpdates us)
    (h7 : ∀ a b c, op ≠ .timeoutNowResult a b c) (h8 : C15Tasks.submitted op = []) (h9 : opUpd op = []) :
    Commit.Enabled x.c i op 0 ∧ EnabledG x.c i op ∧ EnabledC x i op :=
  ⟨⟨⟨hi, (fun q h => absurd h (h1 q)), (fun ⟨_, _, _, h⟩ => absurd h (h3 _ _ _)), hok,
      (fun q h => absurd h (h2 q))⟩,
     ⟨hok, (fun b h => absurd h (h4 b)), h5⟩, (fun q h => absurd h (h1 q)),
     (fun q h => absurd h (h2 q)), (fun us h => absurd h (h6 us))⟩,
   ⟨(fun us h => absurd h (h6 us)), (fun s e r h => absurd h (h7 s e r))⟩, enabledC_plain _ _ _ h8 h9⟩

/-- one match-index report `v` of follower `j` may be delivered to leader `i` when `j` has acknowledged an index
`≥ v` in `i`'s term -/
theorem upd1_enabled (x : Sys) (i j v : Nat) (hi : i ≠ 0) (a : Ack) (ha : a ∈ x.c.acks)
    (e : a.voter = j ∧ a.term = (x.node i).term ∧ v ≤ a.index) :
    Commit.Enabled x.c i (.replUpdates [{ id := j, upd := .matchIndex v }]) 0 ∧
    EnabledG x.c i (.replUpdates [{ id := j, upd := .matchIndex v }]) ∧
    EnabledC x i (.replUpdates [{ id := j, upd := .matchIndex v }]) := by
  refine ⟨⟨⟨hi, (fun q h => by cases h), (fun ⟨_, _, _, h⟩ => by cases h), ?_, (fun q h => by cases h)⟩,
     ⟨?_, (fun b h => by cases h), (fun t c h => by cases h)⟩, (fun q h => by cases h),
     (fun q h => by cases h), ?_⟩, ⟨?_, (fun s e r h => by cases h)⟩, enabledC_plain _ _ _ rfl rfl⟩
  · intro u hu w hw
    rw [List.mem_singleton.mp hu] at hw; cases hw
  · intro u hu w hw
    rw [List.mem_singleton.mp hu] at hw; cases hw
  · intro us hus u hu w hw
    cases hus
    rw [List.mem_singleton.mp hu] at hw ⊢
    cases hw
    exact Or.inr ⟨a, ha, e⟩
  · intro us hus _ u hu _ w hw
    cases hus
    rw [List.mem_singleton.mp hu] at hw; cases hw

/-! ### a proved counterexample: a read answered by a deposed leader is stale -/

def exVote3 : VoteReq := { term := 3, src := 2, lastLogIndex := 3, lastLogTerm := 2 }
def ws0 : Sys := stepS zs10 3 (.disconnected 1) [] [] 0
def ws1 : Sys := stepS ws0 2 .timeout [] [] 0
def ws2 : Sys := stepS ws1 3 (.vote exVote3) [] [] 0
def ws3 : Sys := stepS ws2 2 (.voteResult false 3 rSuccess) [] [] 3
def wReqN : AppendReq :=
  { term := 3, src := 2, prevLogIndex := 3, prevLogTerm := 2, ldrCommitIndex := 2,
    entries := (ws3.node 2).log.entries.drop 3 }
def ws3s : Sys := sendS ws3 wReqN
def ws4 : Sys := stepS ws3s 3 (.append wReqN) [] [] 0

set_option maxRecDepth 100000 in
theorem rw0 : RS [1, 2, 3] ws0 := by
  obtain ⟨he, heG, heC⟩ := plain_enabled zs10 3 (.disconnected 1) (by decide) trivial (fun _ h => by cases h)
    (fun _ h => by cases h) (fun _ _ _ h => by cases h) (fun _ h => by cases h) (fun _ _ h => by cases h)
    (fun _ h => by cases h) (fun _ _ _ h => by cases h) rfl rfl
  exact rs_step rs10 3 _ 0 he heG (by decide +kernel) heC (by decide +kernel)

set_option maxRecDepth 100000 in
theorem rw1 : RS [1, 2, 3] ws1 := by
  obtain ⟨he, heG, heC⟩ := plain_enabled ws0 2 .timeout (by decide) trivial (fun _ h => by cases h)
    (fun _ h => by cases h) (fun _ _ _ h => by cases h) (fun _ h => by cases h) (fun _ _ h => by cases h)
    (fun _ h => by cases h) (fun _ _ _ h => by cases h) rfl rfl
  exact rs_step rw0 2 _ 0 he heG (by decide +kernel) heC (by decide +kernel)

set_option maxRecDepth 100000 in
theorem rw2 : RS [1, 2, 3] ws2 := by
  have he : Commit.Enabled ws1.c 3 (.vote exVote3) 0 :=
    ⟨⟨by decide, (fun q h => by cases h; decide), (fun ⟨_, _, _, h⟩ => by cases h), trivial,
      (fun q h => by cases h)⟩,
    ⟨trivial, (fun b h => by cases h), (fun t c h => by cases h)⟩,
    (fun q h => by cases h; exact Or.inr (by decide +kernel)),
    (fun q h => by cases h), (fun us h => by cases h)⟩
  exact rs_step rw1 3 (.vote exVote3) 0 he ⟨(fun us h => by cases h), (fun s e r h => by cases h)⟩
    (by decide +kernel) (enabledC_plain _ _ _ rfl rfl) (by decide +kernel)

set_option maxRecDepth 100000 in
theorem rw3 : RS [1, 2, 3] ws3 := by
  have he : Commit.Enabled ws2.c 2 (.voteResult false 3 rSuccess) 3 :=
    ⟨⟨by decide, (fun q h => by cases h),
      (fun _ => ⟨by decide, by decide +kernel, by decide +kernel, by decide +kernel⟩), trivial,
      (fun q h => by cases h)⟩,
    ⟨trivial, (fun b h => by cases h), (fun t c h => by cases h)⟩, (fun q h => by cases h),
    (fun q h => by cases h), (fun us h => by cases h)⟩
  exact rs_step rw2 2 (.voteResult false 3 rSuccess) 3 he ⟨(fun us h => by cases h), (fun s e r h => by cases h)⟩
    (by decide +kernel) (enabledC_plain _ _ _ rfl rfl) (by decide +kernel)

set_option maxRecDepth 100000 in
theorem rw3s : RS [1, 2, 3] ws3s :=
  rs_send rw3 2 wReqN (by decide) (by decide +kernel)
    ⟨by decide +kernel, by decide +kernel, by decide +kernel, by decide +kernel, ⟨1, by decide +kernel⟩⟩
    (by decide +kernel)

set_option maxRecDepth 100000 in
theorem rw4 : RS [1, 2, 3] ws4 := by
  obtain ⟨he, heG, heC⟩ := append_enabled ws3s 3 wReqN (by decide) (by decide +kernel) (by decide +kernel)
  exact rs_step rw3s 3 _ 0 he heG (by decide +kernel) heC (by decide +kernel)

/-- the new leader 2 commits its no-op (index 4) -/
def ws5 : Sys := stepSW ws4 2 (.replUpdates [{ id := 3, upd := .matchIndex 4 }])
  (altPost (ws4.node 2) [{ id := 3, upd := .matchIndex 4 }] 4) 0

set_option maxRecDepth 100000 in
theorem mw4 : (replUpdLoop ((ws4.node 2).begin [] []) {} [{ id := 3, upd := .matchIndex 4 }]).1.majorityMatchIndex =
    (4, true) := by
  unfold Node.majorityMatchIndex
  rw [if_neg (by decide +kernel)]
  dsimp only
  have h1 : (replUpdLoop ((ws4.node 2).begin [] []) {} [{ id := 3, upd := .matchIndex 4 }]).1.voterMatches =
      [0, 4, 4] := by decide +kernel
  have h2 : [0, 4, 4].mergeSort geB = [4, 4, 0] := by
    simp [List.mergeSort, List.MergeSort.Internal.splitInTwo, geB]
  rw [h1, h2]
  decide +kernel

set_option maxRecDepth 100000 in
theorem ws5_eq : stepS ws4 2 (.replUpdates [{ id := 3, upd := .matchIndex 4 }]) [] [] 0 = ws5 := by
  rw [stepS_eq, replUpdates_step_alt _ _ 4 (by decide +kernel) mw4]; rfl

set_option maxRecDepth 100000 in
theorem rw5 : RS [1, 2, 3] ws5 := by
  obtain ⟨he, heG, heC⟩ := upd1_enabled ws4 2 3 4 (by decide) ⟨3, 3, 4, 3⟩ (by decide +kernel) (by decide +kernel)
  have := rs_step rw4 2 _ 0 he heG (by decide +kernel) heC
    (by rw [replUpdates_step_alt _ _ 4 (by decide +kernel) mw4]; decide +kernel)
  rw [ws5_eq] at this
  exact this

/-- the update "c" (task 20) is submitted to the new leader 2 -/
def exBatchC : List QItem := [{ typ := etUpdate, data := "c", task := 20 }]

theorem exBatchC_noCfg : NoCfg exBatchC := fun q hq => by rw [List.mem_singleton.mp hq]; decide

def ws6 : Sys := stepS ws5 2 (.newEntries exBatchC) [] [] 0
def wReqC : AppendReq :=
  { term := 3, src := 2, prevLogIndex := 4, prevLogTerm := 3, ldrCommitIndex := 4,
    entries := (ws6.node 2).log.entries.drop 4 }
def ws6s : Sys := sendS ws6 wReqC
def ws7 : Sys := stepS ws6s 3 (.append wReqC) [] [] 0
def ws8 : Sys := stepSW ws7 2 (.replUpdates [{ id := 3, upd := .matchIndex 5 }])
  (altPost (ws7.node 2) [{ id := 3, upd := .matchIndex 5 }] 5) 0

set_option maxRecDepth 100000 in
theorem rw6 : RS [1, 2, 3] ws6 := by
  have hc : EnabledC ws5 2 (.newEntries exBatchC) :=
    ⟨by decide, by decide +kernel, by decide, by decide +kernel, by decide +kernel⟩
  obtain ⟨he, heG, heC⟩ := batch_enabled ws5 2 exBatchC (by decide) exBatchC_noCfg hc
  exact rs_step rw5 2 _ 0 he heG (by decide +kernel) heC (by decide +kernel)

set_option maxRecDepth 100000 in
theorem rw6s : RS [1, 2, 3] ws6s :=
  rs_send rw6 2 wReqC (by decide) (by decide +kernel)
    ⟨by decide +kernel, by decide +kernel, by decide +kernel, by decide +kernel, ⟨1, by decide +kernel⟩⟩
    (by decide +kernel)

set_option maxRecDepth 100000 in
theorem rw7 : RS [1, 2, 3] ws7 := by
  obtain ⟨he, heG, heC⟩ := append_enabled ws6s 3 wReqC (by decide) (by decide +kernel) (by decide +kernel)
  exact rs_step rw6s 3 _ 0 he heG (by decide +kernel) heC (by decide +kernel)

set_option maxRecDepth 100000 in
theorem mw7 : (replUpdLoop ((ws7.node 2).begin [] []) {} [{ id := 3, upd := .matchIndex 5 }]).1.majorityMatchIndex =
    (5, true) := by
  unfold Node.majorityMatchIndex
  rw [if_neg (by decide +kernel)]
  dsimp only
  have h1 : (replUpdLoop ((ws7.node 2).begin [] []) {} [{ id := 3, upd := .matchIndex 5 }]).1.voterMatches =
      [0, 5, 5] := by decide +kernel
  have h2 : [0, 5, 5].mergeSort geB = [5, 5, 0] := by
    simp [List.mergeSort, List.MergeSort.Internal.splitInTwo, geB]
  rw [h1, h2]
  decide +kernel

set_option maxRecDepth 100000 in
theorem ws8_eq : stepS ws7 2 (.replUpdates [{ id := 3, upd := .matchIndex 5 }]) [] [] 0 = ws8 := by
  rw [stepS_eq, replUpdates_step_alt _ _ 5 (by decide +kernel) mw7]; rfl

set_option maxRecDepth 100000 in
theorem rw8 : RS [1, 2, 3] ws8 := by
  obtain ⟨he, heG, heC⟩ := upd1_enabled ws7 2 3 5 (by decide) ⟨3, 3, 5, 3⟩ (by decide +kernel) (by decide +kernel)
  have := rs_step rw7 2 _ 0 he heG (by decide +kernel) heC
    (by rw [replUpdates_step_alt _ _ 5 (by decide +kernel) mw7]; decide +kernel)
  rw [ws8_eq] at this
  exact this

/-- node 1 — cut off, still leader of term 2 — is handed a read (task 30) -/
def exBatchR : List QItem := [{ typ := etRead, task := 30 }]

theorem exBatchR_noCfg : NoCfg exBatchR := fun q hq => by rw [List.mem_singleton.mp hq]; decide

def ws9 : Sys := stepS ws8 1 (.newEntries exBatchR) [] [] 0

set_option maxRecDepth 100000 in
theorem rw9 : RB [1, 2, 3] ws8 ws9 := by
  have hc : EnabledC ws8 1 (.newEntries exBatchR) :=
    ⟨by decide, by decide +kernel, by decide, by decide +kernel, by decide +kernel⟩
  obtain ⟨he, heG, heC⟩ := batch_enabled ws8 1 exBatchR (by decide) exBatchR_noCfg hc
  exact rb_step ⟨rw8, .refl⟩ 1 _ 0 he heG (by decide +kernel) heC (by decide +kernel)

set_option maxRecDepth 100000 in
/-- **COUNTEREXAMPLE (proved): reads are not linearizable across leaders.** There are a reachable state `ws8` and a
later state `ws9` of a run such that: in `ws8` the update "c", submitted to node 2, has been answered `val:2` by node 2
(leader of term 3); a read is submitted AFTER `ws8` — to node 1, which is still leader of term 2, has applied only the
update "a", and holds nothing uncommitted — and is answered `val:1` in `ws9`: the answer does not reflect the completed
update "c". (No assertion fails; every step is an enabled step of the restricted system.) So the analogue of
`real_time_order_partial` for reads is FALSE in the model; the Go code serves `ReadFSM` the same way. -/
theorem stale_read_by_deposed_leader :
    Reachable [1, 2, 3] ws8 ∧ Run [1, 2, 3] ws8 ws9 ∧
    (⟨2, 20, etUpdate, "c", 4, 3⟩ : Sub) ∈ ws8.subs ∧ (⟨2, 20, valStr 2⟩ : Ans) ∈ ws8.answers ∧
    (⟨1, 30, etRead, "", 3, 2⟩ : Sub) ∈ ws9.subs ∧ (⟨1, 30, etRead, "", 3, 2⟩ : Sub) ∉ ws8.subs ∧
    (⟨1, 30, valStr 1⟩ : Ans) ∈ ws9.answers ∧
    (ws8.node 1).role = .leader ∧ (ws8.node 2).role = .leader ∧ (ws8.node 1).term < (ws8.node 2).term :=
  ⟨rw8.1, rw9.2, by decide +kernel, by decide +kernel, by decide +kernel, by decide +kernel, by decide +kernel,
    by decide +kernel, by decide +kernel, by decide +kernel⟩

end C07Sys
end Raft

#print axioms Raft.C07Sys.cl_reachable
#print axioms Raft.C07Sys.completed_update_took_effect_once_partial
#print axioms Raft.C07Sys.rejected_update_never_takes_effect_partial
#print axioms Raft.C07Sys.ambiguous_update_at_most_once_partial
#print axioms Raft.C07Sys.real_time_order_partial
#print axioms Raft.C07Sys.value_answer_is_committed_prefix_partial
#print axioms Raft.C07Sys.leader_read_reflects_accepted_partial
#print axioms Raft.C07Sys.dirty_read_is_committed_prefix_partial
#print axioms Raft.C07Sys.answered_at_most_once_partial
#print axioms Raft.C07Sys.stale_read_by_deposed_leader
#print axioms Raft.ClientRel.client_step
#print axioms Raft.ClientRel.append_step_replies
