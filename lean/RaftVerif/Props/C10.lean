/-
C10 — A node restarts consistently after a crash at any point (node-local part).

PROVED here about `restartNode`/`restart` (= `openStorage` + `New` + the restore step of `Serve`) and about
the crash-point traces of the handlers, for every disk content / state / input:
* after a restart the log is contiguous with the newest snapshot (`lastLogIndex ≥ snapIndex` for EVERY
  disk content; `log.prev ≤ snapIndex` when that held on disk); a log ending below the snapshot is reset
  (the F7 repair);
* the restarted `(term, vote)` is the durable one (C05), the FSM is the newest snapshot's content and the
  commit index its index (empty / 0 without a snapshot);
* `scanConfigs` = the newest two configuration entries above the snapshot, newest first; with none
  `latest = committed = label`, with one `committed = label`;
* storage scripts: the names (and for the discard branch the exact disk contents) of the crash points of
  `onInstallSnap` (all branches), `snapRun`, `bootstrap`, the vote handler, and the first point of
  `leader.setCommitIndex`;
  at every crash point of an installation request (discard branch: `value.set`?, `snap.publish`,
  `snap.retain`, `clearLog`; every other request incl. the keep branch: `value.set`? only) the node
  restarts, contiguous with its snapshot;
* flushed entries survive crash + restart.

NOT proved here (run by the engines): that the real `openStorage` agrees with `restart` on every directory
copy taken at every `verifPoint` (nodediff), crash points inside the log package (logdiff, C14), and
"can rejoin and converge" (cluster level, C17). Vote/term across crashes is C05.
-/
import RaftVerif.Props.C09
import RaftVerif.Props.C05

namespace Raft
namespace C10
open Node

/-! ### 1. after a restart the log is contiguous with the snapshot -/

/-- the newest snapshot on disk (`snaps.index/term`, zero value when there is none) -/
def snapOf (d : Durable) : SnapFile := (d.snaps.head?).getD {}

/-- the log `openStorage` works with: a log that ends below the snapshot is reset (F7 repair) -/
def logOf (d : Durable) : NLog := if staleLog d then NLog.reset (snapOf d).index else d.log

/-- a log that ends below the snapshot is stale -/
theorem staleLog_of_short (d : Durable) (h : d.log.last < (snapOf d).index) : staleLog d = true := by
  unfold staleLog
  simp only [Bool.or_eq_true, decide_eq_true_eq]
  exact Or.inl h

/-- a log that is not stale reaches the snapshot index -/
theorem not_stale_reaches (d : Durable) (h : staleLog d = false) : (snapOf d).index ≤ d.log.last := by
  unfold staleLog at h
  simp only [Bool.or_eq_false_iff, decide_eq_false_iff_not] at h
  exact Nat.le_of_not_lt h.1

/-- a log that is not stale and starts below the snapshot index holds, at the snapshot index, the entry the
snapshot covers (same term): the F18 repair -/
theorem not_stale_term (d : Durable) (h : staleLog d = false) (hp : d.log.prev < (snapOf d).index) :
    (d.log.get? (snapOf d).index).map (·.term) = some (snapOf d).term := by
  unfold staleLog at h
  simp only [Bool.or_eq_false_iff, Bool.and_eq_false_imp, decide_eq_true_eq] at h
  have := h.2 hp
  unfold snapOf
  simpa using this

/-- Disk well-formedness needed for "the log starts at or below the snapshot": `log.prev ≤ snaps.index`. -/
def DurWF (d : Durable) : Prop := d.log.prev ≤ (snapOf d).index

theorem restartNode_fields (d : Durable) (r : Nat) (sor : Bool) :
    (restartNode d r sor).snapIndex = (snapOf d).index ∧ (restartNode d r sor).snapTerm = (snapOf d).term ∧
    (restartNode d r sor).log = { logOf d with flushed := (logOf d).last } ∧
    (restartNode d r sor).lastLogIndex = (if (logOf d).count > 0 then (logOf d).last else (snapOf d).index) ∧
    (restartNode d r sor).snapsDisk = d.snaps ∧ (restartNode d r sor).term = d.term ∧
    (restartNode d r sor).votedFor = d.vote ∧ (restartNode d r sor).commitIndex = 0 ∧
    (restartNode d r sor).fsm = {} ∧ (restartNode d r sor).panicked = none ∧
    (restartNode d r sor).cid = d.cid ∧ (restartNode d r sor).nid = d.nid :=
  ⟨rfl, rfl, rfl, rfl, rfl, rfl, rfl, rfl, rfl, rfl, rfl, rfl⟩

theorem logOf_cases (d : Durable) :
    (staleLog d = true ∧ logOf d = NLog.reset (snapOf d).index) ∨
    ((snapOf d).index ≤ d.log.last ∧ logOf d = d.log) := by
  unfold logOf
  split
  · rename_i h; exact Or.inl ⟨h, rfl⟩
  · rename_i h
    have h' : staleLog d = false := by simpa using h
    exact Or.inr ⟨not_stale_reaches d h', rfl⟩

theorem logOf_short (d : Durable) (h : d.log.last < (snapOf d).index) : logOf d = NLog.reset (snapOf d).index := by
  unfold logOf; rw [if_pos (staleLog_of_short d h)]

/-- **the restarted log is contiguous with the snapshot** — for EVERY disk content `d`: the last log index is
at or above the snapshot index and the log's own last index is too; a log that ended below the snapshot
was reset to it. -/
theorem restart_log_contiguous_with_snapshot (d : Durable) (r : Nat) (sor : Bool) :
    (restartNode d r sor).lastLogIndex ≥ (restartNode d r sor).snapIndex ∧
    (restartNode d r sor).log.last ≥ (restartNode d r sor).snapIndex ∧
    (d.log.last < (snapOf d).index → (restartNode d r sor).log = NLog.reset (snapOf d).index) := by
  obtain ⟨e1, _, e3, e4, _⟩ := restartNode_fields d r sor
  rw [e1, e3, e4]
  rcases logOf_cases d with ⟨h, e⟩ | ⟨h, e⟩
  · rw [e]
    refine ⟨?_, ?_, fun _ => ?_⟩
    · split <;> simp [NLog.reset, NLog.last]
    · simp [NLog.reset, NLog.last]
    · simp [NLog.reset, NLog.last]
  · rw [e]
    refine ⟨?_, h, fun h' => by omega⟩
    split
    · exact h
    · exact Nat.le_refl _

/-- with `log.prev ≤ snaps.index` on disk: the restarted log starts at or below the snapshot, and
`lastLogIndex` is the log's last index — every index is in the log or covered by the snapshot. -/
theorem restart_log_prev_le_snapshot (d : Durable) (r : Nat) (sor : Bool) (hwf : DurWF d) :
    (restartNode d r sor).log.prev ≤ (restartNode d r sor).snapIndex ∧
    (restartNode d r sor).lastLogIndex = (restartNode d r sor).log.last := by
  obtain ⟨e1, _, e3, e4, _⟩ := restartNode_fields d r sor
  rw [e1, e3, e4]
  unfold DurWF at hwf
  rcases logOf_cases d with ⟨h, e⟩ | ⟨h, e⟩
  · rw [e]; simp [NLog.reset, NLog.last, NLog.count]
  · rw [e]
    refine ⟨hwf, ?_⟩
    show (if d.log.entries.length > 0 then d.log.prev + d.log.entries.length else (snapOf d).index) =
      d.log.prev + d.log.entries.length
    have h' : (snapOf d).index ≤ d.log.prev + d.log.entries.length := h
    split <;> omega

/-! ### 2. term, vote and FSM after a restart -/

/-- the durable `(term, vote)` is what the restarted node holds (C05) -/
theorem restart_term_vote (d : Durable) (r : Nat) (sor : Bool) (n : Node) (h : restart d r sor = some n) :
    n.term = d.term ∧ n.votedFor = d.vote ∧ n.durTerm = n.term ∧ n.durVote = n.votedFor :=
  let ⟨a, b, c⟩ := C05.restart_reads_durable d r sor n h
  ⟨a, b, c.1, c.2⟩

theorem restart_some (d : Durable) (r : Nat) (sor : Bool) (n : Node) (h : restart d r sor = some n) :
    d.cid ≠ 0 ∧ d.nid ≠ 0 ∧ restartFails d = false ∧
    n = (if (restartNode d r sor).snapIndex > 0
         then (restartNode d r sor).fsmRestore.withCommitIndex (restartNode d r sor).snapIndex
         else restartNode d r sor) := by
  unfold Node.restart at h
  split at h
  · cases h
  · rename_i h1
    split at h
    · cases h
    · rename_i h2
      injection h with h
      exact ⟨fun e => h1 (Or.inl e), fun e => h1 (Or.inr e), by simpa using h2, h.symm⟩

/-- **the restarted FSM is the newest snapshot's content** (and the commit index its index); without a
snapshot the FSM is empty and the commit index 0. The log, last-log and snapshot coordinates are those of
`restartNode`. -/
theorem restart_fsm (d : Durable) (r : Nat) (sor : Bool) (n : Node) (h : restart d r sor = some n) :
    (if (snapOf d).index > 0 then
      n.fsm = { index := (snapOf d).index, term := (snapOf d).term, applied := (snapOf d).data,
                config := (snapOf d).config } ∧ n.commitIndex = (snapOf d).index
     else n.fsm = {} ∧ n.commitIndex = 0) ∧
    n.panicked = none ∧ n.snapIndex = (snapOf d).index ∧ n.log = (restartNode d r sor).log ∧
    n.lastLogIndex = (restartNode d r sor).lastLogIndex ∧ n.configs = (restartNode d r sor).configs ∧
    n.snapsDisk = d.snaps := by
  obtain ⟨_, _, _, hn⟩ := restart_some d r sor n h
  obtain ⟨e1, _, _, _, e5, _, _, e8, e9, e10, _⟩ := restartNode_fields d r sor
  rw [e1] at hn
  by_cases hpos : (snapOf d).index > 0
  · rw [if_pos hpos] at hn
    rw [if_pos hpos]
    -- the newest file is the head of the listing: `snaps.open()` finds it
    have hhead : d.snaps.find? (·.index == (snapOf d).index) = some (snapOf d) := by
      unfold snapOf at hpos ⊢
      cases hs : d.snaps with
      | nil => rw [hs] at hpos; simp at hpos
      | cons f fs => simp
    obtain ⟨a, b⟩ := fsmRestore_fsm (restartNode d r sor) (snapOf d) (by rw [e1]; omega) (by rw [e1, e5]; exact hhead)
    obtain ⟨o1, o2, _, o4, _, o6, o7, _⟩ := fsmRestore_other (restartNode d r sor)
    subst hn
    exact ⟨⟨a, rfl⟩, by show (restartNode d r sor).fsmRestore.panicked = none; rw [b, e10], by
      show (restartNode d r sor).fsmRestore.snapIndex = _; rw [o4, e1], o1, o2, o7, by
      show (restartNode d r sor).fsmRestore.snapsDisk = _; rw [o6, e5]⟩
  · rw [if_neg hpos] at hn
    rw [if_neg hpos]
    subst hn
    exact ⟨⟨e9, e8⟩, e10, e1, rfl, rfl, rfl, e5⟩

/-! ### 5. what was flushed survives -/

/-- what a crash leaves of the log is the entries up to `flushed` -/
theorem durable_log (s : Node) :
    s.durable.log.entries = s.log.entries.take (s.log.flushed - s.log.prev) ∧
    s.durable.log.prev = s.log.prev ∧ s.durable.log.segs = s.log.segs ∧ s.durable.snaps = s.snapsDisk ∧
    s.durable.term = s.durTerm ∧ s.durable.vote = s.durVote := ⟨rfl, rfl, rfl, rfl, rfl, rfl⟩

/-- **flushed entries survive crash + restart**: unless the log on disk is stale with respect to the newest
snapshot (it ends below it, or holds another entry at the snapshot index: then it is reset — what it held is
covered or superseded by the snapshot), the restarted log has the same first
index and exactly the entries up to `flushed`; every index in `(prev, flushed]` reads the same entry. -/
theorem flushed_entries_survive (s : Node) (r : Nat) (sor : Bool)
    (h : staleLog s.durable = false) :
    (restartNode s.durable r sor).log.prev = s.log.prev ∧
    (restartNode s.durable r sor).log.entries = s.log.entries.take (s.log.flushed - s.log.prev) ∧
    ∀ j, j ≤ s.log.flushed → (restartNode s.durable r sor).log.get? j = s.log.get? j := by
  obtain ⟨_, _, e3, _⟩ := restartNode_fields s.durable r sor
  have hl : logOf s.durable = s.durable.log := by
    rcases logOf_cases s.durable with ⟨h', _⟩ | ⟨_, e⟩
    · rw [h] at h'; cases h'
    · exact e
  rw [e3, hl]
  refine ⟨rfl, rfl, fun j hj => ?_⟩
  unfold NLog.get?
  show (if s.log.prev < j then (s.log.entries.take (s.log.flushed - s.log.prev))[j - s.log.prev - 1]? else none) = _
  split
  · rw [List.getElem?_take_of_lt (by omega)]
  · rfl

/-! ### 3. the configurations found by `openStorage` -/

/-- `scanConfigs` on the list of entries it visits (newest first). -/
def scanList : List Entry → Option Config → Option Config × Option Config × Bool
  | [], latest => (latest, none, false)
  | e :: es, latest =>
    match e.config? with
    | some c =>
      (match latest with
       | none => scanList es (some c)
       | some l => (some l, some c, false))
    | none => if e.typ = etConfig then (latest, none, true) else scanList es latest

/-- the entries with index in `(sn, i]`, newest first -/
def window (log : NLog) (sn i : Nat) : List Entry :=
  ((log.entries.take (i - log.prev)).drop (sn - log.prev)).reverse

theorem window_empty (log : NLog) (sn i : Nat) (h : i ≤ sn) : window log sn i = [] := by
  unfold window
  rw [List.reverse_eq_nil_iff, List.drop_eq_nil_iff, List.length_take]
  omega

theorem window_succ (log : NLog) (sn i : Nat) (e : Entry) (h1 : log.prev ≤ sn) (h2 : sn < i)
    (he : log.get? i = some e) : window log sn i = e :: window log sn (i - 1) := by
  unfold NLog.get? at he
  rw [if_pos (by omega)] at he
  unfold window
  have hk : i - log.prev = (i - 1 - log.prev) + 1 := by omega
  have hidx : i - log.prev - 1 = i - 1 - log.prev := by omega
  rw [hidx] at he
  have hlen : i - 1 - log.prev < log.entries.length := by
    have := List.getElem?_eq_some_iff.mp he
    exact this.1
  rw [hk, List.take_add_one, he]
  simp only [Option.toList_some]
  rw [List.drop_append_of_le_length (by rw [List.length_take]; omega), List.reverse_append]
  rfl

/-- **`scanConfigs` is `scanList` on the entries above the snapshot, newest first** — whenever the log
starts at or below the snapshot index, `i` is within the log and the fuel suffices (`openStorage` passes
`lastIndex + 1`). -/
theorem scanConfigs_eq_scanList (log : NLog) (sn : Nat) (h1 : log.prev ≤ sn) :
    ∀ (fuel i : Nat) (latest : Option Config), i ≤ log.last → i - sn < fuel →
      scanConfigs log sn fuel i latest = scanList (window log sn i) latest := by
  intro fuel
  induction fuel with
  | zero => intro i latest _ hf; omega
  | succ f ih =>
    intro i latest hi hf
    unfold scanConfigs
    by_cases hle : i ≤ sn
    · rw [if_pos hle, window_empty log sn i hle]; rfl
    · rw [if_neg hle]
      have hsome : ∃ e, log.get? i = some e := by
        unfold NLog.get? NLog.last at *
        rw [if_pos (by omega)]
        exact ⟨_, List.getElem?_eq_getElem (by omega)⟩
      obtain ⟨e, he⟩ := hsome
      rw [he, window_succ log sn i e h1 (by omega) he]
      dsimp only
      have ih' := fun l => ih (i - 1) l (by omega) (by omega)
      unfold scanList
      cases hc : e.config? with
      | some c =>
        dsimp only
        cases latest with
        | none => dsimp only; exact ih' _
        | some l => rfl
      | none =>
        dsimp only
        split
        · rfl
        · exact ih' _

/-- no undecodable configuration entry -/
def NoDecodeErr (es : List Entry) : Prop := ∀ e ∈ es, e.typ = etConfig → e.config?.isSome

/-- **`scanList` returns the newest two configuration entries (newest first)**: with `cs` the
configurations among the visited entries, newest first, the scan yields `(cs[0]?, cs[1]?)` — and, when a
latest one was already found, `(latest, cs[0]?)`. It never fails without a decode error. -/
theorem scanList_spec (es : List Entry) (hok : NoDecodeErr es) (latest : Option Config) :
    scanList es latest =
      match latest with
      | none => ((es.filterMap Entry.config?)[0]?, (es.filterMap Entry.config?)[1]?, false)
      | some l => (some l, (es.filterMap Entry.config?)[0]?, false) := by
  induction es generalizing latest with
  | nil => cases latest <;> rfl
  | cons e es ih =>
    have hok' : NoDecodeErr es := fun x hx => hok x (List.mem_cons_of_mem _ hx)
    unfold scanList
    cases hc : e.config? with
    | some c =>
      dsimp only
      rw [List.filterMap_cons_some hc]
      cases latest with
      | none => dsimp only; rw [ih hok']; rfl
      | some l => rfl
    | none =>
      dsimp only
      rw [List.filterMap_cons_none hc]
      have : e.typ ≠ etConfig := by
        intro ht
        have := hok e (List.mem_cons_self ..) ht
        rw [hc] at this; cases this
      rw [if_neg this]
      exact ih hok' latest

example : scanList [{ index := 5, typ := etNop }, { index := 4, typ := etConfig, cfg := some { nodes := [{ id := 1 }] } },
      { index := 3, typ := etConfig, cfg := some {} }, { index := 2, typ := etConfig, cfg := some {} }] none
    = (some { nodes := [{ id := 1 }], index := 4 }, some { index := 3 }, false) := by decide

/-- the index `openStorage` starts scanning from -/
def lastIdxOf (d : Durable) : Nat := if (logOf d).count > 0 then (logOf d).last else (snapOf d).index

theorem restartFails_eq (d : Durable) :
    restartFails d = (scanConfigs (logOf d) (snapOf d).index (lastIdxOf d + 1) (lastIdxOf d) none).2.2 := rfl

theorem restartNode_configs (d : Durable) (r : Nat) (sor : Bool) :
    (restartNode d r sor).configs =
      { committed := (match (scanConfigs (logOf d) (snapOf d).index (lastIdxOf d + 1) (lastIdxOf d) none).1 with
          | none => (snapOf d).config
          | some _ => ((scanConfigs (logOf d) (snapOf d).index (lastIdxOf d + 1) (lastIdxOf d) none).2.1).getD (snapOf d).config),
        latest := ((scanConfigs (logOf d) (snapOf d).index (lastIdxOf d + 1) (lastIdxOf d) none).1).getD (snapOf d).config } := rfl

/-- scanning stops earlier with a newer snapshot: it cannot fail where the scan down to an older one did not -/
theorem scanConfigs_mono (log : NLog) (sn sn' : Nat) (hle : sn ≤ sn') :
    ∀ (fuel i : Nat) (latest : Option Config), (scanConfigs log sn fuel i latest).2.2 = false →
      (scanConfigs log sn' fuel i latest).2.2 = false := by
  intro fuel
  induction fuel with
  | zero => intro i latest _; rfl
  | succ f ih =>
    intro i latest h
    unfold scanConfigs at h ⊢
    by_cases c1 : i ≤ sn'
    · rw [if_pos c1]
    · rw [if_neg c1]
      rw [if_neg (by omega)] at h
      cases hg : log.get? i with
      | none => rw [hg] at h; cases h
      | some e =>
        rw [hg] at h
        dsimp only at h ⊢
        cases hc : e.config? with
        | some c =>
          rw [hc] at h
          dsimp only at h ⊢
          cases latest with
          | none => exact ih _ _ h
          | some l => rfl
        | none =>
          rw [hc] at h
          dsimp only at h ⊢
          split
          · rename_i ht; rw [if_pos ht] at h; cases h
          · rename_i ht; rw [if_neg ht] at h; exact ih _ _ h

/-- a restart cannot fail on an empty log -/
theorem restartFails_empty_log (d : Durable) (h : d.log.entries = []) : restartFails d = false := by
  have hc : (logOf d).count = 0 := by
    rcases logOf_cases d with ⟨_, e⟩ | ⟨_, e⟩ <;> rw [e]
    · rfl
    · unfold NLog.count; rw [h]; rfl
  rw [restartFails_eq]
  have hl : lastIdxOf d = (snapOf d).index := by unfold lastIdxOf; rw [hc]; rfl
  rw [hl]
  unfold scanConfigs
  rw [if_pos (Nat.le_refl _)]

/-- `openStorage` only looks at the log and the snapshot directory -/
theorem restartFails_congr (d d' : Durable) (h1 : d'.log = d.log) (h2 : d'.snaps = d.snaps) :
    restartFails d' = restartFails d := by
  have e1 : snapOf d' = snapOf d := by unfold snapOf; rw [h2]
  have e0 : staleLog d' = staleLog d := by unfold staleLog; rw [h1, h2]
  have e2 : logOf d' = logOf d := by unfold logOf; rw [e0, e1, h1]
  have e3 : lastIdxOf d' = lastIdxOf d := by unfold lastIdxOf; rw [e1, e2]
  rw [restartFails_eq, restartFails_eq, e1, e2, e3]

/-- **publishing a newer snapshot cannot make a restart fail** (same log, not stale with respect to the old
snapshot, newest snapshot at or above the old one). -/
theorem restartFails_newer_snapshot (d d' : Durable) (hlog : d'.log = d.log) (hst : staleLog d = false)
    (hidx : (snapOf d).index ≤ (snapOf d').index) (h : restartFails d = false) : restartFails d' = false := by
  rw [restartFails_eq] at h ⊢
  rcases logOf_cases d' with ⟨hlt, e'⟩ | ⟨hge, e'⟩
  · -- the log ends below the new snapshot: reset, nothing to scan
    have hl : lastIdxOf d' = (snapOf d').index := by unfold lastIdxOf; rw [e']; rfl
    rw [hl]; unfold scanConfigs; rw [if_pos (Nat.le_refl _)]
  · rw [hlog] at hge e'
    have e : logOf d = d.log := by
      rcases logOf_cases d with ⟨hlt, _⟩ | ⟨_, e⟩
      · rw [hst] at hlt; cases hlt
      · exact e
    by_cases hc : d.log.count > 0
    · have hl : lastIdxOf d = d.log.last := by unfold lastIdxOf; rw [e, if_pos hc]
      have hl' : lastIdxOf d' = d.log.last := by unfold lastIdxOf; rw [e', if_pos hc]
      rw [hl, e] at h
      rw [hl', e']
      exact scanConfigs_mono d.log _ _ hidx _ _ _ h
    · have hl' : lastIdxOf d' = (snapOf d').index := by unfold lastIdxOf; rw [e', if_neg hc]
      rw [hl']; unfold scanConfigs; rw [if_pos (Nat.le_refl _)]

/-- a restart that does not fail yields a node whose log is contiguous with its snapshot -/
theorem restart_ok_contiguous (d : Durable) (r : Nat) (sor : Bool) (hc : d.cid ≠ 0) (hn : d.nid ≠ 0)
    (hf : restartFails d = false) :
    ∃ n, restart d r sor = some n ∧ n.lastLogIndex ≥ n.snapIndex ∧ n.log.last ≥ n.snapIndex := by
  unfold Node.restart
  rw [if_neg (by intro h; rcases h with h | h <;> contradiction), hf, if_neg (by decide)]
  refine ⟨_, rfl, ?_⟩
  have key : (restartNode d r sor).lastLogIndex ≥ (restartNode d r sor).snapIndex ∧
      (restartNode d r sor).log.last ≥ (restartNode d r sor).snapIndex := by
    show (if (logOf d).count > 0 then (logOf d).last else (snapOf d).index) ≥ (snapOf d).index ∧
      (logOf d).prev + (logOf d).entries.length ≥ (snapOf d).index
    rcases logOf_cases d with ⟨h, e⟩ | ⟨h, e⟩
    · rw [e]; simp [NLog.reset, NLog.count]
    · rw [e]
      have h' : (snapOf d).index ≤ d.log.prev + d.log.entries.length := h
      refine ⟨?_, h'⟩
      split
      · exact h
      · exact Nat.le_refl _
  split
  · obtain ⟨o1, o2, _, o4, _⟩ := fsmRestore_other (restartNode d r sor)
    show (restartNode d r sor).fsmRestore.lastLogIndex ≥ (restartNode d r sor).fsmRestore.snapIndex ∧
      (restartNode d r sor).fsmRestore.log.last ≥ (restartNode d r sor).fsmRestore.snapIndex
    rw [o1, o2, o4]; exact key
  · exact key


/-- the configuration entries above the snapshot in the log a restart works with, newest first -/
def configsAbove (d : Durable) : List Config :=
  (window (logOf d) (snapOf d).index (logOf d).last).filterMap Entry.config?

/-- **the configurations after a restart**: `latest` is the newest configuration entry above the snapshot,
`committed` the one before it; each falls back to the snapshot's label when there is no such entry; and
`openStorage` does not fail. (`DurWF`: the log starts at or below the snapshot; no undecodable
configuration entry above the snapshot.) -/
theorem restart_configs (d : Durable) (r : Nat) (sor : Bool) (hwf : DurWF d)
    (hok : NoDecodeErr (window (logOf d) (snapOf d).index (logOf d).last)) :
    restartFails d = false ∧
    (restartNode d r sor).configs.latest = ((configsAbove d)[0]?).getD (snapOf d).config ∧
    (restartNode d r sor).configs.committed = ((configsAbove d)[1]?).getD (snapOf d).config := by
  have hprev : (logOf d).prev ≤ (snapOf d).index ∧ (snapOf d).index ≤ (logOf d).last := by
    rcases logOf_cases d with ⟨_, e⟩ | ⟨h, e⟩ <;> rw [e]
    · exact ⟨Nat.le_refl _, by simp [NLog.reset, NLog.last]⟩
    · exact ⟨hwf, h⟩
  have hlast : lastIdxOf d ≤ (logOf d).last := by
    unfold lastIdxOf; split
    · exact Nat.le_refl _
    · exact hprev.2
  have hwin : window (logOf d) (snapOf d).index (lastIdxOf d) = window (logOf d) (snapOf d).index (logOf d).last := by
    unfold lastIdxOf; split
    · rfl
    · rename_i hc
      have : (logOf d).last ≤ (snapOf d).index := by
        unfold NLog.count at hc; unfold NLog.last; omega
      rw [window_empty _ _ _ (Nat.le_refl _), window_empty _ _ _ this]
  have hscan := scanConfigs_eq_scanList (logOf d) (snapOf d).index hprev.1 (lastIdxOf d + 1) (lastIdxOf d) none
    hlast (by omega)
  rw [hwin, scanList_spec _ hok] at hscan
  rw [restartFails_eq, restartNode_configs, hscan]
  unfold configsAbove
  refine ⟨rfl, rfl, ?_⟩
  dsimp only
  cases hc : (List.filterMap Entry.config? (window (logOf d) (snapOf d).index (logOf d).last)) with
  | nil => rfl
  | cons c cs => rfl

/-- no configuration entry above the snapshot: both configurations are the label's -/
theorem restart_configs_none (d : Durable) (r : Nat) (sor : Bool) (hwf : DurWF d)
    (hnone : ∀ e ∈ window (logOf d) (snapOf d).index (logOf d).last, e.typ ≠ etConfig) :
    restartFails d = false ∧ (restartNode d r sor).configs.latest = (snapOf d).config ∧
    (restartNode d r sor).configs.committed = (snapOf d).config := by
  have hok : NoDecodeErr (window (logOf d) (snapOf d).index (logOf d).last) :=
    fun e he ht => absurd ht (hnone e he)
  have hcs : configsAbove d = [] := by
    unfold configsAbove
    rw [List.filterMap_eq_nil_iff]
    intro e he
    unfold Entry.config?
    rw [if_neg (hnone e he)]
  obtain ⟨a, b, c⟩ := restart_configs d r sor hwf hok
  rw [hcs] at b c
  exact ⟨a, b, c⟩

/-- exactly one: it is `latest`, and `committed` is the label's -/
theorem restart_configs_one (d : Durable) (r : Nat) (sor : Bool) (hwf : DurWF d)
    (hok : NoDecodeErr (window (logOf d) (snapOf d).index (logOf d).last)) (c : Config)
    (hone : configsAbove d = [c]) :
    (restartNode d r sor).configs.latest = c ∧ (restartNode d r sor).configs.committed = (snapOf d).config := by
  obtain ⟨_, b, e⟩ := restart_configs d r sor hwf hok
  rw [hone] at b e
  exact ⟨b, e⟩

/-- Non-vacuity: snapshot at 2 labelled with node 9; entries 3 (nop) and 4 (config with node 1) above it. -/
def exDisk : Durable :=
  { cid := 1, nid := 1,
    log := { prev := 2,
             entries := [{ index := 3, typ := etNop },
                         { index := 4, typ := etConfig, cfg := some { nodes := [{ id := 1 }] } }],
             flushed := 4, segs := [2] },
    snaps := [{ index := 2, term := 1, config := { nodes := [{ id := 9 }], index := 1 } }] }

example :
    configsAbove exDisk = [{ nodes := [{ id := 1 }], index := 4 }] ∧
    (restartNode exDisk 1 true).configs.latest = { nodes := [{ id := 1 }], index := 4 } ∧
    (restartNode exDisk 1 true).configs.committed = { nodes := [{ id := 9 }], index := 1 } ∧
    ((restart exDisk 1 true).map (·.lastLogIndex)) = some 4 := by decide

/-- Non-vacuity of the F7 window: snapshot 7 published, log still ending at 2 — the restart resets the log. -/
def exDiskF7 : Durable :=
  { cid := 1, nid := 1, log := { prev := 0, entries := [{ index := 1 }, { index := 2 }], flushed := 2 },
    snaps := [{ index := 7, term := 3 }] }

example : ((restart exDiskF7 1 true).map (fun n => (n.lastLogIndex, n.snapIndex, n.log.prev, n.commitIndex)))
    = some (7, 7, 7, 7) := by decide

/-! ### 4. storage scripts: the crash points of a handler, in order -/

/-- the crash point of the common prefix of `onInstallSnap`: `value.set` iff the request's term is newer
(and not already what is on disk) -/
def preTrace (s : Node) (q : InstallReq) : List (String × Durable) :=
  if q.term > s.term ∧ ¬ (q.term = s.durTerm ∧ 0 = s.durVote)
  then [("value.set", { s.durable with term := q.term, vote := 0 })] else []

theorem installPre_trace (s : Node) (q : InstallReq) : (installPre s q).trace = s.trace ++ preTrace s q := by
  unfold installPre preTrace
  by_cases h : q.term > s.term
  · rw [if_pos h]
    show (s.setTerm q.term).trace = _
    unfold Node.setTerm
    rw [if_pos (by omega), if_pos h]
    unfold Node.storeTermVote
    dsimp only
    by_cases h2 : q.term = s.durTerm ∧ 0 = s.durVote
    · rw [if_pos h2, if_neg (by intro x; exact x.2 h2)]; simp
    · rw [if_neg h2, if_pos ⟨h, h2⟩]; rfl
  · rw [if_neg h, if_neg (by intro x; exact h x.1)]; simp; rfl

/-- with memory = disk (C05 `VoteWF`) the point is there exactly when the term changes -/
theorem preTrace_names (s : Node) (q : InstallReq) (hwf : C05.VoteWF s) :
    (preTrace s q).map (·.1) = if q.term > s.term then ["value.set"] else [] := by
  unfold preTrace
  by_cases h : q.term > s.term
  · rw [if_pos h, if_pos ⟨h, by intro x; have := hwf.1; omega⟩]; rfl
  · rw [if_neg h, if_neg (by intro x; exact h x.1)]; rfl

theorem publishSnapshot_trace (p : Node) (f : SnapFile) :
    (p.publishSnapshot f).trace = p.trace ++
      [("snap.publish", { p.durable with snaps := insertSnap f p.snapsDisk }),
       ("snap.retain", { p.durable with snaps := (insertSnap f p.snapsDisk).take p.retain })] := by
  unfold Node.publishSnapshot Node.point
  simp only [List.append_assoc]
  rfl

/-- **install, discard branch**: the crash points are `value.set`? , `snap.publish`, `snap.retain`, `clearLog`,
with exactly these disk contents (`p` = the state after the term was adopted). -/
theorem install_discard_script (s : Node) (q : InstallReq) (hterm : ¬ q.term < s.term)
    (hahead : s.commitIndex < q.lastIndex) (hk : C09.keepsLog s q = false) :
    (s.onInstallSnap q).trace = s.trace ++ preTrace s q ++
      [("snap.publish", { (installPre s q).durable with snaps := insertSnap (C09.fileOf q) s.snapsDisk }),
       ("snap.retain", { (installPre s q).durable with snaps := (insertSnap (C09.fileOf q) s.snapsDisk).take s.retain }),
       ("clearLog", { (installPre s q).durable with
                        snaps := (insertSnap (C09.fileOf q) s.snapsDisk).take s.retain,
                        log := NLog.reset q.lastIndex })] := by
  rw [C09.install_discard_shape s q hterm hahead hk, (C09.discardTail_fields _ _).2.2.2.2.2.2.2.2.2.2.2,
    publishSnapshot_trace, installPre_trace]
  have sd := sameData_installPre s q
  rw [sd.snapsDisk, sd.retain]
  simp only [List.append_assoc, List.cons_append, List.nil_append, List.append_cancel_left_eq]
  congr 2
  simp [Node.clearLog, Node.point, Node.durable, NLog.durable, NLog.reset, Node.publishSnapshot, C09.fileOf]
  exact sd.snapsDisk ▸ sd.retain ▸ rfl

theorem install_discard_names (s : Node) (q : InstallReq) (hterm : ¬ q.term < s.term)
    (hahead : s.commitIndex < q.lastIndex) (hk : C09.keepsLog s q = false) :
    (s.onInstallSnap q).trace.map (·.1) =
      s.trace.map (·.1) ++ (preTrace s q).map (·.1) ++ ["snap.publish", "snap.retain", "clearLog"] := by
  rw [install_discard_script s q hterm hahead hk]
  simp

/-- **install, everything but the discard branch**: a stale-term request, a request not ahead of the commit
index, and a request whose last entry the log already holds (keep branch) touch the disk at most by
`value.set` (adopting a newer term); with a term not above the node's there is no storage point at all. -/
theorem install_ignored_script (s : Node) (q : InstallReq)
    (h : q.term < s.term ∨ q.lastIndex ≤ s.commitIndex ∨ C09.keepsLog s q = true) :
    (s.onInstallSnap q).trace = s.trace ++ (if q.term < s.term then [] else preTrace s q) ∧
    (q.term ≤ s.term → (s.onInstallSnap q).trace = s.trace) := by
  by_cases h1 : q.term < s.term
  · rw [onInstallSnap_eq, if_pos h1, if_pos h1]
    exact ⟨by simp [Node.ret], fun _ => rfl⟩
  · have h2 : q.lastIndex ≤ s.commitIndex ∨ C09.keepsLog s q = true := by
      rcases h with h | h
      · contradiction
      · exact h
    rw [C09.install_nothing_shape s q h1 h2, if_neg h1]
    exact ⟨installPre_trace s q, fun hle => C09.installPre_trace_same_term s q hle⟩

/-- **install, keep branch**: `value.set`? only — no snapshot is stored, the log is not touched. -/
theorem install_keep_script (s : Node) (q : InstallReq) (hterm : ¬ q.term < s.term)
    (hk : C09.keepsLog s q = true) :
    (s.onInstallSnap q).trace = s.trace ++ preTrace s q := by
  have h := (install_ignored_script s q (Or.inr (Or.inr hk))).1
  rw [if_neg hterm] at h
  exact h

/-- **snapRun**: no storage operation when idle or refusing, else `snap.publish`, `snap.retain`. -/
theorem snapRun_script (s : Node) :
    s.snapRun.trace.map (·.1) = s.trace.map (·.1) ++
      (match s.snapPending with
       | none => []
       | some rq => if s.fsm.index = s.snapIndex ∨ s.fsm.index < rq.minIndex then []
                    else ["snap.publish", "snap.retain"]) := by
  cases hp : s.snapPending with
  | none => rw [C09.snapRun_idle s hp]; simp
  | some rq =>
    dsimp only
    by_cases hr : s.fsm.index = s.snapIndex ∨ s.fsm.index < rq.minIndex
    · rw [if_pos hr, ((C09.snapRun_refusal s rq hp).2 hr).2.2]; simp
    · rw [if_neg hr]
      unfold Node.snapRun
      rw [hp]
      dsimp only
      rw [if_neg (by intro x; exact hr (Or.inl x)), if_neg (by intro x; exact hr (Or.inr x))]
      show ((s.withSnapPending none).publishSnapshot _).trace.map (·.1) = _
      rw [publishSnapshot_trace]
      simp [Node.withSnapPending]

theorem reply_trace (s : Node) (t : Nat) (r : String) : (s.reply t r).trace = s.trace := by rw [reply_eq]

/-- the request `Raft.bootstrap` accepts -/
def BootstrapAccepts (s : Node) (c : Config) : Prop :=
  s.configs.isBootstrapped = false ∧ configValid c = true ∧
  ∃ self, c.find? s.nid = some self ∧ self.voter = true ∧ c.isStable = true

/-- **bootstrap**: a rejected request touches nothing; an accepted one goes `commitLog` (the configuration
entry is flushed) then `value.set` (term 1, when it is new). -/
theorem bootstrap_script (s : Node) (t : Nat) (c : Config) :
    (¬ BootstrapAccepts s c → (s.bootstrap t c).trace = s.trace) ∧
    (BootstrapAccepts s c → (s.bootstrap t c).trace.map (·.1) = s.trace.map (·.1) ++ ["commitLog"] ++
      (if s.term < 1 ∧ ¬ (1 = s.durTerm ∧ 0 = s.durVote) then ["value.set"] else [])) := by
  unfold BootstrapAccepts Node.bootstrap
  by_cases h1 : s.configs.isBootstrapped = true
  · rw [if_pos h1]
    exact ⟨fun _ => reply_trace _ _ _, fun h => by rw [h.1] at h1; cases h1⟩
  · rw [if_neg h1]
    by_cases h2 : (!configValid c) = true
    · rw [if_pos h2]
      exact ⟨fun _ => reply_trace _ _ _, fun h => by rw [h.2.1] at h2; cases h2⟩
    · rw [if_neg h2]
      cases hf : c.find? s.nid with
      | none =>
        dsimp only
        exact ⟨fun _ => reply_trace _ _ _, fun h => by obtain ⟨_, _, x, hx, _⟩ := h; cases hx⟩
      | some self =>
        dsimp only
        by_cases h3 : (!self.voter) = true
        · rw [if_pos h3]
          exact ⟨fun _ => reply_trace _ _ _, fun h => by
            obtain ⟨_, _, x, hx, hv, _⟩ := h; injection hx with hx; subst hx; rw [hv] at h3; cases h3⟩
        · rw [if_neg h3]
          by_cases h4 : (!c.isStable) = true
          · rw [if_pos h4]
            exact ⟨fun _ => reply_trace _ _ _, fun h => by
              obtain ⟨_, _, x, _, _, hst⟩ := h; rw [hst] at h4; cases h4⟩
          · rw [if_neg h4]
            refine ⟨fun hn => absurd ⟨by simpa using h1, by simpa using h2, self, rfl, by simpa using h3, by simpa using h4⟩ hn, fun _ => ?_⟩
            rw [changeConfigR_eq, reply_eq]
            show ((((s.appendEntry _).commitLog 1).setTerm 1).trace).map (·.1) = _
            generalize hx : (s.appendEntry _).commitLog 1 = x
            have hxt : x.trace = s.trace ++ [("commitLog", x.durable)] ∧ x.term = s.term ∧ x.durTerm = s.durTerm ∧
                x.durVote = s.durVote := by
              rw [← hx]
              unfold Node.appendEntry Node.commitLog Node.point Node.assert
              simp only [panic_eq]
              refine ⟨?_, ?_, ?_, ?_⟩ <;> (repeat' split) <;> rfl
            obtain ⟨x1, x2, x3, x4⟩ := hxt
            unfold Node.setTerm
            by_cases c1 : x.term ≠ 1
            · rw [if_pos c1]
              by_cases c2 : 1 > x.term
              · rw [if_pos c2]
                unfold Node.storeTermVote
                dsimp only
                by_cases c3 : 1 = x.durTerm ∧ 0 = x.durVote
                · rw [if_pos c3, if_neg (by rw [← x3, ← x4]; intro y; exact y.2 c3), x1]; simp
                · rw [if_neg c3, if_pos (by rw [← x2, ← x3, ← x4]; exact ⟨by omega, c3⟩)]
                  simp [Node.point, x1]
              · rw [if_neg c2, if_neg (by rw [← x2]; intro y; omega), panic_eq, x1]; simp
            · rw [if_neg c1, if_neg (by rw [← x2]; intro y; omega), x1]; simp

/-- the crash-point trace only grows by appending -/
def Extends (t : List (String × Durable)) (s : Node) : Prop := ∃ rest, s.trace = t ++ rest

theorem extends_congr {t : List (String × Durable)} {s s' : Node} (h : Extends t s) (e : s'.trace = s.trace) :
    Extends t s' := by
  obtain ⟨r, hr⟩ := h; exact ⟨r, by rw [e, hr]⟩

theorem extends_closed (t : List (String × Durable)) : Closed (Extends t) where
  panic := fun s site h => extends_congr h (by rw [panic_eq])
  reply := fun s a b h => extends_congr h (by rw [reply_eq])
  point := fun s n h => by
    obtain ⟨r, hr⟩ := h
    exact ⟨r ++ [(n, s.durable)], by simp [Node.point, hr]⟩
  ldr := fun s l h => extends_congr h rfl
  append := fun s e r h => extends_congr h rfl
  commitN := fun s n h => extends_congr h rfl
  fsm := fun s f h => extends_congr h rfl
  changeConfigR := fun s c h => extends_congr h (by rw [changeConfigR_eq])
  setCommitIndexR := fun s i h _ => extends_congr h (by
    unfold Node.setCommitIndexR Node.afterConfigCommit Node.closeIfRemoved Node.stepDownIfNotVoter Node.doClose
    simp only [commitConfig_eq]
    repeat' split
    all_goals rfl)
  popOrder := fun s h => extends_congr h rfl

/-- **leader.setCommitIndex**: the first storage operation is `commitLog` (the flush that makes the newly
committed entries durable) — whatever follows (configuration actions) comes after it. -/
theorem setCommitIndexL_first_point (fuel : Nat) (s : Node) (i : Nat) (hi : i > s.commitIndex) :
    ∃ rest, (setCommitIndexL (fuel + 1) s i).trace =
      s.trace ++ ("commitLog", (s.commitLog i).durable) :: rest := by
  have hc := extends_closed (s.trace ++ [("commitLog", (s.commitLog i).durable)])
  have h1 : Extends (s.trace ++ [("commitLog", (s.commitLog i).durable)]) (s.commitLog i) :=
    ⟨[], by rw [List.append_nil]; rfl⟩
  have hCA := fun x a b hx => (hc.block fuel).2.2.2.2.1 x a b hx
  have hfin : Extends (s.trace ++ [("commitLog", (s.commitLog i).durable)]) (setCommitIndexL (fuel + 1) s i) := by
    unfold setCommitIndexL
    extract_lets s1 ready r s2 s3
    have h2 : Extends (s.trace ++ [("commitLog", (s.commitLog i).durable)]) s2 := hc.setCommitIndexR _ i h1 hi
    have h3 : Extends (s.trace ++ [("commitLog", (s.commitLog i).durable)]) s3 := by
      unfold s3; split
      · exact hCA _ _ _ h2
      · exact h2
    split
    · split
      · exact hc.ldr _ _ (Closed.foldl_inv _ (fun s t hs => hc.reply _ _ _ hs) _ _ h3)
      · exact hCA _ _ _ h3
    · exact h3
  obtain ⟨rest, hr⟩ := hfin
  exact ⟨rest, by rw [hr]; simp⟩

/-- the `value.set` point of the common prefix of `onInstallSnap`: log and snapshots on disk are untouched,
so the node restarts exactly when it could before -/
theorem preTrace_restart_ok (s : Node) (q : InstallReq) (sor : Bool)
    (hcid : s.cid ≠ 0) (hnid : s.nid ≠ 0) (h0 : restartFails s.durable = false) :
    ∀ pt ∈ preTrace s q,
      ∃ n, restart pt.2 s.retain sor = some n ∧ n.lastLogIndex ≥ n.snapIndex ∧ n.log.last ≥ n.snapIndex := by
  intro pt hpt
  unfold preTrace at hpt
  split at hpt
  · simp only [List.mem_cons, List.not_mem_nil, or_false] at hpt
    subst hpt
    exact restart_ok_contiguous _ _ _ hcid hnid ((restartFails_congr s.durable _ rfl rfl).trans h0)
  · cases hpt

/-- **a crash at any storage point of a discard-branch installation leaves a disk the node restarts from**,
with a log contiguous with the snapshot. Hypotheses: the node could restart before the request
(`restartFails s.durable = false`), identity set, `retain ≥ 1`, and no file on disk newer than the one
installed (see `install_discard_restart_ok` for the well-formed state). (`snap.publish`/`snap.retain`:
snapshot ahead of the log — the F7 window — the log is reset on open; `clearLog`: empty log at the snapshot.) -/
theorem install_discard_restart_ok' (s : Node) (q : InstallReq) (hterm : ¬ q.term < s.term)
    (hahead : s.commitIndex < q.lastIndex) (hk : C09.keepsLog s q = false) (sor : Bool)
    (hcid : s.cid ≠ 0) (hnid : s.nid ≠ 0) (hr : s.retain ≥ 1)
    (hh : ∀ g, s.snapsDisk.head? = some g → g.index ≤ q.lastIndex) (h0 : restartFails s.durable = false)
    (hst : staleLog s.durable = false) :
    ∀ pt ∈ (s.onInstallSnap q).trace, pt ∈ s.trace ∨
      ∃ n, restart pt.2 s.retain sor = some n ∧ n.lastLogIndex ≥ n.snapIndex ∧ n.log.last ≥ n.snapIndex := by
  intro pt hpt
  rw [install_discard_script s q hterm hahead hk] at hpt
  have sd := sameData_installPre s q
  obtain ⟨tl, htl⟩ := insertSnap_head (C09.fileOf q) s.snapsDisk hh
  obtain ⟨k, hk'⟩ : ∃ k, s.retain = k + 1 := ⟨s.retain - 1, by omega⟩
  have hold : (snapOf s.durable).index ≤ q.lastIndex := by
    unfold snapOf
    show ((s.snapsDisk.head?).getD {}).index ≤ q.lastIndex
    cases hd : s.snapsDisk.head? with
    | none => exact Nat.zero_le _
    | some g => exact hh g hd
  have hplog : (installPre s q).durable.log = s.durable.log := by
    show (installPre s q).log.durable = s.log.durable
    rw [sd.log]
  have hpc : (installPre s q).durable.cid = s.cid := sd.cid
  have hpn : (installPre s q).durable.nid = s.nid := sd.nid
  simp only [List.mem_append, List.mem_cons, List.not_mem_nil, or_false] at hpt
  rcases hpt with (hpt | hpt) | hpt | hpt | hpt
  · exact Or.inl hpt
  · exact Or.inr (preTrace_restart_ok s q sor hcid hnid h0 pt hpt)
  · right; subst hpt
    refine restart_ok_contiguous _ _ _ (by rw [← hpc] at hcid; exact hcid) (by rw [← hpn] at hnid; exact hnid) ?_
    refine restartFails_newer_snapshot s.durable _ hplog hst ?_ h0
    show _ ≤ (((insertSnap (C09.fileOf q) s.snapsDisk).head?).getD {}).index
    rw [htl]; exact hold
  · right; subst hpt
    refine restart_ok_contiguous _ _ _ (by rw [← hpc] at hcid; exact hcid) (by rw [← hpn] at hnid; exact hnid) ?_
    refine restartFails_newer_snapshot s.durable _ hplog hst ?_ h0
    show _ ≤ ((((insertSnap (C09.fileOf q) s.snapsDisk).take s.retain).head?).getD {}).index
    rw [htl, hk']; exact hold
  · right; subst hpt
    refine restart_ok_contiguous _ _ _ (by rw [← hpc] at hcid; exact hcid) (by rw [← hpn] at hnid; exact hnid) ?_
    exact restartFails_empty_log _ rfl

/-- … in a well-formed state (`C09.SnapsWF`: directory sorted, `snaps.index` = newest file ≤ commit index)
the installed snapshot is always the newest, so no extra hypothesis on the directory is needed. -/
theorem install_discard_restart_ok (s : Node) (q : InstallReq) (hterm : ¬ q.term < s.term)
    (hahead : s.commitIndex < q.lastIndex) (hk : C09.keepsLog s q = false) (sor : Bool)
    (hcid : s.cid ≠ 0) (hnid : s.nid ≠ 0) (hr : s.retain ≥ 1)
    (hwf : C09.SnapsWF s) (h0 : restartFails s.durable = false) (hst : staleLog s.durable = false) :
    ∀ pt ∈ (s.onInstallSnap q).trace, pt ∈ s.trace ∨
      ∃ n, restart pt.2 s.retain sor = some n ∧ n.lastLogIndex ≥ n.snapIndex ∧ n.log.last ≥ n.snapIndex :=
  install_discard_restart_ok' s q hterm hahead hk sor hcid hnid hr (C09.snapsWF_head_le s q hwf hahead) h0 hst

/-- **… and of every other installation request** (stale term, not ahead of the commit index, keep branch):
the only possible crash point is `value.set`; the node restarts there as it could before. -/
theorem install_ignored_restart_ok (s : Node) (q : InstallReq)
    (h : q.term < s.term ∨ q.lastIndex ≤ s.commitIndex ∨ C09.keepsLog s q = true) (sor : Bool)
    (hcid : s.cid ≠ 0) (hnid : s.nid ≠ 0) (h0 : restartFails s.durable = false) :
    ∀ pt ∈ (s.onInstallSnap q).trace, pt ∈ s.trace ∨
      ∃ n, restart pt.2 s.retain sor = some n ∧ n.lastLogIndex ≥ n.snapIndex ∧ n.log.last ≥ n.snapIndex := by
  intro pt hpt
  rw [(install_ignored_script s q h).1] at hpt
  rcases List.mem_append.mp hpt with hpt | hpt
  · exact Or.inl hpt
  · right
    split at hpt
    · cases hpt
    · exact preTrace_restart_ok s q sor hcid hnid h0 pt hpt

/-- the keep-branch instance -/
theorem install_keep_restart_ok (s : Node) (q : InstallReq) (hk : C09.keepsLog s q = true) (sor : Bool)
    (hcid : s.cid ≠ 0) (hnid : s.nid ≠ 0) (h0 : restartFails s.durable = false) :
    ∀ pt ∈ (s.onInstallSnap q).trace, pt ∈ s.trace ∨
      ∃ n, restart pt.2 s.retain sor = some n ∧ n.lastLogIndex ≥ n.snapIndex ∧ n.log.last ≥ n.snapIndex :=
  install_ignored_restart_ok s q (Or.inr (Or.inr hk)) sor hcid hnid h0

/-- **vote handler**: no storage operation, or exactly one `value.set` (C05 shows what it stores). -/
theorem vote_script (s : Node) (q : VoteReq) :
    (s.onVoteRequest q).trace = s.trace ∨ ∃ d, (s.onVoteRequest q).trace = s.trace ++ [("value.set", d)] := by
  have hsv : ∀ (x : Node) t c, (x.setVotedFor t c).trace = x.trace ∨
      ∃ d, (x.setVotedFor t c).trace = x.trace ++ [("value.set", d)] := by
    intro x t c
    unfold Node.setVotedFor Node.storeTermVote
    simp only [panic_eq, Node.point]
    repeat' split
    all_goals first | (left; rfl) | (right; exact ⟨_, rfl⟩)
  unfold Node.onVoteRequest
  split
  · left; rfl
  · split
    · left; rfl
    · dsimp only
      have hr : (if q.term > s.term then s.setRole Role.follower else s).trace = s.trace := by split <;> rfl
      rw [← hr]
      repeat' split
      all_goals exact hsv _ _ _

end C10
end Raft

#print axioms Raft.C10.restartNode_fields
#print axioms Raft.C10.logOf_cases
#print axioms Raft.C10.restart_log_contiguous_with_snapshot
#print axioms Raft.C10.restart_log_prev_le_snapshot
#print axioms Raft.C10.restart_term_vote
#print axioms Raft.C10.restart_some
#print axioms Raft.C10.restart_fsm
#print axioms Raft.C10.durable_log
#print axioms Raft.C10.flushed_entries_survive
#print axioms Raft.C10.window_empty
#print axioms Raft.C10.window_succ
#print axioms Raft.C10.scanConfigs_eq_scanList
#print axioms Raft.C10.scanList_spec
#print axioms Raft.C10.restartFails_eq
#print axioms Raft.C10.restartNode_configs
#print axioms Raft.C10.scanConfigs_mono
#print axioms Raft.C10.restartFails_empty_log
#print axioms Raft.C10.restartFails_congr
#print axioms Raft.C10.restartFails_newer_snapshot
#print axioms Raft.C10.restart_ok_contiguous
#print axioms Raft.C10.restart_configs
#print axioms Raft.C10.restart_configs_none
#print axioms Raft.C10.restart_configs_one
#print axioms Raft.C10.installPre_trace
#print axioms Raft.C10.preTrace_names
#print axioms Raft.C10.publishSnapshot_trace
#print axioms Raft.C10.install_discard_script
#print axioms Raft.C10.install_discard_names
#print axioms Raft.C10.install_ignored_script
#print axioms Raft.C10.install_keep_script
#print axioms Raft.C10.snapRun_script
#print axioms Raft.C10.reply_trace
#print axioms Raft.C10.bootstrap_script
#print axioms Raft.C10.extends_congr
#print axioms Raft.C10.extends_closed
#print axioms Raft.C10.setCommitIndexL_first_point
#print axioms Raft.C10.preTrace_restart_ok
#print axioms Raft.C10.install_discard_restart_ok'
#print axioms Raft.C10.install_discard_restart_ok
#print axioms Raft.C10.install_ignored_restart_ok
#print axioms Raft.C10.install_keep_restart_ok
#print axioms Raft.C10.vote_script
