/-
C17 (progress of replication) — the probe loop of `replication.replicate` as a whole: it terminates, and
when it ends with "matched" the follower really holds the leader's entry at `matchIndex`.

The model (`Repl.probe`, Model/ReplProbe.lean) is compared run by run with the REAL `replicate()` loop by the
engine probelive (real leader node, real follower node, scripted connection); the step functions it is built
from are tied to replication.go by repldiff. `Repl.probe_decreases` (Lemmas/ReplSteps.lean) is the per-step
ranking argument; here it is lifted to the loop.
-/
import RaftVerif.Lemmas.ReplProbe

namespace Raft
namespace C17Probe
open Repl

/-- statement of the property slice proved here (kept as a `Prop` for reference) -/
def C17Probe_statement : Prop :=
  ∀ (env : Env) (s : Loop) (fuel : Nat),
    s.st.matchIndex < s.st.nextIndex → AgreeIfKnown env s.flr s.st.matchIndex → s.Honest →
    s.st.nextIndex - s.st.matchIndex ≤ fuel →
    (probe env fuel s).ending = "matched" ∨ (probe env fuel s).ending = "needInstall" ∨
    (probe env fuel s).ending = "failed"

/-- **probe_terminates** (a): with a follower that answers by the consistency check, a replication whose
`matchIndex` is sound (the follower holds what was acknowledged) needs at most `nextIndex - matchIndex`
rounds: with that fuel the probe ends with `matched`, `needInstall` (ErrNotFound: fall back to the
snapshot) or `failed` (stop / faulty follower / error) — never by running out of fuel. -/
theorem probe_terminates : C17Probe_statement := by
  intro env s fuel hm ha hh hf
  rcases (probe_spec env fuel s hm ha hh).ending with h | h | h | ⟨_, h⟩
  · exact Or.inl h
  · exact Or.inr (Or.inl h)
  · exact Or.inr (Or.inr h)
  · omega

/-- **probe_finds_match** (b): when the probe ends with `matched`, then `matchIndex + 1 = nextIndex`, and the
follower holds the leader's entry at `matchIndex` (same index, same term — or its snapshot covers it);
`matchIndex` did not go down. -/
theorem probe_finds_match (env : Env) (s : Loop) (fuel : Nat)
    (hm : s.st.matchIndex < s.st.nextIndex) (ha : AgreeAt env s.flr s.st.matchIndex) (hh : s.Honest)
    (hend : (probe env fuel s).ending = "matched") :
    let r := (probe env fuel s).loop
    r.st.matchIndex + 1 = r.st.nextIndex ∧ AgreeAt env r.flr r.st.matchIndex ∧
    s.st.matchIndex ≤ r.st.matchIndex := by
  have h := probe_spec env fuel s hm ha.ifKnown hh
  exact ⟨h.matched hend, h.agree ha, h.mono⟩

/-- **probe_exchange_bound** (c): the probe adds at most `nextIndex - matchIndex` exchanges to the trace,
whatever the fuel; every one of them is a request without entries (a probe never ships entries). -/
theorem probe_exchange_bound (env : Env) (s : Loop) (fuel : Nat)
    (hm : s.st.matchIndex < s.st.nextIndex) (ha : AgreeIfKnown env s.flr s.st.matchIndex) (hh : s.Honest) :
    let r := (probe env fuel s).loop
    r.trace.length ≤ s.trace.length + (s.st.nextIndex - s.st.matchIndex) ∧
    (∀ x ∈ r.trace.drop s.trace.length, x.kind = "append" ∧ x.pipelined = false ∧
        ∃ q, x.append = some q ∧ q.entries = []) := by
  obtain ⟨xs, h1, h2, _, h4⟩ := (probe_spec env fuel s hm ha hh).trace
  intro r
  have hr : r.trace = s.trace ++ xs := h1
  rw [hr]
  refine ⟨by rw [List.length_append]; omega, ?_⟩
  rw [List.drop_left]
  exact h4

/-! ### corollaries -/

/-- the probe never makes more exchanges than it has fuel, and (with an honest follower) it leaves the
follower's log alone: same snapshot index, same entries -/
theorem probe_keeps_follower_log (env : Env) (s : Loop) (fuel : Nat)
    (hm : s.st.matchIndex < s.st.nextIndex) (ha : AgreeIfKnown env s.flr s.st.matchIndex) (hh : s.Honest) :
    let r := (probe env fuel s).loop
    r.flr.snapIndex = s.flr.snapIndex ∧ r.flr.terms = s.flr.terms ∧ r.trace.length ≤ s.trace.length + fuel := by
  have h := probe_spec env fuel s hm ha hh
  obtain ⟨xs, h1, _, h3, _⟩ := h.trace
  intro r
  have hr : r.trace = s.trace ++ xs := h1
  exact ⟨h.snap, h.terms, by rw [hr, List.length_append]; omega⟩

/-- `matchIndex` never goes down along the probe — no hypothesis at all (faulty follower, any fuel) -/
theorem probe_match_monotone (env : Env) (s : Loop) (fuel : Nat) :
    s.st.matchIndex ≤ (probe env fuel s).loop.st.matchIndex :=
  probe_match_mono env fuel s

/-- a round ending with `needInstall` sent nothing: the loop state (trace included) is untouched and
`writeAppendEntriesReq` had returned ErrNotFound — no hypothesis at all -/
theorem needInstall_round_sends_nothing (env : Env) (s : Loop) (h : (probeRound env s).ending = "needInstall") :
    (probeRound env s).loop = s ∧ (writeAppend s.st env false).err = "notFound" :=
  probeRound_needInstall env s h

/-! ### non-vacuity -/

/-- leader: five entries in three terms (1 1 2 3 3), nothing compacted -/
def envA : Env :=
  { log := { prev := 0, entries := [⟨1, 1, 2, "a", none⟩, ⟨2, 1, 2, "b", none⟩, ⟨3, 2, 2, "c", none⟩,
                                    ⟨4, 3, 2, "d", none⟩, ⟨5, 3, 2, "e", none⟩], flushed := 5, segs := [0] } }

/-- follower: agrees up to index 3, then a divergent suffix of term 2 (1 1 2 2 2); the first exchange also
delivers a leader update -/
def loopA : Loop :=
  { st := { matchIndex := 0, nextIndex := 6, ldrLastIndex := 5, viewLast := 5, term := 3, src := 1 },
    flr := { term := 3, terms := [1, 1, 2, 2, 2] },
    ticks := [{ upd := some { prev := 0, last := 5, commit := 3 } }, {}] }

/-- (1) all hypotheses of (a) and (b) hold, two mismatch rounds (prev = 5, prev = 4) and a success at
prev = 3: the probe ends `matched` with `matchIndex = 3`, `nextIndex = 4` after three exchanges -/
example :
    loopA.st.matchIndex < loopA.st.nextIndex ∧ AgreeAt envA loopA.flr loopA.st.matchIndex ∧
    AgreeIfKnown envA loopA.flr loopA.st.matchIndex ∧ loopA.Honest ∧
    loopA.st.nextIndex - loopA.st.matchIndex ≤ 6 ∧
    (probe envA 6 loopA).ending = "matched" ∧ (probe envA 6 loopA).loop.st.matchIndex = 3 ∧
    (probe envA 6 loopA).loop.st.nextIndex = 4 ∧
    (probe envA 6 loopA).loop.trace.map (·.resp.result) = [rPrevTermMismatch, rPrevTermMismatch, rSuccess] := by
  have hag : AgreeAt envA loopA.flr loopA.st.matchIndex := ⟨0, by decide, Or.inl (by decide)⟩
  have hh : loopA.Honest := by unfold Loop.Honest; decide
  exact ⟨by decide, hag, hag.ifKnown, hh, by decide, by decide, by decide, by decide, by decide⟩

/-- leader whose log was compacted up to index 3 (snapshot at 3, term 2); entries 4 and 5 of term 3 remain -/
def envB : Env :=
  { log := { prev := 3, entries := [⟨4, 3, 2, "d", none⟩, ⟨5, 3, 2, "e", none⟩], flushed := 5, segs := [3] },
    snapIndex := 3, snapTerm := 2 }

/-- an empty follower, probed at `prev = 2`: below the leader's first index and not the snapshot index -/
def loopB : Loop :=
  { st := { matchIndex := 0, nextIndex := 3, ldrLastIndex := 5, viewPrev := 3, viewLast := 5, term := 3, src := 1 },
    flr := {} }

/-- (2) `needInstall`: the leader cannot read its term at `prev = 2` any more (`leaderTerm = none`), the
hypotheses of (a) hold, nothing is sent -/
example :
    envB.log.prev > 0 ∧ leaderTerm envB (loopB.st.nextIndex - 1) = none ∧
    loopB.st.matchIndex < loopB.st.nextIndex ∧ AgreeIfKnown envB loopB.flr loopB.st.matchIndex ∧ loopB.Honest ∧
    loopB.st.nextIndex - loopB.st.matchIndex ≤ 3 ∧
    (probe envB 3 loopB).ending = "needInstall" ∧ (probe envB 3 loopB).loop.trace = [] := by
  have hag : AgreeAt envB loopB.flr loopB.st.matchIndex := ⟨0, by decide, Or.inl (by decide)⟩
  have hh : loopB.Honest := by unfold Loop.Honest; decide
  exact ⟨by decide, by decide, by decide, hag.ifKnown, hh, by decide, by decide, by decide⟩

/-- the same leader, a follower that holds two entries only and is probed from the leader's last index -/
def loopB' : Loop :=
  { st := { matchIndex := 0, nextIndex := 6, ldrLastIndex := 5, viewPrev := 3, viewLast := 5, term := 3, src := 1 },
    flr := { term := 2, terms := [1, 1] } }

/-- (2') `needInstall` in the second round: "entry not found" at `prev = 5` brings `nextIndex` down to
the follower's `lastLogIndex + 1 = 3`, whose `prev = 2` is compacted away; one exchange was made -/
example :
    loopB'.st.matchIndex < loopB'.st.nextIndex ∧ AgreeIfKnown envB loopB'.flr loopB'.st.matchIndex ∧ loopB'.Honest ∧
    (probe envB 6 loopB').ending = "needInstall" ∧ (probe envB 6 loopB').loop.st.nextIndex = 3 ∧
    (probe envB 6 loopB').loop.trace.map (·.resp.result) = [rPrevEntryNotFound] := by
  have hag : AgreeAt envB loopB'.flr loopB'.st.matchIndex := ⟨0, by decide, Or.inl (by decide)⟩
  have hh : loopB'.Honest := by unfold Loop.Honest; decide
  exact ⟨by decide, hag.ifKnown, hh, by decide, by decide, by decide⟩

/-- a follower whose five entries all diverge from the leader `envA` -/
def loopC : Loop :=
  { st := { matchIndex := 0, nextIndex := 6, ldrLastIndex := 5, viewLast := 5, term := 3, src := 1 },
    flr := { term := 3, terms := [9, 9, 9, 9, 9] } }

/-- (3) fuel: the divergent follower needs five rounds (five mismatches, the last one brings `nextIndex`
to `matchIndex + 1 = 1`); four rounds of fuel are not enough. The bound `nextIndex - matchIndex = 6` of (a)
is therefore within one of what is needed here. -/
example :
    loopC.st.matchIndex < loopC.st.nextIndex ∧ AgreeIfKnown envA loopC.flr loopC.st.matchIndex ∧ loopC.Honest ∧
    (probe envA 4 loopC).ending = "fuel" ∧
    (probe envA 5 loopC).ending = "matched" ∧ (probe envA 5 loopC).loop.st.matchIndex = 0 ∧
    (probe envA 5 loopC).loop.st.nextIndex = 1 ∧ (probe envA 5 loopC).loop.trace.length = 5 := by
  have hag : AgreeAt envA loopC.flr loopC.st.matchIndex := ⟨0, by decide, Or.inl (by decide)⟩
  have hh : loopC.Honest := by unfold Loop.Honest; decide
  exact ⟨by decide, hag.ifKnown, hh, by decide, by decide, by decide, by decide, by decide⟩

/-- a replication that already knows the match (`matchIndex = 3`, `nextIndex = 4`) -/
def loopD : Loop :=
  { st := { matchIndex := 3, nextIndex := 4, ldrLastIndex := 5, viewLast := 5, term := 3, src := 1 },
    flr := { term := 3, terms := [1, 1, 2, 2, 2] } }

/-- (3') the bound of (a) is tight when `nextIndex - matchIndex = 1`: one round is needed (it confirms
`prev = matchIndex`), with fuel 0 the probe ends with `fuel` -/
example :
    loopD.st.matchIndex < loopD.st.nextIndex ∧ AgreeAt envA loopD.flr loopD.st.matchIndex ∧ loopD.Honest ∧
    loopD.st.nextIndex - loopD.st.matchIndex = 1 ∧
    (probe envA 0 loopD).ending = "fuel" ∧ (probe envA 1 loopD).ending = "matched" ∧
    (probe envA 1 loopD).loop.trace.length = 1 := by
  have hag : AgreeAt envA loopD.flr loopD.st.matchIndex := ⟨2, by decide, Or.inr (by decide)⟩
  have hh : loopD.Honest := by unfold Loop.Honest; decide
  exact ⟨by decide, hag, hh, by decide, by decide, by decide, by decide⟩

/-- the third ending: a follower in a later term answers "stale term", the replication stops: `failed` -/
example : (probe envA 6 { loopA with flr := { term := 4, terms := [1, 1, 2, 2, 2] } }).ending = "failed" ∧
    (probe envA 6 { loopA with flr := { term := 4, terms := [1, 1, 2, 2, 2] } }).err = "stop" := by decide

/-- the hypothesis `Honest` of (a) is needed: a follower whose storage was replaced by an empty one
(fault 1) answers "entry not found" with `lastLogIndex = 0 < matchIndex`; here that is detected (`failed`,
faultyFollower), but the follower's log is no longer the one `AgreeAt` spoke about -/
example : (probe envA 1 { loopD with ticks := [{ fault := 1 }] }).err = "faultyFollower" := by decide

/-- the hypothesis `AgreeIfKnown` of (a) is needed: with an unsound `matchIndex = 4` (the follower holds
term 2 at index 4, the leader term 3) the mismatch at `prev = matchIndex` leaves `nextIndex = matchIndex`,
and the loop never ends: every fuel is used up -/
example : (probe envA 50 { loopA with st := { loopA.st with matchIndex := 4, nextIndex := 5 } }).ending = "fuel" := by
  decide

#print axioms probe_terminates
#print axioms probe_finds_match -- also C04 C06
#print axioms probe_exchange_bound

#print axioms probe_keeps_follower_log
#print axioms probe_match_monotone
#print axioms needInstall_round_sends_nothing

end C17Probe
end Raft
