/-
C09 / C04 / C02 / C03 with THE LEADER'S DELAYED LOG COMPACTION (`leader.checkLogCompact`, `removeLTE` reports) — on the
node level for every state, and on the cluster-level transition system `Raft.Snap5` (Sys/Snap5.lean), which is stage 2
(Sys/Snap2.lean, Props/C09Sys2.lean) WITHOUT its restriction "replication updates never report a compaction".

What the code does (fsm.go `onSnapshotTaken`, leader.go `checkReplUpdates` / `checkLogCompact` / `notifyFlr`,
replication.go `onLeaderUpdate`): see the header of Sys/Snap5.lean.

1. NODE LEVEL — every state satisfying the per-node invariant, every batch, every oracle; no cluster assumptions:
   * `delayed_compaction_node`: a step with a batch of replication updates either is the step without the compaction
     (`SnapDelay.stepNC`), or: the node led, `log.prev < ldr.removeLTE`, EVERY replication's reported `removeLTE` is
     `≥ ldr.removeLTE`, the log becomes `RemoveLTE(ldr.removeLTE)` of what it was — whole segments, `log.prev` moves
     forward but not beyond `ldr.removeLTE ≤ snapIndex`, `lastIndex` does not move, every index above the new
     `log.prev` keeps its entry — and the state is ordered again (`log.prev ≤ snapIndex ≤ commitIndex ≤ lastLogIndex`).
   * `leader_compaction_bounds_node`: `log.prev ≤ ldr.removeLTE ≤ snapIndex ≤ commitIndex` for an open leader is part
     of the inductive invariant `NoPanic.Good` (`C15NoPanic.good_step`: every operation).
   * `compaction_point_crash_image`: when `checkReplUpdates` compacts, `compactLog` is the LAST storage point of the
     step; the disk there is the disk of the completed step (= what a crash before the first storage point of the next
     operation leaves), and it un-compacts to the whole virtual log (`RemoveLTE` commits first).
2. CLUSTER LEVEL — `Raft.Snap5` (`Reachable5 V`): `log_matching_sys_snap5_partial`,
   `leader_completeness_sys_snap5_partial`, `state_machine_safety_sys_snap5_partial`,
   `snapshot_is_committed_prefix_snap5_partial`, `compaction_keeps_servable_snap5_partial` — the theorems of
   Props/C09Sys2.lean — and `delayed_compaction_step_sys_partial` (the virtual log after a batch with compaction
   reports is the log the un-compacted node has after the batch WITHOUT them).  "partial": the assumptions of
   Sys/Snap5.lean — those of stage 2, ONE more side condition on every state (`ldr.removeLTE ≤ snapIndex`), and a
   process dies before `compactLog` in a compacting `checkReplUpdates` (dying later is: completing the step, then dying
   — item 1).  `ordered_in_snap5_partial` DISCHARGES the extra side condition (every node of every reachable state is
   `Order.Ordered`) for runs with the two configuration side conditions of `Snap4.Side4` instead (Lemmas/SnapDelayE.lean).
   `removeLTE` reports are ARBITRARY here: cluster-level safety does not depend on what is reported.
3. THE PROPERTY THE DELAY EXISTS FOR — "a running replication goroutine never has entries of its log view removed under
   it" — on the report protocol in isolation (Sys/SnapView.lean; the ledger of reports is its queue `q`, the ghost is
   the first index `view j` of the goroutine's view; the protocol is parameterised by the report rule of
   `replication.onLeaderUpdate`):
   * **FINDING F19** `view_removed_under_replication` + `removeLTE_lowered` (kernel-checked) + the chain `exL0 … exL7`
     (evaluated on the model): with the ORIGINAL rule (report only when the view moves up) — `onSnapshotTaken` DOES lower
     `ldr.removeLTE` (a follower that was out of contact at the previous snapshot is in contact at the next one),
     `onLeaderUpdate` silently moved the goroutine's view DOWN, the status kept the old, higher report — and when the
     bound went up again `checkLogCompact` compacted beyond the first index of a view in use.  Reproduced on the Go code
     (nil dereference in `writeAppendEntriesReq`) and repaired (commit 1c6b1f3: report whenever the first index CHANGES).
   * `compact_keeps_views` (REPAIRED rule, NO hypothesis on the bound — raised and lowered at will): in every reachable
     state, for every replication the newest waiting report — its status if none waits — IS the first index of the
     goroutine's view; hence every compaction `checkLogCompact` performs (every waiting report taken, every status
     `≥ ldr.removeLTE`) leaves `log.prev ≤ view j` for every replication `j` (`compact_trans_keeps_views`), also if a
     goroutine takes its waiting update between the draining of the channel and the compaction.  The chain `exR4 … exR8`
     (evaluated) shows the repaired protocol on the scenario of F19: `checkLogCompact` waits.
   * `compact_keeps_views_mono_partial`: the alternative repair (never lower the bound) also works, with either rule.
   * node level (`delayed_compaction_keeps_views_node_partial`, Lemmas/SnapDelayF.lean): for every ordered leader state
     coupled with the ghost as in the protocol invariant, the step that takes exactly the waiting reports either does not
     compact or leaves `log.prev ≤ view j` for every replication; for an arbitrary batch the same holds if the coupling
     holds at the decision (`SnapDelay.compaction_keeps_views_at_decision`).  MISSING for arbitrary batches and for the
     composition with the cluster system: a frame lemma for the replication statuses through the leader block and the
     other handlers (header of Lemmas/SnapDelayF.lean) — the frameworks of Lemmas/Inv.lean treat the leader record as
     opaque.  The protocol's transitions are tied to the model by `consume_is_onLeaderUpdate`, `deliver_is_replUpdLoop`,
     `C09.checkLogCompact_effect`.
4. THE FRAME of the leader's compaction bookkeeping, for every operation (guarded closure framework with its own
   induction over the leader block: Lemmas/SnapDelayG1–G3.lean), and the protocol composed with the node model
   (SnapDelayG4/G5.lean):
   * `status_frame_handle` / `status_frame_step` / `status_frame_replUpdates` / `status_frame_snapTaken`: no handler other
     than `onSnapshotTaken` (and `leader.init`) changes `ldr.removeLTE`; no handler other than the case `removeLTE` of the
     loop of `checkReplUpdates` changes the `removeLTE` of a status it keeps; new statuses are created with `removeLTE =
     ldr.removeLTE`; `leaderInit_resets` / `leadership_change_all_new`: `leader.init` sets `ldr.removeLTE := log.prev`
     and on a leadership change ALL replications are new.
   * `leader_step_keeps_views_partial`: for an ordered leader state coupled with the ghost of its goroutines and any
     operation (except `shutdown`, `install`, and batches of updates other than the batch of the waiting reports), the
     state after the step is coupled again with the ghost the step determines, and `log.prev` did not move, or is at or
     below every view (delayed compaction; new leadership), or was moved by the IMMEDIATE compaction of
     `onSnapshotTaken` and is at or below every MATCH INDEX.
   STILL MISSING (so `views_valid_sys_snap5` is not stated): (a) "`log.prev ≤ view j` in every reachable state" is FALSE
   as it stands — the immediate compaction does not consult the views (`exImm`); the true invariant is `log.prev ≤ view j
   ∨ log.prev ≤ the goroutine's match index` and needs, beyond this file, monotone match-index reports and the
   goroutine-side fact `nextIndex - 1 ≥ matchIndex` (and even then a goroutine reads AT its match index: second
   observation of section 3); (b) `NoReAdd` (no member is removed and added again inside one handler) needs reasoning
   about configurations through the leader block; (c) batches that mix `removeLTE` reports with other updates: the frame
   says which statuses such a batch can produce (`status_frame_replUpdates`), the FIFO bookkeeping (`latest`) through a
   loop interleaved with configuration actions is done only for the batch of the waiting reports; (d) the ghost-extended
   cluster system itself.
-/
import RaftVerif.Lemmas.SnapDelayE
import RaftVerif.Lemmas.SnapDelayF
import RaftVerif.Lemmas.SnapDelayG5
import RaftVerif.Sys.SnapView
import RaftVerif.Props.C09Sys2
import RaftVerif.Props.C15NoPanic

namespace Raft
namespace C09Sys4
open Node Election LogRel Replication CommitRel Commit C02Sys C03Sys SnapRel SnapRelU SnapSim Snap Snap2 SnapInv SnapInv2
  Snap5 SnapDelay SnapView

/-! ## 1. node level -/

/-- **Delayed compaction, node level.** Let `s` be any ordered state (`Order.Ordered`, the per-node invariant of C19),
`us` any batch of replication updates, `ra`/`ord` any oracle, and let the step not fail an assertion. Then the step
`s.step (.replUpdates us)` EITHER is the step without compaction (`SnapDelay.stepNC`: the log is what the batch without
its `removeLTE` reports leaves), OR (`SnapDelay.DelayedCompaction`), with `a` the state in which `checkReplUpdates`
takes the decision (`SnapDelay.updPre`: after the loop over the batch, `onMajorityCommit`, `checkQuorum`):
* the node led when the step began, a report was in the batch, `a.log.prev < a.ldr.removeLTE`, and EVERY replication
  status holds `removeLTE ≥ a.ldr.removeLTE` (`all`);
* the log is `RemoveLTE(a.ldr.removeLTE)` of `a.log` (`log`): `log.prev` moves forward (`prev_mono`) but not beyond
  `ldr.removeLTE` (`prev_le`), which is not beyond the snapshot index (`bound_le`) and is not changed (`bound_same`);
  the last index does not move (`last`, `lastLogIndex`); every index above the new `log.prev` keeps its entry (`kept`);
* the state after the step is ordered again (`ordered`): `log.prev ≤ snapIndex ≤ applied ≤ commitIndex ≤ lastLogIndex
  = log.last`, well-formed segment list, `ldr.removeLTE ≤ snapIndex`. -/
theorem delayed_compaction_node (s : Node) (us : List ReplUpdate) (ra : List Nat) (ord : List (List Nat))
    (ho : Order.Ordered s) (hp : (s.step (.replUpdates us) ra ord).panicked = none) :
    s.step (.replUpdates us) ra ord = stepNC s us ra ord ∨ DelayedCompaction s us ra ord :=
  SnapDelay.delayed_compaction_node s us ra ord ho hp

/-- **`log.prev ≤ ldr.removeLTE ≤ snapIndex ≤ commitIndex` for a leader, in every state of every run.** The bounds are
clauses of the per-node invariant `NoPanic.Good` (C15NoPanic), which every operation preserves
(`C15NoPanic.good_step`: from an open good state, for an acceptable operation, unless the model's recursion budget runs
out); so they hold after the step as well. `ldr.removeLTE ≤ snapIndex` holds for every node, leader or not, also for a
stale leader record. -/
theorem leader_compaction_bounds_node {T : Bool} (s : Node) (op : Op) (ra : List Nat) (ord : List (List Nat))
    (hG : NoPanic.Good T s) (ho : s.closed = "") (hr : NoPanic.ReqOk' T s op)
    (hf : (s.step op ra ord).panicked ≠ some "fuel") :
    (s.ldr.removeLTE ≤ s.snapIndex ∧ s.snapIndex ≤ s.commitIndex ∧ (s.role = .leader → s.log.prev ≤ s.ldr.removeLTE)) ∧
    ((s.step op ra ord).ldr.removeLTE ≤ (s.step op ra ord).snapIndex ∧
     (s.step op ra ord).snapIndex ≤ (s.step op ra ord).commitIndex ∧
     ((s.step op ra ord).closed = "" → (s.step op ra ord).role = .leader →
       (s.step op ra ord).log.prev ≤ (s.step op ra ord).ldr.removeLTE)) := by
  have hG' := C15NoPanic.good_step s op ra ord hG ho hr hf
  refine ⟨⟨hG.ordered.removeLTE_le, Nat.le_trans hG.ordered.snap_le_applied hG.ordered.applied_le_commit,
    fun hl => (hG.leader ho hl).1.prevLe⟩,
    ⟨hG'.ordered.removeLTE_le, Nat.le_trans hG'.ordered.snap_le_applied hG'.ordered.applied_le_commit,
    fun hc hl => (hG'.leader hc hl).1.prevLe⟩⟩

/-- **The crash image at `compactLog`.** Let the step compact (`DelayedCompaction`). Then `compactLog` is the last
storage point of the step: a process that dies after `k` storage points with `k` beyond the storage points of the step
without the compaction finds on disk exactly the disk of the COMPLETED step — the same disk as after dying before the
first storage point of whatever operation `op'` comes next — and that disk, with what the compaction removed added to the
compacted-away prefix `β`, un-compacts to the whole un-compacted log the leader had when it decided (entries not flushed
before included: `RemoveLTE` commits first). So the restart after such a crash is the restart of stage 2 from the state
after the completed step (`SnapInv2.restart_view`): same virtual log. -/
theorem compaction_point_crash_image (β : List Entry) (s : Node) (us : List ReplUpdate) (ra : List Nat)
    (ord : List (List Nat)) (hd : DelayedCompaction s us ra ord) (k : Nat)
    (hk : (stepNC s us ra ord).trace.length < k) (op' : Op) (ra' : List Nat) (ord' : List (List Nat)) :
    C05.crashDisk s (.replUpdates us) ra ord k = (s.step (.replUpdates us) ra ord).durable ∧
    C05.crashDisk (s.step (.replUpdates us) ra ord) op' ra' ord' 0 = (s.step (.replUpdates us) ra ord).durable ∧
    (uncD ((uncLog β (updPre (s.begin ra ord) us).log).entries.take (s.step (.replUpdates us) ra ord).log.prev)
      (C05.crashDisk s (.replUpdates us) ra ord k)).log.entries = (uncLog β (updPre (s.begin ra ord) us).log).entries := by
  obtain ⟨h1, h2⟩ := crash_after_compact s us ra ord hd.compacted k hk op' ra' ord'
  refine ⟨h1, h2, ?_⟩
  rw [h1]
  exact compact_image_virtual β s us ra ord hd

/-! ### example (node level): a leader with one lagging follower — snapshot at 5, follower 3 matched 2 and out of
contact, follower 2 matched 6; segments `(0,4]`, `(4,…]`.  `onSnapshotTaken` records `removeLTE = 4` and does not
compact (`nowCompact = CanLTE(2) = 0`); the report of follower 2 alone does not compact; when follower 3 has reported
too, `checkLogCompact` compacts to 4. -/

def exCfg : Config :=
  { index := 1, term := 1, nodes := [1, 2, 3].map (fun i => { id := i, addr := s!"h:{i}", voter := true }) }
def exRepl (id m : Nat) (nc : Bool) : Repl :=
  { id := id, matchIndex := m, noContact := nc, node := { id := id, addr := s!"h:{id}", voter := true } }
def exEnt (k : Nat) : Entry := if k = 1 then exCfg.toEntry else { index := k, term := 2, typ := etUpdate, data := s!"d{k}" }

/-- leader 1 of term 2, log 1…6, snapshot taken at index 5 (the result is waiting to be handed over) -/
def exD0 : Node :=
  { cid := 7, nid := 1, term := 2, durTerm := 2, votedFor := 1, durVote := 1,
    log := { prev := 0, entries := [exEnt 1, exEnt 2, exEnt 3, exEnt 4, exEnt 5, exEnt 6], flushed := 6, segs := [0, 4] },
    lastLogIndex := 6, lastLogTerm := 2, role := .leader, leader := 1, commitIndex := 5,
    snapIndex := 5, snapTerm := 2,
    snapsDisk := [{ index := 5, term := 2, config := exCfg, data := ["d2", "d3", "d4", "d5"] }],
    fsm := { index := 5, term := 2, applied := ["d2", "d3", "d4", "d5"], config := exCfg },
    configs := { committed := exCfg, latest := exCfg },
    snapResult := some { task := 9, index := 5 },
    ldr := { node := exCfg.get 1, numVoters := 3, startIndex := 2, removeLTE := 0,
             repls := [exRepl 2 6 false, exRepl 3 2 true] } }

def exRm (id v : Nat) : ReplUpdate := { id := id, upd := .removeLTE v }
/-- the result is handed over: `ldr.removeLTE = 4`, nothing compacted -/
def exD1 : Node := exD0.step .snapTaken [] []
/-- follower 2 reports: nothing compacted -/
def exD2 : Node := exD1.step (.replUpdates [exRm 2 4]) [] []
/-- follower 3 reports: compaction to 4 -/
def exD3 : Node := exD2.step (.replUpdates [exRm 3 4]) [] []

set_option maxRecDepth 100000 in
/-- example for `delayed_compaction_node`: its hypotheses hold for `exD2` and the batch `[removeLTE{3: 4}]`, and the
step is a delayed compaction (the log starts after index 4 afterwards; before, `removeLTE = 4` was recorded and the
report of follower 2 alone compacted nothing) -/
example : Order.Ordered exD2 ∧ exD3.panicked = none ∧
    exD1.log.prev = 0 ∧ exD1.ldr.removeLTE = 4 ∧ exD2.log.prev = 0 ∧
    exD3.log.prev = 4 ∧ exD3.log.entries.map (·.index) = [5, 6] ∧ exD3.snapIndex = 5 ∧
    exD3.trace.map (·.1) = ["compactLog"] ∧ exD3 ≠ stepNC exD2 [exRm 3 4] [] [] := by
  refine ⟨⟨⟨by decide, by decide, by decide, by decide, by decide, by decide, ⟨by decide, by decide, by decide⟩,
    by decide, by decide⟩, by decide⟩, by decide, by decide, by decide, by decide, by decide, by decide, by decide,
    by decide, fun h => ?_⟩
  have : exD3.log.prev = (stepNC exD2 [exRm 3 4] [] []).log.prev := by rw [h]
  revert this
  decide

/-! ## 2. cluster level: `Raft.Snap5` -/

section
variable {V : List Nat}

/-- **C04 with delayed compaction — log matching (partial).** In every state of the cluster reachable in `Raft.Snap5`
(`Reachable5 V`: any schedule, message delay / loss / duplication / reordering, crashes and restarts, snapshots, the
compaction by `onSnapshotTaken` AND the delayed compaction by `checkLogCompact` triggered by arbitrary `removeLTE`
reports; assumptions: header of Sys/Snap5.lean): if the logs of nodes `i` and `j` hold entries with the same term at
index `k`, then at every index `k' ≤ k` that BOTH logs still hold they hold the SAME entry; and the same for the virtual
logs (compacted-away entries included) at every index `k' ≤ k`. -/
theorem log_matching_sys_snap5_partial (hV : V.Nodup) (x : Snap2.Sys) (h : Reachable5 V x) (i j k : Nat)
    (a b : Entry) (ha : (x.node i).log.get? k = some a) (hb : (x.node j).log.get? k = some b)
    (ht : a.term = b.term) :
    (∀ k', k' ≤ k → ∀ a' b', (x.node i).log.get? k' = some a' → (x.node j).log.get? k' = some b' → a' = b') ∧
    (∀ k', k' ≤ k → ∀ a' b', (x.vnode i).log.get? k' = some a' → (x.vnode j).log.get? k' = some b' → a' = b') := by
  have hS := (inv5_reachable hV h).1.inv2.sinv
  rw [C09Sys2.get_virtual x i k (C09Sys2.get_some_prev ha)] at ha
  rw [C09Sys2.get_virtual x j k (C09Sys2.get_some_prev hb)] at hb
  have key := C09Sys.log_matching_of_inv (view x) hS i j k a b ha hb ht
  refine ⟨fun k' hk a' b' ha' hb' => ?_, key⟩
  rw [C09Sys2.get_virtual x i k' (C09Sys2.get_some_prev ha')] at ha'
  rw [C09Sys2.get_virtual x j k' (C09Sys2.get_some_prev hb')] at hb'
  exact key k' hk a' b' ha' hb'

/-- **C02 with delayed compaction — leader completeness (partial).** In every reachable state of `Raft.Snap5`:
1. every leader holds — in its virtual log, and in its real log unless the index was compacted away, in which case the
   index is covered by the leader's own snapshot — every entry of the ledger `committed` whose term is not above its own;
2. every leader `i` whose term is at least the term of node `j` holds (virtually), at every index within `j`'s commit
   index, the very entry `j` holds there;
3. every created entry of a later term extends every ledger entry. -/
theorem leader_completeness_sys_snap5_partial (hV : V.Nodup) (x : Snap2.Sys) (h : Reachable5 V x) :
    (∀ i, (x.node i).role = .leader → ∀ m ∈ x.cs.committed, m.2 ≤ (x.node i).term →
      ∃ e, (x.vnode i).log.get? m.1 = some e ∧ e.term = m.2 ∧
        ((x.node i).log.prev < m.1 → (x.node i).log.get? m.1 = some e) ∧
        (m.1 ≤ (x.node i).log.prev → m.1 ≤ (x.node i).snapIndex)) ∧
    (∀ i j k, (x.node i).role = .leader → (x.node j).term ≤ (x.node i).term → 1 ≤ k →
      k ≤ (x.node j).commitIndex →
      (x.vnode i).log.get? k = (x.vnode j).log.get? k ∧ ((x.vnode j).log.get? k).isSome = true) ∧
    (∀ m ∈ x.cs.committed, ∀ c ∈ x.cs.T, m.2 < c.e.term → Anc x.cs.T m (key c)) := by
  have hI := (inv5_reachable hV h).1.inv2
  obtain ⟨p1, p2, p3⟩ := C09Sys.leader_completeness_of_inv hV (view x) hI.sinv
  refine ⟨fun i hl m hm hle => ?_, p2, p3⟩
  obtain ⟨e, he, het⟩ := p1 i hl m hm hle
  exact ⟨e, he, het, fun hlt => by rw [C09Sys2.get_virtual x i m.1 hlt]; exact he,
    fun hle' => Nat.le_trans hle' (hI.prev i).le⟩

/-- **C03 with delayed compaction — state-machine safety (partial).** In every reachable state of `Raft.Snap5`, on
every node — whatever mixture of applying entries, snapshots, immediate and delayed compaction, crashes and restores
produced its state:
1. the state machine holds exactly the update payloads of the entries `1 … fsm.index` of its virtual log, in order, and
   never ran ahead of the commit index;
2. every entry it has been fed is committed;
3. a node that applied no more than another holds (virtually) the same entries up to its applied index and its command
   sequence is a prefix of the other's; hence any two command sequences are prefix-comparable. -/
theorem state_machine_safety_sys_snap5_partial (hV : V.Nodup) (x : Snap2.Sys) (h : Reachable5 V x) :
    (∀ i, (x.node i).fsm.index ≤ (x.node i).commitIndex ∧
      (x.node i).fsm.index ≤ (x.vlog i).length ∧
      (x.node i).fsm.applied = ups ((x.vlog i).take (x.node i).fsm.index)) ∧
    (∀ i k, 1 ≤ k → k ≤ (x.node i).fsm.index → Committed (view x).cs (k, termAt (x.vlog i) k)) ∧
    (∀ i j, (x.node i).fsm.index ≤ (x.node j).fsm.index →
      (x.vlog i).take (x.node i).fsm.index = (x.vlog j).take (x.node i).fsm.index ∧
      (x.node i).fsm.applied <+: (x.node j).fsm.applied) ∧
    (∀ i j, (x.node i).fsm.applied <+: (x.node j).fsm.applied ∨
      (x.node j).fsm.applied <+: (x.node i).fsm.applied) :=
  C09Sys.state_machine_safety_of_inv (view x) (inv5_reachable hV h).1.inv2.sinv

/-- **C09 — a snapshot is a committed prefix (partial), with delayed compaction.** In every reachable state of
`Raft.Snap5`, for every snapshot file `f` node `i` ever had on disk and every file on its disk now: `1 ≤ f.index ≤
snapIndex ≤ commitIndex`; `f.data` is the replay of the entries `1 … f.index` of node `i`'s virtual log — including
what either kind of compaction removed since —, and of the virtual log of every node whose commit index covers
`f.index`. -/
theorem snapshot_is_committed_prefix_snap5_partial (hV : V.Nodup) (x : Snap2.Sys) (h : Reachable5 V x) :
    ∀ i f, ((i, f) ∈ x.snaps ∨ f ∈ (x.node i).snapsDisk) →
      1 ≤ f.index ∧ f.index ≤ (x.node i).snapIndex ∧ (x.node i).snapIndex ≤ (x.node i).commitIndex ∧
      (∀ k, 1 ≤ k → k ≤ f.index → Committed (view x).cs (k, termAt (x.vlog i) k)) ∧
      f.data = ups ((x.vlog i).take f.index) ∧
      ∀ j, f.index ≤ (x.node j).commitIndex → f.data = ups ((x.vlog j).take f.index) :=
  C09Sys.snapshot_is_committed_prefix_of_inv (view x) (inv5_reachable hV h).1.inv2.sinv

/-- **C09 — compaction keeps every follower servable (partial), with delayed compaction.** In every reachable state of
`Raft.Snap5` — in particular after `checkLogCompact` compacted —, for every node `i`:
1. `log.prev ≤ snapIndex ≤ commitIndex`: every index the log no longer holds is covered by the node's newest snapshot;
2. if a snapshot exists it is a file on the node's disk, with the snapshot index, whose content is the replay of the
   (virtual) log up to there;
3. every index above `log.prev` up to the last index is answered by `Log.Get` with the entry of the virtual log.
So a leader can bring ANY follower up to date: from its log above `log.prev`, with its snapshot at or below. -/
theorem compaction_keeps_servable_snap5_partial (hV : V.Nodup) (x : Snap2.Sys) (h : Reachable5 V x) (i : Nat) :
    (x.node i).log.prev ≤ (x.node i).snapIndex ∧ (x.node i).snapIndex ≤ (x.node i).commitIndex ∧
    (0 < (x.node i).snapIndex → ∃ f ∈ (x.node i).snapsDisk, f.index = (x.node i).snapIndex ∧
      f.data = ups ((x.vlog i).take f.index)) ∧
    (∀ k, (x.node i).log.prev < k → k ≤ (x.node i).log.last →
      ∃ e, (x.node i).log.get? k = some e ∧ (x.vlog i)[k - 1]? = some e ∧ e.index = k) := by
  have hI := (inv5_reachable hV h).1.inv2
  have so : SnapOK (x.vnode i) := hI.sinv.snap i
  have hhead : (x.node i).snapIndex = (headOf (x.node i).snapsDisk).index := so.head
  refine ⟨(hI.prev i).le, ?_, fun hpos => ?_, fun k hk hkl => ?_⟩
  · show (x.vnode i).snapIndex ≤ (x.vnode i).commitIndex
    rw [so.head]; exact so.files.head_le
  · cases hsd : (x.node i).snapsDisk with
    | nil => rw [hsd] at hhead; exact absurd hhead (by show ¬ _ = 0; omega)
    | cons f t =>
      have hf : f ∈ (x.vnode i).snapsDisk := by
        show f ∈ (x.node i).snapsDisk; rw [hsd]; exact List.mem_cons_self ..
      refine ⟨f, List.mem_cons_self .., ?_, (so.files.files f hf).2.2⟩
      rw [hhead, hsd]; rfl
  · have hn : NWF (E σ0 (x.vnode i)) := nwf hI.sinv.cinv i
    have hlast : (x.vlog i).length = (x.node i).log.last := by
      show (uncLog (x.base i) (x.node i).log).entries.length = _
      have := uncLog_last (β := x.base i) (x.node i).log
      unfold NLog.last at this ⊢
      have h0 : (uncLog (x.base i) (x.node i).log).prev = 0 := rfl
      rw [h0] at this
      omega
    have hk1 : k - 1 < (x.vlog i).length := by omega
    refine ⟨(x.vlog i)[k - 1], ?_, List.getElem?_eq_getElem hk1, ?_⟩
    · rw [C09Sys2.get_virtual x i k hk, C09Sys2.vget x i k (by omega)]
      exact List.getElem?_eq_getElem hk1
    · have := hn.contig (k - 1) hk1
      show (x.vlog i)[k - 1].index = k
      rw [show (x.vlog i)[k - 1].index = k - 1 + 1 from this]; omega

/-- **The delayed compaction does not change the virtual log (partial).** Let `x` be reachable in `Raft.Snap5`, let
node `i` handle a batch `us` of replication updates — with any `removeLTE` reports — to completion, and let the side
conditions hold afterwards. Then the state after the step is reachable, and the virtual log of node `i` after the step
(`base ++ entries`, with what `checkLogCompact` removed added to `base`) is the log the UN-COMPACTED node has after
handling the batch without the reports (`SnapDelay.rmF us`); the virtual logs of the other nodes are untouched. -/
theorem delayed_compaction_step_sys_partial (hV : V.Nodup) (x : Snap2.Sys) (h : Reachable5 V x) {i : Nat}
    {us : List ReplUpdate} {ra : List Nat} {ord : List (List Nat)} {src : Nat}
    (en : Snap5.Enabled x.cs i (.replUpdates us) src)
    (hp : ((x.node i).step (.replUpdates us) ra ord).panicked = none)
    (hS' : Side5 V (stepS x i (.replUpdates us) ra ord src)) :
    Reachable5 V (stepS x i (.replUpdates us) ra ord src) ∧
    (stepS x i (.replUpdates us) ra ord src).vlog i =
      ((x.vnode i).step (.replUpdates (rmF us)) ra ord).log.entries ∧
    ∀ j, j ≠ i → (stepS x i (.replUpdates us) ra ord src).vlog j = x.vlog j := by
  obtain ⟨hI, hS⟩ := inv5_reachable hV h
  have hr := hS'.rm i
  rw [stepS_node_i] at hr
  have key := step_rm hV hI.inv2.sinv hI.inv2.prev hS.side (hI.cache i) en hp hS'.side hr
  refine ⟨.next _ _ h (.step i _ ra ord src en hp) hS', key.2.2, fun j hj => ?_⟩
  show ((stepS x i (.replUpdates us) ra ord src).vnode j).log.entries = _
  rw [view_stepS_node, if_neg hj]
  rfl

/-- **The side condition on the compaction bound, discharged (partial): every node is ordered.** Let the runs satisfy,
instead of `Side5.rm`, the two side conditions on configurations of `Snap4.Side4` (`SnapDelay.Side5c`: `cfgord`, `cfg` —
this fixed-membership model does not track configurations) and start with leader records that hold no bound. Then every
reachable state is a reachable state of `Raft.Snap5` — so all theorems above apply — and every node `i` satisfies the
per-node invariant `Order.Ordered`; in particular `log.prev ≤ snapIndex ≤ commitIndex ≤ lastLogIndex` and
**`ldr.removeLTE ≤ snapIndex`** hold in every state of every run, delayed compactions included. (`log.prev ≤
ldr.removeLTE` for a leader is the clause `prevLe` of `NoPanic.Good`: `leader_compaction_bounds_node`; in this system
completed steps are ASSUMED not to fail, so it is not needed.) -/
theorem ordered_in_snap5_partial (hV : V.Nodup) (x : Snap2.Sys) (h : Reachable5c V x) (i : Nat) :
    Reachable5 V x ∧ Order.Ordered (x.node i) ∧ (x.node i).ldr.removeLTE ≤ (x.node i).snapIndex ∧
    (x.node i).log.prev ≤ (x.node i).snapIndex ∧ (x.node i).snapIndex ≤ (x.node i).commitIndex := by
  obtain ⟨h1, _, h3⟩ := reachable5c hV h
  have ho := h3 i
  exact ⟨h1, ho, ho.removeLTE_le, ho.prev_le_snap, Nat.le_trans ho.snap_le_applied ho.applied_le_commit⟩

end

/-! ### examples (cluster level).  Three voters, every node bootstrapped with the same configuration entry (1,1)
(`C09Sys2.exY0`).  A state reached by a transition of the NEW kind — a batch with a `removeLTE` report is delivered — is
PROVED reachable in `Raft.Snap5` (to a follower, which ignores it: the mutually recursive leader block does not reduce
in the kernel); a scenario with a real delayed compaction on a leader is EVALUATED. -/

def exA1 : Snap2.Sys := stepS C09Sys2.exY0 2 (.replUpdates [exRm 3 0]) [] [] 0

theorem exEnabled5 (x : Commit.Sys) : Snap5.Enabled x 2 (.replUpdates [exRm 3 0]) 0 := by
  refine ⟨by decide, fun q h => (by cases h), fun ⟨_, _, _, h⟩ => (by cases h),
    ⟨trivial, fun b h => (by cases h), fun t c h => (by cases h)⟩,
    fun q h => (by cases h), fun q h => (by cases h), fun q h => (by cases h), fun us h u hu v hv => ?_⟩
  injection h with h
  rw [← h] at hu
  have : u = exRm 3 0 := List.mem_singleton.mp hu
  rw [this] at hv
  cases hv

set_option maxRecDepth 100000 in
/-- example: `exA1` is reachable in `Raft.Snap5` — the hypotheses of the theorems of this section hold for a state
reached by delivering a `removeLTE` report -/
example : [1, 2, 3].Nodup ∧ Reachable5 [1, 2, 3] exA1 := by
  have s0 : Side2 [1, 2, 3] C09Sys2.exY0 := C09Sys2.exSide2 _ (C04Sys.exNode 2) rfl rfl (by
    show C04Sys.exNode = _
    funext j; unfold setNode; split
    · rename_i h; rw [h]
    · rfl)
  have r0 : ∀ i, (C09Sys2.exY0.node i).ldr.removeLTE ≤ (C09Sys2.exY0.node i).snapIndex := fun i => Nat.le_refl 0
  have t1 : Snap5.Trans C09Sys2.exY0 exA1 := .step 2 _ [] [] 0 (exEnabled5 _) (by decide)
  have s1 : Side2 [1, 2, 3] exA1 :=
    C09Sys2.exSide2 _ ((C04Sys.exNode 2).step (.replUpdates [exRm 3 0]) [] []) (by decide) (by decide) rfl
  have r1 : ∀ i, (exA1.node i).ldr.removeLTE ≤ (exA1.node i).snapIndex := by
    intro i
    show (setNode C04Sys.exNode 2 ((C04Sys.exNode 2).step (.replUpdates [exRm 3 0]) [] []) i).ldr.removeLTE ≤
      (setNode C04Sys.exNode 2 ((C04Sys.exNode 2).step (.replUpdates [exRm 3 0]) [] []) i).snapIndex
    by_cases h : i = 2
    · subst h
      rw [setNode_same]
      decide
    · rw [setNode_other _ _ _ _ h]
      exact Nat.le_refl 0
  exact ⟨by decide, .next _ _ (.init _ C09Sys2.exY0_init ⟨s0, r0⟩) t1 ⟨s1, r1⟩⟩

set_option maxRecDepth 100000 in
/-- example: `exA1` is reachable with the configuration side conditions of `ordered_in_snap5_partial` as well (the only
record of the tree of created entries is the bootstrap entry) -/
example : Reachable5c [1, 2, 3] exA1 := by
  have s0 : Side2 [1, 2, 3] C09Sys2.exY0 := C09Sys2.exSide2 _ (C04Sys.exNode 2) rfl rfl (by
    show C04Sys.exNode = _
    funext j; unfold setNode; split
    · rename_i h; rw [h]
    · rfl)
  have t1 : Snap5.Trans C09Sys2.exY0 exA1 := .step 2 _ [] [] 0 (exEnabled5 _) (by decide)
  have s1 : Side2 [1, 2, 3] exA1 :=
    C09Sys2.exSide2 _ ((C04Sys.exNode 2).step (.replUpdates [exRm 3 0]) [] []) (by decide) (by decide) rfl
  have hT0 : ∀ c ∈ C09Sys2.exY0.cs.T, ∀ d ∈ C09Sys2.exY0.cs.T, c.e.index = d.e.index → c.e.term = d.e.term := by
    intro c hc d hd _
    have e1 : c = ⟨C04Sys.exE, 0, 0⟩ := List.mem_singleton.mp hc
    have e2 : d = ⟨C04Sys.exE, 0, 0⟩ := List.mem_singleton.mp hd
    rw [e1, e2]
  have hT1 : ∀ c ∈ exA1.cs.T, ∀ d ∈ exA1.cs.T, c.e.index = d.e.index → c.e.term = d.e.term := by
    intro c hc d hd _
    have e1 : c = ⟨C04Sys.exE, 0, 0⟩ := List.mem_singleton.mp hc
    have e2 : d = ⟨C04Sys.exE, 0, 0⟩ := List.mem_singleton.mp hd
    rw [e1, e2]
  have c0 : Side5c [1, 2, 3] C09Sys2.exY0 :=
    ⟨s0, fun i => ⟨Nat.le_refl 1, Nat.le_refl 1⟩, fun i => Or.inr (fun c hc d hd h _ => hT0 c hc d hd h)⟩
  have c1 : Side5c [1, 2, 3] exA1 := by
    refine ⟨s1, fun i => ?_, fun i => Or.inr (fun c hc d hd h _ => hT1 c hc d hd h)⟩
    show (setNode C04Sys.exNode 2 ((C04Sys.exNode 2).step (.replUpdates [exRm 3 0]) [] []) i).configs.committed.index ≤
        (setNode C04Sys.exNode 2 ((C04Sys.exNode 2).step (.replUpdates [exRm 3 0]) [] []) i).configs.latest.index ∧
      (setNode C04Sys.exNode 2 ((C04Sys.exNode 2).step (.replUpdates [exRm 3 0]) [] []) i).configs.latest.index ≤
        (setNode C04Sys.exNode 2 ((C04Sys.exNode 2).step (.replUpdates [exRm 3 0]) [] []) i).lastLogIndex
    by_cases h : i = 2
    · subst h
      rw [setNode_same]
      decide
    · rw [setNode_other _ _ _ _ h]
      exact ⟨Nat.le_refl 1, Nat.le_refl 1⟩
  exact .next _ _ (.init _ ⟨C09Sys2.exY0_init, fun i => rfl⟩ c0) t1 c1

/-! #### an evaluated scenario with a delayed compaction (tests, not proofs).  As in Props/C09Sys2.lean node 1 is elected
in term 2 and its first entry (index 2) starts a new log segment; index 2 is replicated to nodes 2 and 3, but only node
2's acknowledgement reaches the leader and node 3 is reported out of contact; index 2 is committed and applied; node 1
takes a snapshot at index 2: `nowCompact = CanLTE(0) = 0` (node 3's match index), `canCompact = CanLTE(2) = 1` — nothing
is compacted, `ldr.removeLTE = 1` is recorded; the report of node 2's goroutine compacts nothing; when node 3's goroutine
has reported too, `checkLogCompact` compacts the log up to index 1. -/

def exMi (id v : Nat) : ReplUpdate := { id := id, upd := .matchIndex v }
def exNc (id : Nat) (b : Bool) : ReplUpdate := { id := id, upd := .noContact b }
def exW7 : Snap2.Sys := stepS C09Sys2.exY6 1 (.replUpdates [exMi 2 2, exNc 3 true]) [] [] 0
def exW8 : Snap2.Sys := stepS exW7 1 (.takeSnapshot 9 0) [] [] 0
def exW9 : Snap2.Sys := stepS exW8 1 .snapRun [] [] 0
def exW10 : Snap2.Sys := stepS exW9 1 .snapTaken [] [] 0
def exW11 : Snap2.Sys := stepS exW10 1 (.replUpdates [exRm 2 1]) [] [] 0
def exW12 : Snap2.Sys := stepS exW11 1 (.replUpdates [exRm 3 1]) [] [] 0

#guard (exW9.node 1).snapIndex == 2 && (exW9.node 1).commitIndex == 2 && (exW9.node 1).log.segs == [0, 1]
-- the snapshot is handed over: the bound is recorded, nothing is compacted
#guard (exW10.node 1).log.prev == 0 && (exW10.node 1).ldr.removeLTE == 1 && (exW10.node 1).panicked.isNone
-- one report is not enough
#guard (exW11.node 1).log.prev == 0 && (exW11.node 1).ldr.repls.map (fun r => (r.id, r.removeLTE)) == [(2, 1), (3, 0)]
-- both reported: the delayed compaction; the removed entry goes to `base`, the virtual log is what it was, the log
-- starts below the snapshot index
#guard (exW12.node 1).log.prev == 1 && (exW12.node 1).log.segs == [1] && (exW12.node 1).snapIndex == 2 &&
  (exW12.node 1).trace.map (·.1) == ["compactLog"] && (exW12.base 1).map (fun e => (e.index, e.term)) == [(1, 1)] &&
  exW12.vlog 1 == exW10.vlog 1 && (exW12.node 1).panicked.isNone && (exW12.node 1).role == .leader &&
  (exW12.node 1).ldr.removeLTE ≤ (exW12.node 1).snapIndex

/-! ## 3. the views of the replication goroutines -/

/-- **A delayed compaction never removes an entry of the view of a running replication** (the repaired
`onLeaderUpdate`: every change of the view's first index is reported). In every state of the report protocol
(Sys/SnapView.lean, rule `chg = true`) reachable by ANY run — `ldr.removeLTE` raised and lowered at will by
`onSnapshotTaken` (`mono` arbitrary), updates replaced in `leaderUpdateCh`, reports delayed in `replUpdateCh`,
replications added and removed:
1. an update waiting for a goroutine carries a view that starts at the current bound `R`;
2. for every replication `j` the newest report still waiting in the channel — if none waits, `status.removeLTE` — IS the
   first index of the view the goroutine holds (`latest q j (st j) = view j`): what the status holds is the first index
   of the goroutine's view, or of a view it held when a report that is still waiting was sent;
3. hence: whenever `checkLogCompact` compacts — the leader has taken every waiting report (`q = []`, the loop of
   `checkReplUpdates` drains the channel) and every status is `≥ R` — to whatever first index `p ≤ R`
   (`Log.RemoveLTE(R)`), `p ≤ view j` for EVERY replication `j`; and this still holds when, between the draining and the
   compaction, some goroutine `k` takes the update waiting for it (`p ≤ upd view k pk j`).
Restrictions (why the protocol and not yet the cluster system): see item 3 of the file header. -/
theorem compact_keeps_views {mono : Bool} (x : PState) (h : PReach mono true x) :
    (∀ j p, x.chan j = some p → p = x.R) ∧
    (∀ j ∈ x.ids, latest x.q j (x.st j) = x.view j) ∧
    (x.q = [] → (∀ j ∈ x.ids, x.R ≤ x.st j) → ∀ p, p ≤ x.R → ∀ j ∈ x.ids,
      p ≤ x.view j ∧ ∀ k pk, x.chan k = some pk → p ≤ upd x.view k pk j) := by
  have hI := qinv_reach h
  refine ⟨hI.j2, hI.j3, fun hq hall p hp j hj => ?_⟩
  have hv : x.st j = x.view j := by
    have := hI.j3 j hj
    rw [hq] at this
    exact this
  have h1 : p ≤ x.view j := by rw [← hv]; exact Nat.le_trans hp (hall j hj)
  refine ⟨h1, fun k pk hk => ?_⟩
  unfold upd
  split
  · rw [hI.j2 k pk hk]; exact hp
  · exact h1

/-- the transition form: a `compact` transition of the repaired protocol leaves the log starting at or below every
view -/
theorem compact_trans_keeps_views {mono : Bool} (x y : PState) (h : PReach mono true x) (ht : PTrans mono true x y)
    (hP : y.P ≠ x.P) : ∀ j ∈ y.ids, y.P ≤ y.view j := by
  cases ht with
  | setR r _ => exact absurd rfl hP
  | notify J => exact absurd rfl hP
  | consume j p _ => exact absurd rfl hP
  | deliver j v rest _ => exact absurd rfl hP
  | compact p hq _ hall _ hp => exact fun j hj => ((compact_keeps_views x h).2.2 hq hall p hp j hj).1
  | add j _ => exact absurd rfl hP
  | remove j => exact absurd rfl hP

/-- example for `compact_keeps_views`: the run of finding F19 — bound 10, lowered to 5, raised to 10 — with the repaired
rule: the switch to the view starting at 5 is reported, the status drops to 5, and `checkLogCompact` does NOT compact
(`¬ ∀ j, R ≤ st j`) while the goroutine reads through the view starting at 5 -/
example : PReach false true ex7' ∧ ex7'.q = [] ∧ ex7'.st 2 = 5 ∧ ex7'.view 2 = 5 ∧ ex7'.R = 10 ∧
    ¬ (∀ j ∈ ex7'.ids, ex7'.R ≤ ex7'.st j) := ex_run_repaired

/-- **The alternative repair: never lower the bound (partial).** With the ORIGINAL report rule (or the repaired one:
`chg` arbitrary), in every state of the protocol reachable by runs in which `setR` never lowers the bound: no view starts
above the bound, every waiting report and every status is at or below the first index of the view of the goroutine it
belongs to — and therefore every compaction leaves the first index of the log at or below the first index of EVERY
replication's view. -/
theorem compact_keeps_views_mono_partial {chg : Bool} (x : PState) (h : PReach true chg x) :
    (∀ j, x.view j ≤ x.R) ∧ (∀ e ∈ x.q, e.2 ≤ x.view e.1) ∧ (∀ j ∈ x.ids, x.st j ≤ x.view j) ∧
    ∀ y p, y = { x with P := p } → (∀ j ∈ x.ids, x.R ≤ x.st j) → p ≤ x.R → ∀ j ∈ y.ids, y.P ≤ y.view j := by
  have hI := pinv_reach h
  refine ⟨hI.i1, hI.i3, hI.i4, fun y p hy hall hp j hj => ?_⟩
  rw [hy] at hj ⊢
  exact Nat.le_trans hp (Nat.le_trans (hall j hj) (hI.i4 j hj))

/-- example for `compact_keeps_views_mono_partial`: a leader whose log starts at 0 with replications 2 and 3; the bound 4
is recorded, both goroutines switch and report, the leader may compact to 4 -/
example : ∃ x : PState, PReach true false x ∧ x.R = 4 ∧ x.ids = [2, 3] ∧ x.q = [] ∧ (∀ j ∈ x.ids, x.R ≤ x.st j) := by
  let x0 : PState := { R := 0, P := 0, ids := [2, 3], st := fun _ => 0, view := fun _ => 0, chan := fun _ => none, q := [] }
  have r0 : PReach true false x0 := .init _ ⟨rfl, fun _ => rfl, fun _ => rfl, fun _ => rfl, rfl⟩
  have r1 := PReach.next _ _ r0 (.setR 4 (fun _ => Nat.zero_le 4))
  have r2 := PReach.next _ _ r1 (.consume 2 4 rfl)
  have r3 := PReach.next _ _ r2 (.consume 3 4 rfl)
  have r4 := PReach.next _ _ r3 (.deliver 2 4 [(3, 4)] rfl)
  have r5 := PReach.next _ _ r4 (.deliver 3 4 [] rfl)
  refine ⟨_, r5, rfl, rfl, rfl, fun j hj => ?_⟩
  have hj' : j ∈ [2, 3] := hj
  rcases List.mem_cons.mp hj' with rfl | hj''
  · decide
  · have : j = 3 := List.mem_singleton.mp hj''
    rw [this]
    decide

/-- **FINDING F19 (protocol level, the ORIGINAL report rule): when the bound is lowered, a view in use loses
entries.** With `onLeaderUpdate` reporting only when the view moves UP (`chg = false`) and `setR` allowed to lower the
bound, as `onSnapshotTaken` does (`mono = false`), there is a run that reaches a state in which no report is waiting,
every status is `≥ R`, and `checkLogCompact` compacts to index 10 while the goroutine of replication 2 reads through a
view that starts at 5: the entries 6 … 10 of its view are removed under it (`SnapView.ex0` … `ex7`). Reproduced on the Go
code and repaired (commit 1c6b1f3: report whenever the first index changes). -/
theorem view_removed_under_replication :
    PReach false false ex6 ∧ PTrans false false ex6 ex7 ∧ ex6.q = [] ∧ 2 ∈ ex7.ids ∧ ex7.view 2 = 5 ∧ ex7.P = 10 ∧
    ex6.st 2 = 10 :=
  ⟨ex_run.1, ex_run.2, rfl, by decide, by decide, rfl, by decide⟩

/-- `PTrans.consume` with the repaired rule is `replication.onLeaderUpdate` (Model/Repl.lean, compared with the Go
function by the replication engine): the view is replaced unconditionally; a `removeLTE` report is sent iff the first
index of the new view DIFFERS from the old one -/
theorem consume_is_onLeaderUpdate (st : Repl.State) (p l c : Nat) (v : Option Bool) :
    (Repl.onLeaderUpdate st p l c v).st.viewPrev = p ∧
    (Repl.onLeaderUpdate st p l c v).notes = (if reports true st.viewPrev p then [⟨"removeLTE", p⟩] else []) := by
  refine ⟨rfl, ?_⟩
  unfold Repl.onLeaderUpdate reports
  dsimp only
  by_cases h : p = st.viewPrev
  · rw [if_neg (fun hn => hn h)]
    simp [h]
  · rw [if_pos h]
    simp [h]

/-- `PTrans.deliver` is the case `removeLTE` of the loop of `leader.checkReplUpdates`: the status of the replication
records the reported index, whatever it held -/
theorem deliver_is_replUpdLoop (s : Node) (f : UpdFlags) (id v : Nat) (st : Repl) (us : List ReplUpdate)
    (h : s.findRepl? id = some st) :
    replUpdLoop s f ({ id := id, upd := .removeLTE v } :: us) =
      replUpdLoop (s.setRepl { st with removeLTE := v }) { f with removeLTEU := true } us := by
  conv => lhs; unfold replUpdLoop
  rw [if_neg (by show ¬ (false = true); decide), h]

/-- **The delayed compaction never removes an entry of the view of a running replication — node level, for the batch
of the waiting reports (partial).** Let `s` be an ordered leader state whose caches are current
(`C06Cache.LeaderCache`: the replication table is sorted by id), `view j` the first index of the view the goroutine of
replication `j` holds, `q` the `removeLTE` reports waiting in `replUpdateCh`, coupled as in every reachable state of the
repaired report protocol (`SnapDelay.Coupled` = `SnapView.QInv.j3`: the newest waiting report of a replication — its
status if none waits — is the first index of its goroutine's view). Let the leader take exactly these reports without
failing. Then either the step is the step without compaction, or the log afterwards starts at or below the first index
of the view of EVERY replication of `s`. ("partial": the batch holds nothing but the waiting reports; for the general
batch see the header of Lemmas/SnapDelayF.lean.) -/
theorem delayed_compaction_keeps_views_node_partial (s : Node) (q : List (Nat × Nat)) (view : Nat → Nat)
    (ra : List Nat) (ord : List (List Nat)) (ho : Order.Ordered s) (hl : s.role = .leader)
    (hC : C06Cache.LeaderCache s) (hc : Coupled s q view)
    (hp : (s.step (.replUpdates (rmBatch q)) ra ord).panicked = none) :
    s.step (.replUpdates (rmBatch q)) ra ord = stepNC s (rmBatch q) ra ord ∨
    ∀ r ∈ s.ldr.repls, (s.step (.replUpdates (rmBatch q)) ra ord).log.prev ≤ view r.id :=
  reports_only_keeps_views s q view ra ord ho hl hC hc hp

set_option maxRecDepth 100000 in
/-- example for `delayed_compaction_keeps_views_node_partial`: the leader `exD2` (bound 4 recorded, the status of
replication 2 holds 4, that of 3 holds 0), both goroutines read through views starting at 4, the report of 3 is waiting -/
example : Order.Ordered exD2 ∧ exD2.role = .leader ∧ C06Cache.LeaderCache exD2 ∧
    Coupled exD2 [(3, 4)] (fun _ => 4) ∧ (exD2.step (.replUpdates (rmBatch [(3, 4)])) [] []).panicked = none ∧
    (exD2.step (.replUpdates (rmBatch [(3, 4)])) [] []).log.prev = 4 := by
  refine ⟨⟨⟨by decide, by decide, by decide, by decide, by decide, by decide, ⟨by decide, by decide, by decide⟩,
    by decide, by decide⟩, by decide⟩, by decide, fun _ => ⟨by decide, by decide, by decide, by decide, by decide⟩,
    ?_, by decide, by decide⟩
  intro r hr
  have hr' : r ∈ [{ exRepl 2 6 false with removeLTE := 4 }, exRepl 3 2 true] := by
    have e : exD2.ldr.repls = [{ exRepl 2 6 false with removeLTE := 4 }, exRepl 3 2 true] := by decide
    rw [← e]; exact hr
  rcases List.mem_cons.mp hr' with rfl | h
  · decide
  · have : r = exRepl 3 2 true := List.mem_singleton.mp h
    rw [this]
    decide

/-! ### finding F19 on the model (evaluated) — the ORIGINAL defect, and the repaired protocol on the same chain.
Five voters; leader 1 (term 2) holds entries 1 … 14 in segments `(0,5]`, `(5,10]`, `(10,…]`; followers 2, 3 matched 14;
follower 4 matched 7 and follower 5 matched 0, both out of contact; applied = committed = 12.
* snapshot 1 (index 12): `nowCompact = CanLTE(0) = 0`, `canCompact = CanLTE(12) = 10`: `ldr.removeLTE = 10`.  The
  goroutines of 2 and 3 switch to the view starting at 10 and report; the leader records 10 in their statuses.
* follower 4 is in contact again (match 7); commit 14.  snapshot 2 (index 14): `canCompact = CanLTE(7) = 5 >
  nowCompact = 0`: **`ldr.removeLTE` is lowered to 5**; the goroutines of 2 and 3 take the update: their views now start
  at 5.  ORIGINAL `onLeaderUpdate`: no report (5 is not above 10), their statuses still say 10.
* follower 4 is out of contact again; entry 15, commit 15.  snapshot 3 (index 15): `canCompact = 10`:
  `ldr.removeLTE = 10`.  The goroutines of 4 and 5 (from their back-off loops) switch and report 10.  Now every status is
  `≥ 10` and `checkLogCompact` compacts to 10 (`exL7`) — while the goroutines of 2 and 3, which have not yet taken the
  third update, read through views that start at 5.
In the Go code a view holds pointers to its segments (`log.ViewAt`); `Log.RemoveLTE` unmaps and deletes the segment
`(5,10]` and cuts it out of the segment list, so `view.Get(i)` for `5 < i ≤ 10` dereferences a nil `segment.prev`: the
goroutine's `recover` reports the error to the leader, which panics.  REPRODUCED on the real leader and replication
objects (variant with non-voters; `writeAppendEntriesReq` with `prevLogIndex` at the compaction point died with a nil
dereference) and REPAIRED (commit 1c6b1f3): `onLeaderUpdate` reports whenever the first index of the view CHANGES.  The
leader-side model is unchanged, so `exL0 … exL7` (the leader fed with the reports the ORIGINAL goroutines sent) still
evaluates as before and documents the defect.  With the REPAIRED goroutine (`exG2`: the switch to the view starting at 5
IS reported) the chain continues differently (`exR4 … exR8`): the statuses of 2 and 3 drop to 5, the reports of 4 and 5
do not trigger a compaction, and the log is compacted to 10 only when 2 and 3 have switched to the view starting at 10
and said so.

A second, smaller observation (`exServe`): the IMMEDIATE compaction goes up to `nowCompact = CanLTE(min matchIndex)`,
which may EQUAL a follower's match index `m` (a segment boundary: the usual place, a segment starts where the log ended
when the entry did not fit).  The next request for that follower has `prevLogIndex = m`, whose term the leader can no
longer read unless `m` is the snapshot index: `writeAppendEntriesReq` answers `ErrNotFound` and the follower is sent the
whole snapshot although every entry it lacks is in the log ("never beyond any follower's match index" holds, but AT the
match index the follower is no longer servable from the log). -/

def cfg5 : Config :=
  { index := 1, term := 1, nodes := [1, 2, 3, 4, 5].map (fun i => { id := i, addr := s!"h:{i}", voter := true }) }

def exL0 : Node :=
  { cid := 7, nid := 1, term := 2, durTerm := 2, votedFor := 1, durVote := 1,
    log := { prev := 0,
             entries := (List.range 14).map (fun k =>
               if k = 0 then cfg5.toEntry else { index := k + 1, term := 2, typ := etUpdate, data := s!"d{k+1}" }),
             flushed := 14, segs := [0, 5, 10] },
    lastLogIndex := 14, lastLogTerm := 2, role := .leader, leader := 1, commitIndex := 12,
    fsm := { index := 12, term := 2, applied := (List.range 11).map (fun k => s!"d{k+2}"), config := cfg5 },
    configs := { committed := cfg5, latest := cfg5 },
    ldr := { node := cfg5.get 1, numVoters := 5, startIndex := 2, removeLTE := 0,
             repls := [exRepl 2 14 false, exRepl 3 14 false, exRepl 4 7 true, exRepl 5 0 true] } }

def snap (s : Node) (task : Nat) : Node :=
  ((s.step (.takeSnapshot task 0) [] []).step .snapRun [] []).step .snapTaken [] []

/-- snapshot 1: the bound 10 is recorded -/
def exL1 : Node := snap exL0 100
/-- the goroutines of 2 and 3 report 10 -/
def exL2 : Node := exL1.step (.replUpdates [exRm 2 10, exRm 3 10]) [] []
/-- follower 4 in contact; commit 14 -/
def exL3 : Node := exL2.step (.replUpdates [exNc 4 false, exMi 2 14]) [] []
/-- snapshot 2: the bound is lowered to 5 -/
def exL4 : Node := snap exL3 101
/-- follower 4 out of contact; entry 15 stored, replicated to 2 and 3, committed -/
def exL5 : Node :=
  (exL4.step (.newEntries [{ typ := etUpdate, data := "d15", task := 9 }]) [] []).step
    (.replUpdates [exNc 4 true, exMi 2 15, exMi 3 15]) [] []
/-- snapshot 3: the bound is 10 again -/
def exL6 : Node := snap exL5 102
/-- the goroutines of 4 and 5 report 10: `checkLogCompact` compacts to 10 -/
def exL7 : Node := exL6.step (.replUpdates [exRm 4 10, exRm 5 10]) [] []

/-- GHOST: the goroutine of replication 2, as `Repl.State`: the updates it takes (snapshot 1 and 2; not yet 3) -/
def exG0 : Repl.State := { matchIndex := 14, nextIndex := 15, viewPrev := 0, viewLast := 14 }
def exG1 : Repl.Out := Repl.onLeaderUpdate exG0 exL1.ldr.removeLTE 14 12 none
def exG2 : Repl.Out := Repl.onLeaderUpdate exG1.st exL4.ldr.removeLTE 14 14 none

/-- a replication in contact whose status holds the report `r` -/
def exReplR (id m r : Nat) : Repl :=
  { id := id, matchIndex := m, noContact := false, node := { id := id, addr := s!"h:{id}", voter := true },
    removeLTE := r }

/-- the leader of the scenario when the result of snapshot 2 (index 14) is handed over: the bound 10 is recorded,
the statuses of 2 and 3 hold the report 10, follower 4 (match 7) is in contact again -/
def exLowLdr : Leader :=
  { node := cfg5.get 1, numVoters := 5, startIndex := 2, removeLTE := 10,
    repls := [exReplR 2 14 10, exReplR 3 14 10, exRepl 4 7 false, exRepl 5 0 true] }

def exLow : Node :=
  { exL0 with
    commitIndex := 14, snapIndex := 14, snapTerm := 2,
    snapsDisk := [{ index := 14, term := 2, config := cfg5, data := (List.range 13).map (fun k => s!"d{k+2}") }],
    fsm := { index := 14, term := 2, applied := (List.range 13).map (fun k => s!"d{k+2}"), config := cfg5 },
    snapResult := some { task := 101, index := 14 },
    ldr := exLowLdr }

set_option maxRecDepth 100000 in
/-- **`onSnapshotTaken` lowers `ldr.removeLTE`** (kernel-checked): in the ordered leader state `exLow` the bound is 10;
one `.snapTaken` step, which does not fail and keeps the node leader, leaves it at 5 (`canCompact = CanLTE(7) = 5 >
nowCompact = 0`) — `PTrans.setR` without monotonicity is what the code does -/
theorem removeLTE_lowered :
    Order.Ordered exLow ∧ exLow.role = .leader ∧ exLow.ldr.removeLTE = 10 ∧
    (exLow.step .snapTaken [] []).ldr.removeLTE = 5 ∧ (exLow.step .snapTaken [] []).role = .leader ∧
    (exLow.step .snapTaken [] []).panicked = none ∧ (exLow.step .snapTaken [] []).log.prev = 0 := by
  refine ⟨⟨⟨by decide, by decide, by decide, by decide, by decide, by decide, ⟨by decide, by decide, by decide⟩,
    by decide, by decide⟩, by decide⟩, by decide, by decide, by decide, by decide, by decide, by decide⟩

-- the same on the run (evaluated): 10 after snapshot 1, 5 after snapshot 2, 10 after snapshot 3
#guard exL1.ldr.removeLTE == 10 && exL4.ldr.removeLTE == 5 && exL6.ldr.removeLTE == 10 &&
  exL1.role == .leader && exL4.role == .leader && exL6.role == .leader &&
  exL1.log.prev == 0 && exL6.log.prev == 0 && [exL1, exL2, exL3, exL4, exL5, exL6, exL7].all (·.panicked.isNone)
-- the goroutine of 2 (REPAIRED `onLeaderUpdate`): reports 10 after the first update and 5 after the second — the
-- original one sent nothing there (`reports false 10 5 = false`); its view then starts at 5
#guard exG1.notes == [⟨"removeLTE", 10⟩] && exG2.notes == [⟨"removeLTE", 5⟩] && exG2.st.viewPrev == 5 &&
  !(reports false 10 5) && reports true 10 5
-- ORIGINAL defect: the leader never hears of the switch; the statuses of 2 and 3 keep the report 10 through the
-- lowering of the bound
#guard exL6.ldr.repls.map (fun r => (r.id, r.removeLTE)) == [(2, 10), (3, 10), (4, 0), (5, 0)]
-- … and the compaction: every status is ≥ 10, the log now starts after index 10 — beyond the first index 5 of the view
-- of the goroutine of replication 2 (and 3)
#guard exL7.log.prev == 10 && exL7.log.segs == [10] && exL7.trace.map (·.1) == ["compactLog"] &&
  exL7.ldr.repls.map (fun r => (r.id, r.removeLTE)) == [(2, 10), (3, 10), (4, 10), (5, 10)] &&
  exG2.st.viewPrev < exL7.log.prev

/-- REPAIRED protocol, same chain: after snapshot 2 the goroutines of 2 and 3 report 5 and the leader takes the reports -/
def exR4 : Node := exL4.step (.replUpdates [exRm 2 5, exRm 3 5]) [] []
/-- follower 4 out of contact; entry 15 stored, replicated to 2 and 3, committed -/
def exR5 : Node :=
  (exR4.step (.newEntries [{ typ := etUpdate, data := "d15", task := 9 }]) [] []).step
    (.replUpdates [exNc 4 true, exMi 2 15, exMi 3 15]) [] []
/-- snapshot 3: the bound is 10 again -/
def exR6 : Node := snap exR5 102
/-- the goroutines of 4 and 5 report 10: `checkLogCompact` WAITS (2 and 3 hold 5) -/
def exR7 : Node := exR6.step (.replUpdates [exRm 4 10, exRm 5 10]) [] []
/-- the goroutines of 2 and 3 take the third update (their views now start at 10) and report: compaction to 10 -/
def exG3 : Repl.Out := Repl.onLeaderUpdate exG2.st exR6.ldr.removeLTE 15 15 none
def exR8 : Node := exR7.step (.replUpdates [exRm 2 10, exRm 3 10]) [] []

-- the statuses follow the views down …
#guard exR4.ldr.repls.map (fun r => (r.id, r.removeLTE)) == [(2, 5), (3, 5), (4, 0), (5, 0)] && exR4.log.prev == 0
-- … so the reports of 4 and 5 after snapshot 3 compact nothing: the log still starts at 0 ≤ 5 = the view of 2 and 3
#guard exR6.ldr.removeLTE == 10 && exR7.log.prev == 0 && exR7.trace.map (·.1) == [] &&
  exR7.ldr.repls.map (fun r => (r.id, r.removeLTE)) == [(2, 5), (3, 5), (4, 10), (5, 10)] &&
  exR7.log.prev ≤ exG2.st.viewPrev
-- … and the compaction happens when 2 and 3 have switched to the view starting at 10 and reported it
#guard exG3.notes == [⟨"removeLTE", 10⟩] && exG3.st.viewPrev == 10 && exR8.log.prev == 10 &&
  exR8.trace.map (·.1) == ["compactLog"] && exR8.log.prev ≤ exG3.st.viewPrev &&
  [exR4, exR5, exR6, exR7, exR8].all (·.panicked.isNone)

/-- the second observation: after the immediate compaction up to a follower's match index `m = 5` (snapshot index 12)
the follower's next request needs the term at `prevLogIndex = 5`, which the view no longer holds: `notFound`, i.e. the
snapshot is sent although the entries 6 … are in the log -/
def exServe : Repl.Out :=
  Repl.writeAppend { matchIndex := 5, nextIndex := 6, ldrLastIndex := 14, viewPrev := 5, viewLast := 14, term := 2, src := 1 }
    { log := (exL0.log.removeLTE 5), snapIndex := 12, snapTerm := 2 } true
#guard (exL0.log.removeLTE 5).prev == 5 && exServe.err == "notFound" && ((exL0.log.removeLTE 5).get? 6).isSome

/-! ## 4. the frame of the leader's compaction bookkeeping, and the protocol composed with the node model

Guarded closure framework: Lemmas/SnapDelayG1.lean (`ClosedG`, its own induction over the mutually recursive leader
block), SnapDelayG2.lean (the handler pass), SnapDelayG3.lean (the frame), SnapDelayG4/G5.lean (the composition). -/

/-- **The frame lemma (handlers).** Every handler of `Node.handle` except `onSnapshotTaken`, the loop of
`checkReplUpdates` and `shutdown` (`FOp`), from ANY state: `ldr.removeLTE` is unchanged, and every status of the
replication table afterwards holds `ldr.removeLTE` (it is NEW: `addReplication` creates a status with `removeLTE =
ldr.removeLTE` and a goroutine whose view is `ViewAt(ldr.removeLTE, lastLogIndex)`) or has the id and the `removeLTE` of a
status of the table before (`Inh`). -/
theorem status_frame_handle (s : Node) (op : Op) (hop : StepClosedG.FOp op) :
    (s.handle op).ldr.removeLTE = s.ldr.removeLTE ∧
    ∀ r ∈ (s.handle op).ldr.repls, r.removeLTE = s.ldr.removeLTE ∨ Inh s r.id r.removeLTE :=
  handle_status_frame s op hop

/-- **The frame lemma (steps, leadership change).** For the same operations through the role transitions of a step: the
conclusion of `status_frame_handle` — or `leader.init` ran and EVERY status holds the bound (`FreshL`: all replications of
a new leadership are new). `leader.init` itself, from any state: `ldr.removeLTE := log.prev`, all statuses new, `log.prev`
unchanged (`leaderInit_resets`); and if the handler of a leader left the role `leader` and the node leads after the step,
`leader.init` ran last: `ldr.removeLTE = log.prev` and all statuses hold it (`NewLeadership`). -/
theorem status_frame_step (s : Node) (op : Op) (ra : List Nat) (ord : List (List Nat)) (hop : StepClosedG.FOp op) :
    ((s.step op ra ord).ldr.removeLTE = s.ldr.removeLTE ∧
      ∀ r ∈ (s.step op ra ord).ldr.repls, r.removeLTE = s.ldr.removeLTE ∨ Inh s r.id r.removeLTE) ∨
    FreshL (s.step op ra ord).ldr :=
  step_status_frame s op ra ord hop

theorem leaderInit_resets (s : Node) :
    s.leaderInit.ldr.removeLTE = s.log.prev ∧ FreshL s.leaderInit.ldr ∧ s.leaderInit.log.prev = s.log.prev :=
  leaderInit_spec s

theorem leadership_change_all_new (s : Node) (op : Op) (ra : List Nat) (ord : List (List Nat)) (hl : s.role = .leader)
    (hh : ((s.begin ra ord).handle op).role ≠ .leader) (hop : op ≠ .shutdown)
    (hl' : (s.step op ra ord).role = .leader) : NewLeadership (s.step op ra ord) :=
  step_new_leadership s op ra ord hl hh hop hl'

/-- **The frame lemma (`onSnapshotTaken`).** The replication table is untouched (only `ldr.removeLTE` is set: to
`CanLTE(canCompact)`, or to the new `log.prev`); and what `onSnapshotTaken` compacts AT ONCE is not beyond the MATCH INDEX
of any replication of a leader. **The views of the goroutines are not consulted** — see `exImm` below: the immediate
compaction may go beyond the first index of every view; it relies on a goroutine never reading at or below its match
index (for `prevLogTerm` it reads AT `nextIndex - 1`, which may be the match index: second observation of section 3). -/
theorem status_frame_snapTaken (s : Node) (hok : C09.SegsOK s.log) :
    s.onSnapshotTaken.ldr.repls = s.ldr.repls ∧
    (s.onSnapshotTaken.log.prev = s.log.prev ∨
      (s.role = .leader → ∀ r ∈ s.ldr.repls, s.onSnapshotTaken.log.prev ≤ r.matchIndex)) :=
  snapTaken_status_frame s hok

/-- **The frame lemma (`checkReplUpdates`, any batch).** `ldr.removeLTE` is unchanged; every status afterwards is new,
inherited, or holds an index that a `removeLTE` report of the batch carried for its id: nothing but the case `removeLTE`
of the loop changes the `removeLTE` of a status. -/
theorem status_frame_replUpdates (s : Node) (us : List ReplUpdate) :
    (s.checkReplUpdates us).ldr.removeLTE = s.ldr.removeLTE ∧
    ∀ r ∈ (s.checkReplUpdates us).ldr.repls,
      r.removeLTE = s.ldr.removeLTE ∨ Inh s r.id r.removeLTE ∨ Reported us r.id r.removeLTE :=
  replUpdates_status_frame s us

/-- **What a step of a leader does to the views of its replication goroutines (partial).** Let `s` be an ordered leader
state with current caches, coupled with the ghost `(q, view)` of its goroutines as in every reachable state of the
repaired report protocol (`Coupled`), and let the node handle `op` without failing and lead afterwards, where `op` is any
operation except `shutdown`, `install`, and batches of replication updates other than the batch of the waiting reports
(`LOp`). Assume `NoReAdd` for the handler (a status whose id existed is inherited: no member is removed and added again
inside one handler — NOT proved, it needs reasoning about configurations). Then there is a ghost `(q', view')` after the
step, determined by the step —
* a NEW LEADERSHIP (the handler left the role): `ldr.removeLTE = log.prev`, every replication is new, `view' j =
  ldr.removeLTE`, nothing waits; or
* the SAME LEADERSHIP: the goroutines that existed keep their views, those of new replications start at
  `ldr.removeLTE` (`viewAfter`), the reports of stopped goroutines are dropped (`queueAfter`) or — for the batch of the
  waiting reports — all reports are taken —
with which the state after the step is coupled again, and the first index of the log
* did not move, or
* is at or below `view' j` for EVERY replication `j` (the delayed compaction, and a new leadership), or
* was moved by the immediate compaction of `onSnapshotTaken` and is at or below every replication's MATCH INDEX (not:
  view). -/
theorem leader_step_keeps_views_partial (s : Node) (op : Op) (ra : List Nat) (ord : List (List Nat))
    (q : List (Nat × Nat)) (view : Nat → Nat)
    (ho : Order.Ordered s) (hl : s.role = .leader) (hC : C06Cache.LeaderCache s)
    (hc : Coupled s q view) (hop : LOp q op)
    (hre : StepClosedG.FOp op → NoReAdd (s.begin ra ord) ((s.begin ra ord).handle op))
    (hp : (s.step op ra ord).panicked = none) (hl' : (s.step op ra ord).role = .leader) :
    ∃ q' view',
      Coupled (s.step op ra ord) q' view' ∧
      ((NewLeadership (s.step op ra ord) ∧ q' = [] ∧ ∀ j, view' j = (s.step op ra ord).ldr.removeLTE) ∨
       ((q' = queueAfter s q ∨ q' = []) ∧ view' = viewAfter s view (s.step op ra ord).ldr.removeLTE)) ∧
      ((s.step op ra ord).log.prev = s.log.prev ∨
       (∀ r ∈ (s.step op ra ord).ldr.repls, (s.step op ra ord).log.prev ≤ view' r.id) ∨
       (op = .snapTaken ∧ ∀ r ∈ s.ldr.repls, (s.step op ra ord).log.prev ≤ r.matchIndex)) :=
  leader_step_keeps_views s op ra ord q view ho hl hC hc hop hre hp hl'

set_option maxRecDepth 100000 in
/-- example for `leader_step_keeps_views_partial`: the leader `exD2` with the report of replication 3 waiting (both
goroutines read through views starting at 4), for the batch of the waiting reports and for an election timeout
(`checkQuorum`) -/
example : Order.Ordered exD2 ∧ exD2.role = .leader ∧ C06Cache.LeaderCache exD2 ∧ Coupled exD2 [(3, 4)] (fun _ => 4) ∧
    LOp [(3, 4)] (.replUpdates (rmBatch [(3, 4)])) ∧ LOp [(3, 4)] .timeout ∧
    NoReAdd (exD2.begin [] []) ((exD2.begin [] []).handle .timeout) ∧
    (exD2.step .timeout [] []).panicked = none ∧ (exD2.step .timeout [] []).role = .leader := by
  refine ⟨⟨⟨by decide, by decide, by decide, by decide, by decide, by decide, ⟨by decide, by decide, by decide⟩,
    by decide, by decide⟩, by decide⟩, by decide, fun _ => ⟨by decide, by decide, by decide, by decide, by decide⟩,
    ?_, .reports, .frame _ trivial (fun m h => by cases h), ?_, by decide, by decide⟩
  · intro r hr
    have hr' : r ∈ [exReplR 2 6 4, exRepl 3 2 true] := by
      have e : exD2.ldr.repls = [exReplR 2 6 4, exRepl 3 2 true] := by decide
      rw [← e]; exact hr
    rcases List.mem_cons.mp hr' with rfl | h
    · decide
    · have : r = exRepl 3 2 true := List.mem_singleton.mp h
      rw [this]
      decide
  · unfold NoReAdd HasId Inh
    decide

/-- the immediate compaction does not look at the views (evaluated): the leader `exD0` with BOTH followers matched 6 and
in contact; the snapshot at 5 is handed over: `nowCompact = CanLTE(5) = 4` — the log is compacted to 4 at once, while the
goroutines, which have not yet taken the update sent by `notifyFlr`, read through views that start at 0 -/
def exImm : Node :=
  ({ exD0 with ldr := { exD0.ldr with repls := [exRepl 2 6 false, exRepl 3 6 false] } } : Node).step .snapTaken [] []
#guard exImm.log.prev == 4 && exImm.ldr.removeLTE == 4 && exImm.trace.map (·.1) == ["compactLog"] &&
  exImm.ldr.repls.map (fun r => (r.id, r.matchIndex, r.removeLTE)) == [(2, 6, 0), (3, 6, 0)] && exImm.panicked.isNone

end C09Sys4
end Raft

#print axioms Raft.C09Sys4.delayed_compaction_node
#print axioms Raft.C09Sys4.leader_compaction_bounds_node
#print axioms Raft.C09Sys4.compaction_point_crash_image
#print axioms Raft.C09Sys4.log_matching_sys_snap5_partial -- also C04
#print axioms Raft.C09Sys4.leader_completeness_sys_snap5_partial -- also C02
#print axioms Raft.C09Sys4.state_machine_safety_sys_snap5_partial -- also C03
#print axioms Raft.C09Sys4.snapshot_is_committed_prefix_snap5_partial -- also C12
#print axioms Raft.C09Sys4.compaction_keeps_servable_snap5_partial
#print axioms Raft.C09Sys4.delayed_compaction_step_sys_partial
#print axioms Raft.C09Sys4.ordered_in_snap5_partial
#print axioms Raft.C09Sys4.compact_keeps_views
#print axioms Raft.C09Sys4.compact_trans_keeps_views
#print axioms Raft.C09Sys4.compact_keeps_views_mono_partial
#print axioms Raft.C09Sys4.delayed_compaction_keeps_views_node_partial
#print axioms Raft.SnapDelay.compaction_keeps_views_at_decision
#print axioms Raft.C09Sys4.view_removed_under_replication
#print axioms Raft.C09Sys4.removeLTE_lowered
#print axioms Raft.C09Sys4.consume_is_onLeaderUpdate
#print axioms Raft.C09Sys4.deliver_is_replUpdLoop
#print axioms Raft.C09Sys4.status_frame_handle
#print axioms Raft.C09Sys4.status_frame_step
#print axioms Raft.C09Sys4.leaderInit_resets
#print axioms Raft.C09Sys4.leadership_change_all_new
#print axioms Raft.C09Sys4.status_frame_snapTaken
#print axioms Raft.C09Sys4.status_frame_replUpdates
#print axioms Raft.C09Sys4.leader_step_keeps_views_partial
#print axioms Raft.SnapDelay.inv5_reachable
#print axioms Raft.SnapDelay.trans_of_trans2
