/-
C12 — Snapshots are labelled with the right index, term and membership (node-local part).

PROVED here, for every state and input:
* the label's `(index, term)` is the FSM's, and the FSM's `(index, term)` after applying from the log is
  `(upto, term of entry upto)`;
* `fsm.config` tracks the applied prefix: `fsmApplyLogTo` sets it to the newest configuration entry in the
  applied range (else keeps it), `fsmApplyItems` to the newest configuration item (else keeps it),
  `fsmRestore` to the label's; hence the invariant `ConfigTracks` ("`fsm.config` is the newest configuration
  entry at or below `fsm.index` in log ∪ label") is preserved by `fsmApplyLogTo`, unconditionally;
* `snapRun` labels the snapshot with `fsm.config` when the FSM has one, else with the configuration
  captured at request time; with `ConfigTracks` the label is the configuration in force at the snapshot index;
* after a restart with no configuration entry above the snapshot, and after a discard-branch installation,
  `configs.latest` (and `committed`) is the label's configuration.

NOT proved here (checked by nodediff with the ordering point at the start of the snapshot goroutine, on real
meta files): that the interleavings of the three goroutines are the ones the synchronous model produces, and
the comparison with the cluster-wide ledger of configuration entries.
-/
import RaftVerif.Props.C10

namespace Raft
namespace C12
open Node

/-! ### 1. index and term of the label -/

/-- the entries `fsmApplyLogTo upto` applies -/
def applyRange (s : Node) (upto : Nat) : List Entry :=
  (s.log.entries.drop (s.fsm.index - s.log.prev)).take (upto - s.fsm.index)

/-- `fsmApplyLogTo` when there is something to apply and the log holds it: the FSM moves to `upto`, appends
the updates of the range, takes the term of the last entry and the newest configuration of the range. -/
theorem fsmApplyLogTo_fsm (s : Node) (upto : Nat) (h1 : s.fsm.index < upto) (h2 : s.log.prev ≤ s.fsm.index)
    (h3 : upto ≤ s.log.last) :
    (s.fsmApplyLogTo upto).fsm =
      { index := upto,
        term := ((applyRange s upto).getLast?.map (·.term)).getD s.fsm.term,
        applied := s.fsm.applied ++ ((applyRange s upto).filter (·.typ == etUpdate)).map (·.data),
        config := (((applyRange s upto).filterMap Entry.config?).getLast?).getD s.fsm.config } := by
  have hlen : (applyRange s upto).length = upto - s.fsm.index := by
    unfold applyRange NLog.last at *
    rw [List.length_take, List.length_drop]; omega
  unfold Node.fsmApplyLogTo
  rw [if_neg (by omega), if_neg (by omega)]
  dsimp only
  rw [if_neg (by intro h; exact h hlen)]
  simp only [panic_eq, Node.withFsm]
  split <;> rfl

/-- the last entry of the applied range is entry `upto` -/
theorem applyRange_getLast (s : Node) (upto : Nat) (h1 : s.fsm.index < upto) (h2 : s.log.prev ≤ s.fsm.index)
    (h3 : upto ≤ s.log.last) : (applyRange s upto).getLast? = s.log.get? upto := by
  have hlen : (applyRange s upto).length = upto - s.fsm.index := by
    unfold applyRange NLog.last at *
    rw [List.length_take, List.length_drop]; omega
  rw [List.getLast?_eq_getElem?, hlen]
  unfold applyRange NLog.get?
  rw [List.getElem?_take_of_lt (by omega), List.getElem?_drop, if_pos (by omega)]
  congr 1
  omega

/-- **the FSM's `(index, term)` is the last applied entry's** -/
theorem fsm_index_term_of_last_applied (s : Node) (upto : Nat) (h1 : s.fsm.index < upto)
    (h2 : s.log.prev ≤ s.fsm.index) (h3 : upto ≤ s.log.last) :
    (s.fsmApplyLogTo upto).fsm.index = upto ∧
    ∃ e, s.log.get? upto = some e ∧ (s.fsmApplyLogTo upto).fsm.term = e.term := by
  rw [fsmApplyLogTo_fsm s upto h1 h2 h3, applyRange_getLast s upto h1 h2 h3]
  have : ∃ e, s.log.get? upto = some e := by
    unfold NLog.get? NLog.last at *
    rw [if_pos (by omega)]
    exact ⟨_, List.getElem?_eq_getElem (by omega)⟩
  obtain ⟨e, he⟩ := this
  exact ⟨rfl, e, he, by rw [he]; rfl⟩

/-- **label_index_term**: the snapshot `snapRun` publishes carries the FSM's `(index, term)` — the index and
term of the last entry applied (previous theorem) — and its contents. -/
theorem label_index_term (s : Node) (rq : SnapReq) (hp : s.snapPending = some rq)
    (h1 : s.fsm.index ≠ s.snapIndex) (h2 : rq.minIndex ≤ s.fsm.index) :
    s.snapRun.snapsDisk = (insertSnap (C09.snapFileOf s rq) s.snapsDisk).take s.retain ∧
    (C09.snapFileOf s rq).index = s.fsm.index ∧ (C09.snapFileOf s rq).term = s.fsm.term ∧
    (C09.snapFileOf s rq).data = s.fsm.applied ∧
    s.snapRun.snapIndex = s.fsm.index ∧ s.snapRun.snapTerm = s.fsm.term := by
  obtain ⟨a, b, c, _⟩ := C09.snapshot_at_applied_index s rq hp h1 h2
  exact ⟨a, rfl, rfl, rfl, b, c⟩

/-! ### 2. `fsm.config` tracks the applied prefix -/

/-- `fsmApplyLogTo` never changes the log, and either leaves the FSM alone (nothing to apply, or it
panics because the log does not hold the range) or applies exactly `applyRange`. -/
theorem fsmApplyLogTo_cases (s : Node) (upto : Nat) :
    (s.fsmApplyLogTo upto).log = s.log ∧
    ((s.fsmApplyLogTo upto).fsm = s.fsm ∨
     (s.fsm.index < upto ∧ s.log.prev ≤ s.fsm.index ∧ (applyRange s upto).length = upto - s.fsm.index ∧
      (s.fsmApplyLogTo upto).fsm.index = upto ∧
      (s.fsmApplyLogTo upto).fsm.config =
        (((applyRange s upto).filterMap Entry.config?).getLast?).getD s.fsm.config)) := by
  unfold Node.fsmApplyLogTo
  by_cases c1 : upto ≤ s.fsm.index
  · rw [if_pos c1]; exact ⟨rfl, Or.inl rfl⟩
  · rw [if_neg c1]
    by_cases c2 : s.fsm.index < s.log.prev
    · rw [if_pos c2, panic_eq]; exact ⟨rfl, Or.inl rfl⟩
    · rw [if_neg c2]
      dsimp only
      by_cases c3 : (applyRange s upto).length ≠ upto - s.fsm.index
      · rw [if_pos (by exact c3), panic_eq]; exact ⟨rfl, Or.inl rfl⟩
      · rw [if_neg (by exact c3)]
        simp only [panic_eq, Node.withFsm]
        refine ⟨by split <;> rfl, Or.inr ⟨by omega, by omega, by simpa using c3, ?_, ?_⟩⟩ <;>
          first | trivial | rfl | (split <;> rfl)

/-- the newest configuration entry with index `≤ i` in the log, else `label` (the snapshot's) -/
def newestConfigUpTo (log : NLog) (label : Config) (i : Nat) : Config :=
  (((log.entries.take (i - log.prev)).filterMap Entry.config?).getLast?).getD label

/-- `fsm.config` is the configuration in force at `fsm.index`: the newest configuration entry at or below it
in log ∪ label. -/
def ConfigTracks (s : Node) (label : Config) : Prop :=
  s.fsm.config = newestConfigUpTo s.log label s.fsm.index

theorem getLast?_append_getD {α : Type} (l1 l2 : List α) (d : α) :
    ((l1 ++ l2).getLast?).getD d = (l2.getLast?).getD ((l1.getLast?).getD d) := by
  rw [List.getLast?_append]
  cases l2.getLast? <;> rfl

/-- **`fsmApplyLogTo` preserves `ConfigTracks`** — for every state, bound and label (a panicking call
leaves the FSM alone). -/
theorem fsmApplyLogTo_config_tracks (s : Node) (upto : Nat) (label : Config) (h : ConfigTracks s label) :
    ConfigTracks (s.fsmApplyLogTo upto) label := by
  obtain ⟨hl, hc⟩ := fsmApplyLogTo_cases s upto
  unfold ConfigTracks at *
  rw [hl]
  rcases hc with hc | ⟨h1, h2, h3, h4, h5⟩
  · rw [hc]; exact h
  · rw [h5, h4, h]
    unfold newestConfigUpTo applyRange
    have hsplit : upto - s.log.prev = (s.fsm.index - s.log.prev) + (upto - s.fsm.index) := by omega
    rw [hsplit, List.take_add, List.filterMap_append, getLast?_append_getD]

/-- one iteration of the second loop of `onApply` -/
def itemStep (s : Node) (q : QItem) : Node :=
  let s := s.assert (q.index == s.fsm.index + 1) "fsm.assertNext"
  let s :=
    if q.typ = etUpdate then
      (s.withFsm ({ s.fsm with applied := s.fsm.applied ++ [q.data] }))
    else s
  let resp :=
    if q.typ = etRead ∨ q.typ = etDirtyRead ∨ q.typ = etUpdate then s!"val:{s.fsm.applied.length}"
    else "ok"
  let s := match q.toEntry.config? with
    | some c => s.withFsm { s.fsm with config := c }
    | none => s
  let s := if isLogEntryTyp q.typ then (s.withFsm ({ s.fsm with index := q.index, term := q.term })) else s
  s.reply q.task resp

theorem fsmApplyItems_cons (s : Node) (q : QItem) (qs : List QItem) :
    s.fsmApplyItems (q :: qs) = (itemStep s q).fsmApplyItems qs := rfl

/-- a configuration item sets `fsm.config`, any other item leaves it -/
theorem itemStep_config (s : Node) (q : QItem) :
    (itemStep s q).fsm.config = (q.toEntry.config?).getD s.fsm.config := by
  unfold itemStep
  simp only [reply_eq, Node.withFsm, Node.assert, panic_eq]
  cases q.toEntry.config? <;> dsimp only <;> (repeat' split) <;> rfl

/-- `fsmApplyItems`: the configuration becomes the newest configuration item handed over (else stays) -/
theorem fsmApplyItems_config (s : Node) (qs : List QItem) :
    (s.fsmApplyItems qs).fsm.config =
      ((qs.filterMap (fun q => q.toEntry.config?)).getLast?).getD s.fsm.config := by
  induction qs generalizing s with
  | nil => rfl
  | cons q qs ih =>
    rw [fsmApplyItems_cons, ih, itemStep_config]
    cases hq : q.toEntry.config? with
    | some c =>
      rw [List.filterMap_cons_some (f := fun q : QItem => q.toEntry.config?) hq]
      cases hl : List.filterMap (fun q : QItem => q.toEntry.config?) qs with
      | nil => rfl
      | cons a l => rw [List.getLast?_cons_cons]; rfl
    | none =>
      rw [List.filterMap_cons_none (f := fun q : QItem => q.toEntry.config?) hq]
      rfl

/-- `fsmRestore` takes the label's configuration (when the meta file is there) -/
theorem fsmRestore_config (s : Node) (f : SnapFile) (h0 : s.snapIndex ≠ 0)
    (hf : s.snapsDisk.find? (·.index == s.snapIndex) = some f) :
    s.fsmRestore.fsm.config = f.config ∧ s.fsmRestore.fsm.index = f.index := by
  rw [(fsmRestore_fsm s f h0 hf).1]; exact ⟨rfl, rfl⟩

/-- right after a restore onto an emptied log the invariant holds with the label just restored -/
theorem config_tracks_after_restore (s : Node) (f : SnapFile) (hfsm : s.fsm.config = f.config)
    (hlog : s.log.entries = []) : ConfigTracks s f.config := by
  unfold ConfigTracks newestConfigUpTo
  rw [hlog, hfsm]; simp

/-! ### 3. the membership in the label -/

/-- **label_config_current**: `snapRun` labels the snapshot with the FSM's configuration when it has one
(`index > 0`), else with the configuration captured when the request was accepted. -/
theorem label_config (s : Node) (rq : SnapReq) :
    (C09.snapFileOf s rq).config = if s.fsm.config.index > 0 then s.fsm.config else rq.config := rfl

/-- … so with `ConfigTracks` the label is the configuration in force at the snapshot index: the newest
configuration entry at or below the label's index in log ∪ old label — never the (possibly older)
configuration captured at request time. -/
theorem label_config_current (s : Node) (rq : SnapReq) (label : Config) (h : ConfigTracks s label)
    (hpos : s.fsm.config.index > 0) :
    (C09.snapFileOf s rq).config = newestConfigUpTo s.log label (C09.snapFileOf s rq).index := by
  rw [label_config, if_pos hpos]; exact h

/-- what `onTakeSnapshot` captures for the fallback: the committed configuration at request time -/
theorem request_captures_committed (s : Node) (task threshold : Nat)
    (h : s.snapPending = none ∧ s.snapResult = none) :
    (s.onTakeSnapshot task threshold).snapPending =
      some { task := task, minIndex := s.snapIndex + threshold, config := s.configs.committed } := by
  unfold Node.onTakeSnapshot
  rw [if_neg (by rw [h.1, h.2]; simp)]
  rfl

/-- Non-vacuity (the F5 scenario): the request captured configuration `old` (index 1); meanwhile the FSM
applied a configuration entry at index 3; the label is the newer one. -/
example :
    let new : Config := { nodes := [{ id := 1 }, { id := 2 }], index := 3, term := 1 }
    let old : Config := { nodes := [{ id := 1 }], index := 1, term := 1 }
    let s : Node := { fsm := { index := 4, term := 1, config := new },
                      snapPending := some { task := 1, minIndex := 0, config := old } }
    (s.snapRun.snapsDisk.map (·.config)) = [new] := by decide

/-! ### 4. the membership after restart / installation comes from the label -/

/-- **restart_config_from_label**: after a restart with no configuration entry above the snapshot, the node's
`latest` and `committed` configurations are the label's; and the restored FSM carries it too. -/
theorem restart_config_from_label (d : Durable) (r : Nat) (sor : Bool) (hwf : C10.DurWF d)
    (hnone : ∀ e ∈ C10.window (C10.logOf d) (C10.snapOf d).index (C10.logOf d).last, e.typ ≠ etConfig)
    (hcid : d.cid ≠ 0) (hnid : d.nid ≠ 0) :
    ∃ n, restart d r sor = some n ∧ n.configs.latest = (C10.snapOf d).config ∧
      n.configs.committed = (C10.snapOf d).config ∧
      ((C10.snapOf d).index > 0 → n.fsm.config = (C10.snapOf d).config) := by
  obtain ⟨hf, hl, hc⟩ := C10.restart_configs_none d r sor hwf hnone
  obtain ⟨n, hn, _⟩ := C10.restart_ok_contiguous d r sor hcid hnid hf
  obtain ⟨h1, _, _, _, _, h6, _⟩ := C10.restart_fsm d r sor n hn
  refine ⟨n, hn, by rw [h6]; exact hl, by rw [h6]; exact hc, fun hpos => ?_⟩
  rw [if_pos hpos] at h1
  rw [h1.1]

/-- in general `latest` after a restart is the newest configuration entry above the snapshot, else the label's -/
theorem restart_latest_newest (d : Durable) (r : Nat) (sor : Bool) (hwf : C10.DurWF d)
    (hok : C10.NoDecodeErr (C10.window (C10.logOf d) (C10.snapOf d).index (C10.logOf d).last)) :
    (restartNode d r sor).configs.latest = ((C10.configsAbove d)[0]?).getD (C10.snapOf d).config :=
  (C10.restart_configs d r sor hwf hok).2.1

/-- **install_config_from_label**: after a discard-branch installation `latest` and `committed` are the
label's configuration, and (the file having survived retention) so is the FSM's. -/
theorem install_config_from_label (s : Node) (q : InstallReq) (hterm : ¬ q.term < s.term)
    (hahead : s.commitIndex < q.lastIndex) (hk : C09.keepsLog s q = false) :
    (s.onInstallSnap q).configs.latest = (C09.fileOf q).config ∧
    (s.onInstallSnap q).configs.committed = (C09.fileOf q).config ∧
    (s.retain ≥ 1 → (∀ g, s.snapsDisk.head? = some g → g.index ≤ q.lastIndex) →
      (s.onInstallSnap q).fsm.config = (C09.fileOf q).config ∧
      ConfigTracks (s.onInstallSnap q) (C09.fileOf q).config) := by
  obtain ⟨e1, _, _, _, _, _, e7, e8, _⟩ := C09.install_snapshot_discard s q hterm hahead hk
  refine ⟨e7, e8, fun hr hh => ?_⟩
  obtain ⟨f1, _⟩ := C09.install_snapshot_discard_fsm_ok s q hterm hahead hk hr hh
  have hc : (s.onInstallSnap q).fsm.config = (C09.fileOf q).config := by rw [f1]; rfl
  exact ⟨hc, config_tracks_after_restore _ _ hc (by rw [e1]; rfl)⟩

/-- … in a well-formed snapshot state (`C09.SnapsWF`) with `retain ≥ 1` unconditionally: the label's
configuration is what the node and its FSM hold after a discard-branch installation. -/
theorem install_config_from_label_wf (s : Node) (q : InstallReq) (hterm : ¬ q.term < s.term)
    (hahead : s.commitIndex < q.lastIndex) (hk : C09.keepsLog s q = false) (hr : s.retain ≥ 1)
    (hwf : C09.SnapsWF s) :
    (s.onInstallSnap q).configs.latest = (C09.fileOf q).config ∧
    (s.onInstallSnap q).configs.committed = (C09.fileOf q).config ∧
    (s.onInstallSnap q).fsm.config = (C09.fileOf q).config ∧
    ConfigTracks (s.onInstallSnap q) (C09.fileOf q).config := by
  obtain ⟨a, b, c⟩ := install_config_from_label s q hterm hahead hk
  obtain ⟨d, e⟩ := c hr (C09.snapsWF_head_le s q hwf hahead)
  exact ⟨a, b, d, e⟩

/-- a request that installs nothing (stale, or the log already holds its last entry) leaves configurations
and the FSM's configuration alone -/
theorem install_nothing_keeps_config (s : Node) (q : InstallReq) (hterm : ¬ q.term < s.term)
    (h : q.lastIndex ≤ s.commitIndex ∨ C09.keepsLog s q = true) :
    (s.onInstallSnap q).configs = s.configs ∧ (s.onInstallSnap q).fsm = s.fsm := by
  have sd := (C09.install_nothing s q hterm h).1
  exact ⟨sd.configs, sd.fsm⟩

end C12
end Raft

#print axioms Raft.C12.fsmApplyLogTo_fsm
#print axioms Raft.C12.applyRange_getLast
#print axioms Raft.C12.fsm_index_term_of_last_applied
#print axioms Raft.C12.label_index_term
#print axioms Raft.C12.fsmApplyLogTo_cases
#print axioms Raft.C12.getLast?_append_getD
#print axioms Raft.C12.fsmApplyLogTo_config_tracks
#print axioms Raft.C12.fsmApplyItems_cons
#print axioms Raft.C12.itemStep_config
#print axioms Raft.C12.fsmApplyItems_config
#print axioms Raft.C12.fsmRestore_config
#print axioms Raft.C12.config_tracks_after_restore
#print axioms Raft.C12.label_config
#print axioms Raft.C12.label_config_current
#print axioms Raft.C12.request_captures_committed
#print axioms Raft.C12.restart_config_from_label
#print axioms Raft.C12.restart_latest_newest
#print axioms Raft.C12.install_config_from_label
#print axioms Raft.C12.install_config_from_label_wf
#print axioms Raft.C12.install_nothing_keeps_config
