/-
C19 / C12 / C10 — **`FirstIsConfig` / `CfgInv` are invariants** (what `Props/C19FsmConfig.lean` left open): entry 1 of a
node's log is a configuration, through EVERY step, restart and crash point; hence the state machine of a node holds a
configuration once it has applied anything, and the snapshot goroutine never takes its fallback.

The missing piece was "a node with an empty log does not append an entry of its own at index 1". `NodeInv s`:
* `cfg`    : `C19FsmConfig.CfgInv s` (entry 1 is a configuration, every snapshot label is a real configuration, above a
             snapshot the state machine holds a configuration);
* `latest` : `C19Latest.LatestIsNewest s`;
* `role`   : `RoleLast s` — a node that is not a follower has a non-empty log (`1 ≤ lastLogIndex`).
With `LatestIsNewest` a node with an empty log (and, by `labels`, no snapshot) has the ZERO latest configuration, of which it
is not a voter: it neither starts an election (`follower.onTimeout`, `onTimeoutNowRequest` test exactly that) nor is it
leader; a leader's own appends go to `lastLogIndex + 1 ≥ 2` (Lemmas/FirstConfigA.lean, FirstConfigB.lean: a two-level
variant of the composition framework — `LS` inside the leader handlers, `JS` between handlers).

PROVED here (node level):
* `voter_has_log`        : a voter of its latest configuration has a non-empty log;
* `first_labels_step`, `first_is_config_step` : `FirstIsConfig`, `RoleLast`, `LabelsPos` after EVERY operation handled to
  completion, and `DiskCfg` of EVERY crash point of the step — any oracle, any input; an append request that is not stale
  must carry a configuration at index 1 if it carries index 1 (`ReqFirst`: true of every request read from a log with
  `FirstIsConfig`), an install request a real label (`ReqLab`) — the bootstrap step (`changeConfig` on an un-bootstrapped
  node appends the configuration at index 1) included;
* `diskCfg_at_crash_point` : the crash-point extension (`DiskCfg (C05.crashDisk s op ra ord k)` for every `k`);
* `nodeInv_step`         : `CrashInv ∧ NodeInv` is inductive, with NO hypothesis on the snapshot goroutine and none on the
  post-state; `nodeInv_restart`, `nodeInv_after_crash_partial`: a restart from the disk between two steps / at ANY crash
  point of a step re-establishes it.
Cluster level (`Raft.Snap4`), PER TRANSITION only: `nodeInv_step_sys_partial`, `restart_succeeds_snap_sys_partial` — for a
node of a reachable state satisfying `NodeInv`, with `Order.ReqOk`, `ReqDec`, `CrashInv` discharged inside the system and NO
fallback hypothesis. NOT proved: the induction over the runs (`Init4F`, the ledger invariants that give `ReqFirst` /
`ReqLab` of every enabled operation, the install / crashInstall transitions), and the same for `SysInv.ReachableG`.
-/
import RaftVerif.Lemmas.FirstConfigB
import RaftVerif.Props.C19FsmConfig

namespace Raft
namespace C19FsmConfigSys
open Node Track Order FsmCfg C19FsmConfig

/-! ### the invariant -/

/-- a node that is not a follower has a non-empty log -/
def RoleLast (s : Node) : Prop := s.role ≠ .follower → 1 ≤ s.lastLogIndex

instance (s : Node) : Decidable (RoleLast s) := by unfold RoleLast; infer_instance

/-- **the per-node invariant** (see the file header) -/
structure NodeInv (s : Node) : Prop where
  cfg : CfgInv s
  latest : C19Latest.LatestIsNewest s
  role : RoleLast s

instance (s : Node) : Decidable (NodeInv s) :=
  decidable_of_iff (CfgInv s ∧ C19Latest.LatestIsNewest s ∧ RoleLast s)
    ⟨fun ⟨a, b, c⟩ => ⟨a, b, c⟩, fun h => ⟨h.cfg, h.latest, h.role⟩⟩

/-- what is asked of an append request: stale, or its entry with index 1 (if it carries one) is a configuration — true of
every request read from a log with `FirstIsConfig` -/
def ReqFirst (s : Node) : Op → Prop
  | .append q => q.term < s.term ∨ ∀ e ∈ q.entries, e.index = 1 → e.config?.isSome = true
  | _ => True

instance (s : Node) (op : Op) : Decidable (ReqFirst s op) := by cases op <;> unfold ReqFirst <;> infer_instance

theorem firstIsConfig_iff (s : Node) : FirstIsConfig s ↔ FirstCfg.First s.log.entries := Iff.rfl

/-! ### 1. a voter of its latest configuration has a log -/

/-- **a node with an empty log holds the zero configuration**: in an ordered state whose latest configuration is the
newest configuration entry of log ∪ snapshot, whose label is covered by the snapshot and real if there is a snapshot file,
`lastLogIndex = 0` implies `configs.latest = {}` -/
theorem empty_log_zero_config (s : Node) (ho : Ordered s) (hl : (label s).index ≤ s.snapIndex)
    (hln : C19Latest.LatestIsNewest s) (hlab : LabelsPos s.snapsDisk) (h0 : s.lastLogIndex = 0) :
    s.configs.latest = {} := by
  have h1 := ho.last_eq
  have hlen : s.log.entries = [] := by
    have : s.log.entries.length = 0 := by unfold NLog.last at h1; omega
    exact List.eq_nil_of_length_eq_zero this
  have hsnap : s.snapIndex = 0 := by
    have := ho.snap_le_applied; have := ho.applied_le_commit; have := ho.commit_le_last; omega
  have hpre : pre s.log s.log.last = [] := by unfold pre; rw [hlen]; simp
  rw [hln.latest, newest_of_nil _ hpre]
  unfold label at hl ⊢
  cases hh : s.snapsDisk.head? with
  | none => rfl
  | some f =>
    rw [hh] at hl
    have := hlab f (List.mem_of_mem_head? hh)
    have hl' : f.config.index ≤ s.snapIndex := hl
    omega

/-- **a voter of its latest configuration has a non-empty log** -/
theorem voter_has_log (s : Node) (ho : Ordered s) (hl : (label s).index ≤ s.snapIndex)
    (hln : C19Latest.LatestIsNewest s) (hlab : LabelsPos s.snapsDisk)
    (hv : s.configs.latest.isVoter s.nid = true) : 1 ≤ s.lastLogIndex := by
  by_cases h0 : s.lastLogIndex = 0
  · rw [empty_log_zero_config s ho hl hln hlab h0] at hv
    have : ({} : Config).isVoter s.nid = false := rfl
    rw [this] at hv; cases hv
  · omega

/-! ### 2. `FirstIsConfig` is inductive, in memory and at every crash point -/

theorem diskCfg_of_diskF {d : Durable} (h : FirstCfg.DiskF d) : DiskCfg d := ⟨h.1, h.2⟩

/-- the snapshot goroutine finds a real configuration in the state machine (what the framework asks, `FirstCfg.PS`) -/
theorem ps_of_fsm (s : Node) (ho : Ordered s) (hf : FsmHasConfig s) : FirstCfg.PS s := by
  intro hne
  have := ho.snap_le_applied
  exact (hf (by omega)).1

/-- **entry 1 stays a configuration, only a node with a log leaves the follower role, every snapshot file keeps a real
label — in memory and at EVERY crash point of the step** (`(s.step …).trace`: the disk contents at the storage points of
the step). EVERY operation, oracle and input, handled to completion without a Go panic, from a tracking, ordered state with
`NodeInv` whose label is covered by its snapshot. An append request that is not stale must satisfy `ReqFirst`, an install
request `ReqLab`; nothing is asked of the snapshot goroutine. -/
theorem first_labels_step (s : Node) (op : Op) (ra : List Nat) (ord : List (List Nat)) (ht : C12Track.Tracks s)
    (ho : Ordered s) (hl : (label s).index ≤ s.snapIndex) (hi : NodeInv s) (hq : ReqFirst s op) (hlb : ReqLab s op)
    (hp : (s.step op ra ord).panicked = none) :
    FirstIsConfig (s.step op ra ord) ∧ RoleLast (s.step op ra ord) ∧ LabelsPos (s.step op ra ord).snapsDisk ∧
      ∀ p ∈ (s.step op ra ord).trace, DiskCfg p.2 := by
  have hQ : FirstCfg.QJ s := ⟨hi.role, voter_has_log s ho hl hi.latest hi.cfg.labels⟩
  by_cases hap : ∃ q, op = .append q ∧ ¬ q.term < s.term
  · obtain ⟨q, rfl, hst⟩ := hap
    have hq' : FirstCfg.First q.entries := hq.resolve_left hst
    obtain ⟨a, b⟩ := FirstCfg.append_step_as s q ra ord hst hi.cfg.first hi.cfg.labels hq'
    exact ⟨a.first, fun hne => absurd b hne, a.labels, fun p hp' => diskCfg_of_diskF (a.tr p hp')⟩
  · have hps : FirstCfg.PS s := ps_of_fsm s ho (fsm_has_config s ht ho hl hi.cfg)
    have hop : TwoOpOk FirstCfg.PA FirstCfg.PI FirstCfg.PS (s.begin ra ord) op := by
      cases op <;> first | exact hlb | exact hps | trivial | skip
      case append q =>
        show q.term < s.term
        exact Classical.not_not.mp (fun hn => hap ⟨q, rfl, hn⟩)
      case shutdown =>
        have e := (TrackCrash.obsS_releaseRole ((s.begin ra ord).doClose "serverClosed")
          ((s.begin ra ord).doClose "serverClosed").role).trans (TrackCrash.obsS_doClose (s.begin ra ord) "serverClosed")
        simp only [TrackCrash.obsS, Prod.mk.injEq] at e
        obtain ⟨e1, _, e3⟩ := e
        show FirstCfg.PS _
        unfold FirstCfg.PS
        rw [e1, e3]
        exact hps
    have g := FirstCfg.j_step s op ra ord hi.cfg.first hQ hi.cfg.labels hop hp
    exact ⟨g.first, g.q.1, g.labels, fun p hp' => diskCfg_of_diskF (g.tr p hp')⟩

/-- **`FirstIsConfig` is inductive** (and so is `RoleLast`) — see `first_labels_step` -/
theorem first_is_config_step (s : Node) (op : Op) (ra : List Nat) (ord : List (List Nat)) (ht : C12Track.Tracks s)
    (ho : Ordered s) (hl : (label s).index ≤ s.snapIndex) (hi : NodeInv s) (hq : ReqFirst s op) (hlb : ReqLab s op)
    (hp : (s.step op ra ord).panicked = none) :
    FirstIsConfig (s.step op ra ord) ∧ RoleLast (s.step op ra ord) :=
  let ⟨a, b, _⟩ := first_labels_step s op ra ord ht ho hl hi hq hlb hp; ⟨a, b⟩

/-- **the crash-point extension**: what is on disk after ANY number `k` of storage points of the step (those of the
snapshot goroutine, of compaction, of the install handler included) has a configuration as entry 1 of the log (if it holds
entry 1) and real configurations as labels of all snapshot files -/
theorem diskCfg_at_crash_point (s : Node) (op : Op) (ra : List Nat) (ord : List (List Nat)) (k : Nat)
    (ht : C12Track.Tracks s) (ho : Ordered s) (hl : (label s).index ≤ s.snapIndex) (hi : NodeInv s)
    (hq : ReqFirst s op) (hlb : ReqLab s op) (hp : (s.step op ra ord).panicked = none) :
    DiskCfg (C05.crashDisk s op ra ord k) := by
  obtain ⟨a, _, c, d⟩ := first_labels_step s op ra ord ht ho hl hi hq hlb hp
  rcases C04Sys.crashDisk_cases s op ra ord k with e | ⟨p, hpm, e⟩ | e
  · rw [e]; exact durable_cfg s hi.cfg
  · rw [e]; exact d p hpm
  · rw [e]
    exact ⟨fun x hx => a x (List.mem_of_mem_take (show x ∈ (s.step op ra ord).log.entries.take _ from hx)), c⟩

/-- **`CrashInv ∧ NodeInv` is inductive** — no hypothesis on the snapshot goroutine, none on the post-state: from a state
satisfying both, an acceptable operation (`Order.ReqOk`, `ReqDec`, `ReqLab`, `ReqFirst`) handled to completion leads to a
state satisfying both, in which the state machine holds a configuration if it has applied anything. -/
theorem nodeInv_step (s : Node) (op : Op) (ra : List Nat) (ord : List (List Nat)) (hc : C12Crash.CrashInv s)
    (hi : NodeInv s) (hr : ReqOk s op) (hd : TrackCrash.ReqDec s op) (hlb : ReqLab s op) (hq : ReqFirst s op)
    (hp : (s.step op ra ord).panicked = none) :
    C12Crash.CrashInv (s.step op ra ord) ∧ NodeInv (s.step op ra ord) ∧ FsmHasConfig (s.step op ra ord) := by
  obtain ⟨hf, hrl⟩ := first_is_config_step s op ra ord hc.tracks hc.ordered hc.mem.lab hi hq hlb hp
  obtain ⟨a, b, c⟩ := cfgInv_step_partial s op ra ord hc hi.cfg hr hd hlb hp hf
  exact ⟨a, ⟨b, latest_is_newest_step_nofb s op ra ord hi.latest hc.tracks hc.ordered hc.mem.lab hi.cfg hr hp, hrl⟩, c⟩

/-- **the state machine holds a configuration** in every state satisfying `CrashInv` and `NodeInv`; hence the fallback
conditions of C19Latest / C12Crash / C10Sys2 hold for every operation -/
theorem nodeInv_fsm (s : Node) (hc : C12Crash.CrashInv s) (hi : NodeInv s) :
    FsmHasConfig s ∧ (∀ op, Latest.NoFallback s op) ∧ (∀ op, TrackCrash.SnapFbOp s op) := by
  have hf := fsm_has_config s hc.tracks hc.ordered hc.mem.lab hi.cfg
  exact ⟨hf, fun op => no_fallback s op hc.ordered hf, fun op => snapFbOp s op hc.ordered hf⟩

/-! ### 3. restart between two steps -/

/-- **a restart from the disk of a `CrashInv ∧ NodeInv` node** (between two steps) succeeds and yields such a node -/
theorem nodeInv_restart (s : Node) (r : Nat) (sor : Bool) (hc : C12Crash.CrashInv s) (hi : NodeInv s) (hr : 1 ≤ r) :
    ∃ n, Node.restart s.durable r sor = some n ∧ C12Crash.CrashInv n ∧ NodeInv n := by
  have hpd := TrackCrash.pd_durable hc.tracks.toCore hc.ordered.toCoreW hc.mem
  obtain ⟨n, hn', ht, ho, _, _, hln, hm, hcid, hnid⟩ := C12Crash.pd_restart s.durable r sor hpd hc.cid hc.nid hr
  have hcn : C12Crash.CrashInv n := ⟨ht, ho, hm, by rw [hcid]; exact hc.cid, by rw [hnid]; exact hc.nid⟩
  refine ⟨n, hn', hcn, ⟨restart_cfgInv _ r sor n (durable_cfg s hi.cfg) hn', hln, ?_⟩⟩
  intro hne
  exact absurd (Election.restart_role_nid _ r sor n hn').1 hne

/-! ### 4. crash at any point of a step, then restart -/

/-- **C12 / C10 at every crash point, with `NodeInv` carried along (partial: the restrictions of
`C12Crash.tracks_after_crash_at_any_point_partial`; NO fallback hypothesis).** Let `s` satisfy `CrashInv` and `NodeInv`,
`op` be ANY acceptable operation (`Order.ReqOk`, `ReqDec`, `ReqLab`, `ReqFirst`) handled with ANY oracle without a Go
panic; let the process die after ANY number `k` of storage points of that step and restart with `retain = r ≥ 1`. Then the
restart succeeds and the restarted node satisfies `CrashInv` and `NodeInv` again (so its state machine holds a
configuration as soon as it has applied anything). -/
theorem nodeInv_after_crash_partial (s : Node) (op : Op) (ra : List Nat) (ord : List (List Nat)) (k r : Nat) (sor : Bool)
    (hc : C12Crash.CrashInv s) (hi : NodeInv s) (hr : ReqOk s op) (hd : TrackCrash.ReqDec s op) (hlb : ReqLab s op)
    (hq : ReqFirst s op) (hp : (s.step op ra ord).panicked = none) (hret : 1 ≤ r) :
    ∃ n, Node.restart (C05.crashDisk s op ra ord k) r sor = some n ∧ C12Crash.CrashInv n ∧ NodeInv n := by
  obtain ⟨n, hn, _, _, _, _, hln, hcn⟩ :=
    tracks_after_crash_at_any_point_nofb_partial s op ra ord k r sor hc hi.cfg hr hd hp hret
  have hd' := diskCfg_at_crash_point s op ra ord k hc.tracks hc.ordered hc.mem.lab hi hq hlb hp
  refine ⟨n, hn, hcn, ⟨restart_cfgInv _ r sor n hd' hn, hln, ?_⟩⟩
  intro hne
  exact absurd (Election.restart_role_nid _ r sor n hn).1 hne

/-! ### 5. inside the cluster-level system `Raft.Snap4` (per transition) -/

section
open Snap3 SnapInst3 Snap4 SnapInst4 RestartSys
variable {V : List Nat}

/-- **a completed step of a node of a reachable state of `Raft.Snap4` keeps `NodeInv`** (partial: per transition — the
induction over the runs, i.e. the ledger invariants "every sent append request carries a configuration at index 1 if it
carries index 1" and "every sent install request is labelled with a real configuration", which give `ReqFirst` / `ReqLab`
of every enabled operation, is NOT done; they are hypotheses here). `Order.ReqOk`, `ReqDec` and `CrashInv` are discharged
inside the system; nothing is asked of the snapshot goroutine. -/
theorem nodeInv_step_sys_partial (hV : V.Nodup) (x : Snap3.Sys) (h : Reachable4 V x) (i : Nat) (op : Op)
    (ra : List Nat) (ord : List (List Nat)) (src : Nat) (en : Snap.Enabled x.s2.cs i op src)
    (hp : ((x.node i).step op ra ord).panicked = none) (hcid : (x.node i).cid ≠ 0) (hi : NodeInv (x.node i))
    (hlb : ReqLab (x.node i) op) (hq : ReqFirst (x.node i) op) :
    NodeInv ((x.node i).step op ra ord) ∧ FsmHasConfig ((x.node i).step op ra ord) := by
  obtain ⟨r3, _, s4⟩ := reach4 hV h
  have hI := (inv3_reachable hV r3).1
  have hc := crashInv_node4 hV h i en.id hcid
  obtain ⟨_, b, c⟩ := nodeInv_step (x.node i) op ra ord hc hi (reqOk_old hI en (s4.cfg i))
    (reqDec_enabled (sentDec_reach3 r3) en) hlb hq hp
  exact ⟨b, c⟩

/-- **C10 (1) on `Raft.Snap4` with NO fallback hypothesis, `NodeInv` carried through the crash (partial: per transition,
see `nodeInv_step_sys_partial`; the restrictions of `C10Sys2.restart_succeeds_snap_partial`).** A node `i` of a reachable
state that has a cluster id and satisfies `NodeInv`, dying at ANY crash point `k` of ANY enabled operation that would
complete, restarts successfully as a `RestartSys.Restarted` node that satisfies `NodeInv` again. -/
theorem restart_succeeds_snap_sys_partial (hV : V.Nodup) (x : Snap3.Sys) (h : Reachable4 V x) (i : Nat) (op : Op)
    (ra : List Nat) (ord : List (List Nat)) (src : Nat) (en : Snap.Enabled x.s2.cs i op src)
    (hp : ((x.node i).step op ra ord).panicked = none) (hcid : (x.node i).cid ≠ 0) (hi : NodeInv (x.node i))
    (hlb : ReqLab (x.node i) op) (hq : ReqFirst (x.node i) op) (k r : Nat) (hr : 1 ≤ r) (sor : Bool) :
    ∃ n, Node.restart (C05.crashDisk (x.node i) op ra ord k) r sor = some n ∧
      Restarted (x.node i) (C05.crashDisk (x.node i) op ra ord k) n ∧ n.nid = i ∧ NodeInv n := by
  obtain ⟨n, hn, hR, hid⟩ := restart_succeeds_snap_nofb_partial hV x h i op ra ord src en hp hcid hi.cfg k r hr sor
  have hc := crashInv_node4 hV h i en.id hcid
  have hd' := diskCfg_at_crash_point (x.node i) op ra ord k hc.tracks hc.ordered hc.mem.lab hi hq hlb hp
  refine ⟨n, hn, hR, hid, ⟨restart_cfgInv _ r sor n hd' hn, hR.latestNewest, ?_⟩⟩
  intro hne
  exact absurd (Election.restart_role_nid _ r sor n hn).1 hne

end

/-! ### examples -/

/-- EXAMPLE (`first_is_config_step`, the bootstrap step): a fresh node (empty log, zero configuration) satisfies the
hypotheses; `changeConfig` appends the configuration at index 1 and the single voter elects itself, storing its no-op at
index 2. -/
def exFresh : Node := { nid := 1, cid := 7 }

def exCfg : Config := { nodes := [{ id := 1, addr := "a:1", voter := true }] }

example :
    NodeInv exFresh ∧ C12Track.Tracks exFresh ∧ (label exFresh).index ≤ exFresh.snapIndex ∧
    ReqFirst exFresh (.changeConfig 5 exCfg) ∧ ReqLab exFresh (.changeConfig 5 exCfg) := by
  refine ⟨by decide, by decide, by decide, trivial, trivial⟩

#guard (exFresh.step (.changeConfig 5 exCfg) [] []).panicked = none
#guard (exFresh.step (.changeConfig 5 exCfg) [] []).role = .leader
#guard (exFresh.step (.changeConfig 5 exCfg) [] []).log.entries.map (fun e => (e.index, e.typ)) = [(1, etConfig), (2, etNop)]
#guard decide (FirstIsConfig (exFresh.step (.changeConfig 5 exCfg) [] []))

/-- EXAMPLE (`nodeInv_step`): the bootstrapped node `C19FsmConfig.exBoot` satisfies `NodeInv`; the counterexample
`C19FsmConfig.exEmpty` (empty log, a voter) is excluded by clause `latest`. -/
example : NodeInv C19FsmConfig.exBoot ∧ ¬ NodeInv C19FsmConfig.exEmpty := by
  refine ⟨by decide, fun h => C19FsmConfig.first_needs_latest.2.2.2 h.latest⟩

/-- NECESSITY of `ReqFirst`: a fresh node accepts an append request whose entry 1 is a no-op. -/
example :
    let q : AppendReq := { term := 1, src := 2, entries := [{ index := 1, term := 1, typ := etNop }] }
    ¬ ReqFirst exFresh (.append q) ∧ (exFresh.step (.append q) [] []).panicked = none ∧
    ¬ FirstIsConfig (exFresh.step (.append q) [] []) := by
  refine ⟨by decide, by decide, by decide⟩

end C19FsmConfigSys
end Raft

#print axioms Raft.C19FsmConfigSys.empty_log_zero_config
#print axioms Raft.C19FsmConfigSys.voter_has_log
#print axioms Raft.C19FsmConfigSys.first_labels_step
#print axioms Raft.C19FsmConfigSys.first_is_config_step
#print axioms Raft.C19FsmConfigSys.diskCfg_at_crash_point -- also C12
#print axioms Raft.C19FsmConfigSys.nodeInv_step -- also C12
#print axioms Raft.C19FsmConfigSys.nodeInv_fsm -- also C12
#print axioms Raft.C19FsmConfigSys.nodeInv_restart -- also C10
#print axioms Raft.C19FsmConfigSys.nodeInv_after_crash_partial -- also C12
#print axioms Raft.C19FsmConfigSys.nodeInv_step_sys_partial -- also C12
#print axioms Raft.C19FsmConfigSys.restart_succeeds_snap_sys_partial -- also C10
#print axioms Raft.Node.TwoClosed.step_j
#print axioms Raft.FirstCfg.g_closed
#print axioms Raft.FirstCfg.append_step_as
