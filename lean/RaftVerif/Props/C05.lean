/-
C05 — One durable vote per term; the term never goes backwards.

Model: `Raft.Node.step` (Model/Step.lean), i.e. every case of stateLoop's select, for every input.
Everything here is node-local and quantifies over ARBITRARY requests (no assumption that peers behave).
-/
import RaftVerif.Lemmas.StepInv
import RaftVerif.Lemmas.Frame

namespace Raft
namespace C05
open Node

/-- The in-memory `(term, votedFor)` equals what is on disk (what a restart would read). -/
def VoteWF (s : Node) : Prop := s.durTerm = s.term ∧ s.durVote = s.votedFor

/-- Relation between a state and any later state of the same process: the term never decreases and a
vote cast in a term is never changed within that term. -/
def VoteStep (s s' : Node) : Prop :=
  s.term ≤ s'.term ∧ (s'.term = s.term → s.votedFor ≠ 0 → s'.votedFor = s.votedFor)

/-- The same relation for what a crash would leave on disk. -/
def DurStep (s : Node) (d : Durable) : Prop :=
  s.term ≤ d.term ∧ (d.term = s.term → s.votedFor ≠ 0 → d.vote = s.votedFor)

/-- The invariant carried through a step, relative to the state `s₀` the step started from; it also
covers every crash point passed so far (`trace`). -/
def Inv (s₀ s : Node) : Prop :=
  VoteStep s₀ s ∧ VoteWF s ∧ ∀ p ∈ s.trace, DurStep s₀ p.2 ∨ p ∈ s₀.trace

theorem inv_refl (s : Node) (h : VoteWF s) : Inv s s :=
  ⟨⟨Nat.le_refl _, fun _ _ => rfl⟩, h, fun p hp => Or.inr hp⟩

/-- `Inv s₀` only looks at five fields. -/
theorem inv_congr {s₀ s s' : Node} (h : Inv s₀ s)
    (e1 : s'.term = s.term) (e2 : s'.votedFor = s.votedFor) (e3 : s'.durTerm = s.durTerm)
    (e4 : s'.durVote = s.durVote) (e5 : s'.trace = s.trace) : Inv s₀ s' := by
  unfold Inv VoteStep VoteWF at *
  rw [e1, e2, e3, e4, e5]; exact h

theorem point_inv (s₀ s : Node) (n : String) (h : Inv s₀ s) : Inv s₀ (s.point n) := by
  obtain ⟨h1, h2, h3⟩ := h
  refine ⟨h1, h2, ?_⟩
  intro p hp
  simp only [Node.point, List.mem_append, List.mem_singleton] at hp
  rcases hp with hp | hp
  · exact h3 p hp
  · subst hp
    left
    unfold DurStep Node.durable VoteStep VoteWF at *
    simp only
    rw [h2.1, h2.2]; exact h1

/-- storing a pair that is itself a legal successor keeps the invariant (including the crash point
between the rename and the in-memory update). -/
theorem storeTermVote_inv (s₀ s : Node) (t c : Nat) (h : Inv s₀ s)
    (hok : s₀.term ≤ t ∧ (t = s₀.term → s₀.votedFor ≠ 0 → c = s₀.votedFor)) :
    Inv s₀ (s.storeTermVote t c) := by
  obtain ⟨h1, h2, h3⟩ := h
  unfold Node.storeTermVote
  split
  · rename_i heq
    refine ⟨?_, ?_, h3⟩
    · exact hok
    · unfold VoteWF; simp only; exact ⟨heq.1 ▸ rfl, heq.2 ▸ rfl⟩
  · refine ⟨hok, ⟨rfl, rfl⟩, ?_⟩
    intro p hp
    simp only [Node.point, List.mem_append, List.mem_singleton] at hp
    rcases hp with hp | hp
    · exact h3 p hp
    · subst hp
      exact Or.inl hok

theorem panic_inv (s₀ s : Node) (site : String) (h : Inv s₀ s) : Inv s₀ (s.panic site) := by
  refine inv_congr h ?_ ?_ ?_ ?_ ?_ <;> (unfold Node.panic; split <;> rfl)

theorem setTerm_inv (s₀ s : Node) (t : Nat) (h : Inv s₀ s) : Inv s₀ (s.setTerm t) := by
  unfold Node.setTerm
  split
  · split
    · rename_i hne hgt
      apply storeTermVote_inv _ _ _ _ h
      obtain ⟨⟨h1, _⟩, _, _⟩ := h
      exact ⟨by omega, fun he _ => by omega⟩
    · exact panic_inv _ _ _ h
  · exact h

theorem voteNewTerm_inv (s₀ s : Node) (t c : Nat) (h : Inv s₀ s) (hgt : t > s.term) :
    Inv s₀ (s.setVotedFor t c) := by
  unfold Node.setVotedFor
  split
  · split
    · apply storeTermVote_inv _ _ _ _ h
      obtain ⟨⟨h1, _⟩, _, _⟩ := h
      exact ⟨by omega, fun he _ => by omega⟩
    · exact panic_inv _ _ _ h
  · exact h

theorem voteGrant_inv (s₀ s : Node) (c : Nat) (h : Inv s₀ s) (hv : s.votedFor = 0) :
    Inv s₀ (s.setVotedFor s.term c) := by
  unfold Node.setVotedFor
  split
  · split
    · apply storeTermVote_inv _ _ _ _ h
      obtain ⟨⟨h1, h2⟩, _, _⟩ := h
      refine ⟨h1, fun he hne => ?_⟩
      have := h2 he hne
      rw [hv] at this
      exact absurd this.symm hne
    · exact panic_inv _ _ _ h
  · exact h

/-- `Inv s₀` is preserved by every primitive the handlers are built from. -/
theorem closed (s₀ : Node) : StepClosed (Inv s₀) where
  panic := fun s site h => panic_inv s₀ s site h
  reply := fun s t r h => by
    refine inv_congr h ?_ ?_ ?_ ?_ ?_ <;> (unfold Node.reply; split <;> rfl)
  point := fun s n h => point_inv s₀ s n h
  ldr := fun s l h => inv_congr h rfl rfl rfl rfl rfl
  append := fun s e r h => inv_congr h rfl rfl rfl rfl rfl
  commitN := fun s n h => inv_congr h rfl rfl rfl rfl rfl
  fsm := fun s f h => inv_congr h rfl rfl rfl rfl rfl
  changeConfigR := fun s c h => by
    refine inv_congr h ?_ ?_ ?_ ?_ ?_ <;> (unfold Node.changeConfigR; dsimp only; split <;> rfl)
  setCommitIndexR := fun s i h _ => by
    refine inv_congr h ?_ ?_ ?_ ?_ ?_ <;>
      (unfold Node.setCommitIndexR Node.afterConfigCommit Node.closeIfRemoved Node.stepDownIfNotVoter Node.commitConfig Node.doClose; dsimp only; repeat' split) <;> rfl
  popOrder := fun s h => inv_congr h rfl rfl rfl rfl rfl
  begin := fun s ra ord h => by
    obtain ⟨h1, h2, _⟩ := h
    exact ⟨h1, h2, by simp [Node.begin]⟩
  rpcReply := fun s r h => inv_congr h rfl rfl rfl rfl rfl
  ret := fun s r h => inv_congr h rfl rfl rfl rfl rfl
  setRole := fun s r h => inv_congr h rfl rfl rfl rfl rfl
  setLeader := fun s l h => inv_congr h rfl rfl rfl rfl rfl
  doClose := fun s r h => by
    refine inv_congr h ?_ ?_ ?_ ?_ ?_ <;> (unfold Node.doClose; split <;> rfl)
  setTerm := fun s t h => setTerm_inv s₀ s t h
  voteNewTerm := fun s t c h hgt => voteNewTerm_inv s₀ s t c h hgt
  voteGrant := fun s c h hv => voteGrant_inv s₀ s c h hv
  votesNeeded := fun s v h => inv_congr h rfl rfl rfl rfl rfl
  candTransfer := fun s v h => inv_congr h rfl rfl rfl rfl rfl
  removeGTE := fun s i pt h => inv_congr h rfl rfl rfl rfl rfl
  removeLTE := fun s i h => inv_congr h rfl rfl rfl rfl rfl
  clearLog := fun s h => inv_congr h rfl rfl rfl rfl rfl
  revertConfig := fun s h => inv_congr h rfl rfl rfl rfl rfl
  commitConfig := fun s h => by
    refine inv_congr h ?_ ?_ ?_ ?_ ?_ <;> (unfold Node.commitConfig; dsimp only; split <;> rfl)
  publishSnapshot := fun s f h => by
    unfold Node.publishSnapshot
    extract_lets s1 s2
    have h1 : Inv s₀ s1 := point_inv _ _ _ (inv_congr h rfl rfl rfl rfl rfl)
    have h2 : Inv s₀ s2 := inv_congr h1 rfl rfl rfl rfl rfl
    exact point_inv _ _ _ (inv_congr h2 rfl rfl rfl rfl rfl)
  installCommit := fun s h _ => inv_congr h rfl rfl rfl rfl rfl
  snapPending := fun s v h => inv_congr h rfl rfl rfl rfl rfl
  snapResult := fun s v h => inv_congr h rfl rfl rfl rfl rfl
  bootstrapLast := fun s i t h => inv_congr h rfl rfl rfl rfl rfl

theorem setVotedFor_same' (s : Node) : s.setVotedFor s.term s.votedFor = s := by
  unfold Node.setVotedFor; simp

/-- Start of a step: `begin` clears the crash-point trace. -/
theorem begin_trace (s : Node) (ra : List Nat) (ord : List (List Nat)) : (s.begin ra ord).trace = [] := rfl

/-- **C05 (a)** — for EVERY operation a node can handle (any RPC with any content, any timeout, task,
replication update, snapshot event, shutdown), in every state: the term does not decrease, a vote
already cast in the current term is not changed, what is in memory is what is on disk, and the same
holds for the disk contents at every crash point inside the step. -/
theorem step_vote_stable (s : Node) (op : Op) (rollAt : List Nat) (order : List (List Nat)) (h : VoteWF s) :
    VoteStep s (s.step op rollAt order) ∧ VoteWF (s.step op rollAt order) ∧
    ∀ p ∈ (s.step op rollAt order).trace, DurStep s p.2 := by
  have hb : Inv (s.begin rollAt order) (s.begin rollAt order) := inv_refl _ h
  have h1 := (closed (s.begin rollAt order)).handle_inv _ op hb
  have h2 : Inv (s.begin rollAt order) (s.step op rollAt order) := by
    unfold Node.step
    dsimp only
    split
    · exact h1
    · exact (closed _).settle_inv _ _ _ h1
  obtain ⟨a, b, c⟩ := h2
  refine ⟨a, b, fun p hp => ?_⟩
  rcases c p hp with c | c
  · exact c
  · simp [Node.begin] at c

theorem ret_result (x : Node) (r : Nat) : (x.ret r).result = r := rfl

/-- Shape of a granted vote: the handler ends with `setVotedFor(req.term, req.src)`. -/
theorem onVoteRequest_success (s : Node) (q : VoteReq) (hs : (s.onVoteRequest q).result = rSuccess) :
    q.term ≥ s.term ∧
    s.onVoteRequest q =
      ((if q.term > s.term then s.setRole .follower else s).setVotedFor q.term q.src).ret rSuccess := by
  unfold Node.onVoteRequest at hs ⊢
  by_cases c1 : ((!q.transfer) = true ∧ s.leader ≠ 0 ∧ q.src ≠ s.leader)
  · rw [if_pos c1, ret_result] at hs; exact absurd hs (by decide)
  · rw [if_neg c1] at hs ⊢
    by_cases c2 : q.term < s.term
    · rw [if_pos c2, ret_result] at hs; exact absurd hs (by decide)
    · rw [if_neg c2] at hs ⊢
      refine ⟨Nat.le_of_not_lt c2, ?_⟩
      dsimp only at hs ⊢
      by_cases c3 : q.term > s.term
      · simp only [c3, if_true, ne_eq, not_true_eq_false, if_false] at hs ⊢
        split at hs
        · rw [ret_result] at hs; exact absurd hs (by decide)
        · rename_i c4; rw [if_neg c4]
      · have heq : q.term = s.term := by omega
        simp only [c3, if_false] at hs ⊢
        by_cases c5 : s.votedFor ≠ 0
        · rw [if_pos c5] at hs ⊢
          by_cases c6 : s.votedFor = q.src
          · rw [if_pos c6, heq, c6]
          · rw [if_neg c6, ret_result] at hs; exact absurd hs (by decide)
        · rw [if_neg c5] at hs ⊢
          split at hs
          · rw [ret_result] at hs; exact absurd hs (by decide)
          · rename_i c4; rw [if_neg c4, heq]

theorem storeTermVote_fields (s : Node) (t c : Nat) :
    (s.storeTermVote t c).term = t ∧ (s.storeTermVote t c).votedFor = c ∧
    (s.storeTermVote t c).durTerm = t ∧ (s.storeTermVote t c).durVote = c := by
  unfold Node.storeTermVote
  split <;> simp_all [Node.point]

theorem setVotedFor_fields (x : Node) (t c : Nat) (hw : VoteWF x) (hge : t ≥ x.term) :
    (x.setVotedFor t c).term = t ∧ (x.setVotedFor t c).votedFor = c ∧
    (x.setVotedFor t c).durTerm = t ∧ (x.setVotedFor t c).durVote = c := by
  unfold Node.setVotedFor
  split
  · exact storeTermVote_fields x t c
  · rename_i hn
    simp only [not_or, Decidable.not_not] at hn
    obtain ⟨hw1, hw2⟩ := hw
    refine ⟨hn.1.symm, hn.2.symm, ?_, ?_⟩
    · rw [hw1, hn.1]
    · rw [hw2, hn.2]

/-- **C05 (b)** — whenever the vote handler answers `success`, the vote for the REQUESTED term and
candidate is what is in memory and on disk when the handler returns (i.e. before the reply is built). -/
theorem grant_is_durable (s : Node) (q : VoteReq) (h : VoteWF s)
    (hs : (s.onVoteRequest q).result = rSuccess) :
    (s.onVoteRequest q).term = q.term ∧ (s.onVoteRequest q).votedFor = q.src ∧
    (s.onVoteRequest q).durTerm = q.term ∧ (s.onVoteRequest q).durVote = q.src := by
  obtain ⟨hge, heq⟩ := onVoteRequest_success s q hs
  rw [heq]
  have hx : VoteWF (if q.term > s.term then s.setRole .follower else s) := by split <;> exact h
  have hxt : (if q.term > s.term then s.setRole .follower else s).term = s.term := by split <;> rfl
  exact setVotedFor_fields _ q.term q.src hx (by rw [hxt]; exact hge)

/-- **C05 (d)** — a restart reads back exactly the durable `(term, vote)`. -/
theorem restart_reads_durable (d : Durable) (retain : Nat) (sor : Bool) (n : Node)
    (h : Node.restart d retain sor = some n) :
    n.term = d.term ∧ n.votedFor = d.vote ∧ VoteWF n := by
  unfold Node.restart at h
  split at h
  · cases h
  · split at h
    · cases h
    · injection h with h
      subst h
      have e : ∀ x : Node, (x.fsmRestore.withCommitIndex x.snapIndex).term = x.term ∧
          (x.fsmRestore.withCommitIndex x.snapIndex).votedFor = x.votedFor ∧
          (x.fsmRestore.withCommitIndex x.snapIndex).durTerm = x.durTerm ∧
          (x.fsmRestore.withCommitIndex x.snapIndex).durVote = x.durVote := by
        intro x
        unfold Node.fsmRestore Node.withCommitIndex Node.panic Node.withFsm
        refine ⟨?_, ?_, ?_, ?_⟩ <;> (repeat' split) <;> rfl
      split
      · obtain ⟨e1, e2, e3, e4⟩ := e (Node.restartNode d retain sor)
        unfold VoteWF
        rw [e1, e2, e3, e4]
        exact ⟨rfl, rfl, rfl, rfl⟩
      · exact ⟨rfl, rfl, rfl, rfl⟩

/-! ### Runs of one node: arbitrary operations, process deaths at arbitrary storage points, restarts -/

inductive Ev where
  /-- the operation is handled to completion (its reply, if any, is sent) -/
  | step (op : Op) (rollAt : List Nat) (order : List (List Nat))
  /-- the process dies while handling `op`, after `k` storage points (`k = 0`: before the first one;
  `k` beyond the last: after everything but before replying), and is restarted on the same directory -/
  | crash (op : Op) (rollAt : List Nat) (order : List (List Nat)) (k : Nat)

/-- Disk contents when the process dies after `k` storage points of handling `op`. -/
def crashDisk (s : Node) (op : Op) (ra : List Nat) (ord : List (List Nat)) : Nat → Durable
  | 0 => s.durable
  | k + 1 => match (s.step op ra ord).trace[k]? with
    | some p => p.2
    | none => (s.step op ra ord).durable

/-- The votes this node has acknowledged as granted: `(term, candidate)` of every vote request answered `success`. -/
def grantOf (op : Op) (s' : Node) : Option (Nat × Nat) :=
  match op with
  | .vote q => if (s'.rpcReply.map (·.result)) = some rSuccess then some (q.term, q.src) else none
  | _ => none

def exec (retain : Nat) (sor : Bool) : Node → List (Nat × Nat) → List Ev → Option (Node × List (Nat × Nat))
  | s, g, [] => some (s, g)
  | s, g, .step op ra ord :: evs =>
    let s' := s.step op ra ord
    exec retain sor s' (match grantOf op s' with | some x => x :: g | none => g) evs
  | s, g, .crash op ra ord k :: evs =>
    match Node.restart (crashDisk s op ra ord k) retain sor with
    | some n => exec retain sor n g evs
    | none => none

/-- every vote request in the run names a real candidate (node ids are non-zero: `SetIdentity`, `New`) -/
def SrcOK : List Ev → Prop
  | [] => True
  | .step (.vote q) _ _ :: evs => q.src ≠ 0 ∧ SrcOK evs
  | _ :: evs => SrcOK evs

/-- run invariant: every acknowledged grant is still honoured by the current `(term, votedFor)`. -/
def Honoured (s : Node) (g : List (Nat × Nat)) : Prop :=
  ∀ x ∈ g, x.2 ≠ 0 ∧ (x.1 < s.term ∨ (x.1 = s.term ∧ s.votedFor = x.2))

def Unique (g : List (Nat × Nat)) : Prop := ∀ x ∈ g, ∀ y ∈ g, x.1 = y.1 → x.2 = y.2

theorem honoured_step {s s' : Node} {g : List (Nat × Nat)} (h : Honoured s g) (hs : VoteStep s s') :
    Honoured s' g := by
  intro x hx
  obtain ⟨h1, h2⟩ := h x hx
  refine ⟨h1, ?_⟩
  obtain ⟨ht, hv⟩ := hs
  rcases h2 with h2 | ⟨h2, h3⟩
  · left; omega
  · by_cases he : s'.term = s.term
    · right; refine ⟨by omega, ?_⟩
      rw [hv he (by rw [h3]; exact h1), h3]
    · left; omega

theorem honoured_dur {s : Node} {d : Durable} {n : Node} {g : List (Nat × Nat)} (h : Honoured s g)
    (hd : DurStep s d) (hn : n.term = d.term ∧ n.votedFor = d.vote) : Honoured n g := by
  apply honoured_step h
  unfold VoteStep; rw [hn.1, hn.2]; exact hd

/-- the rpc reply is not touched by the role transitions after a handler -/
theorem rpcReply_frame : FrameS (fun s : Node => s.rpcReply) where
  panic := fun s site => by unfold Node.panic; split <;> rfl
  reply := fun s t r => by unfold Node.reply; split <;> rfl
  point := fun _ _ => rfl
  ldr := fun _ _ => rfl
  log := fun _ _ _ _ => rfl
  logOnly := fun _ _ => rfl
  fsm := fun _ _ => rfl
  configs := fun _ _ => rfl
  commitIndex := fun _ _ => rfl
  leader := fun _ _ => rfl
  role := fun _ _ => rfl
  closed := fun _ _ => rfl
  popOrder := fun _ => rfl
  votesNeeded := fun _ _ => rfl
  candTransfer := fun _ _ => rfl
  setVotedFor := fun s t c => by
    unfold Node.setVotedFor Node.storeTermVote Node.panic Node.point
    repeat' split
    all_goals rfl

theorem rpcDone_result (x : Node) (a b : Bool) : (x.rpcDone a b).rpcReply.map (·.result) = some x.result := by
  rw [Node.rpcDone_reply]; rfl

/-- the reply of a vote step is `success` only if the handler returned `success` -/
theorem vote_step_shape (s : Node) (q : VoteReq) (ra : List Nat) (ord : List (List Nat))
    (h : ((s.step (.vote q) ra ord).rpcReply.map (·.result)) = some rSuccess) :
    ((s.begin ra ord).onVoteRequest q).result = rSuccess := by
  unfold Node.step at h
  dsimp only at h
  rw [rpcReply_frame.settle_eq] at h
  unfold Node.handle at h
  rw [rpcDone_result] at h
  injection h

/-- the state after a granted vote step honours the grant -/
theorem vote_step_honours (s : Node) (q : VoteReq) (ra : List Nat) (ord : List (List Nat)) (hwf : VoteWF s)
    (hq : q.src ≠ 0)
    (h : ((s.step (.vote q) ra ord).rpcReply.map (·.result)) = some rSuccess) :
    q.term < (s.step (.vote q) ra ord).term ∨
    (q.term = (s.step (.vote q) ra ord).term ∧ (s.step (.vote q) ra ord).votedFor = q.src) := by
  have hs := vote_step_shape s q ra ord h
  have hb : VoteWF (s.begin ra ord) := hwf
  obtain ⟨e1, e2, e3, e4⟩ := grant_is_durable (s.begin ra ord) q hb hs
  -- from the handler's result state to the end of the step
  let x := (s.begin ra ord).onVoteRequest q
  have hx : Inv x x := inv_refl x ⟨by rw [e3, e1], by rw [e4, e2]⟩
  have h2 : Inv x (s.step (.vote q) ra ord) := by
    unfold Node.step
    dsimp only
    exact (closed x).settle_inv _ _ _ ((closed x).rpcDone_inv _ _ _ hx)
  obtain ⟨⟨ht, hv⟩, _, _⟩ := h2
  by_cases he : (s.step (.vote q) ra ord).term = x.term
  · right
    refine ⟨by rw [he]; exact e1.symm, ?_⟩
    rw [hv he (by show x.votedFor ≠ 0; rw [e2]; exact hq)]
    exact e2
  · left
    have : x.term = q.term := e1
    omega

/-- **C05 (e)** — in every run of a node (any operations with any contents, the process dying at any
storage point of any handler and restarting), all vote requests it answered `success` for one term
name one candidate. -/
theorem vote_once (retain : Nat) (sor : Bool) (evs : List Ev) (s₀ : Node) (g₀ : List (Nat × Nat))
    (hwf : VoteWF s₀) (hh : Honoured s₀ g₀) (hu : Unique g₀) (hsrc : SrcOK evs)
    (s : Node) (g : List (Nat × Nat)) (h : exec retain sor s₀ g₀ evs = some (s, g)) : Unique g := by
  induction evs generalizing s₀ g₀ with
  | nil =>
    simp only [exec, Option.some.injEq, Prod.mk.injEq] at h
    rw [← h.2]; exact hu
  | cons ev evs ih =>
    cases ev with
    | step op ra ord =>
      simp only [exec] at h
      obtain ⟨hvs, hwf', _⟩ := step_vote_stable s₀ op ra ord hwf
      have hh' := honoured_step hh hvs
      have hsrc' : SrcOK evs := by
        cases op <;> first | exact hsrc | exact hsrc.2
      cases hg : grantOf op (s₀.step op ra ord) with
      | none =>
        rw [hg] at h
        exact ih _ _ hwf' hh' hu hsrc' h
      | some x =>
        rw [hg] at h
        -- a grant: op is a vote request answered success
        cases op with
        | vote q =>
          simp only [grantOf] at hg
          split at hg
          · rename_i hsucc
            injection hg with hg
            subst hg
            have hq : q.src ≠ 0 := hsrc.1
            have hon := vote_step_honours s₀ q ra ord hwf hq hsucc
            refine ih _ _ hwf' ?_ ?_ hsrc' h
            · intro y hy
              rcases List.mem_cons.mp hy with hy | hy
              · subst hy; exact ⟨hq, hon⟩
              · exact hh' y hy
            · -- uniqueness: an older grant for the same term must name the same candidate
              have key : ∀ y ∈ g₀, y.1 = q.term → y.2 = q.src := by
                intro y hy hyt
                obtain ⟨hy0, hy1⟩ := hh y hy
                have hsh := vote_step_shape s₀ q ra ord hsucc
                obtain ⟨hqge, _⟩ := onVoteRequest_success (s₀.begin ra ord) q hsh
                have hqge' : q.term ≥ s₀.term := hqge
                have hb : VoteWF (s₀.begin ra ord) := hwf
                obtain ⟨e1, e2, _, _⟩ := grant_is_durable (s₀.begin ra ord) q hb hsh
                have hx := ((closed (s₀.begin ra ord)).onVoteRequest_inv _ q (inv_refl _ hb)).1
                rcases hy1 with hlt | ⟨heq, hvf⟩
                · omega
                · have h1 : ((s₀.begin ra ord).onVoteRequest q).term = (s₀.begin ra ord).term := by
                    rw [e1]; show q.term = s₀.term; omega
                  have h2 := hx.2 h1 (by show s₀.votedFor ≠ 0; rw [hvf]; exact hy0)
                  rw [e2] at h2
                  rw [h2]; exact hvf.symm
              intro a ha b hb hab
              rcases List.mem_cons.mp ha with ha | ha <;> rcases List.mem_cons.mp hb with hb | hb
              · subst ha; subst hb; rfl
              · subst ha; exact (key b hb hab.symm).symm
              · subst hb; exact key a ha hab
              · exact hu a ha b hb hab
          · cases hg
        | _ => simp [grantOf] at hg
    | crash op ra ord k =>
      simp only [exec] at h
      split at h
      · rename_i n hn
        obtain ⟨hn1, hn2, hnwf⟩ := restart_reads_durable _ _ _ _ hn
        have hd : DurStep s₀ (crashDisk s₀ op ra ord k) := by
          obtain ⟨hvs, hwf', htr⟩ := step_vote_stable s₀ op ra ord hwf
          cases k with
          | zero =>
            simp only [crashDisk, Node.durable, DurStep]
            rw [hwf.1, hwf.2]; exact ⟨Nat.le_refl _, fun _ _ => rfl⟩
          | succ k =>
            simp only [crashDisk]
            split
            · rename_i p hp
              exact htr p (List.mem_of_getElem? hp)
            · simp only [Node.durable, DurStep]
              rw [hwf'.1, hwf'.2]; exact hvs
        have hsrc' : SrcOK evs := hsrc
        exact ih _ _ hnwf (honoured_dur hh hd ⟨hn1, hn2⟩) hu hsrc' h
      · cases h

/-- **C05 (f)** — the term a node reports never goes backwards over a run with crashes and restarts. -/
theorem term_monotone_run (retain : Nat) (sor : Bool) (evs : List Ev) (s₀ : Node) (g₀ : List (Nat × Nat))
    (hwf : VoteWF s₀) (s : Node) (g : List (Nat × Nat)) (h : exec retain sor s₀ g₀ evs = some (s, g)) :
    s₀.term ≤ s.term ∧ VoteWF s := by
  induction evs generalizing s₀ g₀ with
  | nil =>
    simp only [exec, Option.some.injEq, Prod.mk.injEq] at h
    rw [← h.1]; exact ⟨Nat.le_refl _, hwf⟩
  | cons ev evs ih =>
    cases ev with
    | step op ra ord =>
      simp only [exec] at h
      obtain ⟨hvs, hwf', _⟩ := step_vote_stable s₀ op ra ord hwf
      obtain ⟨h1, h2⟩ := ih _ _ hwf' h
      exact ⟨Nat.le_trans hvs.1 h1, h2⟩
    | crash op ra ord k =>
      simp only [exec] at h
      split at h
      · rename_i n hn
        obtain ⟨hn1, hn2, hnwf⟩ := restart_reads_durable _ _ _ _ hn
        obtain ⟨hvs, hwf', htr⟩ := step_vote_stable s₀ op ra ord hwf
        have hd : s₀.term ≤ (crashDisk s₀ op ra ord k).term := by
          cases k with
          | zero => simp only [crashDisk, Node.durable]; rw [hwf.1]; exact Nat.le_refl _
          | succ k =>
            simp only [crashDisk]
            split
            · rename_i p hp; exact (htr p (List.mem_of_getElem? hp)).1
            · simp only [Node.durable]; rw [hwf'.1]; exact hvs.1
        obtain ⟨h1, h2⟩ := ih _ _ hnwf h
        exact ⟨by omega, h2⟩
      · cases h

/-- The property as one statement about the model: for every run of a node from a well-formed state
(arbitrary operations with arbitrary contents; the process dying at any storage point of any handler and
restarting) (1) granted votes are unique per term, (2) the term never goes backwards, and (3) a vote reply
`success` is only produced after the vote for the requested term and candidate is durable. -/
def C05_statement : Prop :=
  (∀ (retain : Nat) (sor : Bool) (evs : List Ev) (s₀ s : Node) (g : List (Nat × Nat)),
      VoteWF s₀ → SrcOK evs → exec retain sor s₀ [] evs = some (s, g) → Unique g ∧ s₀.term ≤ s.term) ∧
  (∀ (s : Node) (q : VoteReq), VoteWF s → (s.onVoteRequest q).result = rSuccess →
      (s.onVoteRequest q).durTerm = q.term ∧ (s.onVoteRequest q).durVote = q.src)

theorem C05 : C05_statement := by
  refine ⟨fun retain sor evs s₀ s g hwf hsrc h => ⟨?_, ?_⟩, fun s q hwf hs => ?_⟩
  · exact vote_once retain sor evs s₀ [] hwf (fun _ hx => by cases hx) (fun _ hx => by cases hx) hsrc s g h
  · exact (term_monotone_run retain sor evs s₀ [] hwf s g h).1
  · exact (grant_is_durable s q hwf hs).2.2

/-! Non-vacuity: a freshly opened node is well formed, grants a vote, and the run semantics produces
a non-empty grant list for it. -/
example : VoteWF ({ cid := 7, nid := 1 } : Node) := ⟨rfl, rfl⟩
example : (({ cid := 7, nid := 1 } : Node).onVoteRequest { term := 3, src := 2 }).result = rSuccess := by decide
example : ((exec 1 true ({ cid := 7, nid := 1 } : Node) [] [.step (.vote { term := 3, src := 2 }) [] []]).map (·.2))
    = some [(3, 2)] := by decide

end C05
end Raft

#print axioms Raft.C05.C05
#print axioms Raft.C05.vote_once
#print axioms Raft.C05.term_monotone_run
#print axioms Raft.C05.grant_is_durable
#print axioms Raft.C05.step_vote_stable
#print axioms Raft.C05.restart_reads_durable
