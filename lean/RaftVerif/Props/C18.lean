/-
C18 — wire and on-disk encodings round-trip and stay framed.

For every codec `T` of the Go library (model: `RaftVerif.Model.Codec`, tied to /repo by the
`codecdiff` engine) this file proves

* `roundtrip_T` : `dec_T (enc_T x ++ tail) = ok (canon_T x, tail)` for every `x` meeting the
  explicit, decidable guard `wf_T` and every `tail`;
* `truncated_T` : every proper prefix of `enc_T x` decodes to an end-of-input error
  (`io.EOF` / `io.ErrUnexpectedEOF`) — never to a value;

plus `stream_framed`, `taskresp_recognisable`, `value_file_roundtrip`, and the conjunction
`C18 : C18_statement`.

Notes.
* Value files: `openValue` now parses with `strconv.ParseUint` (repo commit 7ef5cca), which is
  what `parseValue` models; every 64-bit value reads back. The pre-fix reader
  (`strconv.ParseInt`) is kept as `parseValueSigned` with `value_file_signed_counterexample`
  as a historical note.
* Task responses: `encodeTaskResp` sends `err.Error()`, and `InProgressError(s).Error()` is
  `"raft: another "+s+" in progress"`, so a client receives
  `InProgressError("raft: another "+s+" in progress")`. The property asks for recognition
  "by kind or equality": the KIND is kept and the original text is recoverable
  (`inProgressText_injective`); that the value is not equal is recorded in
  `inProgress_not_equal_remark`.
-/
import RaftVerif.Lemmas.Codec

namespace RaftVerif.C18
open RaftVerif.Codec

/-! ## the shape of the per-codec obligations -/

/-- `dec (enc x ++ tail) = ok (canon x, tail)` for all well-formed `x` and all tails. -/
def RoundTrips {α : Type} (enc : α → Bytes) (dec : Decoder α) (canon : α → α)
    (wf : α → Prop) : Prop :=
  ∀ x tail, wf x → dec (enc x ++ tail) = .ok (canon x, tail)

/-- every proper prefix of an encoding decodes to an end-of-input error, never a value. -/
def TruncSafe {α : Type} (enc : α → Bytes) (dec : Decoder α) (wf : α → Prop) : Prop :=
  ∀ x, wf x → ∀ p, p <+: enc x → p ≠ enc x → ∃ e, dec p = .error e ∧ e.isEof = true

/-- Round trip + framedness of the decoder give truncation safety. -/
theorem TruncSafe.of_roundTrips {α : Type} {enc : α → Bytes} {dec : Decoder α}
    {canon : α → α} {wf : α → Prop} [Framed dec] (h : RoundTrips enc dec canon wf) :
    TruncSafe enc dec wf :=
  fun x hx _ hp hne => truncated_of_roundtrip' (fun t => h x t hx) hp hne

/-! ## well-formedness guards (exactly the `uint32` length prefixes) -/

/-- `len(data)` fits the `uint32` length prefix. -/
def wfEntry (e : Entry) : Prop := e.data.length < 2 ^ 32

def wfNode (n : Node) : Prop := n.addr.length < 2 ^ 32 ∧ n.data.length < 2 ^ 32

/-- node count and every string fit `uint32`, and so does the encoded node list, which
becomes the `data` of the carrying entry. -/
def wfConfig (c : Config) : Prop :=
  c.nodes.length < 2 ^ 32 ∧ (∀ n ∈ c.nodes, wfNode n) ∧ (configData c).length < 2 ^ 32

def wfInstallSnapReq (r : InstallSnapReq) : Prop := wfConfig r.lastConfig

def wfRespErr (e : RespErr) : Prop := e.opStr.length < 2 ^ 32 ∧ e.textStr.length < 2 ^ 32

/-- with `result == unexpectedErr` the error must be non-nil (the Go encoder dereferences
it) and its strings fit; otherwise the error is not sent at all. -/
def wfResp (r : Resp) : Prop :=
  r.result = unexpectedErr → ∃ e, r.err = some e ∧ wfRespErr e

def wfAppendResp (r : AppendResp) : Prop := wfResp r.resp

def wfSnapshotMeta (m : SnapshotMeta) : Prop := wfConfig m.config

def wfReplication (r : Replication) : Prop := r.errMessage.length < 2 ^ 32

def wfInfo (i : Info) : Prop :=
  i.addr.length < 2 ^ 32 ∧ wfConfig i.cfgCommitted ∧ wfConfig i.cfgLatest ∧
  i.followers.length < 2 ^ 32 ∧ ∀ r ∈ i.followers, wfReplication r

def wfTaskErr : TaskErr → Prop
  | .notLeader n _ => wfNode n
  | .plain s => s.length < 2 ^ 32
  | .temporary s => s.length < 2 ^ 32
  | .inProgress s => (inProgressText s).length < 2 ^ 32
  | .other tn text =>
    tn ≠ [] ∧ tn ≠ nmNotLeader ∧ tn ≠ nmPlain ∧ tn ≠ nmTemporary ∧ tn ≠ nmInProgress ∧
    tn.length < 2 ^ 32 ∧ text.length < 2 ^ 32

/-- the result has the type the client expects for the task type, and its parts fit. -/
def wfTaskResult (typ : UInt8) (r : TaskResult) : Prop :=
  taskCompat typ r = true ∧
  match r with
  | .err e => wfTaskErr e
  | .config c => wfConfig c
  | .info i => wfInfo i
  | _ => True

def wfAdminReq : AdminReq → Prop
  | .changeConfig c => wfConfig c
  | _ => True

/-- an append header announces exactly the entries that follow; a snapshot header
announces exactly the bytes that follow. -/
def wfMsg : Msg → Prop
  | .append h es => h.numEntries.toNat = es.length ∧ ∀ e ∈ es, wfEntry e
  | .installSnap h body => wfInstallSnapReq h ∧ body.length = snapBodyLen h.size
  | .admin r => wfAdminReq r
  | _ => True

instance (e : Entry) : Decidable (wfEntry e) := by unfold wfEntry; infer_instance
instance (n : Node) : Decidable (wfNode n) := by unfold wfNode; infer_instance
instance (c : Config) : Decidable (wfConfig c) := by unfold wfConfig; infer_instance
instance (r : InstallSnapReq) : Decidable (wfInstallSnapReq r) := by
  unfold wfInstallSnapReq; infer_instance
instance (e : RespErr) : Decidable (wfRespErr e) := by unfold wfRespErr; infer_instance
instance (r : Resp) : Decidable (wfResp r) := by
  unfold wfResp
  cases h : r.err with
  | none => exact decidable_of_iff (r.result ≠ unexpectedErr) (by simp)
  | some e => exact decidable_of_iff (r.result = unexpectedErr → wfRespErr e) (by simp)
instance (r : AppendResp) : Decidable (wfAppendResp r) := by unfold wfAppendResp; infer_instance
instance (m : SnapshotMeta) : Decidable (wfSnapshotMeta m) := by
  unfold wfSnapshotMeta; infer_instance
instance (r : Replication) : Decidable (wfReplication r) := by
  unfold wfReplication; infer_instance
instance (i : Info) : Decidable (wfInfo i) := by unfold wfInfo; infer_instance
instance (e : TaskErr) : Decidable (wfTaskErr e) := by
  cases e <;> unfold wfTaskErr <;> infer_instance
instance (typ : UInt8) (r : TaskResult) : Decidable (wfTaskResult typ r) := by
  cases r <;> unfold wfTaskResult <;> infer_instance
instance (r : AdminReq) : Decidable (wfAdminReq r) := by
  cases r <;> unfold wfAdminReq <;> infer_instance
instance (m : Msg) : Decidable (wfMsg m) := by
  cases m <;> unfold wfMsg <;> infer_instance

/-! ## full-strength statement -/

/-- every codec round-trips (up to the explicit `canon`) on every well-formed value with
every tail, and is truncation safe. -/
def codecs_statement : Prop :=
  (RoundTrips encEntry decEntry id wfEntry ∧ TruncSafe encEntry decEntry wfEntry) ∧
  (RoundTrips encReq decReq id (fun _ => True) ∧ TruncSafe encReq decReq (fun _ => True)) ∧
  (RoundTrips encIdentityReq decIdentityReq id (fun _ => True) ∧
    TruncSafe encIdentityReq decIdentityReq (fun _ => True)) ∧
  (RoundTrips encVoteReq decVoteReq id (fun _ => True) ∧
    TruncSafe encVoteReq decVoteReq (fun _ => True)) ∧
  (RoundTrips encAppendReq decAppendReq id (fun _ => True) ∧
    TruncSafe encAppendReq decAppendReq (fun _ => True)) ∧
  (RoundTrips encInstallSnapReq decInstallSnapReq canonInstallSnapReq wfInstallSnapReq ∧
    TruncSafe encInstallSnapReq decInstallSnapReq wfInstallSnapReq) ∧
  (RoundTrips encTimeoutNowReq decTimeoutNowReq id (fun _ => True) ∧
    TruncSafe encTimeoutNowReq decTimeoutNowReq (fun _ => True)) ∧
  (RoundTrips encResp decResp canonResp wfResp ∧ TruncSafe encResp decResp wfResp) ∧
  (RoundTrips encAppendResp decAppendResp canonAppendResp wfAppendResp ∧
    TruncSafe encAppendResp decAppendResp wfAppendResp) ∧
  (RoundTrips encNode decNode id wfNode ∧ TruncSafe encNode decNode wfNode) ∧
  (RoundTrips encConfig decConfig canonConfig wfConfig ∧
    TruncSafe encConfig decConfig wfConfig) ∧
  (RoundTrips encSnapshotMeta decSnapshotMeta canonSnapshotMeta wfSnapshotMeta ∧
    TruncSafe encSnapshotMeta decSnapshotMeta wfSnapshotMeta) ∧
  (RoundTrips encReplication decReplication canonReplication wfReplication ∧
    TruncSafe encReplication decReplication wfReplication) ∧
  (RoundTrips encInfo decInfo canonInfo wfInfo ∧ TruncSafe encInfo decInfo wfInfo) ∧
  (∀ typ, RoundTrips encTaskResp (decTaskResp typ) canonTaskResult (wfTaskResult typ) ∧
    TruncSafe encTaskResp (decTaskResp typ) (wfTaskResult typ)) ∧
  (RoundTrips encAdminReq decAdminReq canonAdminReq wfAdminReq ∧
    TruncSafe encAdminReq decAdminReq wfAdminReq)

/-- A pipelined stream is consumed message by message: after the first `pre.length`
messages the reader is positioned exactly at the encoding of the remaining ones. -/
def stream_framed_statement : Prop :=
  ∀ (pre post : List Msg) (tail : Bytes), (∀ m ∈ pre, wfMsg m) →
    decList decMsg pre.length (encStream (pre ++ post) ++ tail)
      = .ok (pre.map canonMsg, encStream post ++ tail)

/-- What a client can recognise in a task response ("by kind or equality"):
`NotLeaderError` keeps leader node and `Lost` (equal); `plainError` sentinels and
`temporaryError` (`ErrNotCommitReady`) decode to values EQUAL to the originals;
`InProgressError` keeps its KIND and its text `s` is recoverable (it decodes to
`InProgressError (inProgressText s)` and `inProgressText` is injective); every other error
keeps its text. -/
def taskresp_recognisable_statement : Prop :=
  (∀ (typ : UInt8) (tail : Bytes),
    (∀ n lost, wfNode n →
      decTaskResp typ (encTaskResp (.err (.notLeader n lost)) ++ tail)
        = .ok (.err (.notLeader n lost), tail)) ∧
    (∀ s, s.length < 2 ^ 32 →
      decTaskResp typ (encTaskResp (.err (.plain s)) ++ tail) = .ok (.err (.plain s), tail)) ∧
    (∀ s, s.length < 2 ^ 32 →
      decTaskResp typ (encTaskResp (.err (.temporary s)) ++ tail)
        = .ok (.err (.temporary s), tail)) ∧
    (∀ s, (inProgressText s).length < 2 ^ 32 →
      decTaskResp typ (encTaskResp (.err (.inProgress s)) ++ tail)
        = .ok (.err (.inProgress (inProgressText s)), tail)) ∧
    (∀ tn text, wfTaskErr (.other tn text) →
      decTaskResp typ (encTaskResp (.err (.other tn text)) ++ tail)
        = .ok (.err (.other nmErrorString text), tail))) ∧
  (∀ s s' : Bytes, inProgressText s = inProgressText s' → s = s')

/-- persisted (cluster id, node id) / (term, vote) read back exactly, for every value. -/
def value_file_roundtrip_statement : Prop :=
  ∀ a b : UInt64, parseValue (formatValue a b) = .ok (a, b)

def C18_statement : Prop :=
  codecs_statement ∧ stream_framed_statement ∧ taskresp_recognisable_statement ∧
  value_file_roundtrip_statement

/-! ## entry -/

theorem roundtrip_entry (e : Entry) (tail : Bytes) (h : wfEntry e) :
    decEntry (encEntry e ++ tail) = .ok (e, tail) := by
  unfold wfEntry at h
  simp [decEntry, encEntry, bind_run, pure_run, h]

theorem truncated_entry (e : Entry) (h : wfEntry e) (p : Bytes) (hp : p <+: encEntry e)
    (hne : p ≠ encEntry e) : ∃ err, decEntry p = .error err ∧ err.isEof = true :=
  truncated_of_roundtrip' (fun t => roundtrip_entry e t h) hp hne

example : wfEntry ⟨18446744073709551615, 9223372036854775808, 2, [1, 2, 3]⟩ := by decide

/-! ## requests -/

theorem roundtrip_req (r : Req) (tail : Bytes) : decReq (encReq r ++ tail) = .ok (r, tail) := by
  simp [decReq, encReq, bind_run, pure_run]

theorem truncated_req (r : Req) (p : Bytes) (hp : p <+: encReq r) (hne : p ≠ encReq r) :
    ∃ err, decReq p = .error err ∧ err.isEof = true :=
  truncated_of_roundtrip' (fun t => roundtrip_req r t) hp hne

theorem roundtrip_identityReq (r : IdentityReq) (tail : Bytes) :
    decIdentityReq (encIdentityReq r ++ tail) = .ok (r, tail) := by
  simp [decIdentityReq, encIdentityReq, bind_run, pure_run, roundtrip_req]

theorem truncated_identityReq (r : IdentityReq) (p : Bytes) (hp : p <+: encIdentityReq r)
    (hne : p ≠ encIdentityReq r) : ∃ err, decIdentityReq p = .error err ∧ err.isEof = true :=
  truncated_of_roundtrip' (fun t => roundtrip_identityReq r t) hp hne

theorem roundtrip_voteReq (r : VoteReq) (tail : Bytes) :
    decVoteReq (encVoteReq r ++ tail) = .ok (r, tail) := by
  simp [decVoteReq, encVoteReq, bind_run, pure_run, roundtrip_req]

theorem truncated_voteReq (r : VoteReq) (p : Bytes) (hp : p <+: encVoteReq r)
    (hne : p ≠ encVoteReq r) : ∃ err, decVoteReq p = .error err ∧ err.isEof = true :=
  truncated_of_roundtrip' (fun t => roundtrip_voteReq r t) hp hne

theorem roundtrip_appendReq (r : AppendReq) (tail : Bytes) :
    decAppendReq (encAppendReq r ++ tail) = .ok (r, tail) := by
  simp [decAppendReq, encAppendReq, bind_run, pure_run, roundtrip_req]

theorem truncated_appendReq (r : AppendReq) (p : Bytes) (hp : p <+: encAppendReq r)
    (hne : p ≠ encAppendReq r) : ∃ err, decAppendReq p = .error err ∧ err.isEof = true :=
  truncated_of_roundtrip' (fun t => roundtrip_appendReq r t) hp hne

theorem roundtrip_timeoutNowReq (r : TimeoutNowReq) (tail : Bytes) :
    decTimeoutNowReq (encTimeoutNowReq r ++ tail) = .ok (r, tail) :=
  roundtrip_req r tail

theorem truncated_timeoutNowReq (r : TimeoutNowReq) (p : Bytes)
    (hp : p <+: encTimeoutNowReq r) (hne : p ≠ encTimeoutNowReq r) :
    ∃ err, decTimeoutNowReq p = .error err ∧ err.isEof = true :=
  truncated_of_roundtrip' (fun t => roundtrip_timeoutNowReq r t) hp hne

/-! ## Node, Config -/

theorem roundtrip_node (n : Node) (tail : Bytes) (h : wfNode n) :
    decNode (encNode n ++ tail) = .ok (n, tail) := by
  simp [decNode, encNode, bind_run, pure_run, h.1, h.2]

theorem truncated_node (n : Node) (h : wfNode n) (p : Bytes) (hp : p <+: encNode n)
    (hne : p ≠ encNode n) : ∃ err, decNode p = .error err ∧ err.isEof = true :=
  truncated_of_roundtrip' (fun t => roundtrip_node n t h) hp hne

example : wfNode ⟨7, [49, 50], true, [], 4⟩ := by decide

/-- `Config.decode (Config.encode c)` on the entry level. -/
theorem configOfEntry_configEntry (c : Config) (h : wfConfig c) :
    configOfEntry (configEntry c) = .ok (canonConfig c) := by
  obtain ⟨h1, h2, _⟩ := h
  have : decConfigData (configData c) = .ok (c.nodes, []) := by
    unfold decConfigData configData
    rw [bind_ok (decU32_enc _ _ h1)]
    have := decList_enc decNode encNode id c.nodes []
      (fun n hn t => roundtrip_node n t (h2 n hn))
    simpa using this
  simp [configOfEntry, configEntry, this, canonConfig]

/-- Config travels as an entry (`u32` count + nodes in its data); decoding gives the map,
i.e. the id-sorted, last-wins list. -/
theorem roundtrip_config (c : Config) (tail : Bytes) (h : wfConfig c) :
    decConfig (encConfig c ++ tail) = .ok (canonConfig c, tail) := by
  have he : wfEntry (configEntry c) := h.2.2
  unfold decConfig encConfig
  rw [bind_ok (roundtrip_entry _ _ he), configOfEntry_configEntry c h]
  rfl

theorem truncated_config (c : Config) (h : wfConfig c) (p : Bytes) (hp : p <+: encConfig c)
    (hne : p ≠ encConfig c) : ∃ err, decConfig p = .error err ∧ err.isEof = true :=
  truncated_of_roundtrip' (fun t => roundtrip_config c t h) hp hne

example : wfConfig ⟨[⟨2, [97], true, [], 0⟩, ⟨1, [98], false, [120], 1⟩], 5, 3⟩ := by decide

theorem length_encNode (n : Node) : (encNode n).length = 18 + n.addr.length + n.data.length := by
  simp [encNode]; omega

theorem length_encList_mem {α : Type} (enc : α → Bytes) (xs : List α) (x : α) (h : x ∈ xs) :
    (enc x).length ≤ (encList enc xs).length := by
  induction xs with
  | nil => simp at h
  | cons y ys ih =>
    simp only [encList, List.length_append]
    rcases List.mem_cons.mp h with h | h
    · subst h; omega
    · have := ih h; omega

theorem length_encList_ge {α : Type} (enc : α → Bytes) (xs : List α)
    (h : ∀ x, 1 ≤ (enc x).length) : xs.length ≤ (encList enc xs).length := by
  induction xs with
  | nil => simp
  | cons y ys ih =>
    simp only [encList, List.length_append, List.length_cons]
    have := h y; omega

/-- the guard of `roundtrip_config` is exactly: the encoded node list fits the `uint32`
length prefix of the entry that carries it. -/
theorem wfConfig_iff (c : Config) : wfConfig c ↔ (configData c).length < 2 ^ 32 := by
  constructor
  · exact fun h => h.2.2
  · intro h
    have hl : (configData c).length = 4 + (encList encNode c.nodes).length := by
      simp [configData]
    refine ⟨?_, ?_, h⟩
    · have := length_encList_ge encNode c.nodes (fun n => by rw [length_encNode]; omega)
      omega
    · intro n hn
      have := length_encList_mem encNode c.nodes n hn
      rw [length_encNode] at this
      unfold wfNode
      omega
/-- A Go map whose keys are the node ids has a unique id-sorted listing `c.nodes`; whatever
iteration order `order` the encoder happens to use, decoding returns exactly `c`. -/
theorem roundtrip_config_map (c : Config) (order : List Node) (tail : Bytes)
    (hs : SortedBy Node.id c.nodes) (hp : order.Perm c.nodes)
    (h : wfConfig { c with nodes := order }) :
    decConfig (encConfig { c with nodes := order } ++ tail) = .ok (c, tail) := by
  rw [roundtrip_config _ _ h]
  simp [canonConfig, canonNodes, canonKeyed_perm_sorted Node.id c.nodes order hs hp]

/-- `canonConfig` is a canonical form: idempotent, and the identity on id-sorted configs. -/
theorem canonConfig_idem (c : Config) : canonConfig (canonConfig c) = canonConfig c := by
  simp [canonConfig, canonNodes, canonKeyed_idem]

theorem canonConfig_of_sorted (c : Config) (hs : SortedBy Node.id c.nodes) :
    canonConfig c = c := by
  simp [canonConfig, canonNodes, canonKeyed_of_sorted Node.id c.nodes hs]

example : SortedBy Node.id [(⟨1, [98], false, [120], 1⟩ : Node), ⟨2, [97], true, [], 0⟩] := by
  unfold SortedBy; decide

theorem roundtrip_installSnapReq (r : InstallSnapReq) (tail : Bytes)
    (h : wfInstallSnapReq r) :
    decInstallSnapReq (encInstallSnapReq r ++ tail) = .ok (canonInstallSnapReq r, tail) := by
  unfold wfInstallSnapReq at h
  simp [decInstallSnapReq, encInstallSnapReq, bind_run, pure_run, roundtrip_req,
    roundtrip_config, h, canonInstallSnapReq]

theorem truncated_installSnapReq (r : InstallSnapReq) (h : wfInstallSnapReq r) (p : Bytes)
    (hp : p <+: encInstallSnapReq r) (hne : p ≠ encInstallSnapReq r) :
    ∃ err, decInstallSnapReq p = .error err ∧ err.isEof = true :=
  truncated_of_roundtrip' (fun t => roundtrip_installSnapReq r t h) hp hne

example : wfInstallSnapReq ⟨⟨3, 1⟩, 10, 2, ⟨[⟨1, [97], true, [], 0⟩], 5, 2⟩, 9223372036854775808⟩ := by
  decide

/-! ## responses -/

theorem roundtrip_resp (r : Resp) (tail : Bytes) (h : wfResp r) :
    decResp (encResp r ++ tail) = .ok (canonResp r, tail) := by
  unfold wfResp at h
  by_cases hr : r.result = unexpectedErr
  · obtain ⟨e, he, h1, h2⟩ := h hr
    simp [decResp, encResp, bind_run, pure_run, hr, he, encRespErr, h1, h2, canonResp,
      canonRespErr]
  · simp [decResp, encResp, bind_run, pure_run, hr, canonResp]

theorem truncated_resp (r : Resp) (h : wfResp r) (p : Bytes) (hp : p <+: encResp r)
    (hne : p ≠ encResp r) : ∃ err, decResp p = .error err ∧ err.isEof = true :=
  truncated_of_roundtrip' (fun t => roundtrip_resp r t h) hp hne

example : wfResp ⟨4, 11, some (.op [76, 111, 103] [98, 97, 100])⟩ := by decide
example : wfResp ⟨4, 1, none⟩ := by decide

/-- outside the guard the real encoder panics (nil error with `unexpectedErr`). -/
example : ¬ wfResp ⟨4, 11, none⟩ ∧ respEncPanics ⟨4, 11, none⟩ = true := by decide

theorem roundtrip_appendResp (r : AppendResp) (tail : Bytes) (h : wfAppendResp r) :
    decAppendResp (encAppendResp r ++ tail) = .ok (canonAppendResp r, tail) := by
  unfold wfAppendResp at h
  simp [decAppendResp, encAppendResp, bind_run, pure_run, roundtrip_resp, h, canonAppendResp]

theorem truncated_appendResp (r : AppendResp) (h : wfAppendResp r) (p : Bytes)
    (hp : p <+: encAppendResp r) (hne : p ≠ encAppendResp r) :
    ∃ err, decAppendResp p = .error err ∧ err.isEof = true :=
  truncated_of_roundtrip' (fun t => roundtrip_appendResp r t h) hp hne

example : wfAppendResp ⟨⟨4, 11, some (.plain [98, 97, 100])⟩, 77⟩ := by decide

/-! ## snapshotMeta -/

theorem roundtrip_snapshotMeta (m : SnapshotMeta) (tail : Bytes) (h : wfSnapshotMeta m) :
    decSnapshotMeta (encSnapshotMeta m ++ tail) = .ok (canonSnapshotMeta m, tail) := by
  unfold wfSnapshotMeta at h
  simp [decSnapshotMeta, encSnapshotMeta, bind_run, pure_run, roundtrip_config, h,
    canonSnapshotMeta]

theorem truncated_snapshotMeta (m : SnapshotMeta) (h : wfSnapshotMeta m) (p : Bytes)
    (hp : p <+: encSnapshotMeta m) (hne : p ≠ encSnapshotMeta m) :
    ∃ err, decSnapshotMeta p = .error err ∧ err.isEof = true :=
  truncated_of_roundtrip' (fun t => roundtrip_snapshotMeta m t h) hp hne

example : wfSnapshotMeta ⟨10, 2, ⟨[⟨1, [97], true, [], 0⟩], 5, 2⟩, 4096⟩ := by decide

/-! ## Replication, Info -/

theorem roundtrip_replication (r : Replication) (tail : Bytes) (h : wfReplication r) :
    decReplication (encReplication r ++ tail) = .ok (canonReplication r, tail) := by
  unfold wfReplication at h
  simp [decReplication, encReplication, bind_run, pure_run, h, canonReplication]
  cases hu : r.unreachable with
  | none => simp
  | some v => by_cases hv : v = 0 <;> simp [hv]

theorem truncated_replication (r : Replication) (h : wfReplication r) (p : Bytes)
    (hp : p <+: encReplication r) (hne : p ≠ encReplication r) :
    ∃ err, decReplication p = .error err ∧ err.isEof = true :=
  truncated_of_roundtrip' (fun t => roundtrip_replication r t h) hp hne

example : wfReplication ⟨2, 10, some 1700000000000000000, some [120], [120], 3⟩ := by decide

/-- the documented corner: `Unreachable` at exactly the Unix epoch comes back as nil, and
`Err` is carried only through `ErrMessage`. -/
theorem replication_epoch_counterexample :
    ∃ r : Replication, wfReplication r ∧
      decReplication (encReplication r) ≠ .ok (r, []) := by
  refine ⟨⟨1, 1, some 0, none, [], 0⟩, by decide, ?_⟩
  rw [← List.append_nil (encReplication _), roundtrip_replication _ _ (by decide)]
  simp [canonReplication]

theorem roundtrip_info (i : Info) (tail : Bytes) (h : wfInfo i) :
    decInfo (encInfo i ++ tail) = .ok (canonInfo i, tail) := by
  obtain ⟨h1, h2, h3, h4, h5⟩ := h
  have hl := decList_enc decReplication encReplication canonReplication i.followers tail
    (fun r hr t => roundtrip_replication r t (h5 r hr))
  simp [decInfo, encInfo, bind_run, pure_run, roundtrip_config, h1, h2, h3, h4, hl, canonInfo]

theorem truncated_info (i : Info) (h : wfInfo i) (p : Bytes) (hp : p <+: encInfo i)
    (hne : p ≠ encInfo i) : ∃ err, decInfo p = .error err ∧ err.isEof = true :=
  truncated_of_roundtrip' (fun t => roundtrip_info i t h) hp hne

example : wfInfo ⟨1, 2, [97], 3, 76, 2, 0, 1, 9, 3, 8, 8,
    ⟨[⟨2, [97], true, [], 0⟩], 1, 1⟩, ⟨[⟨2, [97], true, [], 0⟩, ⟨3, [98], false, [], 1⟩], 5, 3⟩,
    [⟨3, 7, none, none, [], 1⟩]⟩ := by decide

/-! ## task responses -/

theorem nm_facts :
    nmNotLeader ≠ [] ∧ nmPlain ≠ [] ∧ nmTemporary ≠ [] ∧ nmInProgress ≠ [] ∧
    nmPlain ≠ nmNotLeader ∧ nmTemporary ≠ nmNotLeader ∧ nmInProgress ≠ nmNotLeader ∧
    nmTemporary ≠ nmPlain ∧ nmInProgress ≠ nmPlain ∧ nmInProgress ≠ nmTemporary ∧
    nmNotLeader.length < 2 ^ 32 ∧ nmPlain.length < 2 ^ 32 ∧ nmTemporary.length < 2 ^ 32 ∧
    nmInProgress.length < 2 ^ 32 := by decide

theorem roundtrip_taskErr (typ : UInt8) (e : TaskErr) (tail : Bytes) (h : wfTaskErr e) :
    decTaskResp typ (encTaskResp (.err e) ++ tail) = .ok (.err (canonTaskErr e), tail) := by
  obtain ⟨a1, a2, a3, a4, b1, b2, b3, b4, b5, b6, l1, l2, l3, l4⟩ := nm_facts
  cases e with
  | notLeader n lost =>
    simp [wfTaskErr] at h
    simp [decTaskResp, encTaskResp, encTaskErr, bind_run, pure_run, l1, a1, roundtrip_node, h,
      canonTaskErr]
  | plain s =>
    simp [wfTaskErr] at h
    simp [decTaskResp, encTaskResp, encTaskErr, bind_run, pure_run, l2, a2, b1, h, canonTaskErr]
  | temporary s =>
    simp [wfTaskErr] at h
    simp [decTaskResp, encTaskResp, encTaskErr, bind_run, pure_run, l3, a3, b2, b4, h,
      canonTaskErr]
  | inProgress s =>
    simp only [wfTaskErr] at h
    simp [decTaskResp, encTaskResp, encTaskErr, bind_run, pure_run, l4, a4, b3, b5, b6, h,
      canonTaskErr]
  | other tn text =>
    obtain ⟨c0, c1, c2, c3, c4, c5, c6⟩ := h
    simp [decTaskResp, encTaskResp, encTaskErr, bind_run, pure_run, c0, c1, c2, c3, c4, c5, c6,
      canonTaskErr]

theorem roundtrip_taskResp (typ : UInt8) (r : TaskResult) (tail : Bytes)
    (h : wfTaskResult typ r) :
    decTaskResp typ (encTaskResp r ++ tail) = .ok (canonTaskResult r, tail) := by
  obtain ⟨hc, hw⟩ := h
  have e0 : decBytes (encBytes [] ++ tail) = .ok ([], tail) := decBytes_enc [] tail (by decide)
  cases r with
  | err e => exact roundtrip_taskErr typ e tail hw
  | none =>
    simp [taskCompat] at hc
    rcases hc with hc | hc <;> subst hc <;>
    simp [decTaskResp, encTaskResp, bind_run, pure_run, canonTaskResult, taskInfo, taskWaitForStableConfig, taskChangeConfig, taskTransferLdr]
  | index v =>
    simp [taskCompat] at hc
    subst hc
    simp [decTaskResp, encTaskResp, bind_run, pure_run, canonTaskResult, taskInfo, taskWaitForStableConfig, taskChangeConfig, taskTransferLdr, taskTakeSnapshot]
  | config c =>
    simp [taskCompat] at hc
    subst hc
    simp at hw
    simp [decTaskResp, encTaskResp, bind_run, pure_run, canonTaskResult, taskInfo, taskWaitForStableConfig, roundtrip_config, hw]
  | info i =>
    simp [taskCompat] at hc
    subst hc
    simp at hw
    simp [decTaskResp, encTaskResp, bind_run, pure_run, canonTaskResult, roundtrip_info, hw]
theorem truncated_taskResp (typ : UInt8) (r : TaskResult) (h : wfTaskResult typ r) (p : Bytes)
    (hp : p <+: encTaskResp r) (hne : p ≠ encTaskResp r) :
    ∃ err, decTaskResp typ p = .error err ∧ err.isEof = true :=
  truncated_of_roundtrip' (fun t => roundtrip_taskResp typ r t h) hp hne

example : wfTaskResult taskTakeSnapshot (.index 18446744073709551615) := by decide
example : wfTaskResult taskInfo (.err (.notLeader ⟨2, [97], true, [], 0⟩ true)) := by decide
example : wfTaskResult taskTransferLdr
    (.err (.other (ascii ['r','a','f','t','.','T','i','m','e','o','u','t','E','r','r','o','r'])
      [120, 121])) := by decide
example : wfTaskResult taskWaitForStableConfig (.config ⟨[⟨2, [97], true, [], 0⟩], 5, 3⟩) := by
  decide

/-- the wrapping is injective, so the original name is still recoverable by a client. -/
theorem inProgressText_injective (s s' : Bytes) (h : inProgressText s = inProgressText s') :
    s = s' := by
  unfold inProgressText at h
  simp only [List.append_assoc, List.append_cancel_left_eq] at h
  exact List.append_cancel_right h

theorem taskresp_recognisable : taskresp_recognisable_statement :=
  ⟨fun typ tail =>
    ⟨fun n lost h => roundtrip_taskErr typ (.notLeader n lost) tail h,
     fun s h => roundtrip_taskErr typ (.plain s) tail h,
     fun s h => roundtrip_taskErr typ (.temporary s) tail h,
     fun s h => roundtrip_taskErr typ (.inProgress s) tail h,
     fun tn text h => roundtrip_taskErr typ (.other tn text) tail h⟩,
   inProgressText_injective⟩

example : wfTaskErr (.inProgress [116, 97, 107, 101]) := by decide
example : wfTaskErr (.notLeader ⟨2, [97], true, [], 0⟩ true) := by decide

/-- Remark (not a violation of the property, which asks for kind OR equality):
`InProgressError("x")` comes back as `InProgressError("raft: another x in progress")`, a
different value of the same kind. -/
theorem inProgress_not_equal_remark :
    decTaskResp taskTakeSnapshot (encTaskResp (.err (.inProgress [120])))
      = .ok (.err (.inProgress (inProgressText [120])), []) ∧
    inProgressText [120] ≠ [120] := by
  constructor
  · have := roundtrip_taskErr taskTakeSnapshot (.inProgress [120]) [] (by decide)
    simpa [canonTaskErr] using this
  · decide

/-! ## admin requests (server.handleTask) -/

theorem roundtrip_adminBody (r : AdminReq) (tail : Bytes) (h : wfAdminReq r) :
    decAdminBody r.typ (encAdminBody r ++ tail) = .ok (canonAdminReq r, tail) := by
  cases r with
  | info => simp [decAdminBody, AdminReq.typ, encAdminBody, pure_run, canonAdminReq]
  | changeConfig c =>
    simp [wfAdminReq] at h
    simp [decAdminBody, AdminReq.typ, encAdminBody, bind_run, pure_run, canonAdminReq,
      roundtrip_config, h, taskInfo, taskChangeConfig]
  | waitForStable =>
    simp [decAdminBody, AdminReq.typ, encAdminBody, pure_run, canonAdminReq, taskInfo,
      taskChangeConfig, taskWaitForStableConfig]
  | takeSnapshot th =>
    simp [decAdminBody, AdminReq.typ, encAdminBody, bind_run, pure_run, canonAdminReq, taskInfo,
      taskChangeConfig, taskWaitForStableConfig, taskTakeSnapshot]
  | transferLdr target timeout =>
    simp [decAdminBody, AdminReq.typ, encAdminBody, bind_run, pure_run, canonAdminReq, taskInfo,
      taskChangeConfig, taskWaitForStableConfig, taskTakeSnapshot, taskTransferLdr]

theorem roundtrip_adminReq (r : AdminReq) (tail : Bytes) (h : wfAdminReq r) :
    decAdminReq (encAdminReq r ++ tail) = .ok (canonAdminReq r, tail) := by
  unfold decAdminReq encAdminReq
  rw [List.append_assoc, bind_ok (decU8_enc _ _), roundtrip_adminBody r tail h]

theorem truncated_adminReq (r : AdminReq) (h : wfAdminReq r) (p : Bytes)
    (hp : p <+: encAdminReq r) (hne : p ≠ encAdminReq r) :
    ∃ err, decAdminReq p = .error err ∧ err.isEof = true :=
  truncated_of_roundtrip' (fun t => roundtrip_adminReq r t h) hp hne

example : wfAdminReq (.changeConfig ⟨[⟨2, [97], true, [], 0⟩, ⟨3, [98], false, [], 1⟩], 5, 3⟩) := by
  decide
example : wfAdminReq (.transferLdr 2 18446744073709551615) := by decide

theorem isValidTask_typ (r : AdminReq) : isValidTask r.typ = true := by
  cases r <;> simp [AdminReq.typ] <;> decide

/-! ## the request stream -/

theorem roundtrip_msg (m : Msg) (tail : Bytes) (h : wfMsg m) :
    decMsg (encMsg m ++ tail) = .ok (canonMsg m, tail) := by
  cases m with
  | identity r =>
    simp [decMsg, encMsg, bind_run, pure_run, roundtrip_identityReq, canonMsg, isValidTask, taskInfo, taskChangeConfig, taskWaitForStableConfig, taskTakeSnapshot, taskTransferLdr]
  | vote r =>
    simp [decMsg, encMsg, bind_run, pure_run, roundtrip_voteReq, canonMsg, isValidTask, taskInfo, taskChangeConfig, taskWaitForStableConfig, taskTakeSnapshot, taskTransferLdr]
  | append hd es =>
    obtain ⟨h1, h2⟩ := h
    have hl := decList_enc decEntry encEntry id es tail (fun e he t => roundtrip_entry e t (h2 e he))
    simp [decMsg, encMsg, bind_run, pure_run, roundtrip_appendReq, canonMsg, isValidTask, taskInfo, taskChangeConfig, taskWaitForStableConfig, taskTakeSnapshot, taskTransferLdr, h1, hl]
  | installSnap hd body =>
    obtain ⟨h1, h2⟩ := h
    simp [decMsg, encMsg, bind_run, pure_run, roundtrip_installSnapReq, h1, canonMsg, isValidTask, taskInfo, taskChangeConfig, taskWaitForStableConfig, taskTakeSnapshot, taskTransferLdr, copyN_append' body tail h2, canonInstallSnapReq]
  | timeoutNow r =>
    simp [decMsg, encMsg, bind_run, pure_run, roundtrip_timeoutNowReq, canonMsg, isValidTask, taskInfo, taskChangeConfig, taskWaitForStableConfig, taskTakeSnapshot, taskTransferLdr]
  | admin r =>
    simp only [wfMsg] at h
    simp [decMsg, encMsg, encAdminReq, bind_run, pure_run, isValidTask_typ, roundtrip_adminBody r tail h, canonMsg]

theorem stream_framed : stream_framed_statement := by
  intro pre post tail h
  unfold encStream
  rw [encList_append, List.append_assoc]
  exact decList_enc decMsg encMsg canonMsg pre _ (fun m hm t => roundtrip_msg m t (h m hm))

example : ∀ m ∈ [Msg.append ⟨⟨3, 1⟩, 10, 2, 9, 2⟩ [⟨11, 3, 2, [1, 2]⟩, ⟨12, 3, 6, []⟩],
                 Msg.installSnap ⟨⟨3, 1⟩, 10, 2, ⟨[⟨1, [97], true, [], 0⟩], 5, 2⟩, 3⟩ [7, 8, 9],
                 Msg.vote ⟨⟨4, 2⟩, 12, 3, true⟩,
                 Msg.admin (.transferLdr 2 1000000000)], wfMsg m := by decide

/-- the special case "whole stream, then the tail". -/
theorem stream_framed_all (ms : List Msg) (tail : Bytes) (h : ∀ m ∈ ms, wfMsg m) :
    decList decMsg ms.length (encStream ms ++ tail) = .ok (ms.map canonMsg, tail) := by
  have := stream_framed ms [] tail h
  simpa [encStream, encList] using this

/-- a truncated message in a stream is an error, never a (shorter) message. -/
theorem truncated_msg (m : Msg) (h : wfMsg m) (p : Bytes) (hp : p <+: encMsg m)
    (hne : p ≠ encMsg m) : ∃ err, decMsg p = .error err ∧ err.isEof = true :=
  truncated_of_roundtrip' (fun t => roundtrip_msg m t h) hp hne

/-- pipelined responses (what the replication goroutine reads back) stay framed too. -/
theorem stream_framed_resps (pre post : List AppendResp) (tail : Bytes)
    (h : ∀ r ∈ pre, wfAppendResp r) :
    decList decAppendResp pre.length (encList encAppendResp (pre ++ post) ++ tail)
      = .ok (pre.map canonAppendResp, encList encAppendResp post ++ tail) := by
  rw [encList_append, List.append_assoc]
  exact decList_enc decAppendResp encAppendResp canonAppendResp pre _
    (fun r hr t => roundtrip_appendResp r t (h r hr))

/-- `isEntryBuffered` answers exactly "would `entry.decode` succeed on the buffered bytes". -/
theorem isEntryBuffered_spec (buf : Bytes) : isEntryBuffered buf = isOk (decEntry buf) :=
  isEntryBuffered_iff buf

/-! ## value files -/

/-- persisted ids / terms / votes read back exactly, for every 64-bit value. -/
theorem value_file_roundtrip : value_file_roundtrip_statement := by
  intro a b
  unfold parseValue formatValue
  rw [String.toList_ofList]
  apply parseValueWith_format
  · rw [parseUint64_toDigits _ a.toNat_lt, UInt64.ofNat_toNat]
  · rw [parseUint64_toDigits _ b.toNat_lt, UInt64.ofNat_toNat]

/-- Historical note, PRE-FIX behaviour only (`parseValueSigned` = the `strconv.ParseInt`
reader that `openValue` used before commit 7ef5cca): values below 2^63 read back … -/
theorem value_file_signed_roundtrip (a b : UInt64) (ha : a.toNat < 2 ^ 63)
    (hb : b.toNat < 2 ^ 63) : parseValueSigned (formatValue a b) = .ok (a, b) := by
  unfold parseValueSigned formatValue
  rw [String.toList_ofList]
  apply parseValueWith_format
  · rw [parseInt64_toDigits _ ha, UInt64.ofNat_toNat]
  · rw [parseInt64_toDigits _ hb, UInt64.ofNat_toNat]

example : (9223372036854775807 : UInt64).toNat < 2 ^ 63 := by decide

/-- … and 2^63 did not (PRE-FIX behaviour; the replay `corpus/valuefile-ge-2^63.json` is the
same witness and must now pass on the repaired code). -/
theorem value_file_signed_counterexample :
    parseValueSigned (formatValue 9223372036854775808 1) = .error .invalid := by
  unfold parseValueSigned formatValue
  rw [String.toList_ofList]
  simp [formatValueChars, toDigits, digitChar, parseValueWith, splitDash, parseInt64, ofDigits,
    ofDigitsAux, digitVal]

/-! ## the bundle -/

theorem C18_codecs : codecs_statement := by
  have e1 : RoundTrips encEntry decEntry id wfEntry := fun x t h => roundtrip_entry x t h
  have e2 : RoundTrips encReq decReq id (fun _ => True) := fun x t _ => roundtrip_req x t
  have e3 : RoundTrips encIdentityReq decIdentityReq id (fun _ => True) :=
    fun x t _ => roundtrip_identityReq x t
  have e4 : RoundTrips encVoteReq decVoteReq id (fun _ => True) :=
    fun x t _ => roundtrip_voteReq x t
  have e5 : RoundTrips encAppendReq decAppendReq id (fun _ => True) :=
    fun x t _ => roundtrip_appendReq x t
  have e6 : RoundTrips encInstallSnapReq decInstallSnapReq canonInstallSnapReq
    wfInstallSnapReq := fun x t h => roundtrip_installSnapReq x t h
  have e7 : RoundTrips encTimeoutNowReq decTimeoutNowReq id (fun _ => True) :=
    fun x t _ => roundtrip_timeoutNowReq x t
  have e8 : RoundTrips encResp decResp canonResp wfResp := fun x t h => roundtrip_resp x t h
  have e9 : RoundTrips encAppendResp decAppendResp canonAppendResp wfAppendResp :=
    fun x t h => roundtrip_appendResp x t h
  have e10 : RoundTrips encNode decNode id wfNode := fun x t h => roundtrip_node x t h
  have e11 : RoundTrips encConfig decConfig canonConfig wfConfig :=
    fun x t h => roundtrip_config x t h
  have e12 : RoundTrips encSnapshotMeta decSnapshotMeta canonSnapshotMeta wfSnapshotMeta :=
    fun x t h => roundtrip_snapshotMeta x t h
  have e13 : RoundTrips encReplication decReplication canonReplication wfReplication :=
    fun x t h => roundtrip_replication x t h
  have e14 : RoundTrips encInfo decInfo canonInfo wfInfo := fun x t h => roundtrip_info x t h
  have e15 : ∀ typ, RoundTrips encTaskResp (decTaskResp typ) canonTaskResult
    (wfTaskResult typ) := fun typ x t h => roundtrip_taskResp typ x t h
  have e16 : RoundTrips encAdminReq decAdminReq canonAdminReq wfAdminReq :=
    fun x t h => roundtrip_adminReq x t h
  exact ⟨⟨e1, .of_roundTrips e1⟩, ⟨e2, .of_roundTrips e2⟩, ⟨e3, .of_roundTrips e3⟩,
    ⟨e4, .of_roundTrips e4⟩, ⟨e5, .of_roundTrips e5⟩, ⟨e6, .of_roundTrips e6⟩,
    ⟨e7, .of_roundTrips e7⟩, ⟨e8, .of_roundTrips e8⟩, ⟨e9, .of_roundTrips e9⟩,
    ⟨e10, .of_roundTrips e10⟩, ⟨e11, .of_roundTrips e11⟩, ⟨e12, .of_roundTrips e12⟩,
    ⟨e13, .of_roundTrips e13⟩, ⟨e14, .of_roundTrips e14⟩,
    fun typ => ⟨e15 typ, .of_roundTrips (e15 typ)⟩, ⟨e16, .of_roundTrips e16⟩⟩

/-- C18 — every encoding round-trips and stays framed, task responses are recognisable,
value files read back every 64-bit value. -/
theorem C18 : C18_statement :=
  ⟨C18_codecs, stream_framed, taskresp_recognisable, value_file_roundtrip⟩

end RaftVerif.C18

open RaftVerif.C18

#print axioms roundtrip_entry
#print axioms truncated_entry
#print axioms roundtrip_req
#print axioms truncated_req
#print axioms roundtrip_identityReq
#print axioms truncated_identityReq
#print axioms roundtrip_voteReq
#print axioms truncated_voteReq
#print axioms roundtrip_appendReq
#print axioms truncated_appendReq
#print axioms roundtrip_installSnapReq
#print axioms truncated_installSnapReq
#print axioms roundtrip_timeoutNowReq
#print axioms truncated_timeoutNowReq
#print axioms roundtrip_resp
#print axioms truncated_resp
#print axioms roundtrip_appendResp
#print axioms truncated_appendResp
#print axioms roundtrip_node
#print axioms truncated_node
#print axioms roundtrip_config
#print axioms truncated_config
#print axioms wfConfig_iff
#print axioms roundtrip_config_map
#print axioms canonConfig_idem
#print axioms canonConfig_of_sorted
#print axioms roundtrip_snapshotMeta
#print axioms truncated_snapshotMeta
#print axioms roundtrip_replication
#print axioms truncated_replication
#print axioms replication_epoch_counterexample
#print axioms roundtrip_info
#print axioms truncated_info
#print axioms roundtrip_taskResp
#print axioms truncated_taskResp
#print axioms roundtrip_adminReq
#print axioms truncated_adminReq
#print axioms roundtrip_msg
#print axioms truncated_msg
#print axioms stream_framed
#print axioms stream_framed_all
#print axioms stream_framed_resps
#print axioms isEntryBuffered_spec
#print axioms inProgressText_injective
#print axioms taskresp_recognisable
#print axioms inProgress_not_equal_remark
#print axioms value_file_roundtrip
#print axioms value_file_signed_roundtrip
#print axioms value_file_signed_counterexample
#print axioms C18_codecs
#print axioms C18
