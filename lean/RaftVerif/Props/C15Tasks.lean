/-
C15 (second half) / C07 — every submitted task completes exactly once: the ledger of client tasks, for EVERY
operation and every run of one node.

A task is a non-zero `Nat` id (0 = internal, no client).  It is *answered* when a `Reply` carrying its id is
recorded (`answered s`: the answers of the last step — `Node.begin` clears them), and it is *pending* while it
waits in the leader queue, the wait list of `WaitForStableConfig`, the transfer in progress, the snapshot request
or the undelivered snapshot result (`pending s`).  `submitted op` are the ids an operation brings in.

* `TasksOK s` — the ledger invariant: `pending s` has no duplicates; an idle transfer carries no task; a snapshot
  request and an undelivered result never coexist; nothing waits in the leader places of a node that is not leader.
* `task_step_count` (unconditional accounting, every op, oracle and input): unless the step failed, for every id
  `t ≠ 0` the occurrences of `t` in `answered s' ++ pending s'` are those in `submitted op ++ pending s`, plus `m`
  extra ones ONLY for the task of a ChangeConfig request handled by a leader (`m + 1` = the number of configuration
  changes the request got attached to).  So no task is ever lost, none appears from nowhere, and every task except
  possibly that one is conserved exactly.  `TasksOK`'s structural part is preserved.
* `task_step` — (a) answers only for known tasks, (b) no id answered twice in the step, (c) `submitted op ++
  pending s` is a permutation of `answered s' ++ pending s'` (answered or pending, never both, never lost),
  (d) `TasksOK s'` — for EVERY operation, under: fresh ids, no failure, and `CCOk`: a ChangeConfig request handled by
  a leader carries no action (`NoAct`), or comes with the two-anchor conditions (`TwoOK`).
  `task_step_two`: from `C15NoPanic.Good true` + `ReqOk' true` alone (two stable voters): no failure, no `CCOk`.
  `task_step_partial`: the general form with `Once` (the ChangeConfig task of a leader occurs at most once afterwards)
  as an ASSUMPTION — the only case not derived: a request with actions in a cluster with a single stable voter.
* `task_run`, `task_run_two`, `task_run_partial` — over any list of operations: `submittedRun ++ pending s ~
  answeredRun ++ pending (final)`: every submitted task has been answered at most once and is either answered or
  still pending; `shutdown_pending_nil`, `task_run_shutdown(_two)`: after `Shutdown` nothing is pending, so every
  task was answered EXACTLY once.
* `task_step_good`, `task_run_good`: the "no failure" hypothesis discharged by `C15NoPanic.Good` (any `T`).
* `definite_rejection_step` (C07): entries submitted to a non-leader change nothing but the answers.
* necessity examples for each hypothesis.
-/
import RaftVerif.Lemmas.TaskLedger
import RaftVerif.Props.C15NoPanic

namespace Raft
namespace C15Tasks
open Node TL

/-! ### definitions -/

/-- the ids waiting in the pending places, 0 included -/
def pendRaw (s : Node) : List Nat :=
  s.ldr.queue.map (·.task) ++ (s.ldr.waitStable ++ (s.ldr.transfer.task ::
    ((s.snapPending.map (·.task)).toList ++ (s.snapResult.map (·.task)).toList)))

/-- **pending tasks**: the non-zero ids waiting in the leader queue, the wait list, the transfer in progress, the
snapshot request and the undelivered snapshot result -/
def pending (s : Node) : List Nat := (pendRaw s).filter (· ≠ 0)

/-- **answered tasks**: the ids of the completions recorded by the last step -/
def answered (s : Node) : List Nat := (s.replies.map (·.task)).filter (· ≠ 0)

/-- **submitted tasks**: the ids an operation brings in -/
def submitted (op : Op) : List Nat := (submittedRaw op).filter (· ≠ 0)

/-- **the ledger invariant** -/
structure TasksOK (s : Node) : Prop where
  /-- an idle transfer carries no task; a snapshot request and an undelivered result never coexist -/
  ok : OK s
  /-- nothing waits in the leader places of a node that is not leader -/
  quiet : s.role ≠ .leader → Quiet s
  /-- no task waits twice -/
  nodup : (pending s).Nodup

instance (s : Node) : Decidable (TasksOK s) :=
  decidable_of_iff (OK s ∧ (s.role ≠ .leader → Quiet s) ∧ (pending s).Nodup)
    ⟨fun h => ⟨h.1, h.2.1, h.2.2⟩, fun h => ⟨h.ok, h.quiet, h.nodup⟩⟩

/-- the ids an operation submits are non-zero-distinct and wait nowhere yet -/
def Fresh (s : Node) (op : Op) : Prop := (submitted op).Nodup ∧ ∀ t ∈ submitted op, t ∉ pending s

/-- the task of a ChangeConfig request handled by a leader occurs at most once after the step (it is answered
once, or attached to one configuration entry).  Trivially true for every other operation. -/
def Once (s : Node) (op : Op) (s' : Node) : Prop :=
  ∀ task c, op = .changeConfig task c → s.role = .leader → task ≠ 0 → (answered s' ++ pending s').count task ≤ 1

/-! ### counting -/

theorem count_nz (l : List Nat) (t : Nat) (ht : t ≠ 0) : (l.filter (· ≠ 0)).count t = l.count t :=
  List.count_filter (by simpa using ht)

theorem count_nz_zero (l : List Nat) : (l.filter (· ≠ 0)).count 0 = 0 :=
  List.count_eq_zero.mpr (by simp [List.mem_filter])

theorem count_optList {α : Type} (f : α → Nat) (o : Option α) (t : Nat) :
    ((o.map f).toList).count t = optCount f o t := by
  cases o with
  | none => rfl
  | some x => exact count_singleton' (f x) t

theorem count_pendRaw (s : Node) (t : Nat) : (pendRaw s).count t = pendCount t s := by
  unfold pendRaw pendCount cQ cW cT cP cR
  rw [List.count_append, List.count_append, List.count_cons, List.count_append, count_optList, count_optList]
  unfold ind
  simp only [beq_iff_eq]
  omega

theorem count_pending (s : Node) (t : Nat) (ht : t ≠ 0) : (pending s).count t = pendCount t s := by
  unfold pending; rw [count_nz _ _ ht, count_pendRaw]

theorem count_answered (s : Node) (t : Nat) (ht : t ≠ 0) : (answered s).count t = cA t s := by
  unfold answered; rw [count_nz _ _ ht]; rfl

theorem count_after (s : Node) (t : Nat) (ht : t ≠ 0) : (answered s ++ pending s).count t = led t s := by
  rw [List.count_append, count_answered _ _ ht, count_pending _ _ ht]; rfl

/-! ### one step -/

/-- **task_step_count — the unconditional accounting.**  For EVERY operation, oracle and input, from a state
with `TasksOK`'s structural part (`OK`, `Quiet` for non-leaders): the structural part holds again after the step,
and unless the step failed, for every id `t ≠ 0` there is `m` with
`count t (answered s' ++ pending s') = count t (submitted op ++ pending s) + m * ccInd s op t`,
where `ccInd s op t = 1` iff `op` is a ChangeConfig request with task `t` and `s` is leader, else `0`.
Hence: every submitted or pending task is afterwards answered or pending (never lost); an id that is neither
submitted nor pending is neither answered nor pending afterwards (no answer from nowhere); and every id other than
a leader's ChangeConfig task keeps its multiplicity exactly. -/
theorem task_step_count (s : Node) (op : Op) (rollAt : List Nat) (orders : List (List Nat))
    (ho : OK s) (hq : s.role ≠ .leader → Quiet s) :
    OK (s.step op rollAt orders) ∧ ((s.step op rollAt orders).role ≠ .leader → Quiet (s.step op rollAt orders)) ∧
    ((s.step op rollAt orders).panicked = none → ∀ t, t ≠ 0 → ∃ m,
      (answered (s.step op rollAt orders) ++ pending (s.step op rollAt orders)).count t =
        (submitted op ++ pending s).count t + m * ccInd s op t) := by
  refine ⟨(step_rel 1 (by omega) s op rollAt orders ho hq).1, (step_rel 1 (by omega) s op rollAt orders ho hq).2.1,
    fun hp t ht => ?_⟩
  obtain ⟨_, _, m, hm⟩ := step_rel t ht s op rollAt orders ho hq
  refine ⟨m, ?_⟩
  rw [count_after _ _ ht, hm hp, List.count_append, count_pending _ _ ht]
  unfold submitted; rw [count_nz _ _ ht]
  omega

theorem ccInd_le (s : Node) (op : Op) (t : Nat) : ccInd s op t ≤ 1 := by
  unfold ccInd ind
  repeat' split
  all_goals omega

/-- `Once` costs nothing unless a leader handles a ChangeConfig request -/
theorem once_of_not_leaderChange (s : Node) (op : Op) (s' : Node)
    (h : ∀ task c, op = .changeConfig task c → s.role ≠ .leader) : Once s op s' :=
  fun task c e hl _ => absurd hl (h task c e)

/-- **task_step_partial.**  With `s' = s.step op …` (any oracle, any input), from `TasksOK s`, for fresh submitted
ids, if the step did not fail and `Once` holds:
(c) `submitted op ++ pending s` is a permutation of `answered s' ++ pending s'`: every task that was submitted or
    pending is afterwards EITHER answered OR pending — never both, never lost, and nothing else is;
(a) every answer of the step (with a non-zero id) is for a task that was pending or is submitted by `op`;
(b) no id is answered twice within the step; an answered id is not pending afterwards;
(d) `TasksOK s'`.
PARTIAL: `Once` is an assumption about the outcome. It is derived here for every operation other than a
ChangeConfig request handled by a leader (`once_of_not_leaderChange`) and for ChangeConfig requests without
actions (`once_of_stable`) — see `task_step`. For a ChangeConfig request WITH promote/demote/remove actions it is
not derived (it is false in unreachable states, see the example with `exO`; for reachable states it would need the
configuration invariants of `C15NoPanic.Good` inside the leader block). Without `Once` the unconditional
`task_step_count` still gives: no task lost, no answer from nowhere, every other task conserved exactly. -/
theorem task_step_partial (s : Node) (op : Op) (rollAt : List Nat) (orders : List (List Nat))
    (hT : TasksOK s) (hF : Fresh s op) (hp : (s.step op rollAt orders).panicked = none)
    (hO : Once s op (s.step op rollAt orders)) :
    (submitted op ++ pending s).Perm (answered (s.step op rollAt orders) ++ pending (s.step op rollAt orders)) ∧
    (∀ r ∈ (s.step op rollAt orders).replies, r.task ≠ 0 → r.task ∈ submitted op ++ pending s) ∧
    (answered (s.step op rollAt orders)).Nodup ∧
    (∀ t ∈ answered (s.step op rollAt orders), t ∉ pending (s.step op rollAt orders)) ∧
    TasksOK (s.step op rollAt orders) := by
  obtain ⟨h1, h2, h3⟩ := task_step_count s op rollAt orders hT.ok hT.quiet
  have hnd : (submitted op ++ pending s).Nodup :=
    List.nodup_append.mpr ⟨hF.1, hT.nodup, fun a ha b hb e => hF.2 a ha (e ▸ hb)⟩
  have hperm : (submitted op ++ pending s).Perm
      (answered (s.step op rollAt orders) ++ pending (s.step op rollAt orders)) := by
    rw [List.perm_iff_count]
    intro t
    by_cases ht : t = 0
    · subst ht
      unfold submitted pending answered
      simp only [List.count_append, count_nz_zero]
    · obtain ⟨m, hm⟩ := h3 hp t ht
      rw [hm]
      by_cases hc : ccInd s op t = 0
      · rw [hc]; omega
      · -- `t` is the task of a ChangeConfig request handled by a leader
        have hc1 : ccInd s op t = 1 := by have := ccInd_le s op t; omega
        have : m = 0 := by
          cases op <;> try (exact absurd rfl hc)
          case changeConfig task c =>
            have hcc := hc1
            unfold ccInd at hc1
            dsimp only at hc1
            by_cases hl : s.role = .leader
            · rw [if_pos hl] at hc1
              have e : task = t := by
                unfold ind at hc1; split at hc1
                · assumption
                · omega
              subst e
              have h1 := hO task c rfl hl ht
              have hfr : (pending s).count task = 0 :=
                List.count_eq_zero.mpr (hF.2 task (by unfold submitted submittedRaw; simp [ht]))
              have hsub : (submitted (.changeConfig task c)).count task = 1 := by
                unfold submitted submittedRaw; simp [ht]
              rw [hm, List.count_append, hfr, hsub, hcc] at h1
              omega
            · rw [if_neg hl] at hc1; omega
        rw [this]; omega
  have hnd' := hperm.nodup_iff.mp hnd
  obtain ⟨n1, n2, n3⟩ := List.nodup_append.mp hnd'
  refine ⟨hperm, fun r hr h0 => ?_, n1, fun t ht hpd => n3 t ht t hpd rfl, ⟨h1, h2, n2⟩⟩
  apply hperm.mem_iff.mpr
  apply List.mem_append_left
  unfold answered
  exact List.mem_filter.mpr ⟨List.mem_map_of_mem hr, by simpa using h0⟩

/-- **`Once` for a request without actions** (adding non-voters, changing addresses/data: every `ChangeConfig`
whose new configuration carries no promote/demote/remove action): `checkConfigActions` finds nothing to do, the
request is answered at once or attached to exactly one configuration entry. -/
theorem once_of_stable (s : Node) (task : Nat) (c : Config) (rollAt : List Nat) (orders : List (List Nat))
    (hT : TasksOK s) (hfr : task ∉ pending s) (hst : c.isStable = true)
    (hp : (s.step (.changeConfig task c) rollAt orders).panicked = none) :
    Once s (.changeConfig task c) (s.step (.changeConfig task c) rollAt orders) := by
  intro task' c' e _ h0
  injection e with e1 e2
  subst e1; subst e2
  rw [count_after _ _ h0, step_rel_stable task h0 s task c rollAt orders hT.ok hT.quiet hst hp,
    ← count_pending _ _ h0, List.count_eq_zero.mpr hfr, count_singleton']
  unfold ind; simp

/-- the operation is not a ChangeConfig request with promote/demote/remove actions handled by a leader -/
def NoAct (s : Node) (op : Op) : Prop :=
  ∀ task c, op = .changeConfig task c → s.role = .leader → c.isStable = true

instance (s : Node) (op : Op) : Decidable (NoAct s op) := by
  unfold NoAct
  cases op
  case changeConfig task c =>
    exact decidable_of_iff (s.role = .leader → c.isStable = true)
      ⟨fun h task' c' e hl => by injection e with e1 e2; subst e2; exact h hl, fun h => h task c rfl⟩
  all_goals exact isTrue (fun task c e => by cases e)

theorem once_of_noAct (s : Node) (op : Op) (rollAt : List Nat) (orders : List (List Nat))
    (hT : TasksOK s) (hF : Fresh s op) (hp : (s.step op rollAt orders).panicked = none) (h : NoAct s op) :
    Once s op (s.step op rollAt orders) := by
  intro task c e hl h0
  subst e
  exact once_of_stable s task c rollAt orders hT
    (hF.2 task (by unfold submitted submittedRaw; simp [h0])) (h task c rfl hl) hp task c rfl hl h0

/-- the two-anchor conditions for a ChangeConfig request handled by a leader: the leader's cached own entry is a
voter while its configuration is committed, the latest configuration is in the log (both hold in every
`C15NoPanic.Good` state: `twoOK_of_good`), and the request is `UserCfg true`: member ids strictly increasing, own
action defined, at least TWO voters without action (so the leader never commits alone) -/
def TwoOK (s : Node) (op : Op) : Prop :=
  ∀ task c, op = .changeConfig task c → s.role = .leader → Hs s ∧ NoPanic.UserCfg true s.nid c

/-- **`Once` with two anchors**: every configuration the request can lead to has two voters, the entry stored for it
is not committed within the call, `canChangeConfig` stays false: no second change starts with the task. -/
theorem once_of_twoOK (s : Node) (op : Op) (rollAt : List Nat) (orders : List (List Nat))
    (hT : TasksOK s) (hF : Fresh s op) (hp : (s.step op rollAt orders).panicked = none) (h : TwoOK s op) :
    Once s op (s.step op rollAt orders) := by
  intro task c e hl h0
  subst e
  have hfr : task ∉ pending s := hF.2 task (by unfold submitted submittedRaw; simp [h0])
  rw [count_after _ _ h0, step_rel_two task h0 s _ rollAt orders hT.ok hT.quiet h hp,
    ← count_pending _ _ h0, List.count_eq_zero.mpr hfr]
  show 0 + [task].count task ≤ 1
  rw [count_singleton']
  unfold ind; simp

/-- what is asked of the ChangeConfig requests a leader handles: no actions, or the two-anchor conditions.
(Vacuous for every other operation.) -/
def CCOk (s : Node) (op : Op) : Prop := NoAct s op ∨ TwoOK s op

theorem ccOk_of_other (s : Node) (op : Op) (h : ∀ task c, op = .changeConfig task c → s.role ≠ .leader) : CCOk s op :=
  Or.inl (fun task c e hl => absurd hl (h task c e))

theorem once_of_ccOk (s : Node) (op : Op) (rollAt : List Nat) (orders : List (List Nat))
    (hT : TasksOK s) (hF : Fresh s op) (hp : (s.step op rollAt orders).panicked = none) (h : CCOk s op) :
    Once s op (s.step op rollAt orders) :=
  h.elim (once_of_noAct s op rollAt orders hT hF hp) (once_of_twoOK s op rollAt orders hT hF hp)

/-- **task_step.**  With `s' = s.step op …` (any oracle, any input), from `TasksOK s`, for fresh submitted ids, if
the step did not fail, for EVERY operation; a ChangeConfig request handled by a leader must carry no action or
come with the two-anchor conditions (`CCOk`; for the others see `task_step_partial`, `task_step_count`):
(c) `submitted op ++ pending s` is a permutation of `answered s' ++ pending s'`: every task that was submitted or
    pending is afterwards EITHER answered OR pending — never both, never lost, and nothing else is;
(a) every answer of the step (with a non-zero id) is for a task that was pending or is submitted by `op`;
(b) no id is answered twice within the step; an answered id is not pending afterwards;
(d) `TasksOK s'`. -/
theorem task_step (s : Node) (op : Op) (rollAt : List Nat) (orders : List (List Nat))
    (hT : TasksOK s) (hF : Fresh s op) (hp : (s.step op rollAt orders).panicked = none) (hN : CCOk s op) :
    (submitted op ++ pending s).Perm (answered (s.step op rollAt orders) ++ pending (s.step op rollAt orders)) ∧
    (∀ r ∈ (s.step op rollAt orders).replies, r.task ≠ 0 → r.task ∈ submitted op ++ pending s) ∧
    (answered (s.step op rollAt orders)).Nodup ∧
    (∀ t ∈ answered (s.step op rollAt orders), t ∉ pending (s.step op rollAt orders)) ∧
    TasksOK (s.step op rollAt orders) :=
  task_step_partial s op rollAt orders hT hF hp (once_of_ccOk s op rollAt orders hT hF hp hN)

/-! ### shutdown -/

/-- **After `Shutdown` nothing is pending** (from any state with the ledger invariant; any oracle). -/
theorem shutdown_pending_nil (s : Node) (rollAt : List Nat) (orders : List (List Nat)) (hT : TasksOK s) :
    pending (s.step .shutdown rollAt orders) = [] := by
  rw [step_shutdown]
  have hb : OK (s.begin rollAt orders) := hT.ok
  obtain ⟨_, b, c⟩ := shutdown_rel 1 (by omega) (s.begin rollAt orders) hb
  have hq : Quiet (s.begin rollAt orders).shutdown := by
    by_cases hl : (s.begin rollAt orders).role = .leader
    · exact c hl
    · exact (Quiet.congr (hT.quiet hl) (by rfl : ldrKey (s.begin rollAt orders) = ldrKey s)).congr (b hl)
  obtain ⟨_, _, hsp, hsr, _⟩ := C15.shutdown_completes_snapshot (s.begin rollAt orders)
  unfold pending pendRaw
  rw [hq.1, hq.2.1, hq.2.2, hsp, hsr]
  rfl

/-! ### runs -/

/-- an event: an operation with its oracles -/
abbrev Ev := Op × List Nat × List (List Nat)

/-- all ids submitted during a run -/
def submittedRun : List Ev → List Nat
  | [] => []
  | e :: es => submitted e.1 ++ submittedRun es

/-- all answers recorded during a run from `s`, step after step -/
def answeredRun (s : Node) : List Ev → List Nat
  | [] => []
  | e :: es => answered (s.step e.1 e.2.1 e.2.2) ++ answeredRun (s.step e.1 e.2.1 e.2.2) es

/-- no step of the run fails; each is `CCOk`, or `Once` is assumed for it -/
def RunOK : Node → List Ev → Prop
  | _, [] => True
  | s, e :: es =>
    (s.step e.1 e.2.1 e.2.2).panicked = none ∧ (CCOk s e.1 ∨ Once s e.1 (s.step e.1 e.2.1 e.2.2)) ∧
    RunOK (s.step e.1 e.2.1 e.2.2) es

/-- no step of the run fails; the ChangeConfig requests handled by a leader are `CCOk` -/
def RunCC : Node → List Ev → Prop
  | _, [] => True
  | s, e :: es => (s.step e.1 e.2.1 e.2.2).panicked = none ∧ CCOk s e.1 ∧ RunCC (s.step e.1 e.2.1 e.2.2) es

theorem runOK_of_cc (s : Node) (evs : List Ev) (h : RunCC s evs) : RunOK s evs := by
  induction evs generalizing s with
  | nil => trivial
  | cons e es ih => exact ⟨h.1, Or.inl h.2.1, ih _ h.2.2⟩

/-- **task_run_partial.**  Over ANY list of operations (with any oracles) whose submitted ids are pairwise distinct
and not pending at the start, if no step fails (and, PARTIAL: for the ChangeConfig requests with actions handled by a
leader, `Once` is assumed — see `task_step_partial`):
`submittedRun ++ pending s` is a permutation of `answeredRun ++ pending (final state)`.  So every task submitted
during the run (or pending at its start) has been answered AT MOST ONCE over the whole run, and is EITHER answered
OR still pending at the end — never both, never lost; nothing else was answered.  `TasksOK` holds at the end. -/
theorem task_run_partial (s : Node) (evs : List Ev) (hT : TasksOK s) (hnd : (submittedRun evs).Nodup)
    (hfr : ∀ t ∈ submittedRun evs, t ∉ pending s) (hr : RunOK s evs) :
    (submittedRun evs ++ pending s).Perm (answeredRun s evs ++ pending (C19Order.run s evs)) ∧
    TasksOK (C19Order.run s evs) ∧ (answeredRun s evs).Nodup ∧
    (∀ t ∈ answeredRun s evs, t ∉ pending (C19Order.run s evs)) := by
  have main : (submittedRun evs ++ pending s).Perm (answeredRun s evs ++ pending (C19Order.run s evs)) ∧
      TasksOK (C19Order.run s evs) := by
    induction evs generalizing s with
    | nil => exact ⟨List.Perm.refl _, hT⟩
    | cons e es ih =>
      obtain ⟨hp, hO, hr'⟩ := hr
      have hnd' : (submitted e.1 ++ submittedRun es).Nodup := hnd
      obtain ⟨n1, n2, n3⟩ := List.nodup_append.mp hnd'
      have hF : Fresh s e.1 := ⟨n1, fun t ht => hfr t (List.mem_append_left _ ht)⟩
      have hO' : Once s e.1 (s.step e.1 e.2.1 e.2.2) :=
        hO.elim (fun h => once_of_ccOk s e.1 e.2.1 e.2.2 hT hF hp h) id
      obtain ⟨p1, _, _, _, hT1⟩ := task_step_partial s e.1 e.2.1 e.2.2 hT hF hp hO'
      have hfr1 : ∀ t ∈ submittedRun es, t ∉ pending (s.step e.1 e.2.1 e.2.2) := by
        intro t ht hpd
        have : t ∈ submitted e.1 ++ pending s := p1.mem_iff.mpr (List.mem_append_right _ hpd)
        rcases List.mem_append.mp this with h | h
        · exact n3 t h t ht rfl
        · exact hfr t (List.mem_append_right _ ht) h
      obtain ⟨p2, hT2⟩ := ih (s.step e.1 e.2.1 e.2.2) hT1 n2 hfr1 hr'
      refine ⟨?_, hT2⟩
      rw [List.perm_iff_count]
      intro t
      have c1 := p1.count_eq t
      have c2 := p2.count_eq t
      show (submitted e.1 ++ submittedRun es ++ pending s).count t =
        (answered (s.step e.1 e.2.1 e.2.2) ++ answeredRun (s.step e.1 e.2.1 e.2.2) es ++
          pending (C19Order.run (s.step e.1 e.2.1 e.2.2) es)).count t
      simp only [List.count_append] at c1 c2 ⊢
      omega
  obtain ⟨p, hTf⟩ := main
  have hnd0 : (submittedRun evs ++ pending s).Nodup :=
    List.nodup_append.mpr ⟨hnd, hT.nodup, fun a ha b hb e => hfr a ha (e ▸ hb)⟩
  obtain ⟨m1, _, m3⟩ := List.nodup_append.mp (p.nodup_iff.mp hnd0)
  exact ⟨p, hTf, m1, fun t ht hpd => m3 t ht t hpd rfl⟩

/-- **task_run.**  Over ANY list of operations (with any oracles; the ChangeConfig requests handled by a leader
`CCOk`), whose submitted ids are pairwise distinct and not pending at the start, if no step fails: `submittedRun ++ pending s` is a permutation of `answeredRun ++ pending (final state)`: every task submitted
during the run (or pending at its start) has been answered AT MOST ONCE over the whole run, and is EITHER answered
OR still pending at the end — never both, never lost; nothing else was answered.  `TasksOK` holds at the end. -/
theorem task_run (s : Node) (evs : List Ev) (hT : TasksOK s) (hnd : (submittedRun evs).Nodup)
    (hfr : ∀ t ∈ submittedRun evs, t ∉ pending s) (hr : RunCC s evs) :
    (submittedRun evs ++ pending s).Perm (answeredRun s evs ++ pending (C19Order.run s evs)) ∧
    TasksOK (C19Order.run s evs) ∧ (answeredRun s evs).Nodup ∧
    (∀ t ∈ answeredRun s evs, t ∉ pending (C19Order.run s evs)) :=
  task_run_partial s evs hT hnd hfr (runOK_of_cc s evs hr)

/-- **Every task is answered exactly once by the end of `Shutdown`** (PARTIAL in the sense of `task_run_partial`:
`RunOK` may assume `Once`).  A run as in `task_run_partial`, followed by a `shutdown` step that does not fail: the
tasks submitted during the run or pending at its start are — as a multiset — exactly the tasks answered during the
run or by the shutdown step: each exactly once, none lost, none left pending (`shutdown_pending_nil`). -/
theorem task_run_shutdown_partial (s : Node) (evs : List Ev) (rollAt : List Nat) (orders : List (List Nat))
    (hT : TasksOK s) (hnd : (submittedRun evs).Nodup)
    (hfr : ∀ t ∈ submittedRun evs, t ∉ pending s) (hr : RunOK s evs)
    (hp : ((C19Order.run s evs).step .shutdown rollAt orders).panicked = none) :
    (submittedRun evs ++ pending s).Perm
      (answeredRun s evs ++ answered ((C19Order.run s evs).step .shutdown rollAt orders)) ∧
    pending ((C19Order.run s evs).step .shutdown rollAt orders) = [] ∧
    (answeredRun s evs ++ answered ((C19Order.run s evs).step .shutdown rollAt orders)).Nodup := by
  obtain ⟨p, hTf, _, _⟩ := task_run_partial s evs hT hnd hfr hr
  have hF : Fresh (C19Order.run s evs) .shutdown := ⟨List.nodup_nil, fun t ht => by cases ht⟩
  obtain ⟨p2, _, _, _, _⟩ := task_step (C19Order.run s evs) .shutdown rollAt orders hTf hF hp
    (Or.inl (fun _ _ e => by cases e))
  have hnil := shutdown_pending_nil (C19Order.run s evs) rollAt orders hTf
  have hperm : (submittedRun evs ++ pending s).Perm
      (answeredRun s evs ++ answered ((C19Order.run s evs).step .shutdown rollAt orders)) := by
    rw [List.perm_iff_count]
    intro t
    have c1 := p.count_eq t
    have c2 := p2.count_eq t
    rw [hnil] at c2
    have e0 : submitted .shutdown = [] := rfl
    rw [e0] at c2
    simp only [List.count_append, List.count_nil] at c1 c2 ⊢
    omega
  have hnd0 : (submittedRun evs ++ pending s).Nodup :=
    List.nodup_append.mpr ⟨hnd, hT.nodup, fun a ha b hb e => hfr a ha (e ▸ hb)⟩
  exact ⟨hperm, hnil, hperm.nodup_iff.mp hnd0⟩

/-- **task_run_shutdown: every task is answered exactly once by the end of `Shutdown`.**  A run as in `task_run`
(`RunCC`; fresh ids; no step fails), followed by a `shutdown` step
that does not fail: the tasks submitted during the run or pending at its start are — as a multiset — exactly the
tasks answered during the run or by the shutdown step: each EXACTLY ONCE, none lost, none left pending. -/
theorem task_run_shutdown (s : Node) (evs : List Ev) (rollAt : List Nat) (orders : List (List Nat))
    (hT : TasksOK s) (hnd : (submittedRun evs).Nodup)
    (hfr : ∀ t ∈ submittedRun evs, t ∉ pending s) (hr : RunCC s evs)
    (hp : ((C19Order.run s evs).step .shutdown rollAt orders).panicked = none) :
    (submittedRun evs ++ pending s).Perm
      (answeredRun s evs ++ answered ((C19Order.run s evs).step .shutdown rollAt orders)) ∧
    pending ((C19Order.run s evs).step .shutdown rollAt orders) = [] ∧
    (answeredRun s evs ++ answered ((C19Order.run s evs).step .shutdown rollAt orders)).Nodup :=
  task_run_shutdown_partial s evs rollAt orders hT hnd hfr (runOK_of_cc s evs hr) hp

/-! ### with `C15NoPanic.Good`: the "no failure" hypothesis discharged -/

/-- `task_step` from a good state (`C15NoPanic.Good`): an open node, an acceptable operation (`ReqOk'`), the
model's recursion budget not exhausted (never the case with two anchors, `T = true`: `good_step_two`). -/
theorem task_step_good {T : Bool} (s : Node) (op : Op) (rollAt : List Nat) (orders : List (List Nat))
    (hG : NoPanic.Good T s) (hopen : s.closed = "") (hr : NoPanic.ReqOk' T s op)
    (hf : (s.step op rollAt orders).panicked ≠ some "fuel")
    (hT : TasksOK s) (hF : Fresh s op) (hN : CCOk s op) :
    (submitted op ++ pending s).Perm (answered (s.step op rollAt orders) ++ pending (s.step op rollAt orders)) ∧
    (answered (s.step op rollAt orders)).Nodup ∧ TasksOK (s.step op rollAt orders) ∧
    NoPanic.Good T (s.step op rollAt orders) := by
  have hp := C15NoPanic.good_step_noPanic s op rollAt orders hG hopen hr hf
  obtain ⟨a, _, b, _, c⟩ := task_step s op rollAt orders hT hF hp hN
  exact ⟨a, b, c, C15NoPanic.good_step s op rollAt orders hG hopen hr hf⟩

/-- the run conditions with `Good` instead of "no step fails" -/
def RunGood (T : Bool) : Node → List Ev → Prop
  | _, [] => True
  | s, e :: es =>
    s.closed = "" ∧ NoPanic.ReqOk' T s e.1 ∧ (s.step e.1 e.2.1 e.2.2).panicked ≠ some "fuel" ∧
    CCOk s e.1 ∧ RunGood T (s.step e.1 e.2.1 e.2.2) es

theorem runCC_of_good {T : Bool} (s : Node) (evs : List Ev) (hG : NoPanic.Good T s) (hr : RunGood T s evs) :
    RunCC s evs := by
  induction evs generalizing s with
  | nil => trivial
  | cons e es ih =>
    obtain ⟨h1, h2, h3, h4, h5⟩ := hr
    exact ⟨C15NoPanic.good_step_noPanic s e.1 e.2.1 e.2.2 hG h1 h2 h3, h4,
      ih _ (C15NoPanic.good_step s e.1 e.2.1 e.2.2 hG h1 h2 h3) h5⟩

/-- `task_run` from a good state -/
theorem task_run_good {T : Bool} (s : Node) (evs : List Ev) (hG : NoPanic.Good T s) (hT : TasksOK s)
    (hnd : (submittedRun evs).Nodup) (hfr : ∀ t ∈ submittedRun evs, t ∉ pending s) (hr : RunGood T s evs) :
    (submittedRun evs ++ pending s).Perm (answeredRun s evs ++ pending (C19Order.run s evs)) ∧
    TasksOK (C19Order.run s evs) ∧ (answeredRun s evs).Nodup :=
  let h := task_run s evs hT hnd hfr (runCC_of_good s evs hG hr)
  ⟨h.1, h.2.1, h.2.2.1⟩

/-! ### two anchors: everything from `Good true`, no further assumption -/

theorem voter_of_isVoter {c : Config} {id : Nat} (h : c.isVoter id = true) : (c.get id).voter = true := by
  unfold Config.isVoter at h
  unfold Config.get
  cases hf : c.find? id with
  | none => rw [hf] at h; cases h
  | some n => rw [hf] at h; exact h

/-- in a good state an open leader satisfies `Hs` -/
theorem hs_of_good {T : Bool} (s : Node) (hG : NoPanic.Good T s) (hopen : s.closed = "") (hl : s.role = .leader) :
    Hs s := by
  obtain ⟨L, C⟩ := hG.leader hopen hl
  refine ⟨fun hcm => ?_, hG.ordered.latest_le_last⟩
  rw [((LC.cache_iff s).mp C).2.1]
  exact voter_of_isVoter (L.lv hl hcm)

theorem twoOK_of_good (s : Node) (op : Op) (hG : NoPanic.Good true s) (hopen : s.closed = "")
    (hr : NoPanic.ReqOk' true s op) : TwoOK s op := by
  intro task c e hl
  subst e
  exact ⟨hs_of_good s hG hopen hl, hr.1⟩

/-- **task_step_two — one step of a node whose configurations keep two stable voters** (`Good true`, `ReqOk' true`:
every cluster that keeps two voters without pending action).  NO assumption about the outcome: the step does not
fail (`C15NoPanic.good_step_two`), and for fresh ids
(c) `submitted op ++ pending s ~ answered s' ++ pending s'` — every submitted or pending task is afterwards EITHER
answered OR pending, never both, never lost; (a) answers only for such tasks; (b) no id answered twice in the
step; (d) `TasksOK s'`; and `Good true s'`. -/
theorem task_step_two (s : Node) (op : Op) (rollAt : List Nat) (orders : List (List Nat))
    (hG : NoPanic.Good true s) (hopen : s.closed = "") (hr : NoPanic.ReqOk' true s op)
    (hT : TasksOK s) (hF : Fresh s op) :
    (submitted op ++ pending s).Perm (answered (s.step op rollAt orders) ++ pending (s.step op rollAt orders)) ∧
    (∀ r ∈ (s.step op rollAt orders).replies, r.task ≠ 0 → r.task ∈ submitted op ++ pending s) ∧
    (answered (s.step op rollAt orders)).Nodup ∧
    (∀ t ∈ answered (s.step op rollAt orders), t ∉ pending (s.step op rollAt orders)) ∧
    TasksOK (s.step op rollAt orders) ∧ NoPanic.Good true (s.step op rollAt orders) := by
  obtain ⟨hp, hG'⟩ := C15NoPanic.good_step_two s op rollAt orders hG hopen hr
  obtain ⟨a, b, c, d, e⟩ := task_step s op rollAt orders hT hF hp (Or.inr (twoOK_of_good s op hG hopen hr))
  exact ⟨a, b, c, d, e, hG'⟩

theorem runCC_of_two (s : Node) (evs : List Ev) (hG : NoPanic.Good true s) (hr : C15NoPanic.RunOkTwo s evs) :
    RunCC s evs := by
  induction evs generalizing s with
  | nil => trivial
  | cons e es ih =>
    obtain ⟨h1, h2, h3⟩ := hr
    obtain ⟨hp, hG'⟩ := C15NoPanic.good_step_two s e.1 e.2.1 e.2.2 hG h1 h2
    exact ⟨hp, Or.inr (twoOK_of_good s e.1 hG h1 h2), ih _ hG' h3⟩

/-- **task_run_two — any run of a node whose configurations keep two stable voters** (`Good true` at the start,
every operation handled by an open node and `ReqOk' true`: `C15NoPanic.RunOkTwo`), fresh ids.  No assumption about
outcomes: `submittedRun ++ pending s ~ answeredRun ++ pending (final)`: every task submitted during the run (or
pending at its start) has been answered AT MOST ONCE and is EITHER answered OR still pending at the end. -/
theorem task_run_two (s : Node) (evs : List Ev) (hG : NoPanic.Good true s) (hT : TasksOK s)
    (hnd : (submittedRun evs).Nodup) (hfr : ∀ t ∈ submittedRun evs, t ∉ pending s)
    (hr : C15NoPanic.RunOkTwo s evs) :
    (submittedRun evs ++ pending s).Perm (answeredRun s evs ++ pending (C19Order.run s evs)) ∧
    TasksOK (C19Order.run s evs) ∧ (answeredRun s evs).Nodup ∧
    (∀ t ∈ answeredRun s evs, t ∉ pending (C19Order.run s evs)) :=
  task_run s evs hT hnd hfr (runCC_of_two s evs hG hr)

/-- **task_run_shutdown_two — … and after `Shutdown` every task has been answered EXACTLY ONCE**: the tasks submitted
during the run or pending at its start are, as a multiset, exactly the tasks answered during the run or by the
shutdown step; nothing is left pending.  (`Shutdown` itself never fails from a good state: `shutdown_good`.) -/
theorem task_run_shutdown_two (s : Node) (evs : List Ev) (rollAt : List Nat) (orders : List (List Nat))
    (hG : NoPanic.Good true s) (hT : TasksOK s)
    (hnd : (submittedRun evs).Nodup) (hfr : ∀ t ∈ submittedRun evs, t ∉ pending s)
    (hr : C15NoPanic.RunOkTwo s evs) :
    (submittedRun evs ++ pending s).Perm
      (answeredRun s evs ++ answered ((C19Order.run s evs).step .shutdown rollAt orders)) ∧
    pending ((C19Order.run s evs).step .shutdown rollAt orders) = [] ∧
    (answeredRun s evs ++ answered ((C19Order.run s evs).step .shutdown rollAt orders)).Nodup :=
  task_run_shutdown s evs rollAt orders hT hnd hfr (runCC_of_two s evs hG hr)
    (C15NoPanic.shutdown_good _ rollAt orders (C15NoPanic.good_run_two s evs hG hr).1).1

/-- a freshly started node (`restart`: empty `Leader` record, no snapshot in flight) satisfies the invariant -/
theorem tasksOK_of_idle (s : Node) (h1 : s.ldr.queue = []) (h2 : s.ldr.waitStable = []) (h3 : s.ldr.transfer.task = 0)
    (h4 : s.snapPending = none) (h5 : s.snapResult = none) : TasksOK s := by
  refine ⟨⟨fun _ => h3, Or.inl h4⟩, fun _ => ⟨h1, h2, h3⟩, ?_⟩
  unfold pending pendRaw
  rw [h1, h2, h3, h4, h5]
  exact List.nodup_nil

/-! ### C07: a definite rejection never takes effect (lifted to `step`) -/

/-- **definite_rejection_step** (C07): entries submitted to a node that is not leader. The WHOLE step (handler and
role transitions) changes nothing but the answers: every item with a task is answered exactly once, in order, with
NotLeaderError{Lost: false} (or the dirty-read value) — log, last index, commit index, FSM and the `Leader` record
are exactly what they were: the update cannot take effect later. -/
theorem definite_rejection_step (s : Node) (b : List QItem) (rollAt : List Nat) (orders : List (List Nat))
    (h : s.role ≠ .leader) :
    s.step (.newEntries b) rollAt orders =
      (s.begin rollAt orders).addReplies (b.flatMap (fun q => mkReply? q.task (C07.rejectReply (s.begin rollAt orders) q))) := by
  rw [step_eq_settle s _ rollAt orders (fun e => by cases e)]
  have e1 : (s.begin rollAt orders).handle (.newEntries b) = (s.begin rollAt orders).rejectEntries b := by
    unfold Node.handle
    dsimp only
    rw [if_neg (show ¬ (s.begin rollAt orders).role = .leader from h)]
  rw [e1, C07.definite_rejection_not_leader]
  exact settle_same 6 ((s.begin rollAt orders).addReplies _)

/-- …in particular -/
theorem definite_rejection_step_fields (s : Node) (b : List QItem) (rollAt : List Nat) (orders : List (List Nat))
    (h : s.role ≠ .leader) :
    (s.step (.newEntries b) rollAt orders).log = s.log ∧
    (s.step (.newEntries b) rollAt orders).lastLogIndex = s.lastLogIndex ∧
    (s.step (.newEntries b) rollAt orders).commitIndex = s.commitIndex ∧
    (s.step (.newEntries b) rollAt orders).fsm = s.fsm ∧ (s.step (.newEntries b) rollAt orders).ldr = s.ldr ∧
    answered (s.step (.newEntries b) rollAt orders) = submitted (.newEntries b) ∧
    pending (s.step (.newEntries b) rollAt orders) = pending s := by
  rw [definite_rejection_step s b rollAt orders h]
  refine ⟨rfl, rfl, rfl, rfl, rfl, ?_, rfl⟩
  unfold answered submitted submittedRaw
  show ((([] : List Reply) ++ _).map _).filter _ = _
  rw [List.nil_append, flatMap_mkReply?_tasks (fun q : QItem => q.task), List.filter_filter]
  simp

/-! ### examples -/

instance (s : Node) (op : Op) : Decidable (Fresh s op) := by unfold Fresh; infer_instance

/-- the leader of `C06Cache.exLeader`: three members, one queued update with task 9 -/
def exL : Node := C06Cache.exLeader

/-- a single-voter leader with a snapshot request (task 4) in flight -/
def exSolo : Node :=
  let n1 : CNode := { id := 1, addr := "a:1", voter := true }
  let c : Config := { nodes := [n1], index := 1, term := 1 }
  { nid := 1, cid := 7, term := 1, durTerm := 1, role := .leader, leader := 1,
    log := { entries := [c.toEntry, { index := 2, term := 1, typ := etNop },
                         { index := 3, term := 1, typ := etUpdate, data := "x" }], flushed := 3 },
    lastLogIndex := 3, lastLogTerm := 1, commitIndex := 3,
    fsm := { index := 3, term := 1, config := c, applied := ["x"] },
    configs := { committed := c, latest := c },
    ldr := { node := n1, numVoters := 1, startIndex := 2 },
    snapPending := some { task := 4, minIndex := 0, config := c } }

/-- EXAMPLE (the hypotheses of `task_step` are satisfiable, non-trivially): the single-voter leader accepts an
update (task 7) and a read (task 8); both are committed, applied and answered within the step; the snapshot
request stays pending. -/
example :
    let op : Op := .newEntries [{ typ := etUpdate, data := "y", task := 7 }, { typ := etRead, task := 8 }]
    TasksOK exSolo ∧ Fresh exSolo op ∧ (exSolo.step op [] []).panicked = none ∧
    pending exSolo = [4] ∧ submitted op = [7, 8] ∧
    answered (exSolo.step op [] []) = [7, 8] ∧ pending (exSolo.step op [] []) = [4] := by
  decide +kernel

/-- EXAMPLE: …and a task that stays pending: WaitForStableConfig (task 5) on `exL`, whose configuration still has a
promotion to do. `Once` holds for both by `once_of_not_leaderChange`. -/
example : TasksOK exL ∧ Fresh exL (.waitStable 5) ∧ (exL.step (.waitStable 5) [] []).panicked = none ∧
    pending exL = [9] ∧ answered (exL.step (.waitStable 5) [] []) = [] ∧
    pending (exL.step (.waitStable 5) [] []) = [9, 5] := by
  decide

/-- EXAMPLE (`Fresh` is needed): the id 9 is submitted while it still waits in the queue: it waits twice. -/
example : ¬ Fresh exL (.waitStable 9) ∧ pending (exL.step (.waitStable 9) [] []) = [9, 9] := by decide

/-- EXAMPLE (`TasksOK.ok`, transfer part, is needed): an idle transfer record that still carries task 5 — the
next TransferLeadership (task 7) overwrites it: task 5 is lost without an answer. -/
example :
    let s := exL.withLdr { exL.ldr with transfer := { active := false, task := 5 } }
    ¬ TasksOK s ∧ (s.step (.transfer 7 0) [] []).panicked = none ∧ pending s = [9, 5] ∧
    answered (s.step (.transfer 7 0) [] []) = [] ∧ pending (s.step (.transfer 7 0) [] []) = [9, 7] := by
  decide

/-- EXAMPLE (`TasksOK.ok`, snapshot part, is needed): a snapshot request (task 5) next to an undelivered result
(task 6): when the snapshot finishes its result replaces the undelivered one: task 6 is lost. -/
example :
    let s : Node := { exL with snapPending := some { task := 5 }, snapResult := some { task := 6 } }
    ¬ TasksOK s ∧ (s.step .snapRun [] []).panicked = none ∧ pending s = [9, 5, 6] ∧
    answered (s.step .snapRun [] []) = [] ∧ pending (s.step .snapRun [] []) = [9, 5] := by
  decide

/-- EXAMPLE (`TasksOK.quiet` is needed — the class of the seeded defect "leader.release does not reset the
queue"): a candidate whose stale `Leader` record still holds a queued task 5 wins the election; `leader.init`
starts from an empty queue: task 5 is dropped without an answer. -/
example :
    let s : Node := { exL with role := .candidate, votesNeeded := 1, leader := 0, ldr := { queue := [{ task := 5, index := 3 }] } }
    ¬ TasksOK s ∧ (s.step (.voteResult false 1 rSuccess) [] []).panicked = none ∧ pending s = [5] ∧
    (s.step (.voteResult false 1 rSuccess) [] []).role = .leader ∧
    answered (s.step (.voteResult false 1 rSuccess) [] []) = [] ∧
    pending (s.step (.voteResult false 1 rSuccess) [] []) = [] := by
  decide +kernel

/-- EXAMPLE ("the step does not fail" is needed): a commit index beyond the log (excluded by `Good`): the read
(task 7) is taken off the queue to be applied, building the log view panics, the task is neither answered nor
pending. -/
example :
    let s : Node := { exL with commitIndex := 5, ldr := { exL.ldr with queue := [] } }
    let op : Op := .newEntries [{ typ := etRead, task := 7 }]
    TasksOK s ∧ Fresh s op ∧ (s.step op [] []).panicked = some "logpanic.ViewAt" ∧
    answered (s.step op [] []) = [] ∧ pending (s.step op [] []) = [] := by
  decide +kernel

/-- EXAMPLE (the hypotheses of `task_run_shutdown` are satisfiable): on `exSolo` an update (task 7) is submitted and
answered, a second TakeSnapshot (task 9) is refused at once, then `Shutdown` delivers the running snapshot's
result to task 4: `[7, 9] ++ [4] ~ [7, 9] ++ [4]`. -/
example :
    let evs : List Ev := [(.newEntries [{ typ := etUpdate, data := "y", task := 7 }], [], []), (.takeSnapshot 9 0, [], [])]
    TasksOK exSolo ∧ (submittedRun evs).Nodup ∧ (∀ t ∈ submittedRun evs, t ∉ pending exSolo) ∧ RunCC exSolo evs ∧
    ((C19Order.run exSolo evs).step .shutdown [] []).panicked = none ∧
    submittedRun evs = [7, 9] ∧ pending exSolo = [4] ∧ answeredRun exSolo evs = [7, 9] ∧
    answered ((C19Order.run exSolo evs).step .shutdown [] []) = [4] := by
  refine ⟨by decide, by decide, by decide, ⟨by decide +kernel, Or.inl (by decide), by decide +kernel, Or.inl (by decide), trivial⟩,
    by decide +kernel, by decide, by decide, by decide +kernel, by decide +kernel⟩

/-- a request WITH an action: remove the non-voter 3 (nodes 1 and 2 stay voters without action) -/
def exRemove : Config :=
  { exL.configs.latest with
    nodes := exL.configs.latest.nodes.map (fun n => if n.id = 3 then { n with action := actRemove } else n) }

/-- EXAMPLE (the hypotheses of `task_step_two` are satisfiable by a ChangeConfig request with an action) -/
example : NoPanic.Good true exL ∧ exL.closed = "" ∧ NoPanic.ReqOk' true exL (.changeConfig 7 exRemove) ∧
    TasksOK exL ∧ Fresh exL (.changeConfig 7 exRemove) ∧ ¬ NoAct exL (.changeConfig 7 exRemove) :=
  ⟨C15NoPanic.exL_good, rfl, by decide, by decide, by decide, by decide⟩

/-- EXAMPLE (the hypotheses of `task_run_two` / `task_run_shutdown_two` are satisfiable): on the good leader `exL`
(task 9 queued) a WaitForStableConfig (task 5) and an update (task 6) are submitted -/
example :
    let evs : List Ev := [(.waitStable 5, [], []), (.newEntries [{ typ := etUpdate, data := "z", task := 6 }], [], [])]
    NoPanic.Good true exL ∧ TasksOK exL ∧ (submittedRun evs).Nodup ∧ (∀ t ∈ submittedRun evs, t ∉ pending exL) ∧
    C15NoPanic.RunOkTwo exL evs :=
  ⟨C15NoPanic.exL_good, by decide, by decide, by decide, ⟨rfl, trivial, by decide +kernel, by decide +kernel, trivial⟩⟩

/-- a leader whose cached own entry says "not a voter" although the committed configuration has it as voter (not
reachable: excluded by `Good`), two non-voters -/
def exO : Node :=
  let n1 : CNode := { id := 1, addr := "a:1", voter := true }
  let n2 : CNode := { id := 2, addr := "b:1", voter := false }
  let n3 : CNode := { id := 3, addr := "c:1", voter := false }
  let c : Config := { nodes := [n1, n2, n3], index := 1, term := 1 }
  { nid := 1, cid := 7, term := 1, durTerm := 1, role := .leader, leader := 1,
    log := { entries := [c.toEntry, { index := 2, term := 1, typ := etNop }], flushed := 2 },
    lastLogIndex := 2, lastLogTerm := 1, commitIndex := 2, fsm := { index := 2, term := 1, config := c },
    configs := { committed := c, latest := c },
    ldr := { node := { n1 with voter := false }, numVoters := 1, startIndex := 2,
             repls := [{ id := 2, node := n2, matchIndex := 2 }, { id := 3, node := n3, matchIndex := 2 }] } }

/-- the request: force-remove both non-voters -/
def exOc : Config :=
  { nodes := [{ id := 1, addr := "a:1", voter := true }, { id := 2, addr := "b:1", voter := false, action := actForceRemove },
              { id := 3, addr := "c:1", voter := false, action := actForceRemove }], index := 1, term := 1 }

/-- EXAMPLE (`Once` is needed, it does not follow from `TasksOK`): `checkConfigActions` hands the request's task to
`doChangeConfig` once per action it starts, and `onChangeConfig` once more when the log did not grow. In `exO`
every attempt is rejected ("demotion in progress") without changing anything, so the SAME task 7 is answered
twice by `checkConfigActions` alone, and a third time by `onChangeConfig`: `#eval answered (exO.step (.changeConfig
7 exOc) [] [])` gives `[7, 7, 7]` with `panicked = none` (the client sees the last result: `Node.canon`). The
kernel cannot replay the full step by `decide` (the address validation uses string functions defined by
well-founded recursion), hence the statement about `checkConfigActions`. -/
example :
    TasksOK exO ∧ Fresh exO (.changeConfig 7 exOc) ∧
    (checkConfigActions (fuelFor 0) (exO.begin [] []) 7 exOc).panicked = none ∧
    answered (checkConfigActions (fuelFor 0) (exO.begin [] []) 7 exOc) = [7, 7] ∧
    (checkConfigActions (fuelFor 0) (exO.begin [] []) 7 exOc).lastLogIndex = exO.lastLogIndex := by
  decide +kernel

/-- EXAMPLE (`shutdown`): the leader `exL` with task 9 queued, a waiting task and a transfer: `Shutdown` answers all
of them, nothing stays pending. -/
example :
    let s := exL.withLdr { exL.ldr with waitStable := [3], transfer := { active := true, task := 5, term := 1 } }
    TasksOK s ∧ pending s = [9, 3, 5] ∧ answered (s.step .shutdown [] []) = [5, 9, 3] ∧
    pending (s.step .shutdown [] []) = [] := by
  decide

end C15Tasks
end Raft

#print axioms Raft.C15Tasks.task_step_count
#print axioms Raft.C15Tasks.task_step_partial
#print axioms Raft.C15Tasks.task_step -- also C07
#print axioms Raft.C15Tasks.once_of_not_leaderChange
#print axioms Raft.C15Tasks.once_of_stable
#print axioms Raft.C15Tasks.once_of_noAct
#print axioms Raft.C15Tasks.once_of_twoOK
#print axioms Raft.C15Tasks.task_step_two -- also C07
#print axioms Raft.C15Tasks.task_run_two
#print axioms Raft.C15Tasks.task_run_shutdown_two
#print axioms Raft.C15Tasks.shutdown_pending_nil
#print axioms Raft.C15Tasks.task_run_partial
#print axioms Raft.C15Tasks.task_run -- also C07
#print axioms Raft.C15Tasks.task_run_shutdown_partial
#print axioms Raft.C15Tasks.task_run_shutdown -- also C07
#print axioms Raft.C15Tasks.task_step_good
#print axioms Raft.C15Tasks.task_run_good
#print axioms Raft.C15Tasks.tasksOK_of_idle
#print axioms Raft.C15Tasks.definite_rejection_step -- also C07
#print axioms Raft.C15Tasks.definite_rejection_step_fields -- also C07
#print axioms Raft.Node.TL.block
#print axioms Raft.Node.TL.step_rel
