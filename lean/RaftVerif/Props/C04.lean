/-
C04 — Log matching (node-local part): what one append request does to a log, and that a leader only
appends. The cluster-level statement (same (index, term) ⇒ same entry and same prefix, across nodes and
moments) is evaluated on explored executions by clustersim/nodediff, not proved here.
-/
import RaftVerif.Lemmas.StepInv
import RaftVerif.Lemmas.ReplSteps

namespace Raft
namespace C04
open Node

/-! ### a leader never removes or rewrites entries of its own log -/

/-- the log only grew at the end: same start, old entries are a prefix of the new ones -/
def Extends (s₀ s : Node) : Prop := s.log.prev = s₀.log.prev ∧ s₀.log.entries <+: s.log.entries

theorem ext_congr {s₀ s s' : Node} (h : Extends s₀ s) (e : s'.log = s.log) : Extends s₀ s' := by
  unfold Extends at *; rw [e]; exact h

/-- every primitive used by the leader handlers (storeEntry … onMajorityCommit) keeps `Extends`:
they append or flush, never truncate, compact or reset. -/
theorem leader_closed (s₀ : Node) : Closed (Extends s₀) where
  panic := fun s site h => ext_congr h (by unfold Node.panic; split <;> rfl)
  reply := fun s t r h => ext_congr h (by unfold Node.reply; split <;> rfl)
  point := fun s n h => ext_congr h rfl
  ldr := fun s l h => ext_congr h rfl
  append := fun s e roll h => by
    obtain ⟨h1, h2⟩ := h
    refine ⟨?_, ?_⟩
    · show (s.log.append e roll).prev = _; unfold NLog.append; split <;> exact h1
    · show _ <+: (s.log.append e roll).entries
      unfold NLog.append
      split <;> exact List.IsPrefix.trans h2 (List.prefix_append _ _)
  commitN := fun s n h => by
    obtain ⟨h1, h2⟩ := h
    refine ⟨?_, ?_⟩
    · show (s.log.commitN n).prev = _; unfold NLog.commitN; split <;> exact h1
    · show _ <+: (s.log.commitN n).entries; unfold NLog.commitN; split <;> exact h2
  fsm := fun s f h => ext_congr h rfl
  changeConfigR := fun s c h => ext_congr h (by unfold Node.changeConfigR; dsimp only; split <;> rfl)
  setCommitIndexR := fun s i h _ => ext_congr h (by
    unfold Node.setCommitIndexR Node.afterConfigCommit Node.closeIfRemoved Node.stepDownIfNotVoter Node.commitConfig Node.doClose
    dsimp only; repeat' split
    all_goals rfl)
  popOrder := fun s h => ext_congr h rfl

/-- **a leader only appends**: accepting client entries, membership requests, commit advancement and the
configuration actions they trigger never remove or rewrite an entry of the leader's log. -/
theorem leader_log_append_only (fuel : Nat) (s : Node) (batch : List QItem) :
    Extends s (storeEntry fuel s batch) :=
  ((leader_closed s).block fuel).1 s batch ⟨rfl, List.prefix_refl _⟩

theorem leader_commit_append_only (fuel : Nat) (s : Node) : Extends s (onMajorityCommit fuel s) :=
  ((leader_closed s).block fuel).2.2.2.2.2.2.2 s ⟨rfl, List.prefix_refl _⟩

theorem leader_actions_append_only (fuel : Nat) (s : Node) (t : Nat) (c : Config) :
    Extends s (checkConfigActions fuel s t c) :=
  ((leader_closed s).block fuel).2.2.2.2.1 s t c ⟨rfl, List.prefix_refl _⟩

/-! ### what an append request does, entry by entry -/

/-- an entry at or below the snapshot index is ignored -/
theorem entry_below_snapshot_ignored (st : AppLoop) (ne : Entry) (rest : List Entry)
    (herr : st.err = false) (h : ne.index ≤ st.s.snapIndex) :
    appendLoop st (ne :: rest) = appendLoop { st with index := ne.index, term := ne.term } rest := by
  conv => lhs; unfold appendLoop
  simp only [herr, Bool.false_eq_true, if_false]
  rw [if_pos h]

/-- an entry the follower already holds with the same term is left alone (nothing is removed or rewritten) -/
theorem matching_entry_untouched (st : AppLoop) (ne : Entry) (rest : List Entry)
    (herr : st.err = false) (hs : ¬ ne.index ≤ st.s.snapIndex)
    (hle : ne.index ≤ st.s.lastLogIndex) (hterm : st.s.entryTerm? ne.index = some ne.term) :
    appendLoop st (ne :: rest) = appendLoop { st with index := ne.index, term := ne.term } rest := by
  conv => lhs; unfold appendLoop
  simp only [herr, Bool.false_eq_true, if_false]
  rw [if_neg hs]
  rw [if_pos (by simp [hle, hterm])]

/-- the only truncation an append request performs: at the first entry whose term differs from the one
held, everything from that index on is removed (and the configuration reverted if it was at or above it);
an entry beyond the end of the log removes nothing. -/
theorem conflict_truncates_from_there (s : Node) (ne : Entry) (pt t : Nat)
    (hle : ne.index ≤ s.lastLogIndex) (hterm : s.entryTerm? ne.index = some t) :
    s.resolveConflict ne pt =
      (if ne.index ≤ (s.removeGTE ne.index pt).configs.latest.index
       then (s.removeGTE ne.index pt).revertConfig else s.removeGTE ne.index pt) := by
  unfold Node.resolveConflict
  rw [if_pos hle, hterm]

theorem no_truncation_beyond_log (s : Node) (ne : Entry) (pt : Nat) (h : ¬ ne.index ≤ s.lastLogIndex) :
    s.resolveConflict ne pt = s := by
  unfold Node.resolveConflict; rw [if_neg h]

/-- `removeGTE i` keeps exactly the entries below `i` -/
theorem removeGTE_keeps_prefix (l : NLog) (i : Nat) :
    (l.removeGTE i).entries = l.entries.take (i - 1 - l.prev) ∧ (l.removeGTE i).prev = l.prev := by
  unfold NLog.removeGTE; exact ⟨rfl, rfl⟩

/-- a stale request (lower term) is refused without touching anything -/
theorem stale_append_refused (s : Node) (q : AppendReq) (h : q.term < s.term) :
    s.onAppendEntries q = s.ret rStaleTerm := by
  unfold Node.onAppendEntries; rw [if_pos h]

/-- a request whose previous entry the follower lacks is refused without touching the log -/
theorem missing_prev_refused (s : Node) (q : AppendReq) (h1 : q.prevLogIndex > s.snapIndex)
    (h2 : q.prevLogIndex > s.lastLogIndex) : s.appendCheck q = s.ret rPrevEntryNotFound := by
  unfold Node.appendCheck; rw [if_pos h1, if_pos h2]

end C04
end Raft

#print axioms Raft.C04.leader_log_append_only
#print axioms Raft.C04.leader_commit_append_only
#print axioms Raft.C04.leader_actions_append_only
#print axioms Raft.C04.entry_below_snapshot_ignored
#print axioms Raft.C04.matching_entry_untouched
#print axioms Raft.C04.conflict_truncates_from_there
#print axioms Raft.C04.no_truncation_beyond_log
#print axioms Raft.C04.removeGTE_keeps_prefix
#print axioms Raft.C04.stale_append_refused
#print axioms Raft.C04.missing_prev_refused
#print axioms Raft.Repl.repl_request_from_log
#print axioms Raft.Repl.heartbeat_no_entries
