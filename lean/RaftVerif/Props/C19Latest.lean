/-
C19 / C08 (content) — "The latest configuration is the newest configuration entry the node's log or snapshot
contains", as an inductive invariant of `Node.step`, for EVERY operation.

`Props/C19Order.lean` proves the INDEX orderings (`configs.committed.index ≤ configs.latest.index ≤ lastLogIndex`),
`Props/C08Step.lean` how `(latest, committed)` MOVE in a step, `Props/C12Track.lean` that the FSM's cached configuration
and every snapshot label are the newest configuration entry at or below their index. Here is the CONTENT statement.

`LatestIsNewest s` (= `Latest.LN s`, Lemmas/LatestRel.lean), with `label s` the configuration in the meta file of the
newest snapshot (zero configuration if there is none) and `newest log L i` the newest (decodable) configuration entry of
`log` with index `≤ i`, else `L` (`Track.newest`):
* `latest`    : `s.configs.latest = newest s.log (label s) s.log.last` — by `latest_above_snapshot` (with the label's
                self-consistency `Tracks.lab`) this is: the newest configuration entry ABOVE `s.snapIndex`, with index and
                term of that entry; if there is none, the label of the newest snapshot;
* `committed` : `s.configs.committed` is `s.configs.latest` itself, or it lies strictly below it
                (`committed.index < latest.index`) and — as long as the commit index has not passed `latest.index` — it
                is the newest configuration STRICTLY BELOW `latest` (entry, else label): the previous `latest`. This is
                what the code maintains: `Raft.changeConfig` sets `committed := latest` (on a follower merely the
                previous `latest`, committed cluster-wide or not), `Raft.commitConfig` sets `committed := latest`,
                `Raft.revertConfig` goes back to it. (The proviso on the commit index is always met in states reached
                without a replication reporting a match index beyond the leader's log; under `Order.ReqOk` alone it
                cannot be dropped — `exBeyond`.)

PROVED here, for EVERY operation, oracle and input:
* `latest_is_newest_step` : `LatestIsNewest s → Tracks s → Ordered s → ReqOk s op → NoFallback s op → (the step does
  not panic) → LatestIsNewest (s.step op rollAt orders)` — append (adoption of carried configuration entries,
  `revertConfig` on truncation: this is where `AppendOk`'s clause "a conflict lies above `committed.index`" is used),
  install (both configurations are the label), leader changes, commits, compaction and snapshots (entries at or below
  the snapshot drop out and the label takes over), bootstrap, … ; `latest_is_newest_run` over sequences.
* `restart_latest_is_newest` : a restart establishes it from every well-formed disk.
* consequences: `latest_above_snapshot`, `latest_index_max` (no configuration entry of the log lies beyond
  `latest.index`), `committed_previous`, `cfg_entries_below` (every configuration entry is `latest`'s or lies at or
  below `committed.index`: the decodable part of `CfgRel.LogInv`).
* `log_inv_append` : `CfgRel.LogInv` through append requests under `AppendOk` — the case missing in
  `C08Step.at_most_one_uncommitted_log_partial`; `log_inv_step`: hence for every operation.
* necessity examples for the hypotheses; nothing reachable was found.

`NoFallback s op` concerns `snapRun` (and `Shutdown`, which waits for a pending snapshot) only: the snapshot goroutine
does not take the fallback "label the snapshot with the configuration captured at request time because the FSM reports
none". It is taken only when the FSM holds no configuration, and then (`C12Track.Tracks`, clause `cfgZero`) the log
holds NO configuration entry at or below the applied index — not reachable in a cluster (entry 1 of every log is the
bootstrap configuration; every label a leader sends has index ≥ 1); when it is taken the label becomes a configuration
that was `configs.committed` at some EARLIER time, whatever `latest` is now (`exFallback`).
-/
import RaftVerif.Lemmas.LatestRel
import RaftVerif.Props.C12Track
import RaftVerif.Props.C08Step

namespace Raft
namespace C19Latest
open Node Order Track Latest

/-! ### the invariant -/

/-- **The latest configuration is the newest configuration entry in log ∪ snapshot** (see the file header). -/
abbrev LatestIsNewest (s : Node) : Prop := Latest.LN s

instance (log : NLog) (L : Config) (cs : Configs) (ci m : Nat) : Decidable (LNc log L cs ci m) :=
  decidable_of_iff
    (cs.latest = newest log L m ∧
      (cs.committed = cs.latest ∨
        (cs.committed.index < cs.latest.index ∧
          (ci < cs.latest.index → cs.committed = newest log L (cs.latest.index - 1)))))
    ⟨fun ⟨a, b⟩ => ⟨a, b⟩, fun h => ⟨h.latest, h.committed⟩⟩

instance (s : Node) : Decidable (LatestIsNewest s) := by unfold LatestIsNewest Latest.LN; infer_instance

/-! ### one step, any sequence of steps -/

/-- **The invariant is inductive.** From an ordered, tracking state in which the latest configuration is the newest
configuration entry of log ∪ snapshot (and the committed one the latest or the previous latest), an operation acceptable
in the sense of `Order.ReqOk` (any operation but a malformed append/install request) that does not take the snapshot
fallback (`NoFallback`), handled to completion without a Go panic, leads to such a state — for every oracle (`rollAt`,
`orders`) and every input. -/
theorem latest_is_newest_step (s : Node) (op : Op) (rollAt : List Nat) (orders : List (List Nat))
    (hl : LatestIsNewest s) (ht : C12Track.Tracks s) (ho : Ordered s) (hr : ReqOk s op) (hfb : NoFallback s op)
    (hp : (s.step op rollAt orders).panicked = none) : LatestIsNewest (s.step op rollAt orders) :=
  (li_stepAll op rollAt orders ho ht.toCore ht.queue hl hr hfb).2 hp

/-- every operation of the run is acceptable in the state it is handled in, does not take the snapshot fallback, and is
handled to completion -/
def RunOk : Node → List (Op × List Nat × List (List Nat)) → Prop
  | _, [] => True
  | s, o :: os =>
    ReqOk s o.1 ∧ NoFallback s o.1 ∧ (s.step o.1 o.2.1 o.2.2).panicked = none ∧ RunOk (s.step o.1 o.2.1 o.2.2) os

/-- **over any sequence of events** the three invariants (`LatestIsNewest`, `Tracks`, `Ordered`) survive together -/
theorem latest_is_newest_run (s : Node) (ops : List (Op × List Nat × List (List Nat))) (hl : LatestIsNewest s)
    (ht : C12Track.Tracks s) (ho : Ordered s) (hr : RunOk s ops) :
    LatestIsNewest (C19Order.run s ops) ∧ C12Track.Tracks (C19Order.run s ops) ∧ Ordered (C19Order.run s ops) := by
  induction ops generalizing s with
  | nil => exact ⟨hl, ht, ho⟩
  | cons o os ih =>
    obtain ⟨h1, h2, h3, h4⟩ := hr
    exact ih _ (latest_is_newest_step s o.1 o.2.1 o.2.2 hl ht ho h1 h2 h3)
      (C12Track.tracks_step s o.1 o.2.1 o.2.2 ht ho h1 h3) (C19Order.ordered_step s o.1 o.2.1 o.2.2 ho h1 h3) h4

/-- **from a good state no completion hypothesis is needed** (`C15NoPanic.good_step_noPanic`: a good, open node
handling an operation acceptable in the sense of `NoPanic.ReqOk'` does not fail, up to the MODEL's recursion budget). -/
theorem latest_is_newest_step_good {T : Bool} (s : Node) (op : Op) (rollAt : List Nat) (orders : List (List Nat))
    (hl : LatestIsNewest s) (ht : C12Track.Tracks s) (hG : NoPanic.Good T s) (ho : s.closed = "")
    (hr : NoPanic.ReqOk' T s op) (hfb : NoFallback s op) (hf : (s.step op rollAt orders).panicked ≠ some "fuel") :
    LatestIsNewest (s.step op rollAt orders) :=
  latest_is_newest_step s op rollAt orders hl ht hG.ordered hr.toReqOk hfb
    (C15NoPanic.good_step_noPanic s op rollAt orders hG ho hr hf)

/-! ### reading the invariant -/

/-- **in the words of the property**: `configs.latest` is the newest configuration entry of the log ABOVE the snapshot
index (`Latest.seg s.log s.snapIndex s.log.last`: the configurations decoded from the entries with index in
`(snapIndex, last]`, oldest first, each with index and term of its entry), and the label of the newest snapshot if there
is none (the zero configuration if there is no snapshot). -/
theorem latest_above_snapshot (s : Node) (hl : LatestIsNewest s) (ht : C12Track.Tracks s) (ho : Ordered s) :
    s.configs.latest = ((seg s.log s.snapIndex s.log.last).getLast?).getD (label s) := by
  have h1 := ho.snap_le_applied
  have h2 := ht.fsmLe
  exact hl.above_snapshot ht.lab (by omega)

/-- without a snapshot the label is the zero configuration -/
theorem label_no_snapshot (s : Node) (h : s.snapsDisk = []) : label s = {} := by
  unfold label; rw [h]; rfl

/-- **no configuration entry of the log lies beyond `latest`**: every (decodable) configuration entry of the log has an
index at or below `configs.latest.index` -/
theorem latest_index_max (s : Node) (hl : LatestIsNewest s) (ht : C12Track.Tracks s) (e : Entry) (c : Config)
    (he : e ∈ s.log.entries) (hc : e.config? = some c) : e.index ≤ s.configs.latest.index := by
  have hmem : c ∈ pre s.log s.log.last := by
    rw [pre_last]; exact List.mem_filterMap.mpr ⟨e, he, hc⟩
  rw [hl.latest, ← Order.config?_index hc]
  exact newest_ge ht.contig _ hmem

/-- **the committed configuration is the latest or the previous latest**: when `committed ≠ latest` it lies strictly
below `latest`, and (commit index still below `latest.index` — always so unless a replication reported a match index
beyond the leader's log, `C19Order.commit_beyond_log_panics`) it is the newest configuration entry strictly below
`latest`, else the label. -/
theorem committed_previous (s : Node) (hl : LatestIsNewest s) (hne : s.configs.committed ≠ s.configs.latest) :
    s.configs.committed.index < s.configs.latest.index ∧
    (s.commitIndex < s.configs.latest.index →
      s.configs.committed = newest s.log (label s) (s.configs.latest.index - 1)) := by
  rcases hl.committed with h | h
  · exact absurd h hne
  · exact h

/-- **at most one configuration entry beyond `committed`** (the decodable part of `CfgRel.LogInv`, derived): while the
commit index has not passed an uncommitted `latest`, every configuration entry of the log is the entry of
`configs.latest` or lies at or below `configs.committed.index`. -/
theorem cfg_entries_below (s : Node) (hl : LatestIsNewest s) (ht : C12Track.Tracks s)
    (hci : s.configs.committed = s.configs.latest ∨ s.commitIndex < s.configs.latest.index)
    (e : Entry) (c : Config) (he : e ∈ s.log.entries) (hc : e.config? = some c) :
    e.index ≤ s.configs.committed.index ∨ e.index = s.configs.latest.index := by
  have hmax := latest_index_max s hl ht e c he hc
  rcases hl.committed with h | ⟨hlt0, h⟩
  · left; rw [h]; exact hmax
  · have hlt : s.commitIndex < s.configs.latest.index := by
      rcases hci with h' | h'
      · rw [h'] at hlt0; exact absurd hlt0 (Nat.lt_irrefl _)
      · exact h'
    by_cases heq : e.index = s.configs.latest.index
    · exact Or.inr heq
    · left
      -- the entry lies at or below `latest.index - 1`, hence at or below the newest configuration there
      obtain ⟨k, hk, rfl⟩ := List.getElem_of_mem he
      have hidx := ht.contig k hk
      have hmem : c ∈ pre s.log (s.configs.latest.index - 1) := by
        unfold pre
        refine List.mem_filterMap.mpr ⟨s.log.entries[k], ?_, hc⟩
        rw [List.mem_take_iff_getElem]
        exact ⟨k, by rw [Nat.lt_min]; exact ⟨by omega, hk⟩, rfl⟩
      rw [h hlt, ← Order.config?_index hc]
      exact newest_ge ht.contig _ hmem

/-! ### restart -/

/-- **a restart establishes the invariant** (`openStorage` + `New` + the restore step of `Serve`) from every disk
that is well formed in the sense of `C19Order.DiskOK` (log at or below the newest snapshot, entries stored under their
index, the label's index at or below the snapshot index) and `C12Track.DiskTracks` (the label is the newest
configuration at or below the snapshot index) without an undecodable configuration entry above the snapshot:
`scanConfigs` finds the newest two configuration entries above the snapshot, each falling back to the label. -/
theorem restart_latest_is_newest (d : Durable) (r : Nat) (sor : Bool) (n : Node) (hd : C19Order.DiskOK d)
    (ht : C12Track.DiskTracks d)
    (hok : C10.NoDecodeErr (C10.window (C10.logOf d) (C10.snapOf d).index (C10.logOf d).last))
    (h : restart d r sor = some n) : LatestIsNewest n := by
  obtain ⟨_, _, _, hlog, _, hcfg, hdisk⟩ := C10.restart_fsm d r sor n h
  obtain ⟨_, hl, hc⟩ := C10.restart_configs d r sor hd.durWF hok
  obtain ⟨_, _, e3, _⟩ := C10.restartNode_fields d r sor
  have hL : label n = (C10.snapOf d).config := by unfold label; rw [hdisk]; rfl
  have hcontig : C03.LogContig (C10.logOf d) := by
    rcases C10.logOf_cases d with ⟨_, e⟩ | ⟨_, e⟩ <;> rw [e]
    · exact C03.LogContig.reset _
    · exact ht.contig
  have hsl : (C10.snapOf d).index ≤ (C10.logOf d).last := by
    rcases C10.logOf_cases d with ⟨_, e⟩ | ⟨hle, e⟩ <;> rw [e]
    · show (C10.snapOf d).index ≤ (C10.snapOf d).index + 0
      omega
    · exact hle
  have hscan := LNc.of_scan (ci := n.commitIndex) hcontig hsl ht.lab hd.label
  -- `configsAbove` is the reversed segment above the snapshot
  have hca : C10.configsAbove d = (seg (C10.logOf d) (C10.snapOf d).index (C10.logOf d).last).reverse := by
    unfold C10.configsAbove C10.window seg
    rw [List.filterMap_reverse]
  rw [hca] at hl hc
  have hcs : n.configs = ⟨(((seg (C10.logOf d) (C10.snapOf d).index (C10.logOf d).last).reverse)[1]?).getD (C10.snapOf d).config,
      (((seg (C10.logOf d) (C10.snapOf d).index (C10.logOf d).last).reverse)[0]?).getD (C10.snapOf d).config⟩ := by
    rw [hcfg, ← hl, ← hc]
  -- the restarted log is `logOf d` up to the flushed mark
  have hpre : ∀ j, pre n.log j = pre (C10.logOf d) j := by intro j; rw [hlog, e3]; rfl
  have hlast : n.log.last = (C10.logOf d).last := by rw [hlog, e3]; rfl
  unfold LatestIsNewest Latest.LN
  rw [hL, hcs, hlast]
  exact hscan.transfer (by unfold newest; rw [hpre]) (fun hlt => ⟨hlt, by unfold newest; rw [hpre]⟩)

/-! ### `CfgRel.LogInv` through append requests -/

/-- `replyRPC` completes only for a handler that completed and did not answer `unexpectedErr` -/
theorem rpcDone_ok (x : Node) (a b : Bool) (hp : (x.rpcDone a b).panicked = none) :
    x.panicked = none ∧ x.result ≠ rUnexpectedErr := by
  unfold Node.rpcDone at hp
  split at hp
  · exact absurd hp (panic_panicked_ne _ _)
  · rename_i h; exact ⟨hp, h⟩

theorem rpcDone_same (x : Node) (a b : Bool) :
    (x.rpcDone a b).configs = x.configs ∧ (x.rpcDone a b).log = x.log ∧ (x.rpcDone a b).role = x.role := by
  unfold Node.rpcDone Node.panic
  refine ⟨?_, ?_, ?_⟩ <;> repeat' split
  all_goals rfl

/-- **at most one uncommitted configuration entry in the log, through append requests** — the case missing in
`C08Step.at_most_one_uncommitted_log_partial`: `CfgRel.LogInv` (every entry of type `entryConfig` in the log lies at or
below `configs.committed.index` or is the entry of `configs.latest`; `committed.index ≤ latest.index`) is preserved by an
append-entries request that satisfies `Order.AppendOk` (or is stale) and is handled to completion, from an ordered
tracking state (`Ordered`, `Tracks`: they supply the index facts — entries are appended at `lastLogIndex + 1`, a
truncation happens above the snapshot and the commit index, the log is index-contiguous). What survives a truncation
lies below the conflict, hence — when `latest` goes — at or below `committed`, which `revertConfig` makes the latest
again; an adopted entry becomes `latest` and the old `latest` becomes `committed`. (The clause of `AppendOk` "a conflict
lies above `configs.committed.index`" is needed for `committed.index ≤ latest.index ≤ lastLogIndex` and for
`LatestIsNewest` — `nec_conflict_below_committed` —, not for the entries themselves.) An undecodable configuration entry
in the request stops the loop with the entry stored but not adopted — and makes `replyRPC` panic (`unexpectedErr`):
such a step does not complete. -/
theorem log_inv_append (s : Node) (q : AppendReq) (rollAt : List Nat) (orders : List (List Nat))
    (hl : CfgRel.LogInv s) (ht : C12Track.Tracks s) (ho : Ordered s) (hr : ReqOk s (.append q))
    (hp : (s.step (.append q) rollAt orders).panicked = none) :
    CfgRel.LogInv (s.step (.append q) rollAt orders) := by
  have hord := C19Order.ordered_step s (.append q) rollAt orders ho hr hp
  refine ⟨?_, hord.committed_le_latest⟩
  have hst : s.step (.append q) rollAt orders =
      settle 6 ((s.begin rollAt orders).handle (.append q)) (s.begin rollAt orders).role := rfl
  have hh : (s.begin rollAt orders).handle (.append q) =
      ((s.begin rollAt orders).onAppendEntries q).rpcDone false true := rfl
  have hbegin : CI s true false (s.begin rollAt orders) :=
    ⟨ti_begin rollAt orders ho ht.toCore (fun e => Bool.noConfusion e), fun _ => cfgLog_congr hl.1 rfl rfl⟩
  have hr' : q.term < (s.begin rollAt orders).term ∨ AppendOk (s.begin rollAt orders) q := hr
  obtain ⟨_, hcl⟩ := ci_onAppendEntries q hbegin hr'
  obtain ⟨r1, r2, r3⟩ := rpcDone_same ((s.begin rollAt orders).onAppendEntries q) false true
  -- the handler's result, when `replyRPC` completed
  have hH : ((s.begin rollAt orders).handle (.append q)).panicked = none →
      CfgRel.CfgLog ((s.begin rollAt orders).handle (.append q)) := by
    intro hp'
    rw [hh] at hp' ⊢
    obtain ⟨a, b⟩ := rpcDone_ok _ _ _ hp'
    exact cfgLog_congr (hcl a b) r2 r1
  rw [hst] at hp ⊢
  rcases CfgRel.onAppendEntries_fi (s := s) (op := .append q) (s.begin rollAt orders) q rfl .start (Nat.le_refl _)
    with h | h
  · -- stale term: the role did not change, no role transition
    have hrole : (s.begin rollAt orders).role = ((s.begin rollAt orders).handle (.append q)).role := by
      rw [hh, r3, h]; rfl
    rw [hrole, Node.settle_same] at hp ⊢
    exact hH hp
  · -- otherwise the node is a follower now: releasing the old role touches neither log nor configurations
    have hfol : ((s.begin rollAt orders).handle (.append q)).role = .follower := by rw [hh, r3]; exact h.role
    have hq := CfgRel.settle_follower_q 6 _ (s.begin rollAt orders).role hfol
    have := hH (hq.pan' hp)
    unfold CfgRel.CfgLog at *
    rw [hq.configs, hq.entries]
    exact this

/-- **… hence for EVERY operation**: `C08Step.at_most_one_uncommitted_log_partial` for the others -/
theorem log_inv_step (s : Node) (op : Op) (rollAt : List Nat) (orders : List (List Nat))
    (hl : CfgRel.LogInv s) (ht : C12Track.Tracks s) (ho : Ordered s) (hr : ReqOk s op) (hsc : CfgRel.SelfCache s)
    (hanch : CfgRel.AnchC s.configs.latest) (hok : CfgRel.OpOk op)
    (hp : (s.step op rollAt orders).panicked = none) : CfgRel.LogInv (s.step op rollAt orders) := by
  by_cases ha : ∃ q, op = .append q
  · obtain ⟨q, rfl⟩ := ha
    exact log_inv_append s q rollAt orders hl ht ho hr hp
  · exact C08Step.at_most_one_uncommitted_log_partial s op rollAt orders hsc ho.latest_le_last hanch hok hl
      (fun q h => ha ⟨q, h⟩) hp

/-- an operation other than `snapRun` / `Shutdown` cannot take the snapshot fallback; nor can these when the FSM
holds a configuration -/
theorem noFallback_of_cfg (s : Node) (op : Op) (h : 0 < s.fsm.config.index) : NoFallback s op := by
  cases op <;> first | trivial | exact fun _ _ _ _ => h

/-! ### examples: the hypotheses are satisfiable -/

/-- EXAMPLE state `C12Track.exT`: a follower with a snapshot at 1 labelled `c1` (the bootstrap configuration, compacted
away), entries 2 (no-op), 3 (configuration `c3`), 4 (update); `configs = ⟨c1, c3⟩`, commit index 2. Its latest
configuration is entry 3, its committed one the label — the newest configuration strictly below entry 3. -/
example :
    LatestIsNewest C12Track.exT ∧ C12Track.Tracks C12Track.exT ∧ Ordered C12Track.exT ∧
    seg C12Track.exT.log C12Track.exT.snapIndex C12Track.exT.log.last = [C12Track.c3] ∧
    C12Track.exT.configs.committed = label C12Track.exT :=
  ⟨by decide, C12Track.exT_tracks, C12Track.exT_ordered, by decide, by decide⟩

/-- EXAMPLE (`latest_is_newest_step`, commit): the hypotheses hold for `exT` and a heartbeat of the leader that has
committed up to 4; the step commits configuration 3: `committed = latest = c3`. -/
example :
    ReqOk C12Track.exT (.append C12Track.exBeat) ∧ NoFallback C12Track.exT (.append C12Track.exBeat) ∧
    (C12Track.exT.step (.append C12Track.exBeat) [] []).panicked = none ∧
    (C12Track.exT.step (.append C12Track.exBeat) [] []).configs = ⟨C12Track.c3, C12Track.c3⟩ ∧
    LatestIsNewest (C12Track.exT.step (.append C12Track.exBeat) [] []) :=
  ⟨by decide, trivial, by decide, by decide,
   latest_is_newest_step _ _ _ _ (by decide) C12Track.exT_tracks C12Track.exT_ordered (by decide) trivial (by decide)⟩

/-- a request of a new leader (term 2) whose entry 3 conflicts with the follower's configuration entry 3 -/
def exConflict3 : AppendReq :=
  { term := 2, src := 2, prevLogIndex := 2, prevLogTerm := 1, entries := [{ index := 3, term := 2, typ := etNop }] }

/-- … and one whose entry 4 conflicts: the configuration entry 3 is not touched -/
def exConflict4 : AppendReq :=
  { term := 2, src := 2, prevLogIndex := 3, prevLogTerm := 1, entries := [{ index := 4, term := 2, typ := etNop }] }

/-- EXAMPLE (`latest_is_newest_step`, truncation, the boundary of the guard of `revertConfig`): a conflict AT
`latest.index = 3` (above the commit index 2 and `committed.index = 1`: acceptable) removes the configuration entry;
`revertConfig` goes back to `committed = c1` — the label, which has taken over from the compacted entry 1. A conflict at
4 leaves entry 3 in place, and `latest = c3` stays. (`ne.index ≤ configs.latest.index` is exactly the right guard.) -/
example :
    ReqOk C12Track.exT (.append exConflict3) ∧ (C12Track.exT.step (.append exConflict3) [] []).panicked = none ∧
    (C12Track.exT.step (.append exConflict3) [] []).configs = ⟨C12Track.c1, C12Track.c1⟩ ∧
    LatestIsNewest (C12Track.exT.step (.append exConflict3) [] []) ∧
    ReqOk C12Track.exT (.append exConflict4) ∧ (C12Track.exT.step (.append exConflict4) [] []).panicked = none ∧
    (C12Track.exT.step (.append exConflict4) [] []).configs = ⟨C12Track.c1, C12Track.c3⟩ ∧
    LatestIsNewest (C12Track.exT.step (.append exConflict4) [] []) :=
  ⟨by decide, by decide, by decide,
   latest_is_newest_step _ _ _ _ (by decide) C12Track.exT_tracks C12Track.exT_ordered (by decide) trivial (by decide),
   by decide, by decide, by decide,
   latest_is_newest_step _ _ _ _ (by decide) C12Track.exT_tracks C12Track.exT_ordered (by decide) trivial (by decide)⟩

/-- two configuration entries, 5 and 6, sent in one request -/
def exC5 : Config := { nodes := [C12Track.n1, C12Track.n2, { id := 3, addr := "c:1" }], index := 5, term := 1 }
def exC6 : Config := { nodes := [C12Track.n1, C12Track.n2, { id := 3, addr := "c:1", voter := true }], index := 6, term := 1 }
def exTwo : AppendReq :=
  { term := 1, src := 2, prevLogIndex := 4, prevLogTerm := 1, ldrCommitIndex := 5, entries := [exC5.toEntry, exC6.toEntry] }

/-- EXAMPLE (adoption; on a follower `committed` is merely the previous `latest`): `exT` receives entries 5 and 6, both
configurations, in one request. Afterwards `latest` = entry 6 and `committed` = entry 5 — the newest configuration
strictly below `latest` —, although the follower's commit index is 4 only. -/
example :
    ReqOk C12Track.exT (.append exTwo) ∧ (C12Track.exT.step (.append exTwo) [] []).panicked = none ∧
    (C12Track.exT.step (.append exTwo) [] []).configs = ⟨exC5, exC6⟩ ∧
    (C12Track.exT.step (.append exTwo) [] []).commitIndex = 4 ∧
    LatestIsNewest (C12Track.exT.step (.append exTwo) [] []) :=
  ⟨by decide, by decide, by decide, by decide,
   latest_is_newest_step _ _ _ _ (by decide) C12Track.exT_tracks C12Track.exT_ordered (by decide) trivial (by decide)⟩

/-- the heartbeat, then a user snapshot: request, the snapshot goroutine, its completion (with compaction) -/
def exRunOps : List (Op × List Nat × List (List Nat)) :=
  [(.append C12Track.exBeat, [], []), (.takeSnapshot 7 0, [], []), (.snapRun, [], []), (.snapTaken, [], [])]

/-- EXAMPLE (`latest_is_newest_run`, snapshot: entries at or below the snapshot drop out and the label takes over): the
run is acceptable (`snapRun` does not take the fallback: the FSM holds `c3`); afterwards the snapshot index is 4, no
configuration entry lies above it, and `latest` = the label `c3`. -/
example :
    RunOk C12Track.exT exRunOps ∧
    (C19Order.run C12Track.exT exRunOps).snapIndex = 4 ∧
    seg (C19Order.run C12Track.exT exRunOps).log 4 (C19Order.run C12Track.exT exRunOps).log.last = [] ∧
    label (C19Order.run C12Track.exT exRunOps) = C12Track.c3 ∧
    (C19Order.run C12Track.exT exRunOps).configs = ⟨C12Track.c3, C12Track.c3⟩ ∧
    LatestIsNewest (C19Order.run C12Track.exT exRunOps) := by
  have hr : RunOk C12Track.exT exRunOps := by
    refine ⟨by decide, trivial, by decide, trivial, trivial, by decide, trivial, ?_, by decide, trivial, trivial,
      by decide, trivial⟩
    intro rq _ _ _
    decide
  exact ⟨hr, by decide, by decide, by decide, by decide,
    (latest_is_newest_run _ _ (by decide) C12Track.exT_tracks C12Track.exT_ordered hr).1⟩

theorem exL_ordered : Ordered C08Step.exL :=
  ⟨⟨by decide, by decide, by decide, by decide, by decide, by decide, ⟨by decide, by decide, by decide⟩, by decide,
    fun rs h => by cases h⟩, by decide⟩

/-- EXAMPLE (leader side): the leader `C08Step.exL` (entries 1..3, entry 1 the configuration {1, 2 voters, 3 being
promoted}) learns that node 3 has caught up (`C08Step.exPromote`) and introduces configuration 4: `latest` = entry 4,
`committed` = entry 1. (The step's completion is checked by evaluation below: `majorityMatchIndex` sorts.) -/
example (hp : (C08Step.exL.step C08Step.exPromote [] []).panicked = none) :
    LatestIsNewest (C08Step.exL.step C08Step.exPromote [] []) :=
  latest_is_newest_step _ _ _ _ (by decide) (by decide) exL_ordered trivial trivial hp

#guard (C08Step.exL.step C08Step.exPromote [] []).panicked = none
#guard (C08Step.exL.step C08Step.exPromote [] []).log.entries.map (fun e => (e.index, e.config?.isSome)) =
  [(1, true), (2, false), (3, false), (4, true)]
#guard (C08Step.exL.step C08Step.exPromote [] []).configs.latest.index = 4
#guard (C08Step.exL.step C08Step.exPromote [] []).configs.committed = C08Step.exL.configs.latest
#guard decide (LatestIsNewest (C08Step.exL.step C08Step.exPromote [] []))

/-- EXAMPLE (`restart_latest_is_newest`): the disk `C10.exDisk` (snapshot at 2 labelled {9}, entries 3 (no-op) and 4
(configuration {1})) satisfies the hypotheses; the restarted node holds `latest` = entry 4, `committed` = the label. -/
example :
    C19Order.DiskOK C10.exDisk → C12Track.DiskTracks C10.exDisk ∧
    C10.NoDecodeErr (C10.window (C10.logOf C10.exDisk) (C10.snapOf C10.exDisk).index (C10.logOf C10.exDisk).last) ∧
    ((restart C10.exDisk 1 true).map (fun n => (n.configs.latest.index, n.configs.committed == label n,
      decide (LatestIsNewest n)))) = some (4, true, true) := by
  intro _
  refine ⟨by decide, by unfold C10.NoDecodeErr; decide, by decide⟩

/-- EXAMPLE (`log_inv_append`): `CfgRel.LogInv` holds for `exT` and survives the request carrying two configuration
entries (beyond `committed` = entry 5 the log then holds entry 6 only) and the truncating request. -/
example :
    CfgRel.LogInv C12Track.exT ∧ CfgRel.LogInv (C12Track.exT.step (.append exTwo) [] []) ∧
    CfgRel.LogInv (C12Track.exT.step (.append exConflict3) [] []) := by
  have h : CfgRel.LogInv C12Track.exT := by unfold CfgRel.LogInv CfgRel.CfgLog; decide
  exact ⟨h, log_inv_append _ _ _ _ h C12Track.exT_tracks C12Track.exT_ordered (by decide) (by decide),
    log_inv_append _ _ _ _ h C12Track.exT_tracks C12Track.exT_ordered (by decide) (by decide)⟩

/-! ### necessity of the hypotheses of `latest_is_newest_step`

Each example: a state satisfying the other hypotheses, an operation violating (only) the one in question, the step
completes (no panic) and the result does not satisfy `LatestIsNewest`. None is reachable in a correct cluster. -/

/-- NECESSITY of `AppendOk`, clause "a conflicting entry lies above `configs.committed.index`" — the situation of the
seeded defect "revertConfig guard off by one": a configuration whose entry was overwritten stays in force.
`C19Order.nec3`: entries 5 and 6 are configurations, `configs = ⟨entry 5, entry 6⟩`, commit index 3. A request whose
entry 4 conflicts (above the commit index, but NOT above `committed.index = 5`) truncates at 4; `revertConfig` makes
`latest := committed` = the configuration of entry 5 — which has just been deleted. The node now runs under a
configuration no entry of its log (and no snapshot) carries. NOT reachable: a leader appends a configuration only when
the previous one is committed cluster-wide (`canChangeConfig`), so a follower's `configs.committed` is never
truncated by a later leader (leader completeness, C02/C03). -/
theorem nec_conflict_below_committed :
    let q : AppendReq := { term := 2, src := 2, prevLogIndex := 3, prevLogTerm := 1,
                           entries := [{ index := 4, term := 2, typ := etNop }] }
    let s' := C19Order.nec3.step (.append q) [] []
    LatestIsNewest C19Order.nec3 ∧ C12Track.Tracks C19Order.nec3 ∧ Ordered C19Order.nec3 ∧
    ¬ ReqOk C19Order.nec3 (.append q) ∧ C19Order.nec3.commitIndex < 4 ∧
    s'.panicked = none ∧ s'.configs.latest.index = 5 ∧ s'.log.entries.filterMap Entry.config? = [] ∧
    ¬ LatestIsNewest s' :=
  ⟨by decide, by decide, C19Order.nec3_ordered, by decide, by decide, by decide, by decide, by decide, by decide⟩

/-- NECESSITY of `AppendOk`, clause "consecutive entries": entries 5, 6 (two configurations) followed by a conflicting
entry 4 in ONE request (`C19Order`): no single entry conflicts at or below `committed.index` when the request arrives,
but the truncation at 4 reverts to the configuration of entry 5, adopted and deleted within the same request. NOT
reachable: a replication sends a contiguous log view. -/
example :
    let q : AppendReq :=
      { term := 1, src := 2, prevLogIndex := 4, prevLogTerm := 1,
        entries := [{ index := 5, term := 1, typ := etConfig, cfg := some {} },
                    { index := 6, term := 1, typ := etConfig, cfg := some {} }, { index := 4, term := 2, typ := etNop }] }
    let s' := C19Order.nec1.step (.append q) [] []
    LatestIsNewest C19Order.nec1 ∧ C12Track.Tracks C19Order.nec1 ∧ Ordered C19Order.nec1 ∧
    chainB q.prevLogIndex q.entries = false ∧ s'.panicked = none ∧ s'.configs.latest.index = 5 ∧
    s'.lastLogIndex = 4 ∧ ¬ LatestIsNewest s' :=
  ⟨by decide, by decide, C19Order.nec1_ordered, by decide, by decide, by decide, by decide, by decide⟩

/-- a state in which the snapshot goroutine takes the fallback: entries 1..4 are no-ops (no configuration at all), the
pending request captured a configuration of index 7 -/
def exFallback : Node :=
  { C19Order.nec1 with
    commitIndex := 4
    fsm := { index := 4, term := 1 }
    snapPending := some { task := 1, minIndex := 0, config := { nodes := [C12Track.n1], index := 7, term := 1 } } }

theorem exFallback_ordered : Ordered exFallback :=
  ⟨⟨by decide, by decide, by decide, by decide, by decide, by decide, ⟨by decide, by decide, by decide⟩, by decide,
    fun rs h => by cases h⟩, by decide⟩

/-- NECESSITY of `NoFallback`: in `exFallback` the FSM holds no configuration; `snapRun` labels the snapshot at 4 with
the configuration captured at request time. The node's `latest` (the zero configuration: it has never seen one) is not
that label. NOT reachable: entry 1 of every log is the bootstrap configuration, every label a leader sends has index
`≥ 1`, so an FSM that has applied anything holds a configuration. -/
example :
    LatestIsNewest exFallback ∧ C12Track.Tracks exFallback ∧ Ordered exFallback ∧ ¬ NoFallback exFallback .snapRun ∧
    (exFallback.step .snapRun [] []).panicked = none ∧
    label (exFallback.step .snapRun [] []) = { nodes := [C12Track.n1], index := 7, term := 1 } ∧
    (exFallback.step .snapRun [] []).configs.latest = {} ∧ ¬ LatestIsNewest (exFallback.step .snapRun [] []) := by
  refine ⟨by decide, by decide, exFallback_ordered, ?_, by decide, by decide, by decide, by decide⟩
  intro h
  have := h { task := 1, minIndex := 0, config := { nodes := [C12Track.n1], index := 7, term := 1 } } rfl
    (by decide) (by decide)
  revert this
  decide

/-- a follower whose snapshot at 3 carries a WRONG label ({2}, index 1) while the log (entries 1..4, segments [0, 3])
still holds the configuration entry 2 = {1}; `configs` = entry 2; a finished snapshot waits for `onSnapshotTaken` -/
def exLab : Node :=
  { nid := 1, term := 1, durTerm := 1,
    log := { prev := 0, entries := [{ index := 1, term := 1, typ := etNop },
                                     { index := 2, term := 1, typ := etConfig, cfg := some { nodes := [C12Track.n1] } },
                                     { index := 3, term := 1, typ := etNop }, { index := 4, term := 1, typ := etNop }],
             flushed := 4, segs := [0, 3] },
    lastLogIndex := 4, lastLogTerm := 1, snapIndex := 3, snapTerm := 1,
    snapsDisk := [{ index := 3, term := 1, config := { nodes := [C12Track.n2], index := 1, term := 1 } }],
    configs := { committed := { nodes := [C12Track.n1], index := 2, term := 1 },
                 latest := { nodes := [C12Track.n1], index := 2, term := 1 } },
    commitIndex := 3, fsm := { index := 3, term := 1, config := { nodes := [C12Track.n1], index := 2, term := 1 } },
    snapResult := some { task := 1, index := 3 } }

theorem exLab_ordered : Ordered exLab :=
  ⟨⟨by decide, by decide, by decide, by decide, by decide, by decide, ⟨by decide, by decide, by decide⟩, by decide,
    fun rs h => by injection h with h; rw [← h]; decide⟩, by decide⟩

/-- NECESSITY of `Tracks` (clause `lab`: the label is the newest configuration at or below the snapshot index): in
`exLab` the latest configuration IS the newest entry of the log, but the label is not self-consistent. The compaction
of `onSnapshotTaken` drops entries 1..3; what remains of log ∪ snapshot says {2}, the node still runs under {1}.
NOT reachable: `C12Track.tracks_step`, `C12Track.every_snapshot_labelled_right`. -/
example :
    LatestIsNewest exLab ∧ Ordered exLab ∧ newest exLab.log (label exLab) exLab.snapIndex ≠ label exLab ∧
    (exLab.step .snapTaken [] []).panicked = none ∧ (exLab.step .snapTaken [] []).log.prev = 3 ∧
    (exLab.step .snapTaken [] []).configs.latest.nodes = [C12Track.n1] ∧
    (label (exLab.step .snapTaken [] [])).nodes = [C12Track.n2] ∧ ¬ LatestIsNewest (exLab.step .snapTaken [] []) :=
  ⟨by decide, exLab_ordered, by decide, by decide, by decide, by decide, by decide, by decide⟩

/-- a follower whose snapshot at 4 is labelled with a configuration of index 5 — BEYOND the snapshot and the log -/
def exOrd : Node :=
  { nid := 1, term := 1, durTerm := 1,
    log := { prev := 4, entries := [], flushed := 4, segs := [4] },
    lastLogIndex := 4, lastLogTerm := 1, snapIndex := 4, snapTerm := 1,
    snapsDisk := [{ index := 4, term := 1, config := { nodes := [C12Track.n1], index := 5, term := 1 } }],
    configs := { committed := { nodes := [C12Track.n1], index := 5, term := 1 },
                 latest := { nodes := [C12Track.n1], index := 5, term := 1 } },
    commitIndex := 4, fsm := { index := 4, term := 1, config := { nodes := [C12Track.n1], index := 5, term := 1 } } }

/-- NECESSITY of `Ordered` (clause `configs.latest.index ≤ lastLogIndex`; what `Order.InstallOk` protects): `exOrd`
holds `latest` = `committed` = its label, of index 5 > `lastLogIndex` = 4. The next configuration entry (index 5) is
adopted; `committed` (the label, index 5) is then neither `latest` nor strictly below it. NOT reachable:
`C19Order.ordered_step`. -/
example :
    let q : AppendReq := { term := 1, src := 2, prevLogIndex := 4, prevLogTerm := 1,
                           entries := [{ index := 5, term := 1, typ := etConfig,
                                         cfg := some { nodes := [C12Track.n1, C12Track.n2] } }] }
    let s' := exOrd.step (.append q) [] []
    LatestIsNewest exOrd ∧ C12Track.Tracks exOrd ∧ ¬ Ordered exOrd ∧ ReqOk exOrd (.append q) ∧
    s'.panicked = none ∧ s'.configs.committed.index = 5 ∧ s'.configs.latest.index = 5 ∧
    s'.configs.committed ≠ s'.configs.latest ∧ ¬ LatestIsNewest s' :=
  ⟨by decide, by decide, fun h => absurd h.latest_le_last (by decide), by decide, by decide, by decide, by decide,
   by decide, by decide⟩

/-- a new leader (node 1, term 2; configuration 1 = {1, 2, 3 voters, 4 being promoted and caught up}; entries 1..3, its
own no-op at 3 = `startIndex`; commit index 1) -/
def exBeyond : Node :=
  let n1 : CNode := { id := 1, addr := "a:1", voter := true }
  let n2 : CNode := { id := 2, addr := "b:1", voter := true }
  let n3 : CNode := { id := 3, addr := "c:1", voter := true }
  let n4 : CNode := { id := 4, addr := "d:1", voter := false, action := actPromote }
  let c : Config := { nodes := [n1, n2, n3, n4], index := 1, term := 1 }
  { nid := 1, cid := 7, term := 2, durTerm := 2, role := .leader, leader := 1,
    log := { entries := [c.toEntry, { index := 2, term := 1, typ := etNop }, { index := 3, term := 2, typ := etNop }],
             flushed := 3, segs := [0, 3] },
    lastLogIndex := 3, lastLogTerm := 2, commitIndex := 1, fsm := { index := 1, term := 1, config := c },
    configs := { committed := c, latest := c },
    ldr := { node := n1, numVoters := 3, startIndex := 3,
             repls := [{ id := 2, node := n2, matchIndex := 0 }, { id := 3, node := n3, matchIndex := 0 },
                       { id := 4, node := n4, matchIndex := 3, round := some { ordinal := 1, lastIndex := 3 } }] } }

/-- nodes 2 and 3 report the match index 4 — BEYOND the leader's log (last index 3); then a user snapshot -/
def exBeyondRun : List (Op × List Nat × List (List Nat)) :=
  [(.replUpdates [{ id := 2, upd := .matchIndex 4 }, { id := 3, upd := .matchIndex 4 }], [], []),
   (.takeSnapshot 1 0, [], []), (.snapRun, [], []), (.snapTaken, [], [])]

theorem exBeyond_ordered : Ordered exBeyond :=
  ⟨⟨by decide, by decide, by decide, by decide, by decide, by decide, ⟨by decide, by decide, by decide⟩, by decide,
    fun rs h => by cases h⟩, by decide⟩

/-- WHY THE PROVISO on the commit index in the clause `committed` (it cannot be dropped under `Order.ReqOk` alone):
`exBeyond` satisfies all three invariants. The quorum's match index 4 = `lastLogIndex + 1` makes `leader.setCommitIndex`
move the commit index to 4 (beyond the log); being commit-ready now, the leader promotes node 4 INSIDE that call: the
configuration entry lands at index 4 — exactly the commit index, so the `ViewAt` of `applyCommitted` does not panic — and
`configs = ⟨entry 1, entry 4⟩` with commit index 4 = `latest.index`: an uncommitted latest configuration the FSM has
already applied. The snapshot taken next (index 4) is labelled with entry 4 and the compaction drops entries 1..3: then
`committed` (entry 1) is NOT the newest configuration strictly below `latest` in log ∪ snapshot any more, while
`LatestIsNewest` (with the proviso) holds at every step. NOT reachable: a follower acknowledges entries the leader sent
(`NoPanic.ReqOk'` asks match indexes within the leader's log, and then the commit index never passes an uncommitted
`latest`). Checked by evaluation (`majorityMatchIndex` sorts): -/
example : LatestIsNewest exBeyond ∧ C12Track.Tracks exBeyond ∧ Ordered exBeyond :=
  ⟨by decide, by decide, exBeyond_ordered⟩

#guard ((exBeyond.step exBeyondRun[0]!.1 [] []).panicked, (exBeyond.step exBeyondRun[0]!.1 [] []).commitIndex,
  (exBeyond.step exBeyondRun[0]!.1 [] []).lastLogIndex, (exBeyond.step exBeyondRun[0]!.1 [] []).configs.committed.index,
  (exBeyond.step exBeyondRun[0]!.1 [] []).configs.latest.index) = (none, 4, 4, 1, 4)
#guard decide (LatestIsNewest (exBeyond.step exBeyondRun[0]!.1 [] []))
#guard (C19Order.run exBeyond exBeyondRun).panicked = none
#guard ((C19Order.run exBeyond exBeyondRun).snapIndex, (C19Order.run exBeyond exBeyondRun).log.prev,
  (label (C19Order.run exBeyond exBeyondRun)).index) = (4, 3, 4)
#guard decide (LatestIsNewest (C19Order.run exBeyond exBeyondRun))
#guard (C19Order.run exBeyond exBeyondRun).configs.committed.index = 1
#guard newest (C19Order.run exBeyond exBeyondRun).log (label (C19Order.run exBeyond exBeyondRun))
  ((C19Order.run exBeyond exBeyondRun).configs.latest.index - 1) = label (C19Order.run exBeyond exBeyondRun)

/-! NECESSITY of "the step does not panic": a Go panic kills the process; what the totalised model computes afterwards is
meaningless. Example (a limit of the MODEL, `C15NoPanic.exFuel`): when the recursion budget runs out between
`storeEntry` and `leader.changeConfig`, a configuration entry is in the log without being adopted. -/
#guard decide (LatestIsNewest (C15NoPanic.exFuel 11))
#guard ((C15NoPanic.exFuel 11).step (.replUpdates [{ id := 2, upd := .matchIndex 2 }]) [] []).panicked = some "fuel"
#guard !decide (LatestIsNewest ((C15NoPanic.exFuel 11).step (.replUpdates [{ id := 2, upd := .matchIndex 2 }]) [] []))

end C19Latest
end Raft

#print axioms Raft.C19Latest.latest_is_newest_step
#print axioms Raft.C19Latest.latest_is_newest_run
#print axioms Raft.C19Latest.latest_is_newest_step_good
#print axioms Raft.C19Latest.latest_above_snapshot
#print axioms Raft.C19Latest.latest_index_max
#print axioms Raft.C19Latest.committed_previous
#print axioms Raft.C19Latest.cfg_entries_below
#print axioms Raft.C19Latest.restart_latest_is_newest
#print axioms Raft.C19Latest.log_inv_append -- also C08
#print axioms Raft.C19Latest.log_inv_step -- also C08
#print axioms Raft.C19Latest.nec_conflict_below_committed
#print axioms Raft.C19Latest.exL_ordered
#print axioms Raft.C19Latest.exFallback_ordered
#print axioms Raft.C19Latest.exLab_ordered
#print axioms Raft.C19Latest.exBeyond_ordered
#print axioms Raft.Latest.block
#print axioms Raft.Latest.li_stepAll
#print axioms Raft.Latest.ci_onAppendEntries
#print axioms Raft.Latest.LNc.of_scan
