/-
C06 — acknowledged entries are durable on a majority of the voters — on the cluster-level transition system
`Raft.Commit` (Sys/Commit.lean): fixed voter set `V`, fixed stable configuration, no snapshots / compaction (the
`_partial` restrictions of C02Sys, see the header of Sys/Commit.lean).

"Durable" means: in the part of the log that is flushed to stable storage (`NLog.flushed`), i.e. in the disk
image `Node.durable` that a process crash keeps and `Node.restart` reads (`DurableRel.DiskHolds`,
`DurablyHolds`); "crash safe" means: in the disk image at EVERY storage point of EVERY enabled step
(`C05.crashDisk`, `DurableRel.CrashSafe`) — whenever the process may die.

Theorems (all for every state of `Commit.ReachableV V`, `V` duplicate free; nothing is assumed about the
schedule, the network or crashes beyond the enabling conditions of `Commit.Trans`):
* `commit_durable_on_majority_sys_partial` — every entry of the ledger `committed` (recorded at the moment a
  leader's commit index reaches it) and every index within ANY node's commit index is durably held, with all
  entries before it, by one duplicate-free majority `Q ⊆ V` of voters — in that state and in EVERY later state
  of the run, and on every crash image of every step taken from those states;
* `leader_self_ack_durable_partial` — the leader's own contribution: in the very state in which its commit index
  has moved to `N` the leader is a voter and its own durable log holds everything up to `N`;
* `acknowledged_durable_until_overwritten_partial` — the invariant behind it: an acknowledged entry of the
  acknowledgement's term stays in the voter's durable log unless an entry of a later term does not extend it;
* `no_loss_under_minority_crash_partial` — crash any set of nodes at any storage points (they restart from
  disk): the same majority still keeps every committed entry durably, every majority of voters (e.g. the
  survivors) contains a node that does, and every later leader holds the entries.
Examples at the end (`#guard` scenarios: commit of (2,2) durable on all three voters; a forged conflicting request
would remove it; finding (a): an acknowledgement of an earlier-term entry that is not durable on the voter).
-/
import RaftVerif.Lemmas.DurableRel

namespace Raft
namespace C06Sys
open Node LogRel CommitRel Commit C02Sys DurableRel
open Replication (Uniq)
open Election (FixedV setNode setNode_same setNode_other)

/-- `Q` is a duplicate-free majority of the voters `V` (non-voters never count) -/
def Majority (V Q : List Nat) : Prop := Q.Nodup ∧ (∀ v ∈ Q, v ∈ V) ∧ 2 * Q.length > V.length

theorem AckQuorum.majority {V : List Nat} {x : Commit.Sys} {m : Nat × Nat} {Q : List Nat}
    (h : AckQuorum V x m Q) : Majority V Q := ⟨h.1, h.2.1, h.2.2.1⟩

/-! ### the core: a member of the acknowledging majority, in a later state -/

section core
variable {V : List Nat} {x y : Commit.Sys}

/-- the situation: `m` is in the ledger of the reachable state `x`, `Q` is its acknowledging majority, `v ∈ Q`,
and `y` is a later state -/
structure Later (V : List Nat) (x y : Commit.Sys) (m : Nat × Nat) (Q : List Nat) (v : Nat) : Prop where
  hV : V.Nodup
  ix : CInv V x
  iy : CInv V y
  sy : SideV V y
  hT : ∀ c ∈ x.T, c ∈ y.T
  hm : m ∈ y.committed
  hQ : AckQuorum V y m Q
  hv : v ∈ Q

theorem later_of_run (hV : V.Nodup) (hx : Commit.ReachableV V x) (hrun : RunV V x y) {m : Nat × Nat}
    (hm : m ∈ x.committed) {Q : List Nat} (hQ : AckQuorum V x m Q) {v : Nat} (hv : v ∈ Q) :
    Later V x y m Q v := by
  obtain ⟨hy, hT, hC⟩ := run_reachable hx hrun
  obtain ⟨hIx, _⟩ := inv_reachable hV hx
  obtain ⟨hIy, hSy⟩ := inv_reachable hV hy
  exact ⟨hV, hIx, hIy, hSy, hT, hC m hm, hQ.run hT (run_acks hrun), hv⟩

namespace Later
variable {m : Nat × Nat} {Q : List Nat} {v : Nat}

/-- the member still holds the ledger entry durably -/
theorem durHolds (h : Later V x y m Q v) : DurHolds (y.node v) m := h.hQ.durHolds h.iy h.hm h.hv

theorem durablyHolds (h : Later V x y m Q v) : DurablyHolds y v m.1 m.2 :=
  (durablyHolds_iff h.iy).mpr h.durHolds

/-- … and returns from disk the very entries node `i` held in `x` up to an ancestor `(k, τ)` of `m` -/
theorem sameOnDisk (h : Later V x y m Q v) {i k τ : Nat} (hh : Holds (x.node i).log.entries k τ)
    (hanc : Anc x.T (k, τ) m) : k ≤ (y.node v).log.flushed ∧ SameOnDisk (y.node v).durable (x.node i) k := by
  have hd := h.durHolds
  have hkm : k ≤ m.1 := hanc.1
  have hk : Holds (y.node v).log.entries k τ := log_holds_anc h.iy v (hanc.mono h.hT) hd.2
  refine ⟨Nat.le_trans hkm hd.1, fun k' h1 hle => ?_⟩
  have hfl : k' ≤ (y.node v).log.flushed := Nat.le_trans hle (Nat.le_trans hkm hd.1)
  rw [durable_get? (nwf h.iy v) hfl, (nwf h.iy v).get?, (nwf h.ix i).get?, if_pos (show 0 < k' from h1),
    if_pos (show 0 < k' from h1)]
  refine ⟨path_agree (uniq h.iy) (log_path h.iy v) ((log_path h.ix i).mono h.hT) hk hh k' h1 hle, ?_⟩
  have : k' - 1 < (x.node i).log.entries.length := by have := hh.2.1; omega
  rw [List.getElem?_eq_getElem this]; rfl

/-- the ledger entry is on the member's disk whenever the member may die -/
theorem crash_holds (h : Later V x y m Q v) {op : Op} {src : Nat} (he : Commit.Enabled y v op src)
    (ra : List Nat) (ord : List (List Nat)) (n : Nat) :
    (C05.crashDisk (y.node v) op ra ord n).log.prev = 0 ∧
    Holds (C05.crashDisk (y.node v) op ra ord n).log.entries m.1 m.2 := by
  have sc : SC V y v op ra ord src := ⟨h.hV, h.iy, h.sy, he⟩
  obtain ⟨a, ha, a1, a2, a3⟩ := h.hQ.2.2.2 v h.hv
  exact ⟨(sc.img n).prev, DurableRel.SC.disk_holds sc n h.hm ha a1 a2 a3⟩

theorem crashSafe (h : Later V x y m Q v) : CrashSafe y v m.1 m.2 := by
  intro op ra ord src n he
  obtain ⟨c1, c2⟩ := h.crash_holds he ra ord n
  exact (diskHolds_iff c1).mpr c2

/-- … together with the very entries node `i` held in `x` up to an ancestor `(k, τ)` of `m` -/
theorem crash_same (h : Later V x y m Q v) {i k τ : Nat} (hh : Holds (x.node i).log.entries k τ)
    (hanc : Anc x.T (k, τ) m) {op : Op} {src : Nat} (he : Commit.Enabled y v op src)
    (ra : List Nat) (ord : List (List Nat)) (n : Nat) :
    SameOnDisk (C05.crashDisk (y.node v) op ra ord n) (x.node i) k := by
  have sc : SC V y v op ra ord src := ⟨h.hV, h.iy, h.sy, he⟩
  obtain ⟨hprev, hdm⟩ := h.crash_holds he ra ord n
  have hp := DurableRel.SC.disk_path sc n
  have hU : Uniq (stepC y v op ra ord src).T := sc.ry.uniq
  have hanc' : Anc (stepC y v op ra ord src).T (k, τ) m := (hanc.mono h.hT).mono sc.ext.T
  have hdk : Holds (C05.crashDisk (y.node v) op ra ord n).log.entries k τ := hanc'.on_path hU hp hdm
  have hpi : Path (stepC y v op ra ord src).T (x.node i).log.entries :=
    ((log_path h.ix i).mono h.hT).mono sc.ext.T
  intro k' h1 hle
  rw [get?_prev0 _ hprev, (nwf h.ix i).get?, if_pos (show 0 < k' from h1), if_pos (show 0 < k' from h1)]
  refine ⟨path_agree hU hp hpi hdk hh k' h1 hle, ?_⟩
  have : k' - 1 < (x.node i).log.entries.length := by have := hh.2.1; omega
  rw [List.getElem?_eq_getElem this]; rfl

/-- a restart from any crash image brings these entries back -/
theorem restart_same (h : Later V x y m Q v) {i k τ : Nat} (hh : Holds (x.node i).log.entries k τ)
    (hanc : Anc x.T (k, τ) m) {op : Op} {src : Nat} (he : Commit.Enabled y v op src)
    (ra : List Nat) (ord : List (List Nat)) (n retain : Nat) (sor : Bool) (w : Node)
    (hw : Node.restart (C05.crashDisk (y.node v) op ra ord n) retain sor = some w) :
    k ≤ w.log.flushed ∧ ∀ k', 1 ≤ k' → k' ≤ k → w.log.get? k' = (x.node i).log.get? k' := by
  have sc : SC V y v op ra ord src := ⟨h.hV, h.iy, h.sy, he⟩
  have im := sc.img n
  have hp := DurableRel.SC.disk_path sc n
  obtain ⟨hprev, hdm⟩ := h.crash_holds he ra ord n
  obtain ⟨wn, we, _, _⟩ := restart_nwf _ retain sor w hw im.snaps im.prev hp.2
  obtain ⟨_, _, wf, _, _⟩ := restart_facts _ retain sor w hw im.snaps im.prev im.dw
  have hkm : k ≤ m.1 := hanc.1
  refine ⟨by rw [wf, we]; exact Nat.le_trans hkm hdm.2.1, fun k' h1 hle => ?_⟩
  have := (h.crash_same hh hanc he ra ord n k' h1 hle).1
  rw [← this, wn.get?, get?_prev0 _ hprev, we]

/-- everything a member of the acknowledging majority guarantees -/
theorem keeps (h : Later V x y m Q v) {i k τ : Nat} (hh : Holds (x.node i).log.entries k τ)
    (hanc : Anc x.T (k, τ) m) : Keeps y v (x.node i) k :=
  ⟨(h.sameOnDisk hh hanc).1, (h.sameOnDisk hh hanc).2,
    fun _ ra ord _ n he => h.crash_same hh hanc he ra ord n,
    fun _ ra ord _ n retain sor w he hw => h.restart_same hh hanc he ra ord n retain sor w hw⟩

end Later
end core

/-! ### the theorems -/

/-- **C06, acknowledged entries are durable on a majority of the voters, cluster level — fixed voter set, fixed
stable configuration, no snapshots (partial).** Let `V` be a duplicate-free list of node ids and `x` any state of
the cluster reachable in the transition system `Raft.Commit` (Sys/Commit.lean: from an initial state — nothing
committed, logs pairwise matching and completely flushed — by ANY sequence of: a node handling any enabled
operation with any content and oracle; a node dying at any storage point of such a step and restarting from
disk; a leader putting on the wire an append request read from its log; see `leader_completeness_sys_partial`
for the enabling conditions; **restrictions (`_partial`)**: in every state every node's latest configuration is
stable with voter list `V`, no operation asks for a configuration change, no snapshot is installed, taken or
published and no log is compacted: `SideV`, `OpOK2`). Then:

1. for every entry `m = (index, term)` of the ledger `committed` — an entry is put there in the very step in
   which a LEADER's commit index reaches it by the majority rule, i.e. before any client is told that an update
   at or below it succeeded — there is a duplicate-free majority `Q` of the voters `V` (non-voters never count)
   such that in `x` AND in every later state `y` of the run (`RunV V x y`: any further steps, crashes, restarts,
   elections, truncations by later leaders) every member of `Q`
   * holds an entry with that term at that index in its DURABLE log (`DurablyHolds`: flushed to stable storage,
     what `restart` reads), and
   * would still find it on its disk if it died before, at any storage point of, or after any enabled step with
     any content (`CrashSafe`);
2. for every node `i` and every index `k` within `i`'s commit index (leader or follower) there is such a majority
   `Q` whose members, in `x` and in every later state `y`, KEEP the entries `1 … k` of `i`'s log (`Keeps`): they
   have flushed their log up to `k` at least; their disk returns, for EVERY index `1 ≤ k' ≤ k`, the very entry
   `i` holds at `k'` in `x` (index, term, type, payload, configuration) — entry `k` and all entries before it;
   so does the disk image at every storage point of every enabled step of a member (whenever it may die); and a
   member that restarts from such an image holds these very entries again. -/
theorem commit_durable_on_majority_sys_partial (V : List Nat) (hV : V.Nodup) (x : Commit.Sys)
    (hx : Commit.ReachableV V x) :
    (∀ m ∈ x.committed, ∃ Q, Majority V Q ∧ ∀ y, RunV V x y → ∀ v ∈ Q,
      DurablyHolds y v m.1 m.2 ∧ CrashSafe y v m.1 m.2) ∧
    (∀ i k, 1 ≤ k → k ≤ (x.node i).commitIndex → ∃ Q, Majority V Q ∧ ∀ y, RunV V x y → ∀ v ∈ Q,
      Keeps y v (x.node i) k) := by
  obtain ⟨hI, _⟩ := inv_reachable hV hx
  refine ⟨fun m hm => ?_, fun i k hk hkc => ?_⟩
  · obtain ⟨Q, hQ⟩ := ackQuorum_exists hI hm
    refine ⟨Q, AckQuorum.majority hQ, fun y hrun v hv => ?_⟩
    have hL := later_of_run hV hx hrun hm hQ hv
    exact ⟨hL.durablyHolds, hL.crashSafe⟩
  · obtain ⟨hh, m, hm, _, hanc⟩ := covered_committed hI hk hkc
    obtain ⟨Q, hQ⟩ := ackQuorum_exists hI hm
    exact ⟨Q, AckQuorum.majority hQ, fun y hrun v hv => (later_of_run hV hx hrun hm hQ hv).keeps hh hanc⟩

/-- **C06, the leader's own contribution (partial; same assumptions).** Let `x` be reachable and let node `i`
handle an enabled operation that is not an append request such that its commit index moves (`LeaderCommit`: the
leader-side majority rule; `N` is the new commit index, `τ` the term of the entry at `N`), and let
`y = stepC x i op ra ord src` be the resulting state (the target of `Commit.Trans.step`), satisfying the side
condition. Then in `y` — the very state in which the commit index has moved:
1. the ledgers record the commit `(N, τ)` and the leader's self acknowledgement `(i, τ, N, τ)` (the leader
   counting itself in `majorityMatchIndex`);
2. `i` is a voter (`i ∈ V`): the leader counts itself only as a voter;
3. the leader's own log is flushed up to `N` at least, its durable log holds `(N, τ)` and returns from disk
   every entry `1 ≤ k' ≤ N` of its log: the self acknowledgement is backed by the leader's own flush
   (`leader.setCommitIndex` = `commitLog(N)` THEN move the index, cf. `C06.leader_flushes_before_commit`);
4. and there is a majority `Q` of `V` (statement 2 of `commit_durable_on_majority_sys_partial` for `y`, `i`, `N`)
   whose members keep all entries of the leader up to `N` durably in `y` and ever after. -/
theorem leader_self_ack_durable_partial (V : List Nat) (hV : V.Nodup) (x : Commit.Sys)
    (hx : Commit.ReachableV V x) (i : Nat) (op : Op) (ra : List Nat) (ord : List (List Nat)) (src : Nat)
    (he : Commit.Enabled x i op src) (hlc : LeaderCommit op (x.node i) ((x.node i).step op ra ord))
    (hS : SideV V (stepC x i op ra ord src)) :
    let y := stepC x i op ra ord src
    let N := (y.node i).commitIndex
    let τ := termAt (y.node i).log.entries N
    ((N, τ) ∈ y.committed ∧ ({ voter := i, term := τ, index := N, eterm := τ } : Ack) ∈ y.acks) ∧
    i ∈ V ∧
    (N ≤ (y.node i).log.flushed ∧ DurablyHolds y i N τ ∧ SameOnDisk (y.node i).durable (y.node i) N) ∧
    (∃ Q, Majority V Q ∧ ∀ z, RunV V y z → ∀ v ∈ Q, Keeps z v (y.node i) N) := by
  intro y N τ
  obtain ⟨hI, hSx⟩ := inv_reachable hV hx
  have sc : SC V x i op ra ord src := ⟨hV, hI, hSx, he⟩
  have hy : Commit.ReachableV V y := .next x y hx (.step i op ra ord src he) hS
  obtain ⟨hIy, _⟩ := inv_reachable hV hy
  have hni : y.node i = (x.node i).step op ra ord := sc.node_i
  have happ := SC.lc_happ hlc
  obtain ⟨T, cev, hT⟩ := sc.commit_ev happ hlc
  have hN : N = ((x.node i).step op ra ord).commitIndex := by show (y.node i).commitIndex = _; rw [hni]
  have hτ : τ = T := by show termAt (y.node i).log.entries (y.node i).commitIndex = _; rw [hni]; exact hT
  have hN1 : 1 ≤ N := by have := cev.adv; omega
  have hmem : (N, τ) ∈ y.committed := by
    apply List.mem_append_left
    unfold newCommit
    rw [if_pos hlc, ← hni]
    exact List.mem_singleton.mpr rfl
  have hack : ({ voter := i, term := τ, index := N, eterm := τ } : Ack) ∈ y.acks := by
    apply List.mem_append_right
    apply List.mem_append_left
    unfold selfAck
    rw [if_pos hlc, ← hni]
    exact List.mem_singleton.mpr rfl
  have hfl : N ≤ (y.node i).log.flushed := by rw [hN, hni]; exact cev.flushed
  have hh : Holds (y.node i).log.entries N τ := by rw [hN, hτ, hni]; exact cev.holds
  have hiV : i ∈ V := by
    rcases cev.src with ⟨hl, _⟩ | ⟨hl, _⟩
    · exact hI.rp.ldrV i hl
    · have hl' : (y.node i).role = .leader := by rw [hni]; exact hl
      exact hIy.rp.ldrV i hl'
  refine ⟨⟨hmem, hack⟩, hiV, ⟨hfl, (durablyHolds_iff hIy).mpr ⟨hfl, hh⟩, fun k' h1 hle => ?_⟩, ?_⟩
  · refine ⟨durable_get? (nwf hIy i) (Nat.le_trans hle hfl), ?_⟩
    rw [(nwf hIy i).get?, if_pos (show 0 < k' from h1)]
    have : k' - 1 < (y.node i).log.entries.length := by have := hh.2.1; omega
    rw [List.getElem?_eq_getElem this]; rfl
  · have hkc : N ≤ (y.node i).commitIndex := Nat.le_refl _
    exact (commit_durable_on_majority_sys_partial V hV y hy).2 i N hN1 hkc

/-- **C06, what an acknowledgement promises (partial; same assumptions)** — the invariant behind the theorems
(`Commit.AckI.stable`). Let `a = (voter, term, index, eterm)` be a recorded acknowledgement of a reachable state
`x`: at a moment when the voter's term was `term` its log held an entry of term `eterm` at `index`, and it
answered `success` to an append request of that term ending at `index` (or it is the leader of `term` counting
itself). Then every entry `b` OF THE TERM OF THE ACKNOWLEDGEMENT on the path to the acknowledged entry
(`b.2 = a.term`, `b` an ancestor of or equal to `(index, eterm)`) is still in the voter's durable log — unless
the tree of created entries contains an entry of a later term, not above the voter's current term, that does not
extend `b` (a later leader overwrote it; by leader completeness this never happens to a committed `b`).
Entries of EARLIER terms below an acknowledgement need not be durable on the voter (finding (a) of C02Sys: a
follower that appends nothing answers `success` without flushing; its unflushed entries are its own, created when
it was leader — the scenario `exA` below); they are durable on the majority that acknowledged them to the leader
of their own term once they are committed (theorem `commit_durable_on_majority_sys_partial`). -/
theorem acknowledged_durable_until_overwritten_partial (V : List Nat) (hV : V.Nodup) (x : Commit.Sys)
    (hx : Commit.ReachableV V x) (a : Ack) (ha : a ∈ x.acks) (b : Nat × Nat) (hb : b.2 = a.term)
    (hanc : Anc x.T b (a.index, a.eterm)) :
    DurablyHolds x a.voter b.1 b.2 ∨
    ∃ c ∈ x.T, b.2 < c.e.term ∧ c.e.term ≤ (x.node a.voter).term ∧ ¬ Anc x.T b (c.e.index, c.e.term) := by
  obtain ⟨hI, _⟩ := inv_reachable hV hx
  rcases hI.ack.stable a ha b hb hanc with d | u
  · exact Or.inl ((durablyHolds_iff hI).mpr d)
  · exact Or.inr u

/-! ### crashes -/

/-- a burst of crashes: nodes of the list `C` die — each at any storage point of any enabled step, any number
of times, in any order — and restart from disk; nothing else happens (every state satisfies the side condition) -/
inductive CrashRun (V : List Nat) (C : List Nat) (x : Commit.Sys) : Commit.Sys → Prop
  | refl : CrashRun V C x x
  | crash (y : Commit.Sys) (i : Nat) (op : Op) (ra : List Nat) (ord : List (List Nat)) (src k retain : Nat)
      (sor : Bool) (n : Node) : CrashRun V C x y → i ∈ C → Commit.Enabled y i op src →
      Node.restart (C05.crashDisk (y.node i) op ra ord k) retain sor = some n →
      SideV V (crashC y i op n) → CrashRun V C x (crashC y i op n)

/-- a burst of crashes is a run of the system -/
theorem crashRun_run {V C : List Nat} {x y : Commit.Sys} (h : CrashRun V C x y) : RunV V x y := by
  induction h with
  | refl => exact .refl
  | crash y i op ra ord src k retain sor n _ _ he hn hs ih =>
    exact .next y _ ih (.crash i op ra ord src k retain sor n he hn) hs

/-- the nodes outside `C` are untouched, nothing is added to the ledgers of acknowledgements and commits -/
theorem crashRun_other {V C : List Nat} {x y : Commit.Sys} (h : CrashRun V C x y) :
    (∀ j, j ∉ C → y.node j = x.node j) ∧ y.acks = x.acks ∧ y.committed = x.committed := by
  induction h with
  | refl => exact ⟨fun _ _ => rfl, rfl, rfl⟩
  | crash y i op ra ord src k retain sor n _ hi _ _ _ ih =>
    refine ⟨fun j hj => ?_, ih.2.1, ih.2.2⟩
    have hne : j ≠ i := fun e => hj (e ▸ hi)
    rw [← ih.1 j hj]
    show setNode y.rp.el.node i n j = _
    rw [setNode_other _ _ _ _ hne]

/-- **C06, no acknowledged update is lost when nodes crash (partial; same assumptions).** Let `x` be reachable
and let the nodes of ANY list `C` — a minority of the voters, the leader, or even all nodes — die, each at any
storage point of any enabled step, any number of times, and restart from what is on their disks
(`CrashRun V C x y`; the nodes outside `C` are untouched: `crashRun_other`). Then for every index `k` that was
within the commit index of some node `j` in `x` (so a client may have been told that the update at `k`
succeeded):
1. a majority `Q` of the voters still keeps, in `y`, every entry `1 ≤ k' ≤ k` durably, exactly as `j` held it in
   `x` (`Keeps`: flushed, on disk whenever the node may die again, back in the log after any further restart);
2. hence EVERY majority `S` of the voters — e.g. the voters that are still alive if the nodes outside `S` never
   come back, or the electorate of any future leader — contains a node that does;
3. in every state `z` after `y` (any further steps, crashes, elections) the majority `Q` still keeps them, and
   every leader whose term is at least the term `j` had in `x` holds at every index `1 ≤ k' ≤ k` the very entry
   `j` held there in `x` (`leader_completeness_ever_partial`).
(In this model a crashed node keeps its disk; a node that never restarts is a node that takes no further step,
which every run allows. So the statement needs no bound on `C`; the bound is what statement 2 is about.) -/
theorem no_loss_under_minority_crash_partial (V : List Nat) (hV : V.Nodup) (x y : Commit.Sys)
    (hx : Commit.ReachableV V x) (C : List Nat) (hc : CrashRun V C x y) (j k : Nat) (hk : 1 ≤ k)
    (hkc : k ≤ (x.node j).commitIndex) :
    ∃ Q, Majority V Q ∧
      (∀ v ∈ Q, Keeps y v (x.node j) k) ∧
      (∀ S, Majority V S → ∃ v ∈ S, Keeps y v (x.node j) k) ∧
      (∀ z, RunV V y z →
        (∀ v ∈ Q, Keeps z v (x.node j) k) ∧
        ∀ l, (z.node l).role = .leader → (x.node j).term ≤ (z.node l).term → ∀ k', 1 ≤ k' → k' ≤ k →
          (z.node l).log.get? k' = (x.node j).log.get? k' ∧ ((x.node j).log.get? k').isSome = true) := by
  have hxy := crashRun_run hc
  obtain ⟨Q, hQ, hall⟩ := (commit_durable_on_majority_sys_partial V hV x hx).2 j k hk hkc
  refine ⟨Q, hQ, fun v hv => hall y hxy v hv, fun S hS => ?_, fun z hyz => ?_⟩
  · obtain ⟨v, hvQ, hvS⟩ := C01.quorums_intersect V Q S hV hQ.1 hS.1 hQ.2.1 hS.2.1
      (by have := hQ.2.2; have := hS.2.2; omega)
    exact ⟨v, hvS, hall y hxy v hvQ⟩
  · have hxz := run_trans hxy hyz
    refine ⟨fun v hv => hall z hxz v hv, fun l hl ht k' h1 hle => ?_⟩
    exact leader_completeness_ever_partial V hV x z hx hxz l j k' h1 (Nat.le_trans hle hkc) hl ht

/-! ### Examples (non-vacuity) — the scenario of Props/C02Sys.lean: three voters, node 1 is elected in term 2,
appends its no-op (2,2), nodes 2 and 3 acknowledge it, node 1 commits index 2 (`ex7`). As there, states in which
a node has run `leader.init` are evaluated with `#guard` (tests, not proofs): the mutually recursive leader
block does not reduce in the kernel. -/

/-- example: the hypotheses of the theorems (`V.Nodup`, a reachable state, a later state, a burst of
crashes) are satisfiable on the non-initial state `ex1` (node 1 is candidate of term 2) -/
example : [1, 2, 3].Nodup ∧ Commit.ReachableV [1, 2, 3] ex1 ∧ RunV [1, 2, 3] ex0 ex1 ∧
    CrashRun [1, 2, 3] [2, 3] ex1 ex1 ∧ Majority [1, 2, 3] [3, 1] :=
  ⟨by decide, .next ex0 ex1 (.init ex0 ex0_init.1 ex0_init.2) ex1_trans ex1_side,
    .next ex0 ex1 .refl ex1_trans ex1_side, .refl, by decide, by decide, by decide⟩

/-- example: the notions on a concrete node — in `ex1` the durable log of node 2 holds the bootstrap entry (1,1) -/
example : DurablyHolds ex1 2 1 1 ∧ SameOnDisk (ex1.node 2).durable (ex1.node 3) 1 := by
  refine ⟨⟨C04Sys.exE, by decide, by decide⟩, fun k' h1 hle => ?_⟩
  have : k' = 1 := by omega
  subst this
  exact ⟨by decide, by decide⟩

/-- the disk of node `v` in state `s` returns an entry of term `t` at index `k` (executable `DurablyHolds`) -/
def durB (s : Commit.Sys) (v k t : Nat) : Bool := (((s.node v).durable.log.get? k).map (·.term)) == some t

/-- the disk image of node `v` after `n` storage points of handling `op` returns an entry of term `t` at `k` -/
def crashB (s : Commit.Sys) (v : Nat) (op : Op) (n k t : Nat) : Bool :=
  ((((C05.crashDisk (s.node v) op [] [] n).log.get? k).map (·.term)) == some t)

/-- a conflicting append request of term 3 "from node 3" that no run contains -/
def exForged : AppendReq :=
  { term := 3, src := 3, prevLogIndex := 1, prevLogTerm := 1,
    entries := [{ index := 2, term := 3, typ := etNop }] }

-- the commit of (2,2) is in the ledger of `ex7`, and every voter (in particular the majority [2, 3] that
-- acknowledged, and the leader 1 itself: its self acknowledgement is backed by its flush) holds it durably
#guard ex7.committed == [(2, 2)] && (ex7.node 1).commitIndex == 2 && (ex7.node 1).log.flushed == 2
#guard durB ex7 1 2 2 && durB ex7 2 2 2 && durB ex7 3 2 2 && durB ex7 2 1 1 && durB ex7 3 1 1
-- before the acknowledgements the leader's no-op was NOT yet flushed on the leader (finding (a) of C02Sys: it
-- is the leader's own entry), and not yet held by node 3
#guard (ex3.node 1).log.flushed == 1 && !durB ex3 1 2 2 && !durB ex5 3 2 2 && durB ex5 2 2 2
-- node 2 dies at any storage point of an election timeout, or of a conflicting append request of a later
-- term 3 sent by node 3 (which cannot exist in a run: it is refused by the theorem's enabling conditions, but it
-- shows what the invariant excludes): the timeout keeps the entry, the forged request would remove it
#guard (List.range 4).all (fun n => crashB ex7 2 .timeout n 2 2)
#guard !(List.range 4).all (fun n => crashB ex7 2 (.append exForged) n 2 2)

/-- finding (a) of C02Sys, as a scenario (continuing `ex5`, where node 1 leads term 2 with its no-op (2,2) not yet
flushed and node 2 has acknowledged it): node 2 times out, node 3 votes for it, node 2 leads term 3 and sends
node 1 a request without entries whose previous entry is (2,2); node 1 answers `success` without flushing -/
def exA1 : Commit.Sys := stepC ex5 2 .timeout [] [] 0
def exA2 : Commit.Sys := stepC exA1 3 (.vote { term := 3, src := 2, lastLogIndex := 2, lastLogTerm := 2 }) [] [] 0
def exA3 : Commit.Sys := stepC exA2 2 (.voteResult false 3 rSuccess) [] [] 3
def exHb : AppendReq := { term := 3, src := 2, prevLogIndex := 2, prevLogTerm := 2, entries := [] }
def exA : Commit.Sys := stepC (sendC exA3 exHb) 1 (.append exHb) [] [] 0

-- node 1's acknowledgement (voter 1, term 3, index 2, entry term 2) is recorded although (2,2) is not durable on
-- node 1: the acknowledged entry is of an EARLIER term (its own, from term 2), the case
-- `acknowledged_durable_until_overwritten_partial` leaves out; nothing is committed, and node 2 holds (2,2) durably
#guard (exA3.node 2).role == .leader && (exA3.node 2).term == 3
#guard exA.acks.map (fun a => (a.voter, a.term, a.index, a.eterm)) == [(1, 3, 2, 2), (2, 2, 2, 2)]
#guard (exA.node 1).log.flushed == 1 && !durB exA 1 2 2 && durB exA 2 2 2 && exA.committed == []

end C06Sys
end Raft

#print axioms Raft.C06Sys.commit_durable_on_majority_sys_partial
#print axioms Raft.C06Sys.leader_self_ack_durable_partial
#print axioms Raft.C06Sys.acknowledged_durable_until_overwritten_partial
#print axioms Raft.C06Sys.no_loss_under_minority_crash_partial
