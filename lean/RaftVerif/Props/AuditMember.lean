/-
AUDIT of the theorems over `Raft.Member` (Sys/Member.lean; Props/C01Member, C04Member, C08Sys, C02Member, C08Member —
the cluster WITH membership changes).

Props/C08Member.lean proves reachable (`ReachableR`) only: an initial state, one election timeout, one identity request,
one crash during an election timeout.  No leader, no membership change.  The scenario of Props/C08Sys.lean is only
evaluated, and the audit found its tail (then `ex9`, `ex10`) NOT to be transitions of the system: the match-index reports
were not backed by acknowledgements (node 4 never received an entry) — `c08sys_ex10_not_enabled`. REPAIRED: the scenario
of Props/C08Sys.lean (`ex1 … ex12`) now is the initial segment `m1 … m15` of the run below (`c08sys_scenario_run`).
The audit also found statement 2 of `C08Member.cfg_latest_member_partial` / `C02Member.cfg_latest_member_modulo_sides`
to be satisfied by a degenerate witness (section 4). REPAIRED: the statement is now `C02Member.Protected` (no ghost
ledger); `protected_informative` (section 6) instantiates it on the runs below.

Here:
1. GENERAL: every state of every run of `ReachableR root` satisfies the side predicates the older theorems need of
   every state — `Boot`, `C08Sys.NodesOK`, `C04Member.Side` — so every run of `ReachableR` is a run of
   `ReachableP Boot`, `ReachableP NodesOK`, `ReachableP C04Member.Side` (`reachableP_of_R`).
2. a PROVED run of `ReachableR (1,1)` with a complete membership change: node 1 is elected (term 2) and commits its
   no-op; a client asks to add node 4 as a non-voter to be promoted; the leader introduces configuration (3,2),
   replicates it to the nodes 2, 3 and to the new node 4, commits it; node 4 has caught up: the leader PROMOTES it
   (configuration (4,2), voters 1, 2, 3, 4), replicates it to all; node 4 DIES and restarts (it finds the two
   configuration entries on disk); the leader commits configuration (4,2) with the quorum of FOUR voters.
   Along the run the voters of every node's latest configuration are [1,2,3] or [1,2,3,4] (`C08Sys.TwoV`).
3. a restriction the doc comments state only implicitly (`no_fresh_node`): in EVERY state of EVERY run every node's
   log holds a configuration entry — a node that joins the cluster (node 4 above) is not a fresh node with an empty
   log and no configuration (`follower.canStartElection`: "not bootstrapped yet"), it starts with the bootstrap entry.
-/
import RaftVerif.Props.C08Member
import RaftVerif.Props.AuditSys

namespace Raft
namespace AuditMember
open Node Election LogRel Replication CommitRel Commit Member MemberCore QuorumRel MemberInv MemberCommit
open MemberGood MemberSide NoPanic C08Member
open MemberStep (CfgLatest)

/-! ### 1. the side predicates of the older theorems hold along every run of `ReachableR` -/

theorem nodesOK_of_R {root : K} {x : Member.Sys} (h : ReachableR root x) : C08Sys.NodesOK x := by
  obtain ⟨hb, _, _, _, _, hg, _⟩ := side_conditions_member_partial root x h
  obtain ⟨_, hall, _⟩ := cfg_latest_member_partial root x h
  exact ⟨hb, fun i => ⟨(hg i).ordered.latest_le_last,
    Or.inr (C08Step.hasAnchor_of_anchored (hall i).anch.1)⟩⟩

theorem side4_of_R {root : K} {x : Member.Sys} (h : ReachableR root x) : C04Member.Side x := by
  obtain ⟨hb, hq, _⟩ := side_conditions_member_partial root x h
  exact ⟨hb, hq, (election_safety_member_partial root x h).2.2⟩

/-- **every run of `ReachableR root` is a run of the older systems**: `ReachableP` with `Boot`, `NodesOK` and
`C04Member.Side` in every state -/
theorem reachableP_of_R {root : K} {x : Member.Sys} (h : ReachableR root x) :
    ReachableP (fun y => Boot y ∧ C08Sys.NodesOK y ∧ C04Member.Side y) x := by
  induction h with
  | init x hi =>
    have r : ReachableR root x := .init x hi
    exact .init x hi.init ⟨(nodesOK_of_R r).1, nodesOK_of_R r, side4_of_R r⟩
  | next x y hx ht ih =>
    have r : ReachableR root y := .next x y hx ht
    exact .next x y ih (transR_trans ht) ⟨(nodesOK_of_R r).1, nodesOK_of_R r, side4_of_R r⟩

/-! ### 3. no node is ever fresh -/

/-- **in every state of every run every node holds a configuration entry in its log** (and is bootstrapped): the
initial states demand it of ALL nodes (`InitR.cfl : CfgLatest`), also of nodes that are members of no configuration
yet. A server that is added to the cluster therefore starts with (a copy of) the bootstrap entry, not with empty
storage. -/
theorem no_fresh_node {root : K} {x : Member.Sys} (h : ReachableR root x) (i : Nat) :
    (x.node i).log.entries ≠ [] ∧ (x.node i).configs.isBootstrapped = true ∧
    ∃ e ∈ (x.node i).log.entries, e.typ = etConfig := by
  obtain ⟨hb, _, hcl, _⟩ := side_conditions_member_partial root x h
  obtain ⟨⟨e, he, hec⟩, _⟩ := hcl i
  refine ⟨(fun hn => by rw [hn] at he; cases he), hb i, e, he, (config?_facts hec).1⟩

/-- … already in the initial states: `InitR` is not satisfied by a state in which some node has an empty log -/
theorem initR_no_fresh_node {root : K} {x : Member.Sys} (h : InitR root x) (i : Nat) :
    (x.node i).log.entries ≠ [] := (no_fresh_node (.init x h) i).1

/-! ### 4. a conclusion that a degenerate witness satisfies -/

/-- **PROBLEM (weak conclusion) — found by the audit, since REPAIRED.** Statement 2 of
`C08Member.cfg_latest_member_partial` (and of `C02Member.cfg_latest_member_modulo_sides`) read: "the index of the latest
configuration entry is PROTECTED — no append request of a current or later term ever conflicts with the log at or below
it — or the configuration is pending and the index of `configs.committed` is protected". Formally it WAS
`∃ G, G.root = root ∧ ∀ i, ProtG x G i … ∨ …` where the ghost ledger `G` is constrained by its `root` ONLY — the link
`MInv x G` to the state (which `MemberInv.protNoConf` needs) was dropped. With an arbitrary list of "commit records" `ProtG`
says nothing: in every reachable state there is a `G` with the required root for which EVERY index of EVERY node's log —
committed or not — is "protected" (take one record per entry of the tree). So the existential was satisfied by a
degenerate witness and carried no information. The statement now is `C02Member.Protected` — the conclusion of
`MemberInv.protNoConf`, about the state and its ledger `sent` only —, which is NOT satisfied by every index:
`protected_informative`. -/
theorem protG_degenerate {root : K} {x : Member.Sys} (h : ReachableR root x) :
    ∃ G : Ghost, G.root = root ∧ ∀ i k, 1 ≤ k → k ≤ (x.node i).log.entries.length → ProtG x G i k := by
  obtain ⟨⟨G0, hI, _⟩, _⟩ := inv_reachable root x h
  refine ⟨⟨root, x.cm.T.map (fun c => ⟨key c, key c, []⟩), [], []⟩, rfl, fun i k hk1 hk2 => ?_⟩
  have hh : Holds (x.node i).log.entries k (termAt (x.node i).log.entries k) := ⟨hk1, hk2, rfl⟩
  obtain ⟨c, hc, hck⟩ := log_recordM hI i hh
  refine ⟨hk1, hk2, Or.inr ⟨⟨key c, key c, []⟩, List.mem_map.mpr ⟨c, hc, rfl⟩, ?_, ?_⟩⟩
  · show (key c).2 ≤ _
    rw [hck]
    obtain ⟨e, he, het⟩ := holds_get hh
    rw [← het]
    exact hI.node.termLe i e (List.mem_of_getElem? he)
  · show Anc x.cm.T _ (key c)
    rw [hck]
    exact Anc.refl_of_holds (log_pathM hI i) hh

/-! ### builders for `Member.Enabled` and `ReqG` -/

/-- operations without enabling constraints -/
def isPlainM : Op → Bool
  | .vote _ | .append _ | .voteResult _ _ _ | .newEntries _ | .changeConfig _ _ | .replUpdates _ | .install _
  | .shutdown | .snapRun | .snapTaken | .timeoutNowResult _ _ _ => false
  | _ => true

theorem enM_plain (x : Member.Sys) (i : Nat) (op : Op) (hi : i ≠ 0) (h : isPlainM op = true) :
    Member.Enabled x i op 0 ∧ ReqG x i op := by
  cases op <;> first
    | (cases h; done)
    | exact ⟨⟨⟨hi, (fun _ h => by cases h), (fun ⟨_, _, _, h⟩ => by cases h), trivial, (fun _ h => by cases h)⟩,
        trivial, (fun _ h => by cases h), (fun _ h => by cases h), (fun _ h => by cases h)⟩,
        ⟨(fun _ _ h => by cases h), (fun _ h => by cases h), (fun _ _ _ h => by cases h)⟩⟩

theorem enM_append (x : Member.Sys) (i : Nat) (q : AppendReq) (hi : i ≠ 0) (hq : q ∈ x.cm.rp.sent)
    (hsrc : q.src ≠ i) : Member.Enabled x i (.append q) 0 ∧ ReqG x i (.append q) :=
  ⟨⟨⟨hi, (fun _ h => by cases h), (fun ⟨_, _, _, h⟩ => by cases h), trivial,
      (fun q' h => by cases h; exact Or.inr hq)⟩,
    trivial, (fun _ h => by cases h), (fun q' h => by cases h; exact hsrc), (fun _ h => by cases h)⟩,
   ⟨(fun _ _ h => by cases h), (fun _ h => by cases h), (fun _ _ _ h => by cases h)⟩⟩

theorem enM_vote (x : Member.Sys) (i : Nat) (q : VoteReq) (hi : i ≠ 0) (hs : q.src ≠ 0)
    (hc : ({ cand := q.src, term := q.term, lastIndex := q.lastLogIndex, lastTerm := q.lastLogTerm } : Camp) ∈
      x.cm.camps) : Member.Enabled x i (.vote q) 0 ∧ ReqG x i (.vote q) :=
  ⟨⟨⟨hi, (fun q' h => by cases h; exact hs), (fun ⟨_, _, _, h⟩ => by cases h), trivial, (fun _ h => by cases h)⟩,
    trivial, (fun q' h => by cases h; exact Or.inr hc), (fun _ h => by cases h), (fun _ h => by cases h)⟩,
   ⟨(fun _ _ h => by cases h), (fun _ h => by cases h), (fun _ _ _ h => by cases h)⟩⟩

theorem enM_voteResult (x : Member.Sys) (i t src : Nat) (hi : i ≠ 0) (hr : RealReply x.el i src) :
    Member.Enabled x i (.voteResult false t rSuccess) src ∧ ReqG x i (.voteResult false t rSuccess) :=
  ⟨⟨⟨hi, (fun _ h => by cases h), (fun _ => hr), trivial, (fun _ h => by cases h)⟩,
    trivial, (fun _ h => by cases h), (fun _ h => by cases h), (fun _ h => by cases h)⟩,
   ⟨(fun _ _ h => by cases h), (fun _ h => by cases h), (fun _ _ _ h => by cases h)⟩⟩

/-- match-index reports only, each backed by an acknowledgement -/
def OnlyMatch (us : List ReplUpdate) : Prop := ∀ u ∈ us, ∃ v, u.upd = .matchIndex v

theorem enM_upd (x : Member.Sys) (i : Nat) (us : List ReplUpdate) (hi : i ≠ 0) (hm : OnlyMatch us)
    (hb : ∀ u ∈ us, ∀ v, u.upd = .matchIndex v →
      v = 0 ∨ ∃ a ∈ x.cm.acks, a.voter = u.id ∧ a.term = (x.node i).term ∧ v ≤ a.index) :
    Member.Enabled x i (.replUpdates us) 0 ∧ ReqG x i (.replUpdates us) := by
  refine ⟨⟨⟨hi, (fun _ h => by cases h), (fun ⟨_, _, _, h⟩ => by cases h), ?_, (fun _ h => by cases h)⟩,
    trivial, (fun _ h => by cases h), (fun _ h => by cases h), (fun us' h => by cases h; exact hb)⟩,
   ⟨(fun _ _ h => by cases h), ?_, (fun _ _ _ h => by cases h)⟩⟩
  · intro u hu v hv
    obtain ⟨w, hw⟩ := hm u hu
    rw [hw] at hv; cases hv
  · intro us' h _ u hu _ v hv
    cases h
    obtain ⟨w, hw⟩ := hm u hu
    rw [hw] at hv; cases hv

theorem enM_cc (x : Member.Sys) (i t : Nat) (c : Config) (hi : i ≠ 0) (hn : (c.nodes.map (·.id)).Nodup)
    (hu : UserCfg true i c) : Member.Enabled x i (.changeConfig t c) 0 ∧ ReqG x i (.changeConfig t c) :=
  ⟨⟨⟨hi, (fun _ h => by cases h), (fun ⟨_, _, _, h⟩ => by cases h), trivial, (fun _ h => by cases h)⟩,
    hn, (fun _ h => by cases h), (fun _ h => by cases h), (fun _ h => by cases h)⟩,
   ⟨(fun t' c' h => by cases h; exact hu), (fun _ h => by cases h), (fun _ _ _ h => by cases h)⟩⟩

/-! ### `Config.validate` on the example request (the address syntax check uses `String.splitOn` / `String.toNat?`,
which the kernel does not evaluate: proved by unfolding) -/

macro "splitOn3" : tactic => `(tactic| (
  unfold String.splitOn
  rw [if_neg (by decide)]
  rw [String.splitOnAux]
  rw [if_neg (by decide), if_neg (by decide)]
  rw [String.splitOnAux]
  rw [if_neg (by decide), if_pos (by decide), if_pos (by decide)]
  rw [String.splitOnAux]
  rw [if_neg (by decide), if_neg (by decide)]
  rw [String.splitOnAux]
  rw [if_pos (by decide)]
  decide))

theorem addr_ok (a h p : String) (n : Nat) (hs : a.splitOn ":" = [h, p]) (hh : h.isEmpty = false)
    (hp : p.toNat? = some n) (hn : 0 < n) : addrValid a = true := by
  unfold addrValid
  rw [hs]
  simp [hh, hp, hn]

theorem addr1 : addrValid "a:1" = true :=
  addr_ok _ "a" "1" 1 (by splitOn3) (by decide)
    (by simp [String.toNat?, String.Slice.toNat?, String.Slice.isNat]) (by decide)
theorem addr2 : addrValid "a:2" = true :=
  addr_ok _ "a" "2" 2 (by splitOn3) (by decide)
    (by simp [String.toNat?, String.Slice.toNat?, String.Slice.isNat]) (by decide)
theorem addr3 : addrValid "a:3" = true :=
  addr_ok _ "a" "3" 3 (by splitOn3) (by decide)
    (by simp [String.toNat?, String.Slice.toNat?, String.Slice.isNat]) (by decide)
theorem addr4 : addrValid "a:4" = true :=
  addr_ok _ "a" "4" 4 (by splitOn3) (by decide)
    (by simp [String.toNat?, String.Slice.toNat?, String.Slice.isNat]) (by decide)

/-- the request of the scenario (the members 1, 2, 3 plus the non-voter 4 to be promoted) passes `Config.validate` -/
theorem exAdd_valid : configValid C08Sys.exAdd = true := by
  unfold configValid
  have h1 : C08Sys.exAdd.nodes.all nodeValid = true := by
    simp [C08Sys.exAdd, C04Sys.exCfg, nodeValid, addr1, addr2, addr3, addr4, actForceRemove, actPromote, actDemote]
  rw [h1]
  decide

/-- `leader.onChangeConfig` for a configuration that passes `Config.validate` (the check is left out) -/
def onChangeConfigV (s : Node) (task : Nat) (newConf : Config) : Node :=
  if !s.configs.isCommitted then s.reply task "inProgress:configChange"
  else if s.commitIndex < s.ldr.startIndex then s.reply task "temp:notCommitReady"
  else if newConf.index ≠ s.configs.latest.index then s.reply task "plain:staleConfig"
  else if s.configs.latest.nodes.any (fun n => match newConf.find? n.id with
      | none => true
      | some nn => n.voter != nn.voter) then s.reply task "error"
  else if newConf.nodes.any (fun n => !s.configs.latest.has n.id && n.voter) then s.reply task "error"
  else if !newConf.nodes.any (fun n => n.voter && n.action == actNone) then s.reply task "error"
  else
    let lastIndex := s.lastLogIndex
    let s := checkConfigActions (fuelFor 0) s task newConf
    if s.lastLogIndex = lastIndex then doChangeConfig (fuelFor 1) s task newConf else s

theorem onChangeConfig_valid (s : Node) (task : Nat) (c : Config) (hv : configValid c = true) :
    s.onChangeConfig task c = onChangeConfigV s task c := by
  unfold Node.onChangeConfig onChangeConfigV
  simp only [hv, Bool.not_true, Bool.false_eq_true, if_false]
  rfl

/-- the post-state of a leader handling a valid `ChangeConfig` request -/
def ccPost (s : Node) (task : Nat) (c : Config) : Node := settle 6 (onChangeConfigV (s.begin [] []) task c) s.role

theorem changeConfig_step_valid (s : Node) (task : Nat) (c : Config) (hl : s.role = .leader)
    (hv : configValid c = true) : s.step (.changeConfig task c) [] [] = ccPost s task c := by
  unfold ccPost
  rw [TL.step_eq_settle s _ [] [] (by intro h; cases h)]
  have hh : (s.begin [] []).handle (.changeConfig task c) = (s.begin [] []).onChangeConfig task c := by
    unfold Node.handle
    dsimp only
    rw [if_pos (show (s.begin [] []).role = .leader from hl)]
  rw [hh, onChangeConfig_valid _ _ _ hv]

/-! ### 2. the run -/

abbrev V3 : List Nat := [1, 2, 3]
abbrev V4 : List Nat := [1, 2, 3, 4]

/-- `Member.stepM` with the post-state of the acting node as a parameter -/
def stepMP (x : Member.Sys) (i : Nat) (op : Op) (src : Nat) (post : Node) : Member.Sys :=
  { cm := { rp := { el := { node := setNode x.cm.rp.el.node i post
                            grants := voteGrant i op post ++ (selfGrant i (x.node i) post ++ x.cm.rp.el.grants)
                            counted := countedBy i (x.node i) op src ++ x.cm.rp.el.counted
                            won := (if post.role = .leader then [(i, post.term)] else []) ++ x.cm.rp.el.won }
                    sent := x.cm.rp.sent
                    created := newCreated i (x.node i).log.entries post.log.entries op ++ x.cm.rp.created }
            acks := ackOf i op post ++ (selfAck i op (x.node i) post ++ x.cm.acks)
            camps := campOf i (x.node i) post ++ x.cm.camps
            committed := newCommit op (x.node i) post ++ x.cm.committed }
    ecfg := ecfgOf i (x.node i) post ++ x.ecfg
    changes := changeOf i (x.node i) op post ++ x.changes }

theorem stepM_eq (x : Member.Sys) (i : Nat) (op : Op) (ra : List Nat) (ord : List (List Nat)) (src : Nat) :
    stepM x i op ra ord src = stepMP x i op src ((x.node i).step op ra ord) := rfl

def sendM (x : Member.Sys) (q : AppendReq) : Member.Sys :=
  { x with cm := { x.cm with rp := { x.cm.rp with sent := q :: x.cm.rp.sent } } }

/-- a state of the run: reachable in `ReachableR`, and reachable with `TwoV V3 V4` in every state -/
def RM (x : Member.Sys) : Prop := ReachableR (1, 1) x ∧ ReachableP (C08Sys.TwoV V3 V4) x

theorem twoV_set (x y : Member.Sys) (i : Nat) (n : Node) (hs : C08Sys.TwoV V3 V4 x)
    (hy : y.cm.rp.el.node = setNode x.cm.rp.el.node i n)
    (hn : n.configs.isBootstrapped = true ∧ (n.configs.latest.voters = V3 ∨ n.configs.latest.voters = V4)) :
    C08Sys.TwoV V3 V4 y := by
  have hnode : ∀ j, y.node j = setNode x.cm.rp.el.node i n j := fun j => by
    show y.cm.rp.el.node j = _; rw [hy]
  refine ⟨fun j => ?_, fun j => ?_⟩
  · rw [hnode j]
    by_cases hj : j = i
    · subst hj; rw [setNode_same]; exact hn.1
    · rw [setNode_other _ _ _ _ hj]; exact hs.1 j
  · rw [hnode j]
    by_cases hj : j = i
    · subst hj; rw [setNode_same]; exact hn.2
    · rw [setNode_other _ _ _ _ hj]; exact hs.2 j

theorem rm_step {x : Member.Sys} (hx : RM x) (i : Nat) (op : Op) (src : Nat)
    (he : Member.Enabled x i op src ∧ ReqG x i op) (ho : (x.node i).closed = "")
    (hn : ((x.node i).step op [] []).configs.isBootstrapped = true ∧
      (((x.node i).step op [] []).configs.latest.voters = V3 ∨
       ((x.node i).step op [] []).configs.latest.voters = V4)) :
    RM (stepM x i op [] [] src) :=
  ⟨.next x _ hx.1 (.step i op [] [] src he.1 he.2 ho),
   .next x _ hx.2 (.step i op [] [] src he.1) (twoV_set x _ i _ hx.2.side rfl hn)⟩

theorem rm_crash {x : Member.Sys} (hx : RM x) (i : Nat) (op : Op) (src k : Nat) (n : Node)
    (he : Member.Enabled x i op src ∧ ReqG x i op) (ho : (x.node i).closed = "" ∨ k = 0)
    (hr : Node.restart (C05.crashDisk (x.node i) op [] [] k) 1 true = some n)
    (hn : n.configs.isBootstrapped = true ∧ (n.configs.latest.voters = V3 ∨ n.configs.latest.voters = V4)) :
    RM (crashM x i op n) :=
  ⟨.next x _ hx.1 (.crash i op [] [] src k 1 true n he.1 he.2 ho (Nat.le_refl _) hr),
   .next x _ hx.2 (.crash i op [] [] src k 1 true n he.1 hr) (twoV_set x _ i _ hx.2.side rfl hn)⟩

theorem rm_send {x : Member.Sys} (hx : RM x) (i : Nat) (q : AppendReq) (hi : i ≠ 0)
    (hl : (x.node i).role = .leader) (hr : ReadFrom (x.node i) q)
    (hc : q.ldrCommitIndex ≤ (x.node i).commitIndex) : RM (sendM x q) :=
  ⟨.next x _ hx.1 (.send i q hi hl hr hc), .next x _ hx.2 (.send i q hi hl hr hc) ⟨hx.2.side.1, hx.2.side.2⟩⟩

open C07Sys (altPost replUpdates_step_alt)

abbrev mVote : VoteReq := { term := 2, src := 1, lastLogIndex := 1, lastLogTerm := 1 }
def m1 : Member.Sys := stepM ex0 1 .timeout [] [] 0
def m2 : Member.Sys := stepM m1 2 (.vote mVote) [] [] 0
def m3 : Member.Sys := stepM m2 1 (.voteResult false 2 rSuccess) [] [] 2
def mReq : AppendReq :=
  { term := 2, src := 1, prevLogIndex := 1, prevLogTerm := 1, entries := (m3.node 1).log.entries.drop 1 }
def m4 : Member.Sys := sendM m3 mReq
def m5 : Member.Sys := stepM m4 2 (.append mReq) [] [] 0
def m6 : Member.Sys := stepM m5 3 (.append mReq) [] [] 0
abbrev mUpd (v : Nat) : List ReplUpdate := [{ id := 2, upd := .matchIndex v }, { id := 3, upd := .matchIndex v }]
/-- the leader commits its no-op -/
def m7 : Member.Sys := stepMP m6 1 (.replUpdates (mUpd 2)) 0 (altPost (m6.node 1) (mUpd 2) 2)
/-- the request: the present members plus node 4, a non-voter to be promoted -/
abbrev mAdd : Config := C08Sys.exAdd
/-- the leader introduces configuration (3,2) -/
def m8 : Member.Sys := stepMP m7 1 (.changeConfig 5 mAdd) 0 (ccPost (m7.node 1) 5 mAdd)
def mReq3 : AppendReq :=
  { term := 2, src := 1, prevLogIndex := 2, prevLogTerm := 2, ldrCommitIndex := 2,
    entries := (m8.node 1).log.entries.drop 2 }
def m9 : Member.Sys := sendM m8 mReq3
def m10 : Member.Sys := stepM m9 2 (.append mReq3) [] [] 0
def m11 : Member.Sys := stepM m10 3 (.append mReq3) [] [] 0
/-- the new node 4 (it holds the bootstrap entry only) gets the entries 2 and 3 -/
def mReq4 : AppendReq :=
  { term := 2, src := 1, prevLogIndex := 1, prevLogTerm := 1, ldrCommitIndex := 2,
    entries := (m8.node 1).log.entries.drop 1 }
def m12 : Member.Sys := sendM m11 mReq4
def m13 : Member.Sys := stepM m12 4 (.append mReq4) [] [] 0
/-- configuration (3,2) is committed -/
def m14 : Member.Sys := stepMP m13 1 (.replUpdates (mUpd 3)) 0 (altPost (m13.node 1) (mUpd 3) 3)
abbrev mUpd4 : List ReplUpdate := [{ id := 4, upd := .matchIndex 3 }]
/-- node 4 has caught up: the leader promotes it — configuration (4,2), voters 1, 2, 3, 4 -/
def m15 : Member.Sys := stepMP m14 1 (.replUpdates mUpd4) 0 (altPost (m14.node 1) mUpd4 3)
def mReq5 : AppendReq :=
  { term := 2, src := 1, prevLogIndex := 3, prevLogTerm := 2, ldrCommitIndex := 3,
    entries := (m15.node 1).log.entries.drop 3 }
def m16 : Member.Sys := sendM m15 mReq5
def m17 : Member.Sys := stepM m16 2 (.append mReq5) [] [] 0
def m18 : Member.Sys := stepM m17 3 (.append mReq5) [] [] 0
def m19 : Member.Sys := stepM m18 4 (.append mReq5) [] [] 0
/-- node 4 dies between two steps and restarts: it finds the configuration entries (3,2) and (4,2) on disk -/
def k4 : Node := (Node.restart (C05.crashDisk (m19.node 4) .timeout [] [] 0) 1 true).getD {}
def m20 : Member.Sys := crashM m19 4 .timeout k4
/-- the leader commits configuration (4,2): the quorum is three of four -/
def m21 : Member.Sys := stepMP m20 1 (.replUpdates (mUpd 4)) 0 (altPost (m20.node 1) (mUpd 4) 4)

theorem q0 : RM ex0 :=
  ⟨.init ex0 ex0_initR, .init ex0 C08Sys.ex0_init ⟨fun _ => rfl, fun _ => Or.inl rfl⟩⟩

set_option maxRecDepth 100000 in
theorem q1 : RM m1 := rm_step q0 1 .timeout 0 (enM_plain _ 1 _ (by decide) rfl) rfl (by decide +kernel)

set_option maxRecDepth 100000 in
theorem q2 : RM m2 :=
  rm_step q1 2 (.vote mVote) 0 (enM_vote _ 2 mVote (by decide) (by decide) (by decide +kernel)) (by decide +kernel)
    (by decide +kernel)

set_option maxRecDepth 100000 in
theorem q3 : RM m3 :=
  rm_step q2 1 (.voteResult false 2 rSuccess) 2
    (enM_voteResult _ 1 2 2 (by decide) ⟨by decide, by decide +kernel, by decide +kernel, by decide +kernel⟩)
    (by decide +kernel) (by decide +kernel)

set_option maxRecDepth 100000 in
theorem q4 : RM m4 :=
  rm_send q3 1 mReq (by decide) (by decide +kernel)
    ⟨by decide +kernel, by decide +kernel, by decide +kernel, by decide +kernel, ⟨1, by decide +kernel⟩⟩
    (by decide +kernel)

set_option maxRecDepth 100000 in
theorem q5 : RM m5 :=
  rm_step q4 2 (.append mReq) 0 (enM_append _ 2 mReq (by decide) (by decide +kernel) (by decide +kernel))
    (by decide +kernel) (by decide +kernel)

set_option maxRecDepth 100000 in
theorem q6 : RM m6 :=
  rm_step q5 3 (.append mReq) 0 (enM_append _ 3 mReq (by decide) (by decide +kernel) (by decide +kernel))
    (by decide +kernel) (by decide +kernel)

theorem mUpd_only (v : Nat) : OnlyMatch (mUpd v) := by
  intro u hu
  rcases List.mem_cons.mp hu with e | hu
  · exact ⟨v, by rw [e]⟩
  · exact ⟨v, by rw [List.mem_singleton.mp hu]⟩

theorem mUpd_backed (x : Member.Sys) (i v : Nat) (a2 a3 : Ack) (h2 : a2 ∈ x.cm.acks) (h3 : a3 ∈ x.cm.acks)
    (e2 : a2.voter = 2 ∧ a2.term = (x.node i).term ∧ v ≤ a2.index)
    (e3 : a3.voter = 3 ∧ a3.term = (x.node i).term ∧ v ≤ a3.index) :
    ∀ u ∈ mUpd v, ∀ w, u.upd = .matchIndex w →
      w = 0 ∨ ∃ a ∈ x.cm.acks, a.voter = u.id ∧ a.term = (x.node i).term ∧ w ≤ a.index := by
  intro u hu w hw
  rcases List.mem_cons.mp hu with e | hu
  · rw [e] at hw ⊢; cases hw; exact Or.inr ⟨a2, h2, e2⟩
  · rw [List.mem_singleton.mp hu] at hw ⊢; cases hw; exact Or.inr ⟨a3, h3, e3⟩

set_option maxRecDepth 100000 in
theorem mm6 : (replUpdLoop ((m6.node 1).begin [] []) {} (mUpd 2)).1.majorityMatchIndex = (2, true) := by
  unfold Node.majorityMatchIndex
  rw [if_neg (by decide +kernel)]
  dsimp only
  have h1 : (replUpdLoop ((m6.node 1).begin [] []) {} (mUpd 2)).1.voterMatches = [2, 2, 2] := by decide +kernel
  have h2 : [2, 2, 2].mergeSort geB = [2, 2, 2] := by
    simp [List.mergeSort, List.MergeSort.Internal.splitInTwo, geB]
  rw [h1, h2]
  decide +kernel

set_option maxRecDepth 100000 in
theorem st6 : (m6.node 1).step (.replUpdates (mUpd 2)) [] [] = altPost (m6.node 1) (mUpd 2) 2 :=
  replUpdates_step_alt _ _ 2 (by decide +kernel) mm6

theorem m7_eq : stepM m6 1 (.replUpdates (mUpd 2)) [] [] 0 = m7 := by rw [stepM_eq, st6]; rfl

set_option maxRecDepth 100000 in
theorem q7 : RM m7 := by
  have := rm_step q6 1 (.replUpdates (mUpd 2)) 0
    (enM_upd _ 1 _ (by decide) (mUpd_only 2)
      (mUpd_backed _ 1 2 ⟨2, 2, 2, 2⟩ ⟨3, 2, 2, 2⟩ (by decide +kernel) (by decide +kernel) (by decide +kernel)
        (by decide +kernel)))
    (by decide +kernel) (by rw [st6]; decide +kernel)
  rw [m7_eq] at this
  exact this

set_option maxRecDepth 100000 in
theorem st7 : (m7.node 1).step (.changeConfig 5 mAdd) [] [] = ccPost (m7.node 1) 5 mAdd :=
  changeConfig_step_valid _ _ _ (by decide +kernel) exAdd_valid

theorem m8_eq : stepM m7 1 (.changeConfig 5 mAdd) [] [] 0 = m8 := by rw [stepM_eq, st7]; rfl

set_option maxRecDepth 100000 in
theorem q8 : RM m8 := by
  have := rm_step q7 1 (.changeConfig 5 mAdd) 0 (enM_cc _ 1 5 mAdd (by decide) (by decide) (by decide))
    (by decide +kernel) (by rw [st7]; decide +kernel)
  rw [m8_eq] at this
  exact this

set_option maxRecDepth 100000 in
theorem q9 : RM m9 :=
  rm_send q8 1 mReq3 (by decide) (by decide +kernel)
    ⟨by decide +kernel, by decide +kernel, by decide +kernel, by decide +kernel, ⟨1, by decide +kernel⟩⟩
    (by decide +kernel)

set_option maxRecDepth 100000 in
theorem q10 : RM m10 :=
  rm_step q9 2 (.append mReq3) 0 (enM_append _ 2 mReq3 (by decide) (by decide +kernel) (by decide +kernel))
    (by decide +kernel) (by decide +kernel)

set_option maxRecDepth 100000 in
theorem q11 : RM m11 :=
  rm_step q10 3 (.append mReq3) 0 (enM_append _ 3 mReq3 (by decide) (by decide +kernel) (by decide +kernel))
    (by decide +kernel) (by decide +kernel)

set_option maxRecDepth 100000 in
theorem q12 : RM m12 :=
  rm_send q11 1 mReq4 (by decide) (by decide +kernel)
    ⟨by decide +kernel, by decide +kernel, by decide +kernel, by decide +kernel, ⟨2, by decide +kernel⟩⟩
    (by decide +kernel)

set_option maxRecDepth 100000 in
theorem q13 : RM m13 :=
  rm_step q12 4 (.append mReq4) 0 (enM_append _ 4 mReq4 (by decide) (by decide +kernel) (by decide +kernel))
    (by decide +kernel) (by decide +kernel)

set_option maxRecDepth 100000 in
theorem mm13 : (replUpdLoop ((m13.node 1).begin [] []) {} (mUpd 3)).1.majorityMatchIndex = (3, true) := by
  unfold Node.majorityMatchIndex
  rw [if_neg (by decide +kernel)]
  dsimp only
  have h1 : (replUpdLoop ((m13.node 1).begin [] []) {} (mUpd 3)).1.voterMatches = [3, 3, 3] := by decide +kernel
  have h2 : [3, 3, 3].mergeSort geB = [3, 3, 3] := by
    simp [List.mergeSort, List.MergeSort.Internal.splitInTwo, geB]
  rw [h1, h2]
  decide +kernel

set_option maxRecDepth 100000 in
theorem st13 : (m13.node 1).step (.replUpdates (mUpd 3)) [] [] = altPost (m13.node 1) (mUpd 3) 3 :=
  replUpdates_step_alt _ _ 3 (by decide +kernel) mm13

theorem m14_eq : stepM m13 1 (.replUpdates (mUpd 3)) [] [] 0 = m14 := by rw [stepM_eq, st13]; rfl

set_option maxRecDepth 100000 in
theorem q14 : RM m14 := by
  have := rm_step q13 1 (.replUpdates (mUpd 3)) 0
    (enM_upd _ 1 _ (by decide) (mUpd_only 3)
      (mUpd_backed _ 1 3 ⟨2, 2, 3, 2⟩ ⟨3, 2, 3, 2⟩ (by decide +kernel) (by decide +kernel) (by decide +kernel)
        (by decide +kernel)))
    (by decide +kernel) (by rw [st13]; decide +kernel)
  rw [m14_eq] at this
  exact this

set_option maxRecDepth 100000 in
theorem mm14 : (replUpdLoop ((m14.node 1).begin [] []) {} mUpd4).1.majorityMatchIndex = (3, true) := by
  unfold Node.majorityMatchIndex
  rw [if_neg (by decide +kernel)]
  dsimp only
  have h1 : (replUpdLoop ((m14.node 1).begin [] []) {} mUpd4).1.voterMatches = [4, 3, 3, 3] := by decide +kernel
  have h2 : [4, 3, 3, 3].mergeSort geB = [4, 3, 3, 3] := by
    simp [List.mergeSort, List.MergeSort.Internal.splitInTwo, geB]
  rw [h1, h2]
  decide +kernel

set_option maxRecDepth 100000 in
theorem st14 : (m14.node 1).step (.replUpdates mUpd4) [] [] = altPost (m14.node 1) mUpd4 3 :=
  replUpdates_step_alt _ _ 3 (by decide +kernel) mm14

theorem m15_eq : stepM m14 1 (.replUpdates mUpd4) [] [] 0 = m15 := by rw [stepM_eq, st14]; rfl

set_option maxRecDepth 100000 in
theorem q15 : RM m15 := by
  have hb : ∀ u ∈ mUpd4, ∀ w, u.upd = .matchIndex w →
      w = 0 ∨ ∃ a ∈ m14.cm.acks, a.voter = u.id ∧ a.term = (m14.node 1).term ∧ w ≤ a.index := by
    intro u hu w hw
    rw [List.mem_singleton.mp hu] at hw ⊢; cases hw
    exact Or.inr ⟨⟨4, 2, 3, 2⟩, by decide +kernel, by decide +kernel⟩
  have hm : OnlyMatch mUpd4 := fun u hu => ⟨3, by rw [List.mem_singleton.mp hu]⟩
  have := rm_step q14 1 (.replUpdates mUpd4) 0 (enM_upd _ 1 _ (by decide) hm hb)
    (by decide +kernel) (by rw [st14]; decide +kernel)
  rw [m15_eq] at this
  exact this

set_option maxRecDepth 100000 in
theorem q16 : RM m16 :=
  rm_send q15 1 mReq5 (by decide) (by decide +kernel)
    ⟨by decide +kernel, by decide +kernel, by decide +kernel, by decide +kernel, ⟨1, by decide +kernel⟩⟩
    (by decide +kernel)

set_option maxRecDepth 100000 in
theorem q17 : RM m17 :=
  rm_step q16 2 (.append mReq5) 0 (enM_append _ 2 mReq5 (by decide) (by decide +kernel) (by decide +kernel))
    (by decide +kernel) (by decide +kernel)

set_option maxRecDepth 100000 in
theorem q18 : RM m18 :=
  rm_step q17 3 (.append mReq5) 0 (enM_append _ 3 mReq5 (by decide) (by decide +kernel) (by decide +kernel))
    (by decide +kernel) (by decide +kernel)

set_option maxRecDepth 100000 in
theorem q19 : RM m19 :=
  rm_step q18 4 (.append mReq5) 0 (enM_append _ 4 mReq5 (by decide) (by decide +kernel) (by decide +kernel))
    (by decide +kernel) (by decide +kernel)

set_option maxRecDepth 100000 in
theorem k4_restart : Node.restart (C05.crashDisk (m19.node 4) .timeout [] [] 0) 1 true = some k4 :=
  AuditSys.restart_getD (by decide +kernel)

set_option maxRecDepth 100000 in
theorem q20 : RM m20 :=
  rm_crash q19 4 .timeout 0 0 k4 (enM_plain _ 4 _ (by decide) rfl) (Or.inr rfl) k4_restart (by decide +kernel)

set_option maxRecDepth 100000 in
theorem mm20 : (replUpdLoop ((m20.node 1).begin [] []) {} (mUpd 4)).1.majorityMatchIndex = (4, true) := by
  unfold Node.majorityMatchIndex
  rw [if_neg (by decide +kernel)]
  dsimp only
  have h1 : (replUpdLoop ((m20.node 1).begin [] []) {} (mUpd 4)).1.voterMatches = [4, 4, 4, 3] := by decide +kernel
  have h2 : [4, 4, 4, 3].mergeSort geB = [4, 4, 4, 3] := by
    simp [List.mergeSort, List.MergeSort.Internal.splitInTwo, geB]
  rw [h1, h2]
  decide +kernel

set_option maxRecDepth 100000 in
theorem st20 : (m20.node 1).step (.replUpdates (mUpd 4)) [] [] = altPost (m20.node 1) (mUpd 4) 4 :=
  replUpdates_step_alt _ _ 4 (by decide +kernel) mm20

theorem m21_eq : stepM m20 1 (.replUpdates (mUpd 4)) [] [] 0 = m21 := by rw [stepM_eq, st20]; rfl

set_option maxRecDepth 100000 in
theorem q21 : RM m21 := by
  have := rm_step q20 1 (.replUpdates (mUpd 4)) 0
    (enM_upd _ 1 _ (by decide) (mUpd_only 4)
      (mUpd_backed _ 1 4 ⟨2, 2, 4, 2⟩ ⟨3, 2, 4, 2⟩ (by decide +kernel) (by decide +kernel) (by decide +kernel)
        (by decide +kernel)))
    (by decide +kernel) (by rw [st20]; decide +kernel)
  rw [m21_eq] at this
  exact this

set_option maxRecDepth 100000 in
/-- WITNESS M: facts about the run. `m8`: the ledger `changes` records the introduction of configuration (3,2) by
node 1 (voters unchanged, node 4 added); `m13`: the new node 4 has adopted it; `m15`: the second record — the promotion:
voters [1,2,3] → [1,2,3,4]; `m20`: node 4 restarted with latest = (4,2), committed = (3,2); `m21`: the leader has
committed index 4 — both configurations are committed, the ledger `committed` holds (4,2), (3,2), (2,2); nobody
failed an assertion. -/
theorem runM_facts :
    (m8.changes.map (fun r => (r.node, r.post.configs.latest.index, r.post.configs.latest.voters)) = [(1, 3, V3)] ∧
      (m8.node 1).configs.latest.ids = V4) ∧
    ((m13.node 4).configs.latest.index = 3 ∧ (m13.node 4).configs.latest.ids = V4 ∧
      (m13.node 4).log.entries.length = 3) ∧
    (m15.changes.map (fun r => (r.node, r.pre.configs.latest.voters, r.post.configs.latest.voters)) =
        [(1, V3, V4), (1, V3, V3)] ∧ (m15.node 1).configs.latest.index = 4) ∧
    ((m20.node 4).configs.latest.index = 4 ∧ (m20.node 4).configs.committed.index = 3 ∧
      (m20.node 4).configs.latest.voters = V4 ∧ (m20.node 4).role = .follower) ∧
    ((m21.node 1).commitIndex = 4 ∧ (m21.node 1).configs.committed.index = 4 ∧ (m21.node 1).role = .leader ∧
      m21.cm.committed = [(4, 2), (3, 2), (2, 2)] ∧ (∀ i ∈ V4, (m21.node i).panicked = none)) := by
  refine ⟨⟨?_, ?_⟩, ⟨?_, ?_, ?_⟩, ⟨?_, ?_⟩, ⟨?_, ?_, ?_, ?_⟩, ⟨?_, ?_, ?_, ?_, ?_⟩⟩ <;> decide +kernel

set_option maxRecDepth 100000 in
/-- … e.g. in the reachable state `m8` the configuration entry (3,2) that the leader 1 has just appended is NOT
committed (commit index 2; no other node holds it; a leader of term 3 elected by the nodes 2 and 3 would overwrite it),
and yet index 3 of node 1's log is "protected" for a ghost ledger with the right root -/
example : (m8.node 1).configs.latest.index = 3 ∧ (m8.node 1).commitIndex = 2 ∧
    (m8.node 2).log.entries.length = 2 ∧ (m8.node 3).log.entries.length = 2 ∧
    ∃ G : Ghost, G.root = (1, 1) ∧ ProtG m8 G 1 (m8.node 1).configs.latest.index := by
  obtain ⟨G, hr, hp⟩ := protG_degenerate q8.1
  exact ⟨by decide +kernel, by decide +kernel, by decide +kernel, by decide +kernel, G, hr,
    hp 1 _ (by decide +kernel) (by decide +kernel)⟩

/-! #### … and that entry IS overwritten in a continuation of the run: node 3 loses contact with the leader, node 2 times
out and is elected in term 3 by node 3 (neither holds entry 3), appends its no-op (3,3) and sends it to node 1, which
truncates its log at index 3 and reverts its configuration -/

def o1 : Member.Sys := stepM m8 3 (.disconnected 1) [] [] 0
def o2 : Member.Sys := stepM o1 2 .timeout [] [] 0
abbrev oVote : VoteReq := { term := 3, src := 2, lastLogIndex := 2, lastLogTerm := 2 }
def o3 : Member.Sys := stepM o2 3 (.vote oVote) [] [] 0
def o4 : Member.Sys := stepM o3 2 (.voteResult false 3 rSuccess) [] [] 3
def oReq : AppendReq :=
  { term := 3, src := 2, prevLogIndex := 2, prevLogTerm := 2, ldrCommitIndex := 0,
    entries := (o4.node 2).log.entries.drop 2 }
def o5 : Member.Sys := sendM o4 oReq
def o6 : Member.Sys := stepM o5 1 (.append oReq) [] [] 0

set_option maxRecDepth 100000 in
theorem p1 : RM o1 := rm_step q8 3 _ 0 (enM_plain _ 3 _ (by decide) rfl) (by decide +kernel) (by decide +kernel)

set_option maxRecDepth 100000 in
theorem p2 : RM o2 := rm_step p1 2 _ 0 (enM_plain _ 2 _ (by decide) rfl) (by decide +kernel) (by decide +kernel)

set_option maxRecDepth 100000 in
theorem p3 : RM o3 :=
  rm_step p2 3 (.vote oVote) 0 (enM_vote _ 3 oVote (by decide) (by decide) (by decide +kernel)) (by decide +kernel)
    (by decide +kernel)

set_option maxRecDepth 100000 in
theorem p4 : RM o4 :=
  rm_step p3 2 (.voteResult false 3 rSuccess) 3
    (enM_voteResult _ 2 3 3 (by decide) ⟨by decide, by decide +kernel, by decide +kernel, by decide +kernel⟩)
    (by decide +kernel) (by decide +kernel)

set_option maxRecDepth 100000 in
theorem p5 : RM o5 :=
  rm_send p4 2 oReq (by decide) (by decide +kernel)
    ⟨by decide +kernel, by decide +kernel, by decide +kernel, by decide +kernel, ⟨1, by decide +kernel⟩⟩
    (by decide +kernel)

set_option maxRecDepth 100000 in
theorem p6 : RM o6 :=
  rm_step p5 1 (.append oReq) 0 (enM_append _ 1 oReq (by decide) (by decide +kernel) (by decide +kernel))
    (by decide +kernel) (by decide +kernel)

set_option maxRecDepth 100000 in
/-- the index 3 of node 1 (state `m8`), "protected" in the sense of the OLD statement 2 (`ProtG` for a ghost ledger
constrained by its root only: the `example` above), held the configuration entry (3,2); in the later reachable state `o6`
node 1 holds the no-op (3,3) of the new leader there and is back to the bootstrap configuration. (This documents the
weakness the audit found. The statement was REPAIRED — `C02Member.Protected`; for the repaired statement see
`protected_informative`: in `o5` index 3 of node 1 is NOT protected, the theorem yields the second alternative — the
configuration is pending and index 1, that of `configs.committed`, is protected — and index 1 is what node 1 keeps.) -/
theorem protected_index_overwritten :
    ReachableR (1, 1) m8 ∧ ReachableR (1, 1) o6 ∧
    ((m8.node 1).log.get? 3).map (fun e => (e.term, e.typ)) = some (2, etConfig) ∧
    ((o6.node 1).log.get? 3).map (fun e => (e.term, e.typ)) = some (3, etNop) ∧
    (o6.node 1).configs.latest.index = 1 ∧ (o6.node 1).panicked = none ∧ (o6.node 2).role = .leader :=
  ⟨q8.1, p6.1, by decide +kernel, by decide +kernel, by decide +kernel, by decide +kernel, by decide +kernel⟩

/-! ### instances: the older theorems on the run -/

/-- C08Sys `config_chain_partial` on `m21`: the ledger `changes` holds the two introductions (configuration (3,2) and the
promotion (4,2)); both are `ChangeOK` -/
example : m21.changes.length = 2 ∧ ∀ r ∈ m21.changes, C08Sys.ChangeOK r :=
  ⟨by decide +kernel,
   C08Sys.config_chain_partial m21 ((reachableP_of_R q21.1).mono (fun _ h => h.2.1))⟩

/-- C08Sys `election_safety_one_change_partial` (voter sets [1,2,3] and [1,2,3,4]) and `election_safety_sys_member_partial`
on `m21`; C04Member `log_matching_member_partial` on `m21` -/
example : (∀ l l' t, (l, t) ∈ m21.el.won → (l', t) ∈ m21.el.won → l = l') ∧ (1, 2) ∈ m21.el.won ∧
    Replication.Uniq m21.cm.T :=
  ⟨(C08Sys.election_safety_one_change_partial V3 V4 (by decide) (by decide) ⟨4, fun x hx => by simp; omega⟩ m21
      q21.2).2,
   by decide +kernel,
   (C04Member.log_matching_member_partial m21 ((reachableP_of_R q21.1).mono (fun _ h => h.2.2))).2.1⟩

set_option maxRecDepth 100000 in
/-- C08Member `leader_completeness_member_partial` / `commit_index_safety_member_partial` on `m21`: the leader holds the
committed configuration entries (3,2) and (4,2); node 4 — restarted, commit index 0 — and the leader agree on what is
within node 2's commit index -/
example : (∃ e, (m21.node 1).log.get? 4 = some e ∧ e.term = 2) ∧ (m21.node 2).commitIndex = 3 ∧
    (m21.node 1).log.get? 3 = (m21.node 2).log.get? 3 :=
  ⟨(leader_completeness_member_partial (1, 1) m21 q21.1).2 1 (by decide +kernel) (4, 2) (by decide +kernel)
      (by decide +kernel),
   by decide +kernel,
   ((commit_index_safety_member_partial (1, 1) m21 q21.1).2.2.1 1 2 3 (by decide +kernel) (by decide +kernel)
      (by decide) (by decide +kernel)).1⟩

/-! ### 5. the evaluated scenario of Props/C08Sys.lean: its former tail was not a run of the system; repaired -/

/-- acknowledgements recorded in a completed step that is not an append request are the acting node's own -/
theorem acks_stepM_nonappend (x : Member.Sys) (i : Nat) (op : Op) (ra : List Nat) (ord : List (List Nat)) (src : Nat)
    (hop : ∀ q, op ≠ .append q) : ∀ a ∈ (stepM x i op ra ord src).cm.acks, a.voter = i ∨ a ∈ x.cm.acks := by
  intro a ha
  have ha' : a ∈ ackOf i op ((x.node i).step op ra ord) ++
      (selfAck i op (x.node i) ((x.node i).step op ra ord) ++ x.cm.acks) := ha
  rcases List.mem_append.mp ha' with h | h
  · unfold ackOf at h
    split at h
    · rename_i q; exact absurd rfl (hop q)
    · cases h
  · rcases List.mem_append.mp h with h | h
    · unfold selfAck at h
      split at h
      · left; rw [List.mem_singleton.mp h]
      · cases h
    · exact Or.inr h

/-- the tail of the scenario of Props/C08Sys.lean AS IT WAS when the audit was made (there: `ex9`, then
`ex10 := stepM ex9 1 (.replUpdates [4 ↦ matchIndex 3])`): in `ex8` (the leader has just appended configuration (3,2), no
append request for it has been sent) the match-index reports "3" of the nodes 2 and 3 are delivered to the leader -/
def oldEx9 : Member.Sys :=
  stepM C08Sys.ex8 1 (.replUpdates [{ id := 2, upd := .matchIndex 3 }, { id := 3, upd := .matchIndex 3 }]) [] [] 0

set_option maxRecDepth 100000 in
/-- **the last step of the scenario of Props/C08Sys.lean as it was (`ex1 … ex10`, evaluated there with `#guard`) was NOT
enabled**: the report "match index 3" of node 4 delivered to the leader in the former `ex9` (here `oldEx9`) is not backed
by an acknowledgement — node 4 never handled an append request in that scenario (`Member.Enabled.upd`). REPAIRED: the
scenario of Props/C08Sys.lean now delivers the append requests first and is a run — `c08sys_scenario_run`. -/
theorem c08sys_ex10_not_enabled :
    ¬ Member.Enabled oldEx9 1 (.replUpdates [{ id := 4, upd := .matchIndex 3 }]) 0 := by
  intro h
  rcases h.upd _ rfl _ (List.mem_singleton.mpr rfl) 3 rfl with h0 | ⟨a, ha, hv, _⟩
  · cases h0
  · have hv4 : a.voter = 4 := hv
    rcases acks_stepM_nonappend C08Sys.ex8 1 _ [] [] 0 (fun _ h => by cases h) a ha with h1 | ha
    · rw [hv4] at h1; cases h1
    · rcases acks_stepM_nonappend C08Sys.ex7 1 _ [] [] 0 (fun _ h => by cases h) a ha with h1 | ha
      · rw [hv4] at h1; cases h1
      · rcases acks_stepM_nonappend C08Sys.ex6 1 _ [] [] 0 (fun _ h => by cases h) a ha with h1 | ha
        · rw [hv4] at h1; cases h1
        · have hall : ∀ b ∈ C08Sys.ex6.cm.acks, b.voter ≠ 4 := by decide +kernel
          exact hall a ha hv4

theorem c08sys_ex6 : C08Sys.ex6 = m6 := rfl
theorem c08sys_ex7 : C08Sys.ex7 = m7 := by rw [← m7_eq, ← c08sys_ex6]; rfl
theorem c08sys_ex8 : C08Sys.ex8 = m8 := by rw [← m8_eq, ← c08sys_ex7]; rfl
theorem c08sys_exReq3 : C08Sys.exReq3 = mReq3 := by unfold C08Sys.exReq3 mReq3; rw [c08sys_ex8]
theorem c08sys_exReq4 : C08Sys.exReq4 = mReq4 := by unfold C08Sys.exReq4 mReq4; rw [c08sys_ex8]
theorem c08sys_ex9 : C08Sys.ex9 = m11 := by unfold C08Sys.ex9; rw [c08sys_exReq3, c08sys_ex8]; rfl
theorem c08sys_ex10 : C08Sys.ex10 = m13 := by unfold C08Sys.ex10; rw [c08sys_exReq4, c08sys_ex9]; rfl
theorem c08sys_ex11 : C08Sys.ex11 = m14 := by rw [← m14_eq, ← c08sys_ex10]; rfl
theorem c08sys_ex12 : C08Sys.ex12 = m15 := by rw [← m15_eq, ← c08sys_ex11]; rfl

/-- **the repaired scenario of Props/C08Sys.lean (`ex1 … ex12`) is a run of the system**: its last state is the state
`m15` of the run above (the leader has promoted node 4: configuration (4,2)), reachable in `ReachableR (1,1)`, with the
voters of every node's latest configuration [1,2,3] or [1,2,3,4] along the run -/
theorem c08sys_scenario_run : C08Sys.ex12 = m15 ∧ RM C08Sys.ex12 := ⟨c08sys_ex12, c08sys_ex12 ▸ q15⟩

/-! ### 6. the repaired statement 2 of `cfg_latest_member_partial` on the runs: it is informative -/

set_option maxRecDepth 100000 in
/-- **the repaired statement 2 of `C08Member.cfg_latest_member_partial`, instantiated.**
* State `o5` (reachable: the leader 1 of term 2 has appended configuration (3,2), held by no other node; node 2 has been
  elected in term 3 and its request `oReq` — the no-op (3,3) at index 3 — is on the wire). For node 1 the latest
  configuration entry is at index 3 and index 3 is NOT protected (`oReq` conflicts with it: unlike the old `ProtG`
  statement, `Protected` is not satisfied by every index of the log). So the theorem yields its SECOND alternative: the
  configuration of node 1 is pending and the index 1 of `configs.committed` is protected — and (statement 3) node 1 keeps
  entry 1 when it handles `oReq`; indeed in `o6` node 1 is back to configuration 1 (`protected_index_overwritten`).
* State `m21` (reachable: both configurations committed): the leader's latest configuration (index 4) is not pending, so
  the theorem yields the FIRST alternative: none of the requests on the wire conflicts with the leader's log up to 4. -/
theorem protected_informative :
    (ReachableR (1, 1) o5 ∧ (o5.node 1).configs.latest.index = 3 ∧ (o5.node 1).configs.committed.index = 1 ∧
      ¬ C02Member.Protected o5 1 3 ∧
      MemberFollow.Pend (o5.node 1).log.entries (o5.node 1).configs ∧ C02Member.Protected o5 1 1 ∧
      ((o5.node 1).step (.append oReq) [] []).log.entries.take 1 = (o5.node 1).log.entries.take 1) ∧
    (ReachableR (1, 1) m21 ∧ (m21.node 1).configs.latest.index = 4 ∧ m21.cm.rp.sent.length = 4 ∧
      C02Member.Protected m21 1 4) := by
  have hl : (o5.node 1).configs.latest.index = 3 := by decide +kernel
  have hc : (o5.node 1).configs.committed.index = 1 := by decide +kernel
  have hnp : ¬ C02Member.Protected o5 1 3 := by
    intro ⟨_, _, h⟩
    have hq : oReq ∈ o5.cm.rp.sent := List.mem_cons_self
    have := h oReq hq (by decide +kernel)
    revert this
    unfold NoConf
    decide +kernel
  obtain ⟨_, _, h2, h3⟩ := cfg_latest_member_partial (1, 1) o5 p5.1
  have h2' := h2 1
  rw [hl, hc] at h2'
  obtain ⟨hpend, hprot⟩ := h2'.resolve_left hnp
  have hen := enM_append o5 1 oReq (by decide) List.mem_cons_self (by decide +kernel)
  refine ⟨⟨p5.1, hl, hc, hnp, hpend, hprot, h3 1 1 hprot _ [] [] 0 hen.1 hen.2 (by decide +kernel)⟩, ?_⟩
  have hl4 : (m21.node 1).configs.latest.index = 4 := by decide +kernel
  have hc4 : (m21.node 1).configs.committed.index = 4 := by decide +kernel
  refine ⟨q21.1, hl4, by decide +kernel, ?_⟩
  rcases (cfg_latest_member_partial (1, 1) m21 q21.1).2.2.1 1 with h | ⟨hp, _⟩
  · rw [hl4] at h; exact h
  · have := hp.1
    rw [hl4, hc4] at this
    exact absurd this (Nat.lt_irrefl _)

end AuditMember
end Raft

#print axioms Raft.AuditMember.reachableP_of_R
#print axioms Raft.AuditMember.no_fresh_node
#print axioms Raft.AuditMember.protG_degenerate
#print axioms Raft.AuditMember.protected_index_overwritten
#print axioms Raft.AuditMember.c08sys_ex10_not_enabled
#print axioms Raft.AuditMember.c08sys_scenario_run
#print axioms Raft.AuditMember.protected_informative
#print axioms Raft.AuditMember.q21
#print axioms Raft.AuditMember.runM_facts
#print axioms Raft.AuditMember.exAdd_valid
