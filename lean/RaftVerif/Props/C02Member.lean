/-
C02 / C01 / C08 on the cluster-level transition system WITH membership changes (`Raft.Member`, Sys/Member.lean): the
node model satisfies the LOCAL RULES of the single-server-change argument (`MemberCore.Rules`), in every reachable
state, for arbitrary chains of membership changes — and hence leader completeness, election safety WITHOUT the adjacency
proviso of `C08Sys.election_safety_sys_member_partial`, "committed entries are never replaced" (for the ledger and for
the commit indexes of all nodes), and "every node's latest configuration is the last configuration entry of its log".

How it is proved
* node level (Lemmas/MemberCommit.lean): `GClosed` — a guarded closure principle for the mutually recursive leader block
  that does not fix the configuration — and its instance `LJ`; `nstepM`: in ANY step that is not an append request the
  commit index of a node moves only at COMMIT MOMENTS (`SEv`), each to an entry of the leader's own term, acknowledged
  (the leader itself, the others by backed match indexes) by a majority of the voters of THE CONFIGURATION THAT IS LATEST
  IN ITS LOG AT THAT MOMENT; and a configuration entry is appended only when the previous configuration and an entry of
  the leader's own term are committed (`SChg`; adjacency of the new configuration is `C08Step.config_step`, see below);
* node level, follower side (Lemmas/MemberFollow.lean): `fcfg` — how `configs` moves relative to the LOG when an append
  request is handled (truncation + `revertConfig`, adoption, `commitConfig`); `restart_cfg` — `openStorage`;
* cluster level (Lemmas/MemberInv.lean, MemberStep.lean, MemberCrash.lean): the invariant `MInv x G` (`G`: ghost
  ledgers — commit records, election records, self acknowledgements of interrupted steps) holds in every reachable
  state (`minv_reachable`: completed steps, crashes at any storage point + restart, sends); in one state it implies
  `MemberCore.Rules` for the ledgers of the state (`MemberInv.localM`, with the monotonicity rule in its strict form —
  `MemberInv.safety_strict`: the rule `MemberCore.Local.mono` as stated is violated by a leader that commits twice while
  its log has the same length) and, statically, leader completeness (`lcM`) and election safety of all candidates that
  hold a majority of grants (`esafeM`, which is what the log-matching layer `C04Member.rinv_upd` needs for the next
  step: the joint induction of the argument, across transitions). The invariant also carries `Commit.CmtI.cc` (what a
  commit index — of a leader, of a follower, or stamped on a request on the wire — covers is committed: `CmtM`,
  `SentM.cmt`), from which the statements about the commit indexes of ALL nodes follow
  (`commit_index_safety_member_modulo_sides`), and that the commit index lies within the log (`ciLeM`).

What is ASSUMED — the side conditions `SideC root` on EVERY state of the run, and that no operation handled by a candidate
or leader in the run fails (`ReachableNF (SideC root)`: runs of `MemberStep.TransNF`); each is named, with what it would
take to discharge it (Props/C08Member.lean DISCHARGES ALL OF THEM from conditions on the initial state and on what is
delivered):
* `boot`     every node is bootstrapped (`Member.Boot`; as in `C08Sys`);
* `q1`       no node's latest configuration has a quorum of one (as `C04Member.Side`: otherwise a node is elected by
             its own vote alone and commits alone — the ledgers of a step that crashes are then incomplete, and a step
             may introduce several configurations: `CfgRel.Phase.nested`);
* `cfl0`     INITIALLY (`Member.Init`) every node's `configs.latest` is the last configuration entry of its log
             (`CfgLatest`). That this stays so in every reachable state is PROVED (`cfg_latest_member_modulo_sides`;
             invariant `MemberInv.CfgM`): for leader steps by `MEvs.cl`/`MEvs.cmtd`; for a follower
             (`MemberFollow.fcfg`: truncation + `revertConfig`, adoption, `commitConfig`) because a truncation never
             reaches a PROTECTED index (`MemberInv.protNoConf` — commit safety: leader completeness of the same
             state), and the index of `configs.committed` of a pending configuration is protected (`pend_prot`: the
             single-server-change rule, `RecM.chain`); for a restart by `MemberFollow.restart_cfg` (`openStorage`
             scans the last two configuration entries);
* no failure (`MemberStep.TransNF`, a hypothesis of every step / crash transition of the run, for the operation at hand):
             the operation handled does not make a candidate or leader fail (`panicked`; `C15NoPanic.good_step_two` from
             `NoPanic.Good true`). (It was a field `nofail : NoFail x` of `SideC` — "no ENABLED operation makes a
             candidate or leader fail" — which is unsatisfiable as soon as a leader has a replication:
             `C08Member.nofail_unsatisfiable`.)
* `cache`    `C06Cache.LeaderCache` — NOT an assumption: `C08Sys.leaderCache_reachable` (discharged in the theorems);
* `tree`     `SideT`: the voter list of every configuration entry is duplicate free and every configuration entry
             decodes (`NoPanic.Glob.logDec`; member ids are map keys in Go), and a configuration entry created by a node
             is ADJACENT to the previous configuration entry on its path (for completed steps that introduce one
             configuration this is `C08Sys.config_chain_partial`; missing: steps interrupted by a crash);
* `root`     `RootI`: the initial entries (creator 0) descend from one bootstrap configuration entry `root`, the only
             initial configuration entry (e.g. all nodes bootstrapped with the same entry (1,1)).
-/
import RaftVerif.Lemmas.MemberCrash

namespace Raft
namespace C02Member
open Node Election LogRel Replication CommitRel Commit Member MemberCore QuorumRel MemberInv MemberCommit MemberStep

/-- the side conditions on every state of a run (see the file header) -/
structure SideC (root : K) (x : Member.Sys) : Prop where
  boot : Boot x
  q1 : ∀ i, (x.node i).configs.latest.quorum ≠ 1
  cfl0 : Member.Init x → CfgLatest x
  tree : SideT x
  root : RootI root x

/-- States reachable by runs — of `MemberStep.TransNF`: no operation handled by a candidate or leader fails — in which
`P` holds in every state. -/
inductive ReachableNF (P : Member.Sys → Prop) : Member.Sys → Prop
  | init (x : Member.Sys) : Member.Init x → P x → ReachableNF P x
  | next (x y : Member.Sys) : ReachableNF P x → TransNF x y → P y → ReachableNF P y

theorem ReachableNF.side {P : Member.Sys → Prop} {x : Member.Sys} (h : ReachableNF P x) : P x := by
  cases h with
  | init _ _ hp => exact hp
  | next _ _ _ _ hp => exact hp

theorem ReachableNF.toP {P : Member.Sys → Prop} {x : Member.Sys} (h : ReachableNF P x) : ReachableP P x := by
  induction h with
  | init x hi hp => exact .init x hi hp
  | next x y _ ht hp ih => exact .next x y ih ht.trans hp

theorem sideM_of {root : K} {x : Member.Sys} (h : ReachableNF (SideC root) x) : SideM x :=
  ⟨h.side.boot, h.side.q1, C08Sys.leaderCache_reachable x h.toP, h.side.tree⟩

/-- **the invariant holds in every reachable state** (for suitable ghost ledgers with the bootstrap key `root`) -/
theorem minv_reachable (root : K) (x : Member.Sys) (h : ReachableNF (SideC root) x) :
    ∃ G, MInv x G ∧ G.root = root := by
  induction h with
  | init x hi hp => exact ⟨⟨root, [], [], []⟩, minv_init root hi hp.root (hp.cfl0 hi), rfl⟩
  | next x y hx ht hp ih =>
    obtain ⟨G, hI, hr⟩ := ih
    obtain ⟨G', hI', hr'⟩ := minv_trans hI (sideM_of hx) hp.tree ht
    exact ⟨G', hI', hr'.trans hr⟩

/-- **the node model satisfies the local rules of the single-server-change argument**: in every reachable state the
ledgers (the tree of created entries, acknowledgements, grants; ghost commit and election records) obey
`MemberCore.Forest`, the local rules `MemberInv.LocalS` (`MemberCore.Local True` with the monotonicity rule in its strict
form) and grant uniqueness, and every entry of the ledger `committed` has its commit record. -/
theorem rules_reachable_modulo_sides (root : K) (x : Member.Sys) (h : ReachableNF (SideC root) x) :
    ∃ G, Forest (dataM x G) ∧ LocalS (dataM x G) ∧
      (∀ v t c c', (dataM x G).granted v t c → (dataM x G).granted v t c' → c = c') ∧
      (∀ m ∈ x.cm.committed, ∃ r ∈ G.R, r.m = m) ∧ G.root = root := by
  obtain ⟨G, hI, hr⟩ := minv_reachable root x h
  exact ⟨G, forestM hI, localM hI h.side.tree, grantUM hI, hI.recs.cover, hr⟩

/-- entries of later terms extend the ledger entries -/
theorem lc_ledger {x : Member.Sys} {G : Ghost} (hI : MInv x G) (hS : SideT x) :
    ∀ m ∈ x.cm.committed, ∀ c ∈ x.cm.T, m.2 < c.e.term → Anc x.cm.T m (key c) := by
  intro m hm c hc hlt
  obtain ⟨r, hr, e⟩ := hI.recs.cover m hm
  rw [← e]; exact lcM hI hS r hr c hc (by rw [e]; exact hlt)

/-- a leader holds every ledger entry of a term not above its own -/
theorem leader_holds_committedM {x : Member.Sys} {G : Ghost} (hI : MInv x G) (hS : SideT x) {i : Nat}
    (hl : (x.node i).role = .leader) {m : Nat × Nat} (hm : m ∈ x.cm.committed) (hle : m.2 ≤ (x.node i).term) :
    Holds (x.node i).log.entries m.1 m.2 := by
  rcases Nat.lt_or_ge m.2 (x.node i).term with h1 | h1
  · have lo := hI.node.ldr i hl
    have hlen : 1 ≤ (x.node i).log.entries.length := Nat.le_trans lo.start lo.startLe
    have hz : Holds (x.node i).log.entries (x.node i).log.entries.length (x.node i).term :=
      ⟨hlen, Nat.le_refl _, lo.own _ lo.startLe (Nat.le_refl _)⟩
    obtain ⟨z, hzT, hzk⟩ := log_recordM hI i hz
    have hzt : z.e.term = (x.node i).term := by rw [show z.e.term = (key z).2 from rfl, hzk]
    have := lc_ledger hI hS m hm z hzT (by rw [hzt]; exact h1)
    rw [hzk] at this
    exact log_holds_ancM hI i this hz
  · obtain ⟨r, hr, e⟩ := hI.recs.cover m hm
    obtain ⟨_, r2, _⟩ := hI.recs.recd r hr
    obtain ⟨_, es, p, _, hm'⟩ := r2
    obtain ⟨c, hc, c1, c2, _⟩ := path_record p hm'
    rw [e] at c1 c2
    have := leader_holds_ownM hI hS hl hc (by rw [c2]; omega)
    rw [c1, c2] at this
    exact this

/-- the ledger entries lie on one path -/
theorem ledger_chain {x : Member.Sys} {G : Ghost} (hI : MInv x G) (hS : SideT x) :
    ∀ m ∈ x.cm.committed, ∀ m' ∈ x.cm.committed, Anc x.cm.T m m' ∨ Anc x.cm.T m' m := by
  have hF := forestM hI
  have hL := localM hI hS
  have hR := filterD_rules hF hL (grantUM hI)
  intro m hm m' hm'
  obtain ⟨r, hr, e⟩ := hI.recs.cover m hm
  obtain ⟨r', hr', e'⟩ := hI.recs.cover m' hm'
  obtain ⟨s, hs, _, _, s3⟩ := filterD_dom hF hL r hr
  obtain ⟨s', hs', _, _, s3'⟩ := filterD_dom hF hL r' hr'
  rw [← e, ← e']
  have s3a : Anc x.cm.T r.m s.m := s3
  have s3b : Anc x.cm.T r'.m s'.m := s3'
  rcases committed_chain hR hs hs' with c | c
  · have c' : Anc x.cm.T s.m s'.m := c
    have a1 := s3a.trans (uniqM hI) c'
    rcases Nat.le_total r.m.1 r'.m.1 with hle | hle
    · exact Or.inl (a1.comparable (uniqM hI) s3b hle)
    · exact Or.inr (s3b.comparable (uniqM hI) a1 hle)
  · have c' : Anc x.cm.T s'.m s.m := c
    have a1 := s3b.trans (uniqM hI) c'
    rcases Nat.le_total r.m.1 r'.m.1 with hle | hle
    · exact Or.inl (s3a.comparable (uniqM hI) a1 hle)
    · exact Or.inr (a1.comparable (uniqM hI) s3a hle)

/-- two committed keys with the same index are the same key -/
theorem committed_uniqueM {x : Member.Sys} {G : Ghost} (hI : MInv x G) (hS : SideT x) {a a' : Nat × Nat}
    (ha : Committed x.cm a) (ha' : Committed x.cm a') (hi : a.1 = a'.1) : a = a' := by
  obtain ⟨m, hm, h1⟩ := ha
  obtain ⟨m', hm', h1'⟩ := ha'
  rcases ledger_chain hI hS m hm m' hm' with c | c
  · exact ((h1.trans (uniqM hI) c).comparable (uniqM hI) h1' (Nat.le_of_eq hi)).eq_of_index hi
  · exact ((h1.comparable (uniqM hI) (h1'.trans (uniqM hI) c) (Nat.le_of_eq hi))).eq_of_index hi

/-- what is within a node's commit index is committed -/
theorem covered_committedM {x : Member.Sys} {G : Ghost} (hI : MInv x G) {j k : Nat} (hk : 1 ≤ k)
    (hkc : k ≤ (x.node j).commitIndex) :
    Holds (x.node j).log.entries k (termAt (x.node j).log.entries k) ∧
    ∃ m ∈ x.cm.committed, m.2 ≤ (x.node j).term ∧ Anc x.cm.T (k, termAt (x.node j).log.entries k) m := by
  obtain ⟨c1, c2⟩ := hI.cmt.cc j k hk hkc
  exact ⟨⟨hk, c1, rfl⟩, c2⟩

/-- two logs that hold the same key hold the same entry at every index up to it -/
theorem same_entriesM {x : Member.Sys} {G : Ghost} (hI : MInv x G) {i j k τ : Nat}
    (hi : Holds (x.node i).log.entries k τ) (hj : Holds (x.node j).log.entries k τ) {k' : Nat} (h1 : 1 ≤ k')
    (hle : k' ≤ k) : (x.node i).log.get? k' = (x.node j).log.get? k' := by
  rw [(nwfM hI i).get?, (nwfM hI j).get?, if_pos (by omega), if_pos (by omega)]
  exact path_agree (uniqM hI) (log_pathM hI i) (log_pathM hI j) hi hj k' h1 hle

/-- **C02, leader completeness, across ARBITRARY CHAINS of membership changes (modulo the side conditions `SideC`).**
Let `x` be any state of `Member` (Sys/Member.lean: any node handling any enabled operation — `.changeConfig` requests and
configuration entries included —, crashes at any storage point and restarts, leaders sending append requests read from
their logs; no snapshots) reachable by runs whose states satisfy `SideC root`. Then
1. every entry of the tree of created entries whose term is above that of an entry `m` of the ledger `committed` (the
   entries a leader's commit index reached by the majority rule — a majority of the voters of the configuration that was
   latest in ITS log at that moment) extends `m`: entries of later terms are only ever created on top of what was
   committed before, whatever configurations the cluster went through;
2. every leader holds every entry of the ledger `committed` whose term is not above its own term — at the same index,
   with the same term. -/
theorem leader_completeness_member_modulo_sides (root : K) (x : Member.Sys) (h : ReachableNF (SideC root) x) :
    (∀ m ∈ x.cm.committed, ∀ c ∈ x.cm.T, m.2 < c.e.term → Anc x.cm.T m (key c)) ∧
    (∀ i, (x.node i).role = .leader → ∀ m ∈ x.cm.committed, m.2 ≤ (x.node i).term →
      ∃ e, (x.node i).log.get? m.1 = some e ∧ e.term = m.2) := by
  obtain ⟨G, hI, _⟩ := minv_reachable root x h
  have hS := h.side.tree
  refine ⟨lc_ledger hI hS, fun i hl m hm hle => ?_⟩
  have hh := leader_holds_committedM hI hS hl hm hle
  obtain ⟨e, he, het⟩ := holds_get hh
  exact ⟨e, by rw [(nwfM hI i).get?, if_pos (show 0 < m.1 from hh.1)]; exact he, het⟩

/-- **C01, election safety, across arbitrary chains of membership changes — WITHOUT the adjacency proviso (modulo
`SideC`).** In every reachable state:
1. two nodes that are leader in the same term are the same node;
2. the ledger `won` (every (node, term) in which a node was leader at the end of one of its steps) names at most one
   node per term;
3. more generally, two recorded candidates of one term that each hold a majority of grants of the voters of THEIR OWN
   election configuration are the same node (`C04Member.ESafe`): the election configurations of one term are equal or
   adjacent because both candidates' logs extend every committed configuration entry (`MemberCore.es_overlap`). -/
theorem election_safety_member_modulo_sides (root : K) (x : Member.Sys) (h : ReachableNF (SideC root) x) :
    (∀ i j, (x.node i).role = .leader → (x.node j).role = .leader → (x.node i).term = (x.node j).term → i = j) ∧
    (∀ l l' t, (l, t) ∈ x.el.won → (l', t) ∈ x.el.won → l = l') ∧
    C04Member.ESafe x.el.grants x.ecfg := by
  obtain ⟨G, hI, _⟩ := minv_reachable root x h
  have hS := h.side.tree
  have hes := esafeM hI hS
  have hwon : ∀ l l' t, (l, t) ∈ x.el.won → (l', t) ∈ x.el.won → l = l' := by
    intro l l' t hl hl'
    obtain ⟨k, hk, k1, k2, _, k4⟩ := hI.rp.el.backed l t hl
    obtain ⟨k', hk', j1, j2, _, j4⟩ := hI.rp.el.backed l' t hl'
    have := hes k hk k' hk' (by rw [k2, j2]) (by rw [k1, k2]; exact k4) (by rw [j1, j2]; exact j4)
    rw [k1, j1] at this
    exact this
  exact ⟨fun i j hi hj ht => hwon i j _ (hI.rp.el.recorded i hi) (by rw [ht]; exact hI.rp.el.recorded j hj),
    hwon, hes⟩

/-- **C02, committed entries are never replaced, across membership changes (modulo `SideC`).**
1. The entries of the ledger `committed` lie on ONE path of the tree: of two committed keys one is an ancestor of the
   other — two leaders (of any terms, under any configurations) never commit conflicting entries.
2. Two committed keys with the same index are the same key.
3. The ledger and the tree only grow: a key that is committed (`Commit.Committed`: an ancestor of a ledger entry) stays
   committed in every successor state — and by `leader_completeness_member_modulo_sides` every later leader holds it.
(The commit indexes of the nodes: `commit_index_safety_member_modulo_sides`.) -/
theorem committed_never_replaced_member_modulo_sides (root : K) (x : Member.Sys) (h : ReachableNF (SideC root) x) :
    (∀ m ∈ x.cm.committed, ∀ m' ∈ x.cm.committed, Anc x.cm.T m m' ∨ Anc x.cm.T m' m) ∧
    (∀ m ∈ x.cm.committed, ∀ m' ∈ x.cm.committed, m.1 = m'.1 → m = m') ∧
    (∀ y, Member.Trans x y → ∀ a, Committed x.cm a → Committed y.cm a) := by
  obtain ⟨G, hI, _⟩ := minv_reachable root x h
  have hS := h.side.tree
  have chain := ledger_chain hI hS
  refine ⟨chain, fun m hm m' hm' hi => ?_, fun y ht a ha => ?_⟩
  · rcases chain m hm m' hm' with c | c
    · exact c.eq_of_index hi
    · exact (c.eq_of_index hi.symm).symm
  · obtain ⟨m, hm, hanc⟩ := ha
    cases ht with
    | step i op ra ord src he =>
      exact ⟨m, List.mem_append_right _ hm, hanc.mono (fun c hc => List.mem_append_right _ hc)⟩
    | crash i op ra ord src k retain sor n he hn =>
      exact ⟨m, hm, hanc.mono (fun c hc => List.mem_append_right _ hc)⟩
    | send i q hi hl hr hc => exact ⟨m, hm, hanc⟩

/-- **C02, state-machine safety for the commit indexes of ALL nodes, across membership changes (modulo `SideC`).**
In every reachable state:
1. everything within a node's commit index (leader or follower) is committed: node `j` holds an entry at every index
   `1 ≤ k ≤ commitIndex`, and its key is an ancestor of an entry of the ledger `committed` (of a term `≤` the node's);
2. two nodes whose commit indexes cover index `k` hold the same entry at `k`;
3. every leader `i` whose term is at least the term of a node `j` holds, at every index within `j`'s commit index, the
   very entry `j` holds there;
4. when a node handles an operation to completion — without failure if it is candidate or leader —, every index `k`
   within its commit index still holds the same entry afterwards, and is still within the commit index (a crash resets
   the volatile commit index to 0). -/
theorem commit_index_safety_member_modulo_sides (root : K) (x : Member.Sys) (h : ReachableNF (SideC root) x) :
    (∀ j k, 1 ≤ k → k ≤ (x.node j).commitIndex →
      k ≤ (x.node j).log.entries.length ∧ Cmt x.cm (k, termAt (x.node j).log.entries k) (x.node j).term) ∧
    (∀ i j k, 1 ≤ k → k ≤ (x.node i).commitIndex → k ≤ (x.node j).commitIndex →
      (x.node i).log.get? k = (x.node j).log.get? k ∧ ((x.node i).log.get? k).isSome = true) ∧
    (∀ i j k, (x.node i).role = .leader → (x.node j).term ≤ (x.node i).term → 1 ≤ k →
      k ≤ (x.node j).commitIndex →
      (x.node i).log.get? k = (x.node j).log.get? k ∧ ((x.node j).log.get? k).isSome = true) ∧
    (∀ i op ra ord src, Member.Enabled x i op src →
      ((x.node i).role ≠ .follower → ((x.node i).step op ra ord).panicked = none) →
      ∀ k, 1 ≤ k → k ≤ (x.node i).commitIndex →
      ((x.node i).step op ra ord).log.get? k = (x.node i).log.get? k ∧
      k ≤ ((x.node i).step op ra ord).commitIndex) := by
  obtain ⟨G, hI, _⟩ := minv_reachable root x h
  have hS := h.side.tree
  refine ⟨hI.cmt.cc, fun i j k hk hi hj => ?_, fun i j k hl hij hk hkc => ?_,
    fun i op ra ord src he hnf k hk hkc => ?_⟩
  · obtain ⟨hhi, m, hm, _, m2⟩ := covered_committedM hI hk hi
    obtain ⟨hhj, m', hm', _, m2'⟩ := covered_committedM hI hk hj
    have := committed_uniqueM hI hS ⟨m, hm, m2⟩ ⟨m', hm', m2'⟩ rfl
    have ht : termAt (x.node i).log.entries k = termAt (x.node j).log.entries k := congrArg Prod.snd this
    rw [← ht] at hhj
    refine ⟨same_entriesM hI hhi hhj hk (Nat.le_refl _), ?_⟩
    obtain ⟨e, he, _⟩ := holds_get hhi
    rw [(nwfM hI i).get?, if_pos (show 0 < k from hk), he]; rfl
  · obtain ⟨hj, m, hm, m1, m2⟩ := covered_committedM hI hk hkc
    have hmi := leader_holds_committedM hI hS hl hm (Nat.le_trans m1 hij)
    have hki := log_holds_ancM hI i m2 hmi
    refine ⟨same_entriesM hI hki hj hk (Nat.le_refl _), ?_⟩
    obtain ⟨e, he, _⟩ := holds_get hj
    rw [(nwfM hI j).get?, if_pos (show 0 < k from hk), he]; rfl
  · have sc : SM x G i op ra ord src := ⟨hI, sideM_of h, he, hnf⟩
    obtain ⟨c1, _⟩ := hI.cmt.cc i k hk hkc
    have hpn := sc.nwf_post
    have key : sc.post.log.entries.take k = (x.node i).log.entries.take k ∧ k ≤ sc.post.commitIndex := by
      rcases SM.op_cases op with happ | ⟨q, rfl⟩
      · obtain ⟨es, te, _, hl⟩ := sc.newM happ
        refine ⟨by rw [hl, List.take_append_of_le_length c1], ?_⟩
        have := (sc.nst happ).cim
        omega
      · by_cases hst : q.term < (x.node i).term
        · obtain ⟨s1, _, _, s4, _⟩ := append_stale _ q ra ord hst
          rw [show sc.post.log = _ from s1, show sc.post.commitIndex = _ from s4]; exact ⟨rfl, hkc⟩
        · obtain ⟨hq, fs⟩ := sc.fst hst
          have hnc := reqokM hI hS (i := i) hq hst
          refine ⟨(fs.keep k c1 (fun e he' hek => hnc e he' (by omega))).1, ?_⟩
          rcases fs.ci with c | ⟨c, _⟩
          · rw [c]; exact hkc
          · omega
    refine ⟨?_, key.2⟩
    show sc.post.log.get? k = _
    rw [hpn.get?, (nwfM hI i).get?, if_pos (show 0 < k from hk), if_pos (show 0 < k from hk)]
    have := congrArg (fun l => l[k - 1]?) key.1
    simp only [List.getElem?_take] at this
    rw [if_pos (by omega), if_pos (by omega)] at this
    exact this

/-- **index `k` of node `i`'s log is PROTECTED in the state `x`**: the log holds an entry at `k`, and NO APPEND REQUEST
that has been sent (the ledger `sent` — the only append requests `Member.Enabled` lets a node handle, apart from stale
ones) and that is not stale for the node (`q.term` is the node's term or a later one; a stale request is refused and
leaves the log alone) CONFLICTS WITH THE NODE'S LOG AT OR BELOW `k` (`CommitRel.NoConf`: every entry of the request with
an index `≤ k` carries the term the log holds at that index — so handling the request truncates nothing at or below
`k`). A statement about the state and its ledger `sent` only — no ghost ledger. -/
def Protected (x : Member.Sys) (i k : Nat) : Prop :=
  1 ≤ k ∧ k ≤ (x.node i).log.entries.length ∧
  ∀ q ∈ x.cm.rp.sent, ¬ q.term < (x.node i).term → NoConf (x.node i) q k

/-- the ghost-ledger notion `MemberInv.ProtG` implies `Protected` — for ghost ledgers LINKED TO THE STATE by the invariant
`MInv x G` (`MemberInv.protNoConf`; without the link `ProtG` says nothing: `AuditMember.protG_degenerate`) -/
theorem protected_of_protG {x : Member.Sys} {G : Ghost} (hI : MInv x G) (hS : SideT x) {i k : Nat}
    (hp : ProtG x G i k) : Protected x i k :=
  ⟨hp.1, hp.2.1, fun _ hq hst => protNoConf hI hS hq hst hp⟩

/-- **C08, every node uses the latest configuration of its log (modulo `SideC`).** In every reachable state, for every
node (leader, candidate or follower; after completed steps, truncations by append requests, crashes and restarts):
1. `configs.latest` is the LAST CONFIGURATION ENTRY OF THE NODE'S LOG (`MemberCommit.CfgLast`);
2. the index of that entry is protected (`Protected`: no append request in `sent` of the node's current or a later term
   conflicts with the node's log at or below it) — or the configuration is pending: `configs.committed` is the
   configuration entry just before it (`MemberFollow.Pend`), and the index of THAT entry is protected (so `revertConfig`
   after a truncation restores the last configuration entry of the truncated log);
3. what protection means for the next step: when the node handles ANY delivered operation to completion — without
   failure if it is candidate or leader —, its log up to a protected index is unchanged (nothing at or below the index is
   truncated or replaced).
(Statement 2 used to read `∃ G, G.root = root ∧ ∀ i, ProtG x G i … ∨ …` with a ghost ledger `G` constrained by its root
only — satisfied by a degenerate `G` in every state, `AuditMember.protG_degenerate`; it now states the consequence
`MemberInv.protNoConf` draws from `ProtG` for the ledger of the invariant.) -/
theorem cfg_latest_member_modulo_sides (root : K) (x : Member.Sys) (h : ReachableNF (SideC root) x) :
    CfgLatest x ∧
    (∀ i, Protected x i (x.node i).configs.latest.index ∨
      (MemberFollow.Pend (x.node i).log.entries (x.node i).configs ∧
        Protected x i (x.node i).configs.committed.index)) ∧
    (∀ i k, Protected x i k → ∀ op ra ord src, Member.Enabled x i op src →
      ((x.node i).role ≠ .follower → ((x.node i).step op ra ord).panicked = none) →
      ((x.node i).step op ra ord).log.entries.take k = (x.node i).log.entries.take k) := by
  obtain ⟨G, hI, hr⟩ := minv_reachable root x h
  have hS := h.side.tree
  refine ⟨hI.cfg.cl, fun i => ?_, fun i k hp op ra ord src he hnf => ?_⟩
  · exact (hI.cfg.sp i).elim (fun p => Or.inl (protected_of_protG hI hS p))
      (fun p => Or.inr ⟨p, protected_of_protG hI hS (pend_prot hI.rp hI.tree.rootA hI.tree.rootOnly hI.recs.chain
        (hI.node.termLe i) (hI.cfg.cl i) p)⟩)
  · obtain ⟨_, hk2, hnc⟩ := hp
    have sc : SM x G i op ra ord src := ⟨hI, sideM_of h, he, hnf⟩
    show sc.post.log.entries.take k = _
    rcases SM.op_cases op with happ | ⟨q, rfl⟩
    · obtain ⟨es, te, _, hl⟩ := sc.newM happ
      rw [hl, List.take_append_of_le_length hk2]
    · by_cases hst : q.term < (x.node i).term
      · obtain ⟨s1, _⟩ := append_stale _ q ra ord hst
        rw [show sc.post.log = _ from s1]
      · obtain ⟨hq, fs⟩ := sc.fst hst
        exact (fs.keep k hk2 (hnc q hq hst)).1

/-! ### Examples (non-vacuity) -/

/-- example initial state: `C08Sys.ex0` (three voters 1, 2, 3, every node bootstrapped with the configuration entry
(1,1)); the bootstrap key is (1,1) -/
abbrev ex0 : Member.Sys := C08Sys.ex0

theorem exE_config : C04Sys.exE.config? = some C04Sys.exCfg := by decide

theorem ex0_path : Path ex0.cm.T [C04Sys.exE] ∧ Holds [C04Sys.exE] 1 1 := by
  have hp : Path ex0.cm.T [C04Sys.exE] :=
    ⟨⟨⟨⟨C04Sys.exE, 0, 0⟩, List.mem_singleton.mpr rfl, rfl, fun pt h => by cases h⟩, trivial⟩,
      fun k hk => by
        have : k = 0 := by have : k < 1 := hk; omega
        subst this; rfl⟩
  exact ⟨hp, Nat.le_refl _, Nat.le_refl _, rfl⟩

theorem sideT_of_T {x : Member.Sys} (hT : x.cm.T = [⟨C04Sys.exE, 0, 0⟩]) : SideT x := by
  refine ⟨fun c hc cfg hcfg => ?_, fun c hc p _ h0 => ?_, fun c hc _ => ?_⟩
  · rw [hT] at hc
    rw [List.mem_singleton.mp hc] at hcfg
    have : cfg = C04Sys.exCfg := by
      have := exE_config
      rw [show (⟨C04Sys.exE, 0, 0⟩ : CEntry).e = C04Sys.exE from rfl] at hcfg
      rw [this] at hcfg
      injection hcfg with e; exact e.symm
    rw [this]; decide
  · rw [hT] at hc
    rw [List.mem_singleton.mp hc] at h0
    exact absurd rfl h0
  · rw [hT] at hc
    rw [List.mem_singleton.mp hc]
    exact ⟨C04Sys.exCfg, exE_config⟩

theorem rootI_of_T {x : Member.Sys} (hT : x.cm.T = [⟨C04Sys.exE, 0, 0⟩]) : RootI (1, 1) x := by
  have hp : Path x.cm.T [C04Sys.exE] ∧ Holds [C04Sys.exE] 1 1 := by rw [hT]; exact ex0_path
  refine ⟨⟨⟨C04Sys.exE, 0, 0⟩, by rw [hT]; exact List.mem_singleton.mpr rfl, rfl, rfl, rfl⟩,
    fun c hc _ => ?_, fun c hc _ _ => ?_⟩
  · rw [hT] at hc
    rw [List.mem_singleton.mp hc]
    exact anc_of_path hp.1 hp.2 hp.2 (Nat.le_refl _)
  · rw [hT] at hc
    rw [List.mem_singleton.mp hc]; rfl

theorem cfgLast_ex : CfgLast [C04Sys.exE] C04Sys.exCfg :=
  ⟨⟨C04Sys.exE, List.mem_singleton.mpr rfl, exE_config⟩,
    fun e he _ => by rw [List.mem_singleton.mp he]; decide⟩

/-- EXAMPLE: the side conditions hold in the initial state `ex0` -/
theorem ex0_side : SideC (1, 1) ex0 :=
  ⟨fun _ => rfl, fun _ => by show C04Sys.exCfg.quorum ≠ 1; decide, fun _ _ => cfgLast_ex,
    sideT_of_T rfl, rootI_of_T rfl⟩

/-- node 2 answers an identity request of node 1: a completed step -/
def exA : Member.Sys := stepM ex0 2 (.identity 1 7 2) [] [] 0

theorem exA_trans : TransNF ex0 exA :=
  .step 2 (.identity 1 7 2) [] [] 0
    ⟨⟨by decide, (fun q h => by cases h), (fun ⟨_, _, _, h⟩ => by cases h), trivial, (fun q h => by cases h)⟩,
     trivial, (fun q h => by cases h), (fun q h => by cases h), (fun us h => by cases h)⟩
    (fun hnf => absurd rfl hnf)

set_option maxRecDepth 100000 in
theorem exA_node2 : ((C04Sys.exNode 2).step (.identity 1 7 2) [] []).configs = (C04Sys.exNode 2).configs ∧
    ((C04Sys.exNode 2).step (.identity 1 7 2) [] []).log = (C04Sys.exNode 2).log ∧
    ((C04Sys.exNode 2).step (.identity 1 7 2) [] []).role = .follower ∧
    ((C04Sys.exNode 2).step (.identity 1 7 2) [] []).commitIndex = 0 := by
  refine ⟨by decide, by decide, by decide, by decide⟩

theorem exA_T : exA.cm.T = [⟨C04Sys.exE, 0, 0⟩] := by
  show newCreated 2 (C04Sys.exNode 2).log.entries ((C04Sys.exNode 2).step (.identity 1 7 2) [] []).log.entries
    (.identity 1 7 2) ++ [⟨C04Sys.exE, 0, 0⟩] = _
  rw [exA_node2.2.1]
  rfl

theorem exA_node (j : Nat) : (exA.node j).configs = (C04Sys.exNode j).configs ∧
    (exA.node j).log = (C04Sys.exNode j).log ∧ (exA.node j).role = .follower ∧ (exA.node j).commitIndex = 0 := by
  by_cases h : j = 2
  · subst h
    show (setNode C04Sys.exNode 2 _ 2).configs = _ ∧ (setNode C04Sys.exNode 2 _ 2).log = _ ∧
      (setNode C04Sys.exNode 2 _ 2).role = _ ∧ (setNode C04Sys.exNode 2 _ 2).commitIndex = _
    rw [setNode_same]
    exact exA_node2
  · show (setNode C04Sys.exNode 2 _ j).configs = _ ∧ (setNode C04Sys.exNode 2 _ j).log = _ ∧
      (setNode C04Sys.exNode 2 _ j).role = _ ∧ (setNode C04Sys.exNode 2 _ j).commitIndex = _
    rw [setNode_other _ _ _ _ h]
    exact ⟨rfl, rfl, rfl, rfl⟩

/-- EXAMPLE: the side conditions hold in the non-initial state `exA` -/
theorem exA_side : SideC (1, 1) exA := by
  refine ⟨fun j => ?_, fun j => ?_, fun _ j => ?_, sideT_of_T exA_T, rootI_of_T exA_T⟩
  · show (exA.node j).configs.isBootstrapped = true
    rw [(exA_node j).1]; rfl
  · rw [(exA_node j).1]; show C04Sys.exCfg.quorum ≠ 1; decide
  · show CfgLast (exA.node j).log.entries (exA.node j).configs.latest
    rw [(exA_node j).1, (exA_node j).2.1]; exact cfgLast_ex

/-- EXAMPLE: the hypotheses of the theorems hold for a non-initial state — `exA` is reachable by a run whose states
satisfy `SideC (1, 1)` — and hence their conclusions -/
example : ReachableNF (SideC (1, 1)) exA ∧ C04Member.ESafe exA.el.grants exA.ecfg :=
  have r : ReachableNF (SideC (1, 1)) exA := .next ex0 exA (.init ex0 C08Sys.ex0_init ex0_side) exA_trans exA_side
  ⟨r, (election_safety_member_modulo_sides (1, 1) exA r).2.2⟩

end C02Member
end Raft

#print axioms Raft.MemberCommit.nstepM
#print axioms Raft.MemberInv.safety_strict
#print axioms Raft.MemberInv.cand_unique
#print axioms Raft.MemberInv.localM
#print axioms Raft.MemberStep.minv_trans
#print axioms Raft.C02Member.minv_reachable
#print axioms Raft.C02Member.rules_reachable_modulo_sides -- also C08
#print axioms Raft.C02Member.leader_completeness_member_modulo_sides -- also C08
#print axioms Raft.C02Member.election_safety_member_modulo_sides -- also C01 C08
#print axioms Raft.C02Member.committed_never_replaced_member_modulo_sides
#print axioms Raft.C02Member.commit_index_safety_member_modulo_sides -- also C03
#print axioms Raft.C02Member.cfg_latest_member_modulo_sides -- also C08 C19
#print axioms Raft.MemberFollow.fcfg
#print axioms Raft.MemberFollow.restart_cfg
#print axioms Raft.C02Member.exA_side
