/-
C09 — Snapshots, compaction and snapshot installation are transparent (node-local part).

PROVED here, on the handler functions that `nodediff` ties to /repo, for every state and input:
* compaction granularity (`canLTE`, `removeLTE`): whole segments only, never beyond the requested index,
  every entry above the new first index is kept, the last index does not move, the segment list stays
  well formed (`SegsOK`);
* `onSnapshotTaken` compacts at most up to the index of the snapshot just taken (followers' match indexes
  only lower the bound); `checkLogCompact` compacts exactly at `leader.removeLTE`; `onInstallSnap` never
  compacts (a request whose last entry the log already holds installs nothing);
* a snapshot taken by `snapRun` is the FSM's `(index, term, applied)`; the two refusals are exactly the
  model's conditions; it holds nothing above the commit index when `fsm.index ≤ commitIndex`;
* the effect of `onInstallSnap`: a request not ahead of the commit index, or whose last entry the log
  already holds (keep branch), changes no data at all; otherwise (discard branch) the exact post-state,
  including that the file just written survives retention in a well-formed state (`SnapsWF`), and the exact
  condition for an arbitrary one; the snapshot index never goes down and `SnapsWF` is preserved;
* after `compactLog n` with `n ≤ snapIndex` the first log index is `≤ snapIndex` (a follower can be served
  from the log or from the snapshot).

NOT proved here (evaluated by the engines on explored executions): `fsm.state = replay(global log)` across
nodes, `views_valid` for the replication goroutines (C15), anything that needs the cluster-level ledger.
-/
import RaftVerif.Lemmas.LocalB
import RaftVerif.Lemmas.ReplSteps

namespace Raft
namespace C09
open Node

/-! ### 1. compaction granularity -/

/-- The segment list of a log is well formed: strictly increasing, starts at `prev`, nothing beyond `last`. -/
structure SegsOK (l : NLog) : Prop where
  sorted : l.segs.Pairwise (· < ·)
  head : l.segs.head? = some l.prev
  le_last : ∀ x ∈ l.segs, x ≤ l.last

example : SegsOK ({} : NLog) := ⟨by decide, rfl, by decide⟩
example : SegsOK (NLog.reset 7) := ⟨by simp [NLog.reset], rfl, by simp [NLog.reset, NLog.last]⟩

/-- `CanLTE(i)`: the answer is a segment boundary, lies between the first and the last index, and is
`≤ i` unless nothing can be removed (then it is `prev`). -/
theorem canLTE_bounds (l : NLog) (i : Nat) (h : SegsOK l) :
    l.canLTE i ∈ l.segs ∧ l.prev ≤ l.canLTE i ∧ l.canLTE i ≤ l.last ∧
    (l.canLTE i = l.prev ∨ l.canLTE i ≤ i) ∧
    ∃ tl, NLog.dropLTE i l.segs = l.canLTE i :: tl ∧ (l.canLTE i :: tl) <:+ l.segs := by
  obtain ⟨hs, hh, hl⟩ := h
  cases hsegs : l.segs with
  | nil => rw [hsegs] at hh; cases hh
  | cons a rest =>
    rw [hsegs] at hh hs hl
    have ha : a = l.prev := by injection hh
    obtain ⟨x, tl, e, suf, hx⟩ := dropLTE_cons_cases i a rest
    have hc : l.canLTE i = x := by unfold NLog.canLTE; rw [hsegs, e]; rfl
    have hmem : x ∈ a :: rest := suf.subset (List.mem_cons_self ..)
    rw [hc]
    refine ⟨hmem, ?_, hl x hmem, ?_, tl, e, suf⟩
    · rcases List.mem_cons.mp hmem with hm | hm
      · omega
      · have := (List.pairwise_cons.mp hs).1 x hm; omega
    · rcases hx with hx | hx
      · left; omega
      · right; exact hx

/-- `canLTE i ≤ i` whenever `i` is not below the first index. -/
theorem canLTE_le (l : NLog) (i : Nat) (h : SegsOK l) (hi : l.prev ≤ i) : l.canLTE i ≤ i := by
  rcases (canLTE_bounds l i h).2.2.2.1 with e | e <;> omega

/-- the segment that follows the new first segment starts above `i`: `CanLTE` is the largest boundary `≤ i` -/
theorem canLTE_maximal (l : NLog) (i : Nat) (h : SegsOK l) :
    ∀ b tl, NLog.dropLTE i l.segs = l.canLTE i :: b :: tl → i < b :=
  fun b tl e => dropLTE_next_gt i l.segs h.sorted _ b tl e

theorem removeLTE_prev (l : NLog) (i : Nat) : (l.removeLTE i).prev = l.canLTE i := rfl

theorem removeLTE_entries (l : NLog) (i : Nat) :
    (l.removeLTE i).entries = l.entries.drop (l.canLTE i - l.prev) := rfl

theorem removeLTE_segs (l : NLog) (i : Nat) : (l.removeLTE i).segs = NLog.dropLTE i l.segs := rfl

/-- `RemoveLTE` commits first: everything that is kept is flushed -/
theorem removeLTE_flushed (l : NLog) (i : Nat) : (l.removeLTE i).flushed = l.last := rfl

/-- **whole segments only**: `RemoveLTE(i)` removes a prefix of the segment list; the last index does not
move; every index above the new first index keeps its entry; the segment list stays well formed. -/
theorem removeLTE_whole_segments (l : NLog) (i : Nat) (h : SegsOK l) :
    (l.removeLTE i).segs <:+ l.segs ∧
    (l.removeLTE i).prev ∈ l.segs ∧
    l.prev ≤ (l.removeLTE i).prev ∧
    ((l.removeLTE i).prev = l.prev ∨ (l.removeLTE i).prev ≤ i) ∧
    (l.removeLTE i).last = l.last ∧
    (∀ j, (l.removeLTE i).prev < j → (l.removeLTE i).get? j = l.get? j) ∧
    SegsOK (l.removeLTE i) := by
  obtain ⟨hmem, hge, hle, hor, tl, hd, suf⟩ := canLTE_bounds l i h
  have hlast : (l.removeLTE i).last = l.last := by
    unfold NLog.last at hle ⊢
    rw [removeLTE_prev, removeLTE_entries, List.length_drop]
    omega
  refine ⟨?_, hmem, hge, hor, hlast, ?_, ?_⟩
  · rw [removeLTE_segs, hd]; exact suf
  · intro j hj
    rw [removeLTE_prev] at hj
    unfold NLog.get?
    rw [removeLTE_prev, removeLTE_entries, if_pos hj, if_pos (by omega), List.getElem?_drop]
    congr 1
    omega
  · refine ⟨?_, ?_, ?_⟩
    · rw [removeLTE_segs, hd]; exact List.Pairwise.sublist suf.sublist h.sorted
    · rw [removeLTE_segs, hd]; rfl
    · intro x hx
      rw [removeLTE_segs, hd] at hx
      rw [hlast]
      exact h.le_last x (suf.subset hx)

/-- no entry is touched when `i` is below the second segment: `RemoveLTE` is then the identity on the
first index and the entries. -/
theorem removeLTE_noop (l : NLog) (i : Nat) (h : l.canLTE i = l.prev) :
    (l.removeLTE i).prev = l.prev ∧ (l.removeLTE i).entries = l.entries := by
  rw [removeLTE_prev, removeLTE_entries, h]; simp

/-- Non-vacuity: a log with segments starting at 0, 4, 8 holding entries 1..10; `RemoveLTE(9)` cuts at 8,
`RemoveLTE(7)` at 4, `RemoveLTE(3)` nothing. -/
example :
    let l : NLog := { prev := 0, entries := (List.range 10).map (fun k => { index := k + 1 }), segs := [0, 4, 8] }
    SegsOK l ∧ l.canLTE 9 = 8 ∧ l.canLTE 7 = 4 ∧ l.canLTE 3 = 0 ∧ (l.removeLTE 7).last = 10 ∧
    ((l.removeLTE 7).get? 5).map (·.index) = some 5 := by
  refine ⟨⟨by decide, rfl, by decide⟩, by decide, by decide, by decide, by decide, by decide⟩

/-! ### 2. compaction never goes beyond the snapshot -/

theorem foldl_le_init (g : Nat → Repl → Nat) (hg : ∀ m r, g m r ≤ m) (rs : List Repl) (init : Nat) :
    rs.foldl g init ≤ init := by
  induction rs generalizing init with
  | nil => exact Nat.le_refl _
  | cons r rs ih => exact Nat.le_trans (ih _) (hg _ _)

theorem reply_log (s : Node) (t : Nat) (r : String) : (s.reply t r).log = s.log := by rw [reply_eq]
theorem reply_ldr (s : Node) (t : Nat) (r : String) : (s.reply t r).ldr = s.ldr := by rw [reply_eq]
theorem reply_snapIndex (s : Node) (t : Nat) (r : String) : (s.reply t r).snapIndex = s.snapIndex := by rw [reply_eq]

theorem notifyFlr_log (s : Node) : s.notifyFlr.log = s.log ∧ s.notifyFlr.ldr = s.ldr ∧
    s.notifyFlr.snapIndex = s.snapIndex := by
  unfold Node.notifyFlr
  simp only [panic_eq]
  refine ⟨?_, ?_, ?_⟩ <;> (repeat' split) <;> rfl

/-- **`onSnapshotTaken` never compacts beyond the snapshot it was told about.** Either the log is
untouched, or it is `RemoveLTE(n)` for a segment boundary `n` with `prev < n ≤ rs.index`; the followers'
match indexes (the two folds over `repls`) only lower `n`. -/
theorem compaction_never_beyond_snapshot (s : Node) (rs : SnapRes) (hr : s.snapResult = some rs)
    (hok : SegsOK s.log) :
    s.onSnapshotTaken.log = s.log ∨
    ∃ n, n ∈ s.log.segs ∧ s.log.prev < n ∧ n ≤ rs.index ∧ s.onSnapshotTaken.log = s.log.removeLTE n := by
  unfold Node.onSnapshotTaken
  rw [hr]
  dsimp -zeta only
  extract_lets s0 repls nowC0 canC0 nowC canC s1 src s2
  split
  · left; rw [reply_log]; rfl
  · rw [reply_log]
    unfold s2
    split
    · have hb0 : nowC0 ≤ rs.index := foldl_le_init _ (fun m r => by split <;> omega) _ _
      have hs1 : s1.log = s.log ∨
          ∃ n, n ∈ s.log.segs ∧ s.log.prev < n ∧ n ≤ rs.index ∧ s1.log = s.log.removeLTE n := by
        unfold s1
        split
        · rename_i hgt
          right
          have hgt' : s.log.canLTE nowC0 > s.log.prev := hgt
          obtain ⟨hmem, _, _, hor, _⟩ := canLTE_bounds s.log nowC0 hok
          refine ⟨s.log.canLTE nowC0, hmem, hgt', ?_, rfl⟩
          rcases hor with e | e <;> omega
        · left; rfl
      split
      · rw [(notifyFlr_log _).1]; exact hs1
      · split
        · rw [(notifyFlr_log _).1]; exact hs1
        · exact hs1
    · left; rfl

/-- Consequence: the first log index after `onSnapshotTaken` is at most the snapshot's index (when it was
so before, which the guard `log.contains rs.index` implies whenever anything is removed). -/
theorem onSnapshotTaken_prev_le (s : Node) (rs : SnapRes) (hr : s.snapResult = some rs)
    (hok : SegsOK s.log) :
    s.onSnapshotTaken.log.prev ≤ max s.log.prev rs.index ∧ s.onSnapshotTaken.log.last = s.log.last ∧
    SegsOK s.onSnapshotTaken.log ∧
    ∀ j, s.onSnapshotTaken.log.prev < j → s.onSnapshotTaken.log.get? j = s.log.get? j := by
  rcases compaction_never_beyond_snapshot s rs hr hok with e | ⟨n, _, hn1, hn2, e⟩
  · rw [e]; exact ⟨by omega, rfl, hok, fun _ _ => rfl⟩
  · rw [e]
    obtain ⟨_, _, _, hor, hl, hg, hk⟩ := removeLTE_whole_segments s.log n hok
    exact ⟨by rcases hor with x | x <;> omega, hl, hk, hg⟩

/-- `leader.removeLTE` after `onSnapshotTaken` is bounded by the snapshot index as well. -/
theorem onSnapshotTaken_removeLTE_le (s : Node) (rs : SnapRes) (hr : s.snapResult = some rs)
    (hok : SegsOK s.log) :
    s.onSnapshotTaken.ldr.removeLTE ≤ max s.ldr.removeLTE (max s.log.prev rs.index) := by
  have hprev := (onSnapshotTaken_prev_le s rs hr hok).1
  revert hprev
  unfold Node.onSnapshotTaken
  rw [hr]
  dsimp -zeta only
  extract_lets s0 repls nowC0 canC0 nowC canC s1 src s2
  split
  · intro _; rw [reply_ldr]; exact Nat.le_max_left _ _
  · rw [reply_ldr, reply_log]
    unfold s2
    split
    · have hb0 : canC0 ≤ rs.index := foldl_le_init _ (fun m r => by split <;> omega) _ _
      have hl1 : s1.ldr = s.ldr := by unfold s1; split <;> rfl
      split
      · intro _
        rw [(notifyFlr_log _).2.1]
        show s.log.canLTE canC0 ≤ _
        rcases (canLTE_bounds s.log canC0 hok).2.2.2.1 with e | e <;> omega
      · split
        · rw [(notifyFlr_log _).2.1, (notifyFlr_log _).1]
          intro hp
          show s1.log.prev ≤ _
          have : s1.log.prev ≤ max s.log.prev rs.index := hp
          omega
        · intro _; rw [hl1]; exact Nat.le_max_left _ _
    · intro _; exact Nat.le_max_left _ _

/-- `leader.checkLogCompact` compacts exactly at `leader.removeLTE`, and only when no replication is
still reading below it. -/
theorem checkLogCompact_effect (s : Node) :
    (s.ldr.repls.any (fun r => r.removeLTE < s.ldr.removeLTE) = true ∧ s.checkLogCompact = s) ∨
    ((∀ r ∈ s.ldr.repls, s.ldr.removeLTE ≤ r.removeLTE) ∧ s.checkLogCompact = s.compactLog s.ldr.removeLTE) := by
  unfold Node.checkLogCompact
  split
  · rename_i h; exact Or.inl ⟨h, rfl⟩
  · rename_i h
    right
    refine ⟨fun r hr => ?_, rfl⟩
    simp only [List.any_eq_true, decide_eq_true_eq, not_exists, not_and] at h
    exact Nat.le_of_not_lt (h r hr)

/-! ### 3. a snapshot is taken at the applied index -/

/-- The file `snapRun` writes for a pending request `rq`. -/
def snapFileOf (s : Node) (rq : SnapReq) : SnapFile :=
  { index := s.fsm.index, term := s.fsm.term,
    config := if s.fsm.config.index > 0 then s.fsm.config else rq.config, data := s.fsm.applied }

/-- **`snapRun` publishes the FSM's `(index, term, applied)`**: when it does not refuse, the new file is
exactly the FSM's last applied index, its term and its contents; `snaps.index/term` follow; the result
reports that index; nothing else of the data moves. -/
theorem snapshot_at_applied_index (s : Node) (rq : SnapReq) (hp : s.snapPending = some rq)
    (h1 : s.fsm.index ≠ s.snapIndex) (h2 : rq.minIndex ≤ s.fsm.index) :
    s.snapRun.snapsDisk = (insertSnap (snapFileOf s rq) s.snapsDisk).take s.retain ∧
    s.snapRun.snapIndex = s.fsm.index ∧ s.snapRun.snapTerm = s.fsm.term ∧
    s.snapRun.snapResult = some { task := rq.task, index := s.fsm.index } ∧
    s.snapRun.snapPending = none ∧ s.snapRun.fsm = s.fsm ∧ s.snapRun.log = s.log ∧
    s.snapRun.commitIndex = s.commitIndex ∧ s.snapRun.configs = s.configs := by
  unfold Node.snapRun
  rw [hp]
  dsimp only
  rw [if_neg (by exact h1), if_neg (by show ¬ s.fsm.index < rq.minIndex; omega)]
  exact ⟨rfl, rfl, rfl, rfl, rfl, rfl, rfl, rfl, rfl⟩

/-- **the refusals are exactly the model's conditions**: `noUpdates` iff nothing was applied since the last
snapshot, else `snapshotThreshold` iff the FSM is below `snaps.index + threshold` (captured at request
time), else success; a refusal leaves the disk alone. -/
theorem snapRun_refusal (s : Node) (rq : SnapReq) (hp : s.snapPending = some rq) :
    s.snapRun.snapResult.map (·.err) =
      some (if s.fsm.index = s.snapIndex then "plain:noUpdates"
            else if s.fsm.index < rq.minIndex then "plain:snapshotThreshold" else "") ∧
    (s.fsm.index = s.snapIndex ∨ s.fsm.index < rq.minIndex →
      s.snapRun.snapsDisk = s.snapsDisk ∧ s.snapRun.snapIndex = s.snapIndex ∧ s.snapRun.trace = s.trace) := by
  unfold Node.snapRun
  rw [hp]
  dsimp only
  by_cases c1 : s.fsm.index = s.snapIndex
  · rw [if_pos (by exact c1), if_pos c1]
    exact ⟨rfl, fun _ => ⟨rfl, rfl, rfl⟩⟩
  · rw [if_neg (by exact c1), if_neg c1]
    by_cases c2 : s.fsm.index < rq.minIndex
    · rw [if_pos (by exact c2), if_pos c2]
      exact ⟨rfl, fun _ => ⟨rfl, rfl, rfl⟩⟩
    · rw [if_neg (by exact c2), if_neg c2]
      exact ⟨rfl, fun h => by rcases h with h | h <;> contradiction⟩

/-- without a pending request `snapRun` does nothing -/
theorem snapRun_idle (s : Node) (hp : s.snapPending = none) : s.snapRun = s := by
  unfold Node.snapRun; rw [hp]

/-- **a snapshot never contains an uncommitted update**: with `fsm.index ≤ commitIndex` (the FSM only
applies committed entries) every file on disk after `snapRun` was there before or covers no index above
the commit index. -/
theorem snapshot_no_uncommitted (s : Node) (hc : s.fsm.index ≤ s.commitIndex) :
    ∀ g ∈ s.snapRun.snapsDisk, g ∈ s.snapsDisk ∨ (g.index ≤ s.commitIndex ∧ g.data = s.fsm.applied) := by
  intro g hg
  cases hp : s.snapPending with
  | none => rw [snapRun_idle s hp] at hg; exact Or.inl hg
  | some rq =>
    by_cases hr : s.fsm.index = s.snapIndex ∨ s.fsm.index < rq.minIndex
    · rw [((snapRun_refusal s rq hp).2 hr).1] at hg; exact Or.inl hg
    · rw [(snapshot_at_applied_index s rq hp (by omega) (by omega)).1] at hg
      rcases mem_of_mem_insertSnap _ _ _ (List.mem_of_mem_take hg) with e | e
      · right; subst e; exact ⟨hc, rfl⟩
      · exact Or.inl e

example :
    let s : Node := { fsm := { index := 5, term := 2, applied := ["a", "b"] }, commitIndex := 6,
                      snapPending := some { task := 1, minIndex := 3 } }
    s.snapRun.snapsDisk = [{ index := 5, term := 2, data := ["a", "b"] }] ∧ s.snapRun.snapIndex = 5 := by decide

/-! ### 4. the effect of installing a snapshot -/

/-- **does the file just published survive retention?** `snapshotSink.done` lists the directory newest
first and keeps `retain` files: the new file (and hence `snaps.open()` of `snaps.index`) is there afterwards
iff fewer than `retain` files on disk are newer than it. -/
theorem publish_keeps_new_file_iff (s : Node) (f : SnapFile) :
    (s.publishSnapshot f).snapsDisk.find? (·.index == (s.publishSnapshot f).snapIndex) =
      if (s.snapsDisk.takeWhile (fun g => decide (g.index > f.index))).length < s.retain then some f else none :=
  find_take_insertSnap f s.snapsDisk s.retain

/-- in particular it survives when `retain ≥ 1` and no file on disk is newer (the listing's head is the
newest), and then it is the head of the listing (what a restart reads) -/
theorem publish_keeps_new_file (s : Node) (f : SnapFile) (hr : s.retain ≥ 1)
    (hh : ∀ g, s.snapsDisk.head? = some g → g.index ≤ f.index) :
    (s.publishSnapshot f).snapsDisk.find? (·.index == (s.publishSnapshot f).snapIndex) = some f ∧
    (s.publishSnapshot f).snapsDisk.head? = some f := by
  constructor
  · rw [publish_keeps_new_file_iff, if_pos]
    cases hd : s.snapsDisk with
    | nil => exact hr
    | cons g gs =>
      have := hh g (by rw [hd]; rfl)
      rw [List.takeWhile_cons_of_neg (by simp; omega)]
      exact hr
  · obtain ⟨tl, e⟩ := insertSnap_head f s.snapsDisk hh
    rw [(publishSnapshot_fields s f).1, e]
    obtain ⟨k, hk⟩ : ∃ k, s.retain = k + 1 := ⟨s.retain - 1, by omega⟩
    rw [hk]; rfl

/-- or when `retain` exceeds the number of files already there -/
theorem publish_keeps_new_file_of_room (s : Node) (f : SnapFile) (hr : s.retain > s.snapsDisk.length) :
    (s.publishSnapshot f).snapsDisk.find? (·.index == (s.publishSnapshot f).snapIndex) = some f := by
  rw [publish_keeps_new_file_iff, if_pos]
  exact Nat.lt_of_le_of_lt (List.takeWhile_prefix _).length_le hr

/-- … and it is deleted at once (`retain` newer files exist, e.g. `retain = 1` and an older snapshot is
installed): the restore that follows cannot open it. In a well-formed state `onInstallSnap` never gets there: its guard
`lastIndex ≤ commitIndex` (with `snaps.index ≤ commitIndex`) makes the installed file the newest one
(`install_discard_restore_ok`). -/
theorem publish_drops_new_file (s : Node) (f : SnapFile)
    (h : s.retain ≤ (s.snapsDisk.takeWhile (fun g => decide (g.index > f.index))).length) :
    (s.publishSnapshot f).snapsDisk.find? (·.index == (s.publishSnapshot f).snapIndex) = none := by
  rw [publish_keeps_new_file_iff, if_neg (by omega)]



/-- the file an install request writes -/
def fileOf (q : InstallReq) : SnapFile :=
  { index := q.lastIndex, term := q.lastTerm, config := q.lastConfig, data := q.data }

/-- the node's log holds the snapshot's last entry: `log.Contains(meta.index) && term matches` -/
def keepsLog (s : Node) (q : InstallReq) : Bool :=
  s.log.contains q.lastIndex && (s.entryTerm? q.lastIndex == some q.lastTerm)

/-- the tail of the discard branch, applied to the state after `sink.done` -/
def discardTail (p : Node) (c : Config) : Node :=
  (((p.clearLog.fsmRestore.withCommitIndex p.clearLog.fsmRestore.snapIndex).changeConfigR c).commitConfig).ret rSuccess

theorem discardTail_fields (p : Node) (c : Config) :
    (discardTail p c).log = NLog.reset p.snapIndex ∧ (discardTail p c).lastLogIndex = p.snapIndex ∧
    (discardTail p c).lastLogTerm = p.snapTerm ∧ (discardTail p c).snapIndex = p.snapIndex ∧
    (discardTail p c).snapTerm = p.snapTerm ∧ (discardTail p c).commitIndex = p.snapIndex ∧
    (discardTail p c).configs = { committed := c, latest := c } ∧
    (discardTail p c).snapsDisk = p.snapsDisk ∧ (discardTail p c).result = rSuccess ∧
    (discardTail p c).fsm = p.clearLog.fsmRestore.fsm ∧
    (discardTail p c).panicked = p.clearLog.fsmRestore.panicked ∧
    (discardTail p c).trace = p.trace ++ [("clearLog", p.clearLog.durable)] := by
  unfold discardTail
  rw [commitConfig_eq, changeConfigR_eq, fsmRestore_eq]
  exact ⟨rfl, rfl, rfl, rfl, rfl, rfl, rfl, rfl, rfl, rfl, rfl, rfl⟩

/-- A request ahead of the commit index: if the log already holds the snapshot's last entry nothing is
installed; otherwise the snapshot is stored and the log discarded. -/
theorem install_shape (s : Node) (q : InstallReq) (hterm : ¬ q.term < s.term)
    (hahead : s.commitIndex < q.lastIndex) :
    s.onInstallSnap q =
      if keepsLog s q = true then (installPre s q).ret rSuccess
      else discardTail ((installPre s q).publishSnapshot (fileOf q)) q.lastConfig := by
  have sd := sameData_installPre s q
  rw [onInstallSnap_eq, if_neg hterm, if_neg (by rw [sd.commitIndex]; omega)]
  have hk : ((installPre s q).log.contains q.lastIndex &&
      ((installPre s q).entryTerm? q.lastIndex == some q.lastTerm)) = keepsLog s q := by
    unfold keepsLog Node.entryTerm?
    rw [sd.log]
  rw [hk]
  rfl

theorem install_discard_shape (s : Node) (q : InstallReq) (hterm : ¬ q.term < s.term)
    (hahead : s.commitIndex < q.lastIndex) (hk : keepsLog s q = false) :
    s.onInstallSnap q = discardTail ((installPre s q).publishSnapshot (fileOf q)) q.lastConfig := by
  rw [install_shape s q hterm hahead, hk]; rfl

/-- a request that installs nothing (not ahead of the commit index, or the log holds its last entry): only
the common prefix runs -/
theorem install_nothing_shape (s : Node) (q : InstallReq) (hterm : ¬ q.term < s.term)
    (h : q.lastIndex ≤ s.commitIndex ∨ keepsLog s q = true) :
    s.onInstallSnap q = (installPre s q).ret rSuccess := by
  by_cases hc : q.lastIndex ≤ s.commitIndex
  · rw [onInstallSnap_eq, if_neg hterm, if_pos (by rw [(sameData_installPre s q).commitIndex]; exact hc)]
  · have hk : keepsLog s q = true := by
      rcases h with h | h
      · contradiction
      · exact h
    rw [install_shape s q hterm (by omega), hk]; rfl

theorem discardPre_fields (p : Node) (f : SnapFile) :
    (p.publishSnapshot f).clearLog.panicked = p.panicked ∧ (p.publishSnapshot f).clearLog.fsm = p.fsm ∧
    (p.publishSnapshot f).clearLog.snapIndex = f.index ∧
    (p.publishSnapshot f).clearLog.snapsDisk = (p.publishSnapshot f).snapsDisk :=
  ⟨rfl, rfl, rfl, rfl⟩

theorem installPre_panicked (s : Node) (q : InstallReq) : (installPre s q).panicked = s.panicked := by
  unfold installPre
  split
  · rename_i h
    unfold Node.setTerm
    rw [if_pos (by omega), if_pos h]
    unfold Node.storeTermVote Node.point
    dsimp only
    split <;> rfl
  · rfl

/-- the common prefix with an equal term touches no storage -/
theorem installPre_trace_same_term (s : Node) (q : InstallReq) (he : q.term ≤ s.term) :
    (installPre s q).trace = s.trace := by
  unfold installPre
  rw [if_neg (by omega)]
  rfl

/-- what a request that installs nothing does: no data changes (`SameData`: log, last-log, snapshot
coordinates and directory, configurations, commit index, FSM, leader state all as before), it answers
success, and with an equal term there is no storage operation. -/
theorem install_nothing (s : Node) (q : InstallReq) (hterm : ¬ q.term < s.term)
    (h : q.lastIndex ≤ s.commitIndex ∨ keepsLog s q = true) :
    SameData s (s.onInstallSnap q) ∧ (s.onInstallSnap q).result = rSuccess ∧
    (s.onInstallSnap q).panicked = s.panicked ∧
    (q.term = s.term → (s.onInstallSnap q).trace = s.trace) := by
  rw [install_nothing_shape s q hterm h]
  exact ⟨SameData.trans (sameData_installPre s q) (sameData_ret _ _), rfl, installPre_panicked s q,
    fun he => installPre_trace_same_term s q (by omega)⟩

/-- **install_stale_ignored**: a stale or duplicated request — everything its snapshot covers is already
committed here — changes no data; only the reply (and the term adoption of the prefix). -/
theorem install_stale_ignored (s : Node) (q : InstallReq) (hterm : ¬ q.term < s.term)
    (hstale : q.lastIndex ≤ s.commitIndex) :
    SameData s (s.onInstallSnap q) ∧ (s.onInstallSnap q).result = rSuccess ∧
    (s.onInstallSnap q).panicked = s.panicked ∧
    (q.term = s.term → (s.onInstallSnap q).trace = s.trace) :=
  install_nothing s q hterm (Or.inl hstale)

/-- **keep branch** (the log holds the snapshot's last entry with the same term, hence everything the snapshot
covers): nothing is installed — no snapshot file is written, `snaps.index` does not move, the log is not
compacted, last-log index, commit index, FSM and configurations are untouched. (The entries up to
`lastIndex` are not yet applied here; storing the snapshot and compacting up to it would remove entries
the FSM still has to apply.) -/
theorem install_snapshot_keep (s : Node) (q : InstallReq) (hterm : ¬ q.term < s.term)
    (hk : keepsLog s q = true) :
    SameData s (s.onInstallSnap q) ∧ (s.onInstallSnap q).result = rSuccess ∧
    (s.onInstallSnap q).panicked = s.panicked ∧
    (q.term = s.term → (s.onInstallSnap q).trace = s.trace) :=
  install_nothing s q hterm (Or.inr hk)

/-- **discard branch** (the node's log does not hold the snapshot's last entry): afterwards the log is empty
at the snapshot index, last-log, snapshot and commit index all equal the snapshot index, both
configurations are the label's, the new file went through retention. -/
theorem install_snapshot_discard (s : Node) (q : InstallReq) (hterm : ¬ q.term < s.term)
    (hahead : s.commitIndex < q.lastIndex) (hk : keepsLog s q = false) :
    (s.onInstallSnap q).log = NLog.reset q.lastIndex ∧
    (s.onInstallSnap q).lastLogIndex = q.lastIndex ∧ (s.onInstallSnap q).lastLogTerm = q.lastTerm ∧
    (s.onInstallSnap q).snapIndex = q.lastIndex ∧ (s.onInstallSnap q).snapTerm = q.lastTerm ∧
    (s.onInstallSnap q).commitIndex = q.lastIndex ∧
    (s.onInstallSnap q).configs.latest = q.lastConfig ∧ (s.onInstallSnap q).configs.committed = q.lastConfig ∧
    (s.onInstallSnap q).snapsDisk = (insertSnap (fileOf q) s.snapsDisk).take s.retain ∧
    (s.onInstallSnap q).result = rSuccess := by
  rw [install_discard_shape s q hterm hahead hk]
  obtain ⟨e1, e2, e3, e4, e5, e6, e7, e8, e9, _⟩ := discardTail_fields ((installPre s q).publishSnapshot (fileOf q)) q.lastConfig
  have sd := sameData_installPre s q
  refine ⟨e1, e2, e3, e4, e5, e6, by rw [e7], by rw [e7], ?_, e9⟩
  rw [e8, (publishSnapshot_fields _ _).1, sd.snapsDisk, sd.retain]

/-- **discard branch, the FSM** — for an arbitrary snapshot directory: it becomes exactly the snapshot
`(lastIndex, lastTerm, data, lastConfig)` iff the file survived retention, i.e. fewer than `retain` files on
disk are newer than the one installed. Otherwise `snaps.open()` fails: the model panics and the FSM keeps
its old content. In a well-formed state (`SnapsWF`, `snapIndex ≤ commitIndex`) the first case always
applies: `install_discard_restore_ok`. -/
theorem install_snapshot_discard_fsm (s : Node) (q : InstallReq) (hterm : ¬ q.term < s.term)
    (hahead : s.commitIndex < q.lastIndex) (hk : keepsLog s q = false) :
    if (s.snapsDisk.takeWhile (fun g => decide (g.index > q.lastIndex))).length < s.retain then
      (s.onInstallSnap q).fsm =
        { index := q.lastIndex, term := q.lastTerm, applied := q.data, config := q.lastConfig } ∧
      (s.onInstallSnap q).panicked = s.panicked
    else
      (s.onInstallSnap q).fsm = s.fsm ∧ (s.panicked = none → (s.onInstallSnap q).panicked ≠ none) := by
  rw [install_discard_shape s q hterm hahead hk]
  obtain ⟨_, _, _, _, _, _, _, _, _, e10, e11, _⟩ :=
    discardTail_fields ((installPre s q).publishSnapshot (fileOf q)) q.lastConfig
  have sd := sameData_installPre s q
  have hfind := publish_keeps_new_file_iff (installPre s q) (fileOf q)
  rw [sd.snapsDisk, sd.retain] at hfind
  change _ = if (s.snapsDisk.takeWhile (fun g => decide (g.index > q.lastIndex))).length < s.retain then _ else _ at hfind
  rw [(publishSnapshot_fields _ _).2.1] at hfind
  obtain ⟨d1, d2, d3, d4⟩ := discardPre_fields (installPre s q) (fileOf q)
  rw [e10, e11]
  split
  · rename_i hlt
    rw [if_pos hlt] at hfind
    obtain ⟨a, b⟩ := fsmRestore_fsm ((installPre s q).publishSnapshot (fileOf q)).clearLog (fileOf q)
      (by rw [d3]; show q.lastIndex ≠ 0; omega) (by rw [d3, d4]; exact hfind)
    exact ⟨a, by rw [b, d1]; exact installPre_panicked s q⟩
  · rename_i hlt
    rw [if_neg hlt] at hfind
    obtain ⟨a, b⟩ := fsmRestore_missing ((installPre s q).publishSnapshot (fileOf q)).clearLog
      (by rw [d3, d4]; exact hfind)
    refine ⟨by rw [a, d2]; exact sd.fsm, fun hp => b ?_⟩
    rw [d1, installPre_panicked]; exact hp

/-- the previous theorem when no file on disk is newer than the one installed -/
theorem install_snapshot_discard_fsm_ok (s : Node) (q : InstallReq) (hterm : ¬ q.term < s.term)
    (hahead : s.commitIndex < q.lastIndex) (hk : keepsLog s q = false)
    (hr : s.retain ≥ 1) (hh : ∀ g, s.snapsDisk.head? = some g → g.index ≤ q.lastIndex) :
    (s.onInstallSnap q).fsm =
      { index := q.lastIndex, term := q.lastTerm, applied := q.data, config := q.lastConfig } ∧
    (s.onInstallSnap q).panicked = s.panicked := by
  have h := install_snapshot_discard_fsm s q hterm hahead hk
  rw [if_pos] at h
  · exact h
  · cases hd : s.snapsDisk with
    | nil => exact hr
    | cons g gs =>
      have := hh g (by rw [hd]; rfl)
      rw [List.takeWhile_cons_of_neg (by simp; omega)]
      exact hr

/-- The snapshot state is well formed: the directory is listed newest first without duplicates, `snaps.index`
is the newest file's index (`snapshots.index` is read from the directory on open and updated by
`sink.done`), and the snapshot covers committed entries only (`snaps.index ≤ commitIndex`: a snapshot is
taken at the applied index; a restart and an installation set the commit index to the snapshot index). -/
structure SnapsWF (s : Node) : Prop where
  sorted : s.snapsDisk.Pairwise (fun a b => a.index > b.index)
  head : ∀ g, s.snapsDisk.head? = some g → g.index = s.snapIndex
  le_commit : s.snapIndex ≤ s.commitIndex

/-- with `SnapsWF` a request ahead of the commit index is newer than every file on disk -/
theorem snapsWF_head_le (s : Node) (q : InstallReq) (hwf : SnapsWF s) (hahead : s.commitIndex < q.lastIndex) :
    ∀ g, s.snapsDisk.head? = some g → g.index ≤ q.lastIndex := by
  intro g hg; have := hwf.head g hg; have := hwf.le_commit; omega

/-- **install_discard_restore_ok**: in a well-formed state with `retain ≥ 1`, the file a discard-branch
installation writes always survives the retention pass (the guard `lastIndex > commitIndex ≥ snaps.index`
makes it the newest), so the restore that follows opens it: the FSM is exactly the snapshot, nothing
panics (no `fsm.restoreOpen`), and the file heads the directory listing. -/
theorem install_discard_restore_ok (s : Node) (q : InstallReq) (hterm : ¬ q.term < s.term)
    (hahead : s.commitIndex < q.lastIndex) (hk : keepsLog s q = false)
    (hr : s.retain ≥ 1) (hwf : SnapsWF s) :
    (s.onInstallSnap q).fsm =
      { index := q.lastIndex, term := q.lastTerm, applied := q.data, config := q.lastConfig } ∧
    (s.onInstallSnap q).panicked = s.panicked ∧
    (s.onInstallSnap q).snapsDisk.head? = some (fileOf q) := by
  have hh := snapsWF_head_le s q hwf hahead
  obtain ⟨a, b⟩ := install_snapshot_discard_fsm_ok s q hterm hahead hk hr hh
  refine ⟨a, b, ?_⟩
  rw [(install_snapshot_discard s q hterm hahead hk).2.2.2.2.2.2.2.2.1]
  exact (publish_keeps_new_file s (fileOf q) hr hh).2

/-- **install_never_lowers_snapshot**: whatever the request (any term, any coordinates), the snapshot index
after `onInstallSnap` is at least the one before — in a state whose snapshot covers committed entries only
(`snapIndex ≤ commitIndex`, part of `SnapsWF`; it is what makes the commit-index guard sufficient). -/
theorem install_never_lowers_snapshot (s : Node) (q : InstallReq) (hle : s.snapIndex ≤ s.commitIndex) :
    s.snapIndex ≤ (s.onInstallSnap q).snapIndex := by
  by_cases hterm : q.term < s.term
  · rw [onInstallSnap_eq, if_pos hterm]; exact Nat.le_refl _
  · by_cases hn : q.lastIndex ≤ s.commitIndex ∨ keepsLog s q = true
    · rw [(install_nothing s q hterm hn).1.snapIndex]; exact Nat.le_refl _
    · have hahead : s.commitIndex < q.lastIndex := by omega
      have hk : keepsLog s q = false := by
        cases h : keepsLog s q with
        | true => exact absurd (Or.inr h) hn
        | false => rfl
      rw [(install_snapshot_discard s q hterm hahead hk).2.2.2.1]; omega

/-- an installation request of any kind keeps the snapshot state well formed (`retain ≥ 1`) -/
theorem install_preserves_snapsWF (s : Node) (q : InstallReq) (hr : s.retain ≥ 1) (hwf : SnapsWF s) :
    SnapsWF (s.onInstallSnap q) := by
  by_cases hterm : q.term < s.term
  · rw [onInstallSnap_eq, if_pos hterm]; exact ⟨hwf.sorted, hwf.head, hwf.le_commit⟩
  · by_cases hn : q.lastIndex ≤ s.commitIndex ∨ keepsLog s q = true
    · have sd := (install_nothing s q hterm hn).1
      exact ⟨by rw [sd.snapsDisk]; exact hwf.sorted, by rw [sd.snapsDisk, sd.snapIndex]; exact hwf.head,
        by rw [sd.snapIndex, sd.commitIndex]; exact hwf.le_commit⟩
    · have hahead : s.commitIndex < q.lastIndex := by omega
      have hk : keepsLog s q = false := by
        cases h : keepsLog s q with
        | true => exact absurd (Or.inr h) hn
        | false => rfl
      have hnew : s.snapIndex < q.lastIndex := by have := hwf.le_commit; omega
      obtain ⟨_, _, _, e4, _, e6, _, _, e9, _⟩ := install_snapshot_discard s q hterm hahead hk
      have hins : insertSnap (fileOf q) s.snapsDisk = fileOf q :: s.snapsDisk := by
        cases hd : s.snapsDisk with
        | nil => rfl
        | cons g gs =>
          have hg := hwf.head g (by rw [hd]; rfl)
          unfold insertSnap
          rw [if_pos (by show q.lastIndex > g.index; omega)]
      obtain ⟨k, hk'⟩ : ∃ k, s.retain = k + 1 := ⟨s.retain - 1, by omega⟩
      rw [hins, hk', List.take_succ_cons] at e9
      refine ⟨?_, ?_, by rw [e4, e6]; exact Nat.le_refl _⟩
      · rw [e9, List.pairwise_cons]
        refine ⟨fun x hx => ?_, List.Pairwise.sublist (List.take_sublist _ _) hwf.sorted⟩
        have hx' : x ∈ s.snapsDisk := List.mem_of_mem_take hx
        show q.lastIndex > x.index
        cases hd : s.snapsDisk with
        | nil => rw [hd] at hx'; cases hx'
        | cons g gs =>
          have hg := hwf.head g (by rw [hd]; rfl)
          have hs := hwf.sorted
          rw [hd] at hx' hs
          rcases List.mem_cons.mp hx' with e | e
          · subst e; omega
          · have := (List.pairwise_cons.mp hs).1 x e; omega
      · intro g hg
        rw [e9] at hg
        injection hg with hg
        subst hg
        rw [e4]; rfl

/-- Non-vacuity of both branches. -/
example :
    let s : Node := { nid := 1, log := { prev := 0, entries := [{ index := 1, term := 1 }, { index := 2, term := 1 }] },
                      lastLogIndex := 2, lastLogTerm := 1 }
    keepsLog s { lastIndex := 2, lastTerm := 1 } = true ∧ keepsLog s { lastIndex := 2, lastTerm := 3 } = false ∧
    SnapsWF s ∧
    (s.onInstallSnap { term := 1, src := 2, lastIndex := 2, lastTerm := 3, data := ["x"] }).fsm.applied = ["x"] := by
  refine ⟨by decide, by decide, ⟨by decide, by decide, by decide⟩, by decide⟩

/-- The hypothesis `snapIndex ≤ commitIndex` of `install_discard_restore_ok` / `install_never_lowers_snapshot`
cannot be dropped: in a state with a snapshot at 9 but commit index 3 (not reachable any more: it was what
the keep branch of `onInstallSnapRequest` left when it still stored the snapshot without moving the commit
index) a request for 5 passes the commit-index guard, lowers `snaps.index` and, with `retain = 1`, deletes
the file it has just written. -/
example :
    let s : Node := { nid := 1, snapIndex := 9, snapsDisk := [{ index := 9, term := 1 }], commitIndex := 3 }
    let s' := s.onInstallSnap { term := 1, src := 2, lastIndex := 5, lastTerm := 1, data := ["x"] }
    ¬ SnapsWF s ∧ s'.snapIndex = 5 ∧ s'.panicked = some "fsm.restoreOpen" := by
  refine ⟨fun h => absurd h.le_commit (by decide), by decide, by decide⟩

/-- The keep branch installs nothing: `fsm.index = commitIndex = 2`, segments start at 0 and 4, request for a
snapshot at 5 whose last entry the log holds — afterwards log, snapshot index and commit index are as before
and the next apply reads entries 3..6. (Before the repair the handler stored the snapshot and compacted at
its index: `log.prev = 4 > fsm.index`, and that apply failed in `Log.Get(3)`.) -/
example :
    let s : Node := { nid := 1, term := 1,
                      log := { prev := 0, entries := (List.range 6).map (fun k => { index := k + 1, term := 1, typ := etNop }),
                               segs := [0, 4] },
                      lastLogIndex := 6, lastLogTerm := 1, commitIndex := 2, fsm := { index := 2, term := 1 } }
    let s' := s.onInstallSnap { term := 1, src := 2, lastIndex := 5, lastTerm := 1 }
    keepsLog s { term := 1, src := 2, lastIndex := 5, lastTerm := 1 } = true ∧
    s'.panicked = none ∧ s'.log.prev = 0 ∧ s'.fsm.index = 2 ∧ s'.commitIndex = 2 ∧ s'.snapIndex = 0 ∧
    s'.snapsDisk = [] ∧ s'.trace = [] ∧
    ((s'.setCommitIndexR 6).1.applyCommitted).panicked = none ∧
    ((s'.setCommitIndexR 6).1.applyCommitted).fsm.index = 6 := by
  refine ⟨by decide, by decide, by decide, by decide, by decide, by decide, by decide, by decide, by decide, by decide⟩


/-! ### 5. a follower can still be served after compaction -/

theorem compactLog_fields (s : Node) (n : Nat) :
    (s.compactLog n).log = s.log.removeLTE n ∧ (s.compactLog n).snapIndex = s.snapIndex ∧
    (s.compactLog n).lastLogIndex = s.lastLogIndex ∧ (s.compactLog n).commitIndex = s.commitIndex ∧
    (s.compactLog n).snapsDisk = s.snapsDisk ∧ (s.compactLog n).fsm = s.fsm ∧
    (s.compactLog n).configs = s.configs := ⟨rfl, rfl, rfl, rfl, rfl, rfl, rfl⟩

/-- After `compactLog n` with `n ≤ snapIndex` (and the log reaching the snapshot before), the first log
index is still `≤ snapIndex`: every index is either in the log (`> log.prev`) or covered by the snapshot,
and the last index and all retained entries are unchanged. -/
theorem follower_servable (s : Node) (n : Nat) (hok : SegsOK s.log) (hn : n ≤ s.snapIndex)
    (hp : s.log.prev ≤ s.snapIndex) :
    (s.compactLog n).log.prev ≤ (s.compactLog n).snapIndex ∧
    (s.compactLog n).log.last = s.log.last ∧
    (∀ j, j ≤ (s.compactLog n).snapIndex ∨ (s.compactLog n).log.get? j = s.log.get? j) ∧
    SegsOK (s.compactLog n).log := by
  obtain ⟨_, _, _, hor, hl, hg, hk⟩ := removeLTE_whole_segments s.log n hok
  have hle : (s.log.removeLTE n).prev ≤ s.snapIndex := by rcases hor with e | e <;> omega
  refine ⟨hle, hl, fun j => ?_, hk⟩
  by_cases hj : j ≤ s.snapIndex
  · exact Or.inl hj
  · exact Or.inr (hg j (by omega))

end C09
end Raft

#print axioms Raft.C09.canLTE_bounds
#print axioms Raft.C09.canLTE_le
#print axioms Raft.C09.canLTE_maximal
#print axioms Raft.C09.removeLTE_prev
#print axioms Raft.C09.removeLTE_entries
#print axioms Raft.C09.removeLTE_segs
#print axioms Raft.C09.removeLTE_flushed
#print axioms Raft.C09.removeLTE_whole_segments
#print axioms Raft.C09.removeLTE_noop
#print axioms Raft.C09.foldl_le_init
#print axioms Raft.C09.reply_log
#print axioms Raft.C09.reply_ldr
#print axioms Raft.C09.reply_snapIndex
#print axioms Raft.C09.notifyFlr_log
#print axioms Raft.C09.compaction_never_beyond_snapshot
#print axioms Raft.C09.onSnapshotTaken_prev_le
#print axioms Raft.C09.onSnapshotTaken_removeLTE_le
#print axioms Raft.C09.checkLogCompact_effect
#print axioms Raft.C09.snapshot_at_applied_index
#print axioms Raft.C09.snapRun_refusal
#print axioms Raft.C09.snapRun_idle
#print axioms Raft.C09.snapshot_no_uncommitted
#print axioms Raft.C09.publish_keeps_new_file_iff
#print axioms Raft.C09.publish_keeps_new_file
#print axioms Raft.C09.publish_keeps_new_file_of_room
#print axioms Raft.C09.publish_drops_new_file
#print axioms Raft.C09.discardTail_fields
#print axioms Raft.C09.install_shape
#print axioms Raft.C09.install_discard_shape
#print axioms Raft.C09.install_nothing_shape
#print axioms Raft.C09.discardPre_fields
#print axioms Raft.C09.installPre_panicked
#print axioms Raft.C09.installPre_trace_same_term
#print axioms Raft.C09.install_nothing
#print axioms Raft.C09.install_stale_ignored
#print axioms Raft.C09.install_snapshot_keep
#print axioms Raft.C09.install_snapshot_discard
#print axioms Raft.C09.install_snapshot_discard_fsm
#print axioms Raft.C09.install_snapshot_discard_fsm_ok
#print axioms Raft.C09.snapsWF_head_le
#print axioms Raft.C09.install_discard_restore_ok
#print axioms Raft.C09.install_never_lowers_snapshot
#print axioms Raft.C09.install_preserves_snapsWF
#print axioms Raft.C09.compactLog_fields
#print axioms Raft.C09.follower_servable
#print axioms Raft.Repl.install_match_index
