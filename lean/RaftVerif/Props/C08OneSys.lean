/-
C08 (/ C01 / C02) on the cluster-level transition system WITH membership changes (`Raft.Member`, Sys/Member.lean), THROUGH
single-voter configurations (quorum 1) and steps that append SEVERAL configuration entries — stage 2 of S36.

What is here (solid):
(a) the multi-entry step ledger: `config_chain_one_partial` — every record of the ledger `changes` (every completed step,
    of any node, other than an append request, in which the index of the node's latest configuration grew) is a step
    `r.post = r.pre.step r.op …` whose appended entries `ext` form a `One.Chain1` from `r.pre.configs.latest` to
    `r.post.configs.latest`: EVERY configuration entry the step appended — however many, however deeply nested, whether
    stored by the handler or by `leader.init` of a node elected inside the step — is `One.Link`ed to the configuration
    before it (adjacent voting rights, a voter, an anchor kept, the guards of `canChangeConfig` at that moment). This removes
    the `nested` escape of `C08Sys.config_chain_partial` ("adjacency to the immediate predecessor is claimed for the first
    only"). It rests on `One.step_pw` (Lemmas/MemberOneD.lean): one whole `Node.step`, any role, every operation other than
    append / install-snapshot requests, role transitions and `leader.init` included.
(b) adjacency / intersection for every consecutive pair of the chain, 1 ↔ 2 voters included: `link_adjLists`,
    `link_quorums_intersect`, `chain_pairs` (`Pairs`: for consecutive configurations `c, c'` of the chain — member ids strictly
    increasing — the voter lists are duplicate-free, `QuorumRel.AdjLists`, and every majority of `c.voters` meets every
    majority of `c'.voters`); `change_pairs_partial`: for every record of `changes`.
(c) election safety through the bootstrap path: `election_safety_bootstrap_partial` — in every run in which the voters of
    every node's latest configuration are `[a]` or `[a, b]` (a cluster started as the single voter `a` and grown by adding
    `b` as a non-voter and promoting it — or shrunk back), with NO hypothesis on elections: two leaders of one term are the
    same node. (An instance of `C08Sys.election_safety_one_change_partial`, which has no lower bound on the number of voters;
    the election bookkeeping `C01Member.einv_reachable` covers a node elected by its own vote alone.)

What is NOT here — and what it would take (see the report of S36):
the unconditional theorems of Props/C08Member.lean (election safety, leader completeness, commit-index safety for ARBITRARY
chains) for runs through quorum 1. `MemberCore.member_safety` / `adjacent_quorums_intersect` have no lower bound on the
number of voters, and the node-level ingredient for multi-entry steps is (a)/(b). The restriction "quorum ≠ 1" (`SideC.q1`,
from `ReqG`'s two anchors) is used in the INSTANTIATION, to rule out "follower → leader within one step":
`C04Member.story_backed` / `new_old_absurd` / `rinv_upd` (third case of `LogRel.Story`: the grant ledger of a CRASHED
self-election is incomplete — `Election.Trans.crash` records no grant), `MemberCommit.nstepM` (`init_no_commit`: nothing is
committed inside `leader.init`), `MemberStep.leader_pre` / `no_old` / `NewM` (6 places), `MemberCrash` (`rinv_upd`), and
`MemberSide.ev_small` + `MemberGood.CfgAll` (two voters ⇒ one configuration entry per step ⇒ `SideT.adj`). Each of these is
a re-proof inside files of 1 000 – 2 300 lines; not attempted.
-/
import RaftVerif.Lemmas.MemberOneD
import RaftVerif.Props.C08Sys
import RaftVerif.Props.C08One

namespace Raft
namespace C08OneSys
open Node Election Member QuorumRel CfgRel Raft.One LogRel Replication CommitRel Commit

/-! ### (b) voter lists of linked configurations -/

theorem mem_voters_iff {c : Config} (h : Srt c) (x : Nat) : x ∈ c.voters ↔ c.isVoter x = true := by
  constructor
  · intro hx
    unfold Config.voters at hx
    obtain ⟨n, hn, hid⟩ := List.mem_map.mp hx
    obtain ⟨hm, hv⟩ := List.mem_filter.mp hn
    have hf : c.find? x = some n := by
      rw [← hid]
      unfold Config.find?
      exact find?_of_mem_nodup c.nodes (by
        rw [List.Nodup, List.pairwise_map]
        exact h.imp (fun hab => Nat.ne_of_lt hab)) n hm
    unfold Config.isVoter
    rw [hf]; exact hv
  · exact C01Sys.isVoter_mem_voters c x

theorem voters_nodup {c : Config} (h : Srt c) : c.voters.Nodup := by
  unfold Config.voters
  rw [List.Nodup, List.pairwise_map]
  exact (List.Pairwise.filter _ h).imp (fun hab => Nat.ne_of_lt hab)

/-- **linked configurations have adjacent voter lists** (member ids strictly increasing) -/
theorem link_adjLists {c c' : Config} (hs : Srt c) (h : Link c c') : AdjLists c.voters c'.voters := by
  obtain ⟨id, hid⟩ := h.adj.1
  refine ⟨id, fun x hx => ?_⟩
  rw [mem_voters_iff hs, mem_voters_iff (h.srt hs), hid x hx]

/-- **every majority of the voters of `c` meets every majority of the voters of the next configuration `c'`** — whatever
the numbers of voters: `{a}` / `{a, b}` (majorities `{a}` and `{a, b}`), `{a, b}` / `{b}` included -/
theorem link_quorums_intersect {c c' : Config} (hs : Srt c) (h : Link c c') (Q Q' : List Nat) (hQ : Q.Nodup)
    (hQ' : Q'.Nodup) (hq : ∀ x ∈ Q, x ∈ c.voters) (hq' : ∀ x ∈ Q', x ∈ c'.voters)
    (h1 : 2 * Q.length > c.voters.length) (h2 : 2 * Q'.length > c'.voters.length) : ∃ x, x ∈ Q ∧ x ∈ Q' :=
  adjacent_quorums_intersect c.voters c'.voters Q Q' (voters_nodup hs) (voters_nodup (h.srt hs)) hQ hQ'
    (link_adjLists hs h) hq hq' h1 h2

/-- what is known of two consecutive configurations of a chain -/
structure Pair (c c' : Config) : Prop where
  link : Link c c'
  srt : Srt c ∧ Srt c'
  nodup : c.voters.Nodup ∧ c'.voters.Nodup
  adj : AdjLists c.voters c'.voters
  meet : ∀ Q Q' : List Nat, Q.Nodup → Q'.Nodup → (∀ x ∈ Q, x ∈ c.voters) → (∀ x ∈ Q', x ∈ c'.voters) →
    2 * Q.length > c.voters.length → 2 * Q'.length > c'.voters.length → ∃ x, x ∈ Q ∧ x ∈ Q'

/-- consecutive configurations of the list (starting from `c`) are `Pair`s -/
def Pairs : Config → List Config → Prop
  | _, [] => True
  | c, c' :: cs => Pair c c' ∧ Pairs c' cs

theorem pairs_of_links {cs : List Config} : ∀ {c : Config}, Srt c → C08One.Links c cs → Pairs c cs := by
  induction cs with
  | nil => intro c _ _; trivial
  | cons a as ih =>
    intro c hs h
    exact ⟨⟨h.1, ⟨hs, h.1.srt hs⟩, ⟨voters_nodup hs, voters_nodup (h.1.srt hs)⟩, link_adjLists hs h.1,
      link_quorums_intersect hs h.1⟩, ih (h.1.srt hs) h.2⟩

/-- **the chain of a step, pair by pair**: the configurations among the entries `ext` of a `Chain1`, in order, starting
from a configuration with strictly increasing member ids -/
theorem chain_pairs {c₀ c : Config} {es : List Entry} (hs : Srt c₀) (h : Chain1 c₀ es c) :
    Pairs c₀ (C08One.cfgsOf es) ∧ C08One.lastOr c₀ (C08One.cfgsOf es) = c :=
  ⟨pairs_of_links hs (C08One.chain_links h).1, (C08One.chain_links h).2⟩

/-! ### one whole step, any role, any operation but append / install requests (node level) -/

/-- **step_chain_any_partial — `C08One.step_chain_partial` for EVERY role and every operation other than an append /
install-snapshot request** (those are the follower side: they adopt / truncate, `C08Step.config_step`). A bootstrapped node
`s` — follower, candidate or leader — with `latest.index ≤ lastLogIndex`, an anchor (or an empty configuration), current
leader caches if it is leader (`C06Cache.LeaderCache`: proved of every reachable state); a client batch without
configuration items, a submitted configuration with distinct ids that are strictly increasing if those of the latest
configuration are. Unless the step fails: `One.LogChain s s'` — the entries appended within the step, by the handler or by
`leader.init` when the node is ELECTED INSIDE THE STEP (the only voter at its election timeout; a candidate counting the
last vote), form a `Chain1`: every configuration entry is `Link`ed to the configuration before it. -/
theorem step_chain_any_partial (s : Node) (op : Op) (ra : List Nat) (ord : List (List Nat))
    (hb : s.configs.isBootstrapped = true) (hli : s.configs.latest.index ≤ s.lastLogIndex)
    (hanch : AnchC s.configs.latest) (hlc : C06Cache.LeaderCache s) (hok : CfgRel.OpOk op)
    (hsr : ∀ task c, op = .changeConfig task c → Srt s.configs.latest → Srt c)
    (hna : ∀ q, op ≠ .append q) (hni : ∀ q, op ≠ .install q) (hp : (s.step op ra ord).panicked = none) :
    LogChain s (s.step op ra ord) :=
  (step_pw s op ra ord hli hanch (fun hl => (C06Cache.cacheOK_iff s).mp (hlc hl)) hok hsr hna hni hb hp).chain hp

/-! ### (a) the ledger of steps -/

/-- node-level side condition (as `C08Sys.NodeOK`, and the member ids of the latest configuration strictly increase) -/
def NodeOK1 (s : Node) : Prop := C08Sys.NodeOK s ∧ Srt s.configs.latest

/-- side condition on the states of a run -/
def NodesOK1 (x : Member.Sys) : Prop := Boot x ∧ ∀ i, NodeOK1 (x.node i)

/-- what is known of a recorded step in which the index of the node's latest configuration grew -/
structure ChangeOK1 (r : Change) : Prop where
  /-- the record is a step of the model that did not handle an append request -/
  step : ∃ ra ord, r.post = r.pre.step r.op ra ord
  noAppend : ∀ q, r.op ≠ .append q
  grew : r.pre.configs.latest.index < r.post.configs.latest.index
  /-- unless the step failed: the entries it appended form a `Chain1` (a submitted configuration having strictly
  increasing member ids) -/
  chain : (∀ task c, r.op = .changeConfig task c → Srt c) → r.post.panicked = none → LogChain r.pre r.post

theorem changeOK1_step (i : Nat) (s : Node) (op : Op) (ra : List Nat) (ord : List (List Nat))
    (hb : s.configs.isBootstrapped = true) (hlc : C06Cache.LeaderCache s) (hn : NodeOK1 s) (hok : LogRel.OpOK op)
    (hcf : CfgRel.OpOk op) (r : Change) (hr : r ∈ changeOf i s op (s.step op ra ord)) : ChangeOK1 r := by
  obtain ⟨h1, h2, rfl⟩ := C08Sys.mem_changeOf hr
  have hna := C08Sys.isAppend_false h1
  refine ⟨⟨ra, ord, rfl⟩, hna, h2, fun hsr hp => ?_⟩
  exact (step_pw s op ra ord hn.1.1 hn.1.2 (fun hl => (C06Cache.cacheOK_iff s).mp (hlc hl)) hcf
    (fun task c e _ => hsr task c e) hna
    (fun q e => by subst e; exact absurd hok (by simp [LogRel.OpOK])) hb hp).chain hp

/-- **(a) C08, cluster level: the configuration chain, every entry of every step.**  In every state of `Member` reachable by
runs whose states satisfy `NodesOK1` (every node bootstrapped; `latest.index ≤ lastLogIndex`, an anchor and strictly
increasing member ids in the latest configuration — node-level invariants that only an append request or a restart can
break: **assuming them of every state is the `_partial` restriction**, as in `C08Sys.config_chain_partial`; the leader
caches are proved: `C08Sys.leaderCache_reachable`), every record `r` of the ledger `changes` — EVERY step in which a node
introduced configurations as leader, NO restriction on the number of voters — is a step of the model, and unless it failed
(and a submitted configuration has strictly increasing ids) `One.LogChain r.pre r.post`: there is the list `ext` of the
entries it appended, and EVERY configuration entry of `ext` is `One.Link`ed to the configuration before it — the first to
`r.pre.configs.latest`, the last is `r.post.configs.latest`. -/
theorem config_chain_one_partial (x : Member.Sys) (h : ReachableP NodesOK1 x) : ∀ r ∈ x.changes, ChangeOK1 r := by
  induction h with
  | init x hi _ => rw [hi.changes]; intro r hr; cases hr
  | next x y hx ht _ ih =>
    cases ht with
    | step i op ra ord src he =>
      intro r hr
      rcases List.mem_append.mp hr with hr | hr
      · exact changeOK1_step i (x.node i) op ra ord (hx.side.1 i) (C08Sys.leaderCache_reachable x hx i) (hx.side.2 i)
          he.rp.ok he.cfg r hr
      · exact ih r hr
    | crash i op ra ord src k retain sor n he hn => exact ih
    | send i q _ _ _ _ => exact ih

/-- **(a)+(b) pair by pair**: for every record of `changes` (the step did not fail; a submitted configuration and the
node's latest configuration before the step have strictly increasing member ids) there is the list `ext` of appended
entries whose configurations, in order, are `Pair`s — adjacent, duplicate-free voter lists whose majorities intersect, 1 ↔ 2
voters included — from `r.pre.configs.latest` to `r.post.configs.latest`. -/
theorem change_pairs_partial (x : Member.Sys) (h : ReachableP NodesOK1 x) (r : Change) (hr : r ∈ x.changes)
    (hsr : ∀ task c, r.op = .changeConfig task c → Srt c) (hs : Srt r.pre.configs.latest)
    (hp : r.post.panicked = none) :
    ∃ ext, Pairs r.pre.configs.latest (C08One.cfgsOf ext) ∧
      C08One.lastOr r.pre.configs.latest (C08One.cfgsOf ext) = r.post.configs.latest := by
  obtain ⟨_, ext, _, _, hc⟩ := (config_chain_one_partial x h r hr).chain hsr hp
  exact ⟨ext, chain_pairs hs hc⟩

/-! ### (c) election safety along the bootstrap path -/

theorem adj_single_pair (a b : Nat) : AdjLists [a] [a, b] :=
  ⟨b, fun x hx => by simp [hx]⟩

/-- **C01 through a single-voter configuration (no hypothesis on elections).** In every state of `Member` reachable by runs
in which every node is bootstrapped and the voters of every node's latest configuration are `[a]` or `[a, b]` in every state
— a cluster started as the SINGLE voter `a` (who elects itself by its own vote, within one step) and grown by adding `b` as a
non-voter and promoting it (or shrunk back by demoting / removing `b`), any number of times, with any number of non-voter
changes, crashes and restarts — two nodes that are leader in the same term are the same node, and the ledger `won` names at
most one node per term. (**`_partial`: one pair of adjacent voter sets per run**.) -/
theorem election_safety_bootstrap_partial (a b : Nat) (hab : a ≠ b) (x : Member.Sys)
    (h : ReachableP (C08Sys.TwoV [a] [a, b]) x) :
    (∀ i j, (x.node i).role = .leader → (x.node j).role = .leader → (x.node i).term = (x.node j).term → i = j) ∧
    (∀ l l' t, (l, t) ∈ x.el.won → (l', t) ∈ x.el.won → l = l') :=
  C08Sys.election_safety_one_change_partial [a] [a, b] (by simp) (by simp [hab]) (adj_single_pair a b) x h

/-! ### example run: bootstrap as a single voter, add a non-voter, promote it -/

/-- the bootstrap configuration: node 1 is the ONLY voter; nodes 3 and 4 are left-over non-voters -/
def bCfg : Config :=
  { nodes := [{ id := 1, addr := "a:1", voter := true }, { id := 3, addr := "a:3", voter := false },
              { id := 4, addr := "a:4", voter := false }], index := 1, term := 1 }
def bE : Entry := bCfg.toEntry
def bNode (i : Nat) : Node :=
  { cid := 7, nid := i, term := 1, durTerm := 1, log := { entries := [bE], flushed := 1 },
    lastLogIndex := 1, lastLogTerm := 1, configs := { committed := bCfg, latest := bCfg } }
def b0 : Member.Sys :=
  { cm := { rp := { el := { node := bNode, grants := [], counted := [], won := [] }, sent := [], created := [⟨bE, 0, 0⟩] },
            acks := [], camps := [], committed := [] }, ecfg := [], changes := [] }
def b1 := stepM b0 1 .timeout [] [] 0

theorem b0_rinit : Replication.Init b0.cm.rp := by
  refine ⟨⟨fun i => ⟨rfl, ⟨rfl, rfl⟩, rfl⟩, rfl, rfl, rfl⟩, rfl, ?_, ?_, fun i => ⟨⟨rfl, rfl, rfl, ?_, rfl, rfl⟩, ?_⟩, ?_⟩
  · intro c hc
    rw [List.mem_singleton.mp hc]
  · intro a ha b hb _ _
    rw [List.mem_singleton.mp ha, List.mem_singleton.mp hb]
  · intro k hk
    have : k = 0 := by
      have : k < 1 := hk
      omega
    subst this; rfl
  · exact ⟨⟨⟨bE, 0, 0⟩, List.mem_singleton.mpr rfl, rfl, fun pt h => by cases h⟩, trivial⟩
  · intro c hc j
    rw [List.mem_singleton.mp hc]
    exact Nat.le_refl _

theorem b0_init : Member.Init b0 := by
  have hp : Path b0.cm.T [bE] :=
    ⟨⟨⟨⟨bE, 0, 0⟩, List.mem_singleton.mpr rfl, rfl, fun pt h => by cases h⟩, trivial⟩,
      fun k hk => by
        have : k = 0 := by have : k < 1 := hk; omega
        subst this; rfl⟩
  have hh : Holds [bE] 1 1 := ⟨Nat.le_refl _, Nat.le_refl _, rfl⟩
  refine ⟨⟨b0_rinit, ⟨fun c hc => ?_, fun c hc => ?_, fun c hc d hd _ _ => ?_⟩,
    fun i => ⟨?_, rfl, rfl, rfl, rfl⟩, rfl, rfl, rfl⟩, rfl, rfl⟩
  · rw [List.mem_singleton.mp hc]; exact ⟨_, hp, hh⟩
  · rw [List.mem_singleton.mp hc]; decide
  · rw [List.mem_singleton.mp hc, List.mem_singleton.mp hd]
    exact anc_of_path hp hh hh (Nat.le_refl _)
  · show C06.LogWF ({ entries := [bE], flushed := 1 } : NLog)
    exact ⟨by decide, by decide⟩

theorem bCfg_ok : bCfg.find? 1 = some { id := 1, addr := "a:1", voter := true } ∧ Srt bCfg :=
  ⟨by decide, by unfold Srt; decide⟩

theorem bNode_ok (i : Nat) : NodeOK1 (bNode i) :=
  ⟨⟨Nat.le_refl 1, Or.inr ⟨1, { id := 1, addr := "a:1", voter := true }, bCfg_ok.1, rfl, rfl⟩⟩, bCfg_ok.2⟩

theorem b1_trans : Member.Trans b0 b1 :=
  .step 1 .timeout [] [] 0
    ⟨⟨by decide, (fun q h => by cases h), (fun ⟨_, _, _, h⟩ => by cases h), trivial, (fun q h => by cases h)⟩,
     trivial, (fun q h => by cases h), (fun q h => by cases h), (fun us h => by cases h)⟩

set_option maxRecDepth 100000 in
theorem b1_facts : (b1.node 1).role = .leader ∧ (b1.node 1).term = 2 ∧ (b1.node 1).commitIndex = 2 ∧
    (b1.node 1).configs.isBootstrapped = true ∧ (b1.node 1).configs.latest = bCfg ∧ (b1.node 1).lastLogIndex = 2 ∧
    b1.el.won = [(1, 2)] := by
  decide +kernel

theorem b1_node (i : Nat) (h : i ≠ 1) : b1.node i = bNode i := by
  show setNode bNode 1 _ i = _
  rw [setNode_other _ _ _ _ h]

theorem b1_ok : NodesOK1 b1 ∧ C08Sys.TwoV [1] [1, 2] b1 := by
  obtain ⟨_, _, _, f4, f5, f6, _⟩ := b1_facts
  refine ⟨⟨fun i => ?_, fun i => ?_⟩, fun i => ?_, fun i => ?_⟩
  · by_cases h : i = 1
    · subst h; exact f4
    · rw [b1_node i h]; rfl
  · by_cases h : i = 1
    · subst h
      exact ⟨⟨by rw [f5, f6]; decide, by rw [f5]; exact (bNode_ok 1).1.2⟩, by rw [f5]; exact (bNode_ok 1).2⟩
    · rw [b1_node i h]; exact bNode_ok i
  · by_cases h : i = 1
    · subst h; exact f4
    · rw [b1_node i h]; rfl
  · by_cases h : i = 1
    · subst h; left; rw [f5]; rfl
    · rw [b1_node i h]; left; rfl

/-- EXAMPLE (the hypotheses of `config_chain_one_partial` and `election_safety_bootstrap_partial` hold for a non-initial
state, PROVED reachable): `b1` — node 1, the only voter, has elected itself in ONE step (election timeout → candidate →
its own vote is the majority → leader of term 2 → `leader.init`: the no-op entry (2,2), committed alone) -/
theorem b1_reachable : ReachableP NodesOK1 b1 ∧ ReachableP (C08Sys.TwoV [1] [1, 2]) b1 ∧ (b1.node 1).role = .leader ∧
    b1.el.won = [(1, 2)] :=
  ⟨.next b0 b1 (.init b0 b0_init ⟨fun _ => rfl, bNode_ok⟩) b1_trans b1_ok.1,
   .next b0 b1 (.init b0 b0_init ⟨fun _ => rfl, fun _ => Or.inl rfl⟩) b1_trans b1_ok.2,
   b1_facts.1, b1_facts.2.2.2.2.2.2⟩

/-- … hence election safety in `b1` (and in every state of every run through the voter sets `{1}` / `{1, 2}`) -/
example : ∀ i j, (b1.node i).role = .leader → (b1.node j).role = .leader → (b1.node i).term = (b1.node j).term → i = j :=
  (election_safety_bootstrap_partial 1 2 (by decide) b1 b1_reachable.2.1).1

/-- the run continues (evaluated with `#guard` below, as the scenario of Props/C08Sys.lean: `Config.validate` does not
reduce in the kernel): a client asks to add node 2 as a non-voter to be promoted and to force-remove the nodes 3 and 4 -/
def bReq : Config :=
  { nodes := [{ id := 1, addr := "a:1", voter := true }, { id := 2, addr := "a:2", voter := false, action := actPromote },
              { id := 3, addr := "a:3", voter := false, action := actForceRemove },
              { id := 4, addr := "a:4", voter := false, action := actForceRemove }], index := 1, term := 1 }
def b2 : Member.Sys := stepM b1 1 (.changeConfig 5 bReq) [] [] 0
/-- the leader replicates entries 2 … 4 to the new node 2 -/
def bApp : AppendReq :=
  { term := 2, src := 1, prevLogIndex := 1, prevLogTerm := 1, ldrCommitIndex := 4, entries := (b2.node 1).log.entries.drop 1 }
def b3 : Member.Sys :=
  stepM { b2 with cm := { b2.cm with rp := { b2.cm.rp with sent := bApp :: b2.cm.rp.sent } } } 2 (.append bApp) [] [] 0
/-- node 2 has caught up (its report is backed by its acknowledgement of entry 4): the leader promotes it -/
def b4 : Member.Sys := stepM b3 1 (.replUpdates [{ id := 2, upd := .matchIndex 4 }]) [] [] 0

-- `b2`: ONE step stores TWO configuration entries — (3,2) = {1, 2, 4} for the client's task and, nested inside its commit,
-- (4,2) = {1, 2} — both committed by the leader alone; ONE record of `changes`, whose chain has two links; voters `[1]`
#guard (b2.node 1).panicked.isNone && (b2.node 1).lastLogIndex == 4 && (b2.node 1).commitIndex == 4
#guard (b2.node 1).replies.map (·.task) == [5]
#guard b2.changes.map (fun r => (r.node, r.pre.configs.latest.index, r.post.configs.latest.index,
    (C08One.cfgsOf (r.post.log.entries.drop r.pre.log.entries.length)).map (fun c => (c.index, c.ids, c.voters)))) ==
  [(1, 1, 4, [(3, [1, 2, 4], [1]), (4, [1, 2], [1])])]
-- `b3`: node 2 holds the entries and has acknowledged entry 4
#guard (b3.node 2).panicked.isNone && (b3.node 2).lastLogIndex == 4 && (b3.node 2).configs.latest.voters == [1]
#guard b3.cm.acks.any (fun a => a.voter == 2 && a.index == 4 && a.term == 2)
-- `b4`: the promotion: configuration (5,2) with the voters 1 and 2, ADJACENT to {1} — from quorum 1 to quorum 2
#guard (b4.node 1).panicked.isNone && (b4.node 1).lastLogIndex == 5 && (b4.node 1).commitIndex == 4
#guard b4.changes.map (fun r => (r.pre.configs.latest.voters, r.post.configs.latest.voters)) == [([1], [1, 2]), ([1], [1])]
-- along the run the voters of every node's latest configuration are `[1]` or `[1, 2]` (`C08Sys.TwoV [1] [1, 2]`)
#guard [b2, b3, b4].all (fun x => [1, 2, 3, 4].all (fun i => (x.node i).configs.latest.voters == [1] || (x.node i).configs.latest.voters == [1, 2]))

end C08OneSys
end Raft

#print axioms Raft.One.step_pw
#print axioms Raft.C08OneSys.step_chain_any_partial
#print axioms Raft.C08OneSys.config_chain_one_partial
#print axioms Raft.C08OneSys.change_pairs_partial
#print axioms Raft.C08OneSys.link_adjLists
#print axioms Raft.C08OneSys.link_quorums_intersect -- also C01
#print axioms Raft.C08OneSys.chain_pairs
#print axioms Raft.C08OneSys.election_safety_bootstrap_partial -- also C01
#print axioms Raft.C08OneSys.b1_reachable
