/-
C09 / C04 / C02 / C03 / C10 / C06 on the cluster-level transition system `Raft.Snap6` (Sys/Snap6.lean) — stage 3
(`Raft.Snap3`: local snapshots, log compaction, installation of snapshots, crashes at every storage point) WITHOUT the two
restrictions stage 3 put on its crash transitions:

(A) **the stale reset** — no premise "`openStorage` does not reset the log" (`staleLog (crashDisk …) = false`), neither for
    the operations of stage 2 nor for a crash in the install handler that leaves the old snapshot files.  A node whose
    flushed index is below its commit index may take a snapshot at its commit index (`C10Sys2.stale_log_after_own_snapshot`);
    from then on every crash leaves a log that ends below the newest snapshot file, and the restart resets the log to
    that file.  `stale_restart_is_committed_replacement`: the restarted node's virtual log is the COMMITTED PREFIX the
    file stands for (`SnapInst.cinv_replace` after the crash of the view without snapshot data: Lemmas/SnapCutA.lean) — the
    invariant of stage 1 is kept; a log on a crash disk is stale ONLY because it is short (`SnapCut.stale_is_short`).
(B) **the cut** — no premise `Snap3.NoCut`: a process may die while an append request overwrites the uncommitted first
    entry directly behind an installed snapshot (`0 < log.prev = snapIndex = commitIndex`): after `RemoveGTE` the log on
    disk is EMPTY and contiguous with the snapshot, after `commitLog` it holds the new entries.
    `cut_crash_keeps_committed_prefix`: none of these disks is stale, the restart keeps `log.prev`, and the restarted
    virtual log is `(old virtual log).take commitIndex ++ (log on disk)` — what was removed was uncommitted
    (Lemmas/SnapCutE.lean: the crash is followed with the un-compaction that keeps the segment list, `SnapInstV.V`).

RESULT: both (A) and (B) are TRUE in the model — no counterexample.  Every run of `Raft.Snap3` is a run of `Raft.Snap6`
(`stage3_runs_are_snap6_runs`), and the invariant `SnapInst3.Inv3` holds in every reachable state of `Raft.Snap6`
(`SnapCut.inv6_reachable`), hence the stage-3 theorems: `snapshot_agrees_with_log_sys_snap6_partial`,
`log_matching_sys_snap6_partial`, `leader_completeness_sys_snap6_partial`, `state_machine_safety_sys_snap6_partial`,
`snapshot_is_committed_prefix_sys_snap6_partial`, `install_request_is_committed_prefix_sys_snap6_partial`, and
`rejoin_after_any_crash_snap6_partial` (C10 / C06: the state after ANY crash + restart is reachable again).

Restrictions kept (`_partial`): those of Sys/Snap3.lean other than the two above — fixed voter set `V`, fixed stable
configuration, no forged requests, `.shutdown` never occurs, replication updates report no compaction, completed steps do not
fail an assertion and a process dies only in a step that would not fail one, `retain ≥ 1`, side conditions `Side3` on every
state, and `TermTracked` (a `.snapRun` step is taken in a state in which `fsm.term` is the term of the log entry at
`fsm.index`).  `TermTracked` is REMOVED for the runs of `Snap6.TransT` (`Reachable6T`: side conditions `Snap4.Side4`, initial
states tracking and ordered): `tracked_runs_snap6_partial` (Lemmas/SnapCutG.lean: the per-node invariants survive stale
resets and the cut), `restart_succeeds_and_rejoins_snap6_partial` (C10: at EVERY crash point of EVERY enabled step the restart
succeeds and the state is reachable again; one explicit assumption `SnapFbOp`, on `.snapRun` only, as in Props/C10Sys2.lean).
-/
import RaftVerif.Lemmas.SnapCutG
import RaftVerif.Props.C09Sys3
import RaftVerif.Props.C10Sys2
import RaftVerif.Props.C06Snap

namespace Raft
namespace C09Sys5
open Node Election LogRel Replication CommitRel Commit C02Sys C03Sys SnapRel SnapRelU SnapSim Snap Snap2 SnapInv SnapInv2
open SnapInst Snap3 SnapInst3 Snap4 SnapInst4 Snap6 SnapCut TrackCrash RestartSys DurableRel DurableSnap
open C06Sys (Majority)

/-! ## node level -/

/-- **(A), node level — what `openStorage` makes of a stale log.** Whatever the disk `d`: if the log on `d` is stale with
respect to the newest snapshot file `f` on `d` (`Node.staleLog`: it ends below `f.index`, or holds an entry of another term
at `f.index`) and the restart succeeds, the restarted node has the log `NLog.reset f.index` (empty, starting at the file),
last log index / term, snapshot index / term and commit index those of `f`, the state machine restored from `f`, the files
of `d`, the durable term and vote (memory = disk); it is a follower with nothing pending. -/
theorem stale_restart_resets_to_snapshot (d : Durable) (r : Nat) (sor : Bool) (n : Node)
    (hn : Node.restart d r sor = some n) (hst : staleLog d = true) :
    n.log = NLog.reset (headSnap d).index ∧ n.lastLogIndex = (headSnap d).index ∧ n.lastLogTerm = (headSnap d).term ∧
    n.snapIndex = (headSnap d).index ∧ n.snapTerm = (headSnap d).term ∧ n.commitIndex = (headSnap d).index ∧
    n.fsm = { index := (headSnap d).index, term := (headSnap d).term, applied := (headSnap d).data,
              config := (headSnap d).config } ∧
    n.snapsDisk = d.snaps ∧ n.role = .follower ∧ n.term = d.term ∧ n.votedFor = d.vote ∧ n.nid = d.nid ∧
    n.retain = r ∧ n.snapResult = none ∧ n.trace = [] ∧ C05.VoteWF n :=
  restart_stale_fields d r sor n hn hst

/-! ## cluster level -/

section
variable {V : List Nat}

/-- **`Raft.Snap6` extends `Raft.Snap3`**: every state reachable in the system of stage 3 is reachable in `Raft.Snap6`
(whose crash transitions have fewer premises). -/
theorem stage3_runs_are_snap6_runs (hV : V.Nodup) (x : Snap3.Sys) (h : Reachable3 V x) : Reachable6 V x :=
  reach3_reach6 hV h

/-- **(A) — a stale restart is a replacement by a committed prefix.** Let `x` be reachable in `Raft.Snap6`, let node `i`
die after `k` storage points of ANY enabled operation `op` of stage 2 (votes, append requests, timeouts, client batches,
the snapshot goroutine, `onSnapshotTaken` / compaction, replication updates …) that would not fail an assertion, let the log
on its disk be STALE, and let `n` be the node restarted from that disk; `F` = index of the newest snapshot file `f` on the
disk.  Then, with `y` the state after the transition:
1. `n.log = NLog.reset F`, `n.commitIndex = n.snapIndex = F`, `n.fsm.applied = f.data`;
2. the log on disk was stale only because it was SHORT: it ended below `F` (the other reason is excluded);
3. the virtual log of `i` in `y` is `(x.vlog i).take F` — the first `F` entries of its virtual log before the crash, and
   `1 ≤ F ≤ commitIndex` of `i` in `x`: a REPLACEMENT BY A COMMITTED ROOT PATH;
4. every entry of it is committed (ledger of `y`), `f.data` is its replay, and it is the first `F` entries of the virtual
   log of EVERY node `j` of `y` whose commit index covers `F`;
5. the invariant of stage 3 holds in `y` — so, the side conditions given, `y` is reachable again. -/
theorem stale_restart_is_committed_replacement (hV : V.Nodup) (x : Snap3.Sys) (h : Reachable6 V x) (i : Nat) (op : Op)
    (ra : List Nat) (ord : List (List Nat)) (src k retain : Nat) (sor : Bool) (n : Node)
    (en : Snap.Enabled x.s2.cs i op src) (hret : 1 ≤ retain) (hp : ((x.node i).step op ra ord).panicked = none)
    (htt : TermTracked (x.node i) op)
    (hst : staleLog (C05.crashDisk (x.node i) op ra ord k) = true)
    (hn : Node.restart (C05.crashDisk (x.node i) op ra ord k) retain sor = some n) :
    let y : Snap3.Sys := { x with s2 := crashS x.s2 i op n }
    let f := headSnap (C05.crashDisk (x.node i) op ra ord k)
    (n.log = NLog.reset f.index ∧ n.commitIndex = f.index ∧ n.snapIndex = f.index ∧ n.fsm.applied = f.data) ∧
    (C05.crashDisk (x.node i) op ra ord k).log.last < f.index ∧
    (y.vlog i = (x.vlog i).take f.index ∧ 1 ≤ f.index ∧ f.index ≤ (x.node i).commitIndex) ∧
    ((∀ j, 1 ≤ j → j ≤ f.index → Committed (view3 y).cs (j, termAt (y.vlog i) j)) ∧
      f.data = ups (y.vlog i) ∧
      ∀ j, f.index ≤ (y.node j).commitIndex → (y.vlog j).take f.index = y.vlog i) ∧
    Inv3 V y ∧ (Side3 V y → Reachable6 V y) := by
  intro y f
  obtain ⟨hI, hS⟩ := inv6_reachable hV h
  -- `NoCut` holds: inside the window no disk is stale
  have hnc : NoCut (x.node i) op := by
    by_cases hap : ∃ q, op = .append q
    · obtain ⟨q, rfl⟩ := hap
      apply Classical.byContradiction
      intro hc
      rw [cut_not_stale hI hS k en hc] at hst
      cases hst
    · cases op <;> first | trivial | exact absurd ⟨_, rfl⟩ hap
  obtain ⟨hIy, a5, a6⟩ := inv3_crash_stale hV hI hS en hret hp hnc htt hst hn
  obtain ⟨b1, _, _, b4, _, b6, b7, b8, _⟩ := restart_stale_fields _ retain sor n hn hst
  have hyi : y.node i = n := crashS_node_i _ _ _ _
  have hfm : f ∈ (y.node i).snapsDisk := by rw [hyi, b8]; exact headSnap_mem _ (stale_pos _ hst)
  obtain ⟨c1, c2, c3, c4, c5, c6⟩ :=
    C09Sys.snapshot_is_committed_prefix_of_inv (view3 y) hIy.sinv i f (Or.inr hfm)
  have hyv : y.vlog i = (x.vlog i).take f.index := a6
  have hlen : (y.vlog i).length = (y.node i).log.last := vlog_length y i
  have hFl : (y.vlog i).length = f.index := by
    rw [hlen, hyi, b1]; rfl
  have htk : (y.vlog i).take f.index = y.vlog i := List.take_of_length_le (by rw [hFl]; exact Nat.le_refl _)
  have hFx : f.index ≤ (x.node i).commitIndex := by
    -- the files on the crash disk lie within the commit index
    have so : SnapOK (x.vnode i) := hI.sinv.snap i
    by_cases hsn : op = .snapTaken
    · subst hsn
      have hsn' : (C05.crashDisk (x.node i) .snapTaken ra ord k).snaps = (x.node i).snapsDisk := by
        rcases snapTaken_crashDisk (x.node i) ra ord k with e | ⟨e, _⟩ <;> rw [e] <;> rfl
      have hm : f ∈ (x.node i).snapsDisk := by rw [← hsn']; exact headSnap_mem _ (stale_pos _ hst)
      exact (so.files.files f hm).2.1
    · obtain ⟨_, _, _, _, hfo⟩ := crash3_disk hI hS k en hp hsn hnc htt
      exact (hfo.files f (headSnap_mem _ (stale_pos _ hst))).2.1
  have hshort : (C05.crashDisk (x.node i) op ra ord k).log.last < f.index := by
    -- otherwise the restarted log would hold ... : use the length of the new virtual log and `stale_is_short`
    by_cases hsn : op = .snapTaken
    · subst hsn
      -- the disk of `.snapTaken`: the old or the compacted log, the old files; staleness is shortness by `stale_pos` and
      -- the definition once the entry at `F` is excluded: we use the general lemma through the restarted state
      apply Classical.byContradiction
      intro hns
      have hge : f.index ≤ (C05.crashDisk (x.node i) .snapTaken ra ord k).log.last := Nat.le_of_not_lt hns
      -- the second reason for staleness needs an entry of another term at `F`; both disks of `.snapTaken` hold, at `F`,
      -- the entry of the virtual log, whose term is the file's
      have so : SnapOK (x.vnode i) := hI.sinv.snap i
      have hsn' : (C05.crashDisk (x.node i) .snapTaken ra ord k).snaps = (x.node i).snapsDisk := by
        rcases snapTaken_crashDisk (x.node i) ra ord k with e | ⟨e, _⟩ <;> rw [e] <;> rfl
      have hm : f ∈ (x.node i).snapsDisk := by rw [← hsn']; exact headSnap_mem _ (stale_pos _ hst)
      have hterm : termAt (x.vlog i) f.index = f.term := (hI.vterm i).files f hm
      have hst' := hst
      unfold staleLog at hst'
      simp only [Bool.or_eq_true, Bool.and_eq_true, decide_eq_true_eq, bne_iff_ne, ne_eq] at hst'
      rcases hst' with h1 | ⟨h1, h2⟩
      · exact hns h1
      · apply h2
        have h1' : (C05.crashDisk (x.node i) .snapTaken ra ord k).log.prev < f.index := h1
        show ((C05.crashDisk (x.node i) .snapTaken ra ord k).log.get? f.index).map (·.term) = some f.term
        -- the entry the disk holds at `F` is the entry the node's log holds there (compaction and `durable` keep it)
        have hfl : (x.node i).log.prev ≤ (x.node i).log.flushed :=
          prev_le_flushed (x.s2.base i) (hS.segs i) (vnode_lwf3 hI.sinv i)
        have key : ∀ (L : NLog), L.prev < f.index → f.index ≤ L.durable.last →
            (x.node i).log.prev ≤ L.prev → L.entries = (x.node i).log.entries.drop (L.prev - (x.node i).log.prev) →
            (L.durable.get? f.index).map (·.term) = some f.term := by
          intro L l1 l2 l3 l4
          have hd1 : L.durable.prev = L.prev := rfl
          have hd2 : L.durable.entries = L.entries.take (L.flushed - L.prev) := rfl
          have hlast : L.durable.last = L.prev + (L.entries.take (L.flushed - L.prev)).length := rfl
          rw [hlast, List.length_take] at l2
          unfold NLog.get?
          rw [hd1, if_pos l1, hd2, List.getElem?_take, if_pos (by omega), l4, List.getElem?_drop]
          have hidx : L.prev - (x.node i).log.prev + (f.index - L.prev - 1) = f.index - (x.node i).log.prev - 1 := by omega
          rw [hidx]
          have hv : (x.vlog i)[f.index - 1]? = (x.node i).log.entries[f.index - (x.node i).log.prev - 1]? := by
            rw [vlog_def, List.getElem?_append_right (by rw [pad_length]; omega), pad_length]
            congr 1; omega
          rw [← hv]
          unfold termAt at hterm
          rw [if_neg (by omega)] at hterm
          have hlt : f.index - 1 < (x.vlog i).length := by
            rw [vlog_length]
            have : (x.node i).log.last = (x.node i).log.prev + (x.node i).log.entries.length := rfl
            have : L.entries.length = (x.node i).log.entries.length - (L.prev - (x.node i).log.prev) := by
              rw [l4, List.length_drop]
            omega
          rw [List.getElem?_eq_getElem hlt] at hterm ⊢
          simp only [Option.map_some, Option.getD_some] at hterm ⊢
          rw [hterm]
        rcases snapTaken_crashDisk (x.node i) ra ord k with e | ⟨e, _⟩
        · rw [e] at h1' hge ⊢
          exact key (x.node i).log h1' hge (Nat.le_refl _) (by rw [Nat.sub_self]; rfl)
        · rw [e] at h1' hge ⊢
          obtain ⟨c1', _, c3', _⟩ := compact_cases ((x.node i).begin ra ord) (hS.segs i)
          exact key ((x.node i).begin ra ord).onSnapshotTaken.log h1' hge c1' c3'
    · obtain ⟨hdisk, hd, _, hft, hfo⟩ := crash3_disk hI hS k en hp hsn hnc htt
      have hSv : SideS V (view x.s2) := sideS_view3 hS
      have hlogv : op = .snapTaken → (((view x.s2).node i).step op ra ord).log = ((view x.s2).node i).log :=
        fun h' => absurd h' hsn
      refine stale_is_short (β := x.s2.base i) hd.2 hft hfo (fun K h1 h2 => ?_) hst
      have := crash_keep_snap hV hI.sinv hSv ra ord k (enabled_view en) hlogv K h1
        (by show K ≤ (C05.crashDisk (x.vnode i) op ra ord k).log.entries.length; rw [hdisk]; exact h2)
      have this' : (C05.crashDisk (x.vnode i) op ra ord k).log.entries.take K = (x.vlog i).take K := this
      rw [hdisk] at this'
      exact this'
  have c5' : f.data = ups ((y.vlog i).take f.index) := c5
  refine ⟨⟨a5, b6, b4, by rw [b7]⟩, hshort, ⟨hyv, c1, hFx⟩, ⟨c4, by rw [c5', htk], fun j hj => ?_⟩, hIy,
    fun hS' => .next x y h (.crash i op ra ord src k retain sor n en hret hp htt hn) hS'⟩
  -- every node whose commit index covers `F` holds the prefix
  have hc := hIy.sinv.cinv
  have hpath : Path (eview (view3 y).cs).T (y.vlog i) := log_path hc i
  have hF1 : 1 ≤ (y.vlog i).length := by rw [hFl]; exact c1
  have hci : (y.vlog i).length ≤ ((eview (view3 y).cs).node i).commitIndex := by
    show _ ≤ (y.node i).commitIndex
    rw [hFl, hyi, b6]; exact Nat.le_refl _
  obtain ⟨_, hcm⟩ := hc.cmt.cc i (y.vlog i).length hF1 hci
  have hcm' : Cmt (eview (view3 y).cs) ((y.vlog i).length, lastTerm (y.vlog i)) (y.node i).term := by
    rw [← termAt_length]; exact hcm
  have := path_agree_commit hc hpath hF1 hcm' j f.index hj (by rw [hFl]; exact Nat.le_refl _)
  rw [htk] at this
  exact this.symm

/-- **(B) — the cut: a crash while an append request overwrites the first entry behind an installed snapshot.** Let `x`
be reachable in `Raft.Snap6` and let node `i` be INSIDE the window `Snap3.NoCut` excluded: the append request `q` is not
stale and conflicts with the log of `i` at `log.prev + 1`, and `0 < log.prev`, `¬ log.prev < snapIndex`,
`¬ log.prev < commitIndex`.  Let `i` die after `k` storage points (`value.set`, `removeGTE`, `commitLog`; any `k`) of
handling `q` and restart as `n`.  Then:
1. `log.prev = snapIndex = commitIndex` on `i` (the entry to be overwritten is UNCOMMITTED);
2. the log on disk starts at `log.prev`, the snapshot files are untouched, and the log on disk is NOT stale — whether it
   still holds the old entries, is EMPTY (after `removeGTE`: contiguous with the snapshot), or holds new entries;
3. the restarted log starts at `log.prev` and holds exactly the entries on disk; `n.commitIndex = snapIndex`;
4. given the side conditions in the state `y` after the transition: the invariant of stage 3 holds in `y`, `y` is
   reachable, and the virtual log of `i` in `y` is `(x.vlog i).take commitIndex ++ n.log.entries` — the committed prefix
   is intact. -/
theorem cut_crash_keeps_committed_prefix (hV : V.Nodup) (x : Snap3.Sys) (h : Reachable6 V x) (i : Nat) (q : AppendReq)
    (ra : List Nat) (ord : List (List Nat)) (src k retain : Nat) (sor : Bool) (n : Node)
    (en : Snap.Enabled x.s2.cs i (.append q) src) (hret : 1 ≤ retain)
    (hp : ((x.node i).step (.append q) ra ord).panicked = none)
    (hcut : ¬ NoCut (x.node i) (.append q))
    (hn : Node.restart (C05.crashDisk (x.node i) (.append q) ra ord k) retain sor = some n) :
    let y : Snap3.Sys := { x with s2 := crashS x.s2 i (.append q) n }
    let d := C05.crashDisk (x.node i) (.append q) ra ord k
    (0 < (x.node i).log.prev ∧ (x.node i).log.prev = (x.node i).snapIndex ∧
      (x.node i).snapIndex = (x.node i).commitIndex) ∧
    (d.log.prev = (x.node i).log.prev ∧ d.snaps = (x.node i).snapsDisk ∧ staleLog d = false) ∧
    (n.log.prev = (x.node i).log.prev ∧ n.log.entries = d.log.entries ∧ n.commitIndex = (x.node i).snapIndex) ∧
    (Side3 V y → Inv3 V y ∧ Reachable6 V y ∧
      y.vlog i = (x.vlog i).take (x.node i).commitIndex ++ n.log.entries) := by
  intro y d
  obtain ⟨hI, hS⟩ := inv6_reachable hV h
  have so : SnapOK (x.vnode i) := hI.sinv.snap i
  have hle := (hI.prev i).le
  have hsc : (x.node i).snapIndex ≤ (x.node i).commitIndex := by
    show (x.vnode i).snapIndex ≤ (x.vnode i).commitIndex
    rw [so.head]; exact so.files.head_le
  have h0 : ¬ (x.node i).log.prev = 0 := fun e => hcut (Or.inr (Or.inl e))
  have h1 : ¬ (x.node i).log.prev < (x.node i).snapIndex := fun e => hcut (Or.inr (Or.inr (Or.inl e)))
  have h2 : ¬ (x.node i).log.prev < (x.node i).commitIndex := fun e => hcut (Or.inr (Or.inr (Or.inr (Or.inl e))))
  obtain ⟨d1, d2⟩ := append_disk hI hS (ra := ra) (ord := ord) k en
  have hst := cut_not_stale hI hS (ra := ra) (ord := ord) k en hcut
  obtain ⟨r1, r2⟩ := SnapInst4.restart_log_notstale _ retain sor n hn hst
  obtain ⟨_, _, w3, _⟩ := restart_snapTerm _ retain sor n hn
  have hhd : (headSnap d).index = (x.node i).snapIndex := by
    show (headOf d.snaps).index = _
    rw [show d.snaps = (x.node i).snapsDisk from d2]; exact so.head.symm
  refine ⟨⟨by omega, by omega, by omega⟩, ⟨d1, d2, hst⟩, ⟨by rw [r2]; exact d1, r1, by rw [w3]; exact hhd⟩, fun hS' => ?_⟩
  have hIy := inv3_crash_append hV hI hS en hret hp hst hn hS'
  refine ⟨hIy, .next x y h (.crash i (.append q) ra ord src k retain sor n en hret hp trivial hn) hS', ?_⟩
  have hseg : n.log.segs ≠ [] := fun he => by
    have := (hS'.segs i).head
    have e : y.node i = n := crashS_node_i _ _ _ _
    rw [e, he] at this; cases this
  obtain ⟨_, _, a3, _, _, _⟩ := crash3_append hV hI hS en hret hp hst hn hseg (sideS_view3 hS')
  show ((crashS x.s2 i (.append q) n).vnode i).log.entries = _
  rw [a3]
  show pad (x.s2.base i) n.log.prev ++ n.log.entries = _
  have hpc : n.log.prev = (x.node i).commitIndex := by rw [r2, d1]; omega
  have hpp : n.log.prev = (x.node i).log.prev := by rw [r2]; exact d1
  rw [← hpc, hpp]
  have : (x.vlog i).take (x.node i).log.prev = pad (x.s2.base i) (x.node i).log.prev :=
    take_vlog (x.s2.base i) (x.node i).log
  rw [this]

/-- **C09 — the snapshot agrees with the log (partial, `Raft.Snap6`).** In every state reachable in `Raft.Snap6` (any
schedule, message delay / loss / duplication / reordering, crashes at ANY storage point of ANY handler — stale resets and the
cut included — and restarts), on every node `i`: `log.prev ≤ snapIndex ≤ commitIndex`; `snapTerm` is the term of the newest
file; every snapshot file on disk names an entry of the virtual log; the log entry at the snapshot index, if the log holds
it, has term `snapTerm`. -/
theorem snapshot_agrees_with_log_sys_snap6_partial (hV : V.Nodup) (x : Snap3.Sys) (h : Reachable6 V x) (i : Nat) :
    ((x.node i).log.prev ≤ (x.node i).snapIndex ∧ (x.node i).snapIndex ≤ (x.node i).commitIndex) ∧
    ((x.node i).snapTerm = (headOf (x.node i).snapsDisk).term ∧
      (∀ f ∈ (x.node i).snapsDisk, termAt (x.vlog i) f.index = f.term)) ∧
    (∀ e, (x.node i).log.get? (x.node i).snapIndex = some e → e.term = (x.node i).snapTerm) := by
  have hI := (inv6_reachable hV h).1
  have so : SnapOK (x.vnode i) := hI.sinv.snap i
  have hv := hI.vterm i
  have hhead : (x.node i).snapIndex = (headOf (x.node i).snapsDisk).index := so.head
  have hsc : (x.node i).snapIndex ≤ (x.node i).commitIndex := by
    show (x.vnode i).snapIndex ≤ (x.vnode i).commitIndex
    rw [so.head]; exact so.files.head_le
  refine ⟨⟨(hI.prev i).le, hsc⟩, ⟨hv.head, hv.files⟩, fun e he => ?_⟩
  have hp := C09Sys2.get_some_prev he
  rw [← C09Sys3.term_of_get x i _ e he]
  have h0 : 0 < (x.node i).snapIndex := by omega
  have hm : headOf (x.node i).snapsDisk ∈ (x.node i).snapsDisk := by
    rw [hhead] at h0
    exact SnapCut.headOf_mem _ h0
  rw [hv.head, hhead]
  exact hv.files _ hm

/-- **C04 — log matching (partial, `Raft.Snap6`).** In every reachable state of `Raft.Snap6`: if the logs of nodes `i` and
`j` hold entries with the same term at index `k`, then at every index `k' ≤ k` that both logs still hold they hold the SAME
entry; and the same for the virtual logs at every index `k' ≤ k`. -/
theorem log_matching_sys_snap6_partial (hV : V.Nodup) (x : Snap3.Sys) (h : Reachable6 V x) (i j k : Nat)
    (a b : Entry) (ha : (x.node i).log.get? k = some a) (hb : (x.node j).log.get? k = some b)
    (ht : a.term = b.term) :
    (∀ k', k' ≤ k → ∀ a' b', (x.node i).log.get? k' = some a' → (x.node j).log.get? k' = some b' → a' = b') ∧
    (∀ k', k' ≤ k → ∀ a' b', (x.vnode i).log.get? k' = some a' → (x.vnode j).log.get? k' = some b' → a' = b') := by
  have hS := (inv6_reachable hV h).1.sinv
  rw [C09Sys3.get_virtual3 x i k (C09Sys2.get_some_prev ha)] at ha
  rw [C09Sys3.get_virtual3 x j k (C09Sys2.get_some_prev hb)] at hb
  have key := C09Sys.log_matching_of_inv (view3 x) hS i j k a b ha hb ht
  refine ⟨fun k' hk a' b' ha' hb' => ?_, key⟩
  rw [C09Sys3.get_virtual3 x i k' (C09Sys2.get_some_prev ha')] at ha'
  rw [C09Sys3.get_virtual3 x j k' (C09Sys2.get_some_prev hb')] at hb'
  exact key k' hk a' b' ha' hb'

/-- **C02 — leader completeness (partial, `Raft.Snap6`).** In every reachable state of `Raft.Snap6`: every leader holds
(virtually; really above `log.prev`, else covered by its snapshot) every ledger entry of a term not above its own; every
leader whose term is at least that of node `j` holds, at every index within `j`'s commit index — which may come from a
snapshot `j` was RESET to — the entry `j` holds there; every created entry of a later term extends every ledger entry. -/
theorem leader_completeness_sys_snap6_partial (hV : V.Nodup) (x : Snap3.Sys) (h : Reachable6 V x) :
    (∀ i, (x.node i).role = .leader → ∀ m ∈ x.s2.cs.committed, m.2 ≤ (x.node i).term →
      ∃ e, (x.vnode i).log.get? m.1 = some e ∧ e.term = m.2 ∧
        ((x.node i).log.prev < m.1 → (x.node i).log.get? m.1 = some e) ∧
        (m.1 ≤ (x.node i).log.prev → m.1 ≤ (x.node i).snapIndex)) ∧
    (∀ i j k, (x.node i).role = .leader → (x.node j).term ≤ (x.node i).term → 1 ≤ k →
      k ≤ (x.node j).commitIndex →
      (x.vnode i).log.get? k = (x.vnode j).log.get? k ∧ ((x.vnode j).log.get? k).isSome = true) ∧
    (∀ m ∈ x.s2.cs.committed, ∀ c ∈ x.s2.cs.T, m.2 < c.e.term → Anc x.s2.cs.T m (key c)) := by
  have hI := (inv6_reachable hV h).1
  obtain ⟨p1, p2, p3⟩ := C09Sys.leader_completeness_of_inv hV (view3 x) hI.sinv
  refine ⟨fun i hl m hm hle => ?_, p2, p3⟩
  obtain ⟨e, he, het⟩ := p1 i hl m hm hle
  exact ⟨e, he, het, fun hlt => by rw [C09Sys3.get_virtual3 x i m.1 hlt]; exact he,
    fun hle' => Nat.le_trans hle' (hI.prev i).le⟩

/-- **C03 — state-machine safety (partial, `Raft.Snap6`).** In every reachable state of `Raft.Snap6`, on every node —
whatever mixture of applying, snapshotting, compacting, installing, crashing (stale resets and the cut included) and
restoring produced its state: the state machine holds exactly the update payloads of the entries `1 … fsm.index` of its
virtual log and never ran ahead of the commit index; every entry it was fed is committed; any two command sequences are
prefix-comparable. -/
theorem state_machine_safety_sys_snap6_partial (hV : V.Nodup) (x : Snap3.Sys) (h : Reachable6 V x) :
    (∀ i, (x.node i).fsm.index ≤ (x.node i).commitIndex ∧
      (x.node i).fsm.index ≤ (x.vlog i).length ∧
      (x.node i).fsm.applied = ups ((x.vlog i).take (x.node i).fsm.index)) ∧
    (∀ i k, 1 ≤ k → k ≤ (x.node i).fsm.index → Committed (view3 x).cs (k, termAt (x.vlog i) k)) ∧
    (∀ i j, (x.node i).fsm.index ≤ (x.node j).fsm.index →
      (x.vlog i).take (x.node i).fsm.index = (x.vlog j).take (x.node i).fsm.index ∧
      (x.node i).fsm.applied <+: (x.node j).fsm.applied) ∧
    (∀ i j, (x.node i).fsm.applied <+: (x.node j).fsm.applied ∨
      (x.node j).fsm.applied <+: (x.node i).fsm.applied) :=
  C09Sys.state_machine_safety_of_inv (view3 x) (inv6_reachable hV h).1.sinv

/-- **C09 — every snapshot file, taken or installed, is a committed prefix (partial, `Raft.Snap6`).** In every reachable
state of `Raft.Snap6`, for every snapshot file `f` node `i` ever had on disk (ghost ledger `snaps`) and every file on its
disk now — in particular the file a stale log is reset to: `1 ≤ f.index ≤ snapIndex ≤ commitIndex`; every index up to
`f.index` of `i`'s virtual log holds a committed entry and `f.data` is the replay of that prefix — and of the virtual log of
EVERY node whose commit index covers `f.index`. -/
theorem snapshot_is_committed_prefix_sys_snap6_partial (hV : V.Nodup) (x : Snap3.Sys) (h : Reachable6 V x) :
    ∀ i f, ((i, f) ∈ x.s2.snaps ∨ f ∈ (x.node i).snapsDisk) →
      1 ≤ f.index ∧ f.index ≤ (x.node i).snapIndex ∧ (x.node i).snapIndex ≤ (x.node i).commitIndex ∧
      (∀ k, 1 ≤ k → k ≤ f.index → Committed (view3 x).cs (k, termAt (x.vlog i) k)) ∧
      f.data = ups ((x.vlog i).take f.index) ∧
      ∀ j, f.index ≤ (x.node j).commitIndex → f.data = ups ((x.vlog j).take f.index) :=
  C09Sys.snapshot_is_committed_prefix_of_inv (view3 x) (inv6_reachable hV h).1.sinv

/-- **C09 — an install request on the wire is a committed prefix (partial, `Raft.Snap6`).** For every install request a
leader ever sent: its ghost prefix `m.pre` has length `lastIndex ≥ 1`, is a root path whose last entry has term `lastTerm`,
`data` is its replay, and EVERY node whose commit index covers `lastIndex` holds exactly `m.pre` as the first `lastIndex`
entries of its virtual log. -/
theorem install_request_is_committed_prefix_sys_snap6_partial (hV : V.Nodup) (x : Snap3.Sys) (h : Reachable6 V x) :
    ∀ m ∈ x.sentSnaps, m.pre.length = m.q.lastIndex ∧ 1 ≤ m.q.lastIndex ∧ Path (view3 x).cs.T m.pre ∧
      lastTerm m.pre = m.q.lastTerm ∧ m.q.data = ups m.pre ∧
      ∀ j, m.q.lastIndex ≤ (x.node j).commitIndex → (x.vlog j).take m.q.lastIndex = m.pre := by
  have hI := (inv6_reachable hV h).1
  intro m hm
  have mo := hI.msgs m hm
  have hc := hI.sinv.cinv
  have hne : 1 ≤ m.pre.length := by rw [mo.len]; exact mo.pos
  refine ⟨mo.len, mo.pos, mo.path, mo.lastT, mo.data, fun j hj => ?_⟩
  have := path_agree_commit hc (P := m.pre) mo.path hne mo.cmt j m.q.lastIndex hj (by rw [mo.len]; exact Nat.le_refl _)
  rw [List.take_of_length_le (by rw [mo.len]; exact Nat.le_refl _)] at this
  exact this.symm

/-- **C10 / C06 — the cluster after ANY crash and restart is reachable again (partial, `Raft.Snap6`).** Let `x` be
reachable in `Raft.Snap6`.  (1) Node `i` dies after ANY number `k` of storage points of ANY enabled operation of stage 2 that
would not fail an assertion — NO condition on the request (`NoCut`) and NO condition on the disk (`staleLog`) — and
restarts as `n`; or (2) it dies at any storage point of handling an install request (stale, or of the ledger) — NO
condition on the disk.  If the state `y` after the transition satisfies the side conditions, `y` is reachable: every
theorem of this file (election safety of the view, log matching, leader completeness, state-machine safety, snapshots =
committed prefixes) holds in `y` and in every state reachable from it. -/
theorem rejoin_after_any_crash_snap6_partial (hV : V.Nodup) (x : Snap3.Sys) (h : Reachable6 V x) (i : Nat)
    (retain : Nat) (sor : Bool) (n : Node) (hret : 1 ≤ retain) :
    (∀ (op : Op) (ra : List Nat) (ord : List (List Nat)) (src k : Nat),
      Snap.Enabled x.s2.cs i op src → ((x.node i).step op ra ord).panicked = none → TermTracked (x.node i) op →
      Node.restart (C05.crashDisk (x.node i) op ra ord k) retain sor = some n →
      Side3 V { x with s2 := crashS x.s2 i op n } →
      Reachable6 V { x with s2 := crashS x.s2 i op n } ∧ Inv3 V { x with s2 := crashS x.s2 i op n }) ∧
    (∀ (m : SnapMsg) (ra : List Nat) (ord : List (List Nat)) (k : Nat), i ≠ 0 →
      (m.q.term < (x.node i).term ∨ m ∈ x.sentSnaps) →
      ((x.node i).step (.install m.q) ra ord).panicked = none →
      Node.restart (C05.crashDisk (x.node i) (.install m.q) ra ord k) retain sor = some n →
      Side3 V (crashInstS6 x i m (C05.crashDisk (x.node i) (.install m.q) ra ord k) n) →
      Reachable6 V (crashInstS6 x i m (C05.crashDisk (x.node i) (.install m.q) ra ord k) n) ∧
      Inv3 V (crashInstS6 x i m (C05.crashDisk (x.node i) (.install m.q) ra ord k) n)) := by
  refine ⟨fun op ra ord src k en hp htt hn hS' => ?_, fun m ra ord k hi hm hp hn hS' => ?_⟩
  · have hr := Reachable6.next x _ h (.crash i op ra ord src k retain sor n en hret hp htt hn) hS'
    exact ⟨hr, (inv6_reachable hV hr).1⟩
  · have hr := Reachable6.next x _ h (.crashInstall i m ra ord k retain sor n hi hm hret hp hn) hS'
    exact ⟨hr, (inv6_reachable hV hr).1⟩

/-- **C06 at the new crash points — what a majority durably covers survives a stale reset and the cut (partial,
`Raft.Snap6`).** Let `y` be reachable in `Raft.Snap6`, `j` any node and `1 ≤ k ≤ commitIndex(j)`; `ref = y.vlog j`.  There
is a duplicate-free majority `Q` of the voters such that every `v ∈ Q`
1. durably covers `1 … k` of `ref` in `y` (`DurableSnap.KeepsS`: flushed, virtual log agrees with `ref`, the flushed part of
   the log on disk answers every `log.prev < k' ≤ k` with `ref`'s entry and `log.prev ≤` index of the newest snapshot file);
2. and, when `v` dies after ANY number `kk` of storage points of ANY enabled operation of stage 2 that would not fail an
   assertion — inside the `NoCut` window, with a stale log on disk, whatever — leaving the disk `d`, and restarts as `n`
   (state `y'`, side conditions given): the disk image covers `1 … k` with the log `openStorage` works with
   (`C10.logOf d`) — `d.log` itself if it is not stale; if it is stale the newest snapshot file on `d` ALONE has index
   `≥ k` (what the reset discards was not needed) —, the restarted node has `k ≤ n.log.flushed` and covers them, and `v`
   durably covers them in `y'`. -/
theorem commit_durable_across_any_crash_snap6_partial (hV : V.Nodup) (y : Snap3.Sys) (hy : Reachable6 V y) (j k : Nat)
    (hk : 1 ≤ k) (hkc : k ≤ (y.node j).commitIndex) :
    ∃ Q, Majority V Q ∧ ∀ v ∈ Q, KeepsS y v (y.vlog j) k ∧
      ∀ (op : Op) (ra : List Nat) (ord : List (List Nat)) (src kk retain : Nat) (sor : Bool) (n : Node),
        Snap.Enabled y.s2.cs v op src → 1 ≤ retain → ((y.node v).step op ra ord).panicked = none →
        TermTracked (y.node v) op →
        Node.restart (C05.crashDisk (y.node v) op ra ord kk) retain sor = some n →
        Side3 V { y with s2 := crashS y.s2 v op n } →
        Covers (C10.logOf (C05.crashDisk (y.node v) op ra ord kk)) (C05.crashDisk (y.node v) op ra ord kk).snaps
          (y.vlog j) k ∧
        (staleLog (C05.crashDisk (y.node v) op ra ord kk) = false →
          Covers (C05.crashDisk (y.node v) op ra ord kk).log (C05.crashDisk (y.node v) op ra ord kk).snaps (y.vlog j) k) ∧
        (staleLog (C05.crashDisk (y.node v) op ra ord kk) = true →
          k ≤ (headOf (C05.crashDisk (y.node v) op ra ord kk).snaps).index) ∧
        k ≤ n.log.flushed ∧ Covers n.log n.snapsDisk (y.vlog j) k ∧
        KeepsS { y with s2 := crashS y.s2 v op n } v (y.vlog j) k := by
  have hI := (inv6_reachable hV hy).1
  obtain ⟨hp, hh, m, hm, _, hkm, Q, hQ⟩ := committed_quorum hI hk hkc
  refine ⟨Q, C06Sys.AckQuorum.majority hQ, fun v hv => ⟨cover_quorum hI hm hQ hp hh hkm hv, ?_⟩⟩
  intro op ra ord src kk retain sor n en hret hpn htt hn hS'
  have hy' : Reachable6 V { y with s2 := crashS y.s2 v op n } :=
    .next y _ hy (.crash v op ra ord src kk retain sor n en hret hpn htt hn) hS'
  have hI' := (inv6_reachable hV hy').1
  obtain ⟨hT, hC⟩ := crashS_T y.s2 v op n
  have hQ' : AckQuorum V (eview (view3 { y with s2 := crashS y.s2 v op n }).cs) m Q := hQ.run hT (fun a ha => ha)
  have k' : KeepsS { y with s2 := crashS y.s2 v op n } v (y.vlog j) k :=
    cover_quorum hI' (hC m hm) hQ' (hp.mono hT) hh (hkm.mono hT) hv
  have hni : ({ y with s2 := crashS y.s2 v op n } : Snap3.Sys).node v = n := crashS_node_i _ _ _ _
  have cn : Covers n.log n.snapsDisk (y.vlog j) k := by
    have := k'.disk.of_durable
    rw [hni] at this
    exact this
  have cd := cover_restart hn cn
  refine ⟨cd, fun hst => ?_, fun hst => cover_stale hst cd, ?_, cn, k'⟩
  · rw [← logOf_not_stale _ hst]; exact cd
  · have := k'.flushed
    rw [hni] at this
    exact this

/-! ### without the premise `TermTracked` (`Snap6.TransT`, `Snap6.Reachable6T`) -/

/-- **Every run of `Snap6.TransT` is a run of `Raft.Snap6` on which every node is tracking and ordered (partial).**
`Snap6.TransT` is `Snap6.Trans` WITHOUT the premise that a node taking a snapshot has `fsm.term` equal to the term of the log
entry at `fsm.index`; its states satisfy the side conditions `Snap4.Side4`, its initial states the per-node invariants.  In
every reachable state `x`: `x` is reachable in `Raft.Snap6` — so ALL theorems of this file hold for it — and every node
satisfies `C12Track.Tracks` and `Order.Ordered`: through completed steps, installations, and crashes at every storage point
followed by restarts — a restart that RESETS a stale log yields a tracking node whatever was on disk
(`SnapCut.stale_restart_tracks`), and so does a restart from every disk of the cut (`SnapCut.crash_tracks6`).  Every run of
`Raft.Snap4` is such a run (`SnapCut.reach4_reach6T`). -/
theorem tracked_runs_snap6_partial (hV : V.Nodup) (x : Snap3.Sys) (h : Reachable6T V x) :
    Reachable6 V x ∧ ∀ i, C12Track.Tracks (x.node i) ∧ Order.Ordered (x.node i) := by
  obtain ⟨r6, i4, _⟩ := reach6T hV h
  exact ⟨r6, fun i => ⟨i4.tracks i, i4.ord i⟩⟩

/-- **C10 (1) + (4) on `Raft.Snap6` — at EVERY crash point of EVERY enabled step the restart succeeds, and the cluster the
node rejoins is a reachable state again (partial).** Let `x` be reachable (`Reachable6T`), `i` a node with a cluster id, `op`
any operation of stage 2 that may be delivered to `i`, handled with any oracle, which run to completion would not panic, with
`SnapFbOp` (a condition on `.snapRun` only, see `C10Sys2.restart_succeeds_snap_partial`), and `k` ANY crash point — the
`NoCut` window and disks with a stale log INCLUDED.  Then there is `n` with `Node.restart … = some n`, `n` is
`RestartSys.Restarted` (tracks, ordered, configurations derived from snapshot label + log on disk, follower, memory = disk,
log contiguous with the snapshot), `n.nid = i`; and if the state `y` after the crash transition satisfies the side
conditions, `y` is reachable again (`Reachable6T`, hence `Reachable6`: every safety theorem of this file holds in `y` and
from there on). -/
theorem restart_succeeds_and_rejoins_snap6_partial (hV : V.Nodup) (x : Snap3.Sys) (h : Reachable6T V x) (i : Nat) (op : Op)
    (ra : List Nat) (ord : List (List Nat)) (src : Nat) (en : Snap.Enabled x.s2.cs i op src)
    (hp : ((x.node i).step op ra ord).panicked = none) (hfb : SnapFbOp (x.node i) op) (hcid : (x.node i).cid ≠ 0)
    (k r : Nat) (hr : 1 ≤ r) (sor : Bool) :
    ∃ n, Node.restart (C05.crashDisk (x.node i) op ra ord k) r sor = some n ∧
      Restarted (x.node i) (C05.crashDisk (x.node i) op ra ord k) n ∧ n.nid = i ∧
      (Side4 V { x with s2 := crashS x.s2 i op n } →
        Reachable6T V { x with s2 := crashS x.s2 i op n } ∧ Reachable6 V { x with s2 := crashS x.s2 i op n }) := by
  obtain ⟨r6, i4, s4⟩ := reach6T hV h
  have hI := (inv6_reachable hV r6).1
  have hnid : (x.node i).nid = i := (hI.sinv.cinv.rp.el.ids i).1
  have hci : C12Crash.CrashInv (x.node i) :=
    ⟨i4.tracks i, i4.ord i, ⟨lwf_real hI i, s4.lab i, logDec_real s4.side i⟩, hcid, by rw [hnid]; exact en.id⟩
  obtain ⟨n, hn, hR⟩ := restarted_of_crash (x.node i) op ra ord k r sor hci (hI.sinv.cinv.rp.el.ids i).2
    (reqOk_old hI en (s4.cfg i)) (reqDec_enabled (sentDec_reach6 r6) en) hfb hp hr
  refine ⟨n, hn, hR, by rw [hR.ident.2.1]; exact hnid, fun hS' => ?_⟩
  have hy : Reachable6T V { x with s2 := crashS x.s2 i op n } :=
    .next x _ h (.crash i op ra ord src k r sor n en hr hp hn) hS'
  exact ⟨hy, (reach6T hV hy).1⟩

end

/-! ### Examples (non-vacuity) -/

/-- EXAMPLE (`stale_restart_resets_to_snapshot`; node level, (A)): the follower `C10Sys2.exStale` (snapshot at 1, entries
2–4, only entry 2 flushed, commit index 4) — its snapshot goroutine publishes a snapshot at index 4; the disk after
`snap.publish` holds a log that ends at 2: stale; the restart succeeds -/
example : staleLog (C05.crashDisk C10Sys2.exStale .snapRun [] [] 1) = true ∧
    (C05.crashDisk C10Sys2.exStale .snapRun [] [] 1).log.last = 2 ∧
    (headSnap (C05.crashDisk C10Sys2.exStale .snapRun [] [] 1)).index = 4 ∧
    (Node.restart (C05.crashDisk C10Sys2.exStale .snapRun [] [] 1) 1 true).isSome = true := by
  refine ⟨by decide, by decide, by decide, by decide⟩

set_option maxRecDepth 100000 in
/-- EXAMPLE (cluster level: `Reachable6`, `Reachable6T`, `Snap6.Trans.crash`, `rejoin_after_any_crash_snap6_partial`,
`tracked_runs_snap6_partial`, `restart_succeeds_and_rejoins_snap6_partial`): the state `C09Sys3.exW3` (three voters
bootstrapped; node 2 asked for a snapshot, the goroutine ran, the result was handed over) is reachable in `Raft.Snap6` (with
and without `TermTracked`); node 2 dies after the first storage point of its election timeout and restarts as `C10Sys2.exRn`:
a crash transition of `Raft.Snap6` (which asks neither for `NoCut` nor for `staleLog = false`); the state after it satisfies
the side conditions and is reachable again -/
example : [1, 2, 3].Nodup ∧ Reachable6 [1, 2, 3] C09Sys3.exW3 ∧ Reachable6T [1, 2, 3] C09Sys3.exW3 ∧
    Snap6.Trans C09Sys3.exW3 C10Sys2.exW3c ∧ Snap6.TransT C09Sys3.exW3 C10Sys2.exW3c ∧
    Snap.Enabled C09Sys3.exW3.s2.cs 2 .timeout 0 ∧ ((C09Sys3.exW3.node 2).step .timeout [] []).panicked = none ∧
    SnapFbOp (C09Sys3.exW3.node 2) .timeout ∧ (C09Sys3.exW3.node 2).cid ≠ 0 ∧
    Side4 [1, 2, 3] C10Sys2.exW3c ∧ Reachable6 [1, 2, 3] C10Sys2.exW3c ∧ Reachable6T [1, 2, 3] C10Sys2.exW3c := by
  have hV : [1, 2, 3].Nodup := by decide
  have r6T : Reachable6T [1, 2, 3] C09Sys3.exW3 := reach4_reach6T hV C10Sys2.exW3_reach4
  have r6 : Reachable6 [1, 2, 3] C09Sys3.exW3 := (reach6T hV r6T).1
  have t : Snap6.Trans C09Sys3.exW3 C10Sys2.exW3c :=
    .crash 2 .timeout [] [] 0 1 1 true C10Sys2.exRn (C10Sys2.exTimeout_enabled _) (Nat.le_refl _) (by decide) trivial
      C10Sys2.exRn_restart
  have tT : Snap6.TransT C09Sys3.exW3 C10Sys2.exW3c :=
    .crash 2 .timeout [] [] 0 1 1 true C10Sys2.exRn (C10Sys2.exTimeout_enabled _) (Nat.le_refl _) (by decide)
      C10Sys2.exRn_restart
  exact ⟨hV, r6, r6T, t, tT, C10Sys2.exTimeout_enabled _, by decide, trivial, by decide, C10Sys2.exW3c_crashOf.2,
    .next _ _ r6 t C10Sys2.exW3c_crashOf.2.side, .next _ _ r6T tT C10Sys2.exW3c_crashOf.2⟩

/-! #### (B) EVALUATED (tests, not proofs): the cut.  `C09Sys3.exX19`: node 3 installed the leader's snapshot (3, term 2) and
appended the leader's entry (4, term 2, "b") directly behind it (`log.prev = snapIndex = commitIndex = 3`: inside the
window).  A leader of term 3 whose log holds another entry at index 4 sends `exCutReq` (`prevLogIndex = 3`, entry (4, term 3,
"c")): the handler stores the term (`value.set`), truncates at `log.prev + 1` (`removeGTE`: the log is EMPTY), appends and
flushes (`commitLog`). -/

/-- the conflicting request of the leader of term 3 -/
def exCutReq : AppendReq :=
  { term := 3, src := 2, prevLogIndex := 3, prevLogTerm := 2,
    entries := [{ index := 4, term := 3, typ := etUpdate, data := "c" }], ldrCommitIndex := 3 }

-- the node is inside the window (`0 < log.prev = snapIndex = commitIndex`, the request is not stale and conflicts with the
-- log at `log.prev + 1`): `NoCut` fails
#guard (C09Sys3.exX19.node 3).log.prev == 3 && (C09Sys3.exX19.node 3).snapIndex == 3 &&
  (C09Sys3.exX19.node 3).commitIndex == 3 && (C09Sys3.exX19.node 3).term == 2 && exCutReq.term == 3 &&
  (C09Sys3.exX19.node 3).lastLogIndex == 4 && (C09Sys3.exX19.node 3).entryTerm? 4 == some 2
-- the storage points of the handler; it does not fail an assertion
#guard ((C09Sys3.exX19.node 3).step (.append exCutReq) [] []).trace.map (·.1) == ["value.set", "removeGTE", "commitLog"] &&
  ((C09Sys3.exX19.node 3).step (.append exCutReq) [] []).panicked.isNone
-- the crash disks: (term, log.prev, entries, flushed, stale?) — old log / old log, new term / EMPTY log at the snapshot /
-- the new entry; none is stale
#guard (List.range 5).map (fun k => let d := C05.crashDisk (C09Sys3.exX19.node 3) (.append exCutReq) [] [] k
    (d.term, d.log.prev, d.log.entries.map (fun e => (e.index, e.term, e.data)), d.log.flushed, staleLog d)) ==
  [(2, 3, [(4, 2, "b")], 4, false), (3, 3, [(4, 2, "b")], 4, false), (3, 3, [], 3, false),
   (3, 3, [(4, 3, "c")], 4, false), (3, 3, [(4, 3, "c")], 4, false)]
-- the restarts: (term, log.prev, entries, lastLogIndex, lastLogTerm, commitIndex, applied) — from the empty log the last
-- log index / term are the snapshot's (3, term 2); the state machine is the snapshot's content in every case
#guard (List.range 5).map (fun k =>
    (Node.restart (C05.crashDisk (C09Sys3.exX19.node 3) (.append exCutReq) [] [] k) 1 true).map
      (fun n => (n.term, n.log.prev, n.log.entries.map (fun e => (e.index, e.term, e.data)), n.lastLogIndex, n.lastLogTerm,
        n.commitIndex, n.fsm.applied))) ==
  [some (2, 3, [(4, 2, "b")], 4, 2, 3, ["a"]), some (3, 3, [(4, 2, "b")], 4, 2, 3, ["a"]),
   some (3, 3, [], 3, 2, 3, ["a"]), some (3, 3, [(4, 3, "c")], 4, 3, 3, ["a"]),
   some (3, 3, [(4, 3, "c")], 4, 3, 3, ["a"])]
-- (A) EVALUATED: the stale reset of `C10Sys2.exStale` at every crash point of its snapshot goroutine: before `snap.publish`
-- the old log (prev 1, three entries... of which one is flushed) is kept; from `snap.publish` on the log is reset to the
-- snapshot at 4: (log.prev, entries, snapIndex, commitIndex, applied)
#guard (List.range 4).map (fun k => (Node.restart (C05.crashDisk C10Sys2.exStale .snapRun [] [] k) 1 true).map
    (fun n => (n.log.prev, n.log.entries.length, n.snapIndex, n.commitIndex, n.fsm.applied))) ==
  [some (1, 1, 1, 1, []), some (4, 0, 4, 4, ["a"]), some (4, 0, 4, 4, ["a"]), some (4, 0, 4, 4, ["a"])]

end C09Sys5
end Raft

#print axioms Raft.C09Sys5.stale_restart_resets_to_snapshot -- also C10
#print axioms Raft.C09Sys5.stage3_runs_are_snap6_runs
#print axioms Raft.C09Sys5.stale_restart_is_committed_replacement -- also C10 C06
#print axioms Raft.C09Sys5.cut_crash_keeps_committed_prefix -- also C10 C06
#print axioms Raft.C09Sys5.snapshot_agrees_with_log_sys_snap6_partial
#print axioms Raft.C09Sys5.log_matching_sys_snap6_partial -- also C04
#print axioms Raft.C09Sys5.leader_completeness_sys_snap6_partial -- also C02
#print axioms Raft.C09Sys5.state_machine_safety_sys_snap6_partial -- also C03
#print axioms Raft.C09Sys5.snapshot_is_committed_prefix_sys_snap6_partial -- also C12
#print axioms Raft.C09Sys5.install_request_is_committed_prefix_sys_snap6_partial
#print axioms Raft.C09Sys5.rejoin_after_any_crash_snap6_partial -- also C10 C06
#print axioms Raft.C09Sys5.commit_durable_across_any_crash_snap6_partial -- also C06
#print axioms Raft.C09Sys5.tracked_runs_snap6_partial
#print axioms Raft.C09Sys5.restart_succeeds_and_rejoins_snap6_partial -- also C10 C06
