/-
AUDIT of the theorems over `Raft.Snap` (Sys/Snap.lean, Props/C09Sys.lean — local snapshots, stage 1).

1. `snap_of_G`: EVERY run of the restricted fixed-membership system (`SysInv.ReachableG`, Props/C19Sys.lean) is a run of
   `Raft.Snap` (with an empty snapshot ledger). So the proved runs of Props/C07Sys.lean and Props/AuditSys.lean
   (election, replication, commit, answers, crashes inside steps, re-election, leadership transfer) are witnesses
   for `Snap.ReachableS` too, and no side condition of `Snap.SideS` / premise of `Snap.Trans` is unsatisfiable there.
2. a PROVED run with a REAL snapshot (Props/C09Sys.lean only evaluates one): continuing `AuditSys.a9`, the leader 3 and
   the follower 1 take a snapshot at their applied index, hand it over (`.snapTaken`, no compaction: one segment), the
   leader keeps replicating to a node with `snapIndex > 0`, and node 1 dies and restarts FROM ITS SNAPSHOT FILE.
-/
import RaftVerif.Props.AuditSys
import RaftVerif.Props.C09Sys

namespace Raft
namespace AuditSnap
open Node LogRel CommitRel Commit C02Sys C03Sys SysInv NoPanic Snap
open Election (setNode setNode_same setNode_other)

/-! ### 1. every run of `ReachableG` is a run of `Raft.Snap` -/

theorem opOKS_of {op : Op} (h : OpOK op) : OpOKS op := by
  cases op <;> first | exact h | trivial

theorem enabledS_of {x : Commit.Sys} {i : Nat} {op : Op} {src : Nat} (he : Commit.Enabled x i op src) :
    Snap.Enabled x i op src :=
  ⟨he.rp.id, he.rp.voteSrc, he.rp.real, ⟨opOKS_of he.ok2.1, he.ok2.2.1, he.ok2.2.2⟩, he.rp.append, he.vote,
    he.appendSrc, he.upd⟩

theorem newSnaps_nil (i : Nat) (pre : List SnapFile) : newSnaps i pre [] = [] := rfl

/-- the side conditions of `Raft.Snap` follow from the invariants of the restricted system -/
theorem sideS_of {V : List Nat} {x : Commit.Sys} (hI : CInv V x) (hS : SideV V x) (hG : GInv x) :
    SideS V { cs := x, snaps := [] } := by
  refine ⟨hS, fun i => (nwf hI i).prev, fun i e he ht => ?_⟩
  obtain ⟨_, h2⟩ := log_cfg hI hG i e he ht
  have := h2 0
  cases hc : e.cfg with
  | none => rw [hc] at this; exact absurd this (by simp [cfgOkOpt])
  | some c => rfl

/-- **every run of the restricted fixed-membership system is a run of `Raft.Snap`** (snapshot ledger empty) -/
theorem snap_of_G {V : List Nat} (hV : V.Nodup) {x : Commit.Sys} (h : ReachableG V x) :
    ReachableS V { cs := x, snaps := [] } := by
  induction h with
  | init x hi hs hsg hg =>
    have hI := inv_init V x hi
    exact .init _ ⟨hi, hsg, rfl⟩ (sideS_of hI hs hg)
  | next x y hx ht hs hsg ih =>
    have hy : ReachableG V y := .next x y hx ht hs hsg
    obtain ⟨hIy, _⟩ := inv_reachable hV (reachableG_V hy)
    obtain ⟨hIx, _⟩ := inv_reachable hV (reachableG_V hx)
    have hGy := ginv_reachable hV hy
    have hside := sideS_of hIy hs hGy
    cases ht with
    | step i op ra ord src he heG ho =>
      have hp := (C19Sys.reqok_in_sys_partial V hV x hx i op src he heG ho ra ord).2.2.1
      have hni : (stepC x i op ra ord src).node i = (x.node i).step op ra ord := by
        show setNode x.rp.el.node i _ i = _
        rw [setNode_same]
      have hsn : ((x.node i).step op ra ord).snapsDisk = [] := by rw [← hni]; exact (nwf hIy i).snaps
      have ht' : Snap.Trans { cs := x, snaps := [] }
          { cs := stepC x i op ra ord src
            snaps := newSnaps i (x.node i).snapsDisk ((x.node i).step op ra ord).snapsDisk ++ [] } :=
        .step i op ra ord src (enabledS_of he) hp
          (fun e => by subst e; exact absurd he.rp.ok (by simp [OpOK]))
      rw [hsn] at ht'
      exact .next _ _ ih ht' hside
    | crash i op ra ord src k retain sor n he heG ho hn =>
      have hni : (crashC x i op n).node i = n := by
        show setNode x.rp.el.node i _ i = _
        rw [setNode_same]
      have hsn : n.snapsDisk = [] := by rw [← hni]; exact (nwf hIy i).snaps
      have hret : 1 ≤ retain := by
        have := hsg i
        rw [hni, restart_retain _ _ _ _ hn] at this
        exact this
      have ht' : Snap.Trans { cs := x, snaps := [] }
          { cs := crashC x i op n, snaps := newSnaps i (x.node i).snapsDisk n.snapsDisk ++ [] } :=
        .crash i op ra ord src k retain sor n (enabledS_of he) hret
          (fun e => by subst e; exact absurd he.rp.ok (by simp [OpOK])) hn
      rw [hsn] at ht'
      exact .next _ _ ih ht' hside
    | send i q hi hl hr hc =>
      exact .next _ _ ih (.send i q hi hl hr hc) hside

/-! ### builders for `Snap.Enabled` (used for `Raft.Snap` and `Raft.Snap2`) -/

/-- an operation without constraints (no request, no batch, no report) -/
theorem enS_plain (x : Commit.Sys) (i : Nat) (op : Op) (hi : i ≠ 0) (hok : OpOKS op)
    (h1 : ∀ q, op ≠ .vote q) (h2 : ∀ q, op ≠ .append q) (h3 : ∀ a b c, op ≠ .voteResult a b c)
    (h4 : ∀ b, op ≠ .newEntries b) (h5 : ∀ t c, op ≠ .changeConfig t c) (h6 : ∀ us, op ≠ .replUpdates us) :
    Snap.Enabled x i op 0 :=
  ⟨hi, fun q h => absurd h (h1 q), fun ⟨_, _, _, h⟩ => absurd h (h3 _ _ _), ⟨hok, fun b h => absurd h (h4 b), h5⟩,
    fun q h => absurd h (h2 q), fun q h => absurd h (h1 q), fun q h => absurd h (h2 q), fun us h => absurd h (h6 us)⟩

/-- a request on the wire, delivered to a node other than its sender -/
theorem enS_append (x : Commit.Sys) (i : Nat) (q : AppendReq) (hi : i ≠ 0) (hq : q ∈ x.rp.sent) (hsrc : q.src ≠ i) :
    Snap.Enabled x i (.append q) 0 :=
  ⟨hi, (fun q h => by cases h), (fun ⟨_, _, _, h⟩ => by cases h),
    ⟨trivial, (fun b h => by cases h), (fun t c h => by cases h)⟩,
    (fun q' h => by cases h; exact Or.inr hq), (fun q h => by cases h), (fun q' h => by cases h; exact hsrc),
    (fun us h => by cases h)⟩

/-- a vote request of a recorded campaign -/
theorem enS_vote (x : Commit.Sys) (i : Nat) (q : VoteReq) (hi : i ≠ 0) (hs : q.src ≠ 0)
    (hc : ({ cand := q.src, term := q.term, lastIndex := q.lastLogIndex, lastTerm := q.lastLogTerm } : Camp) ∈ x.camps) :
    Snap.Enabled x i (.vote q) 0 :=
  ⟨hi, (fun q' h => by cases h; exact hs), (fun ⟨_, _, _, h⟩ => by cases h),
    ⟨trivial, (fun b h => by cases h), (fun t c h => by cases h)⟩, (fun q h => by cases h),
    (fun q' h => by cases h; exact Or.inr hc), (fun q h => by cases h), (fun us h => by cases h)⟩

/-- a success response that is a real reply -/
theorem enS_voteResult (x : Commit.Sys) (i t src : Nat) (hi : i ≠ 0) (hr : Election.RealReply x.rp.el i src) :
    Snap.Enabled x i (.voteResult false t rSuccess) src :=
  ⟨hi, (fun q h => by cases h), (fun _ => hr), ⟨trivial, (fun b h => by cases h), (fun t c h => by cases h)⟩,
    (fun q h => by cases h), (fun q h => by cases h), (fun q h => by cases h), (fun us h => by cases h)⟩

/-- match-index reports, each backed by an acknowledgement -/
theorem enS_upd (x : Commit.Sys) (i : Nat) (us : List ReplUpdate) (hi : i ≠ 0) (hnc : NoCompact us)
    (hb : ∀ u ∈ us, ∀ v, u.upd = .matchIndex v →
      v = 0 ∨ ∃ a ∈ x.acks, a.voter = u.id ∧ a.term = (x.node i).term ∧ v ≤ a.index) :
    Snap.Enabled x i (.replUpdates us) 0 :=
  ⟨hi, (fun q h => by cases h), (fun ⟨_, _, _, h⟩ => by cases h),
    ⟨hnc, (fun b h => by cases h), (fun t c h => by cases h)⟩, (fun q h => by cases h), (fun q h => by cases h),
    (fun q h => by cases h), (fun us' h => by cases h; exact hb)⟩

/-- a client batch without configuration entries -/
theorem enS_batch (x : Commit.Sys) (i : Nat) (b : List QItem) (hi : i ≠ 0) (hb : NoCfg b) :
    Snap.Enabled x i (.newEntries b) 0 :=
  ⟨hi, (fun q h => by cases h), (fun ⟨_, _, _, h⟩ => by cases h),
    ⟨trivial, (fun b' h => by cases h; exact hb), (fun t c h => by cases h)⟩, (fun q h => by cases h),
    (fun q h => by cases h), (fun q h => by cases h), (fun us h => by cases h)⟩

/-! ### 2. a proved run of `Raft.Snap` with real snapshots and a restart from a snapshot file -/

/-- a completed step of node `i` (no oracle) -/
def stepSn (x : Snap.Sys) (i : Nat) (op : Op) (src : Nat) : Snap.Sys :=
  { cs := stepC x.cs i op [] [] src
    snaps := newSnaps i (x.node i).snapsDisk ((x.node i).step op [] []).snapsDisk ++ x.snaps }

/-- node `i` died while handling `op` and restarted as `n` -/
def crashSn (x : Snap.Sys) (i : Nat) (op : Op) (n : Node) : Snap.Sys :=
  { cs := crashC x.cs i op n, snaps := newSnaps i (x.node i).snapsDisk n.snapsDisk ++ x.snaps }

def sendSn (x : Snap.Sys) (q : AppendReq) : Snap.Sys := { x with cs := sendC x.cs q }

/-- what has to be checked of the node that acted -/
def NodeSide (V : List Nat) (n : Node) : Prop :=
  n.configs.isBootstrapped = true ∧ n.configs.latest.voters = V ∧ n.configs.latest.isStable = true ∧
  n.log.prev = 0 ∧ ∀ e ∈ n.log.entries, e.typ = etConfig → e.cfg.isSome = true

instance (V : List Nat) (n : Node) : Decidable (NodeSide V n) := by unfold NodeSide; infer_instance

theorem sideS_set {V : List Nat} (x : Snap.Sys) (y : Snap.Sys) (i : Nat) (n : Node) (hs : SideS V x)
    (hy : y.cs.rp.el.node = setNode x.cs.rp.el.node i n) (hn : NodeSide V n) : SideS V y := by
  have hnode : ∀ j, y.node j = setNode x.cs.rp.el.node i n j := fun j => by
    show y.cs.rp.el.node j = _; rw [hy]
  have key : ∀ j, NodeSide V (y.node j) := by
    intro j
    rw [hnode j]
    by_cases hj : j = i
    · subst hj; rw [setNode_same]; exact hn
    · rw [setNode_other _ _ _ _ hj]
      exact ⟨(hs.sideV.1 j).1, (hs.sideV.1 j).2, hs.sideV.2 j, hs.prev j, hs.dec j⟩
  exact ⟨⟨fun j => ⟨(key j).1, (key j).2.1⟩, fun j => (key j).2.2.1⟩, fun j => (key j).2.2.2.1,
    fun j => (key j).2.2.2.2⟩

/-- a reachable state with its side conditions -/
def RSn (V : List Nat) (x : Snap.Sys) : Prop := ReachableS V x

theorem rsn_step {V : List Nat} {x : Snap.Sys} (hx : ReachableS V x) (hsx : SideS V x) (i : Nat) (op : Op) (src : Nat)
    (he : Snap.Enabled x.cs i op src) (hp : ((x.node i).step op [] []).panicked = none)
    (hlog : op = .snapTaken → ((x.node i).step op [] []).log = (x.node i).log)
    (hn : NodeSide V ((x.node i).step op [] [])) :
    ReachableS V (stepSn x i op src) ∧ SideS V (stepSn x i op src) := by
  have hs : SideS V (stepSn x i op src) := sideS_set x _ i _ hsx rfl hn
  exact ⟨.next x _ hx (.step i op [] [] src he hp hlog) hs, hs⟩

theorem rsn_crash {V : List Nat} {x : Snap.Sys} (hx : ReachableS V x) (hsx : SideS V x) (i : Nat) (op : Op)
    (src k : Nat) (n : Node) (he : Snap.Enabled x.cs i op src)
    (hlog : op = .snapTaken → ((x.node i).step op [] []).log = (x.node i).log)
    (hr : Node.restart (C05.crashDisk (x.node i) op [] [] k) 1 true = some n) (hn : NodeSide V n) :
    ReachableS V (crashSn x i op n) ∧ SideS V (crashSn x i op n) := by
  have hs : SideS V (crashSn x i op n) := sideS_set x _ i _ hsx rfl hn
  exact ⟨.next x _ hx (.crash i op [] [] src k 1 true n he (Nat.le_refl _) hlog hr) hs, hs⟩

theorem rsn_send {V : List Nat} {x : Snap.Sys} (hx : ReachableS V x) (hsx : SideS V x) (i : Nat) (q : AppendReq)
    (hi : i ≠ 0) (hl : (x.node i).role = .leader) (hr : Replication.ReadFrom (x.node i) q)
    (hc : q.ldrCommitIndex ≤ (x.node i).commitIndex) :
    ReachableS V (sendSn x q) ∧ SideS V (sendSn x q) :=
  have hs : SideS V (sendSn x q) := ⟨hsx.sideV, hsx.prev, hsx.dec⟩
  ⟨.next x _ hx (.send i q hi hl hr hc) hs, hs⟩

open AuditSys

/-- the state `AuditSys.a9` (after crashes and the election of node 3 in term 3), with an empty snapshot ledger -/
def s0 : Snap.Sys := { cs := a9.c, snaps := [] }

theorem rs0 : ReachableS [1, 2, 3] s0 ∧ SideS [1, 2, 3] s0 := by
  have h := snap_of_G (V := [1, 2, 3]) (by decide) (C07Sys.reachable_c ra9.1.1)
  exact ⟨h, (SnapInv.inv_reachable (by decide) h).2⟩

/-- the leader 3 is asked for a snapshot; the goroutine writes the file (index 6, term 3, [a, b, c]); the result is
handed over (no compaction: one segment) -/
def s1 : Snap.Sys := stepSn s0 3 (.takeSnapshot 20 0) 0
def s2 : Snap.Sys := stepSn s1 3 .snapRun 0
def s3 : Snap.Sys := stepSn s2 3 .snapTaken 0
/-- a heartbeat with the leader's commit index 6 -/
def hb : AppendReq := { term := 3, src := 3, prevLogIndex := 6, prevLogTerm := 3, ldrCommitIndex := 6, entries := [] }
def s4 : Snap.Sys := sendSn s3 hb
/-- node 1 commits and applies index 6 … -/
def s5 : Snap.Sys := stepSn s4 1 (.append hb) 0
/-- … takes a snapshot at index 6 too -/
def s6 : Snap.Sys := stepSn s5 1 (.takeSnapshot 21 0) 0
def s7 : Snap.Sys := stepSn s6 1 .snapRun 0
def s8 : Snap.Sys := stepSn s7 1 .snapTaken 0
def batchD : List QItem := [{ typ := etUpdate, data := "d", task := 22 }]
/-- the leader accepts the update "d": entry (7,3) -/
def s9 : Snap.Sys := stepSn s8 3 (.newEntries batchD) 0
def reqD : AppendReq :=
  { term := 3, src := 3, prevLogIndex := 6, prevLogTerm := 3, ldrCommitIndex := 6,
    entries := (s9.node 3).log.entries.drop 6 }
def s10 : Snap.Sys := sendSn s9 reqD
/-- node 1 (`snapIndex = 6 = prevLogIndex`: the consistency check is skipped) appends it -/
def s11 : Snap.Sys := stepSn s10 1 (.append reqD) 0
/-- node 1 dies between two steps and restarts from its snapshot file and its log -/
def m1 : Node := (Node.restart (C05.crashDisk (s11.node 1) .timeout [] [] 0) 1 true).getD {}
def s12 : Snap.Sys := crashSn s11 1 .timeout m1

/-- the operations without enabling constraints -/
def isPlain : Op → Bool
  | .vote _ | .append _ | .voteResult _ _ _ | .newEntries _ | .changeConfig _ _ | .replUpdates _ | .install _
  | .shutdown => false
  | _ => true

theorem plainS (x : Commit.Sys) (i : Nat) (op : Op) (hi : i ≠ 0) (h : isPlain op = true) : Snap.Enabled x i op 0 := by
  cases op <;> first
    | (cases h; done)
    | exact enS_plain _ _ _ hi trivial (fun _ h => by cases h) (fun _ h => by cases h) (fun _ _ _ h => by cases h)
        (fun _ h => by cases h) (fun _ _ h => by cases h) (fun _ h => by cases h)

set_option maxRecDepth 100000 in
theorem r1 : ReachableS [1, 2, 3] s1 ∧ SideS [1, 2, 3] s1 :=
  rsn_step rs0.1 rs0.2 3 _ 0
    (plainS _ 3 _ (by decide) rfl)
    (by decide +kernel) (fun h => by cases h) (by decide +kernel)

set_option maxRecDepth 100000 in
theorem r2 : ReachableS [1, 2, 3] s2 ∧ SideS [1, 2, 3] s2 :=
  rsn_step r1.1 r1.2 3 _ 0
    (plainS _ 3 _ (by decide) rfl)
    (by decide +kernel) (fun h => by cases h) (by decide +kernel)

set_option maxRecDepth 100000 in
theorem r3 : ReachableS [1, 2, 3] s3 ∧ SideS [1, 2, 3] s3 :=
  rsn_step r2.1 r2.2 3 _ 0
    (plainS _ 3 _ (by decide) rfl)
    (by decide +kernel) (fun _ => by decide +kernel) (by decide +kernel)

set_option maxRecDepth 100000 in
theorem r4 : ReachableS [1, 2, 3] s4 ∧ SideS [1, 2, 3] s4 :=
  rsn_send r3.1 r3.2 3 hb (by decide) (by decide +kernel)
    ⟨by decide +kernel, by decide +kernel, by decide +kernel, by decide +kernel, ⟨0, by decide +kernel⟩⟩
    (by decide +kernel)

set_option maxRecDepth 100000 in
theorem r5 : ReachableS [1, 2, 3] s5 ∧ SideS [1, 2, 3] s5 :=
  rsn_step r4.1 r4.2 1 _ 0 (enS_append _ 1 hb (by decide) (by decide +kernel) (by decide))
    (by decide +kernel) (fun h => by cases h) (by decide +kernel)

set_option maxRecDepth 100000 in
theorem r6 : ReachableS [1, 2, 3] s6 ∧ SideS [1, 2, 3] s6 :=
  rsn_step r5.1 r5.2 1 _ 0
    (plainS _ 1 _ (by decide) rfl)
    (by decide +kernel) (fun h => by cases h) (by decide +kernel)

set_option maxRecDepth 100000 in
theorem r7 : ReachableS [1, 2, 3] s7 ∧ SideS [1, 2, 3] s7 :=
  rsn_step r6.1 r6.2 1 _ 0
    (plainS _ 1 _ (by decide) rfl)
    (by decide +kernel) (fun h => by cases h) (by decide +kernel)

set_option maxRecDepth 100000 in
theorem r8 : ReachableS [1, 2, 3] s8 ∧ SideS [1, 2, 3] s8 :=
  rsn_step r7.1 r7.2 1 _ 0
    (plainS _ 1 _ (by decide) rfl)
    (by decide +kernel) (fun _ => by decide +kernel) (by decide +kernel)

theorem batchD_noCfg : NoCfg batchD := fun q hq => by rw [List.mem_singleton.mp hq]; decide

set_option maxRecDepth 100000 in
theorem r9 : ReachableS [1, 2, 3] s9 ∧ SideS [1, 2, 3] s9 :=
  rsn_step r8.1 r8.2 3 _ 0 (enS_batch _ 3 batchD (by decide) batchD_noCfg)
    (by decide +kernel) (fun h => by cases h) (by decide +kernel)

set_option maxRecDepth 100000 in
theorem r10 : ReachableS [1, 2, 3] s10 ∧ SideS [1, 2, 3] s10 :=
  rsn_send r9.1 r9.2 3 reqD (by decide) (by decide +kernel)
    ⟨by decide +kernel, by decide +kernel, by decide +kernel, by decide +kernel, ⟨1, by decide +kernel⟩⟩
    (by decide +kernel)

set_option maxRecDepth 100000 in
theorem r11 : ReachableS [1, 2, 3] s11 ∧ SideS [1, 2, 3] s11 :=
  rsn_step r10.1 r10.2 1 _ 0 (enS_append _ 1 reqD (by decide) (by decide +kernel) (by decide))
    (by decide +kernel) (fun h => by cases h) (by decide +kernel)

set_option maxRecDepth 100000 in
theorem m1_restart : Node.restart (C05.crashDisk (s11.node 1) .timeout [] [] 0) 1 true = some m1 :=
  restart_getD (by decide +kernel)

set_option maxRecDepth 100000 in
theorem r12 : ReachableS [1, 2, 3] s12 ∧ SideS [1, 2, 3] s12 :=
  rsn_crash r11.1 r11.2 1 .timeout 0 0 m1
    (plainS _ 1 _ (by decide) rfl)
    (fun h => by cases h) m1_restart (by decide +kernel)

set_option maxRecDepth 100000 in
/-- WITNESS S1 (`Raft.Snap`): facts about the run. `s3`: the leader 3 holds the snapshot file (6, 3, [a, b, c]) and
`snapIndex = 6`, recorded in the ledger; `s11`: node 1 with `snapIndex = 6` appended entry 7 behind a request with
`prevLogIndex = 6 = snapIndex`; `s12`: node 1 restarted from its snapshot: commit index = applied index = snapshot
index = 6, state machine [a, b, c], 7 log entries, nothing failed. -/
theorem runS1_facts :
    ((s3.node 3).snapIndex = 6 ∧ (s3.node 3).snapsDisk.map (fun f => (f.index, f.term, f.data)) = [(6, 3, ["a", "b", "c"])] ∧
      s3.snaps.map (fun p => (p.1, p.2.index)) = [(3, 6)] ∧ (s3.node 3).snapResult = none) ∧
    ((s10.node 1).snapIndex = 6 ∧ (s10.node 1).log.entries.length = 6 ∧ (s11.node 1).log.entries.length = 7 ∧
      (s11.node 1).rpcReply.map (·.result) = some rSuccess) ∧
    ((s12.node 1).snapIndex = 6 ∧ (s12.node 1).commitIndex = 6 ∧ (s12.node 1).fsm.index = 6 ∧
      (s12.node 1).fsm.applied = ["a", "b", "c"] ∧ (s12.node 1).log.entries.length = 7 ∧
      (s12.node 1).role = .follower ∧ (s12.node 1).panicked = none ∧
      s12.snaps.map (fun p => (p.1, p.2.index)) = [(1, 6), (3, 6)]) := by
  refine ⟨⟨?_, ?_, ?_, ?_⟩, ⟨?_, ?_, ?_, ?_⟩, ⟨?_, ?_, ?_, ?_, ?_, ?_, ?_, ?_⟩⟩ <;> decide +kernel

/-! ### instances -/

set_option maxRecDepth 100000 in
/-- C09Sys `restart_from_snapshot_partial`: ALL its hypotheses hold for the crash `s11 → s12` (node 1 restarts from the
snapshot file (6, 3, [a, b, c]) and its log) -/
example : m1.fsm.applied = C03Sys.ups (m1.log.entries.take m1.fsm.index) ∧ m1.fsm.index ≤ m1.commitIndex ∧
    m1.snapIndex ≤ m1.fsm.index ∧ m1.snapIndex = 6 :=
  have h := C09Sys.restart_from_snapshot_partial (V := [1, 2, 3]) (by decide) s11 s12 r11.1 1 .timeout [] [] 0 0 1 true m1
    (plainS _ 1 _ (by decide) rfl) (Nat.le_refl _) (fun h => by cases h) m1_restart rfl r12.2
  ⟨h.1, h.2.1, h.2.2.1, by decide +kernel⟩

set_option maxRecDepth 100000 in
/-- C09Sys `snapshot_is_committed_prefix_partial` on `s12`: the ledger holds the files of the nodes 1 and 3; the file of
node 3 is the replay of the log of node 1 too (whose commit index 6 comes from its own snapshot) -/
example : ∀ p ∈ s12.snaps, p.2.data = C03Sys.ups ((s12.node 1).log.entries.take p.2.index) := by
  intro p hp
  have h := C09Sys.snapshot_is_committed_prefix_partial (V := [1, 2, 3]) (by decide) s12 r12.1 p.1 p.2 (Or.inl hp)
  have hi : p.2.index ≤ (s12.node 1).commitIndex := by
    have : ∀ q ∈ s12.snaps, q.2.index ≤ (s12.node 1).commitIndex := by decide +kernel
    exact this p hp
  exact h.2.2.2.2.2 1 hi

end AuditSnap
end Raft

#print axioms Raft.AuditSnap.snap_of_G
#print axioms Raft.AuditSnap.r12
#print axioms Raft.AuditSnap.runS1_facts
