/-
C01 on the cluster-level transition system `Raft.Election` (Sys/Election.lean) — fixed voter set.

`election_safety_sys_partial`: in every state reachable by ANY schedule of operations, crashes and restarts
of any number of model nodes — the only constraint being that a vote response a candidate counts is a real
reply of its current election (`Election.RealReply`) — in which the voters of every node's latest
configuration are one duplicate-free list `V` throughout (this is the `_partial` restriction: no membership
change), two nodes that are leader in the same term are the same node; moreover every node that is leader
is recorded in the ledger `won`, and every entry of `won` is backed by a majority of `V` that each durably
granted that node their single vote for that term.

The link that `Props/C01.lean` left open ("a model node that is leader in term t is backed by a majority of
grants for (t, itself)") is proved here from `Node.role_step` (Lemmas/RoleRel.lean), which covers every
operation of `Node.step`.
-/
import RaftVerif.Sys.Election

namespace Raft
namespace C01Sys
open Node Election C01

/-! ### small list and configuration facts -/

theorem isVoter_mem_voters (c : Config) (id : Nat) (h : c.isVoter id = true) : id ∈ c.voters := by
  unfold Config.isVoter at h
  split at h
  · rename_i n hn
    unfold Config.find? at hn
    have hm := List.mem_of_find?_eq_some hn
    have hid : n.id = id := by simpa using List.find?_some hn
    unfold Config.voters
    exact List.mem_map.mpr ⟨n, List.mem_filter.mpr ⟨hm, h⟩, hid⟩
  · cases h

theorem quorum_eq (c : Config) : c.quorum = c.voters.length / 2 + 1 := by
  unfold Config.quorum Config.numVoters Config.voters
  rw [List.length_map]

theorem mem_votersCounted (c : List (Nat × Nat × Nat)) (i t v : Nat) :
    v ∈ votersCounted c i t ↔ (i, t, v) ∈ c := by
  unfold votersCounted
  simp only [List.mem_map, List.mem_filter, Bool.and_eq_true, beq_iff_eq]
  constructor
  · rintro ⟨⟨a, b, c'⟩, ⟨hm, h1, h2⟩, h3⟩
    simp only at h1 h2 h3
    subst h1; subst h2; subst h3
    exact hm
  · intro h
    exact ⟨(i, t, v), ⟨h, rfl, rfl⟩, rfl⟩

theorem votersCounted_cons_hit (c : List (Nat × Nat × Nat)) (i t v : Nat) :
    votersCounted ((i, t, v) :: c) i t = v :: votersCounted c i t := by
  unfold votersCounted
  simp

theorem votersCounted_cons_miss (c : List (Nat × Nat × Nat)) (e : Nat × Nat × Nat) (i t : Nat)
    (h : ¬ (e.1 = i ∧ e.2.1 = t)) : votersCounted (e :: c) i t = votersCounted c i t := by
  unfold votersCounted
  rw [List.filter_cons_of_neg]
  simpa using h

theorem votersCounted_append_miss (a c : List (Nat × Nat × Nat)) (i t : Nat)
    (h : ∀ e ∈ a, ¬ (e.1 = i ∧ e.2.1 = t)) : votersCounted (a ++ c) i t = votersCounted c i t := by
  induction a with
  | nil => rfl
  | cons e a ih =>
    rw [List.cons_append, votersCounted_cons_miss _ _ _ _ (h e (List.mem_cons_self ..))]
    exact ih (fun e' he' => h e' (List.mem_cons_of_mem _ he'))

theorem votersCounted_nil_of_terms (c : List (Nat × Nat × Nat)) (i t : Nat)
    (h : ∀ e ∈ c, e.1 = i → e.2.1 < t) : votersCounted c i t = [] := by
  have : ∀ v, v ∉ votersCounted c i t := by
    intro v hv
    have := h _ ((mem_votersCounted c i t v).mp hv) rfl
    simp at this
  exact List.eq_nil_iff_forall_not_mem.mpr this

theorem backed_mono {G G' : List Grant} {V : List Nat} {l t : Nat} (hsub : ∀ g ∈ G, g ∈ G')
    (h : Backed G V l t) : Backed G' V l t := by
  obtain ⟨Q, a, b, c, d⟩ := h
  exact ⟨Q, a, b, c, fun v hv => hsub _ (d v hv)⟩

/-! ### the invariant -/

/-- the voter still honours the grant: its term moved on, or its vote in that term is the granted one -/
def HonouredBy (s : Node) (g : Grant) : Prop :=
  g.cand ≠ 0 ∧ (g.term < s.term ∨ (g.term = s.term ∧ s.votedFor = g.cand))

theorem honouredBy_step {s s' : Node} {g : Grant} (h : HonouredBy s g) (hs : C05.VoteStep s s') :
    HonouredBy s' g := by
  obtain ⟨h1, h2⟩ := h
  refine ⟨h1, ?_⟩
  obtain ⟨ht, hv⟩ := hs
  rcases h2 with h2 | ⟨h2, h3⟩
  · left; omega
  · by_cases he : s'.term = s.term
    · right; refine ⟨by omega, ?_⟩
      rw [hv he (by rw [h3]; exact h1), h3]
    · left; omega

def GrantsUnique (G : List Grant) : Prop :=
  ∀ a ∈ G, ∀ b ∈ G, a.voter = b.voter → a.term = b.term → a.cand = b.cand

/-- bookkeeping of candidate `i`: it is a voter, its self vote is in the ledger, the voters it counted in
its term are distinct other voters that granted it their vote, and `votesNeeded` is what is still missing
for a majority of `V`. -/
structure CandOK (V : List Nat) (x : Sys) (i : Nat) : Prop where
  term_pos : (x.node i).term ≠ 0
  voter : i ∈ V
  self : ({ voter := i, term := (x.node i).term, cand := i } : Grant) ∈ x.grants
  nodup : (votersCounted x.counted i (x.node i).term).Nodup
  real : ∀ v ∈ votersCounted x.counted i (x.node i).term,
    v ∈ V ∧ v ≠ i ∧ ({ voter := v, term := (x.node i).term, cand := i } : Grant) ∈ x.grants
  count : (x.node i).votesNeeded + ((votersCounted x.counted i (x.node i).term).length : Int) + 1
    = ((V.length / 2 + 1 : Nat) : Int)

structure Inv (V : List Nat) (x : Sys) : Prop where
  ids : ∀ i, (x.node i).nid = i ∧ C05.VoteWF (x.node i)
  honoured : ∀ g ∈ x.grants, HonouredBy (x.node g.voter) g
  unique : GrantsUnique x.grants
  cand : ∀ i, (x.node i).role = .candidate → CandOK V x i
  recorded : ∀ i, (x.node i).role = .leader → (i, (x.node i).term) ∈ x.won
  backed : ∀ l t, (l, t) ∈ x.won → Backed x.grants V l t
  countedTerm : ∀ e ∈ x.counted, e.2.1 ≤ (x.node e.1).term

/-- the bookkeeping of candidate `j` carries over to a state in which its term and `votesNeeded` are the
same, no grant was lost and the voters it counted in its term are the same -/
theorem CandOK.transfer {V : List Nat} {x y : Sys} {j : Nat} (h : CandOK V x j)
    (ht : (y.node j).term = (x.node j).term) (hv : (y.node j).votesNeeded = (x.node j).votesNeeded)
    (hg : ∀ g ∈ x.grants, g ∈ y.grants)
    (hc : votersCounted y.counted j (x.node j).term = votersCounted x.counted j (x.node j).term) :
    CandOK V y j := by
  obtain ⟨a, b, c, d, e, f⟩ := h
  refine ⟨?_, b, ?_, ?_, ?_, ?_⟩
  · rw [ht]; exact a
  · rw [ht]; exact hg _ c
  · rw [ht, hc]; exact d
  · rw [ht, hc]; intro v hv'; obtain ⟨e1, e2, e3⟩ := e v hv'; exact ⟨e1, e2, hg _ e3⟩
  · rw [ht, hc, hv]; exact f

/-- `CandOK` from explicit values of the candidate's term, `votesNeeded` and counted voters -/
theorem candOK_intro {V : List Nat} {y : Sys} {j : Nat} (t : Nat) (vn : Int) (C : List Nat)
    (ht : (y.node j).term = t) (hvn : (y.node j).votesNeeded = vn) (hC : votersCounted y.counted j t = C)
    (a : t ≠ 0) (b : j ∈ V) (c : ({ voter := j, term := t, cand := j } : Grant) ∈ y.grants) (d : C.Nodup)
    (e : ∀ v ∈ C, v ∈ V ∧ v ≠ j ∧ ({ voter := v, term := t, cand := j } : Grant) ∈ y.grants)
    (f : vn + (C.length : Int) + 1 = ((V.length / 2 + 1 : Nat) : Int)) : CandOK V y j := by
  subst ht; subst hvn; subst hC
  exact ⟨a, b, c, d, e, f⟩

theorem inv_init (V : List Nat) (x : Sys) (h : Init x) : Inv V x := by
  obtain ⟨hn, hg, hc, hw⟩ := h
  refine ⟨fun i => ⟨(hn i).1, (hn i).2.1⟩, ?_, ?_, ?_, ?_, ?_, ?_⟩
  · rw [hg]; intro g hg'; cases hg'
  · rw [hg]; intro a ha; cases ha
  · intro i hi; rw [(hn i).2.2] at hi; cases hi
  · intro i hi; rw [(hn i).2.2] at hi; cases hi
  · rw [hw]; intro l t h'; cases h'
  · rw [hc]; intro e he; cases he

/-! ### crash and restart -/

theorem inv_crash (V : List Nat) (x : Sys) (hI : Inv V x) (i : Nat) (op : Op) (ra : List Nat)
    (ord : List (List Nat)) (k retain : Nat) (sor : Bool) (n : Node)
    (hn : Node.restart (C05.crashDisk (x.node i) op ra ord k) retain sor = some n) :
    Inv V { x with node := setNode x.node i n } := by
  have hwf := (hI.ids i).2
  obtain ⟨r1, r2, r3⟩ := C05.restart_reads_durable _ _ _ _ hn
  obtain ⟨r4, r5⟩ := restart_role_nid _ _ _ _ hn
  have hd := crashDisk_durStep (x.node i) op ra ord k hwf
  have hvs : C05.VoteStep (x.node i) n := by
    unfold C05.VoteStep; rw [r1, r2]; exact hd
  have hstep : ∀ j, C05.VoteStep (x.node j) (setNode x.node i n j) := by
    intro j
    by_cases hj : j = i
    · subst hj; rw [setNode_same]; exact hvs
    · rw [setNode_other _ _ _ _ hj]; exact ⟨Nat.le_refl _, fun _ _ => rfl⟩
  have hrole : ∀ j, (setNode x.node i n j).role = .follower ∨ setNode x.node i n j = x.node j := by
    intro j
    by_cases hj : j = i
    · subst hj; rw [setNode_same]; exact Or.inl r4
    · rw [setNode_other _ _ _ _ hj]; exact Or.inr rfl
  refine ⟨fun j => ?_, fun g hg => ?_, hI.unique, fun j hj => ?_, fun j hj => ?_, hI.backed, fun e he => ?_⟩
  · by_cases hj : j = i
    · subst hj
      show (setNode x.node j n j).nid = j ∧ C05.VoteWF (setNode x.node j n j)
      rw [setNode_same]
      exact ⟨by rw [r5, crashDisk_nid]; exact (hI.ids j).1, r3⟩
    · show (setNode x.node i n j).nid = j ∧ C05.VoteWF (setNode x.node i n j)
      rw [setNode_other _ _ _ _ hj]; exact hI.ids j
  · exact honouredBy_step (hI.honoured g hg) (hstep g.voter)
  · have hj' : (setNode x.node i n j).role = .candidate := hj
    rcases hrole j with h | h
    · rw [h] at hj'; cases hj'
    · rw [h] at hj'
      exact (hI.cand j hj').transfer (congrArg (·.term) h) (congrArg (·.votesNeeded) h) (fun g hg => hg) rfl
  · have hj' : (setNode x.node i n j).role = .leader := hj
    rcases hrole j with h | h
    · rw [h] at hj'; cases hj'
    · show (j, (setNode x.node i n j).term) ∈ x.won
      rw [h] at hj' ⊢; exact hI.recorded j hj'
  · exact Nat.le_trans (hI.countedTerm e he) (hstep e.1).1

/-! ### a step of one node -/

theorem mem_countedBy {i : Nat} {pre : Node} {op : Op} {src : Nat} {e : Nat × Nat × Nat}
    (h : e ∈ countedBy i pre op src) : e = (i, pre.term, src) := by
  unfold countedBy at h
  split at h
  · split at h
    · simpa using h
    · cases h
  · cases h

theorem mem_selfGrant {i : Nat} {pre post : Node} {g : Grant} (h : g ∈ selfGrant i pre post) :
    post.term > pre.term ∧ post.votedFor = i ∧ g = { voter := i, term := post.term, cand := i } := by
  unfold selfGrant at h
  split at h
  · rename_i hc
    exact ⟨hc.1, hc.2, by simpa using h⟩
  · cases h

theorem voteGrant_one {i : Nat} {op : Op} {post : Node} {a b : Grant}
    (ha : a ∈ voteGrant i op post) (hb : b ∈ voteGrant i op post) : a = b := by
  unfold voteGrant at ha hb
  generalize C05.grantOf op post = o at ha hb
  cases o with
  | none => cases ha
  | some x =>
    simp only [List.mem_singleton] at ha hb
    rw [ha, hb]

/-- what a vote grant recorded for a step of node `i` (state `pre`) satisfies (C05) -/
structure VoteGrantOK (i : Nat) (pre post : Node) (g : Grant) : Prop where
  voter : g.voter = i
  honoured : HonouredBy post g
  term_ge : g.term ≥ pre.term
  agrees : g.term = pre.term → pre.votedFor ≠ 0 → g.cand = pre.votedFor

theorem voteGrant_ok (i : Nat) (pre : Node) (op : Op) (ra : List Nat) (ord : List (List Nat))
    (hwf : C05.VoteWF pre) (hq : ∀ q, op = .vote q → q.src ≠ 0) (g : Grant)
    (h : g ∈ voteGrant i op (pre.step op ra ord)) : VoteGrantOK i pre (pre.step op ra ord) g := by
  unfold voteGrant at h
  split at h
  · rename_i x hx
    simp only [List.mem_singleton] at h
    subst h
    cases op with
    | vote q =>
      simp only [C05.grantOf] at hx
      split at hx
      · rename_i hs
        injection hx with hx
        subst hx
        obtain ⟨a1, a2⟩ := vote_grant_agrees pre q ra ord hwf hs
        exact ⟨rfl, ⟨hq q rfl, C05.vote_step_honours pre q ra ord hwf (hq q rfl) hs⟩, a1, a2⟩
      · cases hx
    | _ => simp [C05.grantOf] at hx
  · cases h

theorem inv_step_core (V : List Nat) (x : Sys) (hI : Inv V x) (hF : FixedV V x) (i : Nat) (op : Op)
    (src : Nat) (post : Node) (hi : i ≠ 0) (hr : Counts (x.node i) op → RealReply x i src)
    (hvs : C05.VoteStep (x.node i) post) (hwf' : C05.VoteWF post) (rs : RoleStep (x.node i) op post)
    (hvote : ∀ g ∈ voteGrant i op post, VoteGrantOK i (x.node i) post g) :
    Inv V { node := setNode x.node i post
            grants := voteGrant i op post ++ (selfGrant i (x.node i) post ++ x.grants)
            counted := countedBy i (x.node i) op src ++ x.counted
            won := (if post.role = .leader then [(i, post.term)] else []) ++ x.won } := by
  have hnid := (hI.ids i).1
  have hstep : ∀ j, C05.VoteStep (x.node j) (setNode x.node i post j) := by
    intro j
    by_cases hj : j = i
    · subst hj; rw [setNode_same]; exact hvs
    · rw [setNode_other _ _ _ _ hj]; exact ⟨Nat.le_refl _, fun _ _ => rfl⟩
  have hsubG : ∀ g ∈ x.grants, g ∈ voteGrant i op post ++ (selfGrant i (x.node i) post ++ x.grants) :=
    fun g hg => List.mem_append_right _ (List.mem_append_right _ hg)
  -- every new grant is by voter `i`, honoured by its new state, and agrees with its older grants
  have hnew : ∀ g, g ∈ voteGrant i op post ∨ g ∈ selfGrant i (x.node i) post →
      g.voter = i ∧ HonouredBy post g ∧
      (∀ o ∈ x.grants, o.voter = i → o.term = g.term → o.cand = g.cand) ∧
      (g.term = post.term ∨ g ∈ voteGrant i op post) := by
    intro g hg
    rcases hg with hg | hg
    · obtain ⟨v1, v2, v3, v4⟩ := hvote g hg
      refine ⟨v1, v2, fun o ho hov hot => ?_, Or.inr hg⟩
      obtain ⟨o1, o2⟩ := hI.honoured o ho
      rw [hov] at o2
      rcases o2 with o2 | ⟨o2, o3⟩
      · omega
      · rw [v4 (by omega) (by rw [o3]; exact o1), o3]
    · obtain ⟨s1, s2, s3⟩ := mem_selfGrant hg
      subst s3
      refine ⟨rfl, ⟨hi, Or.inr ⟨rfl, s2⟩⟩, fun o ho hov hot => ?_, Or.inl rfl⟩
      obtain ⟨_, o2⟩ := hI.honoured o ho
      rw [hov] at o2
      have hot' : o.term = post.term := hot
      rcases o2 with o2 | ⟨o2, _⟩ <;> omega
  refine ⟨fun j => ?_, fun g hg => ?_, fun a ha b hb hv ht => ?_, fun j hj => ?_, fun j hj => ?_,
    fun l t hl => ?_, fun e he => ?_⟩
  · -- ids
    show (setNode x.node i post j).nid = j ∧ C05.VoteWF (setNode x.node i post j)
    by_cases hj : j = i
    · subst hj; rw [setNode_same]; exact ⟨rs.nid.trans hnid, hwf'⟩
    · rw [setNode_other _ _ _ _ hj]; exact hI.ids j
  · -- honoured
    show HonouredBy (setNode x.node i post g.voter) g
    rcases List.mem_append.mp hg with hg | hg
    · obtain ⟨n1, n2, _⟩ := hnew g (Or.inl hg)
      rw [n1, setNode_same]; exact n2
    · rcases List.mem_append.mp hg with hg | hg
      · obtain ⟨n1, n2, _⟩ := hnew g (Or.inr hg)
        rw [n1, setNode_same]; exact n2
      · exact honouredBy_step (hI.honoured g hg) (hstep g.voter)
  · -- unique
    have cls : ∀ g, g ∈ voteGrant i op post ++ (selfGrant i (x.node i) post ++ x.grants) →
        (g ∈ voteGrant i op post ∨ g ∈ selfGrant i (x.node i) post) ∨ g ∈ x.grants := by
      intro g hg
      rcases List.mem_append.mp hg with hg | hg
      · exact Or.inl (Or.inl hg)
      · rcases List.mem_append.mp hg with hg | hg
        · exact Or.inl (Or.inr hg)
        · exact Or.inr hg
    rcases cls a ha with ha | ha <;> rcases cls b hb with hb | hb
    · obtain ⟨_, ⟨_, a2⟩, _, a4⟩ := hnew a ha
      obtain ⟨_, ⟨_, b2⟩, _, b4⟩ := hnew b hb
      by_cases hT : a.term = post.term
      · rcases a2 with a2 | ⟨_, a2⟩
        · omega
        · rcases b2 with b2 | ⟨_, b2⟩
          · omega
          · rw [← a2, ← b2]
      · rcases a4 with a4 | a4
        · exact absurd a4 hT
        · rcases b4 with b4 | b4
          · exact absurd (ht.trans b4) hT
          · rw [voteGrant_one a4 b4]
    · obtain ⟨a1, _, a3, _⟩ := hnew a ha
      exact (a3 b hb (hv.symm.trans a1) ht.symm).symm
    · obtain ⟨b1, _, b3, _⟩ := hnew b hb
      exact b3 a ha (hv.trans b1) ht
    · exact hI.unique a ha b hb hv ht
  · -- candidate bookkeeping
    have hj' : (setNode x.node i post j).role = .candidate := hj
    by_cases hji : j = i
    · subst hji
      rw [setNode_same] at hj'
      rcases rs.candidate hj' with ⟨c1, c2, c3, c4⟩ | ne
      · -- candidate of the same term before
        have ok := hI.cand j c1
        by_cases hcnt : Counts (x.node j) op
        · obtain ⟨r1, r2, r3, r4⟩ := hr hcnt
          have hsrcV : src ∈ V := by
            rw [← (hF j).2]; exact isVoter_mem_voters _ _ r2
          have hvc : votersCounted (countedBy j (x.node j) op src ++ x.counted) j post.term =
              src :: votersCounted x.counted j (x.node j).term := by
            rw [countedBy_counts _ _ _ _ hcnt, c2]
            exact votersCounted_cons_hit _ _ _ _
          have hnotin : src ∉ votersCounted x.counted j (x.node j).term :=
            fun hm => r4 ((mem_votersCounted _ _ _ _).mp hm)
          refine candOK_intro (x.node j).term ((x.node j).votesNeeded - 1)
            (src :: votersCounted x.counted j (x.node j).term) ?_ ?_ ?_ ok.term_pos ok.voter (hsubG _ ok.self)
            (List.nodup_cons.mpr ⟨hnotin, ok.nodup⟩) ?_ ?_
          · show (setNode x.node j post j).term = _
            rw [setNode_same]; exact c2
          · show (setNode x.node j post j).votesNeeded = _
            rw [setNode_same]; exact c3 hcnt
          · have hvc' := hvc
            rw [c2] at hvc'
            exact hvc'
          · intro v hv'
            rcases List.mem_cons.mp hv' with hv' | hv'
            · subst hv'; exact ⟨hsrcV, r1, hsubG _ r3⟩
            · obtain ⟨e1, e2, e3⟩ := ok.real v hv'
              exact ⟨e1, e2, hsubG _ e3⟩
          · have := ok.count
            rw [List.length_cons]
            omega
        · refine ok.transfer ?_ ?_ hsubG ?_
          · show (setNode x.node j post j).term = _; rw [setNode_same]; exact c2
          · show (setNode x.node j post j).votesNeeded = _; rw [setNode_same]; exact c4 hcnt
          · show votersCounted (countedBy j (x.node j) op src ++ x.counted) j (x.node j).term = _
            rw [countedBy_not _ _ _ _ hcnt]; rfl
      · -- a new election in this step
        obtain ⟨n1, n2, ec, n3, n4, n5, n6⟩ := ne
        have hec : ec = (x.node j).configs.latest := n3 (hF j).1
        have hvc : votersCounted (countedBy j (x.node j) op src ++ x.counted) j post.term = [] := by
          apply votersCounted_nil_of_terms
          intro e he he1
          rcases List.mem_append.mp he with he | he
          · rw [mem_countedBy he]; exact n1
          · have := hI.countedTerm e he
            rw [he1] at this
            omega
        have hjV : j ∈ V := by
          rcases n4 with n4 | n4
          · exact (hI.cand j n4).voter
          · rw [← (hF j).2, ← hec]
            have := isVoter_mem_voters _ _ n4
            rw [hnid] at this; exact this
        refine candOK_intro post.term (((V.length / 2 + 1 : Nat) : Int) - 1) [] ?_ ?_ hvc (by omega) hjV ?_
          List.nodup_nil (fun v hv' => by cases hv') ?_
        · show (setNode x.node j post j).term = _
          rw [setNode_same]
        · show (setNode x.node j post j).votesNeeded = _
          rw [setNode_same, n5 hj', hec, quorum_eq, (hF j).2]
        · apply List.mem_append_right
          apply List.mem_append_left
          unfold selfGrant
          rw [if_pos ⟨n1, by rw [n2, hnid]⟩]
          exact List.mem_singleton.mpr rfl
        · simp only [List.length_nil]
          omega
    · rw [setNode_other _ _ _ _ hji] at hj'
      refine (hI.cand j hj').transfer ?_ ?_ hsubG ?_
      · show (setNode x.node i post j).term = _; rw [setNode_other _ _ _ _ hji]
      · show (setNode x.node i post j).votesNeeded = _; rw [setNode_other _ _ _ _ hji]
      · show votersCounted (countedBy i (x.node i) op src ++ x.counted) j (x.node j).term = _
        apply votersCounted_append_miss
        intro e he
        rw [mem_countedBy he]
        intro hc; exact hji hc.1.symm
  · -- leaders recorded
    have hj' : (setNode x.node i post j).role = .leader := hj
    show (j, (setNode x.node i post j).term) ∈ (if post.role = .leader then [(i, post.term)] else []) ++ x.won
    by_cases hji : j = i
    · subst hji
      rw [setNode_same] at hj' ⊢
      rw [if_pos hj']
      exact List.mem_append_left _ (List.mem_singleton.mpr rfl)
    · rw [setNode_other _ _ _ _ hji] at hj' ⊢
      exact List.mem_append_right _ (hI.recorded j hj')
  · -- every recorded leader is backed by a majority of grants
    have hl' : (l, t) ∈ (if post.role = .leader then [(i, post.term)] else []) ++ x.won := hl
    show Backed (voteGrant i op post ++ (selfGrant i (x.node i) post ++ x.grants)) V l t
    rcases List.mem_append.mp hl' with hl' | hl'
    · split at hl'
      · rename_i hlead
        have e := List.mem_singleton.mp hl'
        injection e with e1 e2
        subst e1; subst e2
        rcases rs.leader hlead with ⟨l1, l2⟩ | ⟨l1, l2, l3⟩ | ne
        · -- leader of this term before the step
          rw [l2]
          exact backed_mono hsubG (hI.backed _ _ (hI.recorded l l1))
        · -- counted the last missing vote
          have ok := hI.cand l l1.1
          obtain ⟨r1, r2, r3, r4⟩ := hr l1
          have hsrcV : src ∈ V := by
            rw [← (hF l).2]; exact isVoter_mem_voters _ _ r2
          have hnotin : src ∉ votersCounted x.counted l (x.node l).term :=
            fun hm => r4 ((mem_votersCounted _ _ _ _).mp hm)
          refine ⟨l :: src :: votersCounted x.counted l (x.node l).term, ?_, ?_, ?_, ?_⟩
          · refine List.nodup_cons.mpr ⟨?_, List.nodup_cons.mpr ⟨hnotin, ok.nodup⟩⟩
            intro hm
            rcases List.mem_cons.mp hm with hm | hm
            · exact r1 hm.symm
            · exact (ok.real l hm).2.1 rfl
          · intro v hv
            rcases List.mem_cons.mp hv with hv | hv
            · subst hv; exact ok.voter
            · rcases List.mem_cons.mp hv with hv | hv
              · subst hv; exact hsrcV
              · exact (ok.real v hv).1
          · have := ok.count
            simp only [List.length_cons]
            omega
          · intro v hv
            rw [l3]
            rcases List.mem_cons.mp hv with hv | hv
            · subst hv; exact hsubG _ ok.self
            · rcases List.mem_cons.mp hv with hv | hv
              · subst hv; exact hsubG _ r3
              · exact hsubG _ (ok.real v hv).2.2
        · -- elected at once: a quorum of one
          obtain ⟨n1, n2, ec, n3, n4, n5, n6⟩ := ne
          have hec : ec = (x.node l).configs.latest := n3 (hF l).1
          have hq1 := n6 hlead
          rw [hec, quorum_eq, (hF l).2] at hq1
          have hlV : l ∈ V := by
            rcases n4 with n4 | n4
            · exact (hI.cand l n4).voter
            · rw [← (hF l).2, ← hec]
              have := isVoter_mem_voters _ _ n4
              rw [hnid] at this; exact this
          refine ⟨[l], List.nodup_cons.mpr ⟨fun h => (by cases h), List.nodup_nil⟩, ?_, ?_, ?_⟩
          · intro v hv; rw [List.mem_singleton.mp hv]; exact hlV
          · simp only [List.length_singleton]; omega
          · intro v hv
            rw [List.mem_singleton.mp hv]
            apply List.mem_append_right
            apply List.mem_append_left
            unfold selfGrant
            rw [if_pos ⟨n1, by rw [n2, hnid]⟩]
            exact List.mem_singleton.mpr rfl
      · cases hl'
    · exact backed_mono hsubG (hI.backed l t hl')
  · -- counted terms
    have he' : e ∈ countedBy i (x.node i) op src ++ x.counted := he
    show e.2.1 ≤ (setNode x.node i post e.1).term
    rcases List.mem_append.mp he' with he' | he'
    · rw [mem_countedBy he']
      show (x.node i).term ≤ (setNode x.node i post i).term
      rw [setNode_same]; exact hvs.1
    · exact Nat.le_trans (hI.countedTerm e he') (hstep e.1).1

theorem inv_step (V : List Nat) (x : Sys) (hI : Inv V x) (hF : FixedV V x) (i : Nat) (op : Op) (ra : List Nat)
    (ord : List (List Nat)) (src : Nat) (hi : i ≠ 0) (hq : ∀ q, op = .vote q → q.src ≠ 0)
    (hr : Counts (x.node i) op → RealReply x i src) : Inv V (stepSys x i op ra ord src) := by
  have hwf := (hI.ids i).2
  obtain ⟨hvs, hwf', _⟩ := C05.step_vote_stable (x.node i) op ra ord hwf
  have rs := role_step (x.node i) op ra ord (fun h => (hI.cand i h).term_pos)
  exact inv_step_core V x hI hF i op src _ hi hr hvs hwf' rs
    (fun g hg => voteGrant_ok i (x.node i) op ra ord hwf hq g hg)

theorem inv_reachable (V : List Nat) (x : Sys) (h : ReachableV V x) : Inv V x ∧ FixedV V x := by
  induction h with
  | init x hi hf => exact ⟨inv_init V x hi, hf⟩
  | next x y _ ht hf ih =>
    refine ⟨?_, hf⟩
    cases ht with
    | step i op ra ord src hi hq hr => exact inv_step V x ih.1 ih.2 i op ra ord src hi hq hr
    | crash i op ra ord k retain sor n hi hn => exact inv_crash V x ih.1 i op ra ord k retain sor n hn

/-! ### election safety -/

/-- **C01, cluster level, fixed voter set (partial).** Let `V` be a duplicate-free list of node ids and `x`
any state of the cluster reachable from an initial state (every node a follower whose memory matches its
disk; arbitrary terms, votes, logs) by ANY sequence of transitions of `Election.Trans` — any node handling
any operation with any content and oracle (`Node.step`), any node dying at any storage point of any step and
restarting — such that in every state of the run every node is bootstrapped and the voters of its latest
configuration are `V` (**this is the `_partial` restriction: membership does not change**; the general case
needs the overlap of majorities across configuration changes, C08). The only constraint on the environment is
`Election.RealReply` for the vote responses a candidate counts (see Sys/Election.lean; it models the
per-election response channel of `candidate.startElection`) and a non-zero candidate id in vote requests.
Then
1. two nodes that are leader in the same term are the same node;
2. the ledger `won` (every (node, term) that was leader at the end of a step, never forgotten) names at most
   one node per term — so at most one node EVER is leader in a term (`election_safety_ever`);
3. every node that is leader now is in `won`;
4. every entry `(l, t)` of `won` is `C01.Backed`: a duplicate-free majority of `V`, each of whose members has
   a grant `(voter, t, l)` in the ledger `grants` — and a grant is only recorded for a vote that is durable
   on the voter's disk (`C05.grant_is_durable`; the self vote: `votedFor = l` in term `t` with memory = disk);
5. grants are unique per (voter, term): a voter's single vote. -/
theorem election_safety_sys_partial (V : List Nat) (hV : V.Nodup) (x : Sys) (h : ReachableV V x) :
    (∀ i j, (x.node i).role = .leader → (x.node j).role = .leader → (x.node i).term = (x.node j).term → i = j) ∧
    (∀ l l' t, (l, t) ∈ x.won → (l', t) ∈ x.won → l = l') ∧
    (∀ i, (x.node i).role = .leader → (i, (x.node i).term) ∈ x.won) ∧
    (∀ l t, (l, t) ∈ x.won → Backed x.grants V l t) ∧
    (∀ a ∈ x.grants, ∀ b ∈ x.grants, a.voter = b.voter → a.term = b.term → a.cand = b.cand) := by
  obtain ⟨hI, _⟩ := inv_reachable V x h
  have hwon : ∀ l l' t, (l, t) ∈ x.won → (l', t) ∈ x.won → l = l' := fun l l' t h1 h2 =>
    election_safety_partial x.grants V hV hI.unique l l' t (hI.backed l t h1) (hI.backed l' t h2)
  refine ⟨fun i j hi hj ht => ?_, hwon, hI.recorded, hI.backed, hI.unique⟩
  exact hwon i j (x.node i).term (hI.recorded i hi) (by rw [ht]; exact hI.recorded j hj)

/-- **the link left open in Props/C01.lean** (same assumptions): a model node that is leader in term `t` is
backed by a duplicate-free majority of `V` whose members each have a grant for (`t`, that node) in the
ledger. -/
theorem leader_backed_partial (V : List Nat) (hV : V.Nodup) (x : Sys) (h : ReachableV V x) (i : Nat)
    (hl : (x.node i).role = .leader) : Backed x.grants V i (x.node i).term := by
  obtain ⟨_, _, r, b, _⟩ := election_safety_sys_partial V hV x h
  exact b _ _ (r i hl)

/-- a run from `x` to `y` with membership `V` in every state passed -/
inductive RunV (V : List Nat) (x : Sys) : Sys → Prop
  | refl : RunV V x x
  | next (y z : Sys) : RunV V x y → Trans y z → FixedV V z → RunV V x z

theorem won_mono {x y : Sys} (h : Trans x y) : ∀ e ∈ x.won, e ∈ y.won := by
  cases h with
  | step i op ra ord src _ _ _ => exact fun e he => List.mem_append_right _ he
  | crash i op ra ord k retain sor n _ _ => exact fun e he => he

theorem run_reachable {V : List Nat} {x y : Sys} (hx : ReachableV V x) (h : RunV V x y) :
    ReachableV V y ∧ ∀ e ∈ x.won, e ∈ y.won := by
  induction h with
  | refl => exact ⟨hx, fun e he => he⟩
  | next y z _ ht hf ih => exact ⟨.next y z ih.1 ht hf, fun e he => won_mono ht e (ih.2 e he)⟩

/-- **at most one node EVER is leader in a term** (same assumptions as `election_safety_sys_partial`):
a node that is leader in term `t` in some reachable state and a node that is leader in term `t` in any later
state of the run are the same node — also if the first one crashed, restarted or stepped down in between. -/
theorem election_safety_ever_partial (V : List Nat) (hV : V.Nodup) (x y : Sys) (hx : ReachableV V x)
    (hrun : RunV V x y) (i j : Nat) (hi : (x.node i).role = .leader) (hj : (y.node j).role = .leader)
    (ht : (x.node i).term = (y.node j).term) : i = j := by
  obtain ⟨hy, hmono⟩ := run_reachable hx hrun
  obtain ⟨_, _, rx, _, _⟩ := election_safety_sys_partial V hV x hx
  obtain ⟨_, wy, ry, _, _⟩ := election_safety_sys_partial V hV y hy
  exact wy i j (x.node i).term (hmono _ (rx i hi)) (by rw [ht]; exact ry j hj)

/-! ### Examples (non-vacuity): a three-voter cluster; node 1 times out and starts an election, node 2
grants its vote; the transition in which node 1 counts that vote is enabled.
(The state after that transition runs `leader.init`, whose mutually recursive block is defined by
well-founded recursion and does not reduce in the kernel; it is evaluated with `#guard` below, which is a
test, not a proof.) -/

/-- example configuration: voters 1, 2, 3 -/
def exCfg : Config :=
  { nodes := [{ id := 1, addr := "a:1", voter := true }, { id := 2, addr := "a:2", voter := true },
              { id := 3, addr := "a:3", voter := true }], index := 1, term := 1 }

/-- example node `i`: bootstrapped with `exCfg`, term 0, no vote -/
def exNode (i : Nat) : Node := { cid := 7, nid := i, configs := { committed := exCfg, latest := exCfg } }

def ex0 : Sys := { node := exNode, grants := [], counted := [], won := [] }
/-- node 1: election timeout -/
def ex1 : Sys := stepSys ex0 1 .timeout [] [] 0
/-- node 2: vote request of node 1 for term 1 -/
def ex2 : Sys := stepSys ex1 2 (.vote { term := 1, src := 1 }) [] [] 0
/-- node 1: the success response of node 2 -/
def ex3 : Sys := stepSys ex2 1 (.voteResult false 1 rSuccess) [] [] 2

/-- example: the hypothesis of `role_step` holds for the example node and the step is a new election -/
example : (exNode 1).role = .candidate → (exNode 1).term ≠ 0 := by decide
example : ((exNode 1).step .timeout [] []).role = .candidate ∧ ((exNode 1).step .timeout [] []).term = 1 ∧
    ((exNode 1).step .timeout [] []).votedFor = 1 ∧ ((exNode 1).step .timeout [] []).votesNeeded = 1 := by decide

set_option maxRecDepth 100000 in
/-- example: `ex2` is reachable with membership `[1, 2, 3]` — the hypotheses of
`election_safety_sys_partial` hold for a state with a candidate and a non-empty ledger -/
example : [1, 2, 3].Nodup ∧ ReachableV [1, 2, 3] ex2 := by
  have f0 : FixedV [1, 2, 3] ex0 := fun i => ⟨rfl, rfl⟩
  have i0 : Init ex0 := ⟨fun i => ⟨rfl, ⟨rfl, rfl⟩, rfl⟩, rfl, rfl, rfl⟩
  have f1 : FixedV [1, 2, 3] ex1 := by
    intro i
    by_cases h : i = 1
    · subst h; decide
    · show (setNode exNode 1 _ i).configs.isBootstrapped = true ∧ (setNode exNode 1 _ i).configs.latest.voters = _
      rw [setNode_other _ _ _ _ h]; exact ⟨rfl, rfl⟩
  have f2 : FixedV [1, 2, 3] ex2 := by
    intro i
    by_cases h : i = 2
    · subst h; decide
    · show (setNode ex1.node 2 _ i).configs.isBootstrapped = true ∧ (setNode ex1.node 2 _ i).configs.latest.voters = _
      rw [setNode_other _ _ _ _ h]; exact f1 i
  refine ⟨by decide, .next ex1 ex2 (.next ex0 ex1 (.init ex0 i0 f0) ?_ f1) ?_ f2⟩
  · exact .step 1 .timeout [] [] 0 (by decide) (fun q h => by cases h) (fun ⟨_, _, _, h⟩ => by cases h)
  · exact .step 2 (.vote { term := 1, src := 1 }) [] [] 0 (by decide)
      (fun q h => by injection h with h; subst h; decide) (fun ⟨_, _, _, h⟩ => by cases h)

set_option maxRecDepth 100000 in
/-- example: in `ex2` node 1 is candidate of term 1, needs one more vote, and the ledger holds its self vote
and the grant of node 2 -/
example : (ex2.node 1).role = .candidate ∧ (ex2.node 1).term = 1 ∧ (ex2.node 1).votesNeeded = 1 ∧
    ex2.grants = [{ voter := 2, term := 1, cand := 1 }, { voter := 1, term := 1, cand := 1 }] := by decide

set_option maxRecDepth 100000 in
/-- example: the response of node 2 is a real reply, so the transition in which node 1 counts it (and
becomes leader) is enabled -/
example : Trans ex2 ex3 := by
  refine .step 1 (.voteResult false 1 rSuccess) [] [] 2 (by decide) (fun q h => by cases h) (fun _ => ?_)
  unfold RealReply
  decide

-- evaluation (test, not proof) of the state after that transition: node 1 is leader of term 1 without a
-- panic, membership unchanged, and the ledgers are as expected
#guard (ex3.node 1).role == .leader && (ex3.node 1).term == 1 && (ex3.node 1).panicked.isNone
#guard (ex3.node 1).configs.latest.voters == [1, 2, 3] && (ex3.node 1).configs.isBootstrapped
#guard ex3.won == [(1, 1)] && ex3.counted == [(1, 1, 2)]

end C01Sys
end Raft

#print axioms Raft.Node.role_step
#print axioms Raft.C01Sys.inv_reachable
#print axioms Raft.C01Sys.election_safety_sys_partial
#print axioms Raft.C01Sys.election_safety_ever_partial -- also C16
#print axioms Raft.C01Sys.leader_backed_partial
