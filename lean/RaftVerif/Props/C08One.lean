/-
C08 / C15-Once — membership changes THROUGH single-voter configurations (quorum 1), node level.

A leader that is the only voter commits every entry the moment it is stored, INSIDE `leader.storeEntry`
(`majorityMatchIndex`'s fast path `numVoters == 1 && node.Voter`); `onMajorityCommit → setCommitIndex → commitConfig →
checkConfigActions` re-enters the configuration machinery and may store the NEXT configuration entry within the same
step: several configuration entries per step, stored by NESTED calls, while the loops of the callers
(`checkConfigActions` iterating over `l.repls` with the configuration it was called with, e.g. the one submitted by the
client) go on afterwards with a STALE configuration. This is the real bootstrap path (a cluster is started as a single
voter and grown by AddNonvoter + promotion). `C08Step.config_step` claims adjacency only for the FIRST configuration of a
step, `C15Tasks.task_step_partial` ASSUMES `Once` for it. Here both restrictions are removed.

Lemmas/MemberOneA–C.lean: `One.block` — by induction on the recursion budget, for every handler of the mutually recursive
leader block: after a nested change either the step has failed, or the latest configuration is not committed (`Blocked`:
no change can start), or every replication is `Settled` (no action; a removal waiting for the follower; a promotion whose
round is in progress) and the caller's stale configuration AGREES with the latest one on every node that still has a
replication (`Agr`) — so the caller's loop does not act a second time: ONE action per loop, everything else is done by
nested calls working on the latest configuration.

* `step_chain_partial` — for a leader state with `Start` (caches, `latest.index ≤ lastLogIndex`, an anchor: all part of
  `NoPanic.Good`) and the operations by which a leader stores entries (`LeaderOp`): the entries `ext` appended within the
  step form a `Chain1`: EVERY configuration entry among them — nested or not, any number per step — is `Link`ed to the
  configuration before it: the voting rights differ at one node at most, it has a voter and keeps an anchor, and at the
  moment it was stored `canChangeConfig` held (predecessor committed, no transfer, an own-term entry committed) and the
  leader's own entry was a voter. `chain_links`: read as a list of configurations.
* `task_step_one`, `task_run_one`, `task_run_shutdown_one` — `C15Tasks.task_step` / `task_run` / `task_run_shutdown` from
  `NoPanic.Good T` for ANY `T` (one stable voter suffices) with NO assumption on ChangeConfig requests (`CCOk` / `Once` are
  gone): every task is answered at most once, answered or pending, never lost; after `Shutdown` exactly once.
  `once_of_start`: `Once` itself, from `Start` + `TL.Hs` + distinct member ids.
* examples: a two-voter leader whose follower acknowledges the pending configuration: ONE step commits it, demotes the
  follower (entry 4, committed at once: the leader is now the only voter) and force-removes a non-voter (entry 5, nested
  inside the commit of entry 4); a single-voter leader handling a ChangeConfig request with two removals (`#guard`).
FINDING (model, not Go): the recursion budget `fuelFor` is too small for more than 10 nested changes (see the last section).
No counterexample in the Go behaviour was found: neither by the proof nor by a randomised search (80 000 runs of 12 steps from a bootstrapped
single voter: ChangeConfig requests with random actions, match-index reports, aged rounds, random iteration orders).
-/
import RaftVerif.Lemmas.MemberOneC
import RaftVerif.Props.C15Tasks
import RaftVerif.Props.C08Step
import RaftVerif.Lemmas.QuorumRel

namespace Raft
namespace C08One
open Node CfgRel Raft.One

/-! ### the start state -/

/-- what the analysis of a leader's handlers needs of the state the step starts from: the leader's caches describe the
latest configuration (`LC.Cache`), the latest configuration is in the log and has an anchor (or is empty) -/
structure Start (s : Node) : Prop where
  cache : LC.Cache s
  li : s.configs.latest.index ≤ s.lastLogIndex
  anch : AnchC s.configs.latest

theorem v_begin {s : Node} (h : Start s) (ra : List Nat) (ord : List (List Nat)) : V (s.begin ra ord) (s.begin ra ord) :=
  ⟨h.cache.congr rfl, h.li, h.anch, rfl, fun _ => LogChain.refl _⟩

/-- `Start` holds in every `NoPanic.Good` state of an open leader -/
theorem start_of_good {T : Bool} {s : Node} (hG : NoPanic.Good T s) (ho : s.closed = "") (hl : s.role = .leader) : Start s := by
  refine ⟨(hG.leader ho hl).2, hG.ordered.latest_le_last, ?_⟩
  by_cases hn : s.configs.latest.nodes = []
  · exact Or.inl hn
  · exact Or.inr (C08Step.hasAnchor_of_anchored (hG.glob.cfgL.2 hn).1)

theorem nodup_of_sorted {c : Config} (h : c.nodes.Pairwise (fun a b => a.id < b.id)) : (c.nodes.map (·.id)).Nodup := by
  rw [List.Nodup, List.pairwise_map]
  exact h.imp (fun hab => Nat.ne_of_lt hab)

/-! ### the configuration entries of one step -/

/-- the operations by which a leader stores log entries -/
inductive LeaderOp : Op → Prop
  | newEntries (b : List QItem) : LeaderOp (.newEntries b)
  | changeConfig (task : Nat) (c : Config) : LeaderOp (.changeConfig task c)
  | replUpdates (us : List ReplUpdate) : LeaderOp (.replUpdates us)
  | transferTimeout : LeaderOp .transferTimeout
  | timeoutNowResult (src : Nat) (err : Bool) (result : Nat) : LeaderOp (.timeoutNowResult src err result)

theorem handle_G (s₀ x : Node) (op : Op) (hV : V s₀ x) (hl : x.role = .leader) (hok : OpOk op) (hop : LeaderOp op)
    (hsr : ∀ task c, op = .changeConfig task c → Srt x.configs.latest → Srt c) :
    G s₀ x (x.handle op) ∧ NC (x.handle op) := by
  have hnc : NC x := by unfold NC; rw [hl]; exact fun e => by cases e
  cases hop with
  | newEntries b =>
    unfold Node.handle
    dsimp only
    rw [if_pos hl]
    exact ⟨(block s₀ 1 (by omega) _).1.1 x b hV hok, (LC.notCandidate_closed.block _).1 _ _ hnc⟩
  | changeConfig task c =>
    unfold Node.handle
    dsimp only
    rw [if_pos hl]
    exact ⟨(onChangeConfig_one s₀ 1 (by omega) x task c hV hok (hsr task c rfl)).1, nc_onChangeConfig hnc _ _⟩
  | replUpdates us =>
    unfold Node.handle
    dsimp only
    rw [if_pos hl]
    exact ⟨checkReplUpdates_G s₀ x us hV, nc_checkReplUpdates hnc _⟩
  | transferTimeout =>
    unfold Node.handle
    dsimp only
    split
    · exact ⟨replyTransfer_G s₀ x _ hV, nc_replyTransfer hnc _⟩
    · exact ⟨G.refl hV, hnc⟩
  | timeoutNowResult src err result =>
    unfold Node.handle
    dsimp only
    split
    · exact ⟨onTimeoutNowResult_G s₀ x src err result hV, nc_onTimeoutNowResult hnc _ _ _⟩
    · exact ⟨G.refl hV, hnc⟩

/-- **step_chain_partial — the configuration entries of one step, through single-voter configurations.**  For a leader
in a state with `Start` (part of `NoPanic.Good`: `start_of_good`) handling `newEntries` (without configuration items),
`changeConfig` (distinct member ids — strictly increasing if those of the latest configuration are: `hsr`, needed only for
`Link.srt`), `replUpdates`, `transferTimeout` or `timeoutNowResult` — with any oracle, any input,
if the step does not fail: there is a list `ext` of log entries — the entries appended within the step, in this order: the
log afterwards is (a suffix, after compaction, of) the old log followed by `ext` — such that EVERY configuration entry of
`ext`, however many there are and however deeply nested the call that stored it, is `Link`ed to the configuration before
it (the first to `s.configs.latest`, the last is `s'.configs.latest`): their voting rights differ at ONE node at most, the
new one has a voter and keeps a voter without pending action, and at the moment it was stored — `y` is the node's state
right then — its predecessor was committed, no transfer was in progress, an entry of the leader's own term was committed
(`y.canChangeConfig`), the leader's own entry was a voter, and it is the next log entry, of the leader's term.
(`C08OneSys.step_chain_any_partial` extends this to every role and every operation other than append / install requests.)
PARTIAL: the other operations (requests from peers, timers, elections, snapshots, `waitStable`, `transfer`, `shutdown`)
store no entry as leader unless the node is RE-elected inside the step (`leader.init`: `leaderInit_chain`, not wired into
`Node.step` here); steps that fail (only the model's recursion budget can, from
`NoPanic.Good`) are excluded. -/
theorem step_chain_partial (s : Node) (op : Op) (ra : List Nat) (ord : List (List Nat)) (hS : Start s)
    (hl : s.role = .leader) (hok : OpOk op) (hop : LeaderOp op)
    (hsr : ∀ task c, op = .changeConfig task c → Srt s.configs.latest → Srt c)
    (hp : (s.step op ra ord).panicked = none) :
    LogChain s (s.step op ra ord) := by
  have hne : op ≠ .shutdown := by intro e; rw [e] at hop; cases hop
  rw [TL.step_eq_settle s op ra ord hne] at hp ⊢
  obtain ⟨g, hnc⟩ := handle_G (s.begin ra ord) (s.begin ra ord) op (v_begin hS ra ord) hl hok hop
    (fun task c e hs => by
      have := (hok : OpOk op)
      exact hsr task c e hs)
  generalize (s.begin ra ord).handle op = h at *
  rw [hl] at hp ⊢
  have fin : h.panicked = none → LogChain (s.begin ra ord) h := by
    intro hh
    rcases g.2 with g2 | ⟨g2, _⟩
    · exact absurd hh g2
    · exact g2.chain hh
  cases hr : h.role with
  | leader =>
    have e : settle 6 h .leader = h := by rw [← hr]; exact Node.settle_same 6 h
    rw [e] at hp ⊢
    exact fin hp
  | follower =>
    have q := settle_follower_q 6 h .leader hr
    obtain ⟨k, ext, e0, e1, e2⟩ := fin (q.pan' hp)
    exact ⟨k, ext, e0, by rw [q.entries]; exact e1, by rw [q.configs]; exact e2⟩
  | candidate => exact absurd hr hnc

/-- **leaderInit_chain — `leader.init`** (what a node runs when it has won an election, in the same step; nothing is assumed
of its stale `Leader` record): if `latest.index ≤ lastLogIndex` and the latest configuration has an anchor (or is empty), the
entries it appends — the no-op entry of its term and, for a leader that is the only voter, the configuration changes that
the commit of that entry sets off at once (pending removals / promotions: `leader.setCommitIndex → checkConfigActions`),
nested as deep as they go — form a `Chain1` from the latest configuration. -/
theorem leaderInit_chain (s : Node) (hli : s.configs.latest.index ≤ s.lastLogIndex) (hanch : AnchC s.configs.latest)
    (hp : s.leaderInit.panicked = none) : LogChain s s.leaderInit := by
  rcases (leaderInit_G s s (PW.refl s hli hanch)).2 with h | ⟨h, _⟩
  · exact absurd hp h
  · exact h.chain hp

/-- the configurations of a list of entries -/
def cfgsOf (es : List Entry) : List Config := es.filterMap (·.config?)

/-- consecutive configurations are `Link`ed -/
def Links : Config → List Config → Prop
  | _, [] => True
  | c, c' :: cs => Link c c' ∧ Links c' cs

/-- the last configuration of a list, `c` if it is empty -/
def lastOr : Config → List Config → Config
  | c, [] => c
  | _, c' :: cs => lastOr c' cs

theorem links_snoc {cs : List Config} : ∀ {c₀ c c' : Config}, Links c₀ cs → lastOr c₀ cs = c → Link c c' →
    Links c₀ (cs ++ [c']) ∧ lastOr c₀ (cs ++ [c']) = c' := by
  induction cs with
  | nil => intro c₀ c c' _ hl hk; subst hl; exact ⟨⟨hk, trivial⟩, rfl⟩
  | cons a as ih =>
    intro c₀ c c' h hl hk
    obtain ⟨h1, h2⟩ := ih h.2 hl hk
    exact ⟨⟨h.1, h1⟩, h2⟩

/-- **reading a `Chain1`**: the configurations among the appended entries, in order, are linked one to the next, starting
from the old latest configuration and ending with the new one -/
theorem chain_links {c₀ c : Config} {es : List Entry} (h : Chain1 c₀ es c) :
    Links c₀ (cfgsOf es) ∧ lastOr c₀ (cfgsOf es) = c := by
  induction h with
  | nil => exact ⟨trivial, rfl⟩
  | @plain _ es' e _ ht ih =>
    have : cfgsOf (es' ++ [e]) = cfgsOf es' := by
      unfold cfgsOf
      rw [List.filterMap_append]
      have : e.config? = none := by unfold Entry.config?; rw [if_neg ht]
      simp [this]
    rw [this]; exact ih
  | @cfg _ es' e c' _ hc hk ih =>
    have : cfgsOf (es' ++ [e]) = cfgsOf es' ++ [c'] := by
      unfold cfgsOf
      rw [List.filterMap_append]
      simp [hc]
    rw [this]
    exact links_snoc ih.1 ih.2 hk

/-! ### every task is answered at most once — no assumption on ChangeConfig requests -/

open C15Tasks in
/-- what is asked of the state when a leader handles a ChangeConfig request: `Start`, `TL.Hs` (a leader whose latest
configuration is committed is a voter by its cached own entry; the latest configuration is in the log) — both hold in every
`NoPanic.Good` state — and strictly increasing member ids in the request (`Config.Nodes` is a Go map keyed by id: `Srt`). (Vacuous for every other operation.) -/
def OneOK (s : Node) (op : Op) : Prop :=
  ∀ task c, op = .changeConfig task c → s.role = .leader → Start s ∧ TL.Hs s ∧ Srt c

/-- **the ledger through one step, exact count, through single-voter configurations**: unless the step failed, the
occurrences of `t` among the answers and the pending places afterwards are exactly those pending before plus those
submitted — for EVERY operation, a ChangeConfig request with any actions and any number of voters included. -/
theorem step_rel_one (t : Nat) (ht : t ≠ 0) (s : Node) (op : Op) (ra : List Nat) (ord : List (List Nat))
    (ho : TL.OK s) (hq : s.role ≠ .leader → TL.Quiet s) (hcc : OneOK s op)
    (hp : (s.step op ra ord).panicked = none) :
    TL.led t (s.step op ra ord) = TL.pendCount t s + (TL.submittedRaw op).count t := by
  have := (TL.step_rel_m t ht s op ra ord ho hq 0 (fun task c e hl => by
    obtain ⟨a, b, d⟩ := hcc task c e hl
    have hs : Hs (s.begin ra ord) := fun hc => b.1 (TL.isCommitted_of_canChange hc)
    exact ((onChangeConfig_one (s.begin ra ord) t ht (s.begin ra ord) task c (v_begin a ra ord) (nodup_of_sorted d)
      (fun _ => d)).2 hs).cast
      (by omega))).2.2 hp
  rw [this]; omega

/-- **`Once` is a theorem**: the task of a ChangeConfig request handled by a leader — with promote / demote / remove
actions, in a cluster with ONE stable voter, where the changes it starts are committed at once and nest — occurs at most
once afterwards: it is answered once, or attached to exactly one configuration entry (the other entries of the step are
stored for the null task). -/
theorem once_of_start (s : Node) (op : Op) (ra : List Nat) (ord : List (List Nat)) (hT : C15Tasks.TasksOK s)
    (hF : C15Tasks.Fresh s op) (hp : (s.step op ra ord).panicked = none) (h : OneOK s op) :
    C15Tasks.Once s op (s.step op ra ord) := by
  intro task c e hl h0
  subst e
  have hfr : task ∉ C15Tasks.pending s := hF.2 task (by unfold C15Tasks.submitted TL.submittedRaw; simp [h0])
  rw [C15Tasks.count_after _ _ h0, step_rel_one task h0 s _ ra ord hT.ok hT.quiet h hp,
    ← C15Tasks.count_pending _ _ h0, List.count_eq_zero.mpr hfr]
  show 0 + [task].count task ≤ 1
  rw [TL.count_singleton']
  unfold TL.ind; simp

theorem oneOK_of_good {T : Bool} (s : Node) (op : Op) (hG : NoPanic.Good T s) (hopen : s.closed = "")
    (hr : NoPanic.ReqOk' T s op) : OneOK s op := by
  intro task c e hl
  subst e
  exact ⟨start_of_good hG hopen hl, C15Tasks.hs_of_good s hG hopen hl, hr.1.1⟩

/-- **task_step_one — one step of a node in a `NoPanic.Good` state, ANY operation, one stable voter suffices.**  With
`s' = s.step op …` (any oracle, any input), from `Good T s` (any `T`: `Good false` asks for ONE voter without pending action),
an open node, an acceptable operation (`ReqOk' T`), fresh task ids, the model's recursion budget not exhausted:
(c) `submitted op ++ pending s` is a permutation of `answered s' ++ pending s'`: every task that was submitted or pending is
    afterwards EITHER answered OR pending — never both, never lost, and nothing else is;
(a) every answer of the step (with a non-zero id) is for a task that was pending or is submitted by `op`;
(b) no id is answered twice within the step; an answered id is not pending afterwards;
(d) `TasksOK s'` and `Good T s'`.
NO assumption on ChangeConfig requests: `C15Tasks.task_step`'s `CCOk` and `task_step_partial`'s `Once` are gone. -/
theorem task_step_one {T : Bool} (s : Node) (op : Op) (ra : List Nat) (ord : List (List Nat))
    (hG : NoPanic.Good T s) (hopen : s.closed = "") (hr : NoPanic.ReqOk' T s op)
    (hf : (s.step op ra ord).panicked ≠ some "fuel") (hT : C15Tasks.TasksOK s) (hF : C15Tasks.Fresh s op) :
    (C15Tasks.submitted op ++ C15Tasks.pending s).Perm
      (C15Tasks.answered (s.step op ra ord) ++ C15Tasks.pending (s.step op ra ord)) ∧
    (∀ r ∈ (s.step op ra ord).replies, r.task ≠ 0 → r.task ∈ C15Tasks.submitted op ++ C15Tasks.pending s) ∧
    (C15Tasks.answered (s.step op ra ord)).Nodup ∧
    (∀ t ∈ C15Tasks.answered (s.step op ra ord), t ∉ C15Tasks.pending (s.step op ra ord)) ∧
    C15Tasks.TasksOK (s.step op ra ord) ∧ NoPanic.Good T (s.step op ra ord) := by
  have hp := C15NoPanic.good_step_noPanic s op ra ord hG hopen hr hf
  obtain ⟨a, b, c, d, e⟩ := C15Tasks.task_step_partial s op ra ord hT hF hp
    (once_of_start s op ra ord hT hF hp (oneOK_of_good s op hG hopen hr))
  exact ⟨a, b, c, d, e, C15NoPanic.good_step s op ra ord hG hopen hr hf⟩

/-- the run conditions: every operation is handled by an open node, is acceptable (`ReqOk' T`), and the model's recursion
budget is not exhausted — nothing else (compare `C15Tasks.RunGood`: no `CCOk`) -/
def RunGood1 (T : Bool) : Node → List C15Tasks.Ev → Prop
  | _, [] => True
  | s, e :: es =>
    s.closed = "" ∧ NoPanic.ReqOk' T s e.1 ∧ (s.step e.1 e.2.1 e.2.2).panicked ≠ some "fuel" ∧
    RunGood1 T (s.step e.1 e.2.1 e.2.2) es

theorem runOK_of_good1 {T : Bool} (evs : List C15Tasks.Ev) : ∀ (s : Node), NoPanic.Good T s → C15Tasks.TasksOK s →
    (C15Tasks.submittedRun evs).Nodup → (∀ t ∈ C15Tasks.submittedRun evs, t ∉ C15Tasks.pending s) → RunGood1 T s evs →
    C15Tasks.RunOK s evs ∧ NoPanic.Good T (C19Order.run s evs) := by
  induction evs with
  | nil => intro s hG _ _ _ _; exact ⟨trivial, hG⟩
  | cons e es ih =>
    intro s hG hT hnd hfr hr
    obtain ⟨h1, h2, h3, h4⟩ := hr
    have hnd' : (C15Tasks.submitted e.1 ++ C15Tasks.submittedRun es).Nodup := hnd
    obtain ⟨n1, n2, n3⟩ := List.nodup_append.mp hnd'
    have hF : C15Tasks.Fresh s e.1 := ⟨n1, fun t ht => hfr t (List.mem_append_left _ ht)⟩
    obtain ⟨p1, _, _, _, hT1, hG1⟩ := task_step_one s e.1 e.2.1 e.2.2 hG h1 h2 h3 hT hF
    have hp := C15NoPanic.good_step_noPanic s e.1 e.2.1 e.2.2 hG h1 h2 h3
    have hfr1 : ∀ t ∈ C15Tasks.submittedRun es, t ∉ C15Tasks.pending (s.step e.1 e.2.1 e.2.2) := by
      intro t ht hpd
      have : t ∈ C15Tasks.submitted e.1 ++ C15Tasks.pending s := p1.mem_iff.mpr (List.mem_append_right _ hpd)
      rcases List.mem_append.mp this with h | h
      · exact n3 t h t ht rfl
      · exact hfr t (List.mem_append_right _ ht) h
    obtain ⟨r1, r2⟩ := ih _ hG1 hT1 n2 hfr1 h4
    exact ⟨⟨hp, Or.inr (once_of_start s e.1 e.2.1 e.2.2 hT hF hp (oneOK_of_good s e.1 hG h1 h2)), r1⟩, r2⟩

/-- **task_run_one — any run of a node from a `NoPanic.Good` state, one stable voter suffices**: over ANY list of operations
(any oracles) handled by an open node, each `ReqOk' T`, the model's budget never exhausted, fresh task ids:
`submittedRun ++ pending s ~ answeredRun ++ pending (final)`: every task submitted during the run (or pending at its start)
has been answered AT MOST ONCE and is EITHER answered OR still pending at the end; `TasksOK` and `Good T` hold at the end. -/
theorem task_run_one {T : Bool} (s : Node) (evs : List C15Tasks.Ev) (hG : NoPanic.Good T s) (hT : C15Tasks.TasksOK s)
    (hnd : (C15Tasks.submittedRun evs).Nodup) (hfr : ∀ t ∈ C15Tasks.submittedRun evs, t ∉ C15Tasks.pending s)
    (hr : RunGood1 T s evs) :
    (C15Tasks.submittedRun evs ++ C15Tasks.pending s).Perm
      (C15Tasks.answeredRun s evs ++ C15Tasks.pending (C19Order.run s evs)) ∧
    C15Tasks.TasksOK (C19Order.run s evs) ∧ (C15Tasks.answeredRun s evs).Nodup ∧
    (∀ t ∈ C15Tasks.answeredRun s evs, t ∉ C15Tasks.pending (C19Order.run s evs)) ∧
    NoPanic.Good T (C19Order.run s evs) := by
  obtain ⟨r1, r2⟩ := runOK_of_good1 evs s hG hT hnd hfr hr
  obtain ⟨a, b, c, d⟩ := C15Tasks.task_run_partial s evs hT hnd hfr r1
  exact ⟨a, b, c, d, r2⟩

/-- **task_run_shutdown_one — … and after `Shutdown` every task has been answered EXACTLY ONCE**: the tasks submitted during
the run or pending at its start are, as a multiset, exactly the tasks answered during the run or by the shutdown step;
nothing is left pending. -/
theorem task_run_shutdown_one {T : Bool} (s : Node) (evs : List C15Tasks.Ev) (ra : List Nat) (ord : List (List Nat))
    (hG : NoPanic.Good T s) (hT : C15Tasks.TasksOK s)
    (hnd : (C15Tasks.submittedRun evs).Nodup) (hfr : ∀ t ∈ C15Tasks.submittedRun evs, t ∉ C15Tasks.pending s)
    (hr : RunGood1 T s evs) :
    (C15Tasks.submittedRun evs ++ C15Tasks.pending s).Perm
      (C15Tasks.answeredRun s evs ++ C15Tasks.answered ((C19Order.run s evs).step .shutdown ra ord)) ∧
    C15Tasks.pending ((C19Order.run s evs).step .shutdown ra ord) = [] ∧
    (C15Tasks.answeredRun s evs ++ C15Tasks.answered ((C19Order.run s evs).step .shutdown ra ord)).Nodup := by
  obtain ⟨r1, r2⟩ := runOK_of_good1 evs s hG hT hnd hfr hr
  exact C15Tasks.task_run_shutdown_partial s evs ra ord hT hnd hfr r1 (C15NoPanic.shutdown_good _ ra ord r2).1

/-! ### examples -/

/-- EXAMPLE state: node 1 leads {1 voter, 2 voter, 3 non-voter}; the latest configuration (entry 3, not yet committed)
asks to demote 2 and to force-remove 3; the follower 2 has acknowledged entry 2 so far -/
def exN : Node :=
  let n1 : CNode := { id := 1, addr := "a:1", voter := true }
  let n2 : CNode := { id := 2, addr := "b:1", voter := true }
  let n3 : CNode := { id := 3, addr := "c:1", voter := false }
  let c1 : Config := { nodes := [n1, n2, n3], index := 1, term := 1 }
  let c3 : Config := { nodes := [n1, { n2 with action := actDemote }, { n3 with action := actForceRemove }], index := 3, term := 1 }
  { nid := 1, cid := 7, term := 1, durTerm := 1, role := .leader, leader := 1,
    log := { entries := [c1.toEntry, { index := 2, term := 1, typ := etNop }, c3.toEntry], flushed := 3 },
    lastLogIndex := 3, lastLogTerm := 1, commitIndex := 2, fsm := { index := 2, term := 1, config := c1 },
    configs := { committed := c1, latest := c3 },
    ldr := { node := n1, numVoters := 2, startIndex := 2,
             queue := [{ index := 3, term := 1, typ := etConfig, cfg := some c3.payload, task := 9 }],
             repls := [{ id := 2, node := { n2 with action := actDemote }, matchIndex := 2 },
                       { id := 3, node := { n3 with action := actForceRemove }, matchIndex := 2 }] } }

/-- the follower 2 acknowledges entry 3 -/
def exAck : Op := .replUpdates [{ id := 2, upd := .matchIndex 3 }]

theorem exN_start : Start exN :=
  ⟨(C06Cache.cacheOK_iff _).mp ⟨by decide, by decide, by decide, by decide, by decide⟩, by decide,
    Or.inr ⟨1, { id := 1, addr := "a:1", voter := true }, by decide, rfl, rfl⟩⟩

/-- EXAMPLE (the hypotheses of `step_chain_partial` are satisfiable, by the interesting case): ONE step — the acknowledgement
of entry 3 — commits the pending configuration, demotes node 2 (entry 4: the leader is now the ONLY voter, so entry 4 is
committed inside `storeEntry`) and, nested inside the commit of entry 4, force-removes node 3 (entry 5, committed at once
as well): two configuration entries in one step, the second stored three calls deep; the task 9 of entry 3 is answered.
(The outcome is checked by running the model — `#guard` below: the kernel cannot evaluate `List.mergeSort` in
`majorityMatchIndex`.) -/
example : Start exN ∧ exN.role = .leader ∧ OpOk exAck ∧ LeaderOp exAck :=
  ⟨exN_start, rfl, trivial, .replUpdates _⟩

#guard (exN.step exAck [] []).panicked = none
#guard (exN.step exAck [] []).lastLogIndex = 5
#guard (exN.step exAck [] []).commitIndex = 5
#guard (cfgsOf ((exN.step exAck [] []).log.entries.drop 3)).map (fun c => (c.index, c.nodes.map (fun n => (n.id, n.voter, n.action)))) =
      [(4, [(1, true, 0), (2, false, 0), (3, false, 4)]), (5, [(1, true, 0), (2, false, 0)])]
#guard C15Tasks.answered (exN.step exAck [] []) = [9]

/-- EXAMPLE state: a single-voter leader with two caught-up non-voters -/
def exS : Node :=
  let n1 : CNode := { id := 1, addr := "a:1", voter := true }
  let n2 : CNode := { id := 2, addr := "b:1", voter := false }
  let n3 : CNode := { id := 3, addr := "c:1", voter := false }
  let c : Config := { nodes := [n1, n2, n3], index := 1, term := 1 }
  { nid := 1, cid := 7, term := 1, durTerm := 1, role := .leader, leader := 1,
    log := { entries := [c.toEntry, { index := 2, term := 1, typ := etNop }], flushed := 2 },
    lastLogIndex := 2, lastLogTerm := 1, commitIndex := 2, fsm := { index := 2, term := 1, config := c },
    configs := { committed := c, latest := c },
    ldr := { node := n1, numVoters := 1, startIndex := 2,
             repls := [{ id := 2, node := n2, matchIndex := 2 }, { id := 3, node := n3, matchIndex := 2 }] } }

/-- the request: remove node 2 (caught up: the removal proceeds at once) and force-remove node 3 -/
def exReq : Config :=
  { nodes := [{ id := 1, addr := "a:1", voter := true }, { id := 2, addr := "b:1", voter := false, action := actRemove },
              { id := 3, addr := "c:1", voter := false, action := actForceRemove }], index := 1, term := 1 }

/-- EXAMPLE (`step_chain_partial` applied, every hypothesis checked by the kernel): the single-voter leader `exS` stores an
update and commits it at once (fast path) -/
example : LogChain exS (exS.step (.newEntries [{ typ := etUpdate, data := "y", task := 7 }]) [] []) :=
  step_chain_partial exS _ [] []
    ⟨(C06Cache.cacheOK_iff _).mp ⟨by decide, by decide, by decide, by decide, by decide⟩, by decide,
      Or.inr ⟨1, { id := 1, addr := "a:1", voter := true }, by decide, rfl, rfl⟩⟩
    rfl (fun q hq => by rw [List.mem_singleton.mp hq]; decide) (.newEntries _) (fun _ _ e => by cases e)
    (by decide +kernel)

theorem exS_good : NoPanic.Good false exS :=
  ⟨rfl,
   ⟨⟨by decide, by decide, by decide, by decide, by decide, by decide, ⟨by decide, by decide, by decide⟩, by decide,
     fun rs h => by cases h⟩, by decide⟩,
   ⟨by decide, by decide, by decide, by decide, by decide, by decide⟩,
   fun _ _ => ⟨⟨by decide, ⟨3, by decide, rfl⟩, by decide, by decide, by decide, by decide, by decide, by decide,
     by decide⟩, (C06Cache.cacheOK_iff _).mp ⟨by decide, by decide, by decide, by decide, by decide⟩⟩⟩

/-- EXAMPLE (the hypotheses of `task_step_one` are satisfiable by the case that `C15Tasks.task_step` excludes): a
ChangeConfig request WITH actions handled by a leader that is the ONLY voter (`Good false`, `ReqOk' false`; neither `NoAct`
nor the two-anchor condition `UserCfg true` holds). The budget hypothesis and the outcome are checked by running the model
(`#guard` below: the kernel cannot evaluate the address validation of `Config.validate`). -/
example : NoPanic.Good false exS ∧ exS.closed = "" ∧ NoPanic.ReqOk' false exS (.changeConfig 7 exReq) ∧
    C15Tasks.TasksOK exS ∧ C15Tasks.Fresh exS (.changeConfig 7 exReq) ∧ ¬ C15Tasks.NoAct exS (.changeConfig 7 exReq) ∧
    ¬ NoPanic.UserCfg true exS.nid exReq :=
  ⟨exS_good, rfl, by decide, by decide, by decide, by decide, by decide⟩

-- the step does not fail; the removal of node 2 is stored as entry 3 WITH the task 7 and committed at once; nested inside
-- that commit, the removal of node 3 is stored as entry 4 for the null task; the loop of `checkConfigActions` over the
-- SUBMITTED configuration then reaches node 3, whose replication is gone: task 7 is answered exactly once
#guard (exS.step (.changeConfig 7 exReq) [] []).panicked = none
#guard (exS.step (.changeConfig 7 exReq) [] []).lastLogIndex = 4
#guard (exS.step (.changeConfig 7 exReq) [] []).commitIndex = 4
#guard C15Tasks.answered (exS.step (.changeConfig 7 exReq) [] []) = [7]
#guard C15Tasks.pending (exS.step (.changeConfig 7 exReq) [] []) = []
#guard (cfgsOf ((exS.step (.changeConfig 7 exReq) [] []).log.entries.drop 2)).map (fun c => c.nodes.map (·.id)) = [[1, 3], [1]]
-- the other iteration order: node 3 first (entry 3, task 7, committed at once); the removal of node 2 — in the nested call as
-- well as in the caller's loop over the submitted configuration — now has to wait until node 2 has caught up with entry 3
#guard C15Tasks.answered (exS.step (.changeConfig 7 exReq) [] [[3, 2], [3, 2], [3, 2]]) = [7]
#guard (cfgsOf ((exS.step (.changeConfig 7 exReq) [] [[3, 2], [3, 2], [3, 2]]).log.entries.drop 2)).map (fun c => c.nodes.map (·.id)) = [[1, 2]]

/-- EXAMPLE state: a node that has just won an election (the only voter; its `Leader` record is stale / empty); the latest
configuration, committed, still asks to force-remove node 3 (the previous leader did not get to it) -/
def exI : Node :=
  let n1 : CNode := { id := 1, addr := "a:1", voter := true }
  let n2 : CNode := { id := 2, addr := "b:1", voter := false }
  let n3 : CNode := { id := 3, addr := "c:1", voter := false, action := actForceRemove }
  let c : Config := { nodes := [n1, n2, n3], index := 1, term := 1 }
  { nid := 1, cid := 7, term := 2, durTerm := 2, votedFor := 1, durVote := 1, role := .leader, leader := 1,
    log := { entries := [c.toEntry, { index := 2, term := 1, typ := etNop }], flushed := 2 },
    lastLogIndex := 2, lastLogTerm := 1, commitIndex := 2, fsm := { index := 2, term := 1, config := c },
    configs := { committed := c, latest := c } }

/-- EXAMPLE (`leaderInit_chain` applied, every hypothesis checked by the kernel): `leader.init` stores the no-op entry 3,
commits it alone, and — inside that commit — force-removes node 3 (configuration entry 4, committed at once) -/
example : LogChain exI exI.leaderInit ∧ exI.leaderInit.lastLogIndex = 4 ∧ exI.leaderInit.commitIndex = 4 ∧
    (cfgsOf (exI.leaderInit.log.entries.drop 2)).map (fun c => (c.index, c.nodes.map (·.id))) = [(4, [1, 2])] :=
  ⟨leaderInit_chain exI (by decide) (Or.inr ⟨1, { id := 1, addr := "a:1", voter := true }, by decide, rfl, rfl⟩)
    (by decide +kernel), by decide +kernel, by decide +kernel, by decide +kernel⟩

/-- EXAMPLE (the hypotheses of `task_run_one` / `task_run_shutdown_one` are satisfiable): on the single-voter leader `exS`
an update (task 7) and a read (task 8) are submitted, then `Shutdown` -/
example :
    let evs : List C15Tasks.Ev := [(.newEntries [{ typ := etUpdate, data := "y", task := 7 }, { typ := etRead, task := 8 }], [], [])]
    NoPanic.Good false exS ∧ C15Tasks.TasksOK exS ∧ (C15Tasks.submittedRun evs).Nodup ∧
    (∀ t ∈ C15Tasks.submittedRun evs, t ∉ C15Tasks.pending exS) ∧ RunGood1 false exS evs :=
  ⟨exS_good, by decide, by decide, by decide, ⟨rfl, by decide, by decide +kernel, trivial⟩⟩

/-! ### FINDING (about the MODEL, not the Go code): the recursion budget and quorum 1

`Node.fuelFor` gives the mutually recursive leader block a budget of `64 + 4 * batch` nested calls, with the remark "real
nesting depth is bounded (a configuration entry can trigger at most one more)". For a leader that is the ONLY voter that
remark is wrong: every configuration entry is committed inside the call that stored it, and its commit starts the next
pending action — the nesting depth is the NUMBER OF PENDING ACTIONS (about 6 calls per level). With 10 non-voters to
force-remove the budget suffices; with 11 the model records `panicked = some "fuel"` (and then runs on a meaningless
totalised path), while the Go code simply recurses a little deeper. All theorems here (as `C15NoPanic.good_step`) therefore
carry the hypothesis "the budget is not exhausted"; differential tests with more than 10 simultaneous removals on a
single-voter cluster would report a spurious difference. -/

/-- a single-voter leader with `k` caught-up non-voters -/
def exMany (k : Nat) : Node :=
  let n1 : CNode := { id := 1, addr := "a:1", voter := true }
  let nvs : List CNode := (List.range k).map (fun i => { id := i + 2, addr := s!"h{i}:1", voter := false })
  let c : Config := { nodes := n1 :: nvs, index := 1, term := 1 }
  { nid := 1, cid := 7, term := 1, durTerm := 1, role := .leader, leader := 1,
    log := { entries := [c.toEntry, { index := 2, term := 1, typ := etNop }], flushed := 2 },
    lastLogIndex := 2, lastLogTerm := 1, commitIndex := 2, fsm := { index := 2, term := 1, config := c },
    configs := { committed := c, latest := c },
    ldr := { node := n1, numVoters := 1, startIndex := 2,
             repls := nvs.map (fun n => { id := n.id, node := n, matchIndex := 2 }) } }

/-- the request: force-remove all of them -/
def exManyReq (k : Nat) : Config :=
  { nodes := { id := 1, addr := "a:1", voter := true } ::
      (List.range k).map (fun i => { id := i + 2, addr := s!"h{i}:1", voter := false, action := actForceRemove }),
    index := 1, term := 1 }

-- 10 removals: 10 configuration entries in ONE step, nested 10 deep, task answered once
#guard ((exMany 10).step (.changeConfig 7 (exManyReq 10)) [] []).panicked = none
#guard ((exMany 10).step (.changeConfig 7 (exManyReq 10)) [] []).lastLogIndex = 12
#guard C15Tasks.answered ((exMany 10).step (.changeConfig 7 (exManyReq 10)) [] []) = [7]
-- 11 removals: the model's budget is exhausted
#guard ((exMany 11).step (.changeConfig 7 (exManyReq 11)) [] []).panicked = some "fuel"

/-- EXAMPLE (stage 2, ledger level): the quorum-intersection lemma of `MemberCore.member_safety` has no lower bound on the
number of voters — the majorities of the adjacent voter sets `{1}` and `{1, 2}` (`{1}` resp. `{1, 2}`) intersect, and so do
those of `{1, 2}` and `{2}` (demoting / removing node 1) -/
example : QuorumRel.AdjLists [1] [1, 2] ∧ (∃ x, x ∈ [1] ∧ x ∈ [1, 2]) ∧ QuorumRel.AdjLists [1, 2] [2] ∧
    (∃ x, x ∈ [1, 2] ∧ x ∈ [2]) :=
  ⟨⟨2, fun x hx => by simp [hx]⟩,
   QuorumRel.adjacent_quorums_intersect [1] [1, 2] [1] [1, 2] (by decide) (by decide) (by decide) (by decide)
     ⟨2, fun x hx => by simp [hx]⟩ (by decide) (by decide) (by decide) (by decide),
   ⟨1, fun x hx => by simp [hx]⟩,
   QuorumRel.adjacent_quorums_intersect [1, 2] [2] [1, 2] [2] (by decide) (by decide) (by decide) (by decide)
     ⟨1, fun x hx => by simp [hx]⟩ (by decide) (by decide) (by decide) (by decide)⟩

end C08One
end Raft

#print axioms Raft.One.block
#print axioms Raft.One.onChangeConfig_one
#print axioms Raft.C08One.step_chain_partial
#print axioms Raft.C08One.leaderInit_chain
#print axioms Raft.C08One.chain_links
#print axioms Raft.C08One.start_of_good
#print axioms Raft.C08One.step_rel_one
#print axioms Raft.C08One.once_of_start -- also C15
#print axioms Raft.C08One.task_step_one -- also C15
#print axioms Raft.C08One.task_run_one -- also C15
#print axioms Raft.C08One.task_run_shutdown_one -- also C15
