/-
C11 — Non-voters and removed nodes hold no authority.

Decision logic, stated outright on the handler functions that `nodediff` ties to /repo.
-/
import RaftVerif.Lemmas.StepInv

namespace Raft
namespace C11
open Node

/-! ### a node that is not a voter of its own latest configuration never starts an election -/

/-- `follower.onTimeout`: the role becomes candidate only if self is a voter of the latest configuration
(and the node is bootstrapped). -/
theorem follower_timeout_requires_voter (s : Node) (h : s.followerTimeout.role ≠ s.role) :
    s.configs.latest.isVoter s.nid = true ∧ s.configs.isBootstrapped = true := by
  unfold Node.followerTimeout at h
  dsimp only at h
  split at h
  · rename_i hc
    unfold Node.canStartElection at hc
    simp only [Node.setLeader, Bool.and_eq_true] at hc
    exact ⟨hc.2, hc.1⟩
  · exact absurd rfl h

/-- `onTimeoutNowRequest`: a non-voter answers `nonVoter` and nothing in its state changes (it does not
become candidate "even when told to time out now"). -/
theorem timeout_now_refused_by_nonvoter (s : Node) (h : s.configs.latest.isVoter s.nid = false) :
    s.onTimeoutNow = s.ret rNonVoter := by
  unfold Node.onTimeoutNow
  simp [h]

/-- `onTimeoutNowRequest` makes the node a candidate only if it is a voter. -/
theorem timeout_now_candidate_only_voter (s : Node) (h : s.onTimeoutNow.role ≠ s.role) :
    s.configs.latest.isVoter s.nid = true := by
  by_cases hv : s.configs.latest.isVoter s.nid = true
  · exact hv
  · rw [timeout_now_refused_by_nonvoter s (by simpa using hv)] at h
    exact absurd rfl h

/-- `candidate.startElection` asserts that self is a voter: run by a non-voter it panics (never reached,
by the two theorems above and `bootstrap`, which requires self to be a voter). -/
theorem startElection_nonvoter_panics (s : Node) (h : s.configs.latest.isVoter s.nid = false)
    (hp : s.panicked = none) : s.startElection.panicked ≠ none := by
  have key : ∀ x : Node, x.panicked ≠ none → x.startElection.panicked ≠ none ∨ True := fun _ _ => Or.inr trivial
  unfold Node.startElection
  dsimp only
  have h1 : (s.assert (s.configs.latest.isVoter s.nid) "assert.startElection").panicked ≠ none := by
    simp [Node.assert, h, Node.panic, hp]
  have hv : ∀ (x : Node) t c, x.panicked ≠ none → (x.setVotedFor t c).panicked ≠ none := by
    intro x t c hx
    unfold Node.setVotedFor Node.storeTermVote Node.panic Node.point
    repeat' split
    all_goals first | exact hx | simp_all
  split
  · simp only [Node.setLeader, Node.setRole, Node.withVotesNeeded]
    exact hv _ _ _ h1
  · simp only [Node.withVotesNeeded]
    exact hv _ _ _ h1

/-- `Raft.bootstrap` makes the node a candidate only if it is a voter of the submitted configuration. -/
theorem bootstrap_candidate_only_voter (s : Node) (t : Nat) (c : Config)
    (h : (s.bootstrap t c).role ≠ s.role) : c.isVoter s.nid = true := by
  unfold Node.bootstrap at h
  have hr : ∀ (x : Node) a b, (x.reply a b).role = x.role := by
    intro x a b; unfold Node.reply; split <;> rfl
  split at h
  · rw [hr] at h; exact absurd rfl h
  · split at h
    · rw [hr] at h; exact absurd rfl h
    · split at h
      · rw [hr] at h; exact absurd rfl h
      · rename_i self hf
        split at h
        · rw [hr] at h; exact absurd rfl h
        · rename_i hv
          unfold Config.isVoter
          rw [hf]
          simpa using hv

/-! ### a leader that demotes or removes itself stops leading once that change commits; a removed node
shuts down only after its removal is committed -/

theorem commitConfig_fields (x : Node) : x.commitConfig.role = x.role ∧ x.commitConfig.nid = x.nid ∧
    x.commitConfig.configs.latest = x.configs.latest ∧ x.commitConfig.closed = x.closed ∧
    x.commitConfig.shutdownOnRemove = x.shutdownOnRemove := by
  unfold Node.commitConfig; dsimp only; split <;> simp [Node.setLeader]

theorem closeIfRemoved_role (x : Node) : x.closeIfRemoved.role = x.role := by
  unfold Node.closeIfRemoved Node.doClose; repeat' split
  all_goals rfl

/-- `Raft.setCommitIndex`: when the commit covers the (uncommitted) latest configuration and self is not a
voter in it, a leader steps down in that very step. -/
theorem leader_steps_down_when_self_demotion_commits (s : Node) (i : Nat)
    (hrole : s.role = .leader) (hunc : s.configs.isCommitted = false)
    (hcov : s.configs.latest.index ≤ i) (hnv : s.configs.latest.isVoter s.nid = false) :
    (s.setCommitIndexR i).1.role = .follower ∧ (s.setCommitIndexR i).2 = true := by
  unfold Node.setCommitIndexR
  rw [if_pos (by simp [hunc, hcov])]
  refine ⟨?_, rfl⟩
  obtain ⟨c1, c2, c3, _, _⟩ := commitConfig_fields (s.withCommitIndex i)
  show (s.withCommitIndex i).commitConfig.stepDownIfNotVoter.closeIfRemoved.role = .follower
  rw [closeIfRemoved_role]
  unfold Node.stepDownIfNotVoter
  rw [if_pos (by rw [c1, c2, c3]; simp [Node.withCommitIndex, hrole, hnv])]
  rfl

/-- `Raft.setCommitIndex` closes a node with "node removed" only when the latest configuration becomes
committed by this very call and does not contain the node (and `shutdownOnRemove` is set). -/
theorem removed_node_closes_only_after_commit (s : Node) (i : Nat)
    (h : (s.setCommitIndexR i).1.closed ≠ s.closed) :
    (s.setCommitIndexR i).2 = true ∧ s.configs.latest.index ≤ i ∧ s.configs.latest.has s.nid = false ∧
    s.shutdownOnRemove = true := by
  unfold Node.setCommitIndexR at h ⊢
  split
  · rename_i hc
    rw [if_pos hc] at h
    refine ⟨rfl, hc.2, ?_⟩
    obtain ⟨c1, c2, c3, c4, c5⟩ := commitConfig_fields (s.withCommitIndex i)
    have hs : ∀ x : Node, x.stepDownIfNotVoter.closed = x.closed ∧ x.stepDownIfNotVoter.nid = x.nid ∧
        x.stepDownIfNotVoter.configs.latest = x.configs.latest ∧
        x.stepDownIfNotVoter.shutdownOnRemove = x.shutdownOnRemove := by
      intro x; unfold Node.stepDownIfNotVoter; split <;> exact ⟨rfl, rfl, rfl, rfl⟩
    obtain ⟨d1, d2, d3, d4⟩ := hs (s.withCommitIndex i).commitConfig
    by_cases hx : s.shutdownOnRemove = true ∧ s.configs.latest.has s.nid = false
    · exact ⟨hx.2, hx.1⟩
    · exfalso
      apply h
      show (s.withCommitIndex i).commitConfig.stepDownIfNotVoter.closeIfRemoved.closed = s.closed
      unfold Node.closeIfRemoved
      rw [if_neg]
      · rw [d1, c4]; rfl
      · rw [d4, d3, d2, c5, c3, c2]
        intro hh; apply hx
        simpa [Node.withCommitIndex] using hh
  · rename_i hc
    rw [if_neg hc] at h
    exact absurd rfl h

/-! ### promotion only after the log caught up in a completed round -/

/-- `finishRound` does not return early only when the round is finished and the node either has every
entry or completed the round fast enough. -/
theorem finishRound_proceeds (lastLogIndex : Nat) (st : Repl) (rd : Round)
    (h : (finishRound lastLogIndex st rd).2 = false) :
    ∃ rd', (finishRound lastLogIndex st rd).1.round = some rd' ∧ rd'.finished = true ∧
      ¬ (lastLogIndex > st.matchIndex ∧ rd'.aged = true) := by
  unfold finishRound at h ⊢
  generalize (if (!rd.finished) = true ∧ st.matchIndex ≥ rd.lastIndex then { rd with finished := true } else rd) = r at h ⊢
  dsimp only at h ⊢
  by_cases c1 : (!r.finished) = true
  · rw [if_pos c1] at h; simp at h
  · rw [if_neg c1] at h ⊢
    by_cases c2 : lastLogIndex > st.matchIndex ∧ r.aged = true
    · rw [if_pos c2] at h; simp at h
    · rw [if_neg c2]; exact ⟨r, rfl, by simpa using c1, c2⟩

/-- `checkConfigAction` proposes a promoting configuration only through `actionConfig … actPromote`,
which is reached only when `roundStep` did not return early: the node has a promotion round, it is
finished, and the node either has every entry or completed the round fast enough. -/
theorem promote_requires_finished_round (lastLogIndex : Nat) (st : Repl)
    (h : (roundStep lastLogIndex actPromote st).2 = false) :
    ∃ rd, (roundStep lastLogIndex actPromote st).1.round = some rd ∧ rd.finished = true ∧
      ¬ (lastLogIndex > st.matchIndex ∧ rd.aged = true) := by
  have hm : (startRound lastLogIndex actPromote st).matchIndex = st.matchIndex := by
    unfold startRound; simp only [ne_eq, not_true_eq_false, if_false]; split <;> rfl
  have hr : ∃ rd0, (startRound lastLogIndex actPromote st).round = some rd0 := by
    unfold startRound; simp only [ne_eq, not_true_eq_false, if_false]
    cases hx : st.round with
    | none => exact ⟨_, rfl⟩
    | some rd => exact ⟨rd, by simp [hx]⟩
  obtain ⟨rd0, hr0⟩ := hr
  unfold roundStep at h ⊢
  dsimp only at h ⊢
  rw [hr0] at h ⊢
  dsimp only at h ⊢
  obtain ⟨rd', e1, e2, e3⟩ := finishRound_proceeds lastLogIndex _ rd0 h
  exact ⟨rd', e1, e2, by rw [hm] at e3; exact e3⟩

/-- a round that was not finished is marked finished by `finishRound` only when the follower's match index
reached the round's target (`round.LastIndex`, the leader's last index when the round began). -/
theorem round_finishes_only_when_caught_up (lastLogIndex : Nat) (st : Repl) (rd rd' : Round)
    (hnf : rd.finished = false)
    (h : (finishRound lastLogIndex st rd).1.round = some rd') (hf : rd'.finished = true) :
    st.matchIndex ≥ rd.lastIndex := by
  by_cases hc : st.matchIndex ≥ rd.lastIndex
  · exact hc
  · exfalso
    unfold finishRound at h
    simp only [hnf, Bool.not_false, hc, and_false, if_false, if_true] at h
    injection h with h
    rw [← h] at hf
    simp [hnf] at hf

end C11
end Raft

#print axioms Raft.C11.follower_timeout_requires_voter
#print axioms Raft.C11.timeout_now_refused_by_nonvoter
#print axioms Raft.C11.timeout_now_candidate_only_voter
#print axioms Raft.C11.startElection_nonvoter_panics
#print axioms Raft.C11.bootstrap_candidate_only_voter
#print axioms Raft.C11.leader_steps_down_when_self_demotion_commits
#print axioms Raft.C11.removed_node_closes_only_after_commit
#print axioms Raft.C11.promote_requires_finished_round
#print axioms Raft.C11.round_finishes_only_when_caught_up
