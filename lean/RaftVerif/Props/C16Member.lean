/-
C16 (leadership transfer) on the cluster-level transition system WITH membership changes (`Raft.Member`,
Sys/Member.lean; runs `C08Member.ReachableR root`: the assumptions of Props/C08Member.lean on the initial state and on
what is delivered, NO side condition on the states passed).

**The operations of a transfer are ordinary operations of this system** (`transfer_ops_admitted_member`): the
`TransferLeadership` task (`.transfer`), the `timeoutNow` request delivered to any node at any time (`.timeoutNow`), vote
requests with the transfer flag, the result of the `timeoutNow` request (`.timeoutNowResult`; `ReqG.timeoutNow`: a
transport error names a replicated node), the transfer timer and the new-term timer — together with `.changeConfig`
requests, configuration entries, and the reports of the replications that drive promotions and removals.

PROVED (`_partial`: the assumptions of `ReachableR` — no snapshots / compaction, every node bootstrapped from the start,
submitted configurations keep two stable voters):
1. `transfer_target_is_voter_with_leaders_log_member_partial` — whenever a step of a leader designates a transfer target
   (the step raises `transfer.respPending`: the `timeoutNow` request goes out), the step ended with a call
   `c.tryTransfer` whose choice `t` is ANOTHER VOTER OF THE LEADER'S LATEST CONFIGURATION AT THAT MOMENT (committed or
   not — e.g. a voter promoted by the configuration entry just before), the leader's record of `t` has
   `matchIndex = lastLogIndex` and contact, and the ledger `acks` holds an acknowledgement of `t`, in the leader's term,
   of the leader's LAST log index: `t`'s durable log holds every entry of the leader's log — unless an entry of a later
   term, not above `t`'s current term, does not extend the leader's log;
2. `no_config_change_during_transfer_member_partial` — a step of a leader after which a transfer is in progress stored
   nothing: log, last index / term and latest configuration of the node are as before, the ledgers of created entries
   and of introduced configurations did not grow; `transfer_freezes_leader_member_partial`: along any stretch of a run in
   which node `i` is leader with a transfer in progress in every state, its log and its latest configuration do not
   move — the configuration the target was validated against is still the leader's latest one whenever the `timeoutNow`
   request is (re)sent or answered; node level (`TransferMember.step_frozen`): EVERY state and operation;
3. `transfer_keeps_election_safety_member_partial` — a COROLLARY of Props/C08Member.lean (the transfer operations are
   operations of the system): one leader per term and leader completeness in every reachable state, whatever transfers
   and membership changes the run contains;
4. `transfer_success_means_higher_term_member_partial` — the transfer task is answered `ok` only in a step in which the
   handler left the leader role (`leader.release` ran) and after which the node's term is above the term in which the
   transfer started.
NOT covered: "fails with an error and leaves the cluster able to keep or elect a leader" (liveness; C17 has it for the
fixed configuration only); that the TARGET, when the `timeoutNow` request reaches it, still holds the leader's log as
its whole log (it may meanwhile have accepted entries of a later leader — the transfer is then moot).
-/
import RaftVerif.Lemmas.TransferMemberC
import RaftVerif.Props.C08Member
import RaftVerif.Props.AuditMember

namespace Raft
namespace C16Member
open Node Election LogRel Replication CommitRel Commit Member MemberCore QuorumRel MemberInv MemberCommit
open MemberGood MemberSide NoPanic TransferMember SysMore C08Member
open MemberStep (CfgLatest)

/-! ### the system admits the operations of a transfer -/

/-- **the operations of a leadership transfer are operations of the system with membership changes**: they satisfy
`LogRel.OpOK` and `CfgRel.OpOk` (the other enabling conditions of `Member.Enabled` concern vote requests — a vote request
that is not stale is a recorded campaign, with or without the transfer flag —, append requests and match-index
reports), and `ReqG` asks of them only that a transport error of the `timeoutNow` request names a replicated node. -/
theorem transfer_ops_admitted_member (t g src r : Nat) (err : Bool) (q : VoteReq) :
    (OpOK (.transfer t g) ∧ CfgRel.OpOk (.transfer t g)) ∧ (OpOK .timeoutNow ∧ CfgRel.OpOk .timeoutNow) ∧
    (OpOK (.vote { q with transfer := true }) ∧ CfgRel.OpOk (.vote { q with transfer := true })) ∧
    (OpOK .transferTimeout ∧ CfgRel.OpOk .transferTimeout) ∧
    (OpOK (.timeoutNowResult src err r) ∧ CfgRel.OpOk (.timeoutNowResult src err r)) ∧
    (OpOK .newTermTimeout ∧ CfgRel.OpOk .newTermTimeout) :=
  ⟨⟨trivial, trivial⟩, ⟨trivial, trivial⟩, ⟨trivial, trivial⟩, ⟨trivial, trivial⟩, ⟨trivial, trivial⟩,
    ⟨trivial, trivial⟩⟩

/-! ### helpers -/

theorem node_stepM (x : Member.Sys) (i : Nat) (op : Op) (ra : List Nat) (ord : List (List Nat)) (src : Nat) :
    (stepM x i op ra ord src).node i = (x.node i).step op ra ord := by
  show setNode x.cm.rp.el.node i _ i = _
  rw [setNode_same]

theorem node_stepM_other (x : Member.Sys) (i : Nat) (op : Op) (ra : List Nat) (ord : List (List Nat)) (src : Nat)
    (j : Nat) (h : j ≠ i) : (stepM x i op ra ord src).node j = x.node j := by
  show setNode x.cm.rp.el.node i _ j = _
  rw [setNode_other _ _ _ _ h]

/-! ### 1. the designated target -/

/-- **C16 (1), the designated successor is a voter of the leader's latest configuration that holds the leader's log —
with membership changes (partial: the assumptions of the file header).** Let `x` be a state reachable in
`ReachableR root`, `i` an open node that is leader and has no `timeoutNow` request in flight
(`transfer.respPending = false`), `op` any operation that may be delivered to `i` (`Member.Enabled`, `ReqG` — a
`TransferLeadership` task, a report of a replication, the result of an earlier `timeoutNow` request, a timer, …),
handled with any oracle, such that afterwards `i` is still leader and HAS a `timeoutNow` request in flight: the step
designated a transfer target. Let `y = stepM x i op ra ord src` and `p` the node `i` in it. Then the step ended with a
call `c.tryTransfer` whose choice `t = c.tryTransferTarget.1 ≠ 0` — the node the `timeoutNow` request is sent to —
satisfies:
* `t ≠ i`, and `t` is a VOTER of `p.configs.latest`, the leader's latest configuration at that moment (whatever chain
  of membership changes led to it; committed or not);
* the leader's replication record of `t` has contact and `matchIndex = p.lastLogIndex`;
* the ledger `acks` of `y` holds an acknowledgement `a` of `t` for the leader's term whose index is the leader's LAST
  log index and whose entry term is the leader's term (`t` answered `success` to an append request of this leader ending
  at the leader's last entry);
* and now: `t`'s log, flushed up to that index, holds at EVERY index `1 ≤ k' ≤ p.lastLogIndex` the very entry the leader
  holds — unless the tree of created entries contains an entry of a later term, not above `t`'s current term, that does
  not extend the leader's last entry (a later leader has overwritten it on `t`; the old leader is deposed). -/
theorem transfer_target_is_voter_with_leaders_log_member_partial (root : K) (x : Member.Sys) (h : ReachableR root x)
    (i : Nat) (op : Op) (src : Nat) (he : Member.Enabled x i op src) (hg : ReqG x i op)
    (ho : (x.node i).closed = "") (ra : List Nat) (ord : List (List Nat))
    (hl : (x.node i).role = .leader) (h0 : (x.node i).ldr.transfer.respPending = false)
    (hl1 : ((x.node i).step op ra ord).role = .leader)
    (h1 : ((x.node i).step op ra ord).ldr.transfer.respPending = true) :
    ∃ (c : Node) (t : Nat), (x.node i).step op ra ord = c.tryTransfer ∧ c.tryTransferTarget.1 = t ∧ t ≠ 0 ∧
      (t ≠ i ∧ ((x.node i).step op ra ord).configs.latest.isVoter t = true) ∧
      (∃ r ∈ ((x.node i).step op ra ord).ldr.repls, r.id = t ∧ r.noContact = false ∧
        r.matchIndex = ((x.node i).step op ra ord).lastLogIndex) ∧
      ∃ a ∈ (stepM x i op ra ord src).cm.acks, a.voter = t ∧ a.term = ((x.node i).step op ra ord).term ∧
        a.index = ((x.node i).step op ra ord).lastLogIndex ∧ a.eterm = ((x.node i).step op ra ord).term ∧
        ((((x.node i).step op ra ord).lastLogIndex ≤ ((stepM x i op ra ord src).node t).log.flushed ∧
          ∀ k', 1 ≤ k' → k' ≤ ((x.node i).step op ra ord).lastLogIndex →
            ((stepM x i op ra ord src).node t).log.get? k' = ((x.node i).step op ra ord).log.get? k') ∨
         ∃ c' ∈ (stepM x i op ra ord src).cm.T, ((x.node i).step op ra ord).term < c'.e.term ∧
           c'.e.term ≤ ((stepM x i op ra ord src).node t).term ∧
           ¬ Anc (stepM x i op ra ord src).cm.T
             (((x.node i).step op ra ord).lastLogIndex, ((x.node i).step op ra ord).term) (c'.e.index, c'.e.term)) := by
  have hy : ReachableR root (stepM x i op ra ord src) := .next x _ h (.step i op ra ord src he hg ho)
  obtain ⟨⟨G, hIy, _⟩, hXy⟩ := inv_reachable root _ hy
  have hSy := hXy.sideT
  have hni := node_stepM x i op ra ord src
  obtain ⟨c, hc, ht0⟩ := designated_by_tryTransferM (x.node i) op ra ord he.rp.ok he.cfg hl h0 h1
  have hly : ((stepM x i op ra ord src).node i).role = .leader := by rw [hni]; exact hl1
  have hcache : C06Cache.CacheOK ((x.node i).step op ra ord) := by
    have := C08Sys.leaderCache_reachable _ (reachableP_of hy) i
    rw [hni] at this
    exact this hl1
  have hnid : ((x.node i).step op ra ord).nid = i := by rw [← hni]; exact (hIy.rp.el.ids i).1
  obtain ⟨f1, f2, f3, _, _, _⟩ := tryTransfer_fields c
  have frepls := tryTransfer_repls c
  rw [← hc] at f1 f2 f3 frepls
  have hself : c.findRepl? c.nid = none := by
    unfold Node.findRepl?
    rw [← frepls, ← f2]
    apply List.find?_eq_none.mpr
    intro r hr
    have := (hcache.repl_member r hr).1
    simpa using this
  obtain ⟨e1, e2, r, e3, e4, e5⟩ := C16.transfer_target_eligible c _ rfl ht0 hself
  have hrmem : r ∈ ((x.node i).step op ra ord).ldr.repls ∧ r.id = c.tryTransferTarget.1 := by
    have := findRepl_mem e3
    rw [frepls]; exact this
  have lo := hIy.node.ldr i hly
  rw [hni] at lo
  have hnwf : NWF ((x.node i).step op ra ord) := by have := nwfM hIy i; rw [hni] at this; exact this
  have hlast : 1 ≤ ((x.node i).step op ra ord).lastLogIndex := by
    rw [hnwf.last]; exact Nat.le_trans lo.start lo.startLe
  have hmi : r.matchIndex = ((x.node i).step op ra ord).lastLogIndex := by rw [e5, f3]
  obtain ⟨a, ha, a1, a2, a3⟩ : Commit.Backed (stepM x i op ra ord src).cm i r.id r.matchIndex := by
    rcases lo.mi r hrmem.1 with z | b
    · omega
    · exact b
  have haG : a ∈ acksG (stepM x i op ra ord src) G := List.mem_append_left _ ha
  have hh := ack_on_leaderM hIy hSy hly haG a2
  rw [hni] at hh
  have a2' : a.term = ((x.node i).step op ra ord).term := by rw [← hni]; exact a2
  have hidx : a.index = ((x.node i).step op ra ord).lastLogIndex := by
    have := hh.2.1
    rw [← hnwf.last] at this
    omega
  have het : a.eterm = ((x.node i).step op ra ord).term := by
    rw [← hh.2.2]
    exact lo.own a.index (by rw [hidx, hnwf.last]; exact lo.startLe) hh.2.1
  refine ⟨c, _, hc, rfl, ht0, ⟨by rw [← hnid, f2]; exact e2, by rw [f1]; exact e1⟩,
    ⟨r, hrmem.1, hrmem.2, e4, hmi⟩, a, ha, by rw [a1]; exact hrmem.2, a2', hidx, het, ?_⟩
  -- stability of the acknowledgement
  have hhy : Holds ((stepM x i op ra ord src).node i).log.entries a.index a.eterm := by rw [hni]; exact hh
  have hanc : Anc (stepM x i op ra ord src).cm.T (a.index, a.eterm) a.key :=
    ⟨Nat.le_refl _, _, log_pathM hIy i, hhy, hhy⟩
  have hat : a.eterm = a.term := by rw [het, a2']
  rcases hIy.ack.stable a haG (a.index, a.eterm) hat hanc with d | ⟨c', hc', u1, u2, u3⟩
  · left
    rw [a1, hrmem.2] at d
    obtain ⟨d1, d2⟩ := d
    refine ⟨by rw [← hidx]; exact d1, fun k' hk1 hk2 => ?_⟩
    have := C02Member.same_entriesM hIy d2 hhy hk1 (by rw [hidx]; exact hk2)
    rw [hni] at this
    exact this
  · right
    rw [a1, hrmem.2] at u2
    exact ⟨c', hc', by rw [← het]; exact u1, u2, by rw [← hidx, ← het]; exact u3⟩

/-! ### 2. nothing is stored while a transfer is in progress -/

/-- **C16 (2), while a transfer is in progress no client entry and no configuration entry is appended — one step, with
membership changes (partial: no snapshots / compaction).** Let `x` be ANY state of `Member` (reachable or not), `i` a
node that is leader, `op` any operation that may be delivered to it (`Member.Enabled`: a client batch, a membership
change request, a report of a replication that completes a promotion round or a removal, a commit, …), handled with any
oracle, such that AFTER the step a transfer is in progress on `i` (`ldr.transfer.active` — the transfer was in progress
before, or the step started it). Then, `p` being node `i` after the step:
* `p` is still leader, and its log (entries and first index), last index / term and LATEST configuration are those
  before the step: nothing was appended, no configuration adopted;
* the ledger of created entries (`T`) and the ledger `changes` of introduced configurations are those of `x`.
(By contraposition: a step of a leader that appends an entry or moves its latest configuration ends with no transfer
in progress — every membership action held back by `canChangeConfig` is taken, if at all, after the transfer was
answered: `replyTransfer` → `checkConfigActions`.) -/
theorem no_config_change_during_transfer_member_partial (x : Member.Sys) (i : Nat) (op : Op) (src : Nat)
    (he : Member.Enabled x i op src) (ra : List Nat) (ord : List (List Nat))
    (hl : (x.node i).role = .leader)
    (ha : ((x.node i).step op ra ord).ldr.transfer.active = true) :
    (((x.node i).step op ra ord).role = .leader ∧
      ((x.node i).step op ra ord).log.entries = (x.node i).log.entries ∧
      ((x.node i).step op ra ord).log.prev = (x.node i).log.prev ∧
      ((x.node i).step op ra ord).lastLogIndex = (x.node i).lastLogIndex ∧
      ((x.node i).step op ra ord).lastLogTerm = (x.node i).lastLogTerm ∧
      ((x.node i).step op ra ord).configs.latest = (x.node i).configs.latest) ∧
    (stepM x i op ra ord src).cm.T = x.cm.T ∧ (stepM x i op ra ord src).changes = x.changes := by
  obtain ⟨hr, hp, hq⟩ := step_frozen (x.node i) op ra ord he.rp.ok hl ha
  obtain ⟨q1, q2, q3, q4, q5⟩ := lq_eq hq
  refine ⟨⟨by rw [hp]; exact hr, q1, q2, q3, q4, q5⟩, ?_, ?_⟩
  · show newCreated i (x.node i).log.entries ((x.node i).step op ra ord).log.entries op ++ x.cm.rp.created = _
    rw [q1]
    unfold newCreated
    split
    · rfl
    · rw [List.drop_length]; rfl
  · show changeOf i (x.node i) op ((x.node i).step op ra ord) ++ x.changes = _
    unfold changeOf
    rw [q5, if_neg (fun h => Nat.lt_irrefl _ h.2)]
    rfl

/-- runs of `MemberSide.TransR` in whose every state after the first node `i` is leader with a transfer in progress -/
inductive RunT (i : Nat) : Member.Sys → Member.Sys → Prop
  | refl (x : Member.Sys) : RunT i x x
  | next (x y z : Member.Sys) : RunT i x y → TransR y z → (z.node i).role = .leader →
      (z.node i).ldr.transfer.active = true → RunT i x z

/-- **C16 (2), the leader's log and configuration are frozen for the whole duration of a transfer (partial).** Let
`x ⟶ … ⟶ y` be any stretch of a run (`RunT i`: completed steps of any nodes with any enabled operations — membership
change requests, promotions coming due, commits of pending configuration entries included —, crashes, sends) such that
in EVERY state after `x` node `i` is leader with a transfer in progress, `i` being leader in `x` (the transfer may
start in the first step). Then in `y` the log (entries, first index), the last index / term and the LATEST
configuration of `i` are those of `x`: the configuration the target was validated against (`tryTransfer` in a state of
the stretch) is still the leader's latest configuration when the `timeoutNow` request is answered, resent or times out,
and the target's acknowledged index is still the leader's last index. -/
theorem transfer_freezes_leader_member_partial (i : Nat) (x y : Member.Sys) (hrun : RunT i x y)
    (hl : (x.node i).role = .leader) :
    (y.node i).role = .leader ∧ (y.node i).log.entries = (x.node i).log.entries ∧
    (y.node i).log.prev = (x.node i).log.prev ∧ (y.node i).lastLogIndex = (x.node i).lastLogIndex ∧
    (y.node i).lastLogTerm = (x.node i).lastLogTerm ∧ (y.node i).configs.latest = (x.node i).configs.latest := by
  induction hrun with
  | refl => exact ⟨hl, rfl, rfl, rfl, rfl, rfl⟩
  | next y z _ ht hlz haz ih =>
    obtain ⟨i1, i2, i3, i4, i5, i6⟩ := ih
    cases ht with
    | step j op ra ord src he _ _ =>
      by_cases hj : i = j
      · subst hj
        rw [node_stepM] at hlz haz ⊢
        obtain ⟨⟨_, q1, q2, q3, q4, q5⟩, _⟩ :=
          no_config_change_during_transfer_member_partial y i op src he ra ord i1 haz
        exact ⟨hlz, q1.trans i2, q2.trans i3, q3.trans i4, q4.trans i5, q5.trans i6⟩
      · rw [node_stepM_other _ _ _ _ _ _ _ hj] at hlz ⊢
        exact ⟨hlz, i2, i3, i4, i5, i6⟩
    | crash j op ra ord src k retain sor n _ _ _ _ hn =>
      by_cases hj : i = j
      · subst hj
        exfalso
        have e : (crashM y i op n).node i = n := by
          show setNode y.cm.rp.el.node i n i = n
          rw [setNode_same]
        rw [e, (Election.restart_role_nid _ _ _ _ hn).1] at hlz
        cases hlz
      · have e : (crashM y j op n).node i = y.node i := by
          show setNode y.cm.rp.el.node j n i = _
          rw [setNode_other _ _ _ _ hj]
        rw [e] at hlz ⊢
        exact ⟨hlz, i2, i3, i4, i5, i6⟩
    | send j q _ _ _ _ => exact ⟨hlz, i2, i3, i4, i5, i6⟩

/-! ### 3. election safety and leader completeness with transfers -/

/-- **C16 (3), a transfer never produces two leaders in one term, and never loses a committed entry — across membership
changes (partial: the assumptions of the file header). A COROLLARY of Props/C08Member.lean**: the operations of a
transfer are ordinary operations of the system (`transfer_ops_admitted_member`: nothing had to be added to
`Member.Enabled` / `ReqG`), so `C08Member.election_safety_member_partial` and `leader_completeness_member_partial` cover
every run with transfers — `timeoutNow` requests delivered to any node at any time (stale, duplicated, to a node that is
no longer — or not yet — a voter of the sender's configuration), vote requests with the transfer flag, which voters
grant although they know a leader. In every state reachable in `ReachableR root`:
1. two nodes that are leader in the same term are the same node; the ledger `won` names at most one node per term;
2. every leader holds every entry of the ledger `committed` whose term is not above its own (in particular a transfer
   target that wins its election holds everything committed under the old leader);
and for any two states `x`, `y` of one run (`y` reachable from `x`): a (leader, term) recorded in `x` is still the only
leader of that term in `y` (`won` only grows). -/
theorem transfer_keeps_election_safety_member_partial (root : K) (x : Member.Sys) (h : ReachableR root x) :
    (∀ i j, (x.node i).role = .leader → (x.node j).role = .leader → (x.node i).term = (x.node j).term → i = j) ∧
    (∀ l l' t, (l, t) ∈ x.el.won → (l', t) ∈ x.el.won → l = l') ∧
    (∀ i, (x.node i).role = .leader → ∀ m ∈ x.cm.committed, m.2 ≤ (x.node i).term →
      ∃ e, (x.node i).log.get? m.1 = some e ∧ e.term = m.2) :=
  ⟨(election_safety_member_partial root x h).1, (election_safety_member_partial root x h).2.1,
    (leader_completeness_member_partial root x h).2⟩

/-! ### 4. success means: stepped down, higher term -/

/-- **C16 (4), a transfer returns success only after the old leader has stepped down in favour of a higher term — with
membership changes (partial: the assumptions of the file header).** Let `x` be a state reachable in `ReachableR root`,
`i` an open node that is leader with a transfer in progress for the task `tk ≠ 0`, whose task ledger is consistent
(`C15Tasks.TasksOK`), and `op` any operation that may be delivered to `i` (`Member.Enabled`, `ReqG`) bringing in fresh
task ids (`C15Tasks.Fresh`), handled with any oracle. If the step answers the transfer task with `ok` (the
`TransferLeadership` call returns success), then in this very step the handler left the leader role — the node stepped
down; the answer is the one `leader.release` gives — and the node's term after the step is above the term in which the
transfer was started. (Otherwise the task stays pending, or is answered with an error.) -/
theorem transfer_success_means_higher_term_member_partial (root : K) (x : Member.Sys) (h : ReachableR root x)
    (i : Nat) (op : Op) (src : Nat) (he : Member.Enabled x i op src) (hg : ReqG x i op)
    (ho : (x.node i).closed = "") (ra : List Nat) (ord : List (List Nat))
    (hT : C15Tasks.TasksOK (x.node i)) (hF : C15Tasks.Fresh (x.node i) op)
    (hl : (x.node i).role = .leader) (hact : (x.node i).ldr.transfer.active = true)
    (h0 : (x.node i).ldr.transfer.task ≠ 0)
    (hrep : ({ task := (x.node i).ldr.transfer.task, result := "ok" } : Reply) ∈ ((x.node i).step op ra ord).replies) :
    (((x.node i).begin ra ord).handle op).role ≠ .leader ∧
    (x.node i).ldr.transfer.term < ((x.node i).step op ra ord).term := by
  obtain ⟨⟨G, hI, _⟩, hX⟩ := inv_reachable root x h
  have hq := reqok hI hX he hg
  obtain ⟨_, _, hnd, hdis, _, _⟩ := C15Tasks.task_step_two (x.node i) op ra ord (hX.good i) ho hq hT hF
  exact transfer_ok_means_leftM _ op ra ord he.rp.ok he.cfg hl hact h0 (hI.rp.el.ids i).2 hnd hdis hrep

/-! ### Examples (non-vacuity): promote node 4, then transfer leadership to it

The run `AuditMember.m1 … m21` (PROVED reachable in `ReachableR (1,1)`: node 1 is elected in term 2 by the voters
{1,2,3}, adds node 4 as a non-voter to be promoted — configuration (3,2) —, promotes it when it has caught up —
configuration (4,2), voters {1,2,3,4} —, replicates and commits it; the leader's record of node 4 still has match index 3)
continued:
* `t1`: the leader 1 handles `TransferLeadership(target = 4)`, task 7: valid — 4 is a voter of the latest configuration,
  promoted two entries ago —, but 4 is not ready (match index 3 < last index 4): no request goes out;
* `t2`: the report "match index 4" of the replication to node 4 (backed by node 4's acknowledgement of index 4) arrives:
  `checkReplUpdates` ends with `tryTransfer`, which designates node 4 (`respPending`);
* `t3`: node 4 handles the `timeoutNow` request: it is a voter of ITS latest configuration (4,2) and starts the election
  of term 3 with the transfer flag (election configuration: voters {1,2,3,4});
* `t4`: the replication of node 1 to node 4 reports term 3: node 1 steps down, `leader.release` answers task 7 with `ok`.
The states `t1 … t4` are PROVED reachable (`r1 … r4`); the post-state of the step `t1 → t2` is computed with
`C07Sys.altPost` (the majority match index given: the mutually recursive leader block does not reduce in the kernel). -/

section run
open AuditMember
open C07Sys (altPost replUpdates_step_alt)

/-- the report of the replication to node 4 -/
def u4 : List ReplUpdate := [{ id := 4, upd := .matchIndex 4 }]
/-- the replication to node 4 has seen term 3 -/
def uNew : List ReplUpdate := [{ id := 4, upd := .newTerm 3 }]

def t1 : Member.Sys := stepM m21 1 (.transfer 7 4) [] [] 0
def t2 : Member.Sys := stepMP t1 1 (.replUpdates u4) 0 (altPost (t1.node 1) u4 4)
def t3 : Member.Sys := stepM t2 4 .timeoutNow [] [] 0
def t4 : Member.Sys := stepM t3 1 (.replUpdates uNew) [] [] 0

theorem enM_ne (x : Member.Sys) (i : Nat) (b : List QItem) (hi : i ≠ 0) (hb : ∀ q ∈ b, q.typ ≠ etConfig) :
    Member.Enabled x i (.newEntries b) 0 ∧ ReqG x i (.newEntries b) :=
  ⟨⟨⟨hi, (fun _ h => by cases h), (fun ⟨_, _, _, h⟩ => by cases h), trivial, (fun _ h => by cases h)⟩,
    hb, (fun _ h => by cases h), (fun _ h => by cases h), (fun _ h => by cases h)⟩,
   ⟨(fun _ _ h => by cases h), (fun _ h => by cases h), (fun _ _ _ h => by cases h)⟩⟩

theorem enM_newTerm (x : Member.Sys) (i j v : Nat) (hi : i ≠ 0) (hv : (x.node i).term ≤ v) :
    Member.Enabled x i (.replUpdates [{ id := j, upd := .newTerm v }]) 0 ∧
    ReqG x i (.replUpdates [{ id := j, upd := .newTerm v }]) := by
  refine ⟨⟨⟨hi, (fun _ h => by cases h), (fun ⟨_, _, _, h⟩ => by cases h), ?_, (fun _ h => by cases h)⟩,
    trivial, (fun _ h => by cases h), (fun _ h => by cases h), ?_⟩,
   ⟨(fun _ _ h => by cases h), ?_, (fun _ _ _ h => by cases h)⟩⟩
  · intro u hu w h
    rw [List.mem_singleton.mp hu] at h
    cases h
  · intro us' h u hu w hw
    cases h
    rw [List.mem_singleton.mp hu] at hw
    cases hw
  · intro us' h _ u hu _ w hw
    cases h
    rw [List.mem_singleton.mp hu] at hw
    cases hw
    exact hv

set_option maxRecDepth 100000 in
theorem r1 : RM t1 :=
  rm_step q21 1 (.transfer 7 4) 0 (enM_plain _ 1 _ (by decide) rfl) (by decide +kernel) (by decide +kernel)

theorem u4_only : OnlyMatch u4 := fun u hu => ⟨4, by rw [List.mem_singleton.mp hu]⟩

set_option maxRecDepth 100000 in
theorem u4_enabled : Member.Enabled t1 1 (.replUpdates u4) 0 ∧ ReqG t1 1 (.replUpdates u4) := by
  refine enM_upd _ 1 _ (by decide) u4_only (fun u hu w hw => ?_)
  rw [List.mem_singleton.mp hu] at hw ⊢
  cases hw
  exact Or.inr ⟨⟨4, 2, 4, 2⟩, by decide +kernel, rfl, by decide +kernel, Nat.le_refl _⟩

set_option maxRecDepth 100000 in
theorem mmT1 : (replUpdLoop ((t1.node 1).begin [] []) {} u4).1.majorityMatchIndex = (4, true) := by
  unfold Node.majorityMatchIndex
  rw [if_neg (by decide +kernel)]
  dsimp only
  have h1 : (replUpdLoop ((t1.node 1).begin [] []) {} u4).1.voterMatches = [4, 4, 4, 4] := by decide +kernel
  have h2 : [4, 4, 4, 4].mergeSort geB = [4, 4, 4, 4] := by
    simp [List.mergeSort, List.MergeSort.Internal.splitInTwo, geB]
  rw [h1, h2]
  decide +kernel

set_option maxRecDepth 100000 in
theorem stT1 : (t1.node 1).step (.replUpdates u4) [] [] = altPost (t1.node 1) u4 4 :=
  replUpdates_step_alt _ _ 4 (by decide +kernel) mmT1

theorem t2_eq : stepM t1 1 (.replUpdates u4) [] [] 0 = t2 := by rw [stepM_eq, stT1]; rfl

set_option maxRecDepth 100000 in
theorem r2 : RM t2 := by
  have := rm_step r1 1 (.replUpdates u4) 0 u4_enabled (by decide +kernel) (by rw [stT1]; decide +kernel)
  rw [t2_eq] at this
  exact this

set_option maxRecDepth 100000 in
theorem r3 : RM t3 :=
  rm_step r2 4 .timeoutNow 0 (enM_plain _ 4 _ (by decide) rfl) (by decide +kernel) (by decide +kernel)

set_option maxRecDepth 100000 in
theorem r4 : RM t4 :=
  rm_step r3 1 (.replUpdates uNew) 0 (enM_newTerm _ 1 4 3 (by decide) (by decide +kernel)) (by decide +kernel)
    (by decide +kernel)

set_option maxRecDepth 100000 in
/-- EXAMPLE (`transfer_target_is_voter_with_leaders_log_member_partial`): all hypotheses hold for the reachable state
`t1`, the leader 1 and the match-index report of the replication to node 4 — before the step no request is in flight,
afterwards one is. The target (field `transfer.target`, fixed by the request) is node 4: NOT a voter of the
configuration (3,2) the leader had in `m14`, a voter of its latest configuration (4,2) now; the ledger holds node 4's
acknowledgement (term 2, index 4 = the leader's last index), as the theorem says it must. -/
example : ReachableR (1, 1) t1 ∧ (Member.Enabled t1 1 (.replUpdates u4) 0 ∧ ReqG t1 1 (.replUpdates u4)) ∧
    (t1.node 1).closed = "" ∧ (t1.node 1).role = .leader ∧ (t1.node 1).ldr.transfer.respPending = false ∧
    ((t1.node 1).step (.replUpdates u4) [] []).role = .leader ∧
    ((t1.node 1).step (.replUpdates u4) [] []).ldr.transfer.respPending = true ∧
    ((t1.node 1).step (.replUpdates u4) [] []).ldr.transfer.target = 4 ∧
    (m14.node 1).configs.latest.isVoter 4 = false ∧
    ((t1.node 1).step (.replUpdates u4) [] []).configs.latest.isVoter 4 = true ∧
    ((t1.node 1).step (.replUpdates u4) [] []).lastLogIndex = 4 ∧
    (⟨4, 2, 4, 2⟩ : Ack) ∈ (stepM t1 1 (.replUpdates u4) [] [] 0).cm.acks := by
  rw [t2_eq, stT1]
  exact ⟨r1.1, u4_enabled, by decide +kernel, by decide +kernel, by decide +kernel, by decide +kernel,
    by decide +kernel, by decide +kernel, by decide +kernel, by decide +kernel, by decide +kernel, by decide +kernel⟩

/-- a client update submitted while the transfer is in progress -/
def exUpd : List QItem := [{ typ := etUpdate, data := "y", task := 8 }]

set_option maxRecDepth 100000 in
/-- EXAMPLE (`no_config_change_during_transfer_member_partial`): its hypotheses hold for the reachable state `t2` (the
transfer to node 4 is in progress), the leader 1 and a client update: the operation is enabled, node 1 is leader, and a
transfer is in progress after the step (by `C16Sys.no_new_work_during_transfer_step`; the update is answered
`inProgress:transferLeadership`) — hence (by the theorem) nothing was stored. -/
example : ReachableR (1, 1) t2 ∧ Member.Enabled t2 1 (.newEntries exUpd) 0 ∧ (t2.node 1).role = .leader ∧
    ((t2.node 1).step (.newEntries exUpd) [] []).ldr.transfer.active = true ∧
    ((t2.node 1).step (.newEntries exUpd) [] []).log.entries = (t2.node 1).log.entries := by
  have hl : (t2.node 1).role = .leader := by decide +kernel
  have hen := (enM_ne t2 1 exUpd (by decide) (by decide)).1
  have hact : ((t2.node 1).step (.newEntries exUpd) [] []).ldr.transfer.active = true := by
    have := ((C16Sys.no_new_work_during_transfer_step (t2.node 1) [] [] hl (by decide +kernel)).1 exUpd).1
    rw [(SysMore.core_eq this).2.2.2.2.2.2.2]
    decide +kernel
  exact ⟨r2.1, hen, hl, hact,
    (no_config_change_during_transfer_member_partial t2 1 (.newEntries exUpd) 0 hen [] [] hl hact).1.2.1⟩

set_option maxRecDepth 100000 in
/-- EXAMPLE (`transfer_freezes_leader_member_partial`): `m21 ⟶ t1 ⟶ t2 ⟶ t3` is a stretch of a run in which node 1 is
leader with the transfer in progress in every state after the first -/
example : RunT 1 m21 t3 ∧ (m21.node 1).role = .leader := by
  have s1 : RunT 1 m21 t1 :=
    .next _ _ _ (.refl _) (.step 1 (.transfer 7 4) [] [] 0 (enM_plain m21 1 _ (by decide) rfl).1
      (enM_plain m21 1 _ (by decide) rfl).2 (by decide +kernel)) (by decide +kernel) (by decide +kernel)
  have s2 : RunT 1 m21 t2 := by
    have := RunT.next _ _ _ s1 (.step 1 (.replUpdates u4) [] [] 0 u4_enabled.1 u4_enabled.2 (by decide +kernel))
    rw [t2_eq] at this
    exact this (by decide +kernel) (by decide +kernel)
  exact ⟨.next _ _ _ s2 (.step 4 .timeoutNow [] [] 0 (enM_plain t2 4 _ (by decide) rfl).1
      (enM_plain t2 4 _ (by decide) rfl).2 (by decide +kernel)) (by decide +kernel) (by decide +kernel),
    by decide +kernel⟩

set_option maxRecDepth 100000 in
/-- EXAMPLE (`transfer_keeps_election_safety_member_partial`, instantiated on the run with a transfer to the freshly
promoted voter): `t4` is reachable — node 4, promoted by configuration (4,2), campaigns in term 3 with the transfer
flag and the election configuration {1,2,3,4}; node 1 has stepped down — so (by the theorem) it has at most one leader
per term and its leaders hold every committed entry. -/
example : ReachableR (1, 1) t4 ∧ (t4.node 4).role = .candidate ∧ (t4.node 4).term = 3 ∧
    (t4.node 4).candTransfer = true ∧ (t4.node 1).role = .follower ∧
    t4.ecfg.map (fun k => (k.cand, k.term, k.cfg.voters)) = [(4, 3, [1, 2, 3, 4]), (1, 2, [1, 2, 3])] ∧
    (∀ i j, (t4.node i).role = .leader → (t4.node j).role = .leader → (t4.node i).term = (t4.node j).term → i = j) :=
  ⟨r4.1, by decide +kernel, by decide +kernel, by decide +kernel, by decide +kernel, by decide +kernel,
    (transfer_keeps_election_safety_member_partial (1, 1) t4 r4.1).1⟩

set_option maxRecDepth 100000 in
/-- EXAMPLE (`transfer_success_means_higher_term_member_partial`): all hypotheses hold for the reachable state `t3`, the
leader 1 (transfer task 7 in progress, started in term 2) and the report "term 3" of its replication to node 4: the
step answers task 7 with `ok` — and (by the theorem) the handler left the leader role and the term is above 2. -/
example : ReachableR (1, 1) t3 ∧ (Member.Enabled t3 1 (.replUpdates uNew) 0 ∧ ReqG t3 1 (.replUpdates uNew)) ∧
    (t3.node 1).closed = "" ∧ C15Tasks.TasksOK (t3.node 1) ∧ C15Tasks.Fresh (t3.node 1) (.replUpdates uNew) ∧
    (t3.node 1).role = .leader ∧ (t3.node 1).ldr.transfer.active = true ∧ (t3.node 1).ldr.transfer.task = 7 ∧
    (t3.node 1).ldr.transfer.term = 2 ∧
    ({ task := 7, result := "ok" } : Reply) ∈ ((t3.node 1).step (.replUpdates uNew) [] []).replies ∧
    ((t3.node 1).step (.replUpdates uNew) [] []).term = 3 :=
  ⟨r3.1, enM_newTerm _ 1 4 3 (by decide) (by decide +kernel), by decide +kernel, by decide +kernel,
    ⟨List.nodup_nil, fun t h => by cases h⟩, by decide +kernel, by decide +kernel, by decide +kernel,
    by decide +kernel, by decide +kernel, by decide +kernel⟩

-- evaluation (tests, not proofs): the election of node 4 completes — the nodes 2 and 3 grant their votes to the vote
-- request WITH the transfer flag although they know the leader 1; node 4 leads term 3 (quorum 3 of 4) and holds the
-- committed entries; without the flag the request is refused (`leaderKnown`)
def tVote : VoteReq := { term := 3, src := 4, lastLogIndex := 4, lastLogTerm := 2, transfer := true }
def t5 : Member.Sys := stepM (stepM t4 2 (.vote tVote) [] [] 0) 3 (.vote tVote) [] [] 0
def t6 : Member.Sys := stepM (stepM t5 4 (.voteResult false 3 rSuccess) [] [] 2) 4 (.voteResult false 3 rSuccess) [] [] 3
#guard (t3.node 2).leader == 1 && ((t3.node 2).step (.vote { tVote with transfer := false }) [] []).result == rLeaderKnown
#guard t5.el.grants.any (fun g => g.voter == 2 && g.term == 3 && g.cand == 4) &&
  t5.el.grants.any (fun g => g.voter == 3 && g.term == 3 && g.cand == 4)
#guard (t6.node 4).role == .leader && (t6.node 4).term == 3 && (t6.node 4).panicked.isNone &&
  t6.el.won.eraseDups == [(4, 3), (1, 2)]
#guard [2, 3, 4].all (fun k => ((t6.node 4).log.get? k).map (·.term) == ((m21.node 1).log.get? k).map (·.term))

end run

end C16Member
end Raft

#print axioms Raft.C16Member.transfer_ops_admitted_member
#print axioms Raft.C16Member.transfer_target_is_voter_with_leaders_log_member_partial
#print axioms Raft.C16Member.no_config_change_during_transfer_member_partial
#print axioms Raft.C16Member.transfer_freezes_leader_member_partial
#print axioms Raft.C16Member.transfer_keeps_election_safety_member_partial
#print axioms Raft.C16Member.transfer_success_means_higher_term_member_partial
#print axioms Raft.C16Member.r4
#print axioms Raft.TransferMember.step_frozen
#print axioms Raft.TransferMember.handle_frozen
#print axioms Raft.TransferMember.handle_endM
#print axioms Raft.TransferMember.designated_by_tryTransferM
#print axioms Raft.TransferMember.transfer_ok_means_leftM
