/-
C06 — acknowledged entries are durable on a majority of the VOTERS OF THE CONFIGURATION IN FORCE — on the cluster-level
transition system WITH membership changes (`Raft.Member`, Sys/Member.lean; runs of `C08Member.ReachableR`: chains of
single-voter changes, promote / demote / remove, leader self-removal; crashes at any storage point + restart).

"The configuration in force" for a committed key `m` (`InForce x m C`): the configuration `C` carried by the LAST
CONFIGURATION ENTRY on the tree path to an entry `l` of `m`'s term at or above `m` — `l` is the last entry of the log of
the leader of that term at a moment it advanced its commit index to `m`, so `C` was that leader's `configs.latest` at
that moment (`C08Member.cfg_latest_member_partial`: `configs.latest` is the last configuration entry of the log; the
commit rule `majorityMatchIndex` reads the voters of `configs.latest`, self only if voter: `C06Cache`). The majority `Q`
comes from the commit record of the proof's ghost ledger (`MemberInv.RecOK`, one record per commit moment
`MemberCommit.SEv`); the STATEMENTS are ghost free.

"Durable": in the flushed part of the log (`DurableRel.DurablyHolds`: what `restart` reads); "crash safe": on the disk
image at EVERY storage point of EVERY step `TransR` admits (`MemberDurable.CrashSafeM`); `MemberDurable.KeepsM y v s k`:
node `v` keeps the entries `1 … k` of the log `s` durably (flushed, on every crash image, back after every restart);
`MemberDurable.Kept x v b`: `v` durably holds the key `b`, which lies at or below a ledger entry of a term `v` has
reached.

Theorems (all `_partial`: the restrictions of Props/C08Member.lean — no snapshots / compaction; every node bootstrapped
from the start; submitted configurations keep two action-free voters; `ReqG`; closed nodes frozen):
* `commit_durable_on_majority_member_partial`   — in every reachable state: every ledger entry, and every index within ANY
  node's commit index, is durably held (with everything before it) by a duplicate-free majority of the voters of a
  configuration in force for it; non-voters and non-members are not in `Q`;
* `leader_commit_moment_member_partial`          — the moment itself: in the very state in which a leader's commit index has
  moved, the leader has flushed up to the new index, the commit is in the ledger, and the majority exists;
* `committed_entry_stays_flushed_on_Q_partial`  — persistence: the SAME `Q` keeps the entries in every later state, on
  every crash image, after every restart; more generally every node that `Kept` a key keeps it for ever;
* `committed_entry_on_later_majorities_partial` — … and the acknowledging majority of every commit at or above it (under
  whatever later configuration) keeps it too;
* `no_loss_under_minority_crash_member_partial` — crash any set of nodes any number of times: `Q` still keeps everything,
  every majority of the voters of `C` contains a keeper, every later leader holds the entries;
* `nonvoter_ack_never_counts_partial` (also C11) — every commit moment of every step counts only voters of the
  configuration that is latest in the leader's log at that moment (a node just promoted counts only once the
  configuration entry that makes it a voter is in the leader's log), each backed by a recorded acknowledgement or the
  leader itself; node level: `nonvoter_matchIndex_irrelevant` — the index the commit rule selects does not depend on the
  match index of a non-voter.
-/
import RaftVerif.Lemmas.MemberDurableRun
import RaftVerif.Props.C06Cache
import RaftVerif.Props.AuditMember

namespace Raft
namespace C06Member
open Node Election LogRel Replication CommitRel Commit Member MemberCore QuorumRel MemberInv MemberCommit MemberStep
open MemberSide C08Member DurableRel MemberDurable MemberGood
open MemberStep.SM (recOf)

/-! ### the notions -/

/-- **`C` is a configuration in force for the committed key `m`**: the configuration carried by the last configuration
entry `D` on the tree path to an entry `l` of `m`'s term at or above `m` (the last entry of the committing leader's log
when its commit index moved to `m`: its `configs.latest` at that moment) -/
def InForce (x : Member.Sys) (m : K) (C : Config) : Prop :=
  ∃ l D, l.2 = m.2 ∧ Anc x.cm.T m l ∧ CfgAt x.cm.T D C l

/-- **`Q` is a duplicate-free majority of the VOTERS of the configuration `C`**: every member of `Q` is a voter of `C`
(`C.isVoter`; non-voters, nodes being promoted, removed nodes and non-members never count), and `Q` is more than half of
the (duplicate-free) voter list -/
structure VoterMajority (C : Config) (Q : List Nat) : Prop where
  cfg : CfgAll C
  nodup : Q.Nodup
  voter : ∀ v ∈ Q, C.isVoter v = true
  mem : ∀ v ∈ Q, v ∈ C.voters
  maj : 2 * Q.length > C.voters.length

theorem VoterMajority.voters_nodup {C : Config} {Q : List Nat} (h : VoterMajority C Q) : C.voters.Nodup :=
  h.cfg.voters_nodup

/-- a non-voter (or non-member) is not in the majority -/
theorem VoterMajority.not_mem {C : Config} {Q : List Nat} (h : VoterMajority C Q) {j : Nat}
    (hj : C.isVoter j = false) : j ∉ Q := fun hq => by
  have := h.voter j hq
  rw [hj] at this; cases this

/-- two majorities of the voters of one configuration share a member -/
theorem VoterMajority.intersect {C : Config} {Q S : List Nat} (hQ : VoterMajority C Q) (hS : VoterMajority C S) :
    ∃ v, v ∈ Q ∧ v ∈ S :=
  C01.quorums_intersect C.voters Q S hQ.voters_nodup hQ.nodup hS.nodup hQ.mem hS.mem
    (by have := hQ.maj; have := hS.maj; omega)

section core
variable {root : K} {x : Member.Sys} {G : Ghost}

/-- the configuration of a configuration entry of the tree is `CfgAll` -/
theorem cfgAt_all (h : RS root x G) {D : K} {C : Config} {a : K} (hc : CfgAt x.cm.T D C a) : CfgAll C := by
  obtain ⟨⟨c, hc, _, hcfg⟩, _, _⟩ := hc
  exact entOK_config (h.xinv.tree c hc) hcfg

/-- **the majority of a ledger entry**: a configuration in force, and a majority of its voters that keep the entry -/
theorem quorum_of_committed (h : RS root x G) {m : K} (hm : m ∈ x.cm.committed) :
    ∃ C Q, InForce x m C ∧ VoterMajority C Q ∧ ∀ v ∈ Q, Kept x v m := by
  obtain ⟨r, hr, e⟩ := h.inv.recs.cover m hm
  obtain ⟨r1, r2, D, cfg, r4, _, r6, r7, r8⟩ := rec_quorum h.inv h.sideT hr
  have hall := cfgAt_all h r4
  subst e
  refine ⟨cfg, r.Q, ⟨r.l, D, r1.symm, r2, r4⟩,
    ⟨hall, r6, fun v hv => (mem_voters_iff cfg (ids_nodup hall.sorted) v).mp (r7 v hv), r7, r8⟩,
    fun v hv => kept_of_rec h.inv h.sideT hr hm hv⟩

end core

/-! ### the theorems -/

/-- **C06, acknowledged entries are durable on a majority of the voters of the configuration in force — cluster level,
WITH membership changes (partial).** Let `x` be any state of the cluster reachable in `C08Member.ReachableR root` (a good
initial state: every node bootstrapped with one `CfgAll` configuration entry; then ANY sequence of: an open node handling
any enabled, well-formed operation — `.changeConfig` requests, configuration entries, promotions, demotions, removals
included —, a node dying at any storage point of such a step and restarting from disk, a leader putting on the wire an
append request read from its log; **restrictions (`_partial`)**: those of Props/C08Member.lean — no snapshots or
compaction, no fresh un-bootstrapped node, two action-free voters always remain). Then:

1. for every entry `m = (index, term)` of the ledger `committed` — put there in the very step in which a LEADER's commit
   index reaches it by the majority rule — there are a configuration `C` IN FORCE for `m` (`InForce`: the last
   configuration entry of the committing leader's log at that moment) and a duplicate-free majority `Q` of the VOTERS of
   `C` (`VoterMajority`: every member is a voter of `C`; non-voters and nodes not in `C` are not counted) such that every
   member of `Q` holds `m` in its DURABLE log (flushed: what `restart` reads), would still find it on its disk if it died
   at any storage point of any step (`CrashSafeM`), and `Kept`s it (the hypothesis of
   `committed_entry_stays_flushed_on_Q_partial`: for ever);
2. for every node `i` (leader or follower) and every index `k` within `i`'s commit index there are a ledger entry `m` at
   or above `(k, term of i's entry at k)`, a configuration `C` in force for `m` and such a majority `Q` whose members KEEP
   the entries `1 … k` of `i`'s log (`KeepsM`): flushed up to `k`; their disk returns, for EVERY index `1 ≤ k' ≤ k`, the
   very entry `i` holds at `k'` — entry `k` and all before it; so does every crash image; and a member that restarts
   holds these entries again. -/
theorem commit_durable_on_majority_member_partial (root : K) (x : Member.Sys) (hx : ReachableR root x) :
    (∀ m ∈ x.cm.committed, ∃ C Q, InForce x m C ∧ VoterMajority C Q ∧ ∀ v ∈ Q,
      DurablyHolds x.cm v m.1 m.2 ∧ CrashSafeM x v m.1 m.2 ∧ Kept x v m) ∧
    (∀ i k, 1 ≤ k → k ≤ (x.node i).commitIndex → ∃ m ∈ x.cm.committed, ∃ C Q,
      Anc x.cm.T (k, termAt (x.node i).log.entries k) m ∧ InForce x m C ∧ VoterMajority C Q ∧
      ∀ v ∈ Q, KeepsM x v (x.node i) k ∧ Kept x v (k, termAt (x.node i).log.entries k)) := by
  obtain ⟨G, h, _⟩ := rs_of hx
  refine ⟨fun m hm => ?_, fun i k hk hkc => ?_⟩
  · obtain ⟨C, Q, hC, hQ, hkept⟩ := quorum_of_committed h hm
    exact ⟨C, Q, hC, hQ, fun v hv =>
      ⟨(crashSafe_of_kept h (hkept v hv)).1, (crashSafe_of_kept h (hkept v hv)).2, hkept v hv⟩⟩
  · obtain ⟨hh, m, hm, _, hanc⟩ := C02Member.covered_committedM h.inv hk hkc
    obtain ⟨C, Q, hC, hQ, hkept⟩ := quorum_of_committed h hm
    refine ⟨m, hm, C, Q, hanc, hC, hQ, fun v hv => ?_⟩
    have hk' := (hkept v hv).anc h.inv hanc
    exact ⟨keepsM_of_kept h h.inv (fun _ hc => hc) hh hk', hk'⟩

/-- **C06, persistence across membership changes: the holder set `Q` keeps the entry for ever (partial; the assumptions
of `commit_durable_on_majority_member_partial`).** Let `x` be reachable.
1. General form: if node `v` KEEPS the key `b` in `x` (`Kept`: its durable log holds `b`, and `b` is at or below a ledger
   entry of a term `v` has reached — e.g. every member of the majorities of `commit_durable_on_majority_member_partial`),
   then in EVERY later state `y` (`RunR x y`: any further steps, elections, membership changes, truncations by later
   leaders, crashes, restarts) `v` still keeps `b`: it is in `v`'s durable log and on `v`'s disk at every storage point of
   every step; and for every node `i` whose log held `b` in `x`, `v` keeps the entries `1 … b.index` of that log
   (`KeepsM`). (By commit safety — `C02Member`: no request that is not stale conflicts with a protected index — the entry
   is never overwritten on `v`.)
2. For every ledger entry `m` of `x`: ONE configuration `C` in force for `m` and ONE majority `Q` of its voters hold `m`
   durably and crash-safely in `x` AND IN EVERY LATER STATE — whatever configurations the cluster moves to afterwards
   (members of `Q` may have been demoted or removed since: their disks still hold the entry).
3. For every node `i` and index `k` within `i`'s commit index in `x`: there is a ledger entry `m` at or above `i`'s entry
   at `k`, and one such `Q` (for a configuration in force for `m`) keeps the entries `1 … k` of `i`'s log in every later
   state. -/
theorem committed_entry_stays_flushed_on_Q_partial (root : K) (x : Member.Sys) (hx : ReachableR root x) :
    (∀ v b, Kept x v b → ∀ y, RunR x y → Kept y v b ∧ DurablyHolds y.cm v b.1 b.2 ∧ CrashSafeM y v b.1 b.2 ∧
      ∀ i, Holds (x.node i).log.entries b.1 b.2 → KeepsM y v (x.node i) b.1) ∧
    (∀ m ∈ x.cm.committed, ∃ C Q, InForce x m C ∧ VoterMajority C Q ∧ ∀ y, RunR x y → ∀ v ∈ Q,
      DurablyHolds y.cm v m.1 m.2 ∧ CrashSafeM y v m.1 m.2) ∧
    (∀ i k, 1 ≤ k → k ≤ (x.node i).commitIndex → ∃ m ∈ x.cm.committed, ∃ C Q,
      Anc x.cm.T (k, termAt (x.node i).log.entries k) m ∧ InForce x m C ∧ VoterMajority C Q ∧
      ∀ y, RunR x y → ∀ v ∈ Q, KeepsM y v (x.node i) k) := by
  obtain ⟨G, h, _⟩ := rs_of hx
  have gen : ∀ v b, Kept x v b → ∀ y, RunR x y → Kept y v b ∧ DurablyHolds y.cm v b.1 b.2 ∧ CrashSafeM y v b.1 b.2 ∧
      ∀ i, Holds (x.node i).log.entries b.1 b.2 → KeepsM y v (x.node i) b.1 := by
    intro v b hk y hrun
    obtain ⟨Gy, hy, _⟩ := rs_of (run_reachable hx hrun)
    have hky := hk.run hx hrun
    exact ⟨hky, (crashSafe_of_kept hy hky).1, (crashSafe_of_kept hy hky).2,
      fun i hh => keepsM_of_kept hy h.inv (run_grow hrun).1 hh hky⟩
  refine ⟨gen, fun m hm => ?_, fun i k hk hkc => ?_⟩
  · obtain ⟨C, Q, hC, hQ, hkept⟩ := quorum_of_committed h hm
    exact ⟨C, Q, hC, hQ, fun y hrun v hv =>
      ⟨(gen v m (hkept v hv) y hrun).2.1, (gen v m (hkept v hv) y hrun).2.2.1⟩⟩
  · obtain ⟨hh, m, hm, _, hanc⟩ := C02Member.covered_committedM h.inv hk hkc
    obtain ⟨C, Q, hC, hQ, hkept⟩ := quorum_of_committed h hm
    exact ⟨m, hm, C, Q, hanc, hC, hQ, fun y hrun v hv =>
      (gen v _ ((hkept v hv).anc h.inv hanc) y hrun).2.2.2 i hh⟩

/-- **C06, the chain of configurations: every later commit's majority holds the earlier commits too (partial).** In a
reachable state `x`, let `m` and `m'` be ledger entries with `m.index ≤ m'.index` (e.g. `m'` committed later, under a
configuration reached by any chain of single-voter changes). Then `m` lies on the path to `m'` (commit safety), and there
are a configuration `C'` in force for `m'` and a majority `Q'` of the voters of `C'` — the acknowledging majority of `m'`
— whose members hold `m` durably and crash-safely, in `x` and in every later state: the committed entry is flushed on a
majority of the voters of the configuration in force of EVERY commit at or above it. -/
theorem committed_entry_on_later_majorities_partial (root : K) (x : Member.Sys) (hx : ReachableR root x)
    (m m' : K) (hm : m ∈ x.cm.committed) (hm' : m' ∈ x.cm.committed) (hle : m.1 ≤ m'.1) :
    Anc x.cm.T m m' ∧ ∃ C' Q', InForce x m' C' ∧ VoterMajority C' Q' ∧ ∀ y, RunR x y → ∀ v ∈ Q',
      DurablyHolds y.cm v m.1 m.2 ∧ CrashSafeM y v m.1 m.2 := by
  obtain ⟨G, h, _⟩ := rs_of hx
  have hanc : Anc x.cm.T m m' := by
    rcases C02Member.ledger_chain h.inv h.sideT m hm m' hm' with c | c
    · exact c
    · have e : m' = m := c.eq_of_index (Nat.le_antisymm c.1 hle)
      rw [e]; rw [e] at c; exact c
  obtain ⟨C', Q', hC, hQ, hkept⟩ := quorum_of_committed h hm'
  refine ⟨hanc, C', Q', hC, hQ, fun y hrun v hv => ?_⟩
  have := (committed_entry_stays_flushed_on_Q_partial root x hx).1 v m ((hkept v hv).anc h.inv hanc) y hrun
  exact ⟨this.2.1, this.2.2.1⟩

/-- EXAMPLE (why the statement is about the configurations in force of COMMITS, not about every configuration that is
`latest` at a leader): voters `V = {1,2,3}`, the entry is held by the majority `Q = {1,2}`; the leader demotes the holder 2:
the new configuration has the voters `V' = {1,3}`, and the holders among them — `{1}` — are NOT a majority of `V'` until
node 3 has caught up (which it must have before anything is committed under `V'`: then
`committed_entry_on_later_majorities_partial` applies). Safety does not need more: every majority of `V'` meets `Q`
(adjacent configurations, `QuorumRel.adjacent_quorums_intersect`). -/
example : 2 * [1, 2].length > [1, 2, 3].length ∧
    ¬ (2 * ([1, 2].filter (fun v => decide (v ∈ [1, 3]))).length > [1, 3].length) ∧
    ∀ S : List Nat, S.Nodup → (∀ v ∈ S, v ∈ [1, 3]) → 2 * S.length > [1, 3].length → ∃ v, v ∈ [1, 2] ∧ v ∈ S :=
  ⟨by decide, by decide, fun S hS hsub hlen =>
    adjacent_quorums_intersect [1, 2, 3] [1, 3] [1, 2] S (by decide) (by decide) (by decide) hS
      ⟨2, fun x hx => by simp; omega⟩ (by decide) hsub (by decide) hlen⟩

/-! ### crashes -/

/-- a burst of crashes: nodes of the list `F` die — each at any storage point of any step `TransR` admits (or between two
steps), any number of times, in any order — and restart from disk; nothing else happens -/
inductive CrashRunR (F : List Nat) (x : Member.Sys) : Member.Sys → Prop
  | refl : CrashRunR F x x
  | crash (y : Member.Sys) (i : Nat) (op : Op) (ra : List Nat) (ord : List (List Nat)) (src k retain : Nat)
      (sor : Bool) (n : Node) : CrashRunR F x y → i ∈ F → Member.Enabled y i op src → ReqG y i op →
      ((y.node i).closed = "" ∨ k = 0) → 1 ≤ retain →
      Node.restart (C05.crashDisk (y.node i) op ra ord k) retain sor = some n → CrashRunR F x (crashM y i op n)

/-- a burst of crashes is a run of the system -/
theorem crashRun_run {F : List Nat} {x y : Member.Sys} (h : CrashRunR F x y) : RunR x y := by
  induction h with
  | refl => exact .refl
  | crash y i op ra ord src k retain sor n _ _ he hg ho hr hn ih =>
    exact .next y _ ih (.crash i op ra ord src k retain sor n he hg ho hr hn)

/-- the nodes outside `F` are untouched, nothing is added to the ledgers of acknowledgements and commits -/
theorem crashRun_other {F : List Nat} {x y : Member.Sys} (h : CrashRunR F x y) :
    (∀ j, j ∉ F → y.node j = x.node j) ∧ y.cm.acks = x.cm.acks ∧ y.cm.committed = x.cm.committed := by
  induction h with
  | refl => exact ⟨fun _ _ => rfl, rfl, rfl⟩
  | crash y i op ra ord src k retain sor n _ hi _ _ _ _ _ ih =>
    refine ⟨fun j hj => ?_, ih.2.1, ih.2.2⟩
    have hne : j ≠ i := fun e => hj (e ▸ hi)
    rw [← ih.1 j hj]
    show setNode y.cm.rp.el.node i n j = _
    rw [setNode_other _ _ _ _ hne]

/-- **every later leader holds what was within a commit index** (leader completeness along a run) -/
theorem leader_holds_ever {root : K} {x z : Member.Sys} (hx : ReachableR root x) (hrun : RunR x z) {j k : Nat}
    (hk : 1 ≤ k) (hkc : k ≤ (x.node j).commitIndex) {l : Nat} (hl : (z.node l).role = .leader)
    (ht : (x.node j).term ≤ (z.node l).term) :
    ∀ k', 1 ≤ k' → k' ≤ k →
      (z.node l).log.get? k' = (x.node j).log.get? k' ∧ ((x.node j).log.get? k').isSome = true := by
  obtain ⟨Gx, h, _⟩ := rs_of hx
  obtain ⟨Gz, hz, _⟩ := rs_of (run_reachable hx hrun)
  obtain ⟨hT, _, hC⟩ := run_grow hrun
  obtain ⟨hh, m, hm, m1, hanc⟩ := C02Member.covered_committedM h.inv hk hkc
  have hml := C02Member.leader_holds_committedM hz.inv hz.sideT hl (hC m hm) (Nat.le_trans m1 ht)
  have hkl := log_holds_ancM hz.inv l (hanc.mono hT) hml
  intro k' h1 hle
  obtain ⟨e1, e2⟩ := get?_some_of_holds (nwfM h.inv j) hh h1 hle
  refine ⟨?_, e2⟩
  rw [e1, (get?_some_of_holds (nwfM hz.inv l) hkl h1 hle).1]
  exact path_agree (uniqM hz.inv) (log_pathM hz.inv l) ((log_pathM h.inv j).mono hT) hkl hh k' h1 hle

/-- **C06, no acknowledged update is lost when nodes crash, across membership changes (partial; the assumptions of
`commit_durable_on_majority_member_partial`).** Let `x` be reachable and let the nodes of ANY list `F` — a minority of the
voters, the leader, non-voters, or even all nodes — die, each at any storage point of any step (or between steps), any
number of times, and restart from what is on their disks (`CrashRunR F x y`; the nodes outside `F` are untouched:
`crashRun_other`). Then for every index `k` that was within the commit index of some node `j` in `x` (so a client may have
been told that the update at `k` succeeded) there are a configuration `C` in force for the commit and a majority `Q` of
the voters of `C` such that:
1. every member of `Q` still keeps, in `y`, every entry `1 ≤ k' ≤ k` durably, exactly as `j` held it in `x` (`KeepsM`:
   flushed, on disk whenever the node may die again, back in the log after any further restart);
2. hence EVERY majority `S` of the voters of `C` — e.g. the voters that are still alive if the others never come back —
   contains a node that does;
3. in every state `z` after `y` (any further steps, crashes, elections, membership changes) `Q` still keeps them, and
   every leader whose term is at least the term `j` had in `x` holds at every index `1 ≤ k' ≤ k` the very entry `j` held
   there in `x` (leader completeness, `C02Member`).
(A crashed node keeps its disk; a node that never restarts is a node that takes no further step, which every run
allows. So the statement needs no bound on `F`; the bound is what statement 2 is about.) -/
theorem no_loss_under_minority_crash_member_partial (root : K) (x y : Member.Sys) (hx : ReachableR root x)
    (F : List Nat) (hc : CrashRunR F x y) (j k : Nat) (hk : 1 ≤ k) (hkc : k ≤ (x.node j).commitIndex) :
    ∃ C Q, VoterMajority C Q ∧ (∃ m ∈ x.cm.committed, InForce x m C ∧ k ≤ m.1) ∧
      (∀ v ∈ Q, KeepsM y v (x.node j) k) ∧
      (∀ S, VoterMajority C S → ∃ v ∈ S, KeepsM y v (x.node j) k) ∧
      (∀ z, RunR y z →
        (∀ v ∈ Q, KeepsM z v (x.node j) k) ∧
        ∀ l, (z.node l).role = .leader → (x.node j).term ≤ (z.node l).term → ∀ k', 1 ≤ k' → k' ≤ k →
          (z.node l).log.get? k' = (x.node j).log.get? k' ∧ ((x.node j).log.get? k').isSome = true) := by
  have hxy := crashRun_run hc
  obtain ⟨m, hm, C, Q, hanc, hC, hQ, hall⟩ := (committed_entry_stays_flushed_on_Q_partial root x hx).2.2 j k hk hkc
  have hkm : k ≤ m.1 := hanc.1
  exact ⟨C, Q, hQ, ⟨m, hm, hC, hkm⟩, fun v hv => hall y hxy v hv,
    fun S hS => by
      obtain ⟨v, hvQ, hvS⟩ := hQ.intersect hS
      exact ⟨v, hvS, hall y hxy v hvQ⟩,
    fun z hyz => ⟨fun v hv => hall z (hxy.trans hyz) v hv,
      fun l hl ht => leader_holds_ever hx (hxy.trans hyz) hk hkc hl ht⟩⟩

/-! ### the commit moment -/

theorem not_append_of {op : Op} (h : isAppend op = false) : ∀ q, op ≠ .append q := fun q e => by
  rw [e] at h; cases h

/-- what is known of the step in which the commit index of a leader moves (`LeaderCommit`): `T` is the leader's term, `len`
the length of its log at the (last) commit moment of the step, `C` the last configuration entry of the log of that moment,
`Q` the nodes that were counted -/
structure Moment (x : Member.Sys) (i : Nat) (post : Node) (y : Member.Sys) (len : Nat) (C : Config) (Q : List Nat) :
    Prop where
  /-- the node was leader before the step; the entry its commit index reaches carries its term -/
  leader : (x.node i).role = .leader
  term : termAt post.log.entries post.commitIndex = (x.node i).term
  holds : Holds post.log.entries post.commitIndex (x.node i).term
  /-- the leader flushed its own log up to the index BEFORE the commit index moved -/
  flushed : post.commitIndex ≤ post.log.flushed
  lenGe : post.commitIndex ≤ len
  lenLe : len ≤ post.log.entries.length
  /-- `C` is the last configuration entry of the leader's log at that moment … -/
  cfg : CfgLast (post.log.entries.take len) C
  /-- … its `configs.latest` after the step, unless the step appended something after the commit moment -/
  latest : len = post.log.entries.length → C = post.configs.latest
  force : InForce y (post.commitIndex, (x.node i).term) C
  maj : VoterMajority C Q
  /-- who is counted: the leader itself, or a node whose match index is backed by a recorded acknowledgement, in the
  leader's term, of an index at or beyond the new commit index -/
  counted : ∀ j ∈ Q, j = i ∨ ∃ a ∈ x.cm.acks, a.voter = j ∧ a.term = (x.node i).term ∧ post.commitIndex ≤ a.index
  /-- the ledger records the commit, and every counted node keeps the entry -/
  ledger : (post.commitIndex, (x.node i).term) ∈ y.cm.committed
  kept : ∀ v ∈ Q, Kept y v (post.commitIndex, (x.node i).term)

/-- **the commit moment** of a step of a reachable state -/
theorem commit_moment {root : K} {x : Member.Sys} {G : Ghost} (h : RS root x G) {i : Nat} {op : Op} {ra : List Nat}
    {ord : List (List Nat)} {src : Nat} (he : Member.Enabled x i op src) (hg : ReqG x i op)
    (ho : (x.node i).closed = "") (hlc : LeaderCommit op (x.node i) ((x.node i).step op ra ord)) :
    ∃ len C Q, Moment x i ((x.node i).step op ra ord) (stepM x i op ra ord src) len C Q := by
  obtain ⟨hp, _⟩ := C15NoPanic.good_step_two _ op ra ord (h.xinv.good i) ho (reqok h.inv h.xinv he hg)
  have sm : MemberStep.SM x G i op ra ord src := ⟨h.inv, h.sideM, he, fun _ => hp⟩
  have happ := not_append_of hlc.1
  obtain ⟨T, L, m⟩ := sm.evs happ
  rcases sm.head_ev m with ⟨_, e⟩ | ⟨ev, hev, e, _⟩
  · have := hlc.2
    have e' : ((x.node i).step op ra ord).commitIndex = (x.node i).commitIndex := e
    omega
  · have e' : ((x.node i).step op ra ord).commitIndex = ev.ci := e
    obtain ⟨E', hI'⟩ := minv_step_evs sm happ m
    have hy : ReachableR root (stepM x i op ra ord src) := .next x _ h.reach (.step i op ra ord src he hg ho)
    have hy' := rs_with hy hI'
    obtain ⟨hl, hT⟩ := sm.ev_leader m (List.ne_nil_of_mem hev)
    obtain ⟨a1, a2, a3, a4, hci, afl, acl, aq1, aq2, aq3⟩ := m.ev ev hev
    have hlenT := sm.ev_terms happ m hev a2 a4
    have hni := sm.node_i
    obtain ⟨D, hD, _⟩ := cfgAt_of_log sm.ry i ev.len hlenT.1 (by rw [hni]; exact a4) (by rw [hni]; exact acl)
    rw [hni, hlenT.2.2] at hD
    have hall : CfgAll ev.cfg := cfgAt_all hy' hD
    have hr : recOf T ev ∈ (⟨G.root, L.map (recOf T) ++ G.R, E', G.SA⟩ : Ghost).R :=
      List.mem_append_left _ (List.mem_map.mpr ⟨ev, hev, rfl⟩)
    have hmem : (ev.ci, T) ∈ (stepM x i op ra ord src).cm.committed := by
      apply List.mem_append_left
      unfold newCommit
      rw [if_pos hlc, e', hci.2.2]
      exact List.mem_singleton.mpr rfl
    subst hT
    refine ⟨ev.len, ev.cfg, ev.Q, hl, by rw [e']; exact hci.2.2, by rw [e']; exact hci, by rw [e']; exact afl,
      by rw [e']; exact a2, a4, acl, fun hlen => ?_,
      by rw [e']; exact ⟨(ev.len, (x.node i).term), D, rfl, sm.panc hci hlenT a2, hD⟩,
      ⟨hall, hall.voters_nodup.sublist aq1,
        fun v hv => (mem_voters_iff ev.cfg (ids_nodup hall.sorted) v).mp (aq1.subset hv), fun v hv => aq1.subset hv, aq2⟩,
      fun j hj => ?_, by rw [e']; exact hmem, fun v hv => by rw [e']; exact kept_of_rec hI' hy'.sideT hr hmem hv⟩
    · have c1 := acl
      have hlen' : ev.len = sm.post.log.entries.length := hlen
      rw [hlen', List.take_length] at c1
      exact cfgLast_unique sm.nwf_post.contig c1 m.cl
    · rw [e']
      rcases aq3 j hj with e0 | ⟨_, _, mm, hm1, a, ha, b1, b2, b3⟩
      · exact Or.inl (by rw [e0, sm.nid_pre])
      · exact Or.inr ⟨a, ha, b1, b2, by omega⟩

/-- **C06, the moment a leader's commit index moves, across membership changes (partial; the assumptions of
`commit_durable_on_majority_member_partial`).** Let `x` be reachable and let the open node `i` handle an enabled,
well-formed operation that is not an append request such that its commit index moves (`LeaderCommit`: the leader-side
majority rule; `N` is the new commit index, `τ` the term of the entry at `N`); `y = stepM x i op ra ord src` is the
resulting state. Then in `y` — the very state in which the commit index has moved, before any client is told:
1. `i` was leader, `τ` is its term, and the ledgers record the commit `(N, τ)`;
2. the leader's own log is flushed up to `N` at least, its durable log holds `(N, τ)` and returns from disk every entry
   `1 ≤ k' ≤ N` of its log (`leader.setCommitIndex` = `commitLog(N)` THEN move the index) — whether or not the leader
   counted itself;
3. there are `len`, `C`, `Q`: `C` is the last configuration entry of the leader's log at the commit moment (its first `len`
   entries, `N ≤ len`; `C` is the leader's `configs.latest` after the step unless the step appended entries after that
   moment), hence IN FORCE for `(N, τ)`; `Q` is a duplicate-free majority of the VOTERS of `C`; every counted node is the
   leader itself — only if it is a voter of `C` — or a node whose match index is backed by a recorded acknowledgement, in
   the leader's term, of an index `≥ N`;
4. every member of `Q` keeps all entries of the leader's log up to `N` durably, in `y` AND IN EVERY LATER STATE (`KeepsM`:
   flushed — "at that moment" —, on every crash image, back after every restart). -/
theorem leader_commit_moment_member_partial (root : K) (x : Member.Sys) (hx : ReachableR root x) (i : Nat) (op : Op)
    (ra : List Nat) (ord : List (List Nat)) (src : Nat) (he : Member.Enabled x i op src) (hg : ReqG x i op)
    (ho : (x.node i).closed = "") (hlc : LeaderCommit op (x.node i) ((x.node i).step op ra ord)) :
    let y := stepM x i op ra ord src
    let N := (y.node i).commitIndex
    let τ := termAt (y.node i).log.entries N
    ((x.node i).role = .leader ∧ τ = (x.node i).term ∧ (N, τ) ∈ y.cm.committed) ∧
    (N ≤ (y.node i).log.flushed ∧ DurablyHolds y.cm i N τ ∧ SameOnDisk (y.node i).durable (y.node i) N) ∧
    ∃ len C Q, N ≤ len ∧ len ≤ (y.node i).log.entries.length ∧ CfgLast ((y.node i).log.entries.take len) C ∧
      (len = (y.node i).log.entries.length → C = (y.node i).configs.latest) ∧ InForce y (N, τ) C ∧
      VoterMajority C Q ∧ (i ∈ Q → C.isVoter i = true) ∧
      (∀ j ∈ Q, j = i ∨ ∃ a ∈ x.cm.acks, a.voter = j ∧ a.term = (x.node i).term ∧ N ≤ a.index) ∧
      ∀ z, RunR y z → ∀ v ∈ Q, KeepsM z v (y.node i) N := by
  intro y N τ
  obtain ⟨G, h, _⟩ := rs_of hx
  obtain ⟨len, C, Q, mo⟩ := commit_moment h he hg ho hlc (ra := ra) (ord := ord)
  have hy : ReachableR root y := .next x _ hx (.step i op ra ord src he hg ho)
  obtain ⟨Gy, hys, _⟩ := rs_of hy
  have hni : y.node i = (x.node i).step op ra ord := by
    show setNode x.cm.rp.el.node i _ i = _
    rw [setNode_same]
  have hτ : τ = (x.node i).term := by
    show termAt (y.node i).log.entries (y.node i).commitIndex = _
    rw [hni]; exact mo.term
  have hh : Holds (y.node i).log.entries N τ := by
    show Holds (y.node i).log.entries (y.node i).commitIndex τ
    rw [hτ, hni]; exact mo.holds
  have hfl : N ≤ (y.node i).log.flushed := by
    show (y.node i).commitIndex ≤ _
    rw [hni]; exact mo.flushed
  have hNτ : (N, τ) = (((x.node i).step op ra ord).commitIndex, (x.node i).term) := by
    show ((y.node i).commitIndex, τ) = _
    rw [hτ, hni]
  refine ⟨⟨mo.leader, hτ, by rw [hNτ]; exact mo.ledger⟩,
    ⟨hfl, (durable_holds_iff (nwfM hys.inv i)).mpr ⟨hfl, hh⟩, fun k' h1 hle => ?_⟩,
    len, C, Q, ?_, ?_, ?_, ?_, by rw [hNτ]; exact mo.force, mo.maj, fun hi => mo.maj.voter i hi, ?_, ?_⟩
  · obtain ⟨e1, e2⟩ := get?_some_of_holds (nwfM hys.inv i) hh h1 hle
    exact ⟨durable_get? (nwfM hys.inv i) (Nat.le_trans hle hfl), e2⟩
  · show (y.node i).commitIndex ≤ len
    rw [hni]; exact mo.lenGe
  · rw [hni]; exact mo.lenLe
  · rw [hni]; exact mo.cfg
  · rw [hni]; exact mo.latest
  · show ∀ j ∈ Q, j = i ∨ ∃ a ∈ x.cm.acks, a.voter = j ∧ a.term = (x.node i).term ∧ (y.node i).commitIndex ≤ a.index
    rw [hni]; exact mo.counted
  · intro z hrun v hv
    have hk : Kept y v (N, τ) := by rw [hNτ]; exact mo.kept v hv
    exact ((committed_entry_stays_flushed_on_Q_partial root y hy).1 v (N, τ) hk z hrun).2.2.2 i hh

/-- **C06 / C11, acknowledgements of non-voters never count, across membership changes (partial; the assumptions of
`commit_durable_on_majority_member_partial`).** Let `x` be reachable and let the open node `i` handle an enabled,
well-formed operation — e.g. a batch of match-index reports, from voters, non-voters, nodes being promoted — such that
its commit index moves. Let `C` be the LAST CONFIGURATION ENTRY OF THE LEADER'S LOG AT THE COMMIT MOMENT (the first `len`
entries of its log after the step) and `Q` the nodes counted (`Moment`). Then:
1. every node `j` that is not a voter of `C` — a non-voter, a node whose promotion is still pending, a removed node, a
   node that is no member of `C` — is NOT in `Q`, whatever match index was reported for it: the commit stands on a
   majority of the voters of `C` alone, each of them the leader itself or backed by a recorded acknowledgement in the
   leader's term;
2. the leader counts itself only if it is a voter of `C`;
3. a node that IS counted is a voter under a configuration entry that the leader's log holds at that moment: a node just
   promoted counts only from the configuration entry that makes it a voter on (there is an entry `e` among the first `len`
   entries of the leader's log that carries `C`, and `C.isVoter j`).
(Node level: `nonvoter_matchIndex_irrelevant` — the index `majorityMatchIndex` selects does not depend on the replication
status of a non-voter; `C06Cache.nonvoter_ack_never_counts`.) -/
theorem nonvoter_ack_never_counts_partial (root : K) (x : Member.Sys) (hx : ReachableR root x) (i : Nat) (op : Op)
    (ra : List Nat) (ord : List (List Nat)) (src : Nat) (he : Member.Enabled x i op src) (hg : ReqG x i op)
    (ho : (x.node i).closed = "") (hlc : LeaderCommit op (x.node i) ((x.node i).step op ra ord)) :
    ∃ len C Q, Moment x i ((x.node i).step op ra ord) (stepM x i op ra ord src) len C Q ∧
      (∀ j, C.isVoter j = false → j ∉ Q) ∧ (C.isVoter i = false → i ∉ Q) ∧
      (∀ j ∈ Q, C.isVoter j = true ∧
        ∃ e ∈ ((x.node i).step op ra ord).log.entries.take len, e.config? = some C) := by
  obtain ⟨G, h, _⟩ := rs_of hx
  obtain ⟨len, C, Q, mo⟩ := commit_moment h he hg ho hlc (ra := ra) (ord := ord)
  exact ⟨len, C, Q, mo, fun j hj => mo.maj.not_mem hj, fun hj => mo.maj.not_mem hj,
    fun j hj => ⟨mo.maj.voter j hj, mo.cfg.1⟩⟩

/-! ### node level: the commit rule does not read the replication status of a non-voter -/

theorem find?_insertRepl_ne (r : Repl) (id : Nat) (h : r.id ≠ id) :
    ∀ l : List Repl, (insertRepl r l).find? (·.id == id) = l.find? (·.id == id)
  | [] => by
    have : (r.id == id) = false := by simpa using h
    simp [insertRepl, List.find?, this]
  | m :: ms => by
    have hr : (r.id == id) = false := by simpa using h
    unfold insertRepl
    split
    · rw [List.find?_cons_of_neg (by simpa using h)]
    · split
      · rename_i e
        have hm : (m.id == id) = false := by rw [← e]; exact hr
        rw [List.find?_cons_of_neg (by simpa using h), List.find?_cons_of_neg (by rw [← e]; simpa using h)]
      · by_cases hm : (m.id == id) = true
        · simp only [List.find?, hm]
        · have hm' : (m.id == id) = false := by simpa using hm
          simp only [List.find?, hm']
          exact find?_insertRepl_ne r id h ms

theorem findRepl?_setRepl_ne (s : Node) (r : Repl) (id : Nat) (h : r.id ≠ id) :
    (s.setRepl r).findRepl? id = s.findRepl? id := by
  unfold Node.findRepl? Node.setRepl
  exact find?_insertRepl_ne r id h s.ldr.repls

theorem any_congr_mem {α : Type} {p q : α → Bool} : ∀ {l : List α}, (∀ a ∈ l, p a = q a) → l.any p = l.any q
  | [], _ => rfl
  | a :: l, h => by
    rw [List.any_cons, List.any_cons, h a (List.mem_cons_self ..),
      any_congr_mem (fun b hb => h b (List.mem_cons_of_mem _ hb))]

/-- **C06 / C11, node level: the index the commit rule selects does not depend on a non-voter's replication status.**
For ANY node state `s` whose latest configuration has distinct member ids, and any replication status `r` (match index,
round, flags — all arbitrary) of a node that is NOT a voter of `s.configs.latest` (a non-voter, a node being promoted, a
non-member): storing `r` (`leader.repls[r.id] = r`; what `replication.onAppendEntriesResp` → `checkReplUpdates` does with a
`matchIndex` report: `Node.setRepl { st with matchIndex := v }`) changes neither the list of match indexes the leader
attributes to the voters (`voterMatches`) nor the index `leader.majorityMatchIndex` selects. So the report of a non-voter
never moves the commit index by itself — it can only trigger the promotion (`checkConfigAction`), and the node counts from
the configuration entry that makes it a voter on (`nonvoter_ack_never_counts_partial`). -/
theorem nonvoter_matchIndex_irrelevant (s : Node) (hnd : C06Cache.IdsNodup s.configs.latest) (r : Repl)
    (hv : s.configs.latest.isVoter r.id = false) :
    (s.setRepl r).voterMatches = s.voterMatches ∧ (s.setRepl r).majorityMatchIndex = s.majorityMatchIndex := by
  have hne : ∀ n ∈ s.configs.latest.nodes.filter (·.voter), r.id ≠ n.id := by
    intro n hn e
    obtain ⟨hn1, hn2⟩ := List.mem_filter.mp hn
    have := C06Cache.find_of_nodup _ hnd n hn1
    unfold Config.isVoter Config.find? at hv
    rw [e, this] at hv
    have hv' : n.voter = false := hv
    rw [hv'] at hn2; cases hn2
  have hf : ∀ n ∈ s.configs.latest.nodes.filter (·.voter), (s.setRepl r).findRepl? n.id = s.findRepl? n.id :=
    fun n hn => findRepl?_setRepl_ne s r n.id (hne n hn)
  have hvm : (s.setRepl r).voterMatches = s.voterMatches := by
    unfold Node.voterMatches
    show (s.configs.latest.nodes.filter (·.voter)).map (fun n =>
      if n.id = s.nid then s.lastLogIndex else (((s.setRepl r).findRepl? n.id).map (·.matchIndex)).getD 0) = _
    apply List.map_congr_left
    intro n hn
    rw [hf n hn]
  refine ⟨hvm, ?_⟩
  unfold Node.majorityMatchIndex
  rw [hvm]
  have hmiss : (s.configs.latest.nodes.filter (·.voter)).any
        (fun n => n.id != s.nid && ((s.setRepl r).findRepl? n.id).isNone) =
      (s.configs.latest.nodes.filter (·.voter)).any (fun n => n.id != s.nid && (s.findRepl? n.id).isNone) :=
    any_congr_mem (fun n hn => by rw [hf n hn])
  show (if s.ldr.numVoters = 1 ∧ s.ldr.node.voter = true then (s.lastLogIndex, true) else
    (((s.voterMatches.mergeSort geB)[s.voterMatches.length / 2 + 1 - 1]?).getD 0,
      !(s.configs.latest.nodes.filter (·.voter)).any
        (fun n => n.id != s.nid && ((s.setRepl r).findRepl? n.id).isNone) &&
        decide (s.configs.latest.nodes.length > 0))) = _
  rw [hmiss]

/-- a replication status of node 3 — a non-voter being promoted — with an arbitrary match index -/
def exRepl3 (v : Nat) : Repl :=
  { id := 3, node := { id := 3, addr := "c:1", voter := false, action := actPromote }, matchIndex := v }

/-- EXAMPLE (`C06Cache.exLeader`: node 1 leads {1 voter, 2 voter, 3 non-voter being promoted}; node 2 acknowledged index 2,
the non-voter 3 acknowledged 3): the hypotheses hold for the replication of node 3 with ANY match index — so the selected
index stays what it is -/
example (v : Nat) :
    (C06Cache.exLeader.setRepl (exRepl3 v)).majorityMatchIndex = C06Cache.exLeader.majorityMatchIndex :=
  (nonvoter_matchIndex_irrelevant C06Cache.exLeader (by unfold C06Cache.IdsNodup; decide) (exRepl3 v)
    (show C06Cache.exLeader.configs.latest.isVoter 3 = false by decide)).2

/-! ### Examples (non-vacuity) — the run `m1 … m21` of Props/AuditMember.lean (PROVED reachable there: `q1 … q21`): three
voters 1, 2, 3; node 1 is elected in term 2 and commits its no-op (2,2) (`m7`); a client asks to add node 4 as a non-voter
to be promoted: configuration (3,2) (`m8`), replicated to 2, 3 and the new node 4 (`m13`: node 4 — a NON-VOTER — has
acknowledged index 3); the reports of 2 and 3 commit it (`m14`); the report of node 4 triggers its promotion:
configuration (4,2), voters 1, 2, 3, 4 (`m15`), replicated to all (`m19`); node 4 crashes and restarts (`m20`); the reports
of 2 and 3 commit index 4 by three of four voters (`m21`). -/

section examples
open AuditMember
open C07Sys (altPost)

set_option maxRecDepth 100000 in
/-- the last step of the run: the leader 1 handles the match-index reports of the nodes 2 and 3 in `m20` -/
theorem ex21_en : Member.Enabled m20 1 (.replUpdates (mUpd 4)) 0 ∧ ReqG m20 1 (.replUpdates (mUpd 4)) :=
  enM_upd _ 1 _ (by decide) (mUpd_only 4)
    (mUpd_backed _ 1 4 ⟨2, 2, 4, 2⟩ ⟨3, 2, 4, 2⟩ (by decide +kernel) (by decide +kernel) (by decide +kernel)
      (by decide +kernel))

set_option maxRecDepth 100000 in
theorem ex21_open : (m20.node 1).closed = "" := by decide +kernel

set_option maxRecDepth 100000 in
theorem ex21_lc : LeaderCommit (.replUpdates (mUpd 4)) (m20.node 1) ((m20.node 1).step (.replUpdates (mUpd 4)) [] []) := by
  rw [st20]; exact ⟨rfl, by decide +kernel⟩

theorem ex21_run : RunR m20 m21 := by
  have := RunR.next m20 _ .refl (.step 1 (.replUpdates (mUpd 4)) [] [] 0 ex21_en.1 ex21_en.2 ex21_open)
  rw [m21_eq] at this
  exact this

set_option maxRecDepth 100000 in
/-- node 4 dies between two steps in `m19` and restarts from its disk: a burst of crashes of the set `{4}` -/
theorem ex20_crash : CrashRunR [4] m19 m20 :=
  .crash m19 4 .timeout [] [] 0 0 1 true k4 .refl (List.mem_singleton.mpr rfl)
    (enM_plain _ 4 _ (by decide) rfl).1 (enM_plain _ 4 _ (by decide) rfl).2 (Or.inr rfl) (Nat.le_refl _) k4_restart

set_option maxRecDepth 100000 in
/-- EXAMPLE: the hypotheses of `commit_durable_on_majority_member_partial`, `committed_entry_stays_flushed_on_Q_partial`,
`committed_entry_on_later_majorities_partial` and `no_loss_under_minority_crash_member_partial` are satisfiable on the
non-trivial states of the run: `m19` / `m20` / `m21` are reachable, `m21` is a later state of `m20`, `m20` results from
`m19` by a crash of node 4; in `m19` the commit index of the leader covers index 3 (the configuration entry (3,2) that made
node 4 a member), the ledger holds (3,2) and (2,2); in `m21` it holds (4,2), (3,2), (2,2) -/
example : ReachableR (1, 1) m19 ∧ ReachableR (1, 1) m21 ∧ RunR m20 m21 ∧ CrashRunR [4] m19 m20 ∧
    (1 ≤ 3 ∧ 3 ≤ (m19.node 1).commitIndex) ∧ (3, 2) ∈ m19.cm.committed ∧ (2, 2) ∈ m19.cm.committed ∧
    m21.cm.committed = [(4, 2), (3, 2), (2, 2)] :=
  ⟨q19.1, q21.1, ex21_run, ex20_crash, ⟨by decide, by decide +kernel⟩, by decide +kernel, by decide +kernel,
    runM_facts.2.2.2.2.2.2.2.1⟩

/-- EXAMPLE (the conclusions, on the run): after the crash of node 4, a majority of the voters of a configuration in force
still keeps the entries 1 … 3 of the leader's log of `m19`, every majority of those voters contains a keeper, and they
keep them in `m21` — after node 4 (promoted meanwhile) helped… or not: the statement does not depend on it -/
example : ∃ C Q, VoterMajority C Q ∧ (∀ v ∈ Q, KeepsM m20 v (m19.node 1) 3) ∧
    (∀ S, VoterMajority C S → ∃ v ∈ S, KeepsM m20 v (m19.node 1) 3) ∧ ∀ v ∈ Q, KeepsM m21 v (m19.node 1) 3 := by
  obtain ⟨C, Q, hQ, _, h1, h2, h3⟩ :=
    no_loss_under_minority_crash_member_partial (1, 1) m19 m20 q19.1 [4] ex20_crash 1 3 (by decide) (by decide +kernel)
  exact ⟨C, Q, hQ, h1, h2, (h3 m21 ex21_run).1⟩

/-- EXAMPLE: the hypotheses of `leader_commit_moment_member_partial` and `nonvoter_ack_never_counts_partial` are
satisfiable — the step `m20 → m21` (the commit of index 4 under the configuration (4,2) with the voters 1, 2, 3, 4) — and
their conclusion there: the commit stands on a majority of the voters of the last configuration entry of the leader's log -/
example : ∃ len C Q, Moment m20 1 ((m20.node 1).step (.replUpdates (mUpd 4)) [] [])
    (stepM m20 1 (.replUpdates (mUpd 4)) [] [] 0) len C Q ∧ ∀ j, C.isVoter j = false → j ∉ Q := by
  obtain ⟨len, C, Q, mo, h, _⟩ := nonvoter_ack_never_counts_partial (1, 1) m20 q20.1 1 _ [] [] 0 ex21_en.1 ex21_en.2
    ex21_open ex21_lc
  exact ⟨len, C, Q, mo, h⟩

set_option maxRecDepth 100000 in
/-- the step `m13 → m14`: the reports of the voters 2 and 3 reach the leader while the NON-VOTER 4 has already acknowledged
index 3 (its acknowledgement (4, term 2, index 3) is in the ledger `acks` of `m13`) -/
theorem ex14_en : Member.Enabled m13 1 (.replUpdates (mUpd 3)) 0 ∧ ReqG m13 1 (.replUpdates (mUpd 3)) :=
  enM_upd _ 1 _ (by decide) (mUpd_only 3)
    (mUpd_backed _ 1 3 ⟨2, 2, 3, 2⟩ ⟨3, 2, 3, 2⟩ (by decide +kernel) (by decide +kernel) (by decide +kernel)
      (by decide +kernel))

set_option maxRecDepth 100000 in
/-- EXAMPLE (a promotion in progress): in the step `m13 → m14` the leader commits index 3. Node 4 — a non-voter with a
pending promotion — HAS acknowledged index 3 in the leader's term, yet it is NOT among the nodes counted: the
configuration in force is the leader's latest configuration (3,2), whose voters are 1, 2, 3 -/
example : (⟨4, 2, 3, 2⟩ : Ack) ∈ m13.cm.acks ∧
    ∃ len C Q, Moment m13 1 ((m13.node 1).step (.replUpdates (mUpd 3)) [] [])
      (stepM m13 1 (.replUpdates (mUpd 3)) [] [] 0) len C Q ∧ C.voters = [1, 2, 3] ∧ 4 ∉ Q := by
  have ho : (m13.node 1).closed = "" := by decide +kernel
  have hlc : LeaderCommit (.replUpdates (mUpd 3)) (m13.node 1) ((m13.node 1).step (.replUpdates (mUpd 3)) [] []) := by
    rw [st13]; exact ⟨rfl, by decide +kernel⟩
  obtain ⟨len, C, Q, mo, h, _⟩ := nonvoter_ack_never_counts_partial (1, 1) m13 q13.1 1 _ [] [] 0 ex14_en.1 ex14_en.2
    ho hlc
  have hlen : len = ((m13.node 1).step (.replUpdates (mUpd 3)) [] []).log.entries.length := by
    have h1 := mo.lenGe
    have h2 := mo.lenLe
    rw [st13] at h1 h2 ⊢
    have e1 : (altPost (m13.node 1) (mUpd 3) 3).commitIndex = 3 := by decide +kernel
    have e2 : (altPost (m13.node 1) (mUpd 3) 3).log.entries.length = 3 := by decide +kernel
    omega
  have hC := mo.latest hlen
  have hv : C.voters = [1, 2, 3] := by rw [hC, st13]; decide +kernel
  have h4 : C.isVoter 4 = false := by rw [hC, st13]; decide +kernel
  exact ⟨by decide +kernel, len, C, Q, mo, hv, h 4 h4⟩

end examples

/-- executable companions of the examples (tests, not proofs: the mutually recursive leader block does not reduce in the
kernel): the commit index of the leader 1 after it handles the match-index reports `l` (pairs (node, index)) in `x` -/
def ciAfter (x : Member.Sys) (l : List (Nat × Nat)) : Nat :=
  ((x.node 1).step (.replUpdates (l.map (fun p => { id := p.1, upd := .matchIndex p.2 }))) [] []).commitIndex

-- `m13` (latest configuration (3,2): voters 1, 2, 3; node 4 a non-voter to be promoted; commit index 2; the leader and
-- the nodes 2, 3, 4 hold index 3): the NON-VOTER 4 acknowledges first → NO commit (the leader and node 4 are two of four
-- nodes, but only one of three voters); the report of the voter 2 commits index 3
#guard (AuditMember.m13.node 1).commitIndex == 2 && (AuditMember.m13.node 1).configs.latest.voters == [1, 2, 3]
#guard AuditMember.m13.cm.acks.any (fun a => a.voter == 4 && a.term == 2 && a.index == 3)
#guard ciAfter AuditMember.m13 [(4, 3)] == 2 && ciAfter AuditMember.m13 [(2, 3)] == 3
-- `m20` (latest configuration (4,2): node 4 PROMOTED, voters 1, 2, 3, 4; commit index 3; everybody holds index 4): now the
-- acknowledgement of node 4 COUNTS — the reports of 2 and 4 commit index 4 (1, 2, 4: three of four), the report of node 2
-- alone does not (two of four), nor does the report of node 4 alone
#guard (AuditMember.m20.node 1).commitIndex == 3 && (AuditMember.m20.node 1).configs.latest.voters == [1, 2, 3, 4]
#guard ciAfter AuditMember.m20 [(2, 4), (4, 4)] == 4 && ciAfter AuditMember.m20 [(2, 4)] == 3 &&
  ciAfter AuditMember.m20 [(4, 4)] == 3
-- in `m21` every voter holds the committed entries (4,2), (3,2), (2,2) in its flushed log — node 4 after its restart too
#guard [1, 2, 3, 4].all (fun v => (AuditMember.m21.node v).log.flushed == 4 &&
  C06Sys.durB AuditMember.m21.cm v 4 2 && C06Sys.durB AuditMember.m21.cm v 3 2 && C06Sys.durB AuditMember.m21.cm v 2 2)

end C06Member
end Raft

#print axioms Raft.C06Member.commit_durable_on_majority_member_partial
#print axioms Raft.C06Member.committed_entry_stays_flushed_on_Q_partial
#print axioms Raft.C06Member.committed_entry_on_later_majorities_partial
#print axioms Raft.C06Member.no_loss_under_minority_crash_member_partial
#print axioms Raft.C06Member.leader_commit_moment_member_partial
#print axioms Raft.C06Member.nonvoter_ack_never_counts_partial -- also C11
#print axioms Raft.C06Member.nonvoter_matchIndex_irrelevant -- also C11
#print axioms Raft.MemberDurable.minv_run_mono
#print axioms Raft.MemberDurable.Kept.run
#print axioms Raft.MemberDurable.keepsM_of_kept
#print axioms Raft.C06Member.commit_moment
#print axioms Raft.C06Member.leader_holds_ever -- also C02
#print axioms Raft.C06Member.ex21_run
#print axioms Raft.C06Member.ex20_crash
