/-
C10 on the cluster-level transition system — **a node process that dies at any instant, between any two storage
operations, and is restarted on the same storage directory starts successfully, with a term and vote no older than
any it had acknowledged and with every log entry it had acknowledged as stored; its log is contiguous with its
snapshot; and the cluster it rejoins still satisfies C01–C04.**

The system: `SysInv.ReachableG` (Lemmas/SysInv.lean, Props/C19Sys.lean) — `Raft.Commit` of Sys/Commit.lean (any node
handles any enabled operation with any content and oracle, dies at ANY storage point of such a step — `Trans.crash`,
crash point `k` of `C05.crashDisk` — and restarts from what is on disk; a leader puts requests read from its log on
the wire) with the environment assumptions `EnabledG`, closed nodes frozen, `SideG` (`SnapshotsRetain ≥ 1`) and a
good initial state. **Restrictions (`_partial`), as in C19Sys**: fixed voter set `V`, fixed stable configuration
(`SideV`), no snapshots / log compaction, no configuration change (`OpOK2`).

PROVED:
1. `restart_succeeds_sys_partial` — for every reachable state, node, enabled operation, oracle and crash point the
   restart does NOT fail (`openStorage` finds its configurations; one more explicit assumption: the node has a cluster
   id, `cid ≠ 0`, without which `Raft.New` refuses to start — `cid_run`: the id never changes), the restarted node is
   `NoPanic.Good true` (ordered: `log.prev ≤ snapIndex ≤ lastLogIndex = log.last`, …), a follower with the same
   ids, and its `(term, votedFor)` is the durable pair, a legal successor of the pair the step started from;
2. `restart_keeps_acknowledged_vote_partial` — every grant of the ledger `grants` (every vote request ever answered
   `success`, every self vote) is honoured by the restarted voter, at every crash point of every later step;
3. `restart_keeps_acknowledged_entries_partial` — every entry of an acknowledgement's term on the path to an
   acknowledged entry (ledger `acks`) is in the restarted voter's (completely flushed) log — unless an entry of a later
   term, not above the restarted node's term, does not extend it (a later leader overwrote it: the statement of
   `C06Sys.acknowledged_durable_until_overwritten_partial`); `restart_keeps_committed_acknowledged_partial`: for a
   committed entry there is no exception;
4. `rejoin_preserves_safety_partial` — the state after crash + restart is reachable again, so C01 (election safety,
   also across the crash: the ledger of leaders is kept), C02 (leader completeness), C03 (state-machine safety), C04
   (log matching) and C19 (every node good) hold in it and in every continuation of the run (`Safe`,
   `safe_of_reachable`).
NOT covered here: crashes while a snapshot is taken / installed or the log is compacted (node level: Props/C10.lean),
membership changes, liveness ("converges"; C17).
-/
import RaftVerif.Lemmas.SysMore

namespace Raft
namespace C10Sys
open Node LogRel CommitRel Commit C02Sys NoPanic SysInv SysMore
open Election (setNode setNode_same setNode_other FixedV)

/-! ### monotone ledgers, runs -/

/-- the ledgers only grow along a transition -/
theorem transG_mono {x y : Commit.Sys} (h : TransG x y) :
    (∀ e ∈ x.rp.el.won, e ∈ y.rp.el.won) ∧ (∀ g ∈ x.rp.el.grants, g ∈ y.rp.el.grants) ∧
    (∀ a ∈ x.acks, a ∈ y.acks) ∧ (∀ m ∈ x.committed, m ∈ y.committed) ∧ (∀ c ∈ x.T, c ∈ y.T) := by
  cases h with
  | step i op ra ord src he heG ho =>
    exact ⟨fun e he' => List.mem_append_right _ he',
      fun g hg => List.mem_append_right _ (List.mem_append_right _ hg),
      fun a ha => List.mem_append_right _ (List.mem_append_right _ ha),
      fun m hm => List.mem_append_right _ hm, fun c hc => List.mem_append_right _ hc⟩
  | crash i op ra ord src k retain sor n he heG hopen hn =>
    exact ⟨fun e he' => he', fun g hg => hg, fun a ha => ha, fun m hm => hm,
      fun c hc => List.mem_append_right _ hc⟩
  | send i q hi hl hr hc => exact ⟨fun e he' => he', fun g hg => hg, fun a ha => ha, fun m hm => hm, fun c hc => hc⟩

/-- … and along a run -/
theorem runG_mono {V : List Nat} {x y : Commit.Sys} (h : RunG V x y) :
    (∀ e ∈ x.rp.el.won, e ∈ y.rp.el.won) ∧ (∀ g ∈ x.rp.el.grants, g ∈ y.rp.el.grants) ∧
    (∀ a ∈ x.acks, a ∈ y.acks) ∧ (∀ m ∈ x.committed, m ∈ y.committed) ∧ (∀ c ∈ x.T, c ∈ y.T) := by
  induction h with
  | refl => exact ⟨fun _ h => h, fun _ h => h, fun _ h => h, fun _ h => h, fun _ h => h⟩
  | next y z _ ht _ _ ih =>
    obtain ⟨a1, a2, a3, a4, a5⟩ := ih
    obtain ⟨b1, b2, b3, b4, b5⟩ := transG_mono ht
    exact ⟨fun e h => b1 e (a1 e h), fun e h => b2 e (a2 e h), fun e h => b3 e (a3 e h), fun e h => b4 e (a4 e h),
      fun e h => b5 e (a5 e h)⟩

/-- the cluster id of a node never changes along a transition … -/
theorem cid_trans {x y : Commit.Sys} (h : TransG x y) (j : Nat) : (y.node j).cid = (x.node j).cid := by
  cases h with
  | step i op ra ord src he heG ho =>
    show (setNode x.rp.el.node i _ j).cid = _
    by_cases hj : j = i
    · subst hj; rw [setNode_same]; exact step_cid _ _ _ _
    · rw [setNode_other _ _ _ _ hj]
  | crash i op ra ord src k retain sor n he heG hopen hn =>
    show (setNode x.rp.el.node i n j).cid = _
    by_cases hj : j = i
    · subst hj; rw [setNode_same, restart_cid _ _ _ _ hn, crashDisk_cid]
    · rw [setNode_other _ _ _ _ hj]
  | send i q hi hl hr hc => rfl

/-- … or a run (through crashes and restarts): the assumption `cid ≠ 0` of `restart_succeeds_sys_partial` is one on
the initial state only -/
theorem cid_run {V : List Nat} {x y : Commit.Sys} (h : RunG V x y) (j : Nat) : (y.node j).cid = (x.node j).cid := by
  induction h with
  | refl => rfl
  | next y z _ ht _ _ ih => rw [cid_trans ht j, ih]

/-! ### 1. the restart succeeds -/

/-- **C10 (1), a restart after a crash at any point succeeds (partial: the restrictions of the file header).** Let
`V` be a duplicate-free list of node ids, `x` a state reachable in the cluster system (`SysInv.ReachableG`), `i` a
node that has a cluster id (`cid ≠ 0`), `op` ANY operation that may be delivered to `i` in `x` (`Commit.Enabled`,
`EnabledG`) handled with ANY oracle `ra`, `ord`, and `k` ANY crash point of that step — the process dies after `k`
storage operations (`k = 0`: before the step; beyond the last one: after it) — `hopen`: an open node, or any node
between two steps. Restart it on what is then on disk (`C05.crashDisk`) with any options (`retain ≥ 1`, `sor`). Then
there is a node `n` with `Node.restart … = some n` (the restart does not fail) and
* `n` is good (`NoPanic.Good true`: nothing failed, ordered, caches current), in particular
  `n.log.prev ≤ n.snapIndex ≤ n.lastLogIndex = n.log.last`: the log is contiguous with the snapshot;
* `n` is a follower with node id `i` and the cluster id it had;
* `n.term`, `n.votedFor` are the durable pair found on disk, memory = disk (`C05.VoteWF`), and that pair is a legal
  successor of the pair the step started from (`C05.VoteStep`: the term did not decrease; a vote cast in that term
  is kept);
* `n`'s log is what was on disk, completely flushed. -/
theorem restart_succeeds_sys_partial (V : List Nat) (hV : V.Nodup) (x : Commit.Sys) (h : ReachableG V x)
    (i : Nat) (op : Op) (ra : List Nat) (ord : List (List Nat)) (src : Nat) (he : Commit.Enabled x i op src)
    (heG : EnabledG x i op) (k : Nat) (hopen : (x.node i).closed = "" ∨ k = 0) (hcid : (x.node i).cid ≠ 0)
    (retain : Nat) (hret : 1 ≤ retain) (sor : Bool) :
    ∃ n, Node.restart (C05.crashDisk (x.node i) op ra ord k) retain sor = some n ∧
      (Good true n ∧ n.panicked = none ∧ Order.Ordered n) ∧
      (n.log.prev ≤ n.snapIndex ∧ n.snapIndex ≤ n.lastLogIndex ∧ n.lastLogIndex = n.log.last) ∧
      (n.role = .follower ∧ n.nid = i ∧ n.cid = (x.node i).cid) ∧
      (n.term = (C05.crashDisk (x.node i) op ra ord k).term ∧
        n.votedFor = (C05.crashDisk (x.node i) op ra ord k).vote ∧ C05.VoteWF n ∧ C05.VoteStep (x.node i) n) ∧
      (n.log.entries = (C05.crashDisk (x.node i) op ra ord k).log.entries ∧
        n.log.flushed = n.log.entries.length) := by
  have hG := ginv_reachable hV h
  have hR := reachableG_V h
  obtain ⟨hI, hS⟩ := inv_reachable hV hR
  have sc : SC V x i op ra ord src := ⟨hV, hI, hS, he⟩
  obtain ⟨n, hn⟩ := crash_restart_some sc hR hG heG k hopen hcid retain sor
  have cc : CC V x i op ra ord src k retain sor n := ⟨sc, hn⟩
  have hgood : Good true n := by
    have := (cc_ginv cc hR hG heG hopen hret).good i
    rwa [cc.node_i] at this
  obtain ⟨f1, f2, f3, f4, _, _, f7, _, f9⟩ := cc.facts
  obtain ⟨_, _, o3, o4, _, o6, _, _⟩ := C19Order.ordered_chain _ hgood.ordered
  have hnid : n.nid = i := by
    rw [(Election.restart_role_nid _ _ _ _ hn).2, Election.crashDisk_nid]; exact (hI.rp.el.ids i).1
  have hvs : C05.VoteStep (x.node i) n := by
    have hd := Election.crashDisk_durStep (x.node i) op ra ord k (hI.rp.el.ids i).2
    unfold C05.VoteStep; rw [f1, f2]; exact hd
  exact ⟨n, hn, ⟨hgood, hgood.noPanic, hgood.ordered⟩, ⟨o4, o6, o3⟩,
    ⟨f4, hnid, by rw [restart_cid _ _ _ _ hn, crashDisk_cid]⟩, ⟨f1, f2, f3, hvs⟩, ⟨f9, f7⟩⟩

/-! ### 2. acknowledged votes -/

/-- **C10 (2), the restarted node reports a term and vote no older than any it had acknowledged (partial; same
restrictions).** Let `x` be reachable and `g = (voter, term, cand)` any entry of the ledger `grants` of `x` — the
voter answered `success` to a vote request of `cand` for `term`, or voted for itself in `term` — and let `y` be any
later state of the run. If the voter dies in `y` at ANY crash point `k` of ANY step (any operation, any oracle) and
restarts as `n`, then `n` still honours the grant: its term is above `term`, or it is `term` and `n.votedFor = cand`.
(No enabling condition on the operation is needed: C05 holds for arbitrary requests.) -/
theorem restart_keeps_acknowledged_vote_partial (V : List Nat) (hV : V.Nodup) (x y : Commit.Sys)
    (hx : ReachableG V x) (hrun : RunG V x y) (g : C01.Grant) (hg : g ∈ x.rp.el.grants)
    (op : Op) (ra : List Nat) (ord : List (List Nat)) (k retain : Nat) (sor : Bool) (n : Node)
    (hn : Node.restart (C05.crashDisk (y.node g.voter) op ra ord k) retain sor = some n) :
    g.term < n.term ∨ (g.term = n.term ∧ n.votedFor = g.cand) := by
  have hy := run_reachableG hx hrun
  obtain ⟨hI, _⟩ := inv_reachable hV (reachableG_V hy)
  have hg' := (runG_mono hrun).2.1 g hg
  have hh : C01Sys.HonouredBy (y.node g.voter) g := hI.rp.el.honoured g hg'
  obtain ⟨r1, r2, _⟩ := C05.restart_reads_durable _ _ _ _ hn
  have hd := Election.crashDisk_durStep (y.node g.voter) op ra ord k (hI.rp.el.ids g.voter).2
  have hvs : C05.VoteStep (y.node g.voter) n := by
    unfold C05.VoteStep; rw [r1, r2]; exact hd
  exact (C01Sys.honouredBy_step hh hvs).2

/-! ### 3. acknowledged entries -/

theorem runG_runV {V : List Nat} {x y : Commit.Sys} (h : RunG V x y) : RunV V x y := by
  induction h with
  | refl => exact .refl
  | next y z _ ht hs _ ih => exact .next y z ih (transG_trans ht) hs

/-- **C10 (3), the restarted node retains every log entry it had acknowledged as stored (partial; same
restrictions).** Let `x` be reachable, `a = (voter, term, index, eterm)` an acknowledgement recorded in `x` — at a
moment when the voter's term was `term` its log held an entry of term `eterm` at `index` and it answered `success` to
an append request of that term ending at `index` (or it is the leader of `term` counting itself) — and `b` an entry OF
THE ACKNOWLEDGEMENT'S TERM on the path to the acknowledged entry (`b.2 = a.term`, `b` an ancestor of or equal to
`(index, eterm)` in the tree of created entries). Let `y` be any later state of the run. If the voter dies in `y` at
ANY crash point `k` of ANY enabled step and restarts as `n`, then
* `n`'s log, completely flushed, holds an entry with `b`'s term at `b`'s index (and hence, its log being a root path
  of the tree in the reachable state after the restart, every entry before it on that path),
* unless the tree of created entries contains an entry of a later term, not above `n`'s term, that does not extend
  `b`: a leader of a later term overwrote it (never the case for a committed `b`:
  `restart_keeps_committed_acknowledged_partial`).
Entries of EARLIER terms below an acknowledgement are not promised (finding (a) of C02Sys / C06Sys: a follower that
appends nothing answers `success` without flushing entries it created itself as an earlier leader). -/
theorem restart_keeps_acknowledged_entries_partial (V : List Nat) (hV : V.Nodup) (x y : Commit.Sys)
    (hx : ReachableG V x) (hrun : RunG V x y) (a : Ack) (ha : a ∈ x.acks) (b : Nat × Nat) (hb : b.2 = a.term)
    (hanc : Anc x.T b (a.index, a.eterm))
    (op : Op) (ra : List Nat) (ord : List (List Nat)) (src : Nat) (he : Commit.Enabled y a.voter op src)
    (k retain : Nat) (sor : Bool) (n : Node)
    (hn : Node.restart (C05.crashDisk (y.node a.voter) op ra ord k) retain sor = some n) :
    (b.1 ≤ n.log.flushed ∧ ∃ e, n.log.get? b.1 = some e ∧ e.term = b.2) ∨
    ∃ c ∈ y.T, b.2 < c.e.term ∧ c.e.term ≤ n.term ∧ ¬ Anc y.T b (c.e.index, c.e.term) := by
  have hy := run_reachableG hx hrun
  obtain ⟨hI, hS⟩ := inv_reachable hV (reachableG_V hy)
  obtain ⟨_, _, hA, _, hT⟩ := runG_mono hrun
  have ha' := hA a ha
  have hanc' : Anc y.T b a.key := hanc.mono hT
  have sc : SC V y a.voter op ra ord src := ⟨hV, hI, hS, he⟩
  have cc : CC V y a.voter op ra ord src k retain sor n := ⟨sc, hn⟩
  have im := sc.img k
  obtain ⟨f1, _, _, _, _, _, f7, _, f9⟩ := cc.facts
  have hterm : (y.node a.voter).term ≤ n.term := by rw [f1]; exact im.pair.1
  have hp := DurableRel.SC.disk_path sc k
  obtain ⟨wn, _, _, _⟩ := restart_nwf _ retain sor n hn im.snaps im.prev hp.2
  have huns : ∀ u, u ≤ n.term → Unsafe y.T b u →
      ∃ c ∈ y.T, b.2 < c.e.term ∧ c.e.term ≤ n.term ∧ ¬ Anc y.T b (c.e.index, c.e.term) := by
    rintro u hu ⟨c, hc, h1, h2, h3⟩
    exact ⟨c, hc, h1, Nat.le_trans h2 hu, h3⟩
  rcases hI.ack.stable a ha' b hb hanc' with hd | hu
  · rcases im.dur a ha' rfl b hb hd with ⟨d1, d2⟩ | hu
    · left
      rw [← f9] at d1 d2
      obtain ⟨e, hee, het⟩ := holds_get d2
      exact ⟨by rw [f7]; exact d1, e, by rw [wn.get?, if_pos (show 0 < b.1 from d2.1)]; exact hee, het⟩
    · exact Or.inr (huns _ (by rw [f1]; exact Nat.le_refl _) hu)
  · exact Or.inr (huns _ hterm hu)

/-- **… and a committed entry it acknowledged in the entry's term, without exception** (same assumptions): if `m`
is in the ledger `committed` of `x` (a leader's commit index reached it), `a` is an acknowledgement of `x` in `m`'s
term at or beyond `m` on `m`'s path, then after ANY crash of the voter at ANY point of ANY enabled step in ANY later
state the restarted node's flushed log holds `m`. -/
theorem restart_keeps_committed_acknowledged_partial (V : List Nat) (hV : V.Nodup) (x y : Commit.Sys)
    (hx : ReachableG V x) (hrun : RunG V x y) (m : Nat × Nat) (hm : m ∈ x.committed) (a : Ack) (ha : a ∈ x.acks)
    (hat : a.term = m.2) (hanc : Anc x.T m (a.index, a.eterm))
    (op : Op) (ra : List Nat) (ord : List (List Nat)) (src : Nat) (he : Commit.Enabled y a.voter op src)
    (k retain : Nat) (sor : Bool) (n : Node)
    (hn : Node.restart (C05.crashDisk (y.node a.voter) op ra ord k) retain sor = some n) :
    m.1 ≤ n.log.flushed ∧ ∃ e, n.log.get? m.1 = some e ∧ e.term = m.2 := by
  have hy := run_reachableG hx hrun
  obtain ⟨hI, _⟩ := inv_reachable hV (reachableG_V hy)
  have hm' := (runG_mono hrun).2.2.2.1 m hm
  rcases restart_keeps_acknowledged_entries_partial V hV x y hx hrun a ha m hat.symm hanc op ra ord src he k retain
      sor n hn with h | ⟨c, hc, h1, _, h3⟩
  · exact h
  · exact absurd (hI.cmt.lc m hm' c hc h1) h3

/-! ### 4. the cluster after the restart -/

/-- **C01–C04 (and C19) in a state `z` of the cluster**, as proved for reachable states:
* `election` (C01): two leaders of one term are the same node, and the ledger `won` of all leaders EVER names at
  most one node per term;
* `completeness` (C02): a leader whose term is at least the term of node `j` holds at every index within `j`'s commit
  index the very entry `j` holds;
* `stateMachine` (C03): every node's FSM was fed exactly the update commands of its log up to `fsm.index`, never
  beyond the commit index, and the command sequences of any two nodes are prefixes of one another;
* `matching` (C04): two logs that hold entries with the same term at an index hold the same entry at every index
  up to it;
* `good` (C19, C15): every node is `NoPanic.Good true`. -/
structure Safe (V : List Nat) (z : Commit.Sys) : Prop where
  election : (∀ i j, (z.node i).role = .leader → (z.node j).role = .leader → (z.node i).term = (z.node j).term → i = j) ∧
    (∀ l l' t, (l, t) ∈ z.rp.el.won → (l', t) ∈ z.rp.el.won → l = l') ∧
    (∀ i, (z.node i).role = .leader → (i, (z.node i).term) ∈ z.rp.el.won)
  completeness : ∀ i j k, (z.node i).role = .leader → (z.node j).term ≤ (z.node i).term → 1 ≤ k →
    k ≤ (z.node j).commitIndex →
    (z.node i).log.get? k = (z.node j).log.get? k ∧ ((z.node j).log.get? k).isSome = true
  stateMachine : (∀ i, (z.node i).fsm.index ≤ (z.node i).commitIndex ∧
      (z.node i).fsm.applied =
        (((z.node i).log.entries.take (z.node i).fsm.index).filter (·.typ == etUpdate)).map (·.data)) ∧
    (∀ i j, (z.node i).fsm.applied <+: (z.node j).fsm.applied ∨ (z.node j).fsm.applied <+: (z.node i).fsm.applied)
  matching : ∀ i j k a b, (z.node i).log.get? k = some a → (z.node j).log.get? k = some b → a.term = b.term →
    ∀ k', k' ≤ k → ∀ a' b', (z.node i).log.get? k' = some a' → (z.node j).log.get? k' = some b' → a' = b'
  good : ∀ i, Good true (z.node i)

/-- every reachable state is safe -/
theorem safe_of_reachable (V : List Nat) (hV : V.Nodup) (z : Commit.Sys) (h : ReachableG V z) : Safe V z := by
  have hR := reachableG_V h
  have hrp := reachable_rp hR
  obtain ⟨e1, e2, e3, _, _⟩ := C01Sys.election_safety_sys_partial V hV z.rp.el (Replication.reachable_el hrp)
  obtain ⟨s1, _, _, s4⟩ := C19Sys.state_machine_safety_sys_partial V hV z h
  exact ⟨⟨e1, e2, e3⟩, (leader_completeness_sys_partial V hV z hR).2.1,
    ⟨fun i => ⟨(s1 i).1, (s1 i).2.2⟩, s4⟩,
    fun i j k a b => C04Sys.log_matching_sys_partial V hV z.rp hrp i j k a b,
    (ginv_reachable hV h).good⟩

/-- **C10 (4), the restarted node rejoins the cluster without violating C01–C04 (partial; same restrictions).** Under
the hypotheses of `restart_succeeds_sys_partial`, let `n` be the restarted node and `y = crashC x i op n` the state
of the cluster after the crash and the restart (the target of `Commit.Trans.crash`), satisfying the side condition of
the run (`SideV`: the restarted node's latest configuration is the stable configuration with voters `V` — it holds
the bootstrap entry). Then
* `y` is a reachable state of the system again (`ReachableG` is closed under transitions; the side condition
  `SideG` follows from `retain ≥ 1`), and so is every state `z` of every continuation of the run;
* hence `Safe V z` for every such `z` — election safety, leader completeness, state-machine safety, log matching,
  every node good — whatever the restarted node and the others do next (more crashes included);
* and nothing the cluster had acknowledged before the crash is forgotten by the ledgers: every leader ever elected
  (`won`), every vote ever granted, every acknowledgement, every committed entry of `x` is still recorded in `z` — so
  e.g. "one leader per term" holds between a leader of `x` and any later one. -/
theorem rejoin_preserves_safety_partial (V : List Nat) (hV : V.Nodup) (x : Commit.Sys) (h : ReachableG V x)
    (i : Nat) (op : Op) (ra : List Nat) (ord : List (List Nat)) (src : Nat) (he : Commit.Enabled x i op src)
    (heG : EnabledG x i op) (k : Nat) (hopen : (x.node i).closed = "" ∨ k = 0)
    (retain : Nat) (hret : 1 ≤ retain) (sor : Bool) (n : Node)
    (hn : Node.restart (C05.crashDisk (x.node i) op ra ord k) retain sor = some n)
    (hs : SideV V (crashC x i op n)) :
    ReachableG V (crashC x i op n) ∧
    ∀ z, RunG V (crashC x i op n) z →
      ReachableG V z ∧ Safe V z ∧
      (∀ e ∈ x.rp.el.won, e ∈ z.rp.el.won) ∧ (∀ g ∈ x.rp.el.grants, g ∈ z.rp.el.grants) ∧
      (∀ a ∈ x.acks, a ∈ z.acks) ∧ (∀ m ∈ x.committed, m ∈ z.committed) := by
  have ht : TransG x (crashC x i op n) := .crash i op ra ord src k retain sor n he heG hopen hn
  have hsg : SideG (crashC x i op n) := by
    intro j
    by_cases hj : j = i
    · subst hj
      show 1 ≤ (setNode x.rp.el.node j n j).retain
      rw [setNode_same, restart_retain _ _ _ _ hn]; exact hret
    · show 1 ≤ (setNode x.rp.el.node i n j).retain
      rw [setNode_other _ _ _ _ hj]; exact reachableG_side h j
  have hy : ReachableG V (crashC x i op n) := .next x _ h ht hs hsg
  refine ⟨hy, fun z hrun => ?_⟩
  have hz := run_reachableG hy hrun
  obtain ⟨a1, a2, a3, a4, _⟩ := transG_mono ht
  obtain ⟨b1, b2, b3, b4, _⟩ := runG_mono hrun
  exact ⟨hz, safe_of_reachable V hV z hz, fun e h => b1 e (a1 e h), fun e h => b2 e (a2 e h),
    fun e h => b3 e (a3 e h), fun e h => b4 e (a4 e h)⟩

/-! ### Examples (non-vacuity): three voters bootstrapped with the entry (1,1); node 1 dies during its election
timeout after the first storage point (term 2 and its own vote are on disk) -/

/-- EXAMPLE: the hypotheses of `restart_succeeds_sys_partial` hold for node 1 of `ex0`, its election timeout and the
crash point `k = 1`; the node the theorem promises is `C19Sys.exN`: term 2, voted for itself, follower -/
example : [1, 2, 3].Nodup ∧ ReachableG [1, 2, 3] C02Sys.ex0 ∧ Commit.Enabled C02Sys.ex0 1 .timeout 0 ∧
    EnabledG C02Sys.ex0 1 .timeout ∧ ((C02Sys.ex0.node 1).closed = "" ∨ 1 = 0) ∧ (C02Sys.ex0.node 1).cid ≠ 0 ∧
    Node.restart (C05.crashDisk (C02Sys.ex0.node 1) .timeout [] [] 1) 1 true = some C19Sys.exN ∧
    C19Sys.exN.term = 2 ∧ C19Sys.exN.votedFor = 1 :=
  ⟨by decide, C19Sys.ex0_reachable, C19Sys.ex1_enabled.1, C19Sys.ex1_enabled.2, Or.inl rfl, by decide,
    C19Sys.exN_restart, by decide, by decide⟩

/-- EXAMPLE (`rejoin_preserves_safety_partial`): its hypotheses hold for that crash (`C19Sys.exCrash` is the state
after it), so `exCrash` is reachable and safe -/
example : ReachableG [1, 2, 3] C19Sys.exCrash ∧ Safe [1, 2, 3] C19Sys.exCrash := by
  have h := rejoin_preserves_safety_partial [1, 2, 3] (by decide) C02Sys.ex0 C19Sys.ex0_reachable 1 .timeout [] [] 0
    C19Sys.ex1_enabled.1 C19Sys.ex1_enabled.2 1 (Or.inl rfl) 1 (Nat.le_refl _) true C19Sys.exN C19Sys.exN_restart
    C19Sys.exCrash_sideV
  exact ⟨h.1, (h.2 _ .refl).2.1⟩

set_option maxRecDepth 100000 in
/-- EXAMPLE (`restart_keeps_acknowledged_vote_partial`): in `ex1` (node 1 has timed out and voted for itself in term
2) the ledger holds the grant (voter 1, term 2, candidate 1); `ex1` is reachable, and a restart of node 1 from what is
on disk between two steps succeeds — so (by the theorem) the restarted node still honours the grant -/
example : ReachableG [1, 2, 3] C02Sys.ex1 ∧ RunG [1, 2, 3] C02Sys.ex1 C02Sys.ex1 ∧
    ({ voter := 1, term := 2, cand := 1 } : C01.Grant) ∈ C02Sys.ex1.rp.el.grants ∧
    (Node.restart (C05.crashDisk (C02Sys.ex1.node 1) .timeout [] [] 0) 1 true).isSome = true :=
  ⟨C19Sys.ex1_reachable, .refl, by decide, by decide⟩

-- evaluation (tests, not proofs; states in which a node has run `leader.init` do not reduce in the kernel): in `ex7`
-- of Props/C02Sys.lean node 2 has acknowledged (2,2) in term 2 and the entry is committed; whenever node 2 dies while
-- handling an election timeout — at any of its storage points — the restart succeeds, the restarted node's term is at
-- least 2 and its log holds (2,2) again
#guard C02Sys.ex7.acks.any (fun a => a.voter == 2 && a.term == 2 && a.index == 2 && a.eterm == 2)
#guard (List.range 4).all (fun k =>
  ((Node.restart (C05.crashDisk (C02Sys.ex7.node 2) .timeout [] [] k) 1 true).map
    (fun w => (decide (2 ≤ w.term), (w.log.get? 2).map (·.term), w.log.flushed))) == some (true, some 2, 2))

end C10Sys
end Raft

#print axioms Raft.C10Sys.restart_succeeds_sys_partial
#print axioms Raft.C10Sys.restart_keeps_acknowledged_vote_partial
#print axioms Raft.C10Sys.restart_keeps_acknowledged_entries_partial
#print axioms Raft.C10Sys.restart_keeps_committed_acknowledged_partial
#print axioms Raft.C10Sys.safe_of_reachable
#print axioms Raft.C10Sys.rejoin_preserves_safety_partial
#print axioms Raft.C10Sys.cid_run
