/-
C09 / C04 / C02 / C03 on the cluster-level transition system WITH LOCAL SNAPSHOTS AND LOG COMPACTION `Raft.Snap2`
(Sys/Snap2.lean) — stage 2 of lifting the `OpOK` restriction of `Raft.Commit`: in addition to stage 1
(Sys/Snap.lean, Props/C09Sys.lean) `.snapTaken` compacts the log (`Raft.compactLog`: `log.prev` becomes positive,
`Log.Get` fails at or below it), nodes restart from a compacted log plus their newest snapshot file, and append
requests, elections, replication bookkeeping and the commit rule run on compacted logs.
NOT in this stage: installation of snapshots (`.install`), `.shutdown`, the compaction a leader performs when
replication goroutines report progress (`leader.checkLogCompact`: replication updates report no compaction).  See the
header of Sys/Snap2.lean for the complete list of assumptions (in particular the side conditions `Side2`: segment
lists are well formed and no log is compacted exactly up to its snapshot index).

Method (Lemmas/SnapRelP.lean, SnapRelU*.lean, StepInvNC.lean, SnapFrame.lean, SnapInv2.lean): every node is looked at
with its log UN-COMPACTED (`Sys.vnode i = U (base i) (node i)`, `base i` the ghost record of what compaction removed;
the virtual log `Sys.vlog i` starts at index 1).  Every handler of an operation that does not compact commutes with
`U β` when it does not fail an assertion (`SnapRelU.step_U`, `append_step_U`: proved for the whole mutually recursive
leader block, via "a recorded assertion failure persists" `SnapRelP.npk`); `onSnapshotTaken` changes nothing of the
virtual node that the invariants read, except that the log is flushed further (`SnapInv2.snapTaken_snapStep`); the
restart from a compacted disk is the un-compacted restart (`SnapRelU.restart_U`).  So the cluster of the virtual nodes
runs in the system of stage 1 and its invariant `SnapInv.SInv` holds in every reachable state
(`SnapInv2.inv2_reachable`).  On the real nodes the invariant adds `PrevOK`: the log starts at or below the snapshot
index — the frame facts (`SnapFrame.step_frame`: no other operation moves `log.prev`, the snapshot index or the pending
snapshot result) come from the composition theorem `Node.StepClosedNC.step_inv`.
-/
import RaftVerif.Lemmas.SnapInv2
import RaftVerif.Props.C09Sys

namespace Raft
namespace C09Sys2
open Node Election LogRel Replication CommitRel Commit C02Sys C03Sys SnapRel SnapRelU SnapSim Snap Snap2 SnapInv SnapInv2

section
variable {V : List Nat}

/-- what the real log still holds is what the virtual log holds there -/
theorem get_virtual (x : Snap2.Sys) (i k : Nat) (h : (x.node i).log.prev < k) :
    (x.node i).log.get? k = (x.vnode i).log.get? k := (U_get? (x.node i) k h).symm

/-- an index the real log answers for is above its first index -/
theorem get_some_prev {l : NLog} {k : Nat} {e : Entry} (h : l.get? k = some e) : l.prev < k := by
  unfold NLog.get? at h
  split at h
  · assumption
  · cases h

/-- the virtual log: `Log.Get(k)` of the virtual node is entry number `k - 1` of `vlog` -/
theorem vget (x : Snap2.Sys) (i k : Nat) (hk : 1 ≤ k) : (x.vnode i).log.get? k = (x.vlog i)[k - 1]? := by
  unfold NLog.get?
  rw [if_pos (show (x.vnode i).log.prev < k from hk)]
  show (x.vlog i)[k - 0 - 1]? = _
  rw [Nat.sub_zero]

/-- **C04 with compaction — log matching (partial, stage 2).** In every state of the cluster reachable in
`Raft.Snap2` (`Reachable2 V`: any schedule, message delay / loss / duplication / reordering, crashes at any storage
point and restarts from the — possibly compacted — log and the newest snapshot file, snapshots taken and logs
compacted at any time; assumptions: header of Sys/Snap2.lean): if the logs of nodes `i` and `j` hold entries with the
same term at index `k`, then at every index `k' ≤ k` that BOTH logs still hold they hold the SAME entry; and the same
for the virtual logs (`vnode`: compacted-away entries included) at every index `k' ≤ k`. -/
theorem log_matching_sys_snap_partial (hV : V.Nodup) (x : Snap2.Sys) (h : Reachable2 V x) (i j k : Nat)
    (a b : Entry) (ha : (x.node i).log.get? k = some a) (hb : (x.node j).log.get? k = some b)
    (ht : a.term = b.term) :
    (∀ k', k' ≤ k → ∀ a' b', (x.node i).log.get? k' = some a' → (x.node j).log.get? k' = some b' → a' = b') ∧
    (∀ k', k' ≤ k → ∀ a' b', (x.vnode i).log.get? k' = some a' → (x.vnode j).log.get? k' = some b' → a' = b') := by
  have hS := (inv2_reachable hV h).1.sinv
  rw [get_virtual x i k (get_some_prev ha)] at ha
  rw [get_virtual x j k (get_some_prev hb)] at hb
  have key := C09Sys.log_matching_of_inv (view x) hS i j k a b ha hb ht
  refine ⟨fun k' hk a' b' ha' hb' => ?_, key⟩
  rw [get_virtual x i k' (get_some_prev ha')] at ha'
  rw [get_virtual x j k' (get_some_prev hb')] at hb'
  exact key k' hk a' b' ha' hb'

/-- **C02 with compaction — leader completeness (partial, stage 2).** In every reachable state of `Raft.Snap2`:
1. every leader holds — in its virtual log, and in its real log unless the index was compacted away, in which case
   the index is covered by the leader's own snapshot — every entry of the ledger `committed` whose term is not above
   its own;
2. every leader `i` whose term is at least the term of node `j` holds (virtually), at every index within `j`'s commit
   index, the very entry `j` holds there — where `j`'s commit index may come from a snapshot file read at restart;
3. every created entry of a later term extends every ledger entry. -/
theorem leader_completeness_sys_snap_partial (hV : V.Nodup) (x : Snap2.Sys) (h : Reachable2 V x) :
    (∀ i, (x.node i).role = .leader → ∀ m ∈ x.cs.committed, m.2 ≤ (x.node i).term →
      ∃ e, (x.vnode i).log.get? m.1 = some e ∧ e.term = m.2 ∧
        ((x.node i).log.prev < m.1 → (x.node i).log.get? m.1 = some e) ∧
        (m.1 ≤ (x.node i).log.prev → m.1 ≤ (x.node i).snapIndex)) ∧
    (∀ i j k, (x.node i).role = .leader → (x.node j).term ≤ (x.node i).term → 1 ≤ k →
      k ≤ (x.node j).commitIndex →
      (x.vnode i).log.get? k = (x.vnode j).log.get? k ∧ ((x.vnode j).log.get? k).isSome = true) ∧
    (∀ m ∈ x.cs.committed, ∀ c ∈ x.cs.T, m.2 < c.e.term → Anc x.cs.T m (key c)) := by
  have hI := (inv2_reachable hV h).1
  obtain ⟨p1, p2, p3⟩ := C09Sys.leader_completeness_of_inv hV (view x) hI.sinv
  refine ⟨fun i hl m hm hle => ?_, p2, p3⟩
  obtain ⟨e, he, het⟩ := p1 i hl m hm hle
  exact ⟨e, he, het, fun hlt => by rw [get_virtual x i m.1 hlt]; exact he,
    fun hle' => Nat.le_trans hle' (hI.prev i).le⟩

/-- **C03 with compaction — state-machine safety (partial, stage 2).** In every reachable state of `Raft.Snap2`, on
every node — whatever mixture of applying log entries, taking snapshots, compacting the log, crashing and restoring the
state machine from a snapshot file at restart produced its state:
1. the state machine holds exactly the update payloads of the entries `1 … fsm.index` of its virtual log, in order,
   and never ran ahead of the commit index;
2. every entry it has been fed is committed;
3. a node that applied no more than another holds (virtually) the same entries up to its applied index and its command
   sequence is a prefix of the other's; hence any two command sequences are prefix-comparable. -/
theorem state_machine_safety_sys_snap_partial (hV : V.Nodup) (x : Snap2.Sys) (h : Reachable2 V x) :
    (∀ i, (x.node i).fsm.index ≤ (x.node i).commitIndex ∧
      (x.node i).fsm.index ≤ (x.vlog i).length ∧
      (x.node i).fsm.applied = ups ((x.vlog i).take (x.node i).fsm.index)) ∧
    (∀ i k, 1 ≤ k → k ≤ (x.node i).fsm.index → Committed (view x).cs (k, termAt (x.vlog i) k)) ∧
    (∀ i j, (x.node i).fsm.index ≤ (x.node j).fsm.index →
      (x.vlog i).take (x.node i).fsm.index = (x.vlog j).take (x.node i).fsm.index ∧
      (x.node i).fsm.applied <+: (x.node j).fsm.applied) ∧
    (∀ i j, (x.node i).fsm.applied <+: (x.node j).fsm.applied ∨
      (x.node j).fsm.applied <+: (x.node i).fsm.applied) :=
  C09Sys.state_machine_safety_of_inv (view x) (inv2_reachable hV h).1.sinv

/-- **C09 — a snapshot is a committed prefix (partial, stage 2).** In every reachable state of `Raft.Snap2`, for every
snapshot file `f` that node `i` ever had on disk (the ghost ledger `snaps`) and for every file on its disk now:
1. `1 ≤ f.index ≤ snapIndex ≤ commitIndex`: a snapshot never contains an uncommitted update;
2. `f.data` is the list of update payloads of the entries `1 … f.index` of node `i`'s virtual log — the snapshot is
   the replay of the log up to its index, including the part of the log that was compacted away since;
3. and it is the replay of the virtual log of EVERY node `j` whose commit index covers `f.index`. -/
theorem snapshot_is_committed_prefix_partial (hV : V.Nodup) (x : Snap2.Sys) (h : Reachable2 V x) :
    ∀ i f, ((i, f) ∈ x.snaps ∨ f ∈ (x.node i).snapsDisk) →
      1 ≤ f.index ∧ f.index ≤ (x.node i).snapIndex ∧ (x.node i).snapIndex ≤ (x.node i).commitIndex ∧
      (∀ k, 1 ≤ k → k ≤ f.index → Committed (view x).cs (k, termAt (x.vlog i) k)) ∧
      f.data = ups ((x.vlog i).take f.index) ∧
      ∀ j, f.index ≤ (x.node j).commitIndex → f.data = ups ((x.vlog j).take f.index) :=
  C09Sys.snapshot_is_committed_prefix_of_inv (view x) (inv2_reachable hV h).1.sinv

/-- **C09 — compaction keeps every follower servable (partial, stage 2).** In every reachable state of `Raft.Snap2`,
for every node `i`:
1. the log starts at or below the snapshot index (`log.prev ≤ snapIndex ≤ commitIndex`): every index the log no longer
   holds is covered by the node's newest snapshot;
2. if anything was compacted away, that snapshot is a file on the node's disk, its index is the snapshot index and its
   content is the replay of the (virtual) log up to there — which, by `snapshot_is_committed_prefix_partial`, is the
   committed prefix on every node;
3. every index above `log.prev` up to the last index is answered by `Log.Get` with the entry of the virtual log.
So a leader can bring ANY follower up to date: from its log above `log.prev`, with its snapshot at or below. -/
theorem compaction_keeps_servable_partial (hV : V.Nodup) (x : Snap2.Sys) (h : Reachable2 V x) (i : Nat) :
    (x.node i).log.prev ≤ (x.node i).snapIndex ∧ (x.node i).snapIndex ≤ (x.node i).commitIndex ∧
    (0 < (x.node i).snapIndex → ∃ f ∈ (x.node i).snapsDisk, f.index = (x.node i).snapIndex ∧
      f.data = ups ((x.vlog i).take f.index)) ∧
    (∀ k, (x.node i).log.prev < k → k ≤ (x.node i).log.last →
      ∃ e, (x.node i).log.get? k = some e ∧ (x.vlog i)[k - 1]? = some e ∧ e.index = k) := by
  have hI := (inv2_reachable hV h).1
  have so : SnapOK (x.vnode i) := hI.sinv.snap i
  have hhead : (x.node i).snapIndex = (headOf (x.node i).snapsDisk).index := so.head
  refine ⟨(hI.prev i).le, ?_, fun hpos => ?_, fun k hk hkl => ?_⟩
  · show (x.vnode i).snapIndex ≤ (x.vnode i).commitIndex
    rw [so.head]; exact so.files.head_le
  · cases hsd : (x.node i).snapsDisk with
    | nil => rw [hsd] at hhead; exact absurd hhead (by show ¬ _ = 0; omega)
    | cons f t =>
      have hf : f ∈ (x.vnode i).snapsDisk := by
        show f ∈ (x.node i).snapsDisk; rw [hsd]; exact List.mem_cons_self ..
      refine ⟨f, List.mem_cons_self .., ?_, (so.files.files f hf).2.2⟩
      rw [hhead, hsd]; rfl
  · have hn : NWF (E σ0 (x.vnode i)) := nwf hI.sinv.cinv i
    have hlast : (x.vlog i).length = (x.node i).log.last := by
      show (uncLog (x.base i) (x.node i).log).entries.length = _
      have := uncLog_last (β := x.base i) (x.node i).log
      unfold NLog.last at this ⊢
      have h0 : (uncLog (x.base i) (x.node i).log).prev = 0 := rfl
      rw [h0] at this
      omega
    have hk1 : k - 1 < (x.vlog i).length := by omega
    refine ⟨(x.vlog i)[k - 1], ?_, List.getElem?_eq_getElem hk1, ?_⟩
    · rw [get_virtual x i k hk, vget x i k (by omega)]
      exact List.getElem?_eq_getElem hk1
    · have := hn.contig (k - 1) hk1
      show (x.vlog i)[k - 1].index = k
      rw [show (x.vlog i)[k - 1].index = k - 1 + 1 from this]; omega

end

/-! ### Examples (non-vacuity): three voters, every node bootstrapped with the same configuration entry (1,1).
A reachable state in which the snapshot operations (`.snapTaken` included) have been used is PROVED reachable in
`Raft.Snap2`; a scenario with a real compaction is EVALUATED. -/

/-- example initial state: `C02Sys.ex0`, nothing compacted away -/
def exY0 : Snap2.Sys := { cs := C02Sys.ex0, snaps := [], base := fun _ => [] }

/-- node 2 is asked for a snapshot, the snapshot goroutine runs (and refuses: nothing was applied since the last
snapshot), the result is handed over by `.snapTaken` -/
def exZ1 : Snap2.Sys := stepS exY0 2 (.takeSnapshot 7 0) [] [] 0
def exZ2 : Snap2.Sys := stepS exZ1 2 .snapRun [] [] 0
def exZ3 : Snap2.Sys := stepS exZ2 2 .snapTaken [] [] 0

theorem exSide2 (x : Snap2.Sys) (n : Node) (hn : n.configs = (C04Sys.exNode 2).configs)
    (hl : n.log = (C04Sys.exNode 2).log)
    (hx : x.cs.rp.el.node = setNode C04Sys.exNode 2 n) : Side2 [1, 2, 3] x := by
  have hnode : ∀ i, x.node i = setNode C04Sys.exNode 2 n i := fun i => by
    show x.cs.rp.el.node i = _; rw [hx]
  have hlog : ∀ i, (x.node i).log = (C04Sys.exNode 2).log := fun i => by
    rw [hnode i]
    unfold setNode
    split
    · exact hl
    · rfl
  refine ⟨⟨fun i => ?_, fun i => ?_⟩, fun i e he ht => ?_, fun i => ?_, fun i => Or.inl ?_⟩
  · show (x.node i).configs.isBootstrapped = true ∧ (x.node i).configs.latest.voters = _
    rw [hnode i]; unfold setNode
    split
    · rw [hn]; exact ⟨rfl, rfl⟩
    · exact ⟨rfl, rfl⟩
  · show (x.node i).configs.latest.isStable = true
    rw [hnode i]; unfold setNode
    split
    · rw [hn]; decide
    · rfl
  · have he' : e ∈ (uncLog (x.base i) (x.node i).log).entries := he
    rw [uncLog_entries0 _ (by rw [hlog i]; rfl), hlog i] at he'
    have : e = C04Sys.exE := List.mem_singleton.mp he'
    subst this; rfl
  · rw [hlog i]
    exact ⟨by decide, rfl, by decide⟩
  · rw [hlog i]; rfl

theorem exY0_init : Snap2.Init exY0 :=
  ⟨C09Sys.exS0_init.1, fun _ => rfl, fun _ => rfl, fun _ => rfl⟩

set_option maxRecDepth 100000 in
/-- example: `exZ3` is reachable in `Raft.Snap2` — the hypotheses of the theorems of this file hold for a state in
which the snapshot operations, `.snapTaken` included, have been used -/
example : [1, 2, 3].Nodup ∧ Reachable2 [1, 2, 3] exZ3 ∧ (exZ3.node 2).snapResult = none ∧
    (exZ2.node 2).snapResult = some { task := 7, err := "plain:noUpdates" } := by
  have en : ∀ (x : Commit.Sys) (op : Op), OpOKS op → (∀ q, op ≠ .vote q) → (∀ q, op ≠ .append q) →
      (∀ b, op ≠ .newEntries b) → (∀ t c, op ≠ .changeConfig t c) → (∀ a b c, op ≠ .voteResult a b c) →
      (∀ us, op ≠ .replUpdates us) → Snap.Enabled x 2 op 0 := C09Sys.exEnabled
  have t1 : Snap2.Trans exY0 exZ1 :=
    .step 2 (.takeSnapshot 7 0) [] [] 0
      (en _ _ trivial (fun _ h => by cases h) (fun _ h => by cases h) (fun _ h => by cases h)
        (fun _ _ h => by cases h) (fun _ _ _ h => by cases h) (fun _ h => by cases h)) (by decide)
  have s0 : Side2 [1, 2, 3] exY0 := exSide2 _ (C04Sys.exNode 2) rfl rfl (by
    show C04Sys.exNode = _
    funext j; unfold setNode; split
    · rename_i h; rw [h]
    · rfl)
  have s1 : Side2 [1, 2, 3] exZ1 :=
    exSide2 _ ((C04Sys.exNode 2).step (.takeSnapshot 7 0) [] []) (by decide) (by decide) rfl
  have t2 : Snap2.Trans exZ1 exZ2 :=
    .step 2 .snapRun [] [] 0
      (en _ _ trivial (fun _ h => by cases h) (fun _ h => by cases h) (fun _ h => by cases h)
        (fun _ _ h => by cases h) (fun _ _ _ h => by cases h) (fun _ h => by cases h)) (by decide)
  have s2 : Side2 [1, 2, 3] exZ2 :=
    exSide2 _ (((C04Sys.exNode 2).step (.takeSnapshot 7 0) [] []).step .snapRun [] []) (by decide) (by decide)
      (by
        show setNode (setNode C04Sys.exNode 2 _) 2 _ = _
        funext j
        unfold setNode
        split <;> rfl)
  have t3 : Snap2.Trans exZ2 exZ3 :=
    .step 2 .snapTaken [] [] 0
      (en _ _ trivial (fun _ h => by cases h) (fun _ h => by cases h) (fun _ h => by cases h)
        (fun _ _ h => by cases h) (fun _ _ _ h => by cases h) (fun _ h => by cases h)) (by decide)
  have s3 : Side2 [1, 2, 3] exZ3 :=
    exSide2 _ ((((C04Sys.exNode 2).step (.takeSnapshot 7 0) [] []).step .snapRun [] []).step .snapTaken [] [])
      (by decide) (by decide) (by
        show setNode (setNode (setNode C04Sys.exNode 2 _) 2 _) 2 _ = _
        funext j
        unfold setNode
        split <;> rfl)
  exact ⟨by decide, .next _ _ (.next _ _ (.next _ _ (.init _ exY0_init s0) t1 s1) t2 s2) t3 s3, by decide, by decide⟩

/-! #### an evaluated scenario with a real compaction (tests, not proofs: the mutually recursive leader block does not
reduce in the kernel).  Node 1 is elected in term 2; its first entry (index 2) starts a new log segment; index 2 is
replicated, committed and applied; node 1 takes a snapshot at index 2 and `onSnapshotTaken` compacts its log up to
the segment boundary 1 (`log.prev = 1 < snapIndex = 2`); the leader goes on on the compacted log (a client update is
appended, replicated and committed); finally node 1 dies and restarts from its compacted log and its snapshot file. -/

def exY1 : Snap2.Sys := stepS exY0 1 .timeout [] [] 0
def exY2 : Snap2.Sys := stepS exY1 2 (.vote { term := 2, src := 1, lastLogIndex := 1, lastLogTerm := 1 }) [] [] 0
/-- node 1 wins the election; its first entry (index 2) starts a new segment: `rollAt = [1]` -/
def exY3 : Snap2.Sys := stepS exY2 1 (.voteResult false 2 rSuccess) [1] [] 2
def exYReq : AppendReq :=
  { term := 2, src := 1, prevLogIndex := 1, prevLogTerm := 1, entries := (exY3.node 1).log.entries.drop 1 }
def exY4 : Snap2.Sys := { exY3 with cs := sendC exY3.cs exYReq }
def exY5 : Snap2.Sys := stepS exY4 2 (.append exYReq) [] [] 0
def exY6 : Snap2.Sys := stepS exY5 3 (.append exYReq) [] [] 0
def exY7 : Snap2.Sys :=
  stepS exY6 1 (.replUpdates [{ id := 2, upd := .matchIndex 2 }, { id := 3, upd := .matchIndex 2 }]) [] [] 0
def exY8 : Snap2.Sys := stepS exY7 1 (.takeSnapshot 9 0) [] [] 0
def exY9 : Snap2.Sys := stepS exY8 1 .snapRun [] [] 0
/-- the result is handed over: the log is compacted -/
def exY10 : Snap2.Sys := stepS exY9 1 .snapTaken [] [] 0
/-- the leader goes on on the compacted log: a client update (index 3), replicated to node 2, committed -/
def exY11 : Snap2.Sys := stepS exY10 1 (.newEntries [{ typ := etUpdate, data := "a", task := 7 }]) [] [] 0
def exYReq2 : AppendReq :=
  { term := 2, src := 1, prevLogIndex := 2, prevLogTerm := 2, entries := (exY11.vnode 1).log.entries.drop 2,
    ldrCommitIndex := 2 }
def exY12 : Snap2.Sys := { exY11 with cs := sendC exY11.cs exYReq2 }
def exY13 : Snap2.Sys := stepS exY12 2 (.append exYReq2) [] [] 0
def exY14 : Snap2.Sys := stepS exY13 1 (.replUpdates [{ id := 2, upd := .matchIndex 3 }]) [] [] 0
/-- node 1 dies and restarts from its compacted log and its snapshot file -/
def exYn : Option Node := Node.restart (C05.crashDisk (exY14.node 1) .timeout [] [] 0) 1 true
def exY15 : Option Snap2.Sys := exYn.map (fun n => crashS exY14 1 .timeout n)

#guard (exY3.node 1).log.segs == [0, 1] && (exY3.node 1).role == .leader
#guard (exY9.node 1).snapIndex == 2 && (exY9.node 1).snapsDisk.map (fun f => (f.index, f.term, f.data)) == [(2, 2, [])]
-- the compaction: the log starts after index 1, below the snapshot index 2; the removed entry is in `base`; the virtual
-- log is what the log was; nobody failed an assertion
#guard (exY10.node 1).log.prev == 1 && (exY10.node 1).log.segs == [1] && (exY10.node 1).snapIndex == 2 &&
  (exY10.node 1).log.entries.map (fun e => (e.index, e.term)) == [(2, 2)] &&
  (exY10.base 1).map (fun e => (e.index, e.term)) == [(1, 1)] && exY10.vlog 1 == (exY9.node 1).log.entries &&
  (exY10.node 1).panicked.isNone
-- `Log.Get` below the first index fails on node 1, not on node 2 (log matching is about what both still hold)
#guard ((exY14.node 1).log.get? 1).isNone && ((exY14.node 2).log.get? 1).isSome &&
  (exY14.node 1).log.get? 3 == (exY14.node 2).log.get? 3
#guard (exY13.node 2).log.entries.map (fun e => (e.index, e.term, e.data)) == [(1, 1, ""), (2, 2, ""), (3, 2, "a")] &&
  (exY13.node 2).rpcReply.map (·.result) == some rSuccess
#guard (exY14.node 1).commitIndex == 3 && (exY14.node 1).fsm.applied == ["a"] && (exY14.node 1).panicked.isNone &&
  exY14.cs.committed == [(3, 2), (2, 2)]
-- the restart from the compacted log: first index 1, snapshot index = commit index = applied index 2
#guard (exYn.map (fun n => (n.log.prev, n.log.entries.map (fun e => (e.index, e.term, e.data)), n.snapIndex,
    n.commitIndex, n.fsm.index, n.lastLogIndex, n.lastLogTerm, n.role == .follower, n.panicked.isNone))) ==
  some (1, [(2, 2, ""), (3, 2, "a")], 2, 2, 2, 3, 2, true, true)
#guard (exY15.map (fun y => ((y.base 1).map (fun e => (e.index, e.term)), y.vlog 1 == y.vlog 2))) ==
  some ([(1, 1)], true)

/-! #### stage 3 (installation of snapshots) — a finding (F18), evaluated on the repaired model.  The invariant one
carries for installed snapshots ("the log at and below the snapshot index agrees with the snapshot", which is what makes
skipping the consistency check of `onAppendEntriesRequest` below `snapIndex` sound, and "the state machine is the
replay of the log up to the applied index") was FALSE in the earlier model after a crash in the middle of
`onInstallSnapRequest`: the handler publishes the snapshot file (`snap.publish`, `snap.retain`) BEFORE it clears the log
(`clearLog`); a process that dies between the two restarts with the new snapshot and the OLD log, and `openStorage`
only reset a log that ENDS before the snapshot index.  Here a follower holds the uncommitted entries 2–4 of term 2 (of
a deposed leader), receives the snapshot (index 3, term 3, data [a, b]) of the leader of term 3 (possible with five
voters) and dies after `snap.retain`.  Before the repair it restarted with `snapIndex = 3`, `snapTerm = 3`, the state
machine [a, b] — and the log entries (2, term 2, "g2"), (3, term 2, "g3"), behind which the next append request
(`prevLogIndex = 3 ≤ snapIndex`: no check) appended (4, term 3) and committed index 4.  With the repair (`staleLog`:
the entry on disk at the snapshot index has another term than the snapshot, so the log is a stale branch) the restart
resets the log to the snapshot: the log starts after index 3 and is empty, and the append request stores (4, term 3)
directly behind the snapshot. -/

def exI0 : Node :=
  { cid := 7, nid := 2, term := 2, durTerm := 2, votedFor := 3, durVote := 3,
    log := { entries := [C04Sys.exE, { index := 2, term := 2, typ := etUpdate, data := "g2" },
                         { index := 3, term := 2, typ := etUpdate, data := "g3" },
                         { index := 4, term := 2, typ := etUpdate, data := "g4" }], flushed := 4 },
    lastLogIndex := 4, lastLogTerm := 2, commitIndex := 1,
    fsm := { index := 1, term := 1, config := C04Sys.exCfg },
    configs := { committed := C04Sys.exCfg, latest := C04Sys.exCfg } }
def exIq : InstallReq :=
  { term := 3, src := 1, lastIndex := 3, lastTerm := 3, lastConfig := C04Sys.exCfg, data := ["a", "b"] }
/-- the process dies after the third storage point of the installation (`snap.retain`) -/
def exIn : Option Node := Node.restart (C05.crashDisk exI0 (.install exIq) [] [] 3) 1 true
def exIa : AppendReq :=
  { term := 3, src := 1, prevLogIndex := 3, prevLogTerm := 3, ldrCommitIndex := 4,
    entries := [{ index := 4, term := 3, typ := etUpdate, data := "c" }] }

#guard (exI0.step (.install exIq) [] []).trace.map (·.1) == ["value.set", "snap.publish", "snap.retain", "clearLog"] &&
  (exI0.step (.install exIq) [] []).panicked.isNone
#guard staleLog (C05.crashDisk exI0 (.install exIq) [] [] 3)
#guard (exIn.map (fun n => (n.snapIndex, n.snapTerm, n.commitIndex, n.fsm.applied, n.log.prev,
    n.log.entries.map (fun e => (e.index, e.term, e.data)), n.panicked.isNone))) ==
  some (3, 3, 3, ["a", "b"], 3, [], true)
#guard (exIn.map (fun n => let m := n.step (.append exIa) [] []
    (m.log.entries.map (fun e => (e.index, e.term, e.data)), m.commitIndex, m.fsm.applied,
     m.rpcReply.map (·.result) == some rSuccess, m.panicked.isNone))) ==
  some ([(4, 3, "c")], 4, ["a", "b", "c"], true, true)

end C09Sys2
end Raft

#print axioms Raft.C09Sys2.log_matching_sys_snap_partial -- also C04
#print axioms Raft.C09Sys2.leader_completeness_sys_snap_partial -- also C02
#print axioms Raft.C09Sys2.state_machine_safety_sys_snap_partial -- also C03
#print axioms Raft.C09Sys2.snapshot_is_committed_prefix_partial -- also C12
#print axioms Raft.C09Sys2.compaction_keeps_servable_partial
