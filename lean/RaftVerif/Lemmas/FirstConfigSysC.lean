/-
`NodeInv` along the runs of the cluster-level system `SysInv.ReachableG` (`Raft.Commit` with the invariant `GInv`: fixed
membership, no snapshot operations, closed nodes frozen), part C.

`GInv` does not contain `C19Latest.LatestIsNewest`; it is part of `NodeInv` and carried here, together with
`C12Track.Tracks` (as in `C19Sys.tracks_in_sys_partial`) and the ledger invariant "every append request on the wire carries
a configuration at index 1 if it carries index 1":
* `InvG`, `invG_trans` : preserved by every transition of `SysInv.TransG` (completed steps of open nodes, crashes of open
  nodes at any storage point and of any node between two steps + restart, sends);
* `ReachableGF`, `reachGF` : the states reachable from an initial state in which every node tracks and satisfies `NodeInv`.
-/
import RaftVerif.Lemmas.FirstConfigSysB
import RaftVerif.Props.C19Sys

namespace Raft
namespace FirstCfgSys
open Node Track Order FsmCfg C19FsmConfig C19FsmConfigSys TrackCrash
open LogRel CommitRel Commit C02Sys NoPanic SysInv Replication

section
variable {V : List Nat}

/-- what the runs of `SysInv.ReachableG` carry here -/
structure InvG (x : Commit.Sys) : Prop where
  tracks : ∀ i, C12Track.Tracks (x.node i)
  ninv : ∀ i, NodeInv (x.node i)
  sentFirst : ∀ q ∈ x.rp.sent, FirstCfg.First q.entries

/-- there is no snapshot in this system: the label is the zero configuration -/
theorem label_le_of_nwf {s : Node} (h : NWF s) : (label s).index ≤ s.snapIndex := by
  unfold Track.label
  rw [h.snaps]
  exact Nat.zero_le _

/-- an append request read from a log whose entry 1 (if held) is a configuration -/
theorem first_of_readFrom (s : Node) (q : AppendReq) (hr : ReadFrom s q) (hf : FirstIsConfig s) :
    FirstCfg.First q.entries := by
  obtain ⟨n, hn⟩ := hr.entries
  intro e he h1
  rw [hn] at he
  exact hf e (List.mem_of_mem_drop (List.mem_of_mem_take he)) h1

/-- `ReqFirst` and `ReqLab` of an enabled operation -/
theorem reqFirst_enabledG {x : Commit.Sys} (hF : InvG x) {i : Nat} {op : Op} {src : Nat}
    (he : Commit.Enabled x i op src) : ReqFirst (x.node i) op ∧ ReqLab (x.node i) op := by
  cases op with
  | append q =>
    refine ⟨?_, trivial⟩
    show q.term < (x.node i).term ∨ ∀ e ∈ q.entries, e.index = 1 → e.config?.isSome = true
    rcases he.rp.append q rfl with h | h
    · exact Or.inl h
    · exact Or.inr (hF.sentFirst q h)
  | install q => exact (he.rp.ok).elim
  | _ => exact ⟨trivial, trivial⟩

/-- **`InvG` is preserved by every transition of `SysInv.TransG` from a reachable state** -/
theorem invG_trans (hV : V.Nodup) {x y : Commit.Sys} (hx : ReachableG V x) (hF : InvG x) (ht : TransG x y)
    (hsg : SideG y) : InvG y := by
  have hT' := C19Sys.tracks_trans hV hx hF.tracks ht hsg
  have hG := ginv_reachable hV hx
  obtain ⟨hI, hS⟩ := inv_reachable hV (reachableG_V hx)
  cases ht with
  | step i op ra ord src he heG ho =>
    have sc : SC V x i op ra ord src := ⟨hV, hI, hS, he⟩
    obtain ⟨_, hro, hp, _⟩ := C19Sys.reqok_in_sys_partial V hV x hx i op src he heG ho ra ord
    obtain ⟨hq, hlb⟩ := reqFirst_enabledG hF he
    refine ⟨hT', fun j => ?_, hF.sentFirst⟩
    by_cases hj : j = i
    · subst hj
      rw [sc.node_i]
      exact nodeInv_step_nc _ op ra ord (hF.tracks j) (hG.good j).ordered (label_le_of_nwf (nwf hI j)) (hF.ninv j) hro
        hlb hq hp
    · rw [sc.node_j hj]; exact hF.ninv j
  | crash i op ra ord src k retain sor n he heG hopen hn =>
    have cc : CC V x i op ra ord src k retain sor n := ⟨⟨hV, hI, hS, he⟩, hn⟩
    have hm : Mem (x.node i) := ⟨hI.node.lwf i, label_le_of_nwf (nwf hI i), (hG.good i).glob.logDec⟩
    refine ⟨hT', fun j => ?_, hF.sentFirst⟩
    by_cases hj : j = i
    · subst hj
      rw [cc.node_i]
      rcases hopen with ho | hk
      · obtain ⟨hr', hro, hp, _⟩ := C19Sys.reqok_in_sys_partial V hV x hx j op src he heG ho ra ord
        obtain ⟨hq, hlb⟩ := reqFirst_enabledG hF he
        exact nodeInv_crash_nc _ op ra ord k retain sor n (hF.tracks j) (hG.good j).ordered hm (hF.ninv j) hro
          (RestartSys.reqDec_member hr') hlb hq hp hn
      · subst hk
        have hp' : ((x.node j).step (.disconnected 0) ra ord).panicked = none := by
          rw [MemberSide.step_disconnected0]; rfl
        have e : C05.crashDisk (x.node j) op ra ord 0 = C05.crashDisk (x.node j) (.disconnected 0) ra ord 0 := rfl
        rw [e] at hn
        exact nodeInv_crash_nc _ (.disconnected 0) ra ord 0 retain sor n (hF.tracks j) (hG.good j).ordered hm
          (hF.ninv j) trivial trivial trivial trivial hp' hn
    · rw [cc.node_j hj]; exact hF.ninv j
  | send i q hi hl hr hc =>
    refine ⟨hT', hF.ninv, fun q' hq' => ?_⟩
    have hq'' : q' ∈ q :: x.rp.sent := hq'
    rcases List.mem_cons.mp hq'' with rfl | hm
    · exact first_of_readFrom _ _ hr (hF.ninv i).cfg.first
    · exact hF.sentFirst q' hm

/-- States reachable in `SysInv.ReachableG` from an initial state in which every node tracks and satisfies `NodeInv`. -/
inductive ReachableGF (V : List Nat) : Commit.Sys → Prop
  | init (x : Commit.Sys) : Commit.Init x → SideV V x → SideG x → GInv x → (∀ i, C12Track.Tracks (x.node i)) →
      (∀ i, NodeInv (x.node i)) → ReachableGF V x
  | next (x y : Commit.Sys) : ReachableGF V x → TransG x y → SideV V y → SideG y → ReachableGF V y

theorem reachableGF_reachableG {x : Commit.Sys} (h : ReachableGF V x) : ReachableG V x := by
  induction h with
  | init x hi hs hsg hg _ _ => exact .init x hi hs hsg hg
  | next x y _ ht hs hsg ih => exact .next x y ih ht hs hsg

/-- **`InvG` holds in every state of `ReachableGF`** -/
theorem reachGF (hV : V.Nodup) {x : Commit.Sys} (h : ReachableGF V x) : InvG x := by
  induction h with
  | init x hi _ _ _ ht hn =>
    refine ⟨ht, hn, fun q hq => ?_⟩
    have : x.rp.sent = [] := hi.rp.sent
    rw [this] at hq; cases hq
  | next x y hx ht _ hsg ih => exact invG_trans hV (reachableGF_reachableG hx) ih ht hsg

/-- … and along every run from a reachable state in which it holds (the form of `C19Sys.tracks_in_sys_partial`) -/
theorem invG_run (hV : V.Nodup) {x y : Commit.Sys} (hx : ReachableG V x) (hrun : RunG V x y) (hF : InvG x) : InvG y := by
  induction hrun with
  | refl => exact hF
  | next y z hy ht _ hsg ih => exact invG_trans hV (run_reachableG hx hy) ih ht hsg

end

end FirstCfgSys
end Raft
