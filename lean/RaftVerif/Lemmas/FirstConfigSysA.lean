/-
`NodeInv` along the runs of the cluster-level system `Raft.Snap4`, part A (node level and ledger lemmas).

* `nodeInv_step_nc`, `nodeInv_crash_nc` : `C19FsmConfigSys.NodeInv` through a completed step / through a crash at ANY crash
  point of a step followed by a successful restart, stated on the components of `C12Crash.CrashInv` WITHOUT the two identity
  clauses (`cid ≠ 0`, `nid ≠ 0` are needed only for the restart to SUCCEED; in the system the restart is a premise of the
  transition) — so that the invariant can be carried for EVERY node of the cluster, whatever its cluster id;
* `first_of_readFrom2` : an append request a leader reads from its log (`Snap2.ReadFrom2`) satisfies `FirstCfg.First` when
  the leader's log satisfies `FirstIsConfig` (the request is read from the part of the virtual log the node still holds);
* `lab_of_snapRead`   : an install request a leader builds from its newest snapshot file (`Snap3.SnapRead`) is labelled
  with a real configuration when the leader's files satisfy `LabelsPos`.
-/
import RaftVerif.Props.C19FsmConfigSys

namespace Raft
namespace FirstCfgSys
open Node Track Order FsmCfg C19FsmConfig C19FsmConfigSys TrackCrash
open Snap Snap2 Snap3 SnapRelU SnapInst3

/-! ### node level, without the identity clauses of `CrashInv` -/

/-- **`NodeInv` through a completed step** (the content of `C19FsmConfigSys.nodeInv_step` for the `NodeInv` part, from
`Tracks`, `Ordered` and the covered label only) -/
theorem nodeInv_step_nc (s : Node) (op : Op) (ra : List Nat) (ord : List (List Nat)) (ht : C12Track.Tracks s)
    (ho : Ordered s) (hl : (label s).index ≤ s.snapIndex) (hi : NodeInv s) (hr : ReqOk s op) (hlb : ReqLab s op)
    (hq : ReqFirst s op) (hp : (s.step op ra ord).panicked = none) : NodeInv (s.step op ra ord) := by
  obtain ⟨hf, hrl⟩ := first_is_config_step s op ra ord ht ho hl hi hq hlb hp
  obtain ⟨a, b⟩ := above_step s op ra ord ht ho hl hi.cfg hlb hp
  exact ⟨⟨hf, a, b⟩, latest_is_newest_step_nofb s op ra ord hi.latest ht ho hl hi.cfg hr hp, hrl⟩

/-- **the disk at every crash point of every acceptable step is a good disk** (`TrackCrash.Pd`; `C12Crash.crashDisk_pd`
without the identity clauses) -/
theorem crashDisk_pd_nc (s : Node) (op : Op) (ra : List Nat) (ord : List (List Nat)) (k : Nat)
    (ht : C12Track.Tracks s) (ho : Ordered s) (hm : Mem s) (hr : ReqOk s op) (hd : ReqDec s op) (hfb : SnapFbOp s op)
    (hp : (s.step op ra ord).panicked = none) : Pd (C05.crashDisk s op ra ord k) := by
  by_cases hni : ∀ q, op ≠ .install q
  · have hJ := tj_stepAll op ra ord ho ht.toCore ht.queue hm hr hd hfb hni
    obtain ⟨m, htr⟩ := hJ.2 hp
    rcases C04Sys.crashDisk_cases s op ra ord k with e | ⟨p, hpm, e⟩ | e
    · rw [e]; exact pd_durable ht.toCore ho.toCoreW hm
    · rw [e]; exact htr p hpm
    · rw [e]; exact pd_durable (hJ.core hp) (hJ.coreW hp) m
  · have : ∃ q, op = .install q := by
      cases op <;> first | exact ⟨_, rfl⟩ | exact absurd (fun q h => Op.noConfusion h) hni
    obtain ⟨q, rfl⟩ := this
    have hq : SnapInst.Installs s q → Order.InstallOk q := by
      intro hI
      rcases hr with h | h | h
      · exact absurd h hI.1
      · have := hI.2.1; omega
      · exact h
    refine ⟨SnapInst.install_disk_tracks s q ra ord k ht ho,
      SnapInst.install_disk_ok s q ra ord k ht ho hm.lwf hm.lab hq, ?_⟩
    have hdk := SnapInst.install_crashDisk s q ra ord k
    have hdur : NoPanic.LogDec s.durable.log.entries := logDec_take hm.dec _
    rcases hdk.data with ⟨e1, _⟩ | ⟨_, e1 | e1, _, _⟩
    · rw [e1]; exact hdur
    · rw [e1]; exact hdur
    · rw [e1]; intro e he; cases he

/-- **`NodeInv` through a crash at ANY crash point of a step and the restart** (when the restart succeeds — for which the
ids must be set; here it is a hypothesis, as it is a premise of the crash transitions of the system) -/
theorem nodeInv_crash_nc (s : Node) (op : Op) (ra : List Nat) (ord : List (List Nat)) (k r : Nat) (sor : Bool) (n : Node)
    (ht : C12Track.Tracks s) (ho : Ordered s) (hm : Mem s) (hi : NodeInv s) (hr : ReqOk s op) (hd : ReqDec s op)
    (hlb : ReqLab s op) (hq : ReqFirst s op) (hp : (s.step op ra ord).panicked = none)
    (hn : Node.restart (C05.crashDisk s op ra ord k) r sor = some n) : NodeInv n := by
  have hf := fsm_has_config s ht ho hm.lab hi.cfg
  have hpd := crashDisk_pd_nc s op ra ord k ht ho hm hr hd (snapFbOp s op ho hf) hp
  have hd' := diskCfg_at_crash_point s op ra ord k ht ho hm.lab hi hq hlb hp
  refine ⟨restart_cfgInv _ r sor n hd' hn,
    C19Latest.restart_latest_is_newest _ r sor n hpd.ok hpd.tracks (C12Crash.noDecodeErr_of_logDec _ hpd.dec) hn, ?_⟩
  intro hne
  exact absurd (Election.restart_role_nid _ r sor n hn).1 hne

/-! ### what a leader puts on the wire -/

/-- an element of `(pad ++ es).drop p` with `pad.length ≤ p` is an element of `es` -/
theorem mem_of_mem_drop_append {α : Type} {a es : List α} {p : Nat} (hp : a.length ≤ p) {e : α}
    (he : e ∈ (a ++ es).drop p) : e ∈ es := by
  rw [List.drop_append] at he
  rcases List.mem_append.mp he with h | h
  · rw [List.drop_of_length_le hp] at h; cases h
  · exact List.mem_of_mem_drop h

/-- **an append request read from the log of a leader whose entry 1 (if held) is a configuration carries a configuration
at index 1 if it carries index 1** -/
theorem first_of_readFrom2 (x : Snap3.Sys) (i : Nat) (q : AppendReq) (hr : ReadFrom2 (x.node i) (x.vnode i) q)
    (hf : FirstIsConfig (x.node i)) : FirstCfg.First q.entries := by
  obtain ⟨n, hn⟩ := hr.read.entries
  intro e he h1
  rw [hn] at he
  have he' : e ∈ (x.vlog i).drop q.prevLogIndex := List.mem_of_mem_take he
  rw [vlog_def] at he'
  have := mem_of_mem_drop_append (by rw [pad_length]; exact hr.there) he'
  exact hf e this h1

/-- **an install request built from the newest snapshot file of a leader whose files carry real configurations is labelled
with a real configuration** -/
theorem lab_of_snapRead (s : Node) (q : InstallReq) (hr : SnapRead s q) (hl : LabelsPos s.snapsDisk) :
    0 < q.lastConfig.index :=
  hl (C09.fileOf q) (List.mem_of_mem_head? hr.file)

end FirstCfgSys
end Raft
