import RaftVerif.Lemmas.SegLog
/-!
Helper lemmas for C14 (crash consistency of the segmented log) and `reopen_clean` of C13.
Core Lean only.
-/
namespace Raft.SL

/-! ## reopen on a well-formed image -/

/-- An image file that `openSegment` accepts. -/
def GOK (g : FileImg) : Prop :=
  0 < g.cap ∧ g.hdr ≤ g.units.length ∧ dataSize (g.units.take g.hdr) + 8 * (g.hdr + 2) ≤ g.cap

/-- The segment `openSegment` builds from an accepted file. -/
def imgSeg (qg : Nat × FileImg) : Seg :=
  { prev := qg.1, entries := qg.2.units.take qg.2.hdr, synced := (qg.2.hdr : Int), cap := qg.2.cap }

/-- Older image files (newest first) chained below name `p`. -/
def ImgChain : Nat → Img → Prop
  | _, [] => True
  | p, qg :: rest => qg.1 + qg.2.hdr = p ∧ 0 < qg.2.hdr ∧ GOK qg.2 ∧ ImgChain qg.1 rest

def ImgGood : Img → Prop
  | [] => True
  | qg :: rest => GOK qg.2 ∧ ImgChain qg.1 rest

theorem openSeg_ok {q : Nat} {g : FileImg} (h : GOK g) : openSeg q g = .ok (imgSeg (q, g)) := by
  obtain ⟨h1, h2, h3⟩ := h
  unfold openSeg
  rw [if_neg (by omega), if_pos ⟨h2, h3⟩]
  rfl

theorem imgSeg_n {qg : Nat × FileImg} (h : GOK qg.2) : (imgSeg qg).n = qg.2.hdr := by
  simp [imgSeg, Seg.n]; exact Nat.min_eq_left h.2.1

theorem imgChain_good {p : Nat} {l : Img} (h : ImgChain p l) : ImgGood l := by
  cases l with
  | nil => trivial
  | cons x rest => exact ⟨h.2.2.1, h.2.2.2⟩

theorem imgGood_tail {x : Nat × FileImg} {l : Img} (h : ImgGood (x :: l)) : ImgGood l :=
  imgChain_good h.2

theorem imgGood_suffix {a b : Img} (h : ImgGood (a ++ b)) : ImgGood b := by
  induction a with
  | nil => exact h
  | cons x xs ih => exact ih (imgGood_tail h)

/-- The loop of `openSegments` on files that continue a good chain: every file is connected. -/
theorem reopenLoop_good (todo : Img) :
    ∀ (x : Nat × FileImg) (done : Img), ImgGood (todo.reverse ++ x :: done) →
      ∃ y rest, todo.reverse ++ x :: done = y :: rest ∧
        reopenLoop (imgSeg x) (done.map imgSeg) todo = .ok (imgSeg y, rest.map imgSeg, none) := by
  induction todo with
  | nil => intro x done _; exact ⟨x, done, rfl, rfl⟩
  | cons t ts ih =>
    intro x done hg
    have e : (t :: ts).reverse ++ x :: done = ts.reverse ++ t :: x :: done := by simp
    rw [e] at hg ⊢
    have hs : ImgGood (t :: x :: done) := imgGood_suffix hg
    obtain ⟨g1, c1, c2, c3, _⟩ := hs
    obtain ⟨y, rest, e1, e2⟩ := ih t (x :: done) hg
    refine ⟨y, rest, e1, ?_⟩
    obtain ⟨tq, tg⟩ := t
    have hn : (imgSeg x).n = x.2.hdr := imgSeg_n c3
    have hp : (imgSeg x).prev = x.1 := rfl
    rw [reopenLoop, if_pos ⟨by rw [hn]; exact c2, by unfold Seg.lastIndex; rw [hn, hp]; exact c1.symm⟩,
      openSeg_ok g1]
    exact e2

theorem reopen_nil (ss : Nat) : reopen [] ss = .ok (SegLog.empty ss, [(0, FileImg.fresh ss)]) := by
  simp [reopen]

theorem reopen_good {x : Nat × FileImg} {rest : Img} (h : ImgGood (x :: rest)) (ss : Nat) :
    reopen (x :: rest) ss =
      .ok ({ last := imgSeg x, older := rest.map imgSeg, segmentSize := ss }, x :: rest) := by
  cases himg : (x :: rest).reverse with
  | nil => simp at himg
  | cons f more =>
    have e : x :: rest = more.reverse ++ [f] := by
      have := congrArg List.reverse himg; simpa using this
    have hg : ImgGood (more.reverse ++ f :: []) := by rw [← e]; exact h
    obtain ⟨y, rest', e1, e2⟩ := reopenLoop_good more f [] hg
    have hf : GOK f.2 := (imgGood_suffix hg).1
    unfold reopen
    rw [himg]
    simp only []
    obtain ⟨fq, fg⟩ := f
    rw [openSeg_ok hf]
    simp only [List.map_nil] at e2
    simp only [e2]
    rw [← e] at e1
    cases e1
    rfl


/-! ## Disk states -/

/-- The file `qf` holds segment `x`; its volatile / durable headers are `hv` / `hd`, and the
first `M` units are the same in the durable and the volatile image. -/
structure FR (x : Seg) (qf : Nat × FileSt) (hv hd M : Nat) : Prop where
  name : qf.1 = x.prev
  cap : qf.2.cap = x.cap
  units : qf.2.vunits.take x.n = x.entries
  len : x.n ≤ qf.2.vunits.length
  vh : qf.2.vhdr = hv
  dh : qf.2.dhdr = hd
  clean : qf.2.dunits.take M = qf.2.vunits.take M
  hvM : hv ≤ M
  hdM : hd ≤ M
  Mn : M ≤ x.n

/-- A sealed (fully synced) file. -/
def SR (x : Seg) (qf : Nat × FileSt) : Prop := FR x qf x.n x.n x.n

/-- Sealed files `dr` hold the segments `xs`, pairwise. -/
def SRs : List Seg → Disk → Prop
  | [], [] => True
  | y :: ys, qf :: dr => SR y qf ∧ SRs ys dr
  | _, _ => False

/-- Disk state: the head file holds `x` (headers `hv`/`hd`, clean to `M`), the rest are sealed
files holding `xs`. -/
def DS (x : Seg) (xs : List Seg) (hv hd M : Nat) (d : Disk) : Prop :=
  ∃ qf dr, d = qf :: dr ∧ FR x qf hv hd M ∧ SRs xs dr

/-- Segment `x` cut back to its first `h` entries, as a reopen sees it. -/
def trunc (x : Seg) (h : Nat) : Seg := { x with entries := x.entries.take h, synced := (h : Int) }

theorem trunc_full {x : Seg} (h : x.synced = (x.n : Int)) : trunc x x.n = x := by
  cases x; simp_all [trunc, Seg.n]

theorem take_eq_of_prefix {α} {a b : List α} {h : Nat}
    (hk : ∀ k, k < h → a[k]? = b[k]?) : a.take h = b.take h := by
  apply List.ext_getElem?
  intro k
  rw [List.getElem?_take, List.getElem?_take]
  split
  · rename_i hlt; exact hk k hlt
  · rfl

theorem power_units {f : FileSt} {g : FileImg} {M h : Nat} (hp : f.PowerImg g)
    (hc : f.dunits.take M = f.vunits.take M) (hM : h ≤ M) (hl : M ≤ f.vunits.length) :
    g.units.take h = f.vunits.take h := by
  apply take_eq_of_prefix
  intro k hk
  have hkl : k < f.vunits.length := by omega
  have e1 : f.vunits[k]? = some f.vunits[k] := List.getElem?_eq_getElem hkl
  have e2 : f.dunits[k]? = some f.vunits[k] := by
    have := congrArg (fun l => l[k]?) hc
    simp only [List.getElem?_take] at this
    rw [if_pos (by omega), if_pos (by omega)] at this
    rw [this, e1]
  rw [e1]
  exact hp.2.2 k _ e2 e1

/-- What any power-loss (or kill) image of a file in state `FR` looks like to `openSegment`. -/
theorem fr_image {x : Seg} {qf : Nat × FileSt} {hv hd M : Nat} {g : FileImg}
    (hf : FR x qf hv hd M) (hx : x.size + 8 * (x.n + 2) ≤ x.cap) (hp : qf.2.PowerImg g) :
    ∃ h, (h = hd ∨ h = hv) ∧ g.hdr = h ∧ GOK g ∧ imgSeg (qf.1, g) = trunc x h := by
  have hh : g.hdr ≤ M := by
    rcases hp.2.1 with e | e
    · rw [e, hf.dh]; exact hf.hdM
    · rw [e, hf.vh]; exact hf.hvM
  have hMn := hf.Mn
  have hlen := hf.len
  have hu : g.units.take g.hdr = x.entries.take g.hdr := by
    rw [power_units hp hf.clean hh (by omega), ← hf.units, List.take_take, Nat.min_eq_left (by omega)]
  refine ⟨g.hdr, ?_, rfl, ⟨?_, ?_, ?_⟩, ?_⟩
  · rcases hp.2.1 with e | e
    · left; rw [e, hf.dh]
    · right; rw [e, hf.vh]
  · rw [hp.1, hf.cap]; omega
  · have := congrArg List.length hu
    simp [Seg.n] at this hMn
    omega
  · rw [hu, hp.1, hf.cap]
    have := dataSize_take_le x.entries g.hdr
    simp [Seg.size] at hx
    omega
  · simp [imgSeg, trunc, hu, hp.1, hf.cap, hf.name]

theorem sealed_images {xs : List Seg} : ∀ {p : Nat} {dr : Disk} {ir : Img},
    SRs xs dr → Chain p xs → PowerImg dr ir → ImgChain p ir ∧ ir.map imgSeg = xs := by
  induction xs with
  | nil =>
    intro p dr ir hs _ hp
    cases dr with
    | nil =>
      cases ir with
      | nil => exact ⟨trivial, rfl⟩
      | cons a b => simp [PowerImg] at hp
    | cons a b => simp [SRs] at hs
  | cons y ys ih =>
    intro p dr ir hs hc hp
    cases dr with
    | nil => simp [SRs] at hs
    | cons qf dr' =>
      obtain ⟨hy, hys⟩ := hs
      cases ir with
      | nil => simp [PowerImg] at hp
      | cons a b =>
        obtain ⟨aq, ag⟩ := a
        obtain ⟨qfq, qff⟩ := qf
        obtain ⟨e, hpg, hpr⟩ := hp
        obtain ⟨c1, c2, c3, c4, c5⟩ := hc
        obtain ⟨h, hh, e1, e2, e3⟩ := fr_image hy c4.1 hpg
        have hhn : h = y.n := by rcases hh with r | r <;> exact r
        have hname : qfq = y.prev := hy.name
        subst e
        obtain ⟨i1, i2⟩ := ih (p := y.prev) hys c5 hpr
        refine ⟨⟨?_, ?_, e2, ?_⟩, ?_⟩
        · show qfq + ag.hdr = p; omega
        · show 0 < ag.hdr; omega
        · show ImgChain qfq b; rw [hname]; exact i1
        · simp only [List.map_cons, i2, e3, hhn, trunc_full c3]

/-- Every power-loss image of a disk in state `DS` reopens to the chain `trunc x h :: xs` with `h`
one of the two header values of the head file; the directory is left as it is. -/
theorem ds_reopen {x : Seg} {xs : List Seg} {hv hd M : Nat} {d : Disk} {img : Img}
    (hd' : DS x xs hv hd M d) (hx : x.size + 8 * (x.n + 2) ≤ x.cap) (hc : Chain x.prev xs)
    (hp : PowerImg d img) (ss : Nat) :
    ∃ h, (h = hd ∨ h = hv) ∧ h ≤ x.n ∧
      reopen img ss = .ok ({ last := trunc x h, older := xs, segmentSize := ss }, img) := by
  obtain ⟨qf, dr, rfl, hf, hs⟩ := hd'
  cases img with
  | nil => simp [PowerImg] at hp
  | cons a ir =>
    obtain ⟨aq, ag⟩ := a
    obtain ⟨qfq, qff⟩ := qf
    obtain ⟨e, hpg, hpr⟩ := hp
    subst e
    obtain ⟨h, hh, _, e2, e3⟩ := fr_image hf hx hpg
    have hname : qfq = x.prev := hf.name
    obtain ⟨i1, i2⟩ := sealed_images hs hc hpr
    refine ⟨h, hh, by have := hf.hvM; have := hf.hdM; have := hf.Mn; rcases hh with r | r <;> omega, ?_⟩
    rw [reopen_good ⟨e2, by show ImgChain qfq ir; rw [hname]; exact i1⟩, e3, i2]


/-! ## Effect of single micro-steps on a disk state -/

theorem upd_head (q : Nat) (f : FileSt → FileSt) (x : FileSt) (rest : Disk) :
    upd q f ((q, x) :: rest) = (q, f x) :: rest := by simp [upd]

theorem srs_names_lt {xs : List Seg} : ∀ {p : Nat} {dr : Disk}, SRs xs dr → Chain p xs →
    ∀ qf ∈ dr, qf.1 < p := by
  induction xs with
  | nil =>
    intro p dr hs _ qf hq
    cases dr with
    | nil => simp at hq
    | cons a b => simp [SRs] at hs
  | cons y ys ih =>
    intro p dr hs hc qf hq
    cases dr with
    | nil => simp at hq
    | cons a b =>
      obtain ⟨hy, hys⟩ := hs
      obtain ⟨c1, c2, _, _, c5⟩ := hc
      have hn : a.1 = y.prev := hy.name
      rcases List.mem_cons.1 hq with rfl | hq
      · omega
      · have := ih hys c5 qf hq; omega

theorem filter_ne_of_lt {dr : Disk} {p : Nat} (h : ∀ qf ∈ dr, qf.1 < p) :
    dr.filter (fun pf => pf.1 != p) = dr := by
  apply List.filter_eq_self.2
  intro qf hq
  have := h qf hq
  simp; omega

theorem ds_msync {x : Seg} {xs : List Seg} {hv hd M : Nat} {d : Disk} (h : DS x xs hv hd M d) :
    DS x xs hv hv x.n (Step.run d (.msync x.prev)) := by
  obtain ⟨⟨q, f⟩, dr, rfl, hf, hs⟩ := h
  have hq : q = x.prev := hf.name
  subst hq
  refine ⟨_, dr, by simp only [Step.run]; rw [upd_head], ?_, hs⟩
  have := hf.hvM; have := hf.Mn
  exact ⟨hf.name, hf.cap, hf.units, hf.len, hf.vh, hf.vh, rfl, by omega, by omega, Nat.le_refl _⟩

theorem ds_store {x : Seg} {xs : List Seg} {hv hd M k : Nat} {d : Disk} (h : DS x xs hv hd M d)
    (hk : k ≤ M) : DS x xs k hd M (Step.run d (.store x.prev k)) := by
  obtain ⟨⟨q, f⟩, dr, rfl, hf, hs⟩ := h
  have hq : q = x.prev := hf.name
  subst hq
  refine ⟨_, dr, by simp only [Step.run]; rw [upd_head], ?_, hs⟩
  exact ⟨hf.name, hf.cap, hf.units, hf.len, rfl, hf.dh, hf.clean, hk, hf.hdM, hf.Mn⟩

theorem ds_write {x : Seg} {xs : List Seg} {hv hd M : Nat} {d : Disk} (h : DS x xs hv hd M d)
    (b : Bytes) : DS (x.append b) xs hv hd M (Step.run d (.write x.prev x.n b)) := by
  obtain ⟨⟨q, f⟩, dr, rfl, hf, hs⟩ := h
  have hq : q = x.prev := hf.name
  subst hq
  refine ⟨_, dr, by simp only [Step.run]; rw [upd_head], ?_, hs⟩
  have hlen : x.n ≤ f.vunits.length := hf.len
  have hMn := hf.Mn
  have hl : (f.vunits.take x.n).length = x.n := by simp; omega
  refine ⟨hf.name, hf.cap, ?_, ?_, hf.vh, hf.dh, ?_, hf.hvM, hf.hdM, ?_⟩
  · show (f.vunits.take x.n ++ [b]).take (x.entries ++ [b]).length = x.entries ++ [b]
    rw [hf.units]; exact List.take_length
  · show (x.entries ++ [b]).length ≤ (f.vunits.take x.n ++ [b]).length
    simp [Seg.n] at *; omega
  · show f.dunits.take M = (f.vunits.take x.n ++ [b]).take M
    rw [List.take_append_of_le_length (by omega), List.take_take, Nat.min_eq_left hMn]
    exact hf.clean
  · show M ≤ (x.entries ++ [b]).length
    simp [Seg.n] at *; omega

/-- Cutting a segment back to `k` entries keeps the file relation if both headers are ≤ k. -/
theorem fr_cut {x : Seg} {qf : Nat × FileSt} {hv hd M k : Nat} (hf : FR x qf hv hd M)
    (hk : k ≤ x.n) (h1 : hv ≤ k) (h2 : hd ≤ k) (sy : Int) :
    FR { x with entries := x.entries.take k, synced := sy } qf hv hd (min M k) := by
  have hlen := hf.len
  have hn : ({ x with entries := x.entries.take k, synced := sy } : Seg).n = k := by
    simp [Seg.n] at *; omega
  refine ⟨hf.name, hf.cap, ?_, ?_, hf.vh, hf.dh, ?_, by have := hf.hvM; omega, by have := hf.hdM; omega, ?_⟩
  · rw [hn]; show _ = x.entries.take k
    rw [← hf.units, List.take_take, Nat.min_eq_left hk]
  · rw [hn]; omega
  · have := congrArg (List.take (min M k)) hf.clean
    simpa [List.take_take, Nat.min_assoc, Nat.min_comm] using this
  · rw [hn]; exact Nat.min_le_right _ _

theorem ds_remove_head {x y : Seg} {ys : List Seg} {hv hd M : Nat} {d : Disk}
    (h : DS x (y :: ys) hv hd M d) (hc : Chain x.prev (y :: ys)) :
    DS y ys y.n y.n y.n (Step.run d (.remove x.prev)) := by
  obtain ⟨⟨q, f⟩, dr, rfl, hf, hs⟩ := h
  have hq : q = x.prev := hf.name
  subst hq
  cases dr with
  | nil => simp [SRs] at hs
  | cons a b =>
    have hlt := srs_names_lt hs hc
    refine ⟨a, b, ?_, hs.1, hs.2⟩
    have e : Step.run ((x.prev, f) :: a :: b) (.remove x.prev) =
        List.filter (fun pf => pf.1 != x.prev) (a :: b) := by
      simp [Step.run, List.filter_cons]
    rw [e]
    exact filter_ne_of_lt hlt

theorem ds_remove_only {x : Seg} {hv hd M : Nat} {d : Disk} (h : DS x [] hv hd M d) :
    Step.run d (.remove x.prev) = [] := by
  obtain ⟨⟨q, f⟩, dr, rfl, hf, hs⟩ := h
  have hq : q = x.prev := hf.name
  subst hq
  cases dr with
  | nil => simp [Step.run]
  | cons a b => simp [SRs] at hs


theorem srs_append_single {xs : List Seg} {y : Seg} : ∀ {dr : Disk}, SRs (xs ++ [y]) dr →
    ∃ dr' qy, dr = dr' ++ [qy] ∧ SRs xs dr' ∧ SR y qy := by
  induction xs with
  | nil =>
    intro dr h
    cases dr with
    | nil => simp [SRs] at h
    | cons a b =>
      cases b with
      | nil => exact ⟨[], a, rfl, trivial, h.1⟩
      | cons c e => simp [SRs] at h
  | cons z zs ih =>
    intro dr h
    cases dr with
    | nil => simp [SRs] at h
    | cons a b =>
      obtain ⟨h1, h2⟩ := h
      obtain ⟨dr', qy, e, h3, h4⟩ := ih h2
      exact ⟨a :: dr', qy, by rw [e]; rfl, ⟨h1, h3⟩, h4⟩

theorem srs_names_ge {xs : List Seg} : ∀ {dr : Disk} {m : Nat}, SRs xs dr → (∀ z ∈ xs, m ≤ z.prev) →
    ∀ qf ∈ dr, m ≤ qf.1 := by
  induction xs with
  | nil =>
    intro dr m hs _ qf hq
    cases dr with
    | nil => simp at hq
    | cons a b => simp [SRs] at hs
  | cons y ys ih =>
    intro dr m hs hm qf hq
    cases dr with
    | nil => simp at hq
    | cons a b =>
      obtain ⟨hy, hys⟩ := hs
      have hn : a.1 = y.prev := hy.name
      rcases List.mem_cons.1 hq with rfl | hq
      · have := hm y (by simp); omega
      · exact ih hys (fun z hz => hm z (List.mem_cons_of_mem _ hz)) qf hq

theorem ds_remove_oldest {x y : Seg} {xs : List Seg} {hv hd M : Nat} {d : Disk}
    (h : DS x (xs ++ [y]) hv hd M d) (hc : Chain x.prev (xs ++ [y])) :
    DS x xs hv hd M (Step.run d (.remove y.prev)) := by
  obtain ⟨⟨q, f⟩, dr, rfl, hf, hs⟩ := h
  have hq : q = x.prev := hf.name
  subst hq
  obtain ⟨dr', qy, rfl, h3, h4⟩ := srs_append_single hs
  obtain ⟨ck, cy⟩ := chain_append hc
  have hylt : y.prev < chainPrev x.prev xs := by
    obtain ⟨c1, c2, _⟩ := cy; omega
  have hge : ∀ z ∈ xs, y.prev + 1 ≤ z.prev := fun z hz => by
    have := chainPrev_le_mem ck z hz; omega
  have hxge : y.prev < x.prev := by have := chainPrev_le ck; omega
  have hnames := srs_names_ge h3 hge
  have hqy : qy.1 = y.prev := h4.name
  refine ⟨(x.prev, f), dr', ?_, hf, h3⟩
  have e1 : List.filter (fun pf : Nat × FileSt => pf.1 != y.prev) dr' = dr' := by
    apply List.filter_eq_self.2
    intro qf hq
    have := hnames qf hq
    simp; omega
  simp only [Step.run, List.filter_cons, List.filter_append, e1]
  have : (x.prev != y.prev) = true := by simp; omega
  simp [this, hqy]

theorem ds_fresh (name size : Nat) (xs : List Seg) (dr : Disk) (hs : SRs xs dr) :
    DS (Seg.fresh name size) xs 0 0 0 ((name, FileSt.zero size) :: dr) := by
  refine ⟨_, dr, rfl, ?_, hs⟩
  exact ⟨rfl, rfl, rfl, by simp [Seg.fresh, Seg.n, FileSt.zero], rfl, rfl, rfl,
    Nat.le_refl _, Nat.le_refl _, Nat.zero_le _⟩

@[simp] theorem run_tmpCreate (d : Disk) (n : Nat) : Step.run d (.tmpCreate n) = d := rfl
@[simp] theorem run_tmpTruncate (d : Disk) (n k : Nat) : Step.run d (.tmpTruncate n k) = d := rfl
@[simp] theorem run_tmpZero16 (d : Disk) (n : Nat) : Step.run d (.tmpZero16 n) = d := rfl
@[simp] theorem run_tmpFsync (d : Disk) (n : Nat) : Step.run d (.tmpFsync n) = d := rfl

/-- `createSegment name` on top of a sealed chain: only the final rename changes the directory. -/
theorem create_top {x : Seg} {xs : List Seg} {d : Disk} (h : DS x xs x.n x.n x.n d)
    (name size : Nat) (hn : x.prev < name) :
    Step.run d (.rename name size) = (name, FileSt.zero size) :: d ∧
    DS (Seg.fresh name size) (x :: xs) 0 0 0 ((name, FileSt.zero size) :: d) := by
  obtain ⟨⟨q, f⟩, dr, rfl, hf, hs⟩ := h
  have hq : q = x.prev := hf.name
  subst hq
  refine ⟨by simp [Step.run, ins, hn], ?_⟩
  exact ds_fresh name size (x :: xs) _ ⟨hf, hs⟩

theorem create_empty (name size : Nat) :
    Step.run [] (.rename name size) = [(name, FileSt.zero size)] ∧
    DS (Seg.fresh name size) [] 0 0 0 [(name, FileSt.zero size)] :=
  ⟨rfl, ds_fresh name size [] [] trivial⟩

/-! ## Reachable crash states of a script -/

/-- `d'` is the disk after some prefix of `steps`. -/
def Reach (steps : List Step) (d d' : Disk) : Prop := ∃ k, d' = runSteps d (steps.take k)

theorem reach_nil {d d' : Disk} : Reach [] d d' ↔ d' = d := by
  simp [Reach, runSteps]

theorem reach_cons {st : Step} {rest : List Step} {d d' : Disk} :
    Reach (st :: rest) d d' ↔ d' = d ∨ Reach rest (st.run d) d' := by
  constructor
  · rintro ⟨k, rfl⟩
    cases k with
    | zero => left; rfl
    | succ k => right; exact ⟨k, rfl⟩
  · rintro (rfl | ⟨k, rfl⟩)
    · exact ⟨0, rfl⟩
    · exact ⟨k + 1, rfl⟩

theorem runSteps_append (d : Disk) (a b : List Step) :
    runSteps d (a ++ b) = runSteps (runSteps d a) b := by
  induction a generalizing d with
  | nil => rfl
  | cons st rest ih => simp [runSteps, ih]

theorem reach_append {a b : List Step} {d d' : Disk} :
    Reach (a ++ b) d d' ↔ Reach a d d' ∨ Reach b (runSteps d a) d' := by
  induction a generalizing d with
  | nil => simp [reach_nil, runSteps]; intro h; subst h; exact ⟨0, rfl⟩
  | cons st rest ih =>
    rw [List.cons_append, reach_cons, reach_cons, ih]
    simp only [runSteps]
    constructor
    · rintro (h | h | h)
      · exact Or.inl (Or.inl h)
      · exact Or.inl (Or.inr h)
      · exact Or.inr h
    · rintro ((h | h) | h)
      · exact Or.inl h
      · exact Or.inr (Or.inl h)
      · exact Or.inr (Or.inr h)

theorem reach_all (steps : List Step) (d : Disk) : Reach steps d (runSteps d steps) :=
  ⟨steps.length, by simp⟩

theorem reach_take {steps : List Step} {d : Disk} (k : Nat) :
    Reach steps d (runSteps d (steps.take k)) := ⟨k, rfl⟩


/-! ## Crash specification -/

/-- The entries covered by the last completed sync: everything in the non-last segments and the
first `synced` entries of the last one. -/
def durable (s : SegLog) : AbsLog :=
  { prev := s.prevIndex, entries := absEntries s.older ++ s.last.entries.take s.last.synced.toNat }

def AbsLog.inRange (a : AbsLog) (j : Nat) : Prop := a.prev < j ∧ j ≤ a.lastIndex

/-- `w` is a contiguous piece of `a` sitting at the right indices. -/
def Window (w a : AbsLog) : Prop :=
  ∃ A T, a.entries = A ++ w.entries ++ T ∧ w.prev = a.prev + A.length

/-- C14 per-operation specification of what a reopen after a crash may return (`a`), relative to
the state `s` before the interrupted operation and the abstract log `post` it would have produced:
every entry exposed sits at its index in the pre- or the post-state (nothing invented, nothing
resurrected), and every entry that was durable before and is not removed by the operation is there. -/
def CrashSpec (s : SegLog) (post a : AbsLog) : Prop :=
  (∀ j b, a.get? j = some b → (abs s).get? j = some b ∨ post.get? j = some b) ∧
  (∀ j b, (durable s).get? j = some b → post.get? j = some b → a.get? j = some b)

/-- Window/range form of `CrashSpec`, which is what the case analysis establishes. -/
def WR (s : SegLog) (post a : AbsLog) : Prop :=
  (a.entries = [] ∨ Window a (abs s)) ∧ ∀ j, (durable s).inRange j → post.inRange j → a.inRange j

theorem get?_inRange {a : AbsLog} {j : Nat} {b : Bytes} (h : a.get? j = some b) : a.inRange j := by
  unfold AbsLog.get? at h
  by_cases hj : j > a.prev
  · rw [if_pos hj] at h
    have : j - a.prev - 1 < a.entries.length := by
      apply Classical.byContradiction
      intro hn
      rw [List.getElem?_eq_none (by omega)] at h
      cases h
    exact ⟨hj, by simp [AbsLog.lastIndex]; omega⟩
  · rw [if_neg hj] at h; cases h

theorem inRange_get? {a : AbsLog} {j : Nat} (h : a.inRange j) : ∃ b, a.get? j = some b := by
  obtain ⟨h1, h2⟩ := h
  simp only [AbsLog.lastIndex] at h2
  have hlt : j - a.prev - 1 < a.entries.length := by omega
  exact ⟨a.entries[j - a.prev - 1], by simp [AbsLog.get?, h1, List.getElem?_eq_getElem hlt]⟩

theorem window_get {w a : AbsLog} (hw : Window w a) {j : Nat} {b : Bytes} (h : w.get? j = some b) :
    a.get? j = some b := by
  obtain ⟨A, T, e, ep⟩ := hw
  obtain ⟨h1, h2⟩ := get?_inRange h
  simp only [AbsLog.lastIndex] at h2
  unfold AbsLog.get? at h ⊢
  rw [if_pos h1] at h
  rw [if_pos (by omega), e]
  have hlt : j - w.prev - 1 < w.entries.length := by omega
  have e1 : j - a.prev - 1 = A.length + (j - w.prev - 1) := by omega
  rw [e1, List.append_assoc, List.getElem?_append_right (by omega)]
  simp only [Nat.add_sub_cancel_left]
  rw [List.getElem?_append_left hlt]
  exact h

theorem durable_window {s : SegLog} (h : Inv s) : Window (durable s) (abs s) := by
  refine ⟨[], s.last.entries.drop s.last.synced.toNat, ?_, by simp [durable, abs_prev]⟩
  simp [durable, abs_eq]

theorem wr_spec {s : SegLog} (h : Inv s) {post a : AbsLog} (hw : WR s post a) : CrashSpec s post a := by
  obtain ⟨hw1, hw2⟩ := hw
  have hne : ∀ j, a.inRange j → Window a (abs s) := by
    intro j hj
    rcases hw1 with e | w
    · exfalso; obtain ⟨h1, h2⟩ := hj; simp [AbsLog.lastIndex, e] at h2; omega
    · exact w
  constructor
  · intro j b hb
    left
    exact window_get (hne j (get?_inRange hb)) hb
  · intro j b hd hp
    have hr := hw2 j (get?_inRange hd) (get?_inRange hp)
    obtain ⟨b', hb'⟩ := inRange_get? hr
    have e1 := window_get (hne j hr) hb'
    have e2 := window_get (durable_window h) hd
    rw [e1] at e2
    cases e2
    exact hb'

/-- A disk state whose every image reopens to a described sub-chain satisfying the specification. -/
def GoodDS (s : SegLog) (post : AbsLog) (d' : Disk) : Prop :=
  ∃ x ys hv hd M, DS x ys hv hd M d' ∧ x.size + 8 * (x.n + 2) ≤ x.cap ∧ Chain x.prev ys ∧
    ∀ h, (h = hd ∨ h = hv) → WR s post ⟨chainPrev x.prev ys, absEntries ys ++ x.entries.take h⟩

def CrashState (s : SegLog) (post : AbsLog) (d' : Disk) : Prop :=
  (d' = [] ∧ WR s post ⟨0, []⟩) ∨ GoodDS s post d'

theorem trunc_ok {x : Seg} {h : Nat} (hx : x.size + 8 * (x.n + 2) ≤ x.cap) (hh : h ≤ x.n) :
    SegOK (trunc x h) := by
  have := dataSize_take_le x.entries h
  simp [SegOK, trunc, Seg.size, Seg.n] at *
  omega

theorem powerImg_nil {img : Img} (h : PowerImg [] img) : img = [] := by
  cases img with
  | nil => rfl
  | cons a b => simp [PowerImg] at h

/-- Every power-loss image of a crash state reopens, to an `Inv` log meeting the
crash specification, and the directory is unchanged except that an empty one gets `0.log`. -/
theorem crashState_reopen {s : SegLog} (h : Inv s) {post : AbsLog} {d' : Disk}
    (hc : CrashState s post d') {img : Img} (hp : PowerImg d' img)
    {ss : Nat} (hss : 1024 ≤ ss) :
    ∃ s'' img', reopen img ss = .ok (s'', img') ∧ Inv s'' ∧ CrashSpec s post (abs s'') := by
  rcases hc with ⟨rfl, hw⟩ | ⟨x, ys, hv, hd, M, hds, hx, hch, hw⟩
  · rw [powerImg_nil hp, reopen_nil]
    refine ⟨_, _, rfl, ⟨fresh_ok (by omega), trivial, hss⟩, ?_⟩
    exact wr_spec h hw
  · obtain ⟨hh, hh1, hh2, e⟩ := ds_reopen hds hx hch hp ss
    refine ⟨_, _, e, ⟨trunc_ok hx hh2, hch, hss⟩, ?_⟩
    have := wr_spec h (hw hh hh1)
    simpa [abs_eq, trunc] using this


/-! ## Sub-chains of the pre-state are windows of its abstract log -/

theorem subchain_facts {s : SegLog} (h : Inv s) {pre : List Seg} {x : Seg} {rest : List Seg}
    (hsegs : s.segs = pre ++ x :: rest) :
    SegOK x ∧ Chain x.prev rest ∧ s.prevIndex = chainPrev x.prev rest ∧ x.prev + x.n ≤ s.lastIndex ∧
    absEntries s.segs = absEntries rest ++ x.entries ++ absEntries pre := by
  have habs : absEntries s.segs = absEntries rest ++ x.entries ++ absEntries pre := by
    rw [hsegs, absEntries_append]; rfl
  cases pre with
  | nil =>
    simp only [SegLog.segs, List.nil_append, List.cons.injEq] at hsegs
    obtain ⟨e1, e2⟩ := hsegs
    refine ⟨e1 ▸ h.1, by rw [← e1, ← e2]; exact h.2.1, by rw [prevIndex_eq, e1, e2], ?_, habs⟩
    rw [← e1]; simp [SegLog.lastIndex, Seg.lastIndex]
  | cons p0 pre' =>
    simp only [SegLog.segs, List.cons_append, List.cons.injEq] at hsegs
    obtain ⟨e1, e2⟩ := hsegs
    have hc := h.2.1
    rw [e2] at hc
    obtain ⟨ck, cx⟩ := chain_append hc
    obtain ⟨c1, _, _, c4, c5⟩ := cx
    have hle := chainPrev_le ck
    refine ⟨c4, c5, ?_, ?_, habs⟩
    · rw [prevIndex_eq, e2, chainPrev_append]; rfl
    · simp [SegLog.lastIndex, Seg.lastIndex]; omega

theorem window_sub {s : SegLog} (h : Inv s) {pre : List Seg} {x : Seg} {ys post' : List Seg}
    (hsegs : s.segs = pre ++ x :: (ys ++ post')) (k : Nat) :
    Window ⟨chainPrev x.prev ys, absEntries ys ++ x.entries.take k⟩ (abs s) ∧
    Chain x.prev ys ∧ SegOK x ∧ chainPrev x.prev ys + (absEntries ys).length = x.prev ∧
    s.prevIndex + (absEntries post').length = chainPrev x.prev ys ∧ x.prev + x.n ≤ s.lastIndex := by
  obtain ⟨f1, f2, f3, f4, f5⟩ := subchain_facts h hsegs
  obtain ⟨cy, cp⟩ := chain_append f2
  have l1 := chain_len cy
  have l2 := chain_len cp
  rw [chainPrev_append] at f3
  refine ⟨⟨absEntries post', x.entries.drop k ++ absEntries pre, ?_, ?_⟩, cy, f1, l1, by omega, f4⟩
  · show (abs s).entries = _
    simp only [abs, f5, absEntries_append, List.append_assoc]
    congr 2
    rw [← List.append_assoc, List.take_append_drop]
  · show chainPrev x.prev ys = (abs s).prev + _
    rw [abs_prev]; omega


/-! ## Representation relation and phases -/

/-- The directory `d` represents the in-memory log `s` (at an operation boundary). -/
def Rep (s : SegLog) (d : Disk) : Prop :=
  ∃ c : Nat, s.last.synced = (c : Int) ∧ DS s.last s.older c c c d

theorem ds_congr {x x' : Seg} {ys : List Seg} {hv hd M : Nat} {d : Disk} (h : DS x ys hv hd M d)
    (e1 : x'.prev = x.prev) (e2 : x'.entries = x.entries) (e3 : x'.cap = x.cap) :
    DS x' ys hv hd M d := by
  obtain ⟨qf, dr, rfl, hf, hs⟩ := h
  have en : x'.n = x.n := by simp [Seg.n, e2]
  exact ⟨qf, dr, rfl, ⟨by rw [e1]; exact hf.name, by rw [e3]; exact hf.cap, by rw [en, e2]; exact hf.units,
    by rw [en]; exact hf.len, hf.vh, hf.dh, hf.clean, hf.hvM, hf.hdM, by rw [en]; exact hf.Mn⟩, hs⟩

theorem durable_range {s : SegLog} (h : Inv s) {j : Nat} (hj : (durable s).inRange j) :
    s.prevIndex < j ∧ j ≤ s.last.prev + s.last.synced.toNat := by
  obtain ⟨h1, h2⟩ := hj
  have hl := chain_len h.2.1
  have h3 := h.1.2.2
  have h4 := h.1.2.1
  simp only [durable, AbsLog.lastIndex, List.length_append, List.length_take, prevIndex_eq] at h1 h2 ⊢
  simp only [Seg.n] at h3
  omega

theorem good_sub {s : SegLog} (h : Inv s) {post : AbsLog} {pre : List Seg} {x0 : Seg}
    {ys post' : List Seg} (hsegs : s.segs = pre ++ x0 :: (ys ++ post'))
    {x : Seg} (hxp : x.prev = x0.prev) (hxs : x.size + 8 * (x.n + 2) ≤ x.cap)
    {hv hd M : Nat} {d' : Disk} (hds : DS x ys hv hd M d')
    (hent : ∀ k, (k = hd ∨ k = hv) → x.entries.take k = x0.entries.take k ∧ k ≤ x0.n)
    (hrange : ∀ k, (k = hd ∨ k = hv) → ∀ j, (durable s).inRange j → post.inRange j →
      chainPrev x0.prev ys < j ∧ j ≤ x0.prev + k) :
    GoodDS s post d' := by
  refine ⟨x, ys, hv, hd, M, hds, hxs, ?_, ?_⟩
  · rw [hxp]; exact (window_sub h hsegs 0).2.1
  · intro k hk
    obtain ⟨w1, _, _, w4, _, _⟩ := window_sub h hsegs k
    obtain ⟨e1, e2⟩ := hent k hk
    rw [hxp, e1]
    refine ⟨Or.inr w1, ?_⟩
    intro j hj hp
    obtain ⟨r1, r2⟩ := hrange k hk j hj hp
    refine ⟨r1, ?_⟩
    simp only [AbsLog.lastIndex, List.length_append, List.length_take]
    simp only [Seg.n] at e2
    omega

theorem sync_phase {x : Seg} {ys : List Seg} {c : Nat} {d : Disk} (hds : DS x ys c c c d)
    (hsy : x.synced = (c : Int)) (hcn : c ≤ x.n) :
    (∀ d', Reach x.syncSteps d d' →
      ∃ hv hd M, DS x ys hv hd M d' ∧ (hv = c ∨ hv = x.n) ∧ (hd = c ∨ hd = x.n)) ∧
    DS x ys x.n x.n x.n (runSteps d x.syncSteps) := by
  unfold Seg.syncSteps
  by_cases hdirty : x.dirty = true
  · rw [if_pos hdirty]
    have s1 := ds_msync hds
    have s2 := ds_store s1 (Nat.le_refl x.n)
    have s3 := ds_msync s2
    constructor
    · intro d' hr
      simp only [reach_cons, reach_nil] at hr
      rcases hr with rfl | rfl | rfl | rfl
      · exact ⟨c, c, c, hds, Or.inl rfl, Or.inl rfl⟩
      · exact ⟨c, c, x.n, s1, Or.inl rfl, Or.inl rfl⟩
      · exact ⟨x.n, c, x.n, s2, Or.inr rfl, Or.inl rfl⟩
      · exact ⟨x.n, x.n, x.n, s3, Or.inr rfl, Or.inr rfl⟩
    · exact s3
  · rw [if_neg hdirty]
    have hc : c = x.n := by
      simp [Seg.dirty, hsy] at hdirty; omega
    constructor
    · intro d' hr
      rw [reach_nil] at hr
      subst hr
      exact ⟨c, c, c, hds, Or.inl rfl, Or.inl rfl⟩
    · simp only [runSteps]; rw [← hc]; exact hds

/-- The states passed while syncing the last segment all satisfy the crash specification. -/
theorem sync_phase_good {s : SegLog} (h : Inv s) {d : Disk} (hr : Rep s d) (post : AbsLog) :
    (∀ d', Reach s.last.syncSteps d d' → GoodDS s post d') ∧
    DS s.last s.older s.last.n s.last.n s.last.n (runSteps d s.last.syncSteps) := by
  obtain ⟨c, hc, hds⟩ := hr
  have hcn : c ≤ s.last.n := by have := h.1.2.2; omega
  obtain ⟨p1, p2⟩ := sync_phase hds hc hcn
  refine ⟨?_, p2⟩
  intro d' hreach
  obtain ⟨hv, hd, M, hds', e1, e2⟩ := p1 d' hreach
  refine good_sub h (pre := []) (x0 := s.last) (ys := s.older) (post' := []) (by simp [SegLog.segs])
    rfl h.1.1 hds' ?_ ?_
  · intro k hk
    have hk' : k = c ∨ k = s.last.n := by
      rcases hk with rfl | rfl
      · exact e2
      · exact e1
    exact ⟨rfl, by rcases hk' with r | r <;> omega⟩
  · intro k hk j hj _
    have hk' : k = c ∨ k = s.last.n := by
      rcases hk with rfl | rfl
      · exact e2
      · exact e1
    obtain ⟨r1, r2⟩ := durable_range h hj
    rw [hc] at r2
    rw [prevIndex_eq] at r1
    refine ⟨r1, ?_⟩
    simp only [Int.toNat_natCast] at r2
    rcases hk' with r | r <;> omega


/-! ## Per-operation analysis -/

theorem commitSteps_inv {s : SegLog} (h : Inv s) (n' : Nat) :
    (commitSteps n' s.segs = [] ∧ s.commitN n' = s) ∨
    (commitSteps n' s.segs = s.last.syncSteps ∧ s.commitN n' = { s with last := s.last.sync }) := by
  unfold SegLog.commitN
  simp only [SegLog.segs, commitSteps]
  rw [chain_head_clean h.2.1, chain_commitSteps h.2.1]
  by_cases hd : s.last.dirty = true
  · by_cases hge : s.last.prev ≥ n'
    · left; simp [hd, hge]
    · right; simp [hd, hge]
  · left; simp [hd]

theorem commitSteps_commit {s : SegLog} (h : Inv s) :
    commitSteps s.lastIndex s.segs = s.last.syncSteps := by
  simp only [SegLog.segs, commitSteps]
  rw [chain_commitSteps h.2.1]
  by_cases hd : s.last.dirty = true
  · have hn : ¬ s.last.prev ≥ s.lastIndex := by
      intro hge
      simp [SegLog.lastIndex, Seg.lastIndex] at hge
      have := h.1.2.1
      simp [Seg.dirty, hge] at hd
      omega
    simp [hd, hn]
  · simp [hd, Seg.syncSteps]

theorem rep_sync {s : SegLog} {d : Disk}
    (hds : DS s.last s.older s.last.n s.last.n s.last.n d) (hsy : s.last.synced ≤ (s.last.n : Int)) :
    Rep { s with last := s.last.sync } d :=
  ⟨s.last.n, by simpa using sync_synced hsy, by
    simpa using ds_congr (x' := s.last.sync) hds (by simp) (by simp) (by simp)⟩

theorem commitN_crash {s : SegLog} {d : Disk} (h : Inv s) (hr : Rep s d) (n' : Nat) (post : AbsLog) :
    (∀ d', Reach (commitSteps n' s.segs) d d' → GoodDS s post d') ∧
    Rep (s.commitN n') (runSteps d (commitSteps n' s.segs)) := by
  obtain ⟨p1, p2⟩ := sync_phase_good h hr post
  rcases commitSteps_inv h n' with ⟨e1, e2⟩ | ⟨e1, e2⟩
  · rw [e1, e2]
    refine ⟨?_, hr⟩
    intro d' hreach
    rw [reach_nil] at hreach
    rw [hreach]
    exact p1 d ⟨0, rfl⟩
  · rw [e1, e2]
    exact ⟨p1, rep_sync p2 h.1.2.2⟩

theorem commit_crash {s : SegLog} {d : Disk} (h : Inv s) (hr : Rep s d) (post : AbsLog) :
    (∀ d', Reach (commitSteps s.lastIndex s.segs) d d' → GoodDS s post d') ∧
    DS s.last s.older s.last.n s.last.n s.last.n (runSteps d (commitSteps s.lastIndex s.segs)) ∧
    Rep s.commit (runSteps d (commitSteps s.lastIndex s.segs)) := by
  obtain ⟨p1, p2⟩ := sync_phase_good h hr post
  rw [commitSteps_commit h, commit_eq h]
  exact ⟨p1, p2, rep_sync p2 h.1.2.2⟩


theorem rep_good {s : SegLog} {d : Disk} (h : Inv s) (hr : Rep s d) (post : AbsLog) : GoodDS s post d :=
  (sync_phase_good h hr post).1 d ⟨0, rfl⟩

theorem window_refl (a : AbsLog) : Window a a := ⟨[], [], by simp, by simp⟩

/-- A fresh (or freshly appended-to, not yet synced) segment on top of the fully synced old chain:
a reopen sees exactly the old log. -/
theorem fresh_top_good {s : SegLog} (h : Inv s) (hn : 0 < s.last.n) (post : AbsLog) {x : Seg}
    {d' : Disk} (hx : x.prev = s.lastIndex) (hsz : x.size + 8 * (x.n + 2) ≤ x.cap)
    (hds : DS x (s.last.sync :: s.older) 0 0 0 d') : GoodDS s post d' := by
  have hch : Chain x.prev (s.last.sync :: s.older) := by
    rw [hx]
    exact ⟨by simp [SegLog.lastIndex, Seg.lastIndex], by simpa using hn,
      by rw [sync_synced h.1.2.2]; simp, sync_ok h.1, by simpa using h.2.1⟩
  refine ⟨x, _, 0, 0, 0, hds, hsz, hch, ?_⟩
  intro k hk
  have hk0 : k = 0 := by rcases hk with r | r <;> exact r
  subst hk0
  have e : (⟨chainPrev x.prev (s.last.sync :: s.older),
      absEntries (s.last.sync :: s.older) ++ x.entries.take 0⟩ : AbsLog) = abs s := by
    simp [abs_eq, chainPrev, absEntries]
  rw [e]
  refine ⟨Or.inr (window_refl _), ?_⟩
  intro j hj _
  obtain ⟨r1, r2⟩ := durable_range h hj
  have h3 := h.1.2.2
  have h4 := h.1.2.1
  have hL := abs_lastIndex h
  refine ⟨by rw [abs_prev]; exact r1, ?_⟩
  rw [hL]
  simp only [SegLog.lastIndex, Seg.lastIndex]
  omega

theorem append_crash {s : SegLog} {d : Disk} (h : Inv s) (hr : Rep s d) (b : Bytes) (post : AbsLog) :
    (∀ d', Reach (script s (.append b)) d d' → CrashState s post d') ∧
    Rep (s.run [.append b]) (runSteps d (script s (.append b))) := by
  simp only [script, SegLog.run, SegLog.apply, SegLog.append]
  by_cases hav : s.last.available < (b.length : Int)
  · by_cases hn : s.last.n = 0
    · simp only [hav, hn, if_true]
      refine ⟨?_, hr⟩
      intro d' hreach
      rw [reach_nil] at hreach
      rw [hreach]
      exact Or.inr ((rep_good h hr post))
    · simp only [hav, hn, if_true, if_false]
      obtain ⟨c1, c2, _⟩ := commit_crash h hr post
      generalize hss : (if b.length + 24 > s.segmentSize then b.length + 24 else s.segmentSize) = ss'
      have hssb : b.length + 24 ≤ ss' := by rw [← hss]; split <;> omega
      have hss16 : 16 ≤ ss' := by omega
      have c2' : DS s.last.sync s.older s.last.sync.n s.last.sync.n s.last.sync.n
          (runSteps d (commitSteps s.lastIndex s.segs)) := by
        simpa using ds_congr (x' := s.last.sync) c2 (by simp) (by simp) (by simp)
      have hlt : s.last.sync.prev < s.lastIndex := by
        simp [SegLog.lastIndex, Seg.lastIndex]; omega
      obtain ⟨t1, t5⟩ := create_top c2' s.lastIndex ss' hlt
      have hfz := fresh_ok (p := s.lastIndex) hss16
      have g5 : GoodDS s post ((s.lastIndex, FileSt.zero ss') :: runSteps d (commitSteps s.lastIndex s.segs)) :=
        fresh_top_good h (by omega) post rfl hfz.1 t5
      have hw := ds_write t5 b
      have hfa : SegOK ((Seg.fresh s.lastIndex ss').append b) := by
        apply append_ok hfz
        simp [Seg.available, Seg.slotAt, Seg.fresh, Seg.size, Seg.n, dataSize]; omega
      have hlast : s.commit.lastIndex = s.lastIndex := by
        rw [commit_eq h]; simp [SegLog.lastIndex, Seg.lastIndex]
      constructor
      · intro d' hreach
        rw [reach_append, reach_append] at hreach
        rcases hreach with (hreach | hreach) | hreach
        · exact Or.inr ((c1 d' hreach))
        · simp only [createSteps, reach_cons, reach_nil, run_tmpCreate, run_tmpTruncate, run_tmpZero16,
            run_tmpFsync, t1] at hreach
          rcases hreach with rfl | rfl | rfl | rfl | rfl | rfl
          · exact Or.inr (c1 _ (reach_all _ _))
          · exact Or.inr (c1 _ (reach_all _ _))
          · exact Or.inr (c1 _ (reach_all _ _))
          · exact Or.inr (c1 _ (reach_all _ _))
          · exact Or.inr (c1 _ (reach_all _ _))
          · exact Or.inr g5
        · rw [runSteps_append] at hreach
          simp only [createSteps, runSteps, run_tmpCreate, run_tmpTruncate, run_tmpZero16, run_tmpFsync, t1,
            reach_cons, reach_nil] at hreach
          rcases hreach with rfl | rfl
          · exact Or.inr g5
          · refine Or.inr (fresh_top_good h (by omega) post rfl hfa.1 ?_)
            simpa [Seg.fresh, Seg.n] using hw
      · rw [runSteps_append, runSteps_append]
        simp only [createSteps, runSteps, run_tmpCreate, run_tmpTruncate, run_tmpZero16, run_tmpFsync, t1]
        refine ⟨0, by simp [Seg.append, Seg.fresh], ?_⟩
        rw [commit_eq h]
        simpa [Seg.fresh, Seg.n, SegLog.lastIndex, Seg.lastIndex] using hw
  · simp only [hav, if_false]
    obtain ⟨c, hc, hds⟩ := hr
    have hw := ds_write hds b
    have hcn : c ≤ s.last.n := by have := h.1.2.2; omega
    constructor
    · intro d' hreach
      simp only [reach_cons, reach_nil] at hreach
      rcases hreach with rfl | rfl
      · exact Or.inr ((rep_good h ⟨c, hc, hds⟩ post))
      · refine Or.inr (?_)
        refine good_sub h (pre := []) (x0 := s.last) (ys := s.older) (post' := []) (by simp [SegLog.segs])
          (x := s.last.append b) rfl (append_ok h.1 (by omega)).1 hw ?_ ?_
        · intro k hk
          have hkc : k = c := by rcases hk with r | r <;> exact r
          refine ⟨?_, by omega⟩
          simp only [Seg.append]
          rw [List.take_append_of_le_length (by simp [Seg.n] at hcn; omega)]
        · intro k hk j hj _
          have hkc : k = c := by rcases hk with r | r <;> exact r
          obtain ⟨r1, r2⟩ := durable_range h hj
          rw [hc] at r2
          rw [prevIndex_eq] at r1
          simp only [Int.toNat_natCast] at r2
          exact ⟨r1, by omega⟩
    · exact ⟨c, hc, hw⟩


/-! ### removeLTE -/

theorem dropOld_names (i : Nat) (older : List Seg) :
    ∃ rd : List Seg, older = dropOld i older ++ rd.reverse ∧ dropOldNames i older = rd.map (·.prev) := by
  induction older with
  | nil => exact ⟨[], rfl, rfl⟩
  | cons s rest ih =>
    obtain ⟨rd, e1, e2⟩ := ih
    unfold dropOld dropOldNames
    generalize hk : dropOld i rest = kept at e1
    cases kept with
    | nil =>
      simp only [List.nil_append] at e1
      by_cases hc : s.n > 0 ∧ s.lastIndex ≤ i
      · refine ⟨rd ++ [s], ?_, ?_⟩
        · simp [hc, e1]
        · simp [hc, e2]
      · refine ⟨rd, ?_, ?_⟩
        · simp [hc, e1]
        · simp [hc, e2]
    | cons o os =>
      refine ⟨rd, ?_, ?_⟩
      · simp only [List.cons_append]; rw [← List.cons_append, ← e1]
      · simp [e2]

theorem remove_oldest_phase {x : Seg} {kept : List Seg} {hv hd M : Nat} :
    ∀ (rd : List Seg) {d : Disk}, DS x (kept ++ rd.reverse) hv hd M d → Chain x.prev (kept ++ rd.reverse) →
      (∀ d', Reach ((rd.map (·.prev)).map Step.remove) d d' →
        ∃ m, DS x (kept ++ (rd.drop m).reverse) hv hd M d') ∧
      DS x kept hv hd M (runSteps d ((rd.map (·.prev)).map Step.remove)) := by
  intro rd
  induction rd with
  | nil =>
    intro d hds _
    refine ⟨?_, by simpa [runSteps] using hds⟩
    intro d' hreach
    simp only [List.map_nil, reach_nil] at hreach
    exact ⟨0, by rw [hreach]; simpa using hds⟩
  | cons y rd' ih =>
    intro d hds hc
    have e : kept ++ (y :: rd').reverse = (kept ++ rd'.reverse) ++ [y] := by simp
    rw [e] at hds hc
    have hrm := ds_remove_oldest hds hc
    obtain ⟨p1, p2⟩ := ih hrm (chain_append hc).1
    constructor
    · intro d' hreach
      simp only [List.map_cons, reach_cons] at hreach
      rcases hreach with rfl | hreach
      · exact ⟨0, by rw [List.drop_zero, e]; exact hds⟩
      · obtain ⟨m, hm⟩ := p1 d' hreach
        exact ⟨m + 1, by simpa using hm⟩
    · simpa [runSteps] using p2

theorem removeLTE_crash {s : SegLog} {d : Disk} (h : Inv s) (hr : Rep s d) (i : Nat) :
    (∀ d', Reach (script s (.removeLTE i)) d d' → CrashState s (abs (s.removeLTE i)) d') ∧
    Rep (s.removeLTE i) (runSteps d (script s (.removeLTE i))) := by
  obtain ⟨c1, c2, _⟩ := commit_crash h hr (abs (s.removeLTE i))
  have hce := commit_eq h
  have holder : s.commit.older = s.older := by rw [hce]
  obtain ⟨rd, e1, e2⟩ := dropOld_names i s.older
  obtain ⟨kept, hk⟩ : ∃ kept, dropOld i s.older = kept := ⟨_, rfl⟩
  rw [hk] at e1
  have hR : s.removeLTE i = { last := s.last.sync, older := kept, segmentSize := s.segmentSize } := by
    simp [SegLog.removeLTE, hce, hk]
  have hch : Chain s.last.prev (kept ++ rd.reverse) := by rw [← e1]; exact h.2.1
  have c2' : DS s.last (kept ++ rd.reverse) s.last.n s.last.n s.last.n
      (runSteps d (commitSteps s.lastIndex s.segs)) := by rw [← e1]; exact c2
  obtain ⟨p1, p2⟩ := remove_oldest_phase rd c2' hch
  simp only [script, holder, e2]
  constructor
  · intro d' hreach
    rw [reach_append] at hreach
    rcases hreach with hreach | hreach
    · exact Or.inr ((c1 d' hreach))
    · obtain ⟨m, hm⟩ := p1 d' hreach
      refine Or.inr (?_)
      have hsegs : s.segs = [] ++ s.last :: ((kept ++ (rd.drop m).reverse) ++ (rd.take m).reverse) := by
        simp only [SegLog.segs, List.nil_append, List.cons.injEq, true_and]
        rw [e1, List.append_assoc, ← List.reverse_append, List.take_append_drop]
      refine good_sub h hsegs rfl h.1.1 hm (fun k hk => ⟨rfl, by rcases hk with r | r <;> omega⟩) ?_
      intro k hk j hj hp
      have hkn : k = s.last.n := by rcases hk with r | r <;> exact r
      obtain ⟨r1, r2⟩ := durable_range h hj
      have h3 := h.1.2.2
      have h4 := h.1.2.1
      obtain ⟨q1, _⟩ := hp
      rw [abs_prev, hR, prevIndex_eq] at q1
      simp only [sync_prev] at q1
      have hck := (chain_append hch).1
      have hch2 : Chain s.last.prev (kept ++ (rd.drop m).reverse) := by
        have := (window_sub h hsegs 0).2.1; exact this
      have hle := chainPrev_le (chain_append hch2).2
      rw [← chainPrev_append] at hle
      constructor
      · omega
      · omega
  · rw [runSteps_append, hR]
    exact ⟨s.last.n, by simpa using sync_synced h.1.2.2,
      by simpa using ds_congr (x' := s.last.sync) p2 (by simp) (by simp) (by simp)⟩


/-! ### reset -/

theorem inRange_empty {a : AbsLog} (h : a.entries = []) (j : Nat) : ¬ a.inRange j := by
  rintro ⟨h1, h2⟩
  simp [AbsLog.lastIndex, h] at h2
  omega

theorem wr_empty {s : SegLog} {post a : AbsLog} (hp : post.entries = []) (ha : a.entries = []) :
    WR s post a :=
  ⟨Or.inl ha, fun j _ hj => absurd hj (inRange_empty hp j)⟩

theorem fresh_only_good (s : SegLog) {post : AbsLog} (hp : post.entries = []) {name size : Nat}
    (hsz : 16 ≤ size) {x : Seg} {d' : Disk} (hx : x = Seg.fresh name size)
    (hds : DS x [] 0 0 0 d') : GoodDS s post d' := by
  subst hx
  refine ⟨_, [], 0, 0, 0, hds, (fresh_ok hsz).1, trivial, ?_⟩
  intro k _
  exact wr_empty hp (by simp [absEntries, Seg.fresh])

theorem resetRemove_sealed {p : Nat} {older : List Seg} (h : Chain p older) :
    resetRemoveSteps older = ((older.reverse).map (·.prev)).map Step.remove := by
  induction older generalizing p with
  | nil => rfl
  | cons a rest ih =>
    obtain ⟨_, _, c3, _, c5⟩ := h
    have : a.syncSteps = [] := by simp [Seg.syncSteps, Seg.dirty, c3]
    simp [resetRemoveSteps, ih c5, this]

theorem reset_crash {s : SegLog} {d : Disk} (h : Inv s) (hr : Rep s d) (j : Nat) :
    (∀ d', Reach (script s (.reset j)) d d' → CrashState s (abs (s.reset j)) d') ∧
    Rep (s.reset j) (runSteps d (script s (.reset j))) := by
  have hpost : (abs (s.reset j)).entries = [] := by
    simp [abs, SegLog.reset, SegLog.segs, absEntries, Seg.fresh]
  obtain ⟨c, hc, hds⟩ := hr
  have hcn : c ≤ s.last.n := by have := h.1.2.2; omega
  have hss := h.2.2
  -- phase 1: the older segments, oldest first
  have e0 : s.older = [] ++ (s.older.reverse).reverse := by simp
  have hds1 : DS s.last ([] ++ (s.older.reverse).reverse) c c c d := by rw [← e0]; exact hds
  have hch1 : Chain s.last.prev ([] ++ (s.older.reverse).reverse) := by rw [← e0]; exact h.2.1
  obtain ⟨p1, p2⟩ := remove_oldest_phase (s.older.reverse) hds1 hch1
  -- phase 2: sync of the last segment
  obtain ⟨q1, q2⟩ := sync_phase p2 hc hcn
  -- phase 3/4: remove it, create the new one
  have r3 := ds_remove_only q2
  obtain ⟨t1, t5⟩ := create_empty j s.segmentSize
  have gfresh : GoodDS s (abs (s.reset j)) [(j, FileSt.zero s.segmentSize)] :=
    fresh_only_good s hpost (by omega) rfl t5
  have good_last : ∀ {m hv hd M d'}, DS s.last ([] ++ ((s.older.reverse).drop m).reverse) hv hd M d' →
      hv ≤ s.last.n → hd ≤ s.last.n → GoodDS s (abs (s.reset j)) d' := by
    intro m hv hd M d' hm h1 h2
    have hsegs : s.segs = [] ++ s.last ::
        (([] ++ ((s.older.reverse).drop m).reverse) ++ ((s.older.reverse).take m).reverse) := by
      simp only [SegLog.segs, List.nil_append, List.cons.injEq, true_and]
      rw [← List.reverse_append, List.take_append_drop, List.reverse_reverse]
    refine good_sub h hsegs rfl h.1.1 hm (fun k hk => ⟨rfl, by rcases hk with r | r <;> omega⟩) ?_
    intro k _ j' _ hp
    exact absurd hp (inRange_empty hpost j')
  have hz : ([] : List Seg) ++ ((s.older.reverse).drop s.older.reverse.length).reverse = [] := by
    rw [List.drop_length]; rfl
  simp only [script, SegLog.segs, resetRemoveSteps, resetRemove_sealed h.2.1]
  constructor
  · intro d' hreach
    rw [reach_append, reach_append, reach_append] at hreach
    rcases hreach with ((hreach | hreach) | hreach) | hreach
    · obtain ⟨m, hm⟩ := p1 d' hreach
      exact Or.inr ((good_last hm hcn hcn))
    · obtain ⟨hv, hd, M, hm, e1, e2⟩ := q1 d' hreach
      have hm' : DS s.last ([] ++ ((s.older.reverse).drop s.older.reverse.length).reverse) hv hd M d' := by
        rw [hz]; exact hm
      exact Or.inr ((good_last hm' (by rcases e1 with r | r <;> omega) (by rcases e2 with r | r <;> omega)))
    · rw [runSteps_append] at hreach
      simp only [reach_cons, reach_nil] at hreach
      rcases hreach with rfl | rfl
      · have hm' : DS s.last ([] ++ ((s.older.reverse).drop s.older.reverse.length).reverse)
            s.last.n s.last.n s.last.n (runSteps (runSteps d
              (List.map Step.remove (List.map (fun x => x.prev) s.older.reverse))) s.last.syncSteps) := by
          rw [hz]; exact q2
        exact Or.inr ((good_last hm' (Nat.le_refl _) (Nat.le_refl _)))
      · rw [r3]
        exact Or.inl (⟨rfl, wr_empty hpost rfl⟩)
    · rw [runSteps_append, runSteps_append] at hreach
      simp only [runSteps, r3, createSteps, reach_cons, reach_nil, run_tmpCreate, run_tmpTruncate,
        run_tmpZero16, run_tmpFsync, t1] at hreach
      rcases hreach with rfl | rfl | rfl | rfl | rfl | rfl
      · exact Or.inl ⟨rfl, wr_empty hpost rfl⟩
      · exact Or.inl ⟨rfl, wr_empty hpost rfl⟩
      · exact Or.inl ⟨rfl, wr_empty hpost rfl⟩
      · exact Or.inl ⟨rfl, wr_empty hpost rfl⟩
      · exact Or.inl ⟨rfl, wr_empty hpost rfl⟩
      · exact Or.inr gfresh
  · rw [runSteps_append, runSteps_append, runSteps_append]
    simp only [runSteps, r3, createSteps, run_tmpCreate, run_tmpTruncate, run_tmpZero16, run_tmpFsync, t1]
    exact ⟨0, rfl, t5⟩

/-! ### removeGTE -/

theorem good_sub_gen {s s0 : SegLog} (h0 : Inv s0) (habs : abs s0 = abs s) {post : AbsLog}
    {pre : List Seg} {x0 : Seg} {ys post' : List Seg} (hsegs : s0.segs = pre ++ x0 :: (ys ++ post'))
    {x : Seg} (hxp : x.prev = x0.prev) (hxs : x.size + 8 * (x.n + 2) ≤ x.cap)
    {hv hd M : Nat} {d' : Disk} (hds : DS x ys hv hd M d')
    (hent : ∀ k, (k = hd ∨ k = hv) → x.entries.take k = x0.entries.take k ∧ k ≤ x0.n)
    (hrange : ∀ k, (k = hd ∨ k = hv) → ∀ j, (durable s).inRange j → post.inRange j →
      chainPrev x0.prev ys < j ∧ j ≤ x0.prev + k) :
    GoodDS s post d' := by
  refine ⟨x, ys, hv, hd, M, hds, hxs, ?_, ?_⟩
  · rw [hxp]; exact (window_sub h0 hsegs 0).2.1
  · intro k hk
    obtain ⟨w1, _, _, w4, _, _⟩ := window_sub h0 hsegs k
    obtain ⟨e1, e2⟩ := hent k hk
    rw [hxp, e1]
    rw [habs] at w1
    refine ⟨Or.inr w1, ?_⟩
    intro j hj hp
    obtain ⟨r1, r2⟩ := hrange k hk j hj hp
    refine ⟨r1, ?_⟩
    simp only [AbsLog.lastIndex, List.length_append, List.length_take]
    simp only [Seg.n] at e2
    omega

theorem removeGTE_range {a : AbsLog} {i j : Nat} (h : (a.removeGTE i).inRange j) :
    a.prev < j ∧ j + 1 ≤ i ∧ j ≤ a.lastIndex ∧ ¬ i ≤ a.prev := by
  unfold AbsLog.removeGTE at h
  by_cases hi : i ≤ a.prev
  · rw [if_pos hi] at h
    exact absurd h (inRange_empty rfl j)
  · rw [if_neg hi] at h
    obtain ⟨h1, h2⟩ := h
    simp only [AbsLog.lastIndex, List.length_take] at h2 ⊢
    simp only [] at h1
    omega

theorem removeGTE_eq_lt {x : Seg} {i : Nat} (h : i - x.prev - 1 < x.n) :
    x.removeGTE i = { x with entries := x.entries.take (i - x.prev - 1), synced := ((i - x.prev - 1 : Nat) : Int) } := by
  unfold Seg.removeGTE
  rw [if_pos h]
  have hn : ({ x with entries := x.entries.take (i - x.prev - 1), synced := -1 } : Seg).n = i - x.prev - 1 := by
    simp [Seg.n] at h ⊢; omega
  unfold Seg.sync Seg.dirty
  rw [hn]
  simp
  omega

theorem removeGTE_eq_ge {x : Seg} {i : Nat} (h : ¬ i - x.prev - 1 < x.n) (hsy : x.synced = (x.n : Int)) :
    x.removeGTE i = x := by
  unfold Seg.removeGTE
  rw [if_neg h]
  exact sync_id hsy

theorem syncSteps_clean {x : Seg} (hsy : x.synced = (x.n : Int)) : x.syncSteps = [] := by
  simp [Seg.syncSteps, Seg.dirty, hsy]

/-- The header-lowering phase of `segment.removeGTE(i')` on a synced head segment. -/
theorem lower_phase {x : Seg} {ys : List Seg} {d : Disk} (hds : DS x ys x.n x.n x.n d)
    (hsy : x.synced = (x.n : Int)) (i' : Nat) :
    (∀ d', Reach (x.removeGTESteps i') d d' →
      ∃ hv hd M, DS x ys hv hd M d' ∧
        (hv = x.n ∨ (hv = i' - x.prev - 1 ∧ i' - x.prev - 1 < x.n)) ∧
        (hd = x.n ∨ (hd = i' - x.prev - 1 ∧ i' - x.prev - 1 < x.n))) ∧
    ∃ c : Nat, (x.removeGTE i').synced = (c : Int) ∧
      DS (x.removeGTE i') ys c c c (runSteps d (x.removeGTESteps i')) := by
  unfold Seg.removeGTESteps
  by_cases hlt : i' - x.prev - 1 < x.n
  · rw [if_pos hlt]
    have s1 := ds_store hds (Nat.le_of_lt hlt)
    have s2 := ds_msync s1
    have s3 := ds_store s2 (Nat.le_of_lt hlt)
    have s4 := ds_msync s3
    constructor
    · intro d' hr
      simp only [reach_cons, reach_nil] at hr
      rcases hr with rfl | rfl | rfl | rfl | rfl
      · exact ⟨_, _, _, hds, Or.inl rfl, Or.inl rfl⟩
      · exact ⟨_, _, _, s1, Or.inr ⟨rfl, hlt⟩, Or.inl rfl⟩
      · exact ⟨_, _, _, s2, Or.inr ⟨rfl, hlt⟩, Or.inr ⟨rfl, hlt⟩⟩
      · exact ⟨_, _, _, s3, Or.inr ⟨rfl, hlt⟩, Or.inr ⟨rfl, hlt⟩⟩
      · exact ⟨_, _, _, s4, Or.inr ⟨rfl, hlt⟩, Or.inr ⟨rfl, hlt⟩⟩
    · refine ⟨i' - x.prev - 1, by rw [removeGTE_eq_lt hlt], ?_⟩
      rw [removeGTE_eq_lt hlt]
      obtain ⟨qf, dr, e, hf, hs⟩ := s4
      refine ⟨qf, dr, e, ?_, hs⟩
      have := fr_cut hf (Nat.le_of_lt hlt) (Nat.le_refl _) (Nat.le_refl _) ((i' - x.prev - 1 : Nat) : Int)
      rw [Nat.min_eq_right (Nat.le_of_lt hlt)] at this
      exact this
  · rw [if_neg hlt, syncSteps_clean hsy]
    constructor
    · intro d' hr
      rw [reach_nil] at hr
      rw [hr]
      exact ⟨_, _, _, hds, Or.inl rfl, Or.inl rfl⟩
    · rw [removeGTE_eq_ge hlt hsy]
      exact ⟨x.n, hsy, hds⟩

theorem rgte_phase {s0 : SegLog} (h0 : Inv s0) (i ss : Nat) (P : Disk → Prop)
    (hE : i ≤ s0.prevIndex → P [])
    (hF : i ≤ s0.prevIndex → ∀ d', DS (Seg.fresh (i - 1) ss) [] 0 0 0 d' → P d')
    (hG : ∀ pre x ys hv hd M d', s0.segs = pre ++ x :: ys → DS x ys hv hd M d' →
      (∀ k, (k = hd ∨ k = hv) → k ≤ x.n ∧ ∀ j, j + 1 ≤ i → j ≤ s0.lastIndex → j ≤ x.prev + k) → P d') :
    ∀ (older : List Seg) (x : Seg) (pre : List Seg) (d : Disk), s0.segs = pre ++ x :: older →
      DS x older x.n x.n x.n d → x.synced = (x.n : Int) →
      (∀ j, j + 1 ≤ i → j ≤ s0.lastIndex → j ≤ x.prev + x.n) →
      (∀ d', Reach (rgteSteps i ss x older) d d' → P d') ∧
      ∃ c : Nat, (rgte i ss x older).1.synced = (c : Int) ∧
        DS (rgte i ss x older).1 (rgte i ss x older).2 c c c (runSteps d (rgteSteps i ss x older)) := by
  intro older
  induction older with
  | nil =>
    intro x pre d hsegs hds hsy hb
    obtain ⟨f1, f2, f3, f4, _⟩ := subchain_facts h0 hsegs
    simp only [chainPrev] at f3
    have hGd : P d := hG pre x [] _ _ _ d hsegs hds (fun k hk => by
      have : k = x.n := by rcases hk with r | r <;> exact r
      subst this
      exact ⟨Nat.le_refl _, hb⟩)
    have within : ∀ i', (i' = min i (x.lastIndex + 1) ∧ x.prev + 1 < i) ∨ (i' = i ∧ i = x.prev + 1) →
        (∀ d', Reach (x.removeGTESteps i') d d' → P d') := by
      intro i' hi' d' hr
      obtain ⟨hv, hd, M, hds', e1, e2⟩ := (lower_phase hds hsy i').1 d' hr
      refine hG pre x [] hv hd M d' hsegs hds' ?_
      intro k hk
      have hk' : k = x.n ∨ (k = i' - x.prev - 1 ∧ i' - x.prev - 1 < x.n) := by
        rcases hk with rfl | rfl
        · exact e2
        · exact e1
      rcases hk' with rfl | ⟨rfl, hlt⟩
      · exact ⟨Nat.le_refl _, hb⟩
      · refine ⟨Nat.le_of_lt hlt, ?_⟩
        intro j hj1 hj2
        have := hb j hj1 hj2
        simp only [Seg.lastIndex] at hi'
        rcases hi' with ⟨rfl, hgt⟩ | ⟨rfl, heq⟩ <;> omega
    unfold rgteSteps rgte
    by_cases h1 : i ≤ x.prev + 1
    · by_cases h2 : i = x.prev + 1
      · rw [if_pos h1, if_pos h2, if_pos h1, if_pos h2]
        exact ⟨within (x.prev + 1) (Or.inr ⟨h2.symm, h2⟩), (lower_phase hds hsy (x.prev + 1)).2⟩
      · rw [if_pos h1, if_neg h2, if_pos h1, if_neg h2]
        have hip : i ≤ s0.prevIndex := by omega
        have r3 := ds_remove_only hds
        obtain ⟨t1, t5⟩ := create_empty (i - 1) ss
        rw [syncSteps_clean hsy]
        constructor
        · intro d' hr
          simp only [List.nil_append, List.cons_append, createSteps, reach_cons, reach_nil, r3,
            run_tmpCreate, run_tmpTruncate, run_tmpZero16, run_tmpFsync, t1] at hr
          rcases hr with rfl | rfl | rfl | rfl | rfl | rfl | rfl
          · exact hGd
          · exact hE hip
          · exact hE hip
          · exact hE hip
          · exact hE hip
          · exact hE hip
          · exact hF hip _ t5
        · simp only [List.nil_append, List.cons_append, createSteps, runSteps, r3, run_tmpCreate,
            run_tmpTruncate, run_tmpZero16, run_tmpFsync, t1]
          exact ⟨0, rfl, t5⟩
    · rw [if_neg h1, if_neg h1]
      exact ⟨within _ (Or.inl ⟨rfl, by omega⟩), (lower_phase hds hsy _).2⟩
  | cons o os ih =>
    intro x pre d hsegs hds hsy hb
    obtain ⟨f1, f2, f3, f4, _⟩ := subchain_facts h0 hsegs
    have hGd : P d := hG pre x (o :: os) _ _ _ d hsegs hds (fun k hk => by
      have : k = x.n := by rcases hk with r | r <;> exact r
      subst this
      exact ⟨Nat.le_refl _, hb⟩)
    unfold rgteSteps rgte
    by_cases h1 : i ≤ x.prev + 1
    · rw [if_pos h1, if_pos h1, syncSteps_clean hsy]
      have hrm := ds_remove_head hds f2
      obtain ⟨c1, c2, c3, c4, c5⟩ := f2
      have hsegs' : s0.segs = (pre ++ [x]) ++ o :: os := by rw [hsegs]; simp
      obtain ⟨p1, p2⟩ := ih o (pre ++ [x]) _ hsegs' hrm c3 (fun j hj1 hj2 => by omega)
      constructor
      · intro d' hr
        simp only [List.nil_append, List.cons_append, reach_cons] at hr
        rcases hr with rfl | hr
        · exact hGd
        · exact p1 d' hr
      · simpa [runSteps] using p2
    · rw [if_neg h1, if_neg h1]
      constructor
      · intro d' hr
        obtain ⟨hv, hd, M, hds', e1, e2⟩ := (lower_phase hds hsy _).1 d' hr
        refine hG pre x (o :: os) hv hd M d' hsegs hds' ?_
        intro k hk
        have hk' : k = x.n ∨ (k = min i (x.lastIndex + 1) - x.prev - 1 ∧
            min i (x.lastIndex + 1) - x.prev - 1 < x.n) := by
          rcases hk with rfl | rfl
          · exact e2
          · exact e1
        rcases hk' with rfl | ⟨rfl, hlt⟩
        · exact ⟨Nat.le_refl _, hb⟩
        · refine ⟨Nat.le_of_lt hlt, ?_⟩
          intro j hj1 hj2
          have := hb j hj1 hj2
          simp only [Seg.lastIndex]
          omega
      · exact (lower_phase hds hsy _).2


theorem removeGTE_crash {s : SegLog} {d : Disk} (h : Inv s) (hr : Rep s d) (i : Nat) :
    (∀ d', Reach (script s (.removeGTE i)) d d' → CrashState s (abs (s.removeGTE i)) d') ∧
    Rep (s.removeGTE i) (runSteps d (script s (.removeGTE i))) := by
  have hpost : abs (s.removeGTE i) = (abs s).removeGTE i := (removeGTE_refines h i).2
  obtain ⟨c1, c2, _⟩ := commit_crash h hr (abs (s.removeGTE i))
  have h0 := commit_inv h
  have habs := commit_abs h
  have hce := commit_eq h
  have hss : s.commit.segmentSize = s.segmentSize := by rw [hce]
  have hL0 : s.commit.lastIndex = s.lastIndex := by rw [hce]; simp [SegLog.lastIndex, Seg.lastIndex]
  have hP0 : s.commit.prevIndex = s.prevIndex := by
    have := congrArg AbsLog.prev habs; simpa [abs_prev] using this
  have hds0 : DS s.commit.last s.commit.older s.commit.last.n s.commit.last.n s.commit.last.n
      (runSteps d (commitSteps s.lastIndex s.segs)) := by
    rw [hce]
    simpa using ds_congr (x' := s.last.sync) c2 (by simp) (by simp) (by simp)
  have hsy0 : s.commit.last.synced = (s.commit.last.n : Int) := by
    rw [hce]; simpa using sync_synced h.1.2.2
  have hpe : i ≤ s.commit.prevIndex → (abs (s.removeGTE i)).entries = [] := by
    intro hi
    rw [hpost]
    unfold AbsLog.removeGTE
    rw [if_pos (by rw [abs_prev]; omega)]
  obtain ⟨p1, p2⟩ := rgte_phase h0 i s.segmentSize (CrashState s (abs (s.removeGTE i)))
    (fun hi => Or.inl (⟨rfl, wr_empty (hpe hi) rfl⟩))
    (fun hi d' hds => Or.inr ((fresh_only_good s (hpe hi) (by have := h.2.2; omega) rfl hds)))
    (by
      intro pre x ys hv hd M d' hsegs hds hk
      refine Or.inr (?_)
      have hsegs' : s.commit.segs = pre ++ x :: (ys ++ []) := by simpa using hsegs
      obtain ⟨f1, f2, f3, f4, _⟩ := subchain_facts h0 hsegs
      refine good_sub_gen h0 habs hsegs' rfl f1.1 hds (fun k hk' => ⟨rfl, (hk k hk').1⟩) ?_
      intro k hk' j _ hp
      rw [hpost] at hp
      obtain ⟨r1, r2, r3, _⟩ := removeGTE_range hp
      rw [abs_lastIndex h] at r3
      rw [abs_prev] at r1
      exact ⟨by rw [← f3, hP0]; exact r1, (hk k hk').2 j r2 (by omega)⟩)
    s.commit.older s.commit.last [] _ rfl hds0 hsy0
    (by intro j _ hj; simpa [SegLog.lastIndex, Seg.lastIndex] using hj)
  simp only [script]
  constructor
  · intro d' hreach
    rw [reach_append] at hreach
    rcases hreach with hreach | hreach
    · exact Or.inr ((c1 d' hreach))
    · exact p1 d' hreach
  · rw [runSteps_append]
    obtain ⟨c, e1, e2⟩ := p2
    refine ⟨c, ?_, ?_⟩
    · simpa [SegLog.removeGTE, hss] using e1
    · simpa [SegLog.removeGTE, hss] using e2

theorem closeOpen_crash {s : SegLog} {d : Disk} (h : Inv s) (hr : Rep s d) (ss : Nat) (post : AbsLog) :
    (∀ d', Reach (script s (.closeOpen ss)) d d' → CrashState s post d') ∧
    Rep (s.closeOpen ss) (runSteps d (script s (.closeOpen ss))) := by
  obtain ⟨c1, _, c3⟩ := commit_crash h hr post
  refine ⟨fun d' hreach => Or.inr ((c1 d' hreach)), ?_⟩
  obtain ⟨c, e1, e2⟩ := c3
  exact ⟨c, e1, e2⟩

/-- All operations: every crash state is a `CrashState` w.r.t. the abstract post-state, and the
final disk represents the model's result. -/
theorem op_crash {s : SegLog} {d : Disk} (h : Inv s) (hr : Rep s d) (op : Op) :
    (∀ d', Reach (script s op) d d' → CrashState s (abs (s.run [op])) d') ∧
    Rep (s.run [op]) (runSteps d (script s op)) := by
  cases op with
  | append b => exact append_crash h hr b _
  | commitN n =>
    obtain ⟨c1, c2⟩ := commitN_crash h hr n (abs (s.run [.commitN n]))
    exact ⟨fun d' hreach => Or.inr ((c1 d' hreach)), c2⟩
  | commit =>
    obtain ⟨c1, _, c3⟩ := commit_crash h hr (abs (s.run [.commit]))
    exact ⟨fun d' hreach => Or.inr ((c1 d' hreach)), c3⟩
  | removeLTE i => exact removeLTE_crash h hr i
  | removeGTE i => exact removeGTE_crash h hr i
  | reset j => exact reset_crash h hr j
  | closeOpen ss =>
    exact closeOpen_crash h hr ss _


/-! ## Programs -/

theorem kill_is_power (d : Disk) : PowerImg d (killImg d) := by
  induction d with
  | nil => trivial
  | cons pf rest ih =>
    obtain ⟨p, f⟩ := pf
    exact ⟨rfl, ⟨rfl, Or.inr rfl, fun k b _ hv => hv⟩, ih⟩

theorem op_inv {s : SegLog} (h : Inv s) {op : Op} (hv : op.valid) : Inv (s.run [op]) := by
  cases op with
  | append b =>
    simp only [SegLog.run, SegLog.apply]
    rcases append_refines h b with ⟨l', e, hi, _⟩ | ⟨e, _, _⟩
    · rw [e]; exact hi
    · rw [e]; exact h
  | commitN n => exact commitN_inv h n
  | commit => exact commit_inv h
  | removeLTE i => exact (removeLTE_refines h i).1
  | removeGTE i => exact (removeGTE_refines h i).1
  | reset j => exact (reset_refines h j).1
  | closeOpen ss => exact (closeOpen_refines h hv).1

/-- Run a program on the in-memory model and on the disk model side by side. -/
def runBoth : SegLog × Disk → List Op → SegLog × Disk
  | sd, [] => sd
  | sd, op :: ops => runBoth (sd.1.run [op], runSteps sd.2 (script sd.1 op)) ops

theorem run_cons (s : SegLog) (op : Op) (ops : List Op) : s.run (op :: ops) = (s.run [op]).run ops := by
  simp only [SegLog.run]
  cases s.apply op <;> rfl

theorem runBoth_spec {s : SegLog} {d : Disk} (h : Inv s) (hr : Rep s d) (ops : List Op)
    (hv : ∀ o ∈ ops, o.valid) :
    Inv (runBoth (s, d) ops).1 ∧ Rep (runBoth (s, d) ops).1 (runBoth (s, d) ops).2 ∧
    (runBoth (s, d) ops).1 = s.run ops := by
  induction ops generalizing s d with
  | nil => exact ⟨h, hr, rfl⟩
  | cons op ops ih =>
    have hop := hv op (by simp)
    obtain ⟨r1, r2, r3⟩ := ih (op_inv h hop) (op_crash h hr op).2
      (fun o ho => hv o (List.mem_cons_of_mem _ ho))
    exact ⟨r1, r2, by rw [run_cons]; exact r3⟩

theorem rep_empty (ss : Nat) : Rep (SegLog.empty ss) (SegLog.empty ss).toDisk :=
  ⟨0, rfl, ds_fresh 0 ss [] [] trivial⟩

theorem inv_empty {ss : Nat} (h : 1024 ≤ ss) : Inv (SegLog.empty ss) :=
  ⟨fresh_ok (by omega), trivial, h⟩

/-- Units below either header of a file in state `FR` are present and identical in the durable and
the volatile image. -/
theorem fr_clean {x : Seg} {qf : Nat × FileSt} {hv hd M : Nat} (hf : FR x qf hv hd M) (k : Nat)
    (hk : k < hv ∨ k < hd) : ∃ b, qf.2.dunits[k]? = some b ∧ qf.2.vunits[k]? = some b := by
  have h1 := hf.hvM; have h2 := hf.hdM; have h3 := hf.Mn; have h4 := hf.len
  have hkM : k < M := by rcases hk with r | r <;> omega
  have hkl : k < qf.2.vunits.length := by omega
  refine ⟨qf.2.vunits[k], ?_, List.getElem?_eq_getElem hkl⟩
  have := congrArg (fun l => l[k]?) hf.clean
  simp only [List.getElem?_take] at this
  rw [if_pos hkM, if_pos hkM] at this
  rw [this, List.getElem?_eq_getElem hkl]

theorem srs_clean {xs : List Seg} : ∀ {dr : Disk}, SRs xs dr → ∀ qf ∈ dr, ∀ k,
    (k < qf.2.vhdr ∨ k < qf.2.dhdr) → ∃ b, qf.2.dunits[k]? = some b ∧ qf.2.vunits[k]? = some b := by
  induction xs with
  | nil =>
    intro dr hs qf hq
    cases dr with
    | nil => simp at hq
    | cons a b => simp [SRs] at hs
  | cons y ys ih =>
    intro dr hs qf hq k hk
    cases dr with
    | nil => simp at hq
    | cons a b =>
      obtain ⟨hy, hys⟩ := hs
      rcases List.mem_cons.1 hq with rfl | hq
      · exact fr_clean hy k (by rw [hy.vh, hy.dh] at hk; exact hk)
      · exact ih hys qf hq k hk

/-- In every crash state, whatever header value a reopen may read
from a file, every unit below it was covered by an msync (durable = volatile). -/
theorem crashState_clean {s : SegLog} {post : AbsLog} {d' : Disk} (hc : CrashState s post d')
    : ∀ qf ∈ d', ∀ k, (k < qf.2.vhdr ∨ k < qf.2.dhdr) →
      ∃ b, qf.2.dunits[k]? = some b ∧ qf.2.vunits[k]? = some b := by
  rcases hc with ⟨rfl, _⟩ | ⟨x, ys, hv, hd, M, ⟨qf0, dr, rfl, hf, hs⟩, _, _, _⟩
  · intro qf hq; simp at hq
  · intro qf hq k hk
    rcases List.mem_cons.1 hq with rfl | hq
    · exact fr_clean hf k (by rw [hf.vh, hf.dh] at hk; exact hk)
    · exact srs_clean hs qf hq k hk


/-! ## close + open -/

theorem fr_toFile (x : Seg) : FR x x.toFile x.n x.n x.n :=
  ⟨rfl, rfl, by simp [Seg.toFile, Seg.n], by simp [Seg.toFile, Seg.n], rfl, rfl, rfl,
    Nat.le_refl _, Nat.le_refl _, Nat.le_refl _⟩

theorem srs_toFile (xs : List Seg) : SRs xs (xs.map Seg.toFile) := by
  induction xs with
  | nil => trivial
  | cons y ys ih => exact ⟨fr_toFile y, ih⟩

theorem rep_toDisk {s : SegLog} (hsy : s.last.synced = (s.last.n : Int)) : Rep s s.toDisk :=
  ⟨s.last.n, hsy, _, _, rfl, fr_toFile s.last, srs_toFile s.older⟩

/-- `Close` followed by `Open`: the kill image of the directory after the commit reopens to
exactly the model's `closeOpen` state, and the directory is untouched. -/
theorem closeOpen_reopen {s : SegLog} {d : Disk} (h : Inv s) (hr : Rep s d) (ss : Nat) :
    reopen (killImg (runSteps d (script s (.closeOpen ss)))) ss =
      .ok (s.closeOpen ss, killImg (runSteps d (script s (.closeOpen ss)))) := by
  obtain ⟨_, c2, _⟩ := commit_crash h hr (abs s)
  simp only [script]
  obtain ⟨k, hk, hkn, e⟩ := ds_reopen c2 h.1.1 h.2.1 (kill_is_power _) ss
  rw [e]
  have hkn' : k = s.last.n := by rcases hk with r | r <;> exact r
  subst hkn'
  have : trunc s.last s.last.n = s.last.sync := by
    have h3 := h.1.2.2
    cases hl : s.last with
    | mk p es sy cp =>
      rw [hl] at h3
      simp only [trunc, Seg.n, Seg.sync, Seg.dirty, List.take_length] at h3 ⊢
      by_cases hd : sy < (es.length : Int)
      · simp [hd]
      · have : sy = (es.length : Int) := by omega
        simp [this]
  rw [this, SegLog.closeOpen, commit_eq h]

end Raft.SL
