/-
The invariant of the cluster system with installation of snapshots (Sys/Snap3.lean), part f: an install request that
installs nothing (stale, not ahead of the commit index, or the log already holds the snapshot's last entry): the node
at most adopts the request's term and becomes follower (`Bumped`); the same for a crash that leaves the old log and the
old snapshot files on disk.
-/
import RaftVerif.Lemmas.SnapInst3e

namespace Raft
namespace SnapInst3
open Node Election LogRel Replication CommitRel Commit C02Sys C03Sys SnapRel SnapRelU SnapSim Snap Snap2 SnapInv SnapInv2
open SnapInst SnapInstU Snap3 SnapFrame

section
variable {V : List Nat}

/-- the restart reads `(term, vote)` from disk and nothing else depends on them -/
theorem restart_congr_tv (d : Durable) (t v : Nat) (r : Nat) (sor : Bool) (n : Node)
    (hn : Node.restart d r sor = some n) :
    Node.restart { d with term := t, vote := v } r sor =
      some { n with term := t, votedFor := v, durTerm := t, durVote := v } := by
  unfold Node.restart at hn ⊢
  have hf : restartFails { d with term := t, vote := v } = restartFails d := C10.restartFails_congr d _ rfl rfl
  rw [hf]
  show (if d.cid = 0 ∨ d.nid = 0 then none else _) = _
  split at hn
  · cases hn
  · rename_i h1
    rw [if_neg h1]
    split at hn
    · cases hn
    · rename_i h2
      rw [if_neg h2]
      injection hn with hn
      rw [← hn]
      have hrn : restartNode { d with term := t, vote := v } r sor =
          { restartNode d r sor with term := t, votedFor := v, durTerm := t, durVote := v } := rfl
      dsimp only
      rw [hrn]
      show some (if (restartNode d r sor).snapIndex > 0 then _ else _) = _
      split
      · rw [fsmRestore_eq, fsmRestore_eq]; rfl
      · rfl

/-- **the node `post` is the node `s` that at most adopted a newer term and became follower**: log, snapshot data,
commit index and state machine as before -/
structure Bumped (s post : Node) : Prop where
  log : post.log = s.log
  lastI : post.lastLogIndex = s.lastLogIndex
  lastT : post.lastLogTerm = s.lastLogTerm
  snapI : post.snapIndex = s.snapIndex
  snapT : post.snapTerm = s.snapTerm
  files : post.snapsDisk = s.snapsDisk
  commit : post.commitIndex = s.commitIndex
  fsm : post.fsm = s.fsm
  role : post.role = .follower
  nid : post.nid = s.nid
  tv : (post.term = s.term ∧ post.votedFor = s.votedFor) ∨ (s.term < post.term ∧ post.votedFor = 0)
  vwf : C05.VoteWF post
  retain : post.retain = s.retain
  res : post.snapResult = s.snapResult

/-- **the cluster after node `i` at most adopted a newer term and became follower** -/
theorem bumped_inv {x : Snap3.Sys} (hI : Inv3 V x) {i : Nat} {post : Node} (h : Bumped (x.node i) post) :
    SInv V (view3 (replS x i post (newBase x.s2 i (x.node i).log.prev))) ∧ PrevOK post ∧
    VTerm (replS x i post (newBase x.s2 i (x.node i).log.prev)) i := by
  have hI1 := hI.sinv
  have so : SnapOK (x.vnode i) := hI1.snap i
  have hβ : newBase x.s2 i (x.node i).log.prev = pad (x.s2.base i) (x.node i).log.prev :=
    take_vlog (x.s2.base i) (x.node i).log
  have hlog : (U (newBase x.s2 i (x.node i).log.prev) post).log = (x.vnode i).log := by
    show uncLog _ post.log = uncLog (x.s2.base i) (x.node i).log
    rw [h.log, hβ, uncLog_pad]
  generalize newBase x.s2 i (x.node i).log.prev = β at hlog ⊢
  have hvr : VRepl (view3 x) i (U β post) := by
    refine ⟨replOK_same hI1.cinv hI1.fsm h.nid h.tv h.vwf h.role hlog h.lastI h.lastT rfl rfl h.commit h.fsm, ?_, ?_, ?_, ?_, ?_⟩
    · refine ⟨by show 1 ≤ post.retain; rw [h.retain]; exact so.retain, ?_, ?_, ?_⟩
      · show FilesOK (U β post).log.entries post.commitIndex post.snapsDisk
        rw [hlog, h.commit, h.files]; exact so.files
      · show post.snapIndex = (headOf post.snapsDisk).index
        rw [h.snapI, h.files]; exact so.head
      · show post.snapIndex ≤ post.fsm.index
        rw [h.snapI, h.fsm]; exact so.le
    · show (x.node i).commitIndex ≤ post.commitIndex
      rw [h.commit]; exact Nat.le_refl _
    · show (U β post).log.entries.take _ = _
      rw [hlog]; rfl
    · show (x.node i).snapIndex ≤ post.snapIndex
      rw [h.snapI]; exact Nat.le_refl _
    · intro g hg
      have hg' : g ∈ post.snapsDisk := hg
      rw [h.files] at hg'
      exact Or.inl hg'
  refine ⟨by rw [view_replS]; exact sinv_replace hI1 hvr, ⟨?_, ?_⟩, ⟨?_, ?_⟩⟩
  · rw [h.log, h.snapI]; exact (hI.prev i).le
  · intro rs hrs
    rw [h.res] at hrs
    rw [h.snapI]; exact (hI.prev i).res rs hrs
  · show ∀ f ∈ ((replS x i post β).node i).snapsDisk, termAt ((replS x i post β).vnode i).log.entries f.index = f.term
    rw [replS_node_i, replS_vnode_i, hlog, h.files]
    exact (hI.vterm i).files
  · show ((replS x i post β).node i).snapTerm = (headOf ((replS x i post β).node i).snapsDisk).term
    rw [replS_node_i, h.snapT, h.files]
    exact (hI.vterm i).head

/-! ### an install request that installs nothing -/

/-- a stale install request changes nothing but the reply -/
theorem install_step_stale (s : Node) (q : InstallReq) (ra : List Nat) (ord : List (List Nat)) (hst : q.term < s.term) :
    s.step (.install q) ra ord =
      ((s.begin ra ord).ret rStaleTerm).withRpcReply (some (((s.begin ra ord).ret rStaleTerm).mkReply false false)) := by
  have hpost : s.step (.install q) ra ord =
      settle 6 (((s.begin ra ord).onInstallSnap q).rpcDone false) (s.begin ra ord).role := rfl
  have hh : (s.begin ra ord).onInstallSnap q = (s.begin ra ord).ret rStaleTerm := by
    rw [onInstallSnap_eq, if_pos (show q.term < (s.begin ra ord).term from hst)]
  have hd : ((s.begin ra ord).ret rStaleTerm).rpcDone false =
      ((s.begin ra ord).ret rStaleTerm).withRpcReply (some (((s.begin ra ord).ret rStaleTerm).mkReply false false)) := by
    unfold Node.rpcDone
    rw [if_neg (by show rStaleTerm ≠ rUnexpectedErr; decide)]
  rw [hpost, hh, hd]
  unfold settle
  rw [if_pos (show (((s.begin ra ord).ret rStaleTerm).withRpcReply _).role = (s.begin ra ord).role from rfl)]

/-- an install request that is not stale and installs nothing: the node is `Bumped` -/
theorem bumped_of_step (s : Node) (q : InstallReq) (ra : List Nat) (ord : List (List Nat)) (hterm : ¬ q.term < s.term)
    (hn : q.lastIndex ≤ s.commitIndex ∨ C09.keepsLog s q = true) (hvw : C05.VoteWF s) :
    Bumped s (s.step (.install q) ra ord) ∧
    ∀ pt ∈ (s.step (.install q) ra ord).trace, pt.2.log.prev = s.log.prev := by
  obtain ⟨⟨a1, a2, a3, a4, a5, a6⟩, ⟨b1, b2, _, _⟩, ⟨c1, c2, _⟩, ⟨d1, _, d3, d4⟩, ⟨e1, _⟩, ⟨_, f2⟩⟩ :=
    install_step_eqs s q ra ord
  have hb1 : ¬ q.term < (s.begin ra ord).term := hterm
  have hb2 : q.lastIndex ≤ (s.begin ra ord).commitIndex ∨ C09.keepsLog (s.begin ra ord) q = true := hn
  obtain ⟨sd, _, _, _⟩ := C09.install_nothing (s.begin ra ord) q hb1 hb2
  have hshape := C09.install_nothing_shape (s.begin ra ord) q hb1 hb2
  have hvs := C05.step_vote_stable s (.install q) ra ord hvw
  refine ⟨⟨a1.trans sd.log, a2.trans sd.lastLogIndex, a3.trans sd.lastLogTerm, a4.trans sd.snapIndex,
    a5.trans sd.snapTerm, a6.trans sd.snapsDisk, c1.trans sd.commitIndex, c2.trans sd.fsm, ?_, d3.trans sd.nid, ?_,
    hvs.2.1, d4.trans sd.retain, f2.trans sd.snapResult⟩, fun pt hpt => ?_⟩
  · rw [e1]; exact install_role _ q hb1
  · rw [b1, b2, hshape]
    show ((installPre (s.begin ra ord) q).term = s.term ∧ (installPre (s.begin ra ord) q).votedFor = s.votedFor) ∨
      (s.term < (installPre (s.begin ra ord) q).term ∧ (installPre (s.begin ra ord) q).votedFor = 0)
    rcases installPre_tv (s.begin ra ord) q with ⟨_, h1, h2⟩ | ⟨h0, h1, h2⟩
    · exact Or.inl ⟨h1, h2⟩
    · right
      have h0' : s.term < q.term := h0
      exact ⟨by rw [h1]; exact h0', h2⟩
  · rw [d1, (C10.install_ignored_script (s.begin ra ord) q (Or.inr hb2)).1, if_neg hb1] at hpt
    rcases List.mem_append.mp hpt with h | h
    · cases h
    · unfold C10.preTrace at h
      split at h
      · simp only [List.mem_cons, List.not_mem_nil, or_false] at h
        rw [h]; rfl
      · cases h

end

end SnapInst3
end Raft
