/-
Cluster level: the side conditions of the membership-change theorems (Props/C02Member.lean: `SideC`) as INVARIANTS of
the system `Member.Sys`, from conditions on the initial state and on what is delivered (used by Props/C08Member.lean).

* `ReqG`: what is asked of a delivered operation beyond `Member.Enabled` — a submitted configuration has strictly
  increasing ids, a defined action for the receiver and two voters without pending action (`NoPanic.UserCfg true`); a
  `newTerm` report of a replication carries a term not below the leader's; a transport error of a `timeoutNow` request
  names a node the leader replicates to (the last two as `SysInv.EnabledG`);
* `TransR`: `Member.Trans` with `ReqG`, closed nodes frozen (only an open node handles operations; the process of any
  node may be restarted from its disk), and a restart retains at least one snapshot;
* `XInv`: every node is `NoPanic.Good true`; every configuration entry of the tree of created entries carries a `CfgAll`
  configuration (`MemberGood.EntOK`); a configuration entry created by a node is adjacent to the previous one on its path;
* `xinv_trans`: every transition of `TransR` preserves `XInv` together with `MemberInv.MInv`.
-/
import RaftVerif.Lemmas.MemberCrash
import RaftVerif.Lemmas.MemberGood
import RaftVerif.Lemmas.MemberSeg
import RaftVerif.Props.C08Sys

namespace Raft
namespace MemberSide
open Node Election LogRel Replication CommitRel Commit Member MemberCore QuorumRel MemberInv MemberCommit
open MemberGood NoPanic
open MemberStep (CfgLatest SideM SM CM)

/-! ## the assumptions on what is delivered, and the transitions -/

/-- what is asked of an operation delivered to node `i`, beyond `Member.Enabled` -/
structure ReqG (x : Member.Sys) (i : Nat) (op : Op) : Prop where
  /-- a submitted configuration: member ids strictly increasing, the receiver's own action one of the five defined
  ones, at least two voters without pending action -/
  userCfg : ∀ t c, op = .changeConfig t c → UserCfg true i c
  /-- a `newTerm` report of a replication (that was not removed) delivered to a leader carries a term not below the
  leader's -/
  newTerm : ∀ us, op = .replUpdates us → (x.node i).role = .leader → ∀ u ∈ us, u.removed = false →
    ∀ v, u.upd = .newTerm v → (x.node i).term ≤ v
  /-- a transport error reported for the `timeoutNow` request of a transfer names a node the leader replicates to -/
  timeoutNow : ∀ src err r, op = .timeoutNowResult src err r → (x.node i).role = .leader →
    (x.node i).ldr.transfer.respPending = true → err = true → (x.node i).findRepl? src ≠ none

/-- The transitions of `Member.Trans` with the assumptions `ReqG`, closed nodes frozen, and `SnapshotsRetain ≥ 1`. -/
inductive TransR (x : Member.Sys) : Member.Sys → Prop
  /-- an OPEN node handles an enabled operation to completion -/
  | step (i : Nat) (op : Op) (ra : List Nat) (ord : List (List Nat)) (src : Nat) : Member.Enabled x i op src →
      ReqG x i op → (x.node i).closed = "" → TransR x (stepM x i op ra ord src)
  /-- an open node dies while handling an enabled operation, after `k` storage points — or any node's process, open or
  closed, is restarted between two steps (`k = 0`) — and restarts from what is on disk -/
  | crash (i : Nat) (op : Op) (ra : List Nat) (ord : List (List Nat)) (src k retain : Nat) (sor : Bool)
      (n : Node) : Member.Enabled x i op src → ReqG x i op → ((x.node i).closed = "" ∨ k = 0) → 1 ≤ retain →
      Node.restart (C05.crashDisk (x.node i) op ra ord k) retain sor = some n →
      TransR x (crashM x i op n)
  /-- a leader puts a request read from its log on the wire -/
  | send (i : Nat) (q : AppendReq) : i ≠ 0 → (x.node i).role = .leader → ReadFrom (x.node i) q →
      q.ldrCommitIndex ≤ (x.node i).commitIndex →
      TransR x { x with cm := { x.cm with rp := { x.cm.rp with sent := q :: x.cm.rp.sent } } }

theorem transR_trans {x y : Member.Sys} (h : TransR x y) : Member.Trans x y := by
  cases h with
  | step i op ra ord src he _ _ => exact .step i op ra ord src he
  | crash i op ra ord src k retain sor n he _ _ _ hn => exact .crash i op ra ord src k retain sor n he hn
  | send i q hi hl hr hc => exact .send i q hi hl hr hc

/-! ## the invariant -/

/-- **the invariant** (on top of `MemberInv.MInv`) -/
structure XInv (x : Member.Sys) : Prop where
  good : ∀ i, Good true (x.node i)
  /-- every configuration entry of the tree carries a `CfgAll` configuration -/
  tree : ∀ c ∈ x.cm.T, EntOK c.e
  /-- a configuration entry created by a node is adjacent to the previous configuration entry on its path -/
  adj : ∀ c ∈ x.cm.T, ∀ p ∈ x.cm.T, c.cr ≠ 0 → PrevT x.cm.T (key p) (key c) → ∀ cfg pcfg, c.e.config? = some cfg →
    p.e.config? = some pcfg → AdjLists pcfg.voters cfg.voters

section facts
variable {x : Member.Sys} {G : Ghost}

/-- the side condition on the tree follows from its content -/
theorem sideT_of (htree : ∀ c ∈ x.cm.T, EntOK c.e)
    (hadj : ∀ c ∈ x.cm.T, ∀ p ∈ x.cm.T, c.cr ≠ 0 → PrevT x.cm.T (key p) (key c) → ∀ cfg pcfg,
      c.e.config? = some cfg → p.e.config? = some pcfg → AdjLists pcfg.voters cfg.voters) : SideT x :=
  ⟨fun c hc cfg hcfg => (entOK_config (htree c hc) hcfg).voters_nodup, hadj,
    fun c hc ht => by obtain ⟨cfg, h1, _⟩ := entOK_dec (htree c hc) ht; exact ⟨cfg, h1⟩⟩

theorem XInv.sideT (h : XInv x) : SideT x := sideT_of h.tree h.adj

/-- every entry of a node's log is a record of the tree -/
theorem log_entOK (hI : MInv x G) (htree : ∀ c ∈ x.cm.T, EntOK c.e) (i : Nat) :
    ∀ e ∈ (x.node i).log.entries, EntOK e := by
  intro e he
  obtain ⟨c, hc, hce⟩ := C04Sys.chain_mem (hI.rp.nodes i).2 e he
  rw [← hce]; exact htree c hc

/-- … and so is every entry of a request on the wire -/
theorem sent_entOK (hI : MInv x G) (htree : ∀ c ∈ x.cm.T, EntOK c.e) {q : AppendReq} (hq : q ∈ x.cm.rp.sent) :
    ∀ e ∈ q.entries, EntOK e := by
  intro e he
  obtain ⟨c, hc, hce⟩ := C04Sys.chain_mem (hI.rp.sent q hq).chain e he
  rw [← hce]; exact htree c hc

/-- the latest configuration of every node is `CfgAll` -/
theorem latest_all (hI : MInv x G) (htree : ∀ c ∈ x.cm.T, EntOK c.e) (i : Nat) : CfgAll (x.node i).configs.latest := by
  obtain ⟨⟨e, he, hec⟩, _⟩ := hI.cfg.cl i
  exact entOK_config (log_entOK hI htree i e he) hec

/-- every node is bootstrapped: its latest configuration is an entry of its log -/
theorem boot_of (hI : MInv x G) : Boot x := by
  intro i
  obtain ⟨⟨e, he, hec⟩, _⟩ := hI.cfg.cl i
  obtain ⟨_, hci, _⟩ := config?_facts hec
  have := (contig_index_le (nwfM hI i).contig e he).1
  unfold Configs.isBootstrapped Config.isBootstrapped
  exact decide_eq_true (by omega)

/-- the side conditions on a state that the analysis of a transition needs (`MemberStep.SideM`) -/
theorem sideM_of (hI : MInv x G) (hX : XInv x) (hLC : ∀ i, C06Cache.LeaderCache (x.node i)) : SideM x :=
  ⟨boot_of hI, fun i => (latest_all hI hX.tree i).quorum_ne_one, hLC, hX.sideT⟩

/-- **every enabled operation that satisfies `ReqG` is acceptable at its receiver** (`NoPanic.ReqOk' true`) -/
theorem reqok (hI : MInv x G) (hX : XInv x) {i : Nat} {op : Op} {src : Nat} (he : Member.Enabled x i op src)
    (hg : ReqG x i op) : ReqOk' true (x.node i) op := by
  have hS := hX.sideT
  have hn := nwfM hI i
  have hnid : (x.node i).nid = i := (hI.rp.el.ids i).1
  cases op with
  | append q =>
    show q.term < (x.node i).term ∨ AppendOk' true (x.node i) q
    by_cases hst : q.term < (x.node i).term
    · exact Or.inl hst
    · right
      have hq : q ∈ x.cm.rp.sent := (he.rp.append q rfl).resolve_left hst
      have hnc := reqokM hI hS (i := i) hq hst
      refine ⟨⟨C02Sys.chainB_of_idx _ _ (hI.rp.sent q hq).idx, fun ne hne hle _ hdiff => ?_⟩, fun ne hne ht => ?_⟩
      · have h1 : 1 ≤ ne.index := by
          obtain ⟨j, hj, rfl⟩ := List.getElem_of_mem hne
          rw [(hI.rp.sent q hq).idx j hj]; omega
        have hlen : ne.index ≤ (x.node i).log.entries.length := by rw [← hn.last]; exact hle
        have key : ∀ k, NoConf (x.node i) q k → k < ne.index := by
          intro k hk
          apply Nat.lt_of_not_le
          intro hle'
          apply hdiff
          rw [hn.entryTerm ne.index h1 hlen, hk ne hne hle']
        refine ⟨key _ hnc, ?_⟩
        rcases hI.cfg.sp i with p | p
        · have := key _ (protNoConf hI hS hq hst p)
          have := (hX.good i).ordered.committed_le_latest
          omega
        · exact key _ (protNoConf hI hS hq hst (MemberStep.pend_prot hI.rp hI.tree.rootA hI.tree.rootOnly hI.recs.chain
            (hI.node.termLe i) (hI.cfg.cl i) p))
      · obtain ⟨c, hc, hall⟩ := sent_entOK hI hX.tree hq ne hne ht
        rw [hc]; exact hall.cfgOk _
  | install q => exact absurd he.rp.ok (by simp [OpOK])
  | newEntries b =>
    show (x.node i).role = .leader → BatchOk true (x.node i).nid b
    intro _ q hq ht
    exact absurd ht (he.cfg q hq)
  | changeConfig t c =>
    show UserCfg true (x.node i).nid c ∧ ((x.node i).role ≠ .leader →
      (x.node i).configs.isBootstrapped = true ∨ ((x.node i).lastLogIndex = 0 ∧ (x.node i).term ≤ 1))
    rw [hnid]
    exact ⟨hg.userCfg t c rfl, fun _ => Or.inl (boot_of hI i)⟩
  | replUpdates us =>
    show (x.node i).role = .leader → ∀ u ∈ us, UpdOk (x.node i) u
    intro hl u hu hr
    refine ⟨fun v hv => ?_, fun v hv => hg.newTerm us rfl hl u hu hr v hv⟩
    rcases he.upd us rfl u hu v hv with h0 | ⟨a, ha, h1, h2, h3⟩
    · rw [h0]; exact Nat.zero_le _
    · have := backed_leM hI hS hl u.id v ⟨a, ha, h1, h2, h3⟩
      rw [hn.last]; exact this
  | timeoutNowResult s e r =>
    show (x.node i).role = .leader → (x.node i).ldr.transfer.respPending = true → e = true →
      (x.node i).findRepl? s ≠ none
    exact hg.timeoutNow s e r rfl
  | _ => trivial

end facts


/-! ## a completed step -/

section step
variable {x : Member.Sys} {G : Ghost} {i : Nat} {op : Op} {ra : List Nat} {ord : List (List Nat)} {src : Nat}

theorem contig_pairwise {es : List Entry} (hc : ∀ k (h : k < es.length), es[k].index = k + 1) :
    es.Pairwise (fun a b => a.index < b.index) := by
  rw [List.pairwise_iff_getElem]
  intro a b ha hb hab
  rw [hc a ha, hc b hb]; omega

/-- what `MemberGood.step_content` says of the step of node `i` (not an append request, no failure) -/
theorem sm_content (sm : SM x G i op ra ord src) (hX : XInv x) (happ : ∀ q, op ≠ .append q)
    (hu : ∀ t c, op = .changeConfig t c → UserCfg true i c) (hp : sm.post.panicked = none) :
    (∀ e ∈ sm.post.log.entries, EntOK e) ∧
    (∀ e, (sm.post.log.entries.drop (x.node i).log.entries.length).find? (fun x => x.typ == etConfig) = some e →
      ∃ c, e.config? = some c ∧ C08.AdjacentVoters (x.node i).configs.latest c) := by
  have hI := sm.inv
  have hnid : (x.node i).nid = i := (hI.rp.el.ids i).1
  obtain ⟨_, h2, _, h4, _⟩ := step_content (x.node i) op ra ord (log_entOK hI hX.tree i)
    (Or.inr (latest_all hI hX.tree i)) (C08Step.selfCache_of_leaderCache _ (sm.side.cache i)) (sm.side.boot i)
    sm.en.rp.ok sm.en.cfg happ (fun t c e _ => by rw [hnid]; exact hu t c e) hp
  exact ⟨h2, h4⟩

/-- **no commit moment of a step reaches beyond the log the node had before it**: the configuration that is latest at
that moment has two voters, so a voter other than the node itself has reached the index — by a match index that is
backed by an acknowledgement, which lies within the old log -/
theorem ev_small (sm : SM x G i op ra ord src) (hS : SideT x) {T : Nat} {L : List CEvt}
    (m : MEvs (x.node i) (Commit.Backed x.cm i) sm.post T L) (hpost : ∀ e ∈ sm.post.log.entries, EntOK e) :
    ∀ ev ∈ L, ev.ci ≤ (x.node i).log.entries.length := by
  intro ev hev
  have hI := sm.inv
  obtain ⟨_, _, _, _, _, _, e7, e8, e9, e10⟩ := m.ev ev hev
  obtain ⟨⟨e, he, hec⟩, _⟩ := e7
  have hall : CfgAll ev.cfg := entOK_config (hpost e (List.mem_of_mem_take he)) hec
  have hQn : ev.Q.Nodup := e8.nodup hall.voters_nodup
  have hvl : ev.cfg.voters.length = ev.cfg.numVoters := by
    unfold Config.voters Config.numVoters; rw [List.length_map]
  have h2 : 2 ≤ ev.Q.length := by have := hall.two; omega
  have hex : ∃ j ∈ ev.Q, j ≠ (x.node i).nid := by
    apply Classical.byContradiction
    intro hn
    have hall' : ∀ j ∈ ev.Q, j = (x.node i).nid := fun j hj =>
      Classical.byContradiction (fun hne => hn ⟨j, hj, hne⟩)
    have := length_le_one_of_all_eq hQn hall'
    omega
  obtain ⟨j, hj, hne⟩ := hex
  rcases e10 j hj with h | ⟨hl, _, m', hm1, hm2⟩
  · exact absurd h hne
  · have := backed_leM hI hS hl j m' hm2
    omega

/-- the content of the tree after the step -/
theorem sm_tree (sm : SM x G i op ra ord src) (hX : XInv x)
    (hu : ∀ t c, op = .changeConfig t c → UserCfg true i c) (hp : sm.post.panicked = none) :
    ∀ c ∈ sm.y.cm.T, EntOK c.e := by
  intro c hc
  rw [sm.T_eq] at hc
  rcases List.mem_append.mp hc with hc | hc
  · rcases SM.op_cases op with happ | ⟨q, rfl⟩
    · rw [C04Sys.newCreated_other _ _ _ _ happ] at hc
      exact (sm_content sm hX happ hu hp).1 c.e (List.mem_of_mem_drop (C04Sys.mem_chainOf hc).2)
    · cases hc
  · exact hX.tree c hc

/-- a record of the old tree has the same previous configuration entry in the grown tree -/
theorem prevT_old {T T' : List CEntry} (hsub : ∀ c ∈ T, c ∈ T') (hU' : Uniq T') {P a : K}
    (ha : ∃ es, Path T es ∧ Holds es a.1 a.2) (h : PrevT T' P a) : PrevT T P a := by
  obtain ⟨⟨p, hp, hk, ht⟩, h2, h3, h4⟩ := h
  obtain ⟨ho, hA⟩ := anc_old hsub hU' ha hp (by rw [hk]; exact h2)
  refine ⟨⟨p, ho, hk, ht⟩, by rw [← hk]; exact hA, h3, fun e he het hAe hlt => ?_⟩
  exact h4 e (hsub e he) het (hAe.mono hsub) hlt

/-- **adjacency after the step**: a configuration entry created by a node is adjacent to the previous configuration
entry on its path — for the entry the step created (there is at most one) by `MemberGood.step_content` -/
theorem sm_adj (sm : SM x G i op ra ord src) (hX : XInv x)
    (hu : ∀ t c, op = .changeConfig t c → UserCfg true i c) (hp : sm.post.panicked = none) :
    ∀ c ∈ sm.y.cm.T, ∀ p ∈ sm.y.cm.T, c.cr ≠ 0 → PrevT sm.y.cm.T (key p) (key c) → ∀ cfg pcfg,
      c.e.config? = some cfg → p.e.config? = some pcfg → AdjLists pcfg.voters cfg.voters := by
  have hI := sm.inv
  have hE := sm.ext
  have hRy := sm.ry
  intro c hc p hpT h0 hprev cfg pcfg hcfg hpcfg
  have hcT := hc
  rw [sm.T_eq] at hc
  rcases List.mem_append.mp hc with hnew | hold
  · -- a record created in this step
    have happ : ∀ q, op ≠ .append q := by
      intro q hq; subst hq; cases hnew
    obtain ⟨es, te, hN, hle⟩ := sm.newM happ
    obtain ⟨hent, hfirst⟩ := sm_content sm hX happ hu hp
    obtain ⟨T, L, m⟩ := sm.evs happ
    have hni := sm.node_i
    rw [C04Sys.newCreated_other _ _ _ _ happ, hle, List.drop_left] at hnew
    obtain ⟨_, hces, _, hlt, _⟩ := hN.mem_new hnew
    obtain ⟨hty, _, _⟩ := config?_facts hcfg
    have hcm : c.e ∈ sm.post.log.entries := by rw [hle]; exact List.mem_append_right _ hces
    have hpn := sm.nwf_post
    have hn := nwfM hI i
    have hch : Holds sm.post.log.entries c.e.index c.e.term := C02Sys.holds_of_mem hpn.contig hcm
    -- the previous configuration entry is within the old log
    obtain ⟨P, ci, p1, p2, p3, p4⟩ := m.chg c.e hcm hlt hty
    have hPle : P.index ≤ (x.node i).log.entries.length := by
      rcases p4 with ⟨e1, _, _⟩ | ⟨ev, hev, e1, _⟩
      · have := ciLeM hI i; omega
      · have := ev_small sm hX.sideT m hent ev hev; omega
    -- hence `P` is the latest configuration before the step
    have hPpre : CfgLast (x.node i).log.entries P := by
      obtain ⟨⟨eP, heP, hePc⟩, hlast⟩ := p1
      obtain ⟨_, hPi, _⟩ := config?_facts hePc
      have hePm : eP ∈ sm.post.log.entries := List.mem_of_mem_take heP
      have hePpre : eP ∈ (x.node i).log.entries := by
        rw [hle] at hePm
        rcases List.mem_append.mp hePm with h | h
        · exact h
        · have := (hN.ent eP h).2
          rw [hn.last] at this
          omega
      refine ⟨⟨eP, hePpre, hePc⟩, fun e he ht => ?_⟩
      refine hlast e ?_ ht
      have hei := (contig_index_le hn.contig e he).2
      have : (sm.post.log.entries.take (c.e.index - 1)) = (x.node i).log.entries ++ es.take (c.e.index - 1 - (x.node i).log.entries.length) := by
        rw [hle, List.take_append, List.take_of_length_le (by omega)]
      rw [this]
      exact List.mem_append_left _ he
    have hPeq : P = (x.node i).configs.latest := cfgLast_unique hn.contig hPpre (hI.cfg.cl i)
    -- the record `p` is the record of that entry
    have hPT := MemberStep.prevT_of_log hRy i c.e.index (by rw [hni]; exact hch.2.1) (by rw [hni]; exact p1)
    rw [hni, hch.2.2] at hPT
    have hkp : key p = (P.index, P.term) := MemberStep.prevT_unique hRy.uniq hprev hPT
    have hpcfgP : pcfg = P := by
      obtain ⟨⟨eP, heP, hePc⟩, _⟩ := p1
      obtain ⟨_, hPi, hPt⟩ := config?_facts hePc
      have hePm : eP ∈ (sm.y.node i).log.entries := by rw [hni]; exact List.mem_of_mem_take heP
      obtain ⟨cP, hcP, hcPe, _⟩ := MemberStep.log_entry_record hRy i hePm
      have : cP = p := by
        apply hRy.uniq cP hcP p hpT
        · rw [hcPe, ← hPi]; exact (congrArg Prod.fst hkp).symm
        · rw [hcPe, ← hPt]; exact (congrArg Prod.snd hkp).symm
      rw [← this, hcPe, hePc] at hpcfg
      injection hpcfg with hpcfg
      exact hpcfg.symm
    -- `c.e` is the first configuration entry appended in the step
    have hnolow : ∀ e ∈ es, e.typ = etConfig → c.e.index ≤ e.index := by
      intro e he ht
      apply Nat.le_of_not_lt
      intro hlt'
      have hem : e ∈ sm.post.log.entries.take (c.e.index - 1) := by
        have hh := C02Sys.holds_of_mem hpn.contig (show e ∈ sm.post.log.entries by rw [hle]; exact List.mem_append_right _ he)
        obtain ⟨ee, hee, _⟩ := holds_get hh
        have : (sm.post.log.entries.take (c.e.index - 1))[e.index - 1]? = some e := by
          rw [List.getElem?_take, if_pos (by have := hh.1; omega)]
          rw [hee]
          congr 1
          obtain ⟨k, hk, rfl⟩ := List.getElem_of_mem (show e ∈ sm.post.log.entries by rw [hle]; exact List.mem_append_right _ he)
          have hki := hpn.contig k hk
          rw [hki] at hee
          simp only [Nat.add_sub_cancel] at hee
          rw [List.getElem?_eq_getElem hk] at hee
          injection hee with hee
          exact hee.symm
        exact List.mem_of_getElem? this
      have := p1.2 e hem ht
      have := (hN.ent e he).2
      rw [hn.last] at this
      omega
    have hfc : es.find? (fun x => x.typ == etConfig) = some c.e := by
      rw [List.find?_eq_some_iff_append]
      refine ⟨by simpa using hty, ?_⟩
      obtain ⟨l1, l2, hl⟩ := List.append_of_mem hces
      refine ⟨l1, l2, hl, fun a ha => ?_⟩
      have hpw : es.Pairwise (fun a b => a.index < b.index) := by
        have := contig_pairwise hpn.contig
        rw [hle] at this
        exact (List.pairwise_append.mp this).2.1
      rw [hl] at hpw
      have hlt' : a.index < c.e.index := (List.pairwise_append.mp hpw).2.2 a ha c.e List.mem_cons_self
      have hae : a ∈ es := by rw [hl]; exact List.mem_append_left _ ha
      by_cases hta : a.typ = etConfig
      · have := hnolow a hae hta
        omega
      · simpa using hta
    obtain ⟨c1, hc1, hadj⟩ := hfirst c.e (by rw [hle, List.drop_left]; exact hfc)
    rw [hcfg] at hc1
    injection hc1 with hc1
    rw [hpcfgP, hPeq, hc1]
    exact adjLists_of_adjacentVoters _ _ (ids_nodup (latest_all hI hX.tree i).sorted)
      (ids_nodup (entOK_config (hent c.e hcm) (hc1 ▸ hcfg)).sorted) hadj
  · -- an old record: its previous configuration entry is the one it had
    obtain ⟨pth, hpth, hh⟩ := hI.tree.pathc c hold
    have hP := prevT_old hE.T hRy.uniq ⟨pth, hpth, hh⟩ hprev
    obtain ⟨⟨p', hp', hk', _⟩, _⟩ := id hP
    have : p' = p := by
      apply hRy.uniq p' (hE.T p' hp') p hpT
      · exact congrArg Prod.fst hk'
      · exact congrArg Prod.snd hk'
    rw [this] at hp'
    exact hX.adj c hold p hp' h0 hP cfg pcfg hcfg hpcfg

end step


/-- **a completed step preserves the invariants** -/
theorem xinv_step {x : Member.Sys} {G : Ghost} (hI : MInv x G) (hX : XInv x)
    (hLC : ∀ i, C06Cache.LeaderCache (x.node i)) (i : Nat) (op : Op) (ra : List Nat) (ord : List (List Nat))
    (src : Nat) (he : Member.Enabled x i op src) (hg : ReqG x i op) (ho : (x.node i).closed = "") :
    XInv (stepM x i op ra ord src) ∧ ∃ G', MInv (stepM x i op ra ord src) G' ∧ G'.root = G.root := by
  obtain ⟨hp, hGood⟩ := C15NoPanic.good_step_two _ op ra ord (hX.good i) ho (reqok hI hX he hg)
  have hS := sideM_of hI hX hLC
  have sm : SM x G i op ra ord src := ⟨hI, hS, he, fun _ => hp⟩
  refine ⟨⟨fun j => ?_, sm_tree sm hX hg.userCfg hp, sm_adj sm hX hg.userCfg hp⟩,
    MemberStep.minv_step hI hS i op ra ord src he (fun _ => hp)⟩
  by_cases hj : j = i
  · subst hj
    have := sm.node_i
    rw [show (stepM x j op ra ord src).node j = _ from this]
    exact hGood
  · have := sm.node_j hj
    rw [show (stepM x i op ra ord src).node j = _ from this]
    exact hX.good j

/-! ## a crash during a step, and the restart -/

theorem chainOf_prefix_sub {cr : Nat} : ∀ {es' es : List Entry} {pt : Nat}, es' <+: es →
    ∀ c ∈ chainOf cr pt es', c ∈ chainOf cr pt es := by
  intro es'
  induction es' with
  | nil => intro es pt _ c hc; cases hc
  | cons e es' ih =>
    intro es pt hpre c hc
    obtain ⟨r, hr⟩ := hpre
    rw [← hr]
    simp only [List.cons_append, chainOf, List.mem_cons] at hc ⊢
    rcases hc with hc | hc
    · exact Or.inl hc
    · exact Or.inr (ih (List.prefix_append _ _) c hc)

section crash
variable {x : Member.Sys} {G : Ghost} {i : Nat} {op : Op} {ra : List Nat} {ord : List (List Nat)}
  {src k retain : Nat} {sor : Bool} {n : Node}

/-- what a crashed step created is part of what the completed step creates -/
theorem crash_T_sub (cm : CM x G i op ra ord src k retain sor n) :
    ∀ c ∈ cm.y.cm.T, c ∈ cm.sm.y.cm.T := by
  have sm := cm.sm
  have hI := sm.inv
  rcases SM.op_cases op with happ | ⟨q, rfl⟩
  · obtain ⟨es', te', hN'⟩ := cm.newM
    obtain ⟨es, te, hN, hle⟩ := sm.newM happ
    intro c hc
    rw [hN'.T] at hc
    rw [hN.T]
    rcases List.mem_append.mp hc with hc | hc
    · refine List.mem_append_left _ ?_
      have hne : es' ≠ [] := fun e => by rw [e] at hc; cases hc
      have hlog := hN'.log hne
      rw [cm.node_i] at hlog
      have im := sm.img k
      obtain ⟨_, _, _, _, _, _, _, _, f9⟩ := cm.facts
      have hpre : es' <+: es := by
        rcases im.within happ with w | w
        · exfalso
          rw [← f9, hlog] at w
          have := w.length_le
          rw [List.length_append] at this
          have : es'.length = 0 := by omega
          exact hne (List.eq_nil_of_length_eq_zero this)
        · rw [← f9, hlog, hle] at w
          exact (List.prefix_append_right_inj _).mp w
      exact chainOf_prefix_sub hpre c hc
    · exact List.mem_append_right _ hc
  · intro c hc; exact hc

/-- **a crash during a step and the restart preserve the invariants** — given that the completed step would not have
failed -/
theorem xinv_crash_core (cm : CM x G i op ra ord src k retain sor n) (hX : XInv x)
    (hu : ∀ t c, op = .changeConfig t c → UserCfg true i c) (hp : cm.sm.post.panicked = none) (hret : 1 ≤ retain) :
    XInv (crashM x i op n) ∧ ∃ G', MInv (crashM x i op n) G' ∧ G'.root = G.root := by
  have sm := cm.sm
  have hI := sm.inv
  have hsub := crash_T_sub cm
  have hRy := cm.ry
  have htree : ∀ c ∈ cm.y.cm.T, EntOK c.e := fun c hc => sm_tree sm hX hu hp c (hsub c hc)
  have hadj : ∀ c ∈ cm.y.cm.T, ∀ p ∈ cm.y.cm.T, c.cr ≠ 0 → PrevT cm.y.cm.T (key p) (key c) → ∀ cfg pcfg,
      c.e.config? = some cfg → p.e.config? = some pcfg → AdjLists pcfg.voters cfg.voters := by
    intro c hc p hpT h0 hprev cfg pcfg hcfg hpcfg
    obtain ⟨pth, hpth, hh⟩ := cm.treeM.pathc c hc
    exact sm_adj sm hX hu hp c (hsub c hc) p (hsub p hpT) h0
      (prevT_mono hsub sm.ry.uniq ⟨pth, hpth, hh⟩ hprev) cfg pcfg hcfg hpcfg
  have hsy : SideT (crashM x i op n) := sideT_of htree hadj
  refine ⟨⟨fun j => ?_, htree, hadj⟩, cm.minv hsy⟩
  by_cases hj : j = i
  · subst hj
    rw [show (crashM x j op n).node j = n from cm.node_i]
    have im := sm.img k
    obtain ⟨_, _, _, _, _, _, _, _, f9⟩ := cm.facts
    have hnwf : NWF n := by
      have := (hRy.nodes j).1
      rwa [show cm.y.cm.rp.el.node j = n from cm.node_i] at this
    have hlog : ∀ e ∈ n.log.entries, EntOK e := by
      intro e he
      have hchain : Chain cm.y.cm.T none n.log.entries := by
        have := (hRy.nodes j).2
        rwa [show cm.y.cm.rp.el.node j = n from cm.node_i] at this
      obtain ⟨c, hc, hce⟩ := C04Sys.chain_mem hchain e he
      rw [← hce]; exact htree c hc
    have hseg : C09.SegsOK (C05.crashDisk (x.node j) op ra ord k).log :=
      MemberSeg.crashDisk_segsOK _ op ra ord k sm.en.rp.ok sm.en.cfg (sm.side.boot j) (hX.good j).ordered.segs
        (hI.node.lwf j) (hX.good j).ordered.last_eq (fun _ => hp)
    have hsnap : C10.snapOf (C05.crashDisk (x.node j) op ra ord k) = {} := by
      unfold C10.snapOf; rw [im.snaps]; rfl
    refine C15NoPanic.restart_good _ retain sor n ⟨⟨?_, hseg, ?_, ?_⟩, hret, ?_, ?_, ?_⟩ cm.hn
    · unfold C10.DurWF; rw [im.prev]; exact Nat.zero_le _
    · intro a e ha
      unfold NLog.get? at ha
      rw [im.prev] at ha
      split at ha
      · rw [Nat.sub_zero, ← f9] at ha
        obtain ⟨hlt, hge⟩ := List.getElem?_eq_some_iff.mp ha
        rw [← hge, hnwf.contig _ hlt]; omega
      · cases ha
    · rw [hsnap]; exact Nat.le_refl _
    · rw [im.snaps]; intro g hg; cases hg
    · intro ne hne ht
      rw [← f9] at hne
      obtain ⟨c, hc, hall⟩ := hlog ne hne ht
      rw [hc]; exact hall.cfgOk _
    · rw [hsnap]; exact cfgOk_empty _ _
  · rw [show (crashM x i op n).node j = x.node j from cm.node_j hj]
    exact hX.good j

/-- a `disconnected` notification about nobody: the step only clears the outputs of the previous step -/
theorem step_disconnected0 (s : Node) (ra : List Nat) (ord : List (List Nat)) :
    s.step (.disconnected 0) ra ord = s.begin ra ord := by
  unfold Node.step Node.handle
  dsimp only
  rw [if_neg (by intro h; exact h.2.1 rfl)]
  exact Node.settle_same 6 _

/-- nothing of the operation was handled when a process is restarted between two steps (`k = 0`): the same state results
from a crash before a trivial operation (a `disconnected` notification about nobody) — which no node fails to handle,
open or closed -/
theorem crash0_swap (hI : MInv x G) (hS : SideM x) (he : Member.Enabled x i op src)
    (hn : Node.restart (C05.crashDisk (x.node i) op ra ord 0) retain sor = some n) :
    Member.Enabled x i (.disconnected 0) src ∧ ((x.node i).step (.disconnected 0) ra ord).panicked = none ∧
    crashM x i op n = crashM x i (.disconnected 0) n := by
  have he' : Member.Enabled x i (.disconnected 0) src :=
    ⟨⟨he.rp.id, (fun q h => by cases h), (fun ⟨_, _, _, h⟩ => by cases h), trivial, (fun q h => by cases h)⟩, trivial,
      (fun q h => by cases h), (fun q h => by cases h), (fun us h => by cases h)⟩
  have hp' : ((x.node i).step (.disconnected 0) ra ord).panicked = none := by
    rw [step_disconnected0]; rfl
  have cm' : CM x G i (.disconnected 0) ra ord src 0 retain sor n := ⟨⟨hI, hS, he', fun _ => hp'⟩, hn⟩
  have hlen : n.log.entries.length ≤ (x.node i).log.entries.length := by
    obtain ⟨_, _, _, _, _, _, _, _, f9⟩ := cm'.facts
    rw [f9]
    show (x.node i).log.durable.entries.length ≤ _
    rw [durable_entries (nwfM hI i), List.length_take]
    exact Nat.min_le_right _ _
  have hnc : newCreated i (x.node i).log.entries n.log.entries op =
      newCreated i (x.node i).log.entries n.log.entries (.disconnected 0) := by
    have h0 : newCreated i (x.node i).log.entries n.log.entries (.disconnected 0) = [] := by
      show chainOf i _ (n.log.entries.drop _) = []
      rw [List.drop_eq_nil_of_le hlen]; rfl
    rw [h0]
    rcases SM.op_cases op with happ | ⟨q, rfl⟩
    · rw [C04Sys.newCreated_other _ _ _ _ happ, List.drop_eq_nil_of_le hlen]; rfl
    · rfl
  refine ⟨he', hp', ?_⟩
  unfold crashM crashCm crashRp
  rw [show x.cm.node i = x.node i from rfl, hnc]

/-- **a crash during a step (of an open node), or the restart of any node's process between two steps, preserves the
invariants** -/
theorem xinv_crash (hI : MInv x G) (hX : XInv x) (hLC : ∀ i, C06Cache.LeaderCache (x.node i))
    (he : Member.Enabled x i op src) (hg : ReqG x i op) (hopen : (x.node i).closed = "" ∨ k = 0) (hret : 1 ≤ retain)
    (hn : Node.restart (C05.crashDisk (x.node i) op ra ord k) retain sor = some n) :
    XInv (crashM x i op n) ∧ ∃ G', MInv (crashM x i op n) G' ∧ G'.root = G.root := by
  have hS := sideM_of hI hX hLC
  rcases hopen with ho | hk
  · obtain ⟨hp, _⟩ := C15NoPanic.good_step_two _ op ra ord (hX.good i) ho (reqok hI hX he hg)
    exact xinv_crash_core (⟨⟨hI, hS, he, fun _ => hp⟩, hn⟩ : CM x G i op ra ord src k retain sor n) hX hg.userCfg hp hret
  · subst hk
    obtain ⟨he', hp', heq⟩ := crash0_swap hI hS he hn
    rw [heq]
    exact xinv_crash_core (⟨⟨hI, hS, he', fun _ => hp'⟩, hn⟩ : CM x G i (.disconnected 0) ra ord src 0 retain sor n) hX
      (fun t c h => by cases h) hp' hret

end crash

/-- **every transition of `TransR` preserves the invariants** -/
theorem xinv_trans {x y : Member.Sys} {G : Ghost} (hI : MInv x G) (hX : XInv x)
    (hLC : ∀ i, C06Cache.LeaderCache (x.node i)) (ht : TransR x y) :
    XInv y ∧ ∃ G', MInv y G' ∧ G'.root = G.root := by
  cases ht with
  | step i op ra ord src he hg ho => exact xinv_step hI hX hLC i op ra ord src he hg ho
  | crash i op ra ord src k retain sor n he hg hopen hret hn => exact xinv_crash hI hX hLC he hg hopen hret hn
  | send i q hi hl hr hc =>
    exact ⟨⟨hX.good, hX.tree, hX.adj⟩, G, MemberStep.minv_send hI hi hl hr hc, rfl⟩

/-- in a transition of `TransR` the operation at hand does not fail (`MemberStep.TransNF`) -/
theorem transNF_of {x y : Member.Sys} {G : Ghost} (hI : MInv x G) (hX : XInv x)
    (hLC : ∀ i, C06Cache.LeaderCache (x.node i)) (ht : TransR x y) : MemberStep.TransNF x y := by
  cases ht with
  | step i op ra ord src he hg ho =>
    exact .step i op ra ord src he
      (fun _ => (C15NoPanic.good_step_two _ op ra ord (hX.good i) ho (reqok hI hX he hg)).1)
  | crash i op ra ord src k retain sor n he hg hopen hret hn =>
    rcases hopen with ho | hk
    · exact .crash i op ra ord src k retain sor n he
        (fun _ => (C15NoPanic.good_step_two _ op ra ord (hX.good i) ho (reqok hI hX he hg)).1) hn
    · subst hk
      obtain ⟨he', hp', heq⟩ := crash0_swap hI (sideM_of hI hX hLC) he hn
      rw [heq]
      exact .crash i (.disconnected 0) ra ord src 0 retain sor n he' (fun _ => hp') hn
  | send i q hi hl hr hc => exact .send i q hi hl hr hc

end MemberSide
end Raft
