/-
Client-visible semantics, second part (S42): two small closed invariants of the guarded closure of
`Lemmas/ClientRel.lean` (`RClosed`) that need NO assumption on the state or on the operation:

* `NewND R0` — every answer in the reply list is one of the fixed list `R0`, or it is no definite rejection;
* `Has R1`   — every answer of the fixed list `R1` is (still) in the reply list (answers are never taken back).

Both are preserved by the whole leader block for internal batches, by `leader.release`, `initRole` and `settle`
(`RClosed.settle_inv`), whatever the configuration does (membership changes included).
-/
import RaftVerif.Lemmas.ClientRel

namespace Raft
namespace ClientRel2
open Node ClientRel

/-- what the FSM goroutine answers: a value, or `ok` -/
def FsmAns (r : String) : Prop := IsVal r ∨ r = "ok"

theorem fsmAns_not_definite {r : String} (h : FsmAns r) : ¬ Definite r := by
  rcases h with h | h
  · exact fun hd => definite_not_val hd h
  · rw [h]; exact harmless_ok.2

/-- the second loop of `onApply` only appends answers, each a value or `ok` (whether or not an assertion failed) -/
theorem fsmApplyItems_appends (items : List QItem) : ∀ s : Node,
    ∃ rs, (s.fsmApplyItems items).replies = s.replies ++ rs ∧ ∀ r ∈ rs, FsmAns r.result := by
  induction items with
  | nil => intro s; exact ⟨[], (List.append_nil _).symm, fun r hr => by cases hr⟩
  | cons q qs ih =>
    intro s
    rw [C12.fsmApplyItems_cons]
    obtain ⟨rs, e, hrs⟩ := ih (C12.itemStep s q)
    refine ⟨mkReply? q.task (if isValTyp q.typ then valStr (C12.itemStep s q).fsm.applied.length else "ok") ++ rs,
      by rw [e, itemStep_replies, List.append_assoc], fun r hr => ?_⟩
    rcases List.mem_append.mp hr with hr | hr
    · unfold mkReply? at hr
      split at hr
      · cases hr
      · rw [List.mem_singleton.mp hr]
        show FsmAns (if isValTyp q.typ then _ else _)
        split
        · exact Or.inl ⟨_, rfl⟩
        · exact Or.inr rfl
    · exact hrs r hr

/-- `fsmApply` only appends answers, each a value or `ok` -/
theorem fsmApply_appends (s : Node) (items : List QItem) :
    ∃ rs, (s.fsmApply items).replies = s.replies ++ rs ∧ ∀ r ∈ rs, FsmAns r.result := by
  have nil : ∀ x : Node, x.replies = s.replies →
      ∃ rs, x.replies = s.replies ++ rs ∧ ∀ r ∈ rs, FsmAns r.result :=
    fun x hx => ⟨[], by rw [hx, List.append_nil], fun r hr => by cases hr⟩
  unfold Node.fsmApply
  split
  · exact nil _ (panic_fields _ _).2.2.2.2.2.1
  · split
    · exact nil _ (panic_fields _ _).2.2.2.2.2.1
    · extract_lets front s1 s2
      obtain ⟨rs, e, hrs⟩ := fsmApplyItems_appends items s1
      refine ⟨rs, ?_, hrs⟩
      rw [(assert_fields _ _ _).2.2.2.2.2.1]
      show s2.replies = _
      rw [show s2 = s1.fsmApplyItems items from rfl, e, show s1 = s.fsmApplyLogTo (front - 1) from rfl,
        C07.fsmApplyLogTo_replies]

/-- `leader.applyCommitted` only appends answers, each a value or `ok` -/
theorem applyCommittedL_appends (s : Node) :
    ∃ rs, s.applyCommittedL.replies = s.replies ++ rs ∧ ∀ r ∈ rs, FsmAns r.result := by
  unfold Node.applyCommittedL
  extract_lets sp l0 s1
  exact fsmApply_appends s1 sp.1

/-- every answer is one of `R0`, or no definite rejection -/
def NewND (R0 : List Reply) (s : Node) : Prop := ∀ r ∈ s.replies, r ∈ R0 ∨ ¬ Definite r.result

/-- every answer of `R1` is in the reply list -/
def Has (R1 : List Reply) (s : Node) : Prop := ∀ r ∈ R1, r ∈ s.replies

theorem wf_replies {s s' : Node} (hw : WF s s') : s'.replies = s.replies := by
  have e := hw.same
  unfold wobs at e
  simp only [Prod.mk.injEq] at e
  exact e.2.2.2.2.2.1

theorem pushLog_replies (s : Node) (q : QItem) :
    ((s.withLdr { s.ldr with queue := s.ldr.queue ++ [q] }).appendEntry q.toEntry).replies = s.replies :=
  (appendEntry_more _ _).1

theorem commitIdx_replies (s : Node) (i : Nat) : (s.setCommitIndexR i).1.replies = s.replies :=
  (TL.key_eq (TL.fk_setCommitIndexR s i).same).1

/-- **`NewND R0` is closed** under the guarded primitives — no definite rejection is ever allowed to the generic part
(`D = False`), anything may be pushed -/
theorem newND_closed (R0 : List Reply) : RClosed (fun _ _ => True) (fun _ => False) (NewND R0) where
  frame := fun s s' hs hw => by unfold NewND; rw [wf_replies hw]; exact hs
  reply := fun s t r hs ht hg x hx => by
    rw [reply_replies s t r ht] at hx
    rcases List.mem_append.mp hx with hx | hx
    · exact hs x hx
    · rw [List.mem_singleton.mp hx]; exact Or.inr (fun hd => hg.2 hd)
  ldrNil := fun _ _ hs _ => hs
  pushLog := fun s q hs _ _ _ => by unfold NewND; rw [pushLog_replies]; exact hs
  pushOther := fun _ _ hs _ _ _ => hs
  commitIdx := fun s i hs _ => by unfold NewND; rw [commitIdx_replies]; exact hs
  applyL := fun s hs x hx => by
    obtain ⟨rs, e, hrs⟩ := applyCommittedL_appends s
    rw [e] at hx
    rcases List.mem_append.mp hx with hx | hx
    · exact hs x hx
    · exact Or.inr (fsmAns_not_definite (hrs x hx))

/-- **`Has R1` is closed** under the guarded primitives: answers are never taken back -/
theorem has_closed (R1 : List Reply) : RClosed (fun _ _ => True) (fun _ => True) (Has R1) where
  frame := fun s s' hs hw => by unfold Has; rw [wf_replies hw]; exact hs
  reply := fun s t r hs ht _ x hx => by
    rw [reply_replies s t r ht]; exact List.mem_append_left _ (hs x hx)
  ldrNil := fun _ _ hs _ => hs
  pushLog := fun s q hs _ _ _ => by unfold Has; rw [pushLog_replies]; exact hs
  pushOther := fun _ _ hs _ _ _ => hs
  commitIdx := fun s i hs _ => by unfold Has; rw [commitIdx_replies]; exact hs
  applyL := fun s hs x hx => by
    obtain ⟨rs, e, _⟩ := applyCommittedL_appends s
    rw [e]; exact List.mem_append_left _ (hs x hx)

end ClientRel2
end Raft
